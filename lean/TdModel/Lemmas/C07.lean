import TdModel.Model.C07

namespace TdModel.C07
open TdModel

theorem modulo_eq : modulo = 4 := rfl
theorem yieldServerResponse_eq : yieldServerResponse = 1 := rfl
theorem yieldFromServer_eq : yieldFromServer = 3 := rfl
theorem maxPast_eq : maxPast = 300000000000 := rfl
theorem maxFuture_eq : maxFuture = 30000000000 := rfl
theorem maxPadding_eq : maxPadding = 1024 := rfl
theorem minPadding_eq : minPadding = 12 := rfl

/-! ### the scan loop of `MessageIDBuf.Consume`, for every sound structure -/

/-- Structures of the loop for which `Consume` is correct: the minimum search starts from the
first slot, and the loop has exactly the duplicate test and the minimum update — as independent
ifs in either order, or as switch cases with the duplicate test first. -/
def good (sh : Shape) : Bool :=
  sh.initFirst && (match sh.items with
    | [.dup, .min _] => true
    | [.min _, .dup] => !sh.exclusive
    | _ => false)

def strictOf (sh : Shape) : Bool :=
  match sh.items with
  | [.dup, .min s] => s
  | [.min s, .dup] => s
  | _ => true

/-- The structure found in the current source is a sound one. -/
theorem shape_good : good shape = true := by decide

theorem below_true_le (s : Bool) (a b : Int) (h : below s a b = true) : a ≤ b := by
  unfold below at h; cases s <;> simp at h <;> omega

theorem below_false_le (s : Bool) (a b : Int) (h : below s a b = false) : b ≤ a := by
  unfold below at h; cases s <;> simp at h <;> omega

/-- The loop in normal form: duplicate test, then minimum update with `<` or `≤`. -/
def scanMinS (s : Bool) (newID : Int) : List Int → Nat → Nat × Int → Option (Nat × Int)
  | [], _, acc => some acc
  | id :: rest, i, acc =>
    if id = newID then none
    else scanMinS s newID rest (i + 1) (if below s id acc.2 then (i, id) else acc)

theorem slotTests_good (sh : Shape) (hg : good sh = true) (x : Int) (i : Nat) (id : Int) (acc : Nat × Int) :
    slotTests sh.exclusive x i id sh.items acc =
      if id = x then none else some (if below (strictOf sh) id acc.2 then (i, id) else acc) := by
  unfold good at hg
  unfold strictOf
  rcases hi : sh.items with _ | ⟨a, _ | ⟨b, _ | ⟨c, r⟩⟩⟩ <;> rw [hi] at hg <;> simp at hg
  all_goals (cases a <;> cases b <;> simp at hg)
  · -- [dup, min s]
    rename_i s
    by_cases hx : id = x <;> by_cases hb : below s id acc.2 = true <;>
      cases he : sh.exclusive <;> simp [slotTests, hx, hb]
  · -- [min s, dup], not exclusive
    rename_i s
    have he : sh.exclusive = false := hg.2
    by_cases hx : id = x <;> by_cases hb : below s id acc.2 = true <;> simp [slotTests, hx, hb, he]

theorem scanW_good (sh : Shape) (hg : good sh = true) (x : Int) : ∀ (l : List Int) (i : Nat) (acc : Nat × Int),
    scanW sh x l i acc = scanMinS (strictOf sh) x l i acc := by
  intro l
  induction l with
  | nil => intro i acc; rfl
  | cons id rest ih =>
    intro i acc
    simp only [scanW, scanMinS, slotTests_good sh hg]
    by_cases hx : id = x
    · simp [hx]
    · simp only [hx, if_false]; exact ih _ _

theorem scanMinS_none_iff (s : Bool) (x : Int) : ∀ (l : List Int) (i : Nat) (acc : Nat × Int),
    scanMinS s x l i acc = none ↔ x ∈ l := by
  intro l
  induction l with
  | nil => intro i acc; simp [scanMinS]
  | cons id rest ih =>
    intro i acc
    simp only [scanMinS]
    by_cases h : id = x
    · simp [h]
    · simp only [h, if_false, ih, List.mem_cons]
      constructor
      · intro hx; exact Or.inr hx
      · intro hx
        rcases hx with hx | hx
        · exact absurd hx.symm h
        · exact hx

theorem scanMinS_some (s : Bool) (x : Int) : ∀ (l : List Int) (i mi : Nat) (m : Int) (r : Nat × Int),
    scanMinS s x l i (mi, m) = some r →
    r.2 ≤ m ∧ (∀ y ∈ l, r.2 ≤ y) ∧ (r = (mi, m) ∨ (i ≤ r.1 ∧ l[r.1 - i]? = some r.2)) := by
  intro l
  induction l with
  | nil =>
    intro i mi m r h
    simp only [scanMinS, Option.some.injEq] at h
    subst h
    simp
  | cons id rest ih =>
    intro i mi m r h
    simp only [scanMinS] at h
    by_cases hx : id = x
    · simp [hx] at h
    · simp only [hx, if_false] at h
      cases hlt : below s id m with
      | true =>
        simp only [hlt, if_true] at h
        have hle := below_true_le s id m hlt
        obtain ⟨h1, h2, h3⟩ := ih (i + 1) i id r h
        refine ⟨by omega, ?_, ?_⟩
        · intro y hy
          rcases List.mem_cons.mp hy with hy | hy
          · omega
          · exact h2 y hy
        · right
          rcases h3 with h3 | ⟨h3, h4⟩
          · subst h3; simp
          · refine ⟨by omega, ?_⟩
            have : r.1 - i = (r.1 - (i + 1)) + 1 := by omega
            rw [this, List.getElem?_cons_succ]; exact h4
      | false =>
        simp only [hlt, Bool.false_eq_true, if_false] at h
        have hle := below_false_le s id m hlt
        obtain ⟨h1, h2, h3⟩ := ih (i + 1) mi m r h
        refine ⟨h1, ?_, ?_⟩
        · intro y hy
          rcases List.mem_cons.mp hy with hy | hy
          · omega
          · exact h2 y hy
        · rcases h3 with h3 | ⟨h3, h4⟩
          · left; exact h3
          · right
            refine ⟨by omega, ?_⟩
            have : r.1 - i = (r.1 - (i + 1)) + 1 := by omega
            rw [this, List.getElem?_cons_succ]; exact h4

/-- The three outcomes of `Consume` on a non-empty buffer, for every sound structure. -/
theorem consumeW_cases (sh : Shape) (hg : good sh = true) (b : List Int) (hb : b ≠ []) (x : Int) :
    (x ∈ b ∧ consumeW sh b x = (b, false)) ∨
    (x ∉ b ∧ ∃ k m, b[k]? = some m ∧ (∀ y ∈ b, m ≤ y) ∧
      ((x < m ∧ consumeW sh b x = (b, false)) ∨ (¬ x < m ∧ consumeW sh b x = (b.set k x, true)))) := by
  cases b with
  | nil => exact absurd rfl hb
  | cons b0 t =>
    have hinit : sh.initFirst = true := by
      unfold good at hg; simp at hg; exact hg.1
    have e : consumeW sh (b0 :: t) x = (match scanMinS (strictOf sh) x (b0 :: t) 0 (0, b0) with
      | none => (b0 :: t, false)
      | some (minIDx, minID) =>
        if below sh.tailStrict x minID then (b0 :: t, false) else ((b0 :: t).set minIDx x, true)) := by
      simp only [consumeW, scanW_good sh hg, hinit, if_true]
      rfl
    cases h : scanMinS (strictOf sh) x (b0 :: t) 0 (0, b0) with
    | none =>
      left
      rw [e, h]
      exact ⟨(scanMinS_none_iff _ x _ _ _).mp h, rfl⟩
    | some r =>
      right
      have hx : x ∉ b0 :: t := by
        intro hm
        have := (scanMinS_none_iff (strictOf sh) x (b0 :: t) 0 (0, b0)).mpr hm
        rw [h] at this; cases this
      obtain ⟨_, h2, h3⟩ := scanMinS_some (strictOf sh) x (b0 :: t) 0 0 b0 r h
      have hk : (b0 :: t)[r.1]? = some r.2 := by
        rcases h3 with h3 | ⟨_, h4⟩
        · subst h3; rfl
        · simpa using h4
      have hne : x ≠ r.2 := fun e' => hx (e' ▸ List.mem_iff_getElem?.mpr ⟨r.1, hk⟩)
      refine ⟨hx, r.1, r.2, hk, h2, ?_⟩
      rw [e, h]
      cases hb' : below sh.tailStrict x r.2 with
      | true =>
        left
        have := below_true_le _ _ _ hb'
        exact ⟨by omega, by simp [hb']⟩
      | false =>
        right
        have := below_false_le _ _ _ hb'
        exact ⟨by omega, by simp [hb']⟩

theorem consume_cases (b : List Int) (hb : b ≠ []) (x : Int) :
    (x ∈ b ∧ consume b x = (b, false)) ∨
    (x ∉ b ∧ ∃ k m, b[k]? = some m ∧ (∀ y ∈ b, m ≤ y) ∧
      ((x < m ∧ consume b x = (b, false)) ∨ (¬ x < m ∧ consume b x = (b.set k x, true)))) :=
  consumeW_cases shape shape_good b hb x

theorem consume_length (b : List Int) (x : Int) : (consume b x).1.length = b.length := by
  cases b with
  | nil => rfl
  | cons b0 t =>
    rcases consume_cases (b0 :: t) (by simp) x with ⟨_, e⟩ | ⟨_, k, m, _, _, ⟨_, e⟩ | ⟨_, e⟩⟩ <;> rw [e] <;> simp

/-- `Consume` accepts exactly the ids that are neither stored nor below every stored value. -/
theorem consume_accepts_iff (b : List Int) (hb : b ≠ []) (x : Int) :
    (consume b x).2 = true ↔ x ∉ b ∧ ¬ (∀ y ∈ b, x < y) := by
  rcases consume_cases b hb x with ⟨hm, e⟩ | ⟨hm, k, m, hk, hmin, ⟨hlt, e⟩ | ⟨hlt, e⟩⟩
  · rw [e]; simp [hm]
  · rw [e]
    constructor
    · intro h; cases h
    · intro ⟨_, h⟩
      exact absurd (fun y hy => Int.lt_of_lt_of_le hlt (hmin y hy)) h
  · rw [e]
    constructor
    · intro _
      exact ⟨hm, fun h => hlt (h m (List.mem_iff_getElem?.mpr ⟨k, hk⟩))⟩
    · intro _; rfl

/-- A rejected id leaves the buffer unchanged. -/
theorem consume_reject_unchanged (b : List Int) (x : Int) (h : (consume b x).2 = false) :
    (consume b x).1 = b := by
  cases b with
  | nil => rfl
  | cons b0 t =>
    rcases consume_cases (b0 :: t) (by simp) x with ⟨_, e⟩ | ⟨_, k, m, _, _, ⟨_, e⟩ | ⟨_, e⟩⟩
    · rw [e]
    · rw [e]
    · rw [e] at h; cases h

/-! ### the buffer holds the N largest accepted ids -/

/-- Invariant linking the Go slice `b` (0 = never written) with the accepted ids `acc`. -/
structure Inv (b acc : List Int) : Prop where
  pos : ∀ a ∈ acc, 0 < a
  nonneg : ∀ x ∈ b, 0 ≤ x
  sub : ∀ x ∈ b, x = 0 ∨ x ∈ acc
  largest : ∀ a ∈ acc, a ∈ b ∨ ∀ s ∈ b, a < s
  distinct : ∀ (i j : Nat) (x : Int), b[i]? = some x → b[j]? = some x → x ≠ 0 → i = j

theorem inv_init (n : Nat) : Inv (newBuf n) [] := by
  refine ⟨by simp, ?_, ?_, by simp, ?_⟩
  · intro x hx; have := (List.mem_replicate.mp hx).2; omega
  · intro x hx; exact Or.inl (List.mem_replicate.mp hx).2
  · intro i j x hi _ hx
    have : x ∈ newBuf n := List.mem_iff_getElem?.mpr ⟨i, hi⟩
    exact absurd (List.mem_replicate.mp this).2 hx

theorem inv_step (b acc : List Int) (hb : b ≠ []) (x : Int) (hx : 0 < x) (inv : Inv b acc) :
    Inv (consume b x).1 (if (consume b x).2 then x :: acc else acc) := by
  rcases consume_cases b hb x with ⟨_, e⟩ | ⟨hm, k, m, hk, hmin, ⟨_, e⟩ | ⟨hlt, e⟩⟩
  · rw [e]; exact inv
  · rw [e]; exact inv
  · rw [e]
    simp only [if_true]
    have hkl : k < b.length := by
      obtain ⟨h, _⟩ := List.getElem?_eq_some_iff.mp hk; exact h
    have hmb : m ∈ b := List.mem_iff_getElem?.mpr ⟨k, hk⟩
    have hmx : m < x := by
      have : m ≠ x := fun h => hm (h ▸ hmb)
      omega
    refine ⟨?_, ?_, ?_, ?_, ?_⟩
    · intro a ha
      rcases List.mem_cons.mp ha with ha | ha
      · omega
      · exact inv.pos a ha
    · intro y hy
      rcases List.mem_or_eq_of_mem_set hy with hy | hy
      · exact inv.nonneg y hy
      · omega
    · intro y hy
      rcases List.mem_or_eq_of_mem_set hy with hy | hy
      · rcases inv.sub y hy with h | h
        · exact Or.inl h
        · exact Or.inr (List.mem_cons_of_mem _ h)
      · exact Or.inr (by simp [hy])
    · intro a ha
      rcases List.mem_cons.mp ha with ha | ha
      · left; subst ha
        exact List.mem_iff_getElem?.mpr ⟨k, List.getElem?_set_self hkl⟩
      · rcases inv.largest a ha with hab | hlow
        · obtain ⟨j, hj⟩ := List.mem_iff_getElem?.mp hab
          by_cases hjk : k = j
          · subst hjk
            have ham : a = m := by rw [hk] at hj; exact (Option.some.inj hj).symm
            right
            intro s hs
            obtain ⟨i, hi⟩ := List.mem_iff_getElem?.mp hs
            by_cases hik : k = i
            · subst hik
              rw [List.getElem?_set_self hkl] at hi
              have := Option.some.inj hi
              omega
            · rw [List.getElem?_set_ne hik] at hi
              have hsb : s ∈ b := List.mem_iff_getElem?.mpr ⟨i, hi⟩
              have h1 := hmin s hsb
              have h2 : s ≠ m := by
                intro hsm
                subst hsm
                have hpos := inv.pos a ha
                exact hik (inv.distinct k i s hk hi (by omega))
              omega
          · left
            exact List.mem_iff_getElem?.mpr ⟨j, by rw [List.getElem?_set_ne hjk]; exact hj⟩
        · right
          intro s hs
          rcases List.mem_or_eq_of_mem_set hs with hs | hs
          · exact hlow s hs
          · have := hlow m hmb; omega
    · intro i j y hi hj hy
      by_cases hik : k = i
      · by_cases hjk : k = j
        · omega
        · subst hik
          rw [List.getElem?_set_self hkl] at hi
          rw [List.getElem?_set_ne hjk] at hj
          have : y = x := (Option.some.inj hi).symm
          subst this
          exact absurd (List.mem_iff_getElem?.mpr ⟨j, hj⟩) hm
      · by_cases hjk : k = j
        · subst hjk
          rw [List.getElem?_set_self hkl] at hj
          rw [List.getElem?_set_ne hik] at hi
          have : y = x := (Option.some.inj hj).symm
          subst this
          exact absurd (List.mem_iff_getElem?.mpr ⟨i, hi⟩) hm
        · rw [List.getElem?_set_ne hik] at hi
          rw [List.getElem?_set_ne hjk] at hj
          exact inv.distinct i j y hi hj hy

theorem runAcc_inv (ids : List Int) : ∀ (b acc : List Int), b ≠ [] → (∀ x ∈ ids, 0 < x) → Inv b acc →
    Inv (runAcc b acc ids).1 (runAcc b acc ids).2 ∧ (runAcc b acc ids).1.length = b.length := by
  induction ids with
  | nil => intro b acc _ _ inv; exact ⟨inv, rfl⟩
  | cons x rest ih =>
    intro b acc hb hpos inv
    have hx : 0 < x := hpos x (by simp)
    have hrest : ∀ y ∈ rest, 0 < y := fun y hy => hpos y (by simp [hy])
    have hlen := consume_length b x
    have hb' : (consume b x).1 ≠ [] := by
      intro h; rw [h] at hlen; cases b with
      | nil => exact hb rfl
      | cons _ _ => simp at hlen
    have step := inv_step b acc hb x hx inv
    simp only [runAcc]
    by_cases hv : (consume b x).2 = true
    · simp only [hv, if_true] at step ⊢
      have := ih _ _ hb' hrest step
      exact ⟨this.1, by rw [this.2, hlen]⟩
    · have hv' : (consume b x).2 = false := by simpa using hv
      simp only [hv', Bool.false_eq_true, if_false] at step ⊢
      have := ih _ _ hb' hrest step
      exact ⟨this.1, by rw [this.2, hlen]⟩

theorem runAcc_nodup (ids : List Int) : ∀ (b acc : List Int), b ≠ [] → (∀ x ∈ ids, 0 < x) → Inv b acc →
    acc.Nodup → (runAcc b acc ids).2.Nodup := by
  induction ids with
  | nil => intro b acc _ _ _ hnd; exact hnd
  | cons x rest ih =>
    intro b acc hb hpos inv hnd
    have hx : 0 < x := hpos x (by simp)
    have hrest : ∀ y ∈ rest, 0 < y := fun y hy => hpos y (by simp [hy])
    have hlen := consume_length b x
    have hb' : (consume b x).1 ≠ [] := by
      intro h; rw [h] at hlen; cases b with
      | nil => exact hb rfl
      | cons _ _ => simp at hlen
    have step := inv_step b acc hb x hx inv
    simp only [runAcc]
    by_cases hv : (consume b x).2 = true
    · simp only [hv, if_true] at step ⊢
      have hacc := (consume_accepts_iff b hb x).mp hv
      have hxa : x ∉ acc := by
        intro hmem
        rcases inv.largest x hmem with h | h
        · exact hacc.1 h
        · exact hacc.2 h
      exact ih _ _ hb' hrest step (List.nodup_cons.mpr ⟨hxa, hnd⟩)
    · have hv' : (consume b x).2 = false := by simpa using hv
      simp only [hv', Bool.false_eq_true, if_false] at step ⊢
      exact ih _ _ hb' hrest step hnd
theorem count_set_zero (l : List Int) : ∀ (k : Nat) (x : Int), l[k]? = some 0 → x ≠ 0 →
    (l.set k x).count 0 + 1 = l.count 0 := by
  induction l with
  | nil => intro k x h; simp at h
  | cons a rest ih =>
    intro k x h hx
    cases k with
    | zero =>
      simp at h
      subst h
      simp [List.count_cons, hx]
    | succ j =>
      simp only [List.getElem?_cons_succ] at h
      have := ih j x h hx
      simp only [List.set_cons_succ, List.count_cons]
      omega

end TdModel.C07
