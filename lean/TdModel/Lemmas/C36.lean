import TdModel.Model.C36

namespace TdModel.C36

/-- The regenerated comparator is the specification's strict order. Everything else in this
file is derived from this one lemma, so only it depends on the shape of the source expression. -/
theorem less_iff (a b : Ent) :
    less a b = true ↔ (a.off < b.off ∨ (a.off = b.off ∧ a.len > b.len)) := by
  unfold less Facts.C36.less
  by_cases h1 : a.off < b.off <;> by_cases h2 : a.off = b.off <;> by_cases h3 : a.len > b.len <;>
    simp [h1, h2, h3] <;> omega

theorem not_less_iff_ordered (a b : Ent) : less b a = false ↔ Ordered a b := by
  have h := less_iff b a
  unfold Ordered
  cases hb : less b a
  · simp only [hb, Bool.false_eq_true, false_iff, true_iff] at *; omega
  · simp only [hb, true_iff, Bool.true_eq_false, false_iff] at *; omega

theorem ordered_trans {a b c : Ent} (h1 : Ordered a b) (h2 : Ordered b c) : Ordered a c := by
  unfold Ordered at *; omega

theorem ordered_antisymm {a b : Ent} (h1 : Ordered a b) (h2 : Ordered b a) : a = b := by
  unfold Ordered at *
  cases a; cases b
  simp only [Ent.mk.injEq] at *
  omega

theorem ordered_total (a b : Ent) : Ordered a b ∨ Ordered b a := by
  unfold Ordered; omega

/-- For a transitive relation, "no adjacent inversion" is "pairwise". -/
theorem adj_head {α} {r : α → α → Prop} (tr : ∀ x y z, r x y → r y z → r x z) :
    ∀ (l : List α) (a : α), AdjSorted r (a :: l) → ∀ b ∈ l, r a b := by
  intro l
  induction l with
  | nil => intro a _ b hb; cases hb
  | cons c t ih =>
    intro a h b hb
    have h' : r a c ∧ AdjSorted r (c :: t) := h
    cases hb with
    | head => exact h'.1
    | tail _ hb => exact tr _ _ _ h'.1 (ih c h'.2 b hb)

theorem adj_tail {α} {r : α → α → Prop} : ∀ (l : List α) (a : α), AdjSorted r (a :: l) → AdjSorted r l := by
  intro l a h
  cases l with
  | nil => trivial
  | cons c t => exact (show r a c ∧ AdjSorted r (c :: t) from h).2

theorem adj_pairwise {α} {r : α → α → Prop} (tr : ∀ x y z, r x y → r y z → r x z) :
    ∀ l : List α, AdjSorted r l → l.Pairwise r := by
  intro l
  induction l with
  | nil => intro _; exact List.Pairwise.nil
  | cons a t ih =>
    intro h
    exact List.Pairwise.cons (adj_head tr t a h) (ih (adj_tail t a h))

theorem pairwise_adj {α} {r : α → α → Prop} : ∀ l : List α, l.Pairwise r → AdjSorted r l := by
  intro l
  induction l with
  | nil => intro _; trivial
  | cons a t ih =>
    intro h
    cases t with
    | nil => trivial
    | cons b t' =>
      have h' := List.pairwise_cons.mp h
      exact ⟨h'.1 b (List.Mem.head _), ih h'.2⟩

theorem adj_congr {α} {r s : α → α → Prop} (hrs : ∀ a b, r a b → s a b) :
    ∀ l : List α, AdjSorted r l → AdjSorted s l := by
  intro l
  induction l with
  | nil => intro _; trivial
  | cons a t ih =>
    intro h
    cases t with
    | nil => trivial
    | cons b t' =>
      have h' : r a b ∧ AdjSorted r (b :: t') := h
      exact ⟨hrs a b h'.1, ih h'.2⟩

/-- An output obeying `sort.Sort`'s contract for the regenerated comparator is ordered. -/
theorem contract_ordered (l : List Ent) (h : AdjSorted (fun a b => less b a = false) l) :
    l.Pairwise Ordered :=
  adj_pairwise (r := Ordered) (fun _ _ _ h1 h2 => ordered_trans h1 h2) l
    (adj_congr (fun a b hab => (not_less_iff_ordered a b).mp hab) l h)

/-! ### The executable sort satisfies the contract -/

theorem insert_perm (lt : Ent → Ent → Bool) (x : Ent) : ∀ l, (insert lt x l).Perm (x :: l) := by
  intro l
  induction l with
  | nil => exact List.Perm.refl _
  | cons y t ih =>
    unfold insert
    split
    · exact List.Perm.refl _
    · exact (List.Perm.cons y ih).trans (List.Perm.swap x y t)

theorem isort_perm (lt : Ent → Ent → Bool) : ∀ l, (isort lt l).Perm l := by
  intro l
  induction l with
  | nil => exact List.Perm.refl _
  | cons x t ih =>
    unfold isort
    exact (insert_perm lt x _).trans (List.Perm.cons x ih)

theorem insert_pairwise (x : Ent) : ∀ l, l.Pairwise Ordered → (insert less x l).Pairwise Ordered := by
  intro l
  induction l with
  | nil => intro _; exact List.Pairwise.cons (fun _ h => by cases h) List.Pairwise.nil
  | cons y t ih =>
    intro h
    have hy := List.pairwise_cons.mp h
    unfold insert
    split
    · rename_i hlt
      have hxy : Ordered x y := by
        have := (less_iff x y).mp hlt
        unfold Ordered; omega
      refine List.Pairwise.cons ?_ h
      intro b hb
      cases hb with
      | head => exact hxy
      | tail _ hb => exact ordered_trans hxy (hy.1 b hb)
    · rename_i hlt
      have hyx : Ordered y x := by
        have hf : less x y = false := by simpa using hlt
        exact (not_less_iff_ordered y x).mp hf
      refine List.Pairwise.cons ?_ (ih hy.2)
      intro b hb
      have hb' := (insert_perm less x t).subset hb
      cases hb' with
      | head => exact hyx
      | tail _ hb'' => exact hy.1 b hb''

theorem isort_pairwise : ∀ l, (isort less l).Pairwise Ordered := by
  intro l
  induction l with
  | nil => exact List.Pairwise.nil
  | cons x t ih => unfold isort; exact insert_pairwise x _ ih

/-- Two ordered permutations of the same list are equal (ties are equal `(off,len)` pairs). -/
theorem ordered_perm_unique : ∀ (l₁ l₂ : List Ent), l₁.Perm l₂ → l₁.Pairwise Ordered → l₂.Pairwise Ordered → l₁ = l₂ := by
  intro l₁
  induction l₁ with
  | nil => intro l₂ hp _ _; exact (List.Perm.nil_eq hp)
  | cons a t ih =>
    intro l₂ hp h1 h2
    cases l₂ with
    | nil => exact absurd hp.symm (by intro h; have := h.length_eq; simp at this)
    | cons b t₂ =>
      have p1 := List.pairwise_cons.mp h1
      have p2 := List.pairwise_cons.mp h2
      have hab : a = b := by
        have ha : a ∈ b :: t₂ := hp.subset (List.Mem.head _)
        have hb : b ∈ a :: t := hp.symm.subset (List.Mem.head _)
        cases ha with
        | head => rfl
        | tail _ ha' =>
          cases hb with
          | head => rfl
          | tail _ hb' => exact ordered_antisymm (p1.1 b hb') (p2.1 a ha')
      subst hab
      rw [ih t₂ ((List.perm_cons a).mp hp) p1.2 p2.2]

theorem holds_iff : ∀ l : List Ent, holds l = true ↔ AdjSorted Ordered l := by
  intro l
  induction l with
  | nil => simp [holds, AdjSorted]
  | cons a t ih =>
    cases t with
    | nil => simp [holds, AdjSorted]
    | cons b t' =>
      simp only [holds, AdjSorted, Bool.and_eq_true, decide_eq_true_eq]
      rw [ih]

end TdModel.C36
