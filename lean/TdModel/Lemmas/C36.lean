import TdModel.Model.C36

namespace TdModel.C36

/-! ### The specification's comparator and order -/

theorem specLess_iff (a b : Ent) :
    specLess a b = true ↔ (a.off < b.off ∨ (a.off = b.off ∧ a.len > b.len)) := by
  unfold specLess
  by_cases h1 : a.off < b.off <;> by_cases h2 : a.off = b.off <;> by_cases h3 : a.len > b.len <;>
    simp [h1, h2, h3]

theorem not_specLess_iff_ordered (a b : Ent) : specLess b a = false ↔ Ordered a b := by
  have h := specLess_iff b a
  unfold Ordered
  cases hb : specLess b a
  · simp only [hb, Bool.false_eq_true, false_iff, true_iff] at *; omega
  · simp only [hb, true_iff, Bool.true_eq_false, false_iff] at *; omega

theorem ordered_trans {a b c : Ent} (h1 : Ordered a b) (h2 : Ordered b c) : Ordered a c := by
  unfold Ordered at *; omega

theorem ordered_antisymm {a b : Ent} (h1 : Ordered a b) (h2 : Ordered b a) : a = b := by
  unfold Ordered at *
  cases a; cases b
  simp only [Ent.mk.injEq] at *
  omega

theorem ordered_total (a b : Ent) : Ordered a b ∨ Ordered b a := by
  unfold Ordered; omega

/-! ### The regenerated comparator (statements that hold for the pinned expression AND for the
specification's, and for nothing that orders some comparable pair differently) -/

/-- The source's comparator agrees with the specification's on every pair except possibly those
where `b` starts earlier than `a` and is shorter. -/
theorem less_eq_spec (a b : Ent) (h : ¬ (b.off < a.off ∧ b.len < a.len)) : less a b = specLess a b := by
  unfold less Facts.C36.less specLess
  by_cases h1 : a.off < b.off <;> by_cases h2 : a.off = b.off <;> by_cases h3 : a.len > b.len <;>
    simp [h1, h2, h3] <;> omega

/-- If the source's comparator does not put `b` before `a`, then `a, b` is in specified order. -/
theorem less_false_ordered (a b : Ent) (h : less b a = false) : Ordered a b := by
  unfold less Facts.C36.less at h
  unfold Ordered
  by_cases h1 : b.off < a.off <;> by_cases h2 : b.off = a.off <;> by_cases h3 : b.len > a.len <;>
    simp [h1, h2, h3] at h <;> omega

theorem less_irrefl (a : Ent) : less a a = false := by
  unfold less Facts.C36.less
  simp

/-! ### Adjacent vs pairwise -/

theorem adj_head {α} {r : α → α → Prop} (tr : ∀ x y z, r x y → r y z → r x z) :
    ∀ (l : List α) (a : α), AdjSorted r (a :: l) → ∀ b ∈ l, r a b := by
  intro l
  induction l with
  | nil => intro a _ b hb; cases hb
  | cons c t ih =>
    intro a h b hb
    have h' : r a c ∧ AdjSorted r (c :: t) := h
    cases hb with
    | head => exact h'.1
    | tail _ hb => exact tr _ _ _ h'.1 (ih c h'.2 b hb)

theorem adj_tail {α} {r : α → α → Prop} : ∀ (l : List α) (a : α), AdjSorted r (a :: l) → AdjSorted r l := by
  intro l a h
  cases l with
  | nil => trivial
  | cons c t => exact (show r a c ∧ AdjSorted r (c :: t) from h).2

theorem adj_pairwise {α} {r : α → α → Prop} (tr : ∀ x y z, r x y → r y z → r x z) :
    ∀ l : List α, AdjSorted r l → l.Pairwise r := by
  intro l
  induction l with
  | nil => intro _; exact List.Pairwise.nil
  | cons a t ih =>
    intro h
    exact List.Pairwise.cons (adj_head tr t a h) (ih (adj_tail t a h))

theorem pairwise_adj {α} {r : α → α → Prop} : ∀ l : List α, l.Pairwise r → AdjSorted r l := by
  intro l
  induction l with
  | nil => intro _; trivial
  | cons a t ih =>
    intro h
    cases t with
    | nil => trivial
    | cons b t' =>
      have h' := List.pairwise_cons.mp h
      exact ⟨h'.1 b (List.Mem.head _), ih h'.2⟩

/-- Change the relation on the members of the list only. -/
theorem adj_congr_mem {α} {r s : α → α → Prop} :
    ∀ l : List α, (∀ a ∈ l, ∀ b ∈ l, r a b → s a b) → AdjSorted r l → AdjSorted s l := by
  intro l
  induction l with
  | nil => intro _ _; trivial
  | cons a t ih =>
    intro hrs h
    cases t with
    | nil => trivial
    | cons b t' =>
      have h' : r a b ∧ AdjSorted r (b :: t') := h
      exact ⟨hrs a (List.Mem.head _) b (List.Mem.tail _ (List.Mem.head _)) h'.1,
        ih (fun x hx y hy => hrs x (List.Mem.tail _ hx) y (List.Mem.tail _ hy)) h'.2⟩

theorem adj_congr {α} {r s : α → α → Prop} (hrs : ∀ a b, r a b → s a b) (l : List α)
    (h : AdjSorted r l) : AdjSorted s l :=
  adj_congr_mem l (fun a _ b _ => hrs a b) h

/-- An output without adjacent inversion w.r.t. the SOURCE's comparator is ordered as specified. -/
theorem contract_ordered (l : List Ent) (h : AdjSorted (fun a b => less b a = false) l) :
    l.Pairwise Ordered :=
  adj_pairwise (r := Ordered) (fun _ _ _ h1 h2 => ordered_trans h1 h2) l
    (adj_congr (fun a b hab => less_false_ordered a b hab) l h)

theorem spec_contract_ordered (l : List Ent) (h : AdjSorted (fun a b => specLess b a = false) l) :
    l.Pairwise Ordered :=
  adj_pairwise (r := Ordered) (fun _ _ _ h1 h2 => ordered_trans h1 h2) l
    (adj_congr (fun a b hab => (not_specLess_iff_ordered a b).mp hab) l h)

/-! ### Insertion sort -/

theorem insert_perm (lt : Ent → Ent → Bool) (x : Ent) : ∀ l, (insert lt x l).Perm (x :: l) := by
  intro l
  induction l with
  | nil => exact List.Perm.refl _
  | cons y t ih =>
    unfold insert
    split
    · exact List.Perm.refl _
    · exact (List.Perm.cons y ih).trans (List.Perm.swap x y t)

theorem isort_perm (lt : Ent → Ent → Bool) : ∀ l, (isort lt l).Perm l := by
  intro l
  induction l with
  | nil => exact List.Perm.refl _
  | cons x t ih =>
    unfold isort
    exact (insert_perm lt x _).trans (List.Perm.cons x ih)

theorem insert_pairwise (x : Ent) : ∀ l, l.Pairwise Ordered → (insert specLess x l).Pairwise Ordered := by
  intro l
  induction l with
  | nil => intro _; exact List.Pairwise.cons (fun _ h => by cases h) List.Pairwise.nil
  | cons y t ih =>
    intro h
    have hy := List.pairwise_cons.mp h
    unfold insert
    split
    · rename_i hlt
      have hxy : Ordered x y := by
        have := (specLess_iff x y).mp hlt
        unfold Ordered; omega
      refine List.Pairwise.cons ?_ h
      intro b hb
      cases hb with
      | head => exact hxy
      | tail _ hb => exact ordered_trans hxy (hy.1 b hb)
    · rename_i hlt
      have hyx : Ordered y x := by
        have hf : specLess x y = false := by simpa using hlt
        exact (not_specLess_iff_ordered y x).mp hf
      refine List.Pairwise.cons ?_ (ih hy.2)
      intro b hb
      have hb' := (insert_perm specLess x t).subset hb
      cases hb' with
      | head => exact hyx
      | tail _ hb'' => exact hy.1 b hb''

theorem isort_pairwise : ∀ l, (isort specLess l).Pairwise Ordered := by
  intro l
  induction l with
  | nil => exact List.Pairwise.nil
  | cons x t ih => unfold isort; exact insert_pairwise x _ ih

theorem insert_congr (lt₁ lt₂ : Ent → Ent → Bool) (x : Ent) :
    ∀ l, (∀ y ∈ l, lt₁ x y = lt₂ x y) → insert lt₁ x l = insert lt₂ x l := by
  intro l
  induction l with
  | nil => intro _; rfl
  | cons y t ih =>
    intro h
    unfold insert
    rw [h y (List.Mem.head _), ih (fun z hz => h z (List.Mem.tail _ hz))]

theorem isort_congr (lt₁ lt₂ : Ent → Ent → Bool) :
    ∀ l, (∀ a ∈ l, ∀ b ∈ l, lt₁ a b = lt₂ a b) → isort lt₁ l = isort lt₂ l := by
  intro l
  induction l with
  | nil => intro _; rfl
  | cons x t ih =>
    intro h
    unfold isort
    rw [ih (fun a ha b hb => h a (List.Mem.tail _ ha) b (List.Mem.tail _ hb))]
    apply insert_congr
    intro y hy
    exact h x (List.Mem.head _) y (List.Mem.tail _ ((isort_perm lt₂ t).subset hy))

/-- Two ordered permutations of the same list are equal (ties are equal `(off,len)` pairs). -/
theorem ordered_perm_unique : ∀ (l₁ l₂ : List Ent), l₁.Perm l₂ → l₁.Pairwise Ordered → l₂.Pairwise Ordered → l₁ = l₂ := by
  intro l₁
  induction l₁ with
  | nil => intro l₂ hp _ _; exact (List.Perm.nil_eq hp)
  | cons a t ih =>
    intro l₂ hp h1 h2
    cases l₂ with
    | nil => exact absurd hp.symm (by intro h; have := h.length_eq; simp at this)
    | cons b t₂ =>
      have p1 := List.pairwise_cons.mp h1
      have p2 := List.pairwise_cons.mp h2
      have hab : a = b := by
        have ha : a ∈ b :: t₂ := hp.subset (List.Mem.head _)
        have hb : b ∈ a :: t := hp.symm.subset (List.Mem.head _)
        cases ha with
        | head => rfl
        | tail _ ha' =>
          cases hb with
          | head => rfl
          | tail _ hb' => exact ordered_antisymm (p1.1 b hb') (p2.1 a ha')
      subst hab
      rw [ih t₂ ((List.perm_cons a).mp hp) p1.2 p2.2]

theorem holds_iff : ∀ l : List Ent, holds l = true ↔ AdjSorted Ordered l := by
  intro l
  induction l with
  | nil => simp [holds, AdjSorted]
  | cons a t ih =>
    cases t with
    | nil => simp [holds, AdjSorted]
    | cons b t' =>
      simp only [holds, AdjSorted, Bool.and_eq_true, decide_eq_true_eq]
      rw [ih]

/-! ### Compatible lists: where the source's comparator is the specification's -/

theorem less_eq_spec_on {l : List Ent} (hc : Compatible l) :
    ∀ a ∈ l, ∀ b ∈ l, less a b = specLess a b := by
  intro a ha b hb
  apply less_eq_spec
  intro h
  have := hc a ha b hb h.1
  omega

theorem compatible_iff (l : List Ent) : compatible l = true ↔ Compatible l := by
  unfold compatible Compatible
  simp only [List.all_eq_true, Bool.or_eq_true, Bool.not_eq_true', decide_eq_false_iff_not, decide_eq_true_eq]
  constructor
  · intro h a ha b hb hlt
    rcases h a ha b hb with h' | h'
    · exact absurd hlt h'
    · exact h'
  · intro h a ha b hb
    by_cases hlt : b.off < a.off
    · exact Or.inr (h a ha b hb hlt)
    · exact Or.inl hlt

theorem compatible_perm {l₁ l₂ : List Ent} (hp : l₁.Perm l₂) (hc : Compatible l₂) : Compatible l₁ :=
  fun a ha b hb => hc a (hp.subset ha) b (hp.subset hb)

theorem specLess_swo (l : List Ent) : StrictWeakOrderOn specLess l := by
  refine ⟨?_, ?_, ?_⟩
  · intro a _
    cases h : specLess a a
    · rfl
    · have := (specLess_iff a a).mp h; omega
  · intro a _ b _ c _ h1 h2
    have h1 := (specLess_iff a b).mp h1
    have h2 := (specLess_iff b c).mp h2
    exact (specLess_iff a c).mpr (by omega)
  · intro a _ b _ c _ h1 h2 h3 h4
    have h1 := (not_specLess_iff_ordered b a).mp h1
    have h2 := (not_specLess_iff_ordered a b).mp h2
    have h3 := (not_specLess_iff_ordered c b).mp h3
    have h4 := (not_specLess_iff_ordered b c).mp h4
    exact ⟨(not_specLess_iff_ordered c a).mpr (ordered_trans h3 h1),
           (not_specLess_iff_ordered a c).mpr (ordered_trans h2 h4)⟩

theorem swo_congr {lt₁ lt₂ : Ent → Ent → Bool} {l : List Ent}
    (h : ∀ a ∈ l, ∀ b ∈ l, lt₁ a b = lt₂ a b) (hs : StrictWeakOrderOn lt₂ l) : StrictWeakOrderOn lt₁ l := by
  obtain ⟨i, t, n⟩ := hs
  refine ⟨?_, ?_, ?_⟩
  · intro a ha; rw [h a ha a ha]; exact i a ha
  · intro a ha b hb c hc h1 h2
    rw [h a ha b hb] at h1; rw [h b hb c hc] at h2; rw [h a ha c hc]
    exact t a ha b hb c hc h1 h2
  · intro a ha b hb c hc h1 h2 h3 h4
    rw [h a ha b hb] at h1; rw [h b hb a ha] at h2; rw [h b hb c hc] at h3; rw [h c hc b hb] at h4
    rw [h a ha c hc, h c hc a ha]
    exact n a ha b hb c hc h1 h2 h3 h4

/-! ### Exact characterisation for the pinned comparator -/

theorem lessOld_eq_spec_on {l : List Ent} (hc : Compatible l) :
    ∀ a ∈ l, ∀ b ∈ l, lessOld a b = specLess a b := by
  intro a ha b hb
  have h := hc a ha b hb
  unfold lessOld specLess
  by_cases h1 : a.off < b.off <;> by_cases h2 : a.off = b.off <;> by_cases h3 : a.len > b.len <;>
    simp [h1, h2, h3] <;> omega

/-- The pinned comparator is a strict weak order on `l` exactly when `l` is compatible. -/
theorem lessOld_swo_iff (l : List Ent) : StrictWeakOrderOn lessOld l ↔ Compatible l := by
  constructor
  · intro ⟨hi, ht, _⟩ a ha b hb hlt
    -- otherwise a and b are each "less" than the other, and transitivity gives a < a
    apply Classical.byContradiction
    intro hlen
    have h1 : lessOld a b = true := by unfold lessOld; simp; omega
    have h2 : lessOld b a = true := by unfold lessOld; simp; omega
    have h3 := ht a ha b hb a ha h1 h2
    rw [hi a ha] at h3
    cases h3
  · intro hc
    exact swo_congr (lessOld_eq_spec_on hc) (specLess_swo l)

end TdModel.C36
