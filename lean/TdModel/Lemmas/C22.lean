/-
Helper lemmas for C22 (containers, results, unencrypted messages, gzip framing).
-/
import TdModel.Model.C22
import TdModel.Lemmas.Bin

namespace TdModel.C22
open TdModel TdModel.Bin

theorem msgLenInvalidEnc_iff (n : Int) : msgLenInvalidEnc n = true ↔ (n < 0 ∨ n > 1048576) := by
  simp [msgLenInvalidEnc, Facts.C22.msgLenInvalidEnc]
theorem msgLenInvalidDec_iff (n : Int) : msgLenInvalidDec n = true ↔ (n < 0 ∨ n > 1048576) := by
  simp [msgLenInvalidDec, Facts.C22.msgLenInvalidDec]
theorem msgLenValidEnc (n : Int) (h : 0 ≤ n ∧ n ≤ 1048576) : msgLenInvalidEnc n = false := by
  cases hc : msgLenInvalidEnc n with
  | false => rfl
  | true => have := (msgLenInvalidEnc_iff n).mp hc; omega
theorem msgLenValidDec (n : Int) (h : 0 ≤ n ∧ n ≤ 1048576) : msgLenInvalidDec n = false := by
  cases hc : msgLenInvalidDec n with
  | false => rfl
  | true => have := (msgLenInvalidDec_iff n).mp hc; omega
theorem gunzLimit_eq : gunzLimit = 10485760 := by decide
theorem gunzBomb_iff (n : Nat) : gunzBomb n = true ↔ n ≥ 10485760 := by
  simp [gunzBomb, Facts.C22.gzipBomb]; omega
theorem containerID_lt : containerID < 2 ^ 32 := by decide
theorem gzipID_lt : gzipID < 2 ^ 32 := by decide
theorem resultID_lt : resultID < 2 ^ 32 := by decide

/-! ### Messages -/

theorem encodeMessage_ok (m : Message) (hb : m.bytes = m.body.length) (hl : m.body.length ≤ 1048576) :
    encodeMessage m = .ok (putInt64 m.id ++ putInt32 m.seqNo ++ putInt32 m.bytes ++ m.body) := by
  unfold encodeMessage
  rw [msgLenValidEnc m.bytes (by omega)]
  simp only [Bool.false_eq_true, if_false, putRaw]

theorem encodeMessage_too_big (m : Message) (h : m.bytes > 1048576 ∨ m.bytes < 0) :
    encodeMessage m = .error errTooBig := by
  unfold encodeMessage
  rw [(msgLenInvalidEnc_iff m.bytes).mpr (by omega)]
  simp only [if_true]

theorem decodeMessage_fields (id seq n : Int) (tail : Bytes)
    (hid : -2 ^ 63 ≤ id ∧ id < 2 ^ 63) (hseq : -2 ^ 31 ≤ seq ∧ seq < 2 ^ 31) (hn : -2 ^ 31 ≤ n ∧ n < 2 ^ 31) :
    decodeMessage (putInt64 id ++ putInt32 seq ++ putInt32 n ++ tail) =
      (if msgLenInvalidDec n then .error errTooBig
       else match getN n.toNat tail with
         | .error e => .error e
         | .ok (body, r) => .ok (⟨id, seq, n, body⟩, r)) := by
  unfold decodeMessage
  rw [List.append_assoc, List.append_assoc, getInt64_putInt64 id _ hid]
  simp only
  rw [getInt32_putInt32 seq _ hseq]
  simp only
  rw [getInt32_putInt32 n _ hn]
  rfl

theorem decodeMessage_encodeMessage (m : Message) (h : m.WF) (hl : m.body.length ≤ 1048576) (rest : Bytes) :
    ∃ x, encodeMessage m = .ok x ∧ decodeMessage (x ++ rest) = .ok (m, rest) := by
  refine ⟨_, encodeMessage_ok m h.bytes_eq hl, ?_⟩
  have hb := h.bytes_eq
  rw [List.append_assoc, decodeMessage_fields m.id m.seqNo m.bytes (m.body ++ rest) h.id_range h.seq_range (by omega)]
  rw [msgLenValidDec m.bytes (by omega)]
  simp only [Bool.false_eq_true, if_false]
  have hn : m.bytes.toNat = m.body.length := by omega
  rw [getN_append m.body rest _ hn.symm]

theorem decodeMessages_encodeMessages (ms : List Message)
    (h : ∀ m ∈ ms, m.WF ∧ m.body.length ≤ 1048576) (rest : Bytes) :
    ∃ x, encodeMessages ms = .ok x ∧ decodeMessages ms.length (x ++ rest) = .ok (ms, rest) := by
  induction ms with
  | nil => exact ⟨[], rfl, rfl⟩
  | cons m ms ih =>
    obtain ⟨y, hy1, hy2⟩ := ih (fun x hx => h x (by simp [hx]))
    obtain ⟨hwf, hl⟩ := h m (by simp)
    obtain ⟨x, hx1, hx2⟩ := decodeMessage_encodeMessage m hwf hl (y ++ rest)
    refine ⟨x ++ y, ?_, ?_⟩
    · simp only [encodeMessages, hx1, hy1]
    · simp only [List.length_cons, decodeMessages]
      rw [List.append_assoc, hx2]
      simp only [hy2]

theorem decodeContainer_encodeContainer (ms : List Message)
    (h : ∀ m ∈ ms, m.WF ∧ m.body.length ≤ 1048576) (hc : ms.length < 2 ^ 31) (rest : Bytes) :
    ∃ x, encodeContainer ms = .ok x ∧ decodeContainer (x ++ rest) = .ok (ms, rest) := by
  obtain ⟨y, hy1, hy2⟩ := decodeMessages_encodeMessages ms h rest
  refine ⟨putU32 containerID ++ putInt32 ms.length ++ y, ?_, ?_⟩
  · simp only [encodeContainer, hy1]
  · unfold decodeContainer
    rw [List.append_assoc, List.append_assoc, consumeID_putU32 _ _ containerID_lt]
    simp only
    rw [getInt32_putInt32 _ _ (by omega)]
    simp only [Int.toNat_natCast]
    exact hy2

/-- A failing message makes the whole container encoding fail. -/
theorem encodeContainer_too_big (ms : List Message) (m : Message) (hm : m ∈ ms)
    (h : m.bytes > 1048576 ∨ m.bytes < 0) : ∃ e, encodeContainer ms = .error e := by
  have : ∃ e, encodeMessages ms = .error e := by
    induction ms with
    | nil => simp at hm
    | cons a as ih =>
      simp only [encodeMessages]
      cases ha : encodeMessage a with
      | error e => exact ⟨e, rfl⟩
      | ok x =>
        simp only [List.mem_cons] at hm
        rcases hm with rfl | hm
        · rw [encodeMessage_too_big m h] at ha; cases ha
        · obtain ⟨e, he⟩ := ih hm
          exact ⟨e, by simp only [he]⟩
  obtain ⟨e, he⟩ := this
  exact ⟨e, by simp only [encodeContainer, he]⟩

/-! ### Result / Unencrypted -/

theorem decodeResult_encodeResult (x : Result) (h : -2 ^ 63 ≤ x.reqMsgID ∧ x.reqMsgID < 2 ^ 63) :
    decodeResult (encodeResult x) = .ok (x, []) := by
  unfold decodeResult encodeResult putRaw
  rw [List.append_assoc, consumeID_putU32 _ _ resultID_lt]
  simp only
  rw [getInt64_putInt64 _ _ h]

theorem decodeUnencrypted_encodeUnencrypted (u : Unencrypted)
    (h : -2 ^ 63 ≤ u.messageID ∧ u.messageID < 2 ^ 63) (hl : u.data.length < 2 ^ 31) (rest : Bytes) :
    decodeUnencrypted (encodeUnencrypted u ++ rest) = .ok (u, rest) := by
  unfold decodeUnencrypted encodeUnencrypted putRaw
  rw [List.append_assoc, List.append_assoc, List.append_assoc, getInt64_putInt64 0 _ (by omega)]
  have hak : Facts.C22.unencAuthKeyBad 0 = false := by decide
  simp only [hak, Bool.false_eq_true, if_false]
  rw [getInt64_putInt64 _ _ h]
  simp only
  rw [getInt32_putInt32 _ _ (by omega)]
  simp only
  have h1 : Facts.C22.unencLenNegative (u.data.length : Int) = false := by
    simp [Facts.C22.unencLenNegative]
  have h2 : Facts.C22.unencLenBeyond (u.data.length : Int) ((u.data ++ rest).length : Int) = false := by
    simp [Facts.C22.unencLenBeyond]; omega
  simp only [h1, h2, Bool.false_eq_true, if_false, Int.toNat_natCast]
  rw [getN_append u.data rest _ rfl]

/-! ### GZIP -/

theorem gzipUnframe_gzipFrame (c rest : Bytes) (h : c.length < 2 ^ 24) :
    gzipUnframe (gzipFrame c ++ rest) = .ok (c, rest) := by
  unfold gzipUnframe gzipFrame
  rw [List.append_assoc, consumeID_putU32 _ _ gzipID_lt]
  simp only
  exact getBytes_putBytes c rest h

theorem gunzLimitedLen_spec (outLen : Nat) (clean : Bool) :
    gunzLimitedLen outLen clean =
      (if outLen ≥ 10485760 then .error errBomb else if clean then .ok outLen else .error errGzip) := by
  unfold gunzLimitedLen
  rw [gunzLimit_eq]
  by_cases h : outLen ≥ 10485760
  · have hm : min outLen 10485760 = 10485760 := by omega
    have hb : gunzBomb 10485760 = true := (gunzBomb_iff _).mpr (by omega)
    simp [h, hm, hb]
  · have hb : gunzBomb (min outLen 10485760) = false := by
      cases hc : gunzBomb (min outLen 10485760) with
      | false => rfl
      | true => have := (gunzBomb_iff _).mp hc; omega
    cases clean <;> simp [h, hb]

theorem gunzLimited_ok {o : Bytes × Bool} {d : Bytes} (h : gunzLimited o = .ok d) :
    d = o.1 ∧ o.1.length < 10485760 ∧ o.2 = true := by
  unfold gunzLimited at h
  rw [gunzLimitedLen_spec] at h
  by_cases h1 : o.1.length ≥ 10485760
  · simp [h1] at h
  · simp only [h1, if_false] at h
    cases h2 : o.2 with
    | false => simp [h2] at h
    | true =>
      simp only [h2, if_true] at h
      injection h with h
      exact ⟨by rw [← h]; simp, by omega, rfl⟩

theorem gunzLimited_clean (d : Bytes) (h : d.length < 10485760) : gunzLimited (d, true) = .ok d := by
  unfold gunzLimited
  rw [gunzLimitedLen_spec]
  have : ¬ d.length ≥ 10485760 := by omega
  simp [this]

theorem gunzLimited_bomb (o : Bytes × Bool) (h : o.1.length ≥ 10485760) : gunzLimited o = .error errBomb := by
  unfold gunzLimited
  rw [gunzLimitedLen_spec]
  simp [h]

theorem gunzLimited_unclean (d : Bytes) (h : d.length < 10485760) : gunzLimited (d, false) = .error errGzip := by
  unfold gunzLimited
  rw [gunzLimitedLen_spec]
  have : ¬ d.length ≥ 10485760 := by omega
  simp [this]

/-! ### Panic-explicit versions -/

theorem goMake_nonneg (n : Int) (h : ¬ n < 0) : goMake n = .ok n.toNat := by
  simp [goMake, h]

theorem decodeMessageP_eq (b : Bytes) : decodeMessageP b = Out.ofExcept (decodeMessage b) := by
  unfold decodeMessageP decodeMessage
  rw [getInt64P_eq]
  cases getInt64 b with
  | error e => rfl
  | ok p =>
    obtain ⟨id, r1⟩ := p
    simp only [Out.ofExcept, Out.bind_ok]
    rw [getInt32P_eq]
    cases getInt32 r1 with
    | error e => rfl
    | ok p =>
      obtain ⟨seq, r2⟩ := p
      simp only [Out.ofExcept, Out.bind_ok]
      rw [getInt32P_eq]
      cases getInt32 r2 with
      | error e => rfl
      | ok p =>
        obtain ⟨n, r3⟩ := p
        simp only [Out.ofExcept, Out.bind_ok]
        cases hn : msgLenInvalidDec n with
        | true => simp only [if_true]
        | false =>
          simp only [Bool.false_eq_true, if_false]
          have h0 : ¬ n < 0 := by
            intro h
            have := (msgLenInvalidDec_iff n).mpr (Or.inl h)
            rw [hn] at this; cases this
          rw [goMake_nonneg n h0]
          simp only [Out.bind_ok]
          rw [getNP_eq]
          cases getN n.toNat r3 with
          | error e => rfl
          | ok q => obtain ⟨body, r4⟩ := q; rfl

theorem decodeMessagesP_eq (n : Nat) (b : Bytes) : decodeMessagesP n b = Out.ofExcept (decodeMessages n b) := by
  induction n generalizing b with
  | zero => rfl
  | succ n ih =>
    simp only [decodeMessagesP, decodeMessages]
    rw [decodeMessageP_eq]
    cases decodeMessage b with
    | error e => rfl
    | ok p =>
      obtain ⟨m, r⟩ := p
      simp only [Out.ofExcept, Out.bind_ok]
      rw [ih r]
      cases decodeMessages n r with
      | error e => rfl
      | ok q => obtain ⟨ms, r'⟩ := q; rfl

theorem decodeContainerP_eq (b : Bytes) : decodeContainerP b = Out.ofExcept (decodeContainer b) := by
  unfold decodeContainerP decodeContainer
  rw [consumeIDP_eq]
  cases consumeID containerID b with
  | error e => rfl
  | ok p =>
    obtain ⟨u, r⟩ := p
    simp only [Out.ofExcept, Out.bind_ok]
    rw [getInt32P_eq]
    cases getInt32 r with
    | error e => rfl
    | ok q =>
      obtain ⟨n, r'⟩ := q
      simp only [Out.ofExcept, Out.bind_ok]
      exact decodeMessagesP_eq _ _

theorem decodeResultP_eq (b : Bytes) : decodeResultP b = Out.ofExcept (decodeResult b) := by
  unfold decodeResultP decodeResult
  rw [consumeIDP_eq]
  cases consumeID resultID b with
  | error e => rfl
  | ok p =>
    obtain ⟨u, r⟩ := p
    simp only [Out.ofExcept, Out.bind_ok]
    rw [getInt64P_eq]
    cases getInt64 r with
    | error e => rfl
    | ok q =>
      obtain ⟨id, r'⟩ := q
      simp [Out.ofExcept, goFrom]

theorem decodeUnencryptedP_eq (b : Bytes) : decodeUnencryptedP b = Out.ofExcept (decodeUnencrypted b) := by
  unfold decodeUnencryptedP decodeUnencrypted
  rw [getInt64P_eq]
  cases getInt64 b with
  | error e => rfl
  | ok p =>
    obtain ⟨ak, r1⟩ := p
    simp only [Out.ofExcept, Out.bind_ok]
    cases hak : Facts.C22.unencAuthKeyBad ak with
    | true => simp only [if_true]
    | false =>
      simp only [Bool.false_eq_true, if_false]
      rw [getInt64P_eq]
      cases getInt64 r1 with
      | error e => rfl
      | ok p =>
        obtain ⟨mid, r2⟩ := p
        simp only [Out.ofExcept, Out.bind_ok]
        rw [getInt32P_eq]
        cases getInt32 r2 with
        | error e => rfl
        | ok p =>
          obtain ⟨n, r3⟩ := p
          simp only [Out.ofExcept, Out.bind_ok]
          cases h0' : Facts.C22.unencLenNegative n with
          | true => simp only [if_true]
          | false =>
            simp only [Bool.false_eq_true, if_false]
            have h0 : ¬ n < 0 := by
              intro h
              have : Facts.C22.unencLenNegative n = true := by simp [Facts.C22.unencLenNegative, h]
              rw [h0'] at this; cases this
            cases h1 : Facts.C22.unencLenBeyond n (r3.length : Int) with
            | true => simp only [if_true]
            | false =>
              simp only [Bool.false_eq_true, if_false]
              rw [goMake_nonneg n h0]
              simp only [Out.bind_ok]
              rw [getNP_eq]
              cases getN n.toNat r3 with
              | error e => rfl
              | ok q => obtain ⟨d, r4⟩ := q; rfl

theorem gzipUnframeP_eq (b : Bytes) : gzipUnframeP b = Out.ofExcept (gzipUnframe b) := by
  unfold gzipUnframeP gzipUnframe
  rw [consumeIDP_eq]
  cases consumeID gzipID b with
  | error e => rfl
  | ok p =>
    obtain ⟨u, r⟩ := p
    simp only [Out.ofExcept, Out.bind_ok]
    exact getBytesP_eq r

/-! ### Malformed lengths are errors -/

theorem getInt64_ok_len {b r : Bytes} {v : Int} (h : getInt64 b = .ok (v, r)) : r.length + 8 = b.length := by
  unfold getInt64 getU64 at h
  by_cases hl : b.length < 8
  · simp [hl] at h
  · simp only [hl, if_false] at h
    injection h with h; injection h with _ h2
    subst h2; simp only [List.length_drop]; omega

theorem getInt32_ok_len {b r : Bytes} {v : Int} (h : getInt32 b = .ok (v, r)) : r.length + 4 = b.length := by
  unfold getInt32 getU32 at h
  by_cases hl : b.length < 4
  · simp [hl] at h
  · simp only [hl, if_false] at h
    injection h with h; injection h with _ h2
    subst h2; simp only [List.length_drop]; omega

/-- A message needs its 16-byte header. -/
theorem decodeMessage_short (b : Bytes) (hb : b.length < 16) : ∃ e, decodeMessage b = .error e := by
  unfold decodeMessage
  cases h1 : getInt64 b with
  | error e => exact ⟨e, rfl⟩
  | ok p =>
    obtain ⟨id, r1⟩ := p
    have l1 := getInt64_ok_len h1
    simp only
    cases h2 : getInt32 r1 with
    | error e => exact ⟨e, rfl⟩
    | ok p =>
      obtain ⟨seq, r2⟩ := p
      have l2 := getInt32_ok_len h2
      simp only
      have : r2.length < 4 := by omega
      rw [getInt32_short r2 this]
      exact ⟨_, rfl⟩

/-- A positive count with less than one message header left is an error (e.g. count 2^31−1 on
short input). -/
theorem decodeMessages_short (n : Nat) (b : Bytes) (hn : 0 < n) (hb : b.length < 16) :
    ∃ e, decodeMessages n b = .error e := by
  cases n with
  | zero => omega
  | succ n =>
    obtain ⟨e, he⟩ := decodeMessage_short b hb
    exact ⟨e, by simp only [decodeMessages, he]⟩

/-! ### The interpreted (regenerated) encoders / decoder equal the transliterated ones -/

theorem encodeMessageG_eq (m : Message) : encodeMessageG m = encodeMessage m := by
  unfold encodeMessageG encodeMessage
  cases msgLenInvalidEnc m.bytes with
  | true => rfl
  | false =>
    simp [Facts.C22.opsMessageEncode, writeOps, writeOp, envMessage, putRaw]

theorem encodeMessagesG_eq (ms : List Message) : encodeMessagesG ms = encodeMessages ms := by
  induction ms with
  | nil => rfl
  | cons m ms ih => simp only [encodeMessagesG, encodeMessages, encodeMessageG_eq, ih]

theorem encodeContainerG_eq (ms : List Message) : encodeContainerG ms = encodeContainer ms := by
  unfold encodeContainerG encodeContainer
  rw [encodeMessagesG_eq]
  cases encodeMessages ms with
  | error e => simp [Facts.C22.opsContainerEncode, writeOps, writeOp]
  | ok body =>
    simp [Facts.C22.opsContainerEncode, writeOps, writeOp, containerID, Facts.C22.messageContainerTypeID]

theorem decodeMessageG_eq (b : Bytes) : decodeMessageG b = decodeMessage b := by
  unfold decodeMessageG decodeMessage
  simp only [Facts.C22.opsMessageDecode, readStores, readOp]
  cases getInt64 b with
  | error e => rfl
  | ok p =>
    obtain ⟨id, r1⟩ := p
    simp only
    cases getInt32 r1 with
    | error e => rfl
    | ok p =>
      obtain ⟨seq, r2⟩ := p
      simp only
      cases getInt32 r2 with
      | error e => rfl
      | ok p =>
        obtain ⟨n, r3⟩ := p
        simp [lookupField]

theorem encodeResultG_eq (x : Result) : encodeResultG x = some (encodeResult x) := by
  simp [encodeResultG, encodeResult, Facts.C22.opsResultEncode, writeOps, writeOp, envResult, resultID,
    Facts.C22.resultTypeID, putRaw]

theorem encodeUnencryptedG_eq (u : Unencrypted) : encodeUnencryptedG u = some (encodeUnencrypted u) := by
  simp [encodeUnencryptedG, encodeUnencrypted, Facts.C22.opsUnencryptedEncode, writeOps, writeOp, envUnencrypted, putRaw]

theorem gzipFrameG_eq (c : Bytes) : gzipFrameG c = some (gzipFrame c) := by
  simp [gzipFrameG, gzipFrame, Facts.C22.opsGzipEncode, writeOps, writeOp, gzipID, Facts.C22.gzipTypeID]

/-! ### mt twins -/

theorem mtGzipID_eq : Facts.C22.mtGzipPackedTypeID = gzipID := rfl
theorem mtContainerID_eq : Facts.C22.mtMsgContainerTypeID = containerID := rfl
theorem mtResultID_eq : Facts.C22.mtRPCResultTypeID = resultID := rfl

theorem mtEncodeGzip_eq (p : Bytes) : mtEncodeGzip p = gzipFrame p := rfl
theorem mtDecodeGzip_eq (b : Bytes) : mtDecodeGzip b = gzipUnframe b := rfl

theorem mtDecodeGzip_mtEncodeGzip (p rest : Bytes) (h : p.length < 2 ^ 24) :
    mtDecodeGzip (mtEncodeGzip p ++ rest) = .ok (p, rest) := by
  rw [mtDecodeGzip_eq, mtEncodeGzip_eq]; exact gzipUnframe_gzipFrame p rest h

structure MtMessage.WF (m : MtMessage) : Prop where
  id_range : -2 ^ 63 ≤ m.msgID ∧ m.msgID < 2 ^ 63
  seq_range : -2 ^ 31 ≤ m.seqno ∧ m.seqno < 2 ^ 31
  bytes_range : -2 ^ 31 ≤ m.bytes ∧ m.bytes < 2 ^ 31
  packed_len : m.packed.length < 2 ^ 24

theorem mtDecodeMessage_mtEncodeMessage (m : MtMessage) (h : m.WF) (rest : Bytes) :
    mtDecodeMessage (mtEncodeMessage m ++ rest) = .ok (m, rest) := by
  unfold mtDecodeMessage mtEncodeMessage
  rw [List.append_assoc, List.append_assoc, List.append_assoc, getInt64_putInt64 _ _ h.id_range]
  simp only
  rw [getInt32_putInt32 _ _ h.seq_range]
  simp only
  rw [getInt32_putInt32 _ _ h.bytes_range]
  simp only
  rw [mtDecodeGzip_mtEncodeGzip _ _ h.packed_len]

theorem mtDecodeMessages_encode (ms : List MtMessage) (h : ∀ m ∈ ms, m.WF) (rest : Bytes) :
    mtDecodeMessages ms.length ((ms.map mtEncodeMessage).flatten ++ rest) = .ok (ms, rest) := by
  induction ms with
  | nil => rfl
  | cons m ms ih =>
    simp only [List.map_cons, List.flatten_cons, List.length_cons, mtDecodeMessages, List.append_assoc]
    rw [mtDecodeMessage_mtEncodeMessage m (h m (by simp))]
    simp only
    rw [ih (fun x hx => h x (by simp [hx]))]

theorem mtDecodeContainer_mtEncodeContainer (ms : List MtMessage) (h : ∀ m ∈ ms, m.WF) (hc : ms.length < 2 ^ 31)
    (rest : Bytes) : mtDecodeContainer (mtEncodeContainer ms ++ rest) = .ok (ms, rest) := by
  unfold mtDecodeContainer mtEncodeContainer
  rw [List.append_assoc, List.append_assoc, consumeID_putU32 _ _ (by decide)]
  simp only
  rw [getInt32_putInt32 _ _ (by omega)]
  simp only [Int.toNat_natCast]
  exact mtDecodeMessages_encode ms h rest

theorem mtDecodeResult_mtEncodeResult (id : Int) (p rest : Bytes) (hid : -2 ^ 63 ≤ id ∧ id < 2 ^ 63)
    (hp : p.length < 2 ^ 24) : mtDecodeResult (mtEncodeResult id p ++ rest) = .ok ((id, p), rest) := by
  unfold mtDecodeResult mtEncodeResult
  rw [List.append_assoc, List.append_assoc, consumeID_putU32 _ _ (by decide)]
  simp only
  rw [getInt64_putInt64 _ _ hid]
  simp only
  rw [mtDecodeGzip_mtEncodeGzip _ _ hp]

/-- proto's encoding of the twin messages is byte for byte mt's. -/
theorem encodeMessages_twins (ms : List MtMessage) (h : ∀ m ∈ ms, 0 ≤ m.bytes ∧ m.bytes ≤ 1048576) :
    encodeMessages (ms.map MtMessage.toProto) = .ok ((ms.map mtEncodeMessage).flatten) := by
  induction ms with
  | nil => rfl
  | cons m ms ih =>
    simp only [List.map_cons, encodeMessages, List.flatten_cons]
    have hm := h m (by simp)
    have he : encodeMessage m.toProto = .ok (mtEncodeMessage m) := by
      unfold encodeMessage MtMessage.toProto
      simp only
      rw [msgLenValidEnc m.bytes hm]
      simp [mtEncodeMessage, mtEncodeGzip_eq, putRaw]
    rw [he, ih (fun x hx => h x (by simp [hx]))]

theorem mtPrealloc_lt (n : Int) : mtPrealloc n < 1024 := by
  unfold mtPrealloc
  split
  · have : Int.tmod n (Facts.C22.preallocateLimit : Int) < 1024 := by
      show Int.tmod n 1024 < 1024
      have := Int.tmod_lt_of_pos n (by decide : (0 : Int) < 1024)
      exact this
    omega
  · decide

/-! ### Decoding is injective: what was accepted re-encodes to exactly the bytes consumed -/

theorem decodeMessage_inv {b r : Bytes} {m : Message} (h : decodeMessage b = .ok (m, r)) :
    ∃ x, encodeMessage m = .ok x ∧ x ++ r = b ∧ m.bytes = m.body.length ∧ m.body.length ≤ 1048576 := by
  unfold decodeMessage at h
  cases h1 : getInt64 b with
  | error e => simp [h1] at h
  | ok p1 =>
    obtain ⟨id, r1⟩ := p1
    simp only [h1] at h
    cases h2 : getInt32 r1 with
    | error e => simp [h2] at h
    | ok p2 =>
      obtain ⟨seq, r2⟩ := p2
      simp only [h2] at h
      cases h3 : getInt32 r2 with
      | error e => simp [h3] at h
      | ok p3 =>
        obtain ⟨n, r3⟩ := p3
        simp only [h3] at h
        cases hv : msgLenInvalidDec n with
        | true => simp [hv] at h
        | false =>
          simp only [hv, Bool.false_eq_true, if_false] at h
          cases h4 : getN n.toNat r3 with
          | error e => simp [h4] at h
          | ok p4 =>
            obtain ⟨body, r4⟩ := p4
            simp only [h4] at h
            injection h with h; injection h with hm hr
            subst hm hr
            obtain ⟨e4, l4⟩ := getN_inv h4
            have hn : 0 ≤ n ∧ n ≤ 1048576 := by
              constructor
              · apply Int.not_lt.mp; intro hc
                have := (msgLenInvalidDec_iff n).mpr (Or.inl hc); rw [hv] at this; cases this
              · apply Int.not_lt.mp; intro hc
                have := (msgLenInvalidDec_iff n).mpr (Or.inr hc); rw [hv] at this; cases this
            have hb : n = (body.length : Int) := by omega
            have hbl : body.length ≤ 1048576 := by omega
            refine ⟨_, encodeMessage_ok ⟨id, seq, n, body⟩ hb hbl, ?_, hb, hbl⟩
            simp only [List.append_assoc]
            rw [e4, getInt32_inv h3, getInt32_inv h2, getInt64_inv h1]

theorem decodeMessages_inv (n : Nat) {b r : Bytes} {ms : List Message} (h : decodeMessages n b = .ok (ms, r)) :
    ∃ x, encodeMessages ms = .ok x ∧ x ++ r = b ∧ ms.length = n := by
  induction n generalizing b ms with
  | zero =>
    simp only [decodeMessages] at h
    injection h with h; injection h with h1 h2
    subst h1 h2
    exact ⟨[], rfl, rfl, rfl⟩
  | succ n ih =>
    simp only [decodeMessages] at h
    cases h1 : decodeMessage b with
    | error e => simp [h1] at h
    | ok p =>
      obtain ⟨m, r1⟩ := p
      simp only [h1] at h
      cases h2 : decodeMessages n r1 with
      | error e => simp [h2] at h
      | ok q =>
        obtain ⟨ms', r2⟩ := q
        simp only [h2] at h
        injection h with h; injection h with hm hr
        subst hm hr
        obtain ⟨x, hx1, hx2, _, _⟩ := decodeMessage_inv h1
        obtain ⟨y, hy1, hy2, hy3⟩ := ih h2
        refine ⟨x ++ y, by simp only [encodeMessages, hx1, hy1], ?_, by simp [hy3]⟩
        rw [List.append_assoc, hy2, hx2]

theorem decodeContainer_inv {b r : Bytes} {ms : List Message} (h : decodeContainer b = .ok (ms, r))
    (hpos : ms ≠ [] ∨ ∃ t, b = putU32 containerID ++ putInt32 0 ++ t) :
    ∃ x, encodeContainer ms = .ok x ∧ x ++ r = b := by
  unfold decodeContainer at h
  cases h1 : consumeID containerID b with
  | error e => simp [h1] at h
  | ok p =>
    obtain ⟨u, r1⟩ := p
    simp only [h1] at h
    cases h2 : getInt32 r1 with
    | error e => simp [h2] at h
    | ok q =>
      obtain ⟨n, r2⟩ := q
      simp only [h2] at h
      obtain ⟨y, hy1, hy2, hy3⟩ := decodeMessages_inv n.toNat h
      have hn : n = (ms.length : Int) := by
        rcases hpos with hne | ⟨t, ht⟩
        · have hl : ms.length ≠ 0 := fun h0 => hne (List.length_eq_zero_iff.mp h0)
          have hy3' : ms.length = n.toNat := hy3
          omega
        · rw [ht, List.append_assoc, consumeID_putU32 _ _ containerID_lt] at h1
          injection h1 with h1; injection h1 with _ hr1
          rw [← hr1, getInt32_putInt32 0 t (by omega)] at h2
          injection h2 with h2; injection h2 with hn0 _
          rw [← hn0] at hy3
          have hl0 : ms.length = 0 := by simpa using hy3
          rw [← hn0]; omega
      refine ⟨putU32 containerID ++ putInt32 ms.length ++ y, by simp only [encodeContainer, hy1], ?_⟩
      rw [List.append_assoc, List.append_assoc, hy2, ← hn, getInt32_inv h2, consumeID_inv h1]

theorem decodeResult_inv {b r : Bytes} {x : Result} (h : decodeResult b = .ok (x, r)) :
    encodeResult x = b ∧ r = [] := by
  unfold decodeResult at h
  cases h1 : consumeID resultID b with
  | error e => simp [h1] at h
  | ok p =>
    obtain ⟨u, r1⟩ := p
    simp only [h1] at h
    cases h2 : getInt64 r1 with
    | error e => simp [h2] at h
    | ok q =>
      obtain ⟨id, r2⟩ := q
      simp only [h2] at h
      injection h with h; injection h with hx hr
      subst hx hr
      refine ⟨?_, rfl⟩
      unfold encodeResult putRaw
      rw [List.append_assoc, getInt64_inv h2, consumeID_inv h1]

end TdModel.C22
