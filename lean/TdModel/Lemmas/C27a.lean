/-
C27 / C28 — basic facts about the pool model: list counting lemmas and how each primitive update
changes the number of holders of a connection.
-/
import TdModel.Model.C27Pool

namespace TdModel.C27

theorem countP_set_of {α : Type} (p : α → Bool) (l : List α) (i : Nat) (d d' : α) (h : l[i]? = some d) :
    List.countP p (l.set i d') + (if p d then 1 else 0) = List.countP p l + (if p d' then 1 else 0) := by
  induction l generalizing i with
  | nil => simp at h
  | cons x xs ih =>
    cases i with
    | zero =>
      simp at h; subst h
      simp [List.countP_cons]; omega
    | succ j =>
      simp at h
      have := ih j h
      simp [List.countP_cons]; omega

theorem lt_of_getElem? {α : Type} {l : List α} {i : Nat} {x : α} (h : l[i]? = some x) : i < l.length := by
  rcases Nat.lt_or_ge i l.length with h' | h'
  · exact h'
  · rw [List.getElem?_eq_none h'] at h; cases h

/-- One receive from the channel of key `k` removes exactly one entry. -/
theorem takeKey_count {k d : Nat} {l l' : List (Nat × Nat)} (h : takeKey k l = some (d, l')) (c : Nat) :
    List.countP (fun e => e.2 == c) l = List.countP (fun e => e.2 == c) l' + (if d = c then 1 else 0) := by
  induction l generalizing l' with
  | nil => simp [takeKey] at h
  | cons e es ih =>
    simp only [takeKey] at h
    split at h
    · simp at h
      obtain ⟨rfl, rfl⟩ := h
      simp [List.countP_cons]
    · split at h
      · rename_i c' es' hes
        simp at h
        obtain ⟨rfl, rfl⟩ := h
        have := ih hes
        simp [List.countP_cons]; omega
      · cases h

theorem takeKey_mem {k d : Nat} {l l' : List (Nat × Nat)} (h : takeKey k l = some (d, l')) :
    (k, d) ∈ l ∧ ∀ e, e ∈ l' → e ∈ l := by
  induction l generalizing l' with
  | nil => simp [takeKey] at h
  | cons e es ih =>
    simp only [takeKey] at h
    split at h
    · rename_i hk
      simp at h
      obtain ⟨rfl, rfl⟩ := h
      refine ⟨?_, fun e' he' => List.mem_cons_of_mem _ he'⟩
      have : e = (k, e.2) := by cases e; simp at hk; simp [hk]
      rw [this]; simp
    · split at h
      · rename_i c' es' hes
        simp at h
        obtain ⟨rfl, rfl⟩ := h
        obtain ⟨h1, h2⟩ := ih hes
        refine ⟨List.mem_cons_of_mem _ h1, ?_⟩
        intro e' he'
        rcases List.mem_cons.1 he' with rfl | he''
        · simp
        · exact List.mem_cons_of_mem _ (h2 e' he'')
      · cases h

/-- Effect of changing caller `i` on the number of callers holding `c`. -/
theorem nCallers_set (s : State) (i : Nat) (x y : Caller) (h : s.callers[i]? = some x) (c : Nat) :
    List.countP (fun z => heldBy z.pc == some c) (s.callers.set i y)
      + (if heldBy x.pc = some c then 1 else 0)
    = nCallers s c + (if heldBy y.pc = some c then 1 else 0) := by
  have := countP_set_of (fun z => heldBy z.pc == some c) s.callers i x y h
  simpa [nCallers] using this

theorem nOrphan_le_one (s : State) (c : Nat) : nOrphan s c ≤ 1 := by
  unfold nOrphan; split <;> (try split) <;> omega

end TdModel.C27
