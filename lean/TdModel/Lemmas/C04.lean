/-
Lemmas for C04/C05 (message encryption): padding arithmetic, header round-trip, and the complete
characterisation of acceptance by `Cipher.DecryptFromBuffer` (`decrypt_ok_iff'`).
-/
import TdModel.Model.C04
import TdModel.Lemmas.C06
import TdModel.Lemmas.C04Ige
import TdModel.Lemmas.Bin

namespace TdModel.C04
open TdModel TdModel.Bin
open TdModel.C06 (Side)

/-- The regenerated `countPadding` on non-negative arguments. -/
theorem cp_int (l r : Int) (hl : 0 ≤ l) :
    12 ≤ Facts.C04.countPadding l r ∧ Facts.C04.countPadding l r ≤ 267 ∧
      (l + Facts.C04.countPadding l r) % 16 = 0 := by
  unfold Facts.C04.countPadding
  have h1 : Int.tmod l 16 = l % 16 := Int.tmod_eq_emod_of_nonneg hl
  have h2 : Int.tmod (16 - l % 16) 16 = (16 - l % 16) % 16 :=
    Int.tmod_eq_emod_of_nonneg (by omega)
  have h3 : ((2 : Int) ^ 4) = 16 := by decide
  rw [h1, h2, h3]
  simp only [decide_eq_true_eq]
  split <;> omega

theorem countPadding_bounds (l : Nat) (r : UInt8) :
    12 ≤ countPadding l r ∧ countPadding l r ≤ 267 ∧ (l + countPadding l r) % 16 = 0 := by
  have := cp_int l r.toNat (by omega)
  unfold countPadding
  omega

/-- The interpreted `Encode` is the familiar layout: three longs, two ints, the body. -/
theorem encodeData_def (salt sid mid seq len : Nat) (body : Bytes) :
    encodeData salt sid mid seq len body =
      putU64 salt ++ putU64 sid ++ putU64 mid ++ putU32 seq ++ putU32 len ++ body := by
  simp [encodeData, encodeWith, Facts.C04.dataEncode, fldVal]

/-- Both encoder paths write the same bytes: `EncodeWithoutCopy` (with `Message`) = `Encode` with
`MessageDataLen = len(encoded Message)`. -/
theorem encodeDataNoCopy_def (salt sid mid seq : Nat) (payload : Bytes) :
    encodeDataNoCopy salt sid mid seq payload = encodeData salt sid mid seq payload.length payload := by
  simp [encodeDataNoCopy, encodeData, encodeWith, Facts.C04.dataEncodeNoCopy, Facts.C04.dataEncode, fldVal]

/-- The interpreted decoder coincides with the written-out one. -/
theorem decodeData_def (pt : Bytes) : decodeData pt = decodeDataLit pt := by
  unfold decodeData decodeDataLit
  rw [show Facts.C04.dataLenChecked = true from rfl]
  simp only [Facts.C04.dataDecode, decodeFields, setFld, Bool.true_and, decide_eq_true_eq]
  cases getU64 pt with
  | error e => rfl
  | ok v1 =>
    obtain ⟨salt, r1⟩ := v1
    simp only
    cases getU64 r1 with
    | error e => rfl
    | ok v2 =>
      obtain ⟨sid, r2⟩ := v2
      simp only
      cases getU64 r2 with
      | error e => rfl
      | ok v3 =>
        obtain ⟨mid, r3⟩ := v3
        simp only
        cases getU32 r3 with
        | error e => rfl
        | ok v4 =>
          obtain ⟨seq, r4⟩ := v4
          simp only
          cases getU32 r4 with
          | error e => rfl
          | ok v5 =>
            obtain ⟨len, r5⟩ := v5
            simp only

theorem encodeData_length (salt sid mid seq len : Nat) (body : Bytes) :
    (encodeData salt sid mid seq len body).length = 32 + body.length := by
  simp [encodeData_def, putU32_length, putU64_length]; omega

/-- `DecodeWithoutCopy` after `Encode`. -/
theorem decodeData_encodeData (salt sid mid seq len : Nat) (body : Bytes)
    (h1 : salt < 2 ^ 64) (h2 : sid < 2 ^ 64) (h3 : mid < 2 ^ 64) (h4 : seq < 2 ^ 32) (h5 : len < 2 ^ 32) :
    decodeData (encodeData salt sid mid seq len body) =
      if toInt32 len > (body.length : Int) then .error .dataLen else .ok ⟨salt, sid, mid, seq, len, body⟩ := by
  rw [decodeData_def, encodeData_def]
  unfold decodeDataLit
  simp only [List.append_assoc]
  rw [getU64_putU64 _ _ h1]
  simp only
  rw [getU64_putU64 _ _ h2]
  simp only
  rw [getU64_putU64 _ _ h3]
  simp only
  rw [getU32_putU32 _ _ h4]
  simp only
  rw [getU32_putU32 _ _ h5]

/-- What `decodeData` returns determines the plaintext: header fields re-encode to it. -/
theorem decodeData_ok (pt : Bytes) (d : Data) (h : decodeData pt = .ok d) :
    pt = encodeData d.salt d.sid d.mid d.seq d.len d.body ∧ toInt32 d.len ≤ (d.body.length : Int) ∧
      d.salt < 2 ^ 64 ∧ d.sid < 2 ^ 64 ∧ d.mid < 2 ^ 64 ∧ d.seq < 2 ^ 32 ∧ d.len < 2 ^ 32 := by
  rw [decodeData_def] at h
  unfold decodeDataLit at h
  have g64 : ∀ (b : Bytes) (v : Nat) (r : Bytes), getU64 b = .ok (v, r) → b = putU64 v ++ r ∧ v < 2 ^ 64 := by
    intro b v r hb
    unfold getU64 at hb
    split at hb
    · cases hb
    · simp only [Except.ok.injEq, Prod.mk.injEq] at hb
      obtain ⟨hv, hr⟩ := hb
      have hl : (b.take 8).length = 8 := by simp; omega
      constructor
      · have e := leN_fromLE (b.take 8)
        rw [hl] at e
        rw [← hv, ← hr, putU64, e, List.take_append_drop]
      · rw [← hv]; have := fromLE_lt (b.take 8); rw [hl] at this; simpa using this
  have g32 : ∀ (b : Bytes) (v : Nat) (r : Bytes), getU32 b = .ok (v, r) → b = putU32 v ++ r ∧ v < 2 ^ 32 := by
    intro b v r hb
    unfold getU32 at hb
    split at hb
    · cases hb
    · simp only [Except.ok.injEq, Prod.mk.injEq] at hb
      obtain ⟨hv, hr⟩ := hb
      have hl : (b.take 4).length = 4 := by simp; omega
      constructor
      · have e := leN_fromLE (b.take 4)
        rw [hl] at e
        rw [← hv, ← hr, putU32, e, List.take_append_drop]
      · rw [← hv]; have := fromLE_lt (b.take 4); rw [hl] at this; simpa using this
  split at h
  · rename_i salt r1 e1
    split at h
    · rename_i sid r2 e2
      split at h
      · rename_i mid r3 e3
        split at h
        · rename_i seq r4 e4
          split at h
          · rename_i len r5 e5
            split at h
            · cases h
            · rename_i hle
              cases h
              obtain ⟨a1, b1⟩ := g64 _ _ _ e1
              obtain ⟨a2, b2⟩ := g64 _ _ _ e2
              obtain ⟨a3, b3⟩ := g64 _ _ _ e3
              obtain ⟨a4, b4⟩ := g32 _ _ _ e4
              obtain ⟨a5, b5⟩ := g32 _ _ _ e5
              refine ⟨?_, by simpa using hle, b1, b2, b3, b4, b5⟩
              rw [encodeData_def]
              simp only [List.append_assoc]
              rw [a1, a2, a3, a4, a5]
          · cases h
        · cases h
      · cases h
    · cases h
  · cases h

/-- The interpreted `switch` of `Cipher.Decrypt` passes exactly when the length field is
non-negative and divisible by 4 and the padding is within 12..1024. -/
theorem firstFailing_none_iff (n pad : Int) :
    firstFailing Facts.C04.decryptChecks n pad = none ↔
      0 ≤ n ∧ n % 4 = 0 ∧ 12 ≤ pad ∧ pad ≤ 1024 := by
  simp only [Facts.C04.decryptChecks, firstFailing, chkFails]
  by_cases h0 : n < 0
  · simp [h0] <;> omega
  · have ht : Int.tmod n 4 = n % 4 := Int.tmod_eq_emod_of_nonneg (by omega)
    simp only [ht, decide_eq_true_eq, h0, if_false]
    by_cases h1 : n % 4 ≠ 0
    · simp [h1]
    · by_cases h2 : pad < 12
      · simp [h1, h2] <;> omega
      · by_cases h3 : pad > 1024
        · simp [h1, h2, h3] <;> omega
        · simp [h1, h2, h3] <;> omega

/-- Every acceptance by `DecryptFromBuffer` goes through: frame ≥ 24 bytes, key id equal, body
block-aligned, the msg_key equation on the decrypted plaintext for the decrypt side, a well-formed
header, and the four checks on length field and padding. -/
theorem decrypt_ok_iff' (P : Prims) (side : Side) (ak keyId c : Bytes) (d : Data) :
    decrypt P side ak keyId c = .ok d ↔
      24 ≤ c.length ∧ keyId = c.take 8 ∧ (c.length - 24) % 16 = 0 ∧
      C06.Impl.msgKey P ak (plaintextOf P side ak c) side.flip = (c.drop 8).take 16 ∧
      decodeData (plaintextOf P side ak c) = .ok d ∧
      0 ≤ toInt32 d.len ∧ toInt32 d.len % 4 = 0 ∧
      12 ≤ (d.body.length : Int) - toInt32 d.len ∧ (d.body.length : Int) - toInt32 d.len ≤ 1024 := by
  unfold decrypt decryptMessage plaintextOf
  rw [show Facts.C04.checksKeyID = true from rfl, show Facts.C04.checksMsgKey = true from rfl,
    show Facts.C04.alignment = 16 from rfl, show Facts.C04.frameKeyIdLen = 8 from rfl,
    show Facts.C04.frameMsgKeyLen = 16 from rfl]
  simp only [Bool.true_and]
  by_cases hlen : c.length < 24
  · simp only [hlen, if_true]
    constructor
    · intro h; cases h
    · intro h; omega
  · simp only [hlen, if_false]
    by_cases hk : keyId = c.take 8
    · have hk' : (keyId != c.take 8) = false := by simp [hk]
      simp only [hk', Bool.false_eq_true, if_false]
      by_cases ha : (c.drop 24).length % 16 ≠ 0
      · rw [if_pos ha]
        constructor
        · intro h; cases h
        · intro h; simp at ha; omega
      · rw [if_neg ha]
        simp only
        by_cases hm : C06.Impl.msgKey P ak
            (Ige.dec (P.aesDec (C06.Impl.keys P ak ((c.drop 8).take 16) side.flip).1)
              (C06.Impl.keys P ak ((c.drop 8).take 16) side.flip).2 (c.drop 24)) side.flip = (c.drop 8).take 16
        · have hm' : (C06.Impl.msgKey P ak
            (Ige.dec (P.aesDec (C06.Impl.keys P ak ((c.drop 8).take 16) side.flip).1)
              (C06.Impl.keys P ak ((c.drop 8).take 16) side.flip).2 (c.drop 24)) side.flip != (c.drop 8).take 16) = false := by
            simp [hm]
          simp only [hm', Bool.false_eq_true, if_false]
          cases hd : decodeData (Ige.dec (P.aesDec (C06.Impl.keys P ak ((c.drop 8).take 16) side.flip).1)
              (C06.Impl.keys P ak ((c.drop 8).take 16) side.flip).2 (c.drop 24)) with
          | error e =>
            simp only
            constructor
            · intro h; cases h
            · intro h; obtain ⟨_, _, _, _, h5, _⟩ := h; cases h5
          | ok d' =>
            simp only
            cases hf : firstFailing Facts.C04.decryptChecks (toInt32 d'.len) ((d'.body.length : Int) - toInt32 d'.len) with
            | some ck =>
              simp only
              constructor
              · intro h; cases h
              · intro h
                obtain ⟨_, _, _, _, h5, h6, h7, h8, h9⟩ := h
                cases h5
                have := (firstFailing_none_iff _ _).mpr ⟨h6, h7, h8, h9⟩
                rw [this] at hf; cases hf
            | none =>
              simp only
              have hx := (firstFailing_none_iff _ _).mp hf
              constructor
              · intro h
                cases h
                simp at ha
                exact ⟨by omega, hk, by omega, hm, rfl, hx.1, hx.2.1, hx.2.2.1, hx.2.2.2⟩
              · intro h
                obtain ⟨_, _, _, _, h5, _⟩ := h
                cases h5; rfl
        · have hm' : (C06.Impl.msgKey P ak
            (Ige.dec (P.aesDec (C06.Impl.keys P ak ((c.drop 8).take 16) side.flip).1)
              (C06.Impl.keys P ak ((c.drop 8).take 16) side.flip).2 (c.drop 24)) side.flip != (c.drop 8).take 16) = true := by
            simp [hm]
          simp only [hm', if_true]
          constructor
          · intro h; cases h
          · intro h; exact absurd h.2.2.2.1 hm
    · have hk' : (keyId != c.take 8) = true := by simp [hk]
      simp only [hk', if_true]
      constructor
      · intro h; cases h
      · intro h; exact absurd h.2.1 hk

theorem plaintextOf_frame (P : Prims) (s : Side) (ak keyId mk e : Bytes) (hk : keyId.length = 8)
    (hm : mk.length = 16) :
    plaintextOf P s ak (keyId ++ mk ++ e) =
      Ige.dec (P.aesDec (C06.Impl.keys P ak mk s.flip).1) (C06.Impl.keys P ak mk s.flip).2 e := by
  unfold plaintextOf
  have d8 : (keyId ++ mk ++ e).drop 8 = mk ++ e := by
    rw [List.append_assoc, drop_append_len _ _ 8 hk]
  have d24 : (keyId ++ mk ++ e).drop 24 = e := by
    rw [drop_append_len _ _ 24 (by simp [hk, hm])]
  rw [d8, d24, take_append_len _ _ 16 hm]

/-- Round trip: whatever `Cipher.Encrypt` produced on one side, `DecryptFromBuffer` on the other side
returns the same header fields, the payload followed by the padding, and `MessageDataLen = len`. -/
theorem decrypt_encrypt' (P : Prims) (hP : LawfulPrims P) (side : Side) (ak keyId : Bytes)
    (salt sid mid seq : Nat) (payload rnd c : Bytes)
    (hk : keyId.length = 8) (h1 : salt < 2 ^ 64) (h2 : sid < 2 ^ 64) (h3 : mid < 2 ^ 64) (h4 : seq < 2 ^ 32)
    (hmod : payload.length % 4 = 0) (hl : payload.length < 2 ^ 31)
    (he : encrypt P side ak keyId salt sid mid seq payload rnd = .ok c) :
    ∃ r rest, rnd = r :: rest ∧
      c.length = 24 + 32 + payload.length + countPadding (32 + payload.length) r ∧
      decrypt P side.flip ak keyId c =
        .ok ⟨salt, sid, mid, seq, payload.length,
          payload ++ rest.take (countPadding (32 + payload.length) r)⟩ := by
  unfold encrypt encryptData at he
  cases rnd with
  | nil => cases he
  | cons r rest =>
    refine ⟨r, rest, rfl, ?_⟩
    simp only [encodeData_length] at he
    split at he
    · cases he
    · rename_i hrest
      simp only [Except.ok.injEq] at he
      have hcp := countPadding_bounds (32 + payload.length) r
      generalize hpadn : countPadding (32 + payload.length) r = padn at *
      have hpl : (rest.take padn).length = padn := by simp; omega
      generalize hpadv : rest.take padn = pad at *
      generalize hptv : encodeData salt sid mid seq payload.length payload ++ pad = padded at *
      have hpadded : padded.length = 32 + payload.length + padn := by
        rw [← hptv, List.length_append, encodeData_length, hpl]
      have hmk := C06.impl_msgKey_length P hP ak padded side
      generalize hmkv : C06.Impl.msgKey P ak padded side = mk at *
      have hiv := C06.impl_keys_iv_length P hP ak mk side
      have hal : padded.length % 16 = 0 := by omega
      have hel := Ige.enc_length (P.aesEnc (C06.Impl.keys P ak mk side).1) (hP.aesEnc_len _) _ padded hiv hal
      subst he
      have hclen : (keyId ++ mk ++ Ige.enc (P.aesEnc (C06.Impl.keys P ak mk side).1) (C06.Impl.keys P ak mk side).2 padded).length
          = 24 + padded.length := by
        simp [hk, hmk, hel]; omega
      refine ⟨by omega, ?_⟩
      have hpt : plaintextOf P side.flip ak
          (keyId ++ mk ++ Ige.enc (P.aesEnc (C06.Impl.keys P ak mk side).1) (C06.Impl.keys P ak mk side).2 padded) = padded := by
        rw [plaintextOf_frame P _ ak keyId mk _ hk hmk, C06.flip_flip]
        exact Ige.dec_enc _ _ (Ige.Inv.ofPrims P hP _) _ _ hiv hal
      have hti : toInt32 payload.length = (payload.length : Int) := by
        unfold toInt32; simp [hl]
      rw [decrypt_ok_iff', hpt, C06.flip_flip]
      refine ⟨by omega, ?_, by omega, ?_, ?_, ?_, ?_, ?_, ?_⟩
      · rw [List.append_assoc, take_append_len _ _ 8 hk]
      · have d8 : (keyId ++ mk ++ Ige.enc (P.aesEnc (C06.Impl.keys P ak mk side).1) (C06.Impl.keys P ak mk side).2 padded).drop 8
            = mk ++ Ige.enc (P.aesEnc (C06.Impl.keys P ak mk side).1) (C06.Impl.keys P ak mk side).2 padded := by
          rw [List.append_assoc, drop_append_len _ _ 8 hk]
        rw [d8, take_append_len _ _ 16 hmk]; exact hmkv
      · have : padded = encodeData salt sid mid seq payload.length (payload ++ pad) := by
          rw [← hptv]; simp [encodeData_def]
        rw [this, decodeData_encodeData _ _ _ _ _ _ h1 h2 h3 h4 (by omega), hti]
        have : ¬ ((payload.length : Int) > ((payload ++ pad).length : Int)) := by
          simp only [List.length_append]; omega
        rw [if_neg this]
      · simp only [hti]; omega
      · simp only [hti]; omega
      · simp only [hti, List.length_append, hpl]; omega
      · simp only [hti, List.length_append, hpl]; omega

/-- General raw path: `Cipher.Encrypt` given `MessageDataLen = len ≤ len(body)` (the caller's own extra
bytes travel as additional padding) — the other side returns the same fields, `len`, and the body
followed by the random padding, provided the total padding stays within 1024. -/
theorem decrypt_encryptData' (P : Prims) (hP : LawfulPrims P) (side : Side) (ak keyId : Bytes)
    (salt sid mid seq len : Nat) (payload rnd c : Bytes)
    (hk : keyId.length = 8) (h1 : salt < 2 ^ 64) (h2 : sid < 2 ^ 64) (h3 : mid < 2 ^ 64) (h4 : seq < 2 ^ 32)
    (hmod : len % 4 = 0) (hl : len < 2 ^ 31) (hle : len ≤ payload.length) (hextra : payload.length - len ≤ 757)
    (he : encryptData P side ak keyId salt sid mid seq len payload rnd = .ok c) :
    ∃ r rest, rnd = r :: rest ∧
      c.length = 24 + 32 + payload.length + countPadding (32 + payload.length) r ∧
      decrypt P side.flip ak keyId c =
        .ok ⟨salt, sid, mid, seq, len,
          payload ++ rest.take (countPadding (32 + payload.length) r)⟩ := by
  unfold encryptData at he
  cases rnd with
  | nil => cases he
  | cons r rest =>
    refine ⟨r, rest, rfl, ?_⟩
    simp only [encodeData_length] at he
    split at he
    · cases he
    · rename_i hrest
      simp only [Except.ok.injEq] at he
      have hcp := countPadding_bounds (32 + payload.length) r
      generalize hpadn : countPadding (32 + payload.length) r = padn at *
      have hpl : (rest.take padn).length = padn := by simp; omega
      generalize hpadv : rest.take padn = pad at *
      generalize hptv : encodeData salt sid mid seq len payload ++ pad = padded at *
      have hpadded : padded.length = 32 + payload.length + padn := by
        rw [← hptv, List.length_append, encodeData_length, hpl]
      have hmk := C06.impl_msgKey_length P hP ak padded side
      generalize hmkv : C06.Impl.msgKey P ak padded side = mk at *
      have hiv := C06.impl_keys_iv_length P hP ak mk side
      have hal : padded.length % 16 = 0 := by omega
      have hel := Ige.enc_length (P.aesEnc (C06.Impl.keys P ak mk side).1) (hP.aesEnc_len _) _ padded hiv hal
      subst he
      have hclen : (keyId ++ mk ++ Ige.enc (P.aesEnc (C06.Impl.keys P ak mk side).1) (C06.Impl.keys P ak mk side).2 padded).length
          = 24 + padded.length := by
        simp [hk, hmk, hel]; omega
      refine ⟨by omega, ?_⟩
      have hpt : plaintextOf P side.flip ak
          (keyId ++ mk ++ Ige.enc (P.aesEnc (C06.Impl.keys P ak mk side).1) (C06.Impl.keys P ak mk side).2 padded) = padded := by
        rw [plaintextOf_frame P _ ak keyId mk _ hk hmk, C06.flip_flip]
        exact Ige.dec_enc _ _ (Ige.Inv.ofPrims P hP _) _ _ hiv hal
      have hti : toInt32 len = (len : Int) := by
        unfold toInt32; simp [hl]
      rw [decrypt_ok_iff', hpt, C06.flip_flip]
      refine ⟨by omega, ?_, by omega, ?_, ?_, ?_, ?_, ?_, ?_⟩
      · rw [List.append_assoc, take_append_len _ _ 8 hk]
      · have d8 : (keyId ++ mk ++ Ige.enc (P.aesEnc (C06.Impl.keys P ak mk side).1) (C06.Impl.keys P ak mk side).2 padded).drop 8
            = mk ++ Ige.enc (P.aesEnc (C06.Impl.keys P ak mk side).1) (C06.Impl.keys P ak mk side).2 padded := by
          rw [List.append_assoc, drop_append_len _ _ 8 hk]
        rw [d8, take_append_len _ _ 16 hmk]; exact hmkv
      · have : padded = encodeData salt sid mid seq len (payload ++ pad) := by
          rw [← hptv]; simp [encodeData_def]
        rw [this, decodeData_encodeData _ _ _ _ _ _ h1 h2 h3 h4 (by omega), hti]
        have : ¬ ((len : Int) > ((payload ++ pad).length : Int)) := by
          simp only [List.length_append]; omega
        rw [if_neg this]
      · simp only [hti]; omega
      · simp only [hti]; omega
      · simp only [hti, List.length_append, hpl]; omega
      · simp only [hti, List.length_append, hpl]; omega


end TdModel.C04
