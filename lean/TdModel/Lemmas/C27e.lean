/-
C27 / C28 — `HInv` is an inductive invariant of the pool model (any callers, any connections).
-/
import TdModel.Lemmas.C27d

set_option linter.unusedSimpArgs false

namespace TdModel.C27

theorem hinv_init (m n : Nat) : HInv m (init m n) := by
  refine ⟨rfl, by simp [init, liveCount, nReserved, List.countP_replicate], ?_, ?_, ?_, ?_⟩
  · intro _; simp [init]
  · intro c
    simp [holders, nCallers, nFree, nInbox, nOrphan, init, List.countP_replicate, heldBy]
  · intro _ c x h; simp [init] at h
  · intro c _
    simp [holders, nCallers, nFree, nInbox, nOrphan, init, List.countP_replicate, heldBy]

theorem hinv_step {cfg : Cfg} (hg : Good cfg) {m : Nat} {s s' : State} (a : Action) (hI : HInv m s)
    (h : step cfg s a = some s') : HInv m s' := by
  obtain ⟨hg1, hg2, hgB, hgT, hgR⟩ := hg
  cases a with
  | start i =>
    simp only [step, markDeadCfg_good hgR, hgB, hgT, if_true] at h
    split at h
    · rename_i x hx
      split at h
      · rename_i hp
        cases h
        cases hcl : s.closed with
        | true =>
          simp only [if_true]
          apply hinv_move hI i x .done hx rfl rfl rfl rfl (by simp [hp]) (by simp) rfl (fun _ => 0) (fun _ _ _ _ _ => rfl)
          intro c; simp only [hp, held_none_done, held_none_idle] <;> omega
        | false =>
          simp only [Bool.false_eq_true, if_false]
          apply hinv_move hI i x .start hx rfl rfl rfl rfl (by simp [hp]) (by simp) rfl (fun _ => 0) (fun _ _ _ _ _ => rfl)
          intro c; simp only [hp, held_none_start, held_none_idle] <;> omega
      · cases h
    · cases h
  | closeDC =>
    simp only [step] at h
    split at h
    · cases h
    · cases h
      exact ⟨hI.maxc, hI.tot, hI.lim, hI.one, fun hc => Bool.noConfusion hc, hI.dang⟩
  | enter i =>
    simp only [step, markDeadCfg_good hgR, hgB, hgT, if_true] at h
    split at h
    · rename_i x hx
      split at h
      · rename_i hp
        split at h
        · rename_i d fs hf
          cases h
          apply hinv_move (t := { s with free := fs }) hI i x (.check d) hx rfl rfl rfl rfl (by simp [hp]) (by simp) rfl (fun _ => 0) (fun _ _ _ _ _ => rfl)
          intro c
          have := holders_free_pop s d fs hf c
          simp only [hp, held_none_start, held_check] <;> omega
        · rename_i hf
          split at h
          · rename_i hlim
            cases h
            exact hinv_reserve hI i x hx hp hlim
          · cases h
            apply hinv_move (t := { s with reqs := s.reqs ++ [s.nextKey], nextKey := s.nextKey + 1 }) hI i x _ hx rfl rfl rfl rfl (by simp [hp]) (by simp) rfl (fun _ => 0) (fun _ _ _ _ _ => rfl)
            intro c
            have := holders_reqs s (s.reqs ++ [s.nextKey]) (s.nextKey + 1) c
            simp only [hp, held_none_start, held_none_waiting]
            omega
      · cases h
    · cases h
  | mk i =>
    simp only [step, markDeadCfg_good hgR, hgB, hgT, if_true] at h
    split at h
    · rename_i x hx
      split at h
      · rename_i hp
        cases h
        exact hinv_create hI i x hx hp _ _ ⟨rfl, rfl⟩ rfl rfl rfl rfl rfl rfl rfl
      · cases h
    · cases h
  | check i =>
    simp only [step, markDeadCfg_good hgR, hgB, hgT, if_true] at h
    split at h
    · rename_i x hx
      split at h
      · rename_i d hp
        split at h
        · rename_i hd
          cases h
          apply hinv_move hI i x .start hx rfl rfl rfl rfl (by simp [hp]) (by simp) rfl (fun c => if d = c then 1 else 0)
          · intro _ c cn hcn hdd
            by_cases hdc : d = c
            · subst hdc
              have := isDead_true hd cn hcn
              rw [this] at hdd; cases hdd
            · simp [hdc]
          · intro c; simp only [hp, held_none_start, held_check] <;> omega
        · cases h
          apply hinv_move hI i x (.using d) hx rfl rfl rfl rfl (by simp [hp]) (by simp) rfl (fun _ => 0) (fun _ _ _ _ _ => rfl)
          intro c; simp only [hp, held_using, held_check] <;> omega
      · cases h
    · cases h
  | cwake i b =>
    simp only [step, markDeadCfg_good hgR, hgB, hgT, if_true] at h
    split at h
    · rename_i x hx
      split at h
      · rename_i d hp
        split at h
        · rename_i cn hcn
          cases b with
          | ready =>
            simp only at h
            split at h
            · cases h
              apply hinv_handOut hg1 hI i x d hx rfl rfl rfl rfl (by simp [hp]) rfl
              intro c; simp only [hp, held_creating] <;> omega
            · cases h
          | dead =>
            simp only at h
            split at h
            · rename_i hd
              cases h
              apply hinv_move hI i x .start hx rfl rfl rfl rfl (by simp [hp]) (by simp) rfl (fun c => if d = c then 1 else 0)
              · intro _ c cn' hcn' hdd
                by_cases hdc : d = c
                · subst hdc
                  rw [hcn] at hcn'; cases hcn'
                  rw [hd] at hdd; cases hdd
                · simp [hdc]
              · intro c; simp only [hp, held_none_start, held_creating] <;> omega
            · cases h
          | ctx =>
            simp only [hg2] at h
            split at h
            · cases h
              -- the creator holds d, so d is not already an orphan
              have hno : cn.orphan = false := by
                cases ho : cn.orphan with
                | false => rfl
                | true =>
                  exfalso
                  have h1 := one_le_nCallers (d := d) hx (by simp [hp, heldBy])
                  have h2 : nOrphan s d = 1 := by simp [nOrphan, hcn, ho]
                  have := hI.one d
                  simp only [holders] at this
                  omega
              apply hinv_move (t := { s with conns := s.conns.set d { cn with orphan := true } }) hI i x .done hx rfl rfl (map_dead_set hcn rfl) rfl (by simp [hp]) (by simp) rfl (fun _ => 0) (fun _ _ _ _ _ => rfl)
              intro c
              have := holders_conn_set s d cn { cn with orphan := true } hcn c
              simp only [hp, held_none_done, held_creating]
              simp [hno] at this
              omega
            · cases h
          | dc =>
            simp only at h
            split at h
            · rename_i hcl
              cases h
              apply hinv_move hI i x .done hx rfl rfl rfl rfl (by simp [hp]) (by simp) rfl (fun c => if d = c then 1 else 0)
              · intro hc; rw [hcl] at hc; cases hc
              · intro c; simp only [hp, held_none_done, held_creating] <;> omega
            · cases h
        · cases h
      · cases h
    · cases h
  | wwake i b =>
    simp only [step, markDeadCfg_good hgR, hgB, hgT, if_true] at h
    split at h
    · rename_i x hx
      split at h
      · rename_i k g hp
        cases b with
        | ch =>
          simp only at h
          split at h
          · rename_i d rest htk
            cases h
            apply hinv_handOut (t := { s with inbox := rest }) hg1 hI i x d hx rfl rfl rfl rfl (by simp [hp]) rfl
            intro c
            have := holders_inbox_take s k d rest htk c
            simp only [hp, held_none_waiting]
            omega
          · cases h
        | stuck =>
          simp only at h
          split at h
          · cases h
            apply hinv_move hI i x _ hx rfl rfl rfl rfl (by simp [hp]) (by simp) rfl (fun _ => 0) (fun _ _ _ _ _ => rfl)
            intro c; simp only [hp, held_none_waiting, held_none_giveup] <;> omega
          · cases h
        | ctx =>
          simp only at h
          split at h
          · cases h
            apply hinv_move hI i x _ hx rfl rfl rfl rfl (by simp [hp]) (by simp) rfl (fun _ => 0) (fun _ _ _ _ _ => rfl)
            intro c; simp only [hp, held_none_waiting, held_none_giveup] <;> omega
          · cases h
        | dc =>
          simp only at h
          split at h
          · cases h
            apply hinv_move hI i x _ hx rfl rfl rfl rfl (by simp [hp]) (by simp) rfl (fun _ => 0) (fun _ _ _ _ _ => rfl)
            intro c; simp only [hp, held_none_waiting, held_none_giveup] <;> omega
          · cases h
      · cases h
    · cases h
  | giveup i ko =>
    simp only [step, markDeadCfg_good hgR, hgB, hgT, if_true] at h
    split at h
    · rename_i x hx
      split at h
      · rename_i k w hp
        split at h
        · -- nothing in the channel
          split at h
          · cases h
            apply hinv_move (t := { s with reqs := s.reqs.erase k }) hI i x _ hx rfl rfl rfl rfl (by simp [hp]) (by cases w <;> simp) rfl (fun _ => 0) (fun _ _ _ _ _ => rfl)
            intro c
            have := holders_reqs' s (s.reqs.erase k) c
            cases w <;> simp only [hp, held_none_start, held_none_done, held_none_giveup] <;> omega
          · cases h
        · rename_i d rest htk
          have htk' : takeKey k s.inbox = some (d, rest) := htk
          cases w with
          | stuck =>
            simp only at h
            split at h
            · cases h
              apply hinv_handOut (t := { s with reqs := s.reqs.erase k, inbox := rest }) hg1 hI i x d hx rfl rfl rfl rfl (by simp [hp]) rfl
              intro c
              have := holders_inbox_take s k d rest htk' c
              simp only [hp, held_none_giveup]
              exact this
            · cases h
          | ctx =>
            simp only at h
            split at h
            · rename_i s3 hrel
              cases h
              obtain ⟨hh3, hm3, ht3, hc3, hcal3, _, hcl3⟩ := release_spec hrel
              apply hinv_move hI i x .done (by rw [hcal3]; exact hx) hm3 ht3 (by rw [hc3]) (by simp only [nReserved, hcal3]) (by simp [hp]) (by simp) hcl3 (fun _ => 0)
                (fun _ _ _ _ _ => rfl)
              intro c
              have e1 := hh3 c
              have e2 := holders_inbox_take s k d rest htk' c
              simp only [hp, held_none_done, held_none_giveup]
              have e3 : holders { s with reqs := s.reqs.erase k, inbox := rest } c = holders { s with inbox := rest } c := rfl
              rw [e3] at e1
              omega
            · cases h
      · cases h
    · cases h
  | finish i r ko =>
    simp only [step, markDeadCfg_good hgR, hgB, hgT, if_true] at h
    split at h
    · rename_i x hx
      split at h
      · rename_i d hp
        split at h
        · split at h
          · cases h
            -- the caller holds d, so d exists
            have hex : ∃ cn, s.conns[d]? = some cn := by
              cases hcn : s.conns[d]? with
              | some cn => exact ⟨cn, rfl⟩
              | none =>
                exfalso
                have hlen : s.conns.length ≤ d := by
                  rcases Nat.lt_or_ge d s.conns.length with h' | h'
                  · rw [List.getElem?_eq_getElem h'] at hcn; cases hcn
                  · exact h'
                have h1 := one_le_nCallers (d := d) hx (by simp [hp, heldBy])
                have := hI.dang d hlen
                simp only [holders] at this
                omega
            obtain ⟨cn, hcn⟩ := hex
            obtain ⟨y, hy, hyd⟩ := markDead_conn s d cn hcn
            have hI1 := hinv_markDead hI d
            apply hinv_move hI1 i x .start (by rw [markDead_callers]; exact hx) rfl rfl rfl rfl (by simp [hp]) (by simp) rfl
              (fun c => if d = c then 1 else 0)
            · intro _ c cn' hcn' hdd
              by_cases hdc : d = c
              · subst hdc
                rw [hy] at hcn'; cases hcn'
                rw [hyd] at hdd; cases hdd
              · simp [hdc]
            · intro c; simp only [hp, held_none_start, held_using] <;> omega
          · cases h
        · split at h
          · rename_i s1 hrel
            cases h
            obtain ⟨hh1, hm1, ht1, hc1, hcal1, _, hcl1⟩ := release_spec hrel
            apply hinv_move hI i x .done (by rw [hcal1]; exact hx) hm1 ht1 (by rw [hc1]) (by simp only [nReserved, hcal1]) (by simp [hp]) (by simp) hcl1 (fun _ => 0)
              (fun _ _ _ _ _ => rfl)
            intro c
            have := hh1 c
            simp only [hp, held_none_done, held_using]
            omega
          · cases h
      · cases h
    · cases h
  | ready d =>
    simp only [step, markDeadCfg_good hgR, hgB, hgT, if_true] at h
    split at h
    · rename_i cn hcn
      cases h
      have hh : ∀ c, holders { s with conns := s.conns.set d { cn with ready := true } } c = holders s c := by
        intro c
        have := holders_conn_set s d cn { cn with ready := true } hcn c
        simp only at this
        omega
      apply hinv_of_le (s' := { s with conns := s.conns.set d { cn with ready := true } }) hI rfl rfl (map_dead_set hcn rfl) rfl rfl
      · intro c; rw [hh c]; exact Nat.le_refl _
      · intro _ c _ _ _; exact hh c
    · cases h
  | die d =>
    simp only [step, markDeadCfg_good hgR, hgB, hgT, if_true] at h
    split at h
    · cases h; exact hinv_markDead hI d
    · cases h
  | cancel i =>
    simp only [step, markDeadCfg_good hgR, hgB, hgT, if_true] at h
    split at h
    · rename_i x hx
      cases h
      have hresc : nReserved { s with callers := s.callers.set i { x with cancelled := true } } = nReserved s := by
        have := countP_set_of (fun z : Caller => z.pc == .reserved) s.callers i x { x with cancelled := true } hx
        simp only [nReserved]
        simp only at this
        omega
      have hh : ∀ c, holders { s with callers := s.callers.set i { x with cancelled := true } } c = holders s c := by
        intro c
        have := nCallers_set s i x { x with cancelled := true } hx c
        simp only [holders, nFree, nInbox, nOrphan]
        have e : nCallers { s with callers := s.callers.set i { x with cancelled := true } } c
          = List.countP (fun z => heldBy z.pc == some c) (s.callers.set i { x with cancelled := true }) := rfl
        rw [e]
        simp only at this
        omega
      apply hinv_of_le (s' := { s with callers := s.callers.set i { x with cancelled := true } }) hI rfl rfl rfl hresc rfl
      · intro c; rw [hh c]; exact Nat.le_refl _
      · intro _ c _ _ _; exact hh c
    · cases h
  | bg d rel ko =>
    simp only [step, markDeadCfg_good hgR, hgB, hgT, if_true] at h
    split at h
    · rename_i cn hcn
      split at h
      · rename_i ho
        have e1 : ∀ c, holders { s with conns := s.conns.set d { cn with orphan := false } } c
            + (if d = c then 1 else 0) = holders s c := by
          intro c
          have := holders_conn_set s d cn { cn with orphan := false } hcn c
          simp [ho] at this
          omega
        cases rel with
        | true =>
          simp only [if_true] at h
          split at h
          · obtain ⟨hh2, hm2, ht2, hc2, hcal2, _, hcl2⟩ := release_spec h
            have hh : ∀ c, holders s' c = holders s c := by
              intro c
              have := hh2 c
              have := e1 c
              omega
            apply hinv_of_le hI hm2 ht2 (by rw [hc2]; exact map_dead_set hcn rfl) (by simp only [nReserved, hcal2]) hcl2
            · intro c; rw [hh c]; exact Nat.le_refl _
            · intro _ c _ _ _; exact hh c
          · cases h
        | false =>
          simp only [Bool.false_eq_true, if_false] at h
          split at h
          · rename_i hd
            cases h
            apply hinv_of_le (s' := { s with conns := s.conns.set d { cn with orphan := false } }) hI rfl rfl (map_dead_set hcn rfl) rfl rfl
            · intro c; have := e1 c; omega
            · intro hcl c cn' hcn' hdd
              have := e1 c
              by_cases hdc : d = c
              · subst hdc
                rw [hcn] at hcn'; cases hcn'
                rcases hd.1 with hd1 | hd1
                · rw [hd1] at hdd; cases hdd
                · rw [hcl] at hd1; cases hd1
              · simp [hdc] at this; omega
          · cases h
      · cases h
    · cases h

theorem hinv_run {cfg : Cfg} (hg : Good cfg) {m : Nat} (as : List Action) {s s' : State} (hI : HInv m s)
    (h : run cfg s as = some s') : HInv m s' := by
  induction as generalizing s with
  | nil => simp [run] at h; subst h; exact hI
  | cons a as ih =>
    simp only [run] at h
    split at h
    · rename_i s1 h1; exact ih (hinv_step hg a hI h1) h
    · cases h

end TdModel.C27
