/-
C02/C03 — file B: the fake server's difference oracle is honest: what a difference up to
position `x` carries contains every entry of the sequence in `(requested, x]`.
-/
import TdModel.Lemmas.C02MgrA

namespace TdModel.C02Core
open TdModel.C01

/-! ### Order of a sequence's entries in the log -/

/-- Order of two entries of one sequence: the later one is not below, and strictly above if it
covers a position. -/
def After (a b : Entry) : Prop := a.pos ≤ b.pos ∧ (1 ≤ b.count → a.pos < b.pos)

/-- Entries of sequence `k` appear in the log in (weakly) increasing position. -/
def KeySorted (log : List Entry) (k : Nat) : Prop :=
  log.Pairwise (fun a b => a.seqKey = some k → b.seqKey = some k → After a b)

theorem tiled_strict (es : List Entry) : ∀ c, tiled c es = true → es.Pairwise After := by
  induction es with
  | nil => intro c _; exact List.Pairwise.nil
  | cons a as ih =>
    intro c h
    have h' := h
    simp only [tiled, Bool.and_eq_true, decide_eq_true_eq] at h'
    refine List.Pairwise.cons ?_ (ih a.pos h'.2)
    intro b hb
    have := tiled_lower as a.pos h'.2 b hb
    exact ⟨by omega, fun h1 => by omega⟩

theorem keySorted_of_filter (log : List Entry) (k : Nat)
    (h : (seqLog log k).Pairwise After) : KeySorted log k := by
  unfold KeySorted
  induction log with
  | nil => exact List.Pairwise.nil
  | cons a as ih =>
    unfold seqLog at h ih
    by_cases ha : a.seqKey = some k
    · have hf : List.filter (fun x => x.seqKey == some k) (a :: as) = a :: as.filter (fun x => x.seqKey == some k) := by
        simp [List.filter, ha]
      rw [hf, List.pairwise_cons] at h
      refine List.Pairwise.cons ?_ (ih h.2)
      intro b hb _ hbk
      exact h.1 b (List.mem_filter.2 ⟨hb, by simp [hbk]⟩)
    · have hb : (a.seqKey == some k) = false := by simpa using ha
      have hf : List.filter (fun x => x.seqKey == some k) (a :: as) = as.filter (fun x => x.seqKey == some k) := by
        simp [List.filter, hb]
      rw [hf] at h
      exact List.Pairwise.cons (fun b _ hak => absurd hak ha) (ih h)

theorem keySorted_of_tiled (log : List Entry) (k : Nat) (c : Int) (h : tiled c (seqLog log k) = true) :
    KeySorted log k :=
  keySorted_of_filter log k (tiled_strict _ c h)

/-- In a list where later elements are `R`-related to earlier ones, something not `R`-after a member
of a prefix is in that prefix. -/
theorem mem_take_of_not_after {α} (R : α → α → Prop) (l : List α) : ∀ (n : Nat), l.Pairwise R →
    ∀ f e, f ∈ l.take n → e ∈ l → ¬ R f e → e ∈ l.take n := by
  induction l with
  | nil => intro n _ f e hf; simp at hf
  | cons a t ih =>
    intro n hp f e hf he hr
    cases n with
    | zero => simp at hf
    | succ n =>
      rw [List.pairwise_cons] at hp
      simp only [List.take_succ_cons, List.mem_cons] at hf he ⊢
      rcases he with rfl | he
      · exact Or.inl rfl
      · rcases hf with rfl | hf
        · exact absurd (hp.1 e he) hr
        · exact Or.inr (ih n hp.2 f e hf he hr)

theorem lastPos_cases (init : Int) (P : Entry → Bool) (es : List Entry) :
    lastPos init P es = init ∨ ∃ f ∈ es, P f = true ∧ f.pos = lastPos init P es := by
  unfold lastPos
  induction es generalizing init with
  | nil => left; rfl
  | cons a t ih =>
    simp only [List.foldl_cons]
    by_cases ha : P a = true
    · simp only [ha, if_true]
      rcases ih a.pos with h | ⟨f, hf, hP, hpos⟩
      · right; exact ⟨a, List.mem_cons_self .., ha, h.symm⟩
      · right; exact ⟨f, List.mem_cons_of_mem _ hf, hP, hpos⟩
    · simp only [ha, Bool.false_eq_true, if_false]
      rcases ih init with h | ⟨f, hf, hP, hpos⟩
      · left; exact h
      · right; exact ⟨f, List.mem_cons_of_mem _ hf, hP, hpos⟩

theorem lastPos_congr (init : Int) (P Q : Entry → Bool) (es : List Entry) (h : ∀ e ∈ es, P e = Q e) :
    lastPos init P es = lastPos init Q es := by
  unfold lastPos
  induction es generalizing init with
  | nil => rfl
  | cons a t ih =>
    simp only [List.foldl_cons]
    rw [h a (List.mem_cons_self ..)]
    exact ih _ (fun e he => h e (List.mem_cons_of_mem _ he))

/-- `cut` returns a prefix. -/
theorem cut_prefix (n : Nat) (es : List Entry) :
    (cut n es).1 = es ∨ (cut n es).1 = es.take n := by
  unfold cut
  split
  · right; rfl
  · left; rfl

theorem cut_more (n : Nat) (es : List Entry) (h : (cut n es).2 = false) : (cut n es).1 = es := by
  unfold cut at *
  split
  · rename_i hc; simp [hc] at h
  · rfl

theorem cut_sub (n : Nat) (es : List Entry) : ∀ e ∈ (cut n es).1, e ∈ es := by
  intro e he
  rcases cut_prefix n es with h | h
  · rw [h] at he; exact he
  · rw [h] at he; exact List.mem_of_mem_take he

theorem cut_isEmpty (n : Nat) (es : List Entry) (h : (cut n es).1.isEmpty = true) : es = [] := by
  unfold cut at h
  split at h
  · rename_i hc
    cases es with
    | nil => rfl
    | cons a t =>
      cases n with
      | zero => simp at hc
      | succ n => simp at h
  · simpa using h

/-- **Honesty, core form.** `H` is a prefix of the log, `cand` its entries selected by `C`, `part`
a prefix of `cand`; for a sequence `k` whose entries are selected exactly when their position
exceeds `r`: every entry of `k` in the log with position in `(r, f.pos]` for some `f` of `k` in
`part` is in `part`. -/
theorem part_covers (log : List Entry) (k : Nat) (hs : KeySorted log k) (m n : Nat) (C : Entry → Bool) (r : Int)
    (hC : ∀ e, e.seqKey = some k → (C e = true ↔ r < e.pos))
    (part : List Entry)
    (hpart : part = (log.take m).filter C ∨ part = ((log.take m).filter C).take n)
    (f : Entry) (hf : f ∈ part) (hfk : f.seqKey = some k)
    (e : Entry) (he : e ∈ log) (hek : e.seqKey = some k) (hec : 1 ≤ e.count) (her : r < e.pos) (hle : e.pos ≤ f.pos) :
    e ∈ part := by
  have hnr : ¬ (f.seqKey = some k → e.seqKey = some k → After f e) := by
    intro h; have := (h hfk hek).2 hec; omega
  have hfc : f ∈ (log.take m).filter C := by
    rcases hpart with h | h
    · rw [h] at hf; exact hf
    · rw [h] at hf; exact List.mem_of_mem_take hf
  have hfH : f ∈ log.take m := (List.mem_filter.1 hfc).1
  have heH : e ∈ log.take m := mem_take_of_not_after _ log m hs f e hfH he hnr
  have hec : e ∈ (log.take m).filter C := List.mem_filter.2 ⟨heH, (hC e hek).2 her⟩
  rcases hpart with h | h
  · rw [h]; exact hec
  · rw [h]
    have hsc : ((log.take m).filter C).Pairwise (fun a b => a.seqKey = some k → b.seqKey = some k → After a b) :=
      (hs.sublist (List.take_sublist m log)).sublist List.filter_sublist
    rw [h] at hf
    exact mem_take_of_not_after _ _ n hsc f e hf hec hnr

/-- An entry of `k` at or below the position of a happened entry of `k` has happened. -/
theorem happened_of_le (log : List Entry) (k : Nat) (hs : KeySorted log k) (m : Nat)
    (g : Entry) (hg : g ∈ log.take m) (hgk : g.seqKey = some k)
    (e : Entry) (he : e ∈ log) (hek : e.seqKey = some k) (hec : 1 ≤ e.count) (hle : e.pos ≤ g.pos) : e ∈ log.take m := by
  apply mem_take_of_not_after _ log m hs g e hg he
  intro h; have := (h hgk hek).2 hec; omega

/-! ### The common difference -/

theorem extrasOf_sub (w : World) (k : Nat) : ∀ e ∈ w.extrasOf k, e ∈ w.log := by
  intro e he
  unfold World.extrasOf at he
  obtain ⟨i, _, hi⟩ := List.mem_filterMap.1 he
  exact List.mem_of_find?_eq_some hi

/-- The parts of the server world no action changes. -/
def World.static (w : World) : List Entry × Int × Int × List (Nat × Int) × List (Nat × Int) × List (Nat × Int) :=
  (w.log, w.p0, w.q0, w.c0, w.persisted, w.cr)

/-- The oracle changes nothing of the server's static data. -/
theorem commonDiff_static (w : World) (pts qts : Int) : (w.commonDiff pts qts).1.static = w.static := by
  unfold World.commonDiff
  split
  · rfl
  · split
    · rfl
    · simp only
      split <;> rfl

theorem commonDiff_log (w : World) (pts qts : Int) : (w.commonDiff pts qts).1.log = w.log :=
  congrArg (·.1) (commonDiff_static w pts qts)

/-- What `commonDiff` answers when it answers `diff`. -/
theorem commonDiff_diff (w : World) (pts qts : Int) (msgs enc others : List Entry) (p q : Int) (slice : Bool)
    (h : (w.commonDiff pts qts).2 = .diff msgs enc others p q slice) :
    let C := fun e : Entry => (e.seqKey == some 0 && decide (e.pos > pts)) || (e.seqKey == some 1 && decide (e.pos > qts))
    let cand := w.happened.filter C
    let part := (cut w.slice cand).1
    w.tooLongNext = false ∧
    msgs = part.filter (·.kind == .msg) ∧ enc = part.filter (·.kind == .qts) ∧
    others = part.filter (fun e => e.kind == .other || e.kind == .qother) ++ w.extrasOf 0 ∧
    slice = (cut w.slice cand).2 ∧
    p = (if slice then lastPos pts (fun e => e.seqKey == some 0) part
         else max (lastPos pts (fun e => e.seqKey == some 0) part) w.serverPts) ∧
    q = (if slice then lastPos qts (fun e => e.seqKey == some 1) part
         else max (lastPos qts (fun e => e.seqKey == some 1) part) w.serverQts) := by
  unfold World.commonDiff at h
  split at h
  · simp at h
  split at h
  · simp at h
  · rename_i htl
    simp only at h
    split at h
    · simp at h
    · simp only [DiffAns.diff.injEq] at h
      obtain ⟨h1, h2, h3, h4, h5, h6⟩ := h
      refine ⟨by simpa using htl, h1.symm, h2.symm, h3.symm, h6.symm, ?_, ?_⟩
      · rw [← h4, ← h6]
      · rw [← h5, ← h6]

theorem seqKey0_kinds (e : Entry) (h : e.seqKey = some 0) : e.kind = .msg ∨ e.kind = .other ∨ e.kind = .aff := by
  cases hk : e.kind <;> simp [Entry.seqKey, hk] at h ⊢

theorem seqKey1_kinds (e : Entry) (h : e.seqKey = some 1) : e.kind = .qts ∨ e.kind = .qother := by
  cases hk : e.kind <;> simp [Entry.seqKey, hk] at h ⊢ <;> omega

theorem seqKeyCh_kinds (e : Entry) (c : Nat) (h : e.seqKey = some (2 + c)) :
    e.chan = c ∧ (e.kind = .chmsg ∨ e.kind = .chother ∨ e.kind = .chaff) := by
  cases hk : e.kind <;> simp [Entry.seqKey, hk] at h ⊢ <;> omega

theorem mkOf_marker (log : List Entry) (e : Entry) (he : e ∈ log) (hm : e.isMarker = true) : mkOf log e.id = true := by
  unfold mkOf
  simp only [Bool.or_eq_true, decide_eq_true_eq, List.any_eq_true, Bool.and_eq_true, beq_iff_eq]
  exact Or.inr ⟨e, he, rfl, hm⟩

theorem beq_some_iff (e : Entry) (k : Nat) : (e.seqKey == some k) = true ↔ e.seqKey = some k := by simp

/-- Every entry of sequence `k ∈ {pts, qts}` with position in `(requested, answered]` is in the
part of the log the answer was built from. -/
theorem commonDiff_part_mem (w : World) (k : Nat) (hk : k = 0 ∨ k = 1) (hs : KeySorted w.log k)
    (org : Int) (horg : ∀ e ∈ w.log, e.seqKey = some k → org ≤ e.pos - e.count)
    (pts qts : Int) (slice : Bool) (x : Int)
    (part : List Entry)
    (hpart : part = (cut w.slice (w.happened.filter fun e : Entry =>
        (e.seqKey == some 0 && decide (e.pos > pts)) || (e.seqKey == some 1 && decide (e.pos > qts)))).1)
    (hslice : slice = (cut w.slice (w.happened.filter fun e : Entry =>
        (e.seqKey == some 0 && decide (e.pos > pts)) || (e.seqKey == some 1 && decide (e.pos > qts)))).2)
    (r : Int) (hr : r = if k = 0 then pts else qts)
    (hx : x = if slice then lastPos r (fun e => e.seqKey == some k) part
              else max (lastPos r (fun e => e.seqKey == some k) part) (lastPos org (fun e => e.seqKey == some k) w.happened))
    (e : Entry) (he : e ∈ w.log) (hek : e.seqKey = some k) (hec : 1 ≤ e.count) (her : r < e.pos) (hle : e.pos ≤ x) :
    e ∈ part := by
  let C := fun e : Entry => (e.seqKey == some 0 && decide (e.pos > pts)) || (e.seqKey == some 1 && decide (e.pos > qts))
  have hC : ∀ e : Entry, e.seqKey = some k → (C e = true ↔ r < e.pos) := by
    intro e hek
    rcases hk with rfl | rfl
    · simp [C, hek, hr]
    · simp [C, hek, hr]
  have hpp : part = (w.log.take w.emitted).filter C ∨ part = ((w.log.take w.emitted).filter C).take w.slice := by
    rw [hpart]; exact cut_prefix _ _
  have cover : ∀ f ∈ part, f.seqKey = some k → e.pos ≤ f.pos → e ∈ part := fun f hf hfk hle' =>
    part_covers w.log k hs w.emitted w.slice C r hC part hpp f hf hfk e he hek hec her hle'
  have fromLast : e.pos ≤ lastPos r (fun e => e.seqKey == some k) part → e ∈ part := by
    intro hl
    rcases lastPos_cases r (fun e => e.seqKey == some k) part with h | ⟨f, hf, hP, hpos⟩
    · rw [h] at hl; omega
    · exact cover f hf ((beq_some_iff f k).1 hP) (by rw [hpos]; exact hl)
  cases hsl : slice with
  | true => rw [hsl] at hx; simp only [if_true] at hx; exact fromLast (by rw [← hx]; exact hle)
  | false =>
    rw [hsl] at hx; simp only [Bool.false_eq_true, if_false] at hx
    have hall : part = (w.log.take w.emitted).filter C := by
      rw [hpart]; exact cut_more _ _ (by rw [← hslice, hsl])
    by_cases h1 : e.pos ≤ lastPos r (fun e => e.seqKey == some k) part
    · exact fromLast h1
    · have h2 : e.pos ≤ lastPos org (fun e => e.seqKey == some k) w.happened := by omega
      rcases lastPos_cases org (fun e => e.seqKey == some k) w.happened with h | ⟨g, hg, hP, hpos⟩
      · rw [h] at h2; have := horg e he hek; omega
      · have hgk := (beq_some_iff g k).1 hP
        have heH : e ∈ w.log.take w.emitted :=
          happened_of_le w.log k hs w.emitted g hg hgk e he hek hec (by rw [hpos]; exact h2)
        rw [hall]
        exact List.mem_filter.2 ⟨heH, (hC e hek).2 her⟩

/-- **The common difference is honest for pts**: what it carries for the pts sequence contains every
non-marker pts entry in `(requested, p]`, and only log entries of that sequence. -/
theorem commonDiff_honest_pts (w : World) (hs : KeySorted w.log 0)
    (horg : ∀ e ∈ w.log, e.seqKey = some 0 → w.p0 ≤ e.pos - e.count)
    (hcnt : ∀ e ∈ w.log, e.seqKey = some 0 → 0 ≤ e.count)
    (pts qts : Int) (msgs enc others : List Entry) (p q : Int) (slice : Bool)
    (h : (w.commonDiff pts qts).2 = .diff msgs enc others p q slice) :
    (∀ e ∈ seqLog w.log 0, pts < e.pos → e.pos ≤ p →
      exempt (mkOf w.log) e = true ∨ e ∈ (msgs ++ others.filter ownCommon).filter (·.seqKey == some 0)) ∧
    (∀ e ∈ (msgs ++ others.filter ownCommon).filter (·.seqKey == some 0), e ∈ seqLog w.log 0) := by
  obtain ⟨_, hm, _, ho, hsl, hp, _⟩ := commonDiff_diff w pts qts msgs enc others p q slice h
  constructor
  · intro e he her hle
    rw [mem_seqLog] at he
    by_cases hz : e.count = 0
    · exact Or.inl (exempt_of_zero _ e hz)
    have hec : 1 ≤ e.count := by
      have := horg e he.1 he.2
      have hcn := hcnt e he.1 he.2
      omega
    have hin := commonDiff_part_mem w 0 (Or.inl rfl) hs w.p0 horg pts qts slice p _ rfl hsl pts rfl
      (by simpa [World.serverPts] using hp) e he.1 he.2 hec her hle
    rcases seqKey0_kinds e he.2 with hk | hk | hk
    · right
      refine List.mem_filter.2 ⟨List.mem_append_left _ ?_, by simp [he.2]⟩
      rw [hm]; exact List.mem_filter.2 ⟨hin, by simp [hk]⟩
    · right
      refine List.mem_filter.2 ⟨List.mem_append_right _ (List.mem_filter.2 ⟨?_, by simp [ownCommon, hk]⟩), by simp [he.2]⟩
      rw [ho]; exact List.mem_append_left _ (List.mem_filter.2 ⟨hin, by simp [hk]⟩)
    · left; exact exempt_of_mk _ e (mkOf_marker w.log e he.1 (by simp [Entry.isMarker, hk]))
  · intro e he
    obtain ⟨hmem, hk⟩ := List.mem_filter.1 he
    rw [mem_seqLog]
    refine ⟨?_, by simpa using hk⟩
    have hsub : ∀ x ∈ (cut w.slice (w.happened.filter fun e : Entry =>
        (e.seqKey == some 0 && decide (e.pos > pts)) || (e.seqKey == some 1 && decide (e.pos > qts)))).1, x ∈ w.log :=
      fun x hx => List.mem_of_mem_take (List.mem_filter.1 (cut_sub _ _ x hx)).1
    rcases List.mem_append.1 hmem with h1 | h1
    · rw [hm] at h1; exact hsub e (List.mem_filter.1 h1).1
    · rw [ho] at h1
      rcases List.mem_append.1 (List.mem_filter.1 h1).1 with h2 | h2
      · exact hsub e (List.mem_filter.1 h2).1
      · exact extrasOf_sub w 0 e h2

/-- … and for qts. -/
theorem commonDiff_honest_qts (w : World) (hs : KeySorted w.log 1)
    (horg : ∀ e ∈ w.log, e.seqKey = some 1 → w.q0 ≤ e.pos - e.count)
    (hcnt : ∀ e ∈ w.log, e.seqKey = some 1 → 0 ≤ e.count)
    (pts qts : Int) (msgs enc others : List Entry) (p q : Int) (slice : Bool)
    (h : (w.commonDiff pts qts).2 = .diff msgs enc others p q slice) :
    (∀ e ∈ seqLog w.log 1, qts < e.pos → e.pos ≤ q →
      exempt (mkOf w.log) e = true ∨ e ∈ (enc ++ others.filter ownCommon).filter (·.seqKey == some 1)) ∧
    (∀ e ∈ (enc ++ others.filter ownCommon).filter (·.seqKey == some 1), e ∈ seqLog w.log 1) := by
  obtain ⟨_, _, hen, ho, hsl, _, hq⟩ := commonDiff_diff w pts qts msgs enc others p q slice h
  constructor
  · intro e he her hle
    rw [mem_seqLog] at he
    by_cases hz : e.count = 0
    · exact Or.inl (exempt_of_zero _ e hz)
    have hec : 1 ≤ e.count := by
      have hcn := hcnt e he.1 he.2
      omega
    have hin := commonDiff_part_mem w 1 (Or.inr rfl) hs w.q0 horg pts qts slice q _ rfl hsl qts rfl
      (by simpa [World.serverQts] using hq) e he.1 he.2 hec her hle
    rcases seqKey1_kinds e he.2 with hk | hk
    · right
      refine List.mem_filter.2 ⟨List.mem_append_left _ ?_, by simp [he.2]⟩
      rw [hen]; exact List.mem_filter.2 ⟨hin, by simp [hk]⟩
    · right
      refine List.mem_filter.2 ⟨List.mem_append_right _ (List.mem_filter.2 ⟨?_, by simp [ownCommon, hk]⟩), by simp [he.2]⟩
      rw [ho]; exact List.mem_append_left _ (List.mem_filter.2 ⟨hin, by simp [hk]⟩)
  · intro e he
    obtain ⟨hmem, hk⟩ := List.mem_filter.1 he
    rw [mem_seqLog]
    refine ⟨?_, by simpa using hk⟩
    have hsub : ∀ x ∈ (cut w.slice (w.happened.filter fun e : Entry =>
        (e.seqKey == some 0 && decide (e.pos > pts)) || (e.seqKey == some 1 && decide (e.pos > qts)))).1, x ∈ w.log :=
      fun x hx => List.mem_of_mem_take (List.mem_filter.1 (cut_sub _ _ x hx)).1
    rcases List.mem_append.1 hmem with h1 | h1
    · rw [hen] at h1; exact hsub e (List.mem_filter.1 h1).1
    · rw [ho] at h1
      rcases List.mem_append.1 (List.mem_filter.1 h1).1 with h2 | h2
      · exact hsub e (List.mem_filter.1 h2).1
      · exact extrasOf_sub w 0 e h2

/-- Everything a common difference carries in `other_updates` is a log entry. -/
theorem commonDiff_others_sub (w : World) (pts qts : Int) (msgs enc others : List Entry) (p q : Int) (slice : Bool)
    (h : (w.commonDiff pts qts).2 = .diff msgs enc others p q slice) : ∀ e ∈ others, e ∈ w.log := by
  obtain ⟨_, _, _, ho, _⟩ := commonDiff_diff w pts qts msgs enc others p q slice h
  intro e he
  rw [ho] at he
  rcases List.mem_append.1 he with h1 | h1
  · exact List.mem_of_mem_take (List.mem_filter.1 (cut_sub _ _ e (List.mem_filter.1 h1).1)).1
  · exact extrasOf_sub w 0 e h1

/-! ### The channel difference -/

theorem chanDiff_static (w : World) (c : Nat) (pts : Int) : (w.chanDiff c pts).1.static = w.static := by
  unfold World.chanDiff
  split
  · rfl
  · split
    · rfl
    · split
      · rfl
      · simp only
        split <;> rfl

theorem chanDiff_cases (w : World) (c : Nat) (pts : Int) :
    let cand := w.happened.filter fun e : Entry => e.seqKey == some (2 + c) && decide (e.pos > pts)
    let part := (cut w.chSlice cand).1
    (w.chanDiff c pts).2 = .error ∨ (w.chanDiff c pts).2 = .priv ∨ (∃ p, (w.chanDiff c pts).2 = .tooLong p) ∨
    ((w.chanDiff c pts).2 = .empty (max pts (w.serverChan c)) ∧ cand = []) ∨
    ((w.chanDiff c pts).2 = .diff (part.filter (·.kind == .chmsg)) (part.filter (·.kind == .chother) ++ w.extrasOf (2 + c))
        (if part.isEmpty then max pts (w.serverChan c) else lastPos pts (fun _ => true) part)
        (!(cut w.chSlice cand).2)) := by
  unfold World.chanDiff
  split
  · left; rfl
  right
  split
  · left; rfl
  right
  split
  · left; exact ⟨_, rfl⟩
  · right
    simp only
    split
    · rename_i he
      simp only [Bool.and_eq_true] at he
      left; exact ⟨rfl, cut_isEmpty _ _ he.1⟩
    · right; rfl

/-- When nothing of the channel has happened above `pts`, nothing position-covering of the channel
lies in `(pts, max pts serverChan]`. -/
theorem chanDiff_empty_honest (w : World) (c : Nat) (hs : KeySorted w.log (2 + c))
    (horg : ∀ e ∈ w.log, e.seqKey = some (2 + c) → w.chanInit c ≤ e.pos - e.count) (pts : Int)
    (hc : (w.happened.filter fun e : Entry => e.seqKey == some (2 + c) && decide (e.pos > pts)) = []) :
    ∀ e ∈ seqLog w.log (2 + c), 1 ≤ e.count → ¬ (pts < e.pos ∧ e.pos ≤ max pts (w.serverChan c)) := by
  intro e he hec ⟨her, hle⟩
  rw [mem_seqLog] at he
  have h2 : e.pos ≤ w.serverChan c := by omega
  unfold World.serverChan at h2
  rcases lastPos_cases (w.chanInit c) (fun e => e.seqKey == some (2 + c)) w.happened with h | ⟨g, hg, hP, hpos⟩
  · rw [h] at h2; have := horg e he.1 he.2; omega
  · have hgk := (beq_some_iff g (2 + c)).1 hP
    have heH : e ∈ w.log.take w.emitted :=
      happened_of_le w.log (2 + c) hs w.emitted g hg hgk e he.1 he.2 hec (by rw [hpos]; exact h2)
    have : e ∈ (w.happened.filter fun e : Entry => e.seqKey == some (2 + c) && decide (e.pos > pts)) :=
      List.mem_filter.2 ⟨heH, by simp [he.2, her]⟩
    rw [hc] at this; simp at this

/-- **The channel difference is honest**: what it carries of the channel itself (new messages and
its own other-updates, among possibly forwarded foreign ones) contains every non-exempt entry of
the channel in `(requested, answered]`, and what it carries are log entries. -/
theorem chanDiff_honest (w : World) (c : Nat) (hs : KeySorted w.log (2 + c))
    (hcnt : ∀ e ∈ w.log, e.seqKey = some (2 + c) → 0 ≤ e.count)
    (horg : ∀ e ∈ w.log, e.seqKey = some (2 + c) → w.chanInit c ≤ e.pos - e.count) (pts : Int) :
    let cand := w.happened.filter fun e : Entry => e.seqKey == some (2 + c) && decide (e.pos > pts)
    let part := (cut w.chSlice cand).1
    let own := (part.filter (·.kind == .chother) ++ w.extrasOf (2 + c)).filter (·.seqKey == some (2 + c))
    (∀ e ∈ seqLog w.log (2 + c), pts < e.pos →
      e.pos ≤ (if part.isEmpty then max pts (w.serverChan c) else lastPos pts (fun _ => true) part) →
      exempt (mkOf w.log) e = true ∨ e ∈ part.filter (·.kind == .chmsg) ++ own) ∧
    (∀ e ∈ part.filter (·.kind == .chmsg) ++ own, e ∈ seqLog w.log (2 + c)) ∧
    (∀ e ∈ part.filter (·.kind == .chother) ++ w.extrasOf (2 + c), e ∈ w.log) := by
  intro cand part own
  have hpk : ∀ x ∈ part, x ∈ w.log ∧ x.seqKey = some (2 + c) := by
    intro x hx
    have := List.mem_filter.1 (cut_sub _ _ x hx)
    have h2 := this.2
    simp only [Bool.and_eq_true, beq_iff_eq] at h2
    exact ⟨List.mem_of_mem_take this.1, h2.1⟩
  refine ⟨?_, ?_, ?_⟩
  · intro e he her hle
    by_cases hz : e.count = 0
    · exact Or.inl (exempt_of_zero _ e hz)
    have he' := (mem_seqLog w.log (2 + c) e).1 he
    have hec : 1 ≤ e.count := by
      have hcn := hcnt e he'.1 he'.2
      omega
    by_cases hpe : part.isEmpty = true
    · exfalso
      rw [if_pos hpe] at hle
      exact chanDiff_empty_honest w c hs horg pts (cut_isEmpty _ _ hpe) e he hec ⟨her, hle⟩
    · rw [if_neg hpe] at hle
      have hC : ∀ e : Entry, e.seqKey = some (2 + c) →
          ((fun e : Entry => e.seqKey == some (2 + c) && decide (e.pos > pts)) e = true ↔ pts < e.pos) := by
        intro e hek; simp [hek]
      have hin : e ∈ part := by
        rcases lastPos_cases pts (fun _ => true) part with h | ⟨f, hf, _, hpos⟩
        · rw [h] at hle; omega
        · exact part_covers w.log (2 + c) hs w.emitted w.chSlice _ pts hC part (cut_prefix _ _) f hf (hpk f hf).2
            e he'.1 he'.2 hec her (by rw [hpos]; exact hle)
      rcases (seqKeyCh_kinds e c he'.2).2 with hk | hk | hk
      · right; exact List.mem_append_left _ (List.mem_filter.2 ⟨hin, by simp [hk]⟩)
      · right
        apply List.mem_append_right
        exact List.mem_filter.2 ⟨List.mem_append_left _ (List.mem_filter.2 ⟨hin, by simp [hk]⟩), by simp [he'.2]⟩
      · left; exact exempt_of_mk _ e (mkOf_marker w.log e he'.1 (by simp [Entry.isMarker, hk]))
  · intro e he
    rw [mem_seqLog]
    rcases List.mem_append.1 he with h | h
    · exact hpk e (List.mem_filter.1 h).1
    · obtain ⟨h1, h2⟩ := List.mem_filter.1 h
      refine ⟨?_, by simpa using h2⟩
      rcases List.mem_append.1 h1 with h3 | h3
      · exact (hpk e (List.mem_filter.1 h3).1).1
      · exact extrasOf_sub w _ e h3
  · intro e he
    rcases List.mem_append.1 he with h3 | h3
    · exact (hpk e (List.mem_filter.1 h3).1).1
    · exact extrasOf_sub w _ e h3

end TdModel.C02Core
