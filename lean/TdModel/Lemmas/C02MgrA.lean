/-
C02/C03 — the manager model (Part B) is coherent with the per-sequence LTS (Part A).
File A: the coherence invariant and the lemmas for the primitive steps
(`seqOp`, `seqOpQuiet`, `emit`, `pushChan`, world updates).
-/
import TdModel.Lemmas.C02Core
import TdModel.Model.C02Mgr

namespace TdModel.C02Core
open TdModel.C01

/-! ### Small list lemmas -/

theorem opsOf_nil (k : Nat) : opsOf [] k = [] := rfl

theorem opsOf_snoc (ops : List (Nat × SOp)) (k k' : Nat) (op : SOp) :
    opsOf (ops ++ [(k, op)]) k' = if k = k' then opsOf ops k' ++ [op] else opsOf ops k' := by
  unfold opsOf
  by_cases h : k = k'
  · subst h; simp
  · have : ((k, op).1 == k') = false := by simpa using h
    simp [List.filter_append, h]

theorem projSeq_append (log : List Entry) (k : Nat) (a b : List Event) :
    projSeq log k (a ++ b) = projSeq log k a ++ projSeq log k b := by
  induction a with
  | nil => simp [projSeq]
  | cons e es ih => simp only [List.cons_append, projSeq, ih, List.append_assoc]

theorem srun_snoc (c : ACfg) (b : Box) (ops : List SOp) (op : SOp) :
    srun c b (ops ++ [op]) =
      ((sstep c (srun c b ops).1 op).1, (srun c b ops).2 ++ (sstep c (srun c b ops).1 op).2) := by
  rw [srun_append]
  simp [srun]

theorem wfRun_append (c : ACfg) (log : List Entry) (a : List SOp) : ∀ (b : Box) (d : List SOp),
    wfRun c log b (a ++ d) = (wfRun c log b a && wfRun c log (srun c b a).1 d) := by
  induction a with
  | nil => intro b d; simp [wfRun, srun]
  | cons op ops ih =>
    intro b d
    simp only [List.cons_append, wfRun, srun]
    rw [ih]
    simp [Bool.and_assoc]

theorem wfRun_snoc (c : ACfg) (log : List Entry) (b : Box) (ops : List SOp) (op : SOp) :
    wfRun c log b (ops ++ [op]) = (wfRun c log b ops && wfOp log c.isMarker (srun c b ops).1 op) := by
  rw [wfRun_append]
  simp [wfRun]

/-! ### Ids -/

/-- Entry ids are pairwise different. -/
def UniqueIds (log : List Entry) : Prop := log.Pairwise (fun a b => a.id ≠ b.id)

theorem find_of_unique (log : List Entry) (h : UniqueIds log) (e : Entry) (he : e ∈ log) :
    log.find? (·.id == e.id) = some e := by
  induction log with
  | nil => simp at he
  | cons a as ih =>
    unfold UniqueIds at h
    rw [List.pairwise_cons] at h
    simp only [List.mem_cons] at he
    rcases he with rfl | he
    · simp [List.find?]
    · have hne : a.id ≠ e.id := h.1 e he
      have : (a.id == e.id) = false := by simpa using hne
      simp only [List.find?, this]
      exact ih h.2 he

theorem mem_seqLog (log : List Entry) (k : Nat) (e : Entry) :
    e ∈ seqLog log k ↔ e ∈ log ∧ e.seqKey = some k := by
  unfold seqLog
  simp [List.mem_filter]

/-! ### Projection of per-sequence events -/

/-- Dispatch events of `evs` carry non-empty batches of ids of entries of `L`. -/
def EvsIn (L : List Entry) (evs : List SEv) : Prop :=
  ∀ ids, SEv.dispatch ids ∈ evs → ids ≠ [] ∧ ∀ i ∈ ids, ∃ e ∈ L, e.id = i

theorem EvsIn_nil (L : List Entry) : EvsIn L [] := by
  intro ids h; simp at h

theorem EvsIn_cons (L : List Entry) (e : SEv) (es : List SEv) :
    EvsIn L (e :: es) ↔ EvsIn L [e] ∧ EvsIn L es := by
  unfold EvsIn
  constructor
  · intro h
    exact ⟨fun ids hi => h ids (by simp at hi; simp [hi]), fun ids hi => h ids (List.mem_cons_of_mem _ hi)⟩
  · rintro ⟨h1, h2⟩ ids hi
    simp only [List.mem_cons] at hi
    rcases hi with rfl | hi
    · exact h1 _ (by simp)
    · exact h2 _ hi

theorem filter_ids_same (log : List Entry) (hu : UniqueIds log) (k : Nat) (ids : List Nat)
    (h : ∀ i ∈ ids, ∃ e ∈ seqLog log k, e.id = i) :
    ids.filter (fun i => (log.find? (·.id == i)).any (·.seqKey == some k)) = ids := by
  rw [List.filter_eq_self]
  intro i hi
  obtain ⟨e, he, hei⟩ := h i hi
  rw [mem_seqLog] at he
  rw [← hei, find_of_unique log hu e he.1]
  simp [he.2]

theorem filter_ids_other (log : List Entry) (hu : UniqueIds log) (k k' : Nat) (hk : k' ≠ k) (ids : List Nat)
    (h : ∀ i ∈ ids, ∃ e ∈ seqLog log k, e.id = i) :
    ids.filter (fun i => (log.find? (·.id == i)).any (·.seqKey == some k')) = [] := by
  rw [List.filter_eq_nil_iff]
  intro i hi
  obtain ⟨e, he, hei⟩ := h i hi
  rw [mem_seqLog] at he
  rw [← hei, find_of_unique log hu e he.1]
  simp [he.2]
  exact fun h => hk h.symm

/-- Events of sequence `k`, sent through `evOfSeq k`, project back to themselves on `k` and to
nothing on every other sequence. -/
theorem projSeq_evOfSeq (log : List Entry) (hu : UniqueIds log) (k : Nat) (evs : List SEv)
    (hin : EvsIn (seqLog log k) evs) (hq : k = 1 → SEv.tooLong ∉ evs) :
    projSeq log k (evs.map (evOfSeq k)) = evs ∧
    ∀ k', k' ≠ k → projSeq log k' (evs.map (evOfSeq k)) = [] := by
  induction evs with
  | nil => simp [projSeq]
  | cons e es ih =>
    rw [EvsIn_cons] at hin
    have hq' : k = 1 → SEv.tooLong ∉ es := fun h1 hm => hq h1 (List.mem_cons_of_mem _ hm)
    obtain ⟨ih1, ih2⟩ := ih hin.2 hq'
    cases e with
    | dispatch ids =>
      obtain ⟨hne, hids⟩ := hin.1 ids (by simp)
      constructor
      · simp only [List.map_cons, evOfSeq, projSeq, filter_ids_same log hu k ids hids, ih1]
        have : ids.isEmpty = false := by cases ids <;> simp_all
        simp [this]
      · intro k' hk'
        simp only [List.map_cons, evOfSeq, projSeq, filter_ids_other log hu k k' hk' ids hids, ih2 k' hk']
        simp
    | store v =>
      constructor
      · simp only [List.map_cons, evOfSeq, projSeq]
        by_cases h0 : k = 0
        · subst h0; simp [projSeq, ih1]
        · by_cases h1 : k = 1
          · subst h1; simp [projSeq, ih1]
          · have : k = 2 + (k - 2) := by omega
            simp only [h0, h1, if_false, projSeq, ← this, if_true, ih1]
            simp
      · intro k' hk'
        simp only [List.map_cons, evOfSeq, projSeq]
        by_cases h0 : k = 0
        · subst h0
          have : ¬ k' = 0 := hk'
          simp [projSeq, this, ih2 k' hk']
        · by_cases h1 : k = 1
          · subst h1
            have : ¬ k' = 1 := hk'
            simp [projSeq, this, ih2 k' hk']
          · have : ¬ k' = 2 + (k - 2) := by omega
            simp only [h0, h1, if_false, projSeq, this, ih2 k' hk']
            simp
    | tooLong =>
      have hk1 : k ≠ 1 := fun h => hq h (by simp)
      constructor
      · simp only [List.map_cons, evOfSeq, projSeq]
        by_cases h0 : k = 0
        · subst h0; simp [projSeq, ih1]
        · have : k = 2 + (k - 2) := by omega
          simp only [h0, if_false, projSeq, ← this, if_true, ih1]
          simp
      · intro k' hk'
        simp only [List.map_cons, evOfSeq, projSeq]
        by_cases h0 : k = 0
        · subst h0
          have : ¬ k' = 0 := hk'
          simp [projSeq, this, ih2 k' hk']
        · have : ¬ k' = 2 + (k - 2) := by omega
          simp only [h0, if_false, projSeq, this, ih2 k' hk']
          simp

/-! ### Boxes of the manager -/

theorem getBox_emit (m : Mgr) (evs : List Event) (k : Nat) : (m.emit evs).getBox k = m.getBox k := rfl
theorem getBox_logOp (m : Mgr) (k' : Nat) (op : SOp) (k : Nat) : (m.logOp k' op).getBox k = m.getBox k := rfl

theorem setBox_w (m : Mgr) (k : Nat) (b : Box) : (m.setBox k b).w = m.w := by
  unfold Mgr.setBox; split
  · rfl
  · split <;> rfl
theorem setBox_ops (m : Mgr) (k : Nat) (b : Box) : (m.setBox k b).ops = m.ops := by
  unfold Mgr.setBox; split
  · rfl
  · split <;> rfl
theorem setBox_trace (m : Mgr) (k : Nat) (b : Box) : (m.setBox k b).trace = m.trace := by
  unfold Mgr.setBox; split
  · rfl
  · split <;> rfl
theorem setBox_internal (m : Mgr) (k : Nat) (b : Box) : (m.setBox k b).internal = m.internal := by
  unfold Mgr.setBox; split
  · rfl
  · split <;> rfl

theorem setBox_parked (m : Mgr) (k : Nat) (b : Box) : (m.setBox k b).parked = m.parked := by
  unfold Mgr.setBox; split
  · rfl
  · split <;> rfl
theorem setBox_seq (m : Mgr) (k : Nat) (b : Box) : (m.setBox k b).seq = m.seq := by
  unfold Mgr.setBox; split
  · rfl
  · split <;> rfl

theorem find_map_id (chans : List Chan) (f : Chan → Chan) (hf : ∀ ch, (f ch).id = ch.id) (c : Nat) :
    (chans.map f).find? (·.id == c) = (chans.find? (·.id == c)).map f := by
  induction chans with
  | nil => rfl
  | cons a as ih =>
    simp only [List.map_cons, List.find?, hf]
    cases h : (a.id == c)
    · simpa using ih
    · simp

theorem getBox_setBox_same (m : Mgr) (k : Nat) (b0 b : Box) (h : m.getBox k = some b0) :
    (m.setBox k b).getBox k = some b := by
  unfold Mgr.setBox Mgr.getBox at *
  by_cases h0 : k = 0
  · simp [h0]
  · by_cases h1 : k = 1
    · simp [h1]
    · simp only [h0, h1, if_false] at h ⊢
      rw [find_map_id _ _ (by intro ch; split <;> rfl)]
      cases hf : m.chans.find? (·.id == k - 2) with
      | none => simp [hf] at h
      | some ch =>
        have hid : ch.id = k - 2 := by
          have := List.find?_some hf
          simpa using this
        simp [hid]

theorem getBox_setBox_other (m : Mgr) (k k' : Nat) (b : Box) (hk : k' ≠ k) :
    (m.setBox k b).getBox k' = m.getBox k' := by
  unfold Mgr.setBox Mgr.getBox
  by_cases h0 : k = 0
  · subst h0
    have : ¬ k' = 0 := hk
    simp [this]
  · by_cases h1 : k = 1
    · subst h1
      have : ¬ k' = 1 := hk
      by_cases h0' : k' = 0
      · simp [h0']
      · simp [h0', this]
    · simp only [h0, h1, if_false]
      by_cases h0' : k' = 0
      · simp [h0']
      · by_cases h1' : k' = 1
        · simp [h1']
        · simp only [h0', h1', if_false]
          rw [find_map_id _ _ (by intro ch; split <;> rfl)]
          cases hf : m.chans.find? (·.id == k' - 2) with
          | none => simp
          | some ch =>
            have hid : ch.id = k' - 2 := by
              have := List.find?_some hf
              simpa using this
            have hne : ¬ ch.id = k - 2 := by omega
            simp [hne]

theorem getBox_pushChan (m : Mgr) (c : Nat) (it : ChItem) (k : Nat) : (m.pushChan c it).getBox k = m.getBox k := by
  unfold Mgr.pushChan Mgr.getBox
  by_cases h0 : k = 0
  · simp [h0]
  · by_cases h1 : k = 1
    · simp [h1]
    · simp only [h0, h1, if_false]
      rw [find_map_id _ _ (by intro ch; split <;> rfl)]
      cases hf : m.chans.find? (·.id == k - 2) with
      | none => simp
      | some ch => simp only [Option.map_some]; split <;> rfl

/-! ### The coherence invariant -/

def cfgOf (O : Orders) (log : List Entry) (k : Nat) : ACfg := applyCfgOf O (mkOf log) k

/-- Replay of the ops logged for sequence `k`. -/
def replay (O : Orders) (log : List Entry) (start : Nat → Int) (ops : List (Nat × SOp)) (k : Nat) :
    Box × List SEv :=
  srun (cfgOf O log k) { state := start k } (opsOf ops k)

/-- The manager state is what Part A says: every tracked sequence's box is the replay of the ops
logged for it, its part of the trace is the replay's events, the logged ops are well-formed,
and what is pending in a box is known. -/
structure Coh (O : Orders) (log : List Entry) (start : Nat → Int) (keys : List Nat) (m : Mgr) : Prop where
  hlog : m.w.log = log
  box : ∀ k ∈ keys, m.getBox k = some (replay O log start m.ops k).1 ∨ m.getBox k = none
  tr : ∀ k ∈ keys, projSeq log k m.trace = (replay O log start m.ops k).2
  wf : ∀ k ∈ keys, wfRun (cfgOf O log k) (seqLog log k) { state := start k } (opsOf m.ops k) = true
  pend : ∀ k ∈ keys, ∀ b, m.getBox k = some b → ∀ u ∈ b.pending, Known (seqLog log k) (mkOf log) u
  nobox : ∀ k, k ∉ keys → m.getBox k = none

theorem Coh.box_some {O log start keys m} (h : Coh O log start keys m) (k : Nat) (hk : k ∈ keys) (b : Box)
    (hb : m.getBox k = some b) : b = (replay O log start m.ops k).1 := by
  rcases h.box k hk with h1 | h1
  · rw [hb] at h1; exact Option.some.inj h1
  · rw [hb] at h1; cases h1

/-- Events that do not concern any sequence. -/
def Neutral (log : List Entry) (keys : List Nat) (evs : List Event) : Prop :=
  ∀ k ∈ keys, projSeq log k evs = []

theorem coh_emit_neutral {O log start keys m} (h : Coh O log start keys m) (evs : List Event)
    (hn : Neutral log keys evs) : Coh O log start keys (m.emit evs) := by
  refine ⟨h.hlog, h.box, ?_, h.wf, h.pend, h.nobox⟩
  intro k hk
  show projSeq log k (m.trace ++ evs) = _
  rw [projSeq_append, hn k hk, List.append_nil]
  exact h.tr k hk

theorem coh_pushChan {O log start keys m} (h : Coh O log start keys m) (c : Nat) (it : ChItem) :
    Coh O log start keys (m.pushChan c it) := by
  refine ⟨h.hlog, ?_, h.tr, h.wf, ?_, ?_⟩
  · intro k hk; rw [getBox_pushChan]; exact h.box k hk
  · intro k hk b hb; rw [getBox_pushChan] at hb; exact h.pend k hk b hb
  · intro k hk; rw [getBox_pushChan]; exact h.nobox k hk

theorem coh_world {O log start keys m} (h : Coh O log start keys m) (w : World) (hw : w.log = log) :
    Coh O log start keys { m with w := w } :=
  ⟨hw, h.box, h.tr, h.wf, h.pend, h.nobox⟩

/-- What one Part-A step does to `pending`. -/
theorem sstep_pending (c : ACfg) (b : Box) (op : SOp) (L : List Entry)
    (hp : ∀ u ∈ b.pending, Known L c.isMarker u) (hw : wfOp L c.isMarker b op = true) :
    ∀ u ∈ (sstep c b op).1.pending, Known L c.isMarker u := by
  cases op with
  | push e =>
    have he : Known L c.isMarker e.upd := by
      simp only [wfOp, Bool.or_eq_true, Bool.and_eq_true, decide_eq_true_eq] at hw
      rcases hw with h | ⟨⟨h1, h2⟩, h3⟩
      · exact Or.inl ⟨e, h, rfl⟩
      · exact Or.inr ⟨h1, h2, h3⟩
    intro u hu
    rcases (handle_sub b e.upd true).2 u hu with h | h
    · rw [h]; exact he
    · exact hp u h
  | clear => exact hp
  | seq calls x direct => exact hp
  | fire => exact hp
  | reset => intro u hu; simp [sstep] at hu

theorem callEvs_dispatch_mem (x : Int) (ids : List Nat) (calls : List SCall) (ids' : List Nat)
    (h : SEv.dispatch ids' ∈ callEvs x ids calls) : ids' = ids ∧ ids ≠ [] := by
  induction calls with
  | nil => simp [callEvs] at h
  | cons c cs ih =>
    cases c with
    | dispatch =>
      simp only [callEvs, List.mem_append] at h
      rcases h with h | h
      · by_cases he : ids.isEmpty = true
        · simp [he] at h
        · simp only [he, Bool.false_eq_true, if_false, List.mem_singleton, SEv.dispatch.injEq] at h
          exact ⟨h, by simpa using he⟩
      · exact ih h
    | store =>
      simp only [callEvs, List.mem_cons] at h
      rcases h with h | h
      · cases h
      · exact ih h
    | setBox => exact ih (by simpa [callEvs] using h)
    | cb =>
      simp only [callEvs, List.mem_cons] at h
      rcases h with h | h
      · cases h
      · exact ih h

/-- Dispatch events of one Part-A step carry ids of entries of the sequence's log. -/
theorem sstep_evsIn (c : ACfg) (hg : GoodCfg c) (b : Box) (op : SOp) (L : List Entry)
    (hp : ∀ u ∈ b.pending, Known L c.isMarker u) (hw : wfOp L c.isMarker b op = true) :
    EvsIn L (sstep c b op).2 := by
  cases op with
  | push e =>
    have he : Known L c.isMarker e.upd := by
      simp only [wfOp, Bool.or_eq_true, Bool.and_eq_true, decide_eq_true_eq] at hw
      rcases hw with h | ⟨⟨h1, h2⟩, h3⟩
      · exact Or.inl ⟨e, h, rfl⟩
      · exact Or.inr ⟨h1, h2, h3⟩
    simp only [sstep]
    rcases handle_shape b e.upd true with ⟨h1, _⟩ | ⟨ns, us, h1, _, _, _⟩
    · rw [h1]; exact EvsIn_nil L
    · rw [h1]
      simp only [List.flatMap_cons, List.flatMap_nil, List.append_nil, applyEvs]
      intro ids hids
      obtain ⟨hi, hne⟩ := callEvs_dispatch_mem _ _ _ _ hids
      refine ⟨by rw [hi]; exact hne, ?_⟩
      intro i hi'
      rw [hi, mem_batchIds c hg.cont] at hi'
      obtain ⟨⟨u, hu, hut⟩, hmk⟩ := hi'
      have hud : u ∈ delivered (handle b e.upd true).2 := by rw [h1]; simpa [delivered] using hu
      have hk : Known L c.isMarker u := by
        rcases (handle_sub b e.upd true).1 u hud with h | h
        · rw [h]; exact he
        · exact hp u h
      rcases hk with ⟨f, hf, hfu⟩ | ⟨_, _, hm⟩
      · exact ⟨f, hf, by rw [← hut, ← hfu]; rfl⟩
      · rw [hut] at hm; rw [hm] at hmk; cases hmk
  | clear => exact EvsIn_nil L
  | fire => exact EvsIn_nil L
  | reset => exact EvsIn_nil L
  | seq calls x direct =>
    simp only [sstep]
    intro ids hids
    obtain ⟨hi, hne⟩ := callEvs_dispatch_mem _ _ _ _ hids
    refine ⟨by rw [hi]; exact hne, ?_⟩
    intro i hi'
    rw [hi] at hi'
    obtain ⟨e, he, hei⟩ := List.mem_map.1 hi'
    simp only [wfOp, Bool.and_eq_true, List.all_eq_true, decide_eq_true_eq] at hw
    exact ⟨e, hw.1 e he, hei⟩

/-- The update of the logged ops / replay when one op is appended for `k`. -/
theorem replay_snoc_same (O : Orders) (log : List Entry) (start : Nat → Int) (ops : List (Nat × SOp))
    (k : Nat) (op : SOp) :
    replay O log start (ops ++ [(k, op)]) k =
      ((sstep (cfgOf O log k) (replay O log start ops k).1 op).1,
       (replay O log start ops k).2 ++ (sstep (cfgOf O log k) (replay O log start ops k).1 op).2) := by
  unfold replay
  rw [opsOf_snoc, if_pos rfl, srun_snoc]

theorem replay_snoc_other (O : Orders) (log : List Entry) (start : Nat → Int) (ops : List (Nat × SOp))
    (k k' : Nat) (op : SOp) (h : k ≠ k') :
    replay O log start (ops ++ [(k, op)]) k' = replay O log start ops k' := by
  unfold replay
  rw [opsOf_snoc, if_neg h]

/-- **A Part-A step through `seqOp` keeps the manager coherent**, provided the op is well-formed in
the current box. -/
theorem coh_seqOp {O log start keys m} (hu : UniqueIds log) (h : Coh O log start keys m) (k : Nat)
    (hg : GoodCfg (cfgOf O log k)) (op : SOp)
    (hw : ∀ b, m.getBox k = some b → wfOp (seqLog log k) (mkOf log) b op = true)
    (hq : k = 1 → ∀ b, m.getBox k = some b → SEv.tooLong ∉ (sstep (cfgOf O log k) b op).2) :
    Coh O log start keys (m.seqOp O k op) := by
  unfold Mgr.seqOp
  cases hb : m.getBox k with
  | none => simpa [hb] using h
  | some b =>
    have hk : k ∈ keys := by
      by_cases hk : k ∈ keys
      · exact hk
      · rw [h.nobox k hk] at hb; cases hb
    simp only [hb]
    have hcfg : applyCfgOf O (mkOf m.w.log) k = cfgOf O log k := by rw [h.hlog]; rfl
    rw [hcfg]
    have hbr : b = (replay O log start m.ops k).1 := h.box_some k hk b hb
    have hwb := hw b hb
    have hpend := h.pend k hk b hb
    have hin := sstep_evsIn (cfgOf O log k) hg b op (seqLog log k) hpend hwb
    obtain ⟨hp1, hp2⟩ := projSeq_evOfSeq log hu k _ hin (fun h1 => hq h1 b hb)
    generalize hm' : ((m.setBox k (sstep (cfgOf O log k) b op).1).emit
        ((sstep (cfgOf O log k) b op).2.map (evOfSeq k))).logOp k op = m'
    have hops : m'.ops = m.ops ++ [(k, op)] := by
      rw [← hm']; simp [Mgr.logOp, Mgr.emit, setBox_ops]
    have htr : m'.trace = m.trace ++ (sstep (cfgOf O log k) b op).2.map (evOfSeq k) := by
      rw [← hm']; simp [Mgr.logOp, Mgr.emit, setBox_trace]
    have hwd : m'.w = m.w := by
      rw [← hm']; simp [Mgr.logOp, Mgr.emit, setBox_w]
    have hgb : ∀ k', m'.getBox k' = (m.setBox k (sstep (cfgOf O log k) b op).1).getBox k' := by
      intro k'; rw [← hm']; rfl
    refine ⟨by rw [hwd]; exact h.hlog, ?_, ?_, ?_, ?_, ?_⟩
    · intro k' hk'
      rw [hgb, hops]
      by_cases hkk : k' = k
      · subst hkk
        left
        rw [getBox_setBox_same m k' b _ hb, replay_snoc_same, ← hbr]
      · rw [getBox_setBox_other m k k' _ hkk, replay_snoc_other _ _ _ _ _ _ _ (fun h => hkk h.symm)]
        exact h.box k' hk'
    · intro k' hk'
      rw [htr, hops, projSeq_append, h.tr k' hk']
      by_cases hkk : k' = k
      · subst hkk
        rw [replay_snoc_same, hp1, ← hbr]
      · rw [replay_snoc_other _ _ _ _ _ _ _ (fun h => hkk h.symm), hp2 k' hkk, List.append_nil]
    · intro k' hk'
      rw [hops, opsOf_snoc]
      by_cases hkk : k = k'
      · subst hkk
        rw [if_pos rfl, wfRun_snoc, h.wf k hk, Bool.true_and]
        have : (srun (cfgOf O log k) { state := start k } (opsOf m.ops k)).1 = b := hbr.symm
        rw [this]
        exact hwb
      · rw [if_neg hkk]; exact h.wf k' hk'
    · intro k' hk' b' hb'
      rw [hgb] at hb'
      by_cases hkk : k' = k
      · subst hkk
        rw [getBox_setBox_same m k' b _ hb] at hb'
        rw [← Option.some.inj hb']
        exact sstep_pending (cfgOf O log k') b op (seqLog log k') hpend hwb
      · rw [getBox_setBox_other m k k' _ hkk] at hb'
        exact h.pend k' hk' b' hb'
    · intro k' hk'
      rw [hgb]
      have hkk : k' ≠ k := fun h => hk' (h ▸ hk)
      rw [getBox_setBox_other m k k' _ hkk]
      exact h.nobox k' hk'

/-! ### A channel appears (first contact) -/

theorem getBox_addChan_same (m : Mgr) (c : Nat) (pts : Int) (h : m.getBox (2 + c) = none) :
    (m.addChan c pts).getBox (2 + c) = some { state := pts } := by
  unfold Mgr.getBox Mgr.addChan at *
  have h0 : ¬ (2 + c = 0) := by omega
  have h1 : ¬ (2 + c = 1) := by omega
  have h2 : 2 + c - 2 = c := by omega
  simp only [h0, h1, if_false, h2] at h ⊢
  have hn : m.chans.find? (·.id == c) = none := by
    cases hf : m.chans.find? (·.id == c) with
    | none => rfl
    | some ch => simp [hf] at h
  simp [List.find?_append, hn]

theorem getBox_addChan_other (m : Mgr) (c : Nat) (pts : Int) (k : Nat) (hk : k ≠ 2 + c) :
    (m.addChan c pts).getBox k = m.getBox k := by
  unfold Mgr.getBox Mgr.addChan
  by_cases h0 : k = 0
  · simp [h0]
  · by_cases h1 : k = 1
    · simp [h1]
    · simp only [h0, h1, if_false, List.find?_append]
      cases hf : m.chans.find? (·.id == k - 2) with
      | some ch => simp
      | none =>
        have : ¬ (c = k - 2) := by omega
        simp [this]

/-- **A worker is (re)started**: no box for the sequence now (never met, or removed because the
channel became inaccessible); the new box starts, with an empty buffer, at the position the logged
ops end at (which is what the storage holds — `replay_state_stored`, file C). -/
theorem coh_recreate {O log start keys m} (h : Coh O log start keys m) (c : Nat)
    (hk : 2 + c ∈ keys) (hb : m.getBox (2 + c) = none) :
    Coh O log start keys ((m.addChan c (replay O log start m.ops (2 + c)).1.state).logOp (2 + c) .reset) := by
  have hops : ((m.addChan c (replay O log start m.ops (2 + c)).1.state).logOp (2 + c) .reset).ops = m.ops ++ [(2 + c, .reset)] := rfl
  refine ⟨h.hlog, ?_, ?_, ?_, ?_, ?_⟩
  · intro k hk'
    rw [hops, getBox_logOp]
    by_cases hkk : k = 2 + c
    · subst hkk
      left
      rw [getBox_addChan_same m c _ hb, replay_snoc_same]
      rfl
    · rw [getBox_addChan_other m c _ k hkk, replay_snoc_other _ _ _ _ _ _ _ (fun h' => hkk h'.symm)]
      exact h.box k hk'
  · intro k hk'
    rw [hops]
    show projSeq log k m.trace = _
    by_cases hkk : k = 2 + c
    · subst hkk
      rw [replay_snoc_same]
      simp only [sstep, List.append_nil]
      exact h.tr _ hk'
    · rw [replay_snoc_other _ _ _ _ _ _ _ (fun h' => hkk h'.symm)]
      exact h.tr k hk'
  · intro k hk'
    rw [hops, opsOf_snoc]
    by_cases hkk : 2 + c = k
    · subst hkk
      rw [if_pos rfl, wfRun_snoc]
      simp [h.wf _ hk', wfOp]
    · rw [if_neg hkk]
      exact h.wf k hk'
  · intro k hk' b hbk
    rw [getBox_logOp] at hbk
    by_cases hkk : k = 2 + c
    · subst hkk
      rw [getBox_addChan_same m c _ hb] at hbk
      rw [← Option.some.inj hbk]
      intro u hu; simp at hu
    · rw [getBox_addChan_other m c _ k hkk] at hbk
      exact h.pend k hk' b hbk
  · intro k hk'
    have hkk : k ≠ 2 + c := fun h' => hk' (h' ▸ hk)
    rw [getBox_logOp, getBox_addChan_other m c _ k hkk]
    exact h.nobox k hk'

/-! ### A channel disappears (its worker stopped: the channel became inaccessible) -/

theorem getBox_removeChan_same (m : Mgr) (c : Nat) : (m.removeChan c).getBox (2 + c) = none := by
  unfold Mgr.getBox Mgr.removeChan
  have h0 : ¬ (2 + c = 0) := by omega
  have h1 : ¬ (2 + c = 1) := by omega
  have h2 : 2 + c - 2 = c := by omega
  simp only [h0, h1, if_false, h2]
  cases hf : (m.chans.filter (·.id != c)).find? (·.id == c) with
  | none => rfl
  | some ch =>
    have hm := List.mem_of_find?_eq_some hf
    have hid := List.find?_some hf
    have := (List.mem_filter.1 hm).2
    simp_all

theorem getBox_removeChan_other (m : Mgr) (c : Nat) (k : Nat) (hk : k ≠ 2 + c) :
    (m.removeChan c).getBox k = m.getBox k := by
  unfold Mgr.getBox Mgr.removeChan
  by_cases h0 : k = 0
  · simp [h0]
  · by_cases h1 : k = 1
    · simp [h1]
    · simp only [h0, h1, if_false]
      have hne : k - 2 ≠ c := by omega
      congr 1
      induction m.chans with
      | nil => rfl
      | cons a t ih =>
        by_cases ha : a.id = c
        · have h1' : (a.id != c) = false := by simp [ha]
          have h2' : (a.id == k - 2) = false := by simp [ha]; omega
          simp only [List.filter_cons, h1', List.find?_cons, h2']
          exact ih
        · have h1' : (a.id != c) = true := by simp [ha]
          simp only [List.filter_cons, h1', if_true, List.find?_cons]
          cases (a.id == k - 2)
          · exact ih
          · rfl

theorem coh_removeChan {O log start keys m} (h : Coh O log start keys m) (c : Nat) :
    Coh O log start keys (m.removeChan c) := by
  refine ⟨h.hlog, ?_, h.tr, h.wf, ?_, ?_⟩
  · intro k hk
    by_cases hkk : k = 2 + c
    · subst hkk; right; exact getBox_removeChan_same m c
    · rw [getBox_removeChan_other m c k hkk]; exact h.box k hk
  · intro k hk b hb
    by_cases hkk : k = 2 + c
    · subst hkk; rw [getBox_removeChan_same m c] at hb; cases hb
    · rw [getBox_removeChan_other m c k hkk] at hb; exact h.pend k hk b hb
  · intro k hk
    by_cases hkk : k = 2 + c
    · subst hkk; exact getBox_removeChan_same m c
    · rw [getBox_removeChan_other m c k hkk]; exact h.nobox k hk

end TdModel.C02Core
