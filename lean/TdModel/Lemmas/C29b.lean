/-
C29 — every action preserves the invariant.
-/
import TdModel.Lemmas.C29

namespace TdModel.C29

theorem inv_step (cfg : Cfg) {s s' : State} (a : Action) (hI : Inv s) (h : step cfg s a = some s') : Inv s' := by
  cases a with
  | inv r =>
    simp only [step] at h
    split at h
    · rename_i q hq
      split at h
      · rename_i hp
        cases h
        obtain ⟨h1, h2, h3, h4, h5, h6⟩ := hI.req r q hq
        apply inv_setReq hI r q _ hq
        refine ⟨fun _ => h1 (Or.inl hp), ?_, ?_, h4, ?_, ?_⟩ <;> simp
      · cases h
    · cases h
  | arr r k =>
    simp only [step] at h
    split at h
    · rename_i q hq
      have hlt := lt_of_getElem? hq
      obtain ⟨h1, h2, h3, h4, h5, h6⟩ := hI.req r q hq
      split at h
      · rename_i hg
        obtain ⟨hp, hk, hnm⟩ := hg
        cases h
        refine ⟨?_, ?_, ?_⟩
        · intro r2 q2 hq2
          simp only [setReq, List.getElem?_set] at hq2
          by_cases hr : r = r2
          · subst hr
            simp [hlt] at hq2
            subst hq2
            have hnone := h1 (Or.inr hp)
            refine ⟨by simp, ?_, by simp, ?_, by simp, by simp⟩
            · intro k2 hk2
              simp at hk2
              subst hk2
              refine ⟨hnone, by rw [hk]; exact Nat.le_refl _, ?_⟩
              intro k' hm
              simp at hm
              rcases hm with rfl | hm
              · exact Nat.le_refl _
              · rw [hk]; exact hI.le r k' hm
            · intro a ha
              simp [hnone] at ha
          · simp [hr] at hq2
            obtain ⟨g1, g2, g3, g4, g5, g6⟩ := hI.req r2 q2 hq2
            have hmem : ∀ k', (r2, k') ∈ (r, k) :: s.arrivals → (r2, k') ∈ s.arrivals := by
              intro k' hm
              simp at hm
              rcases hm with ⟨rfl, _⟩ | hm
              · exact absurd rfl hr
              · exact hm
            refine ⟨g1, ?_, g3, ?_, g5, ?_⟩
            · intro k2 hk2
              obtain ⟨a, b, c⟩ := g2 k2 hk2
              exact ⟨a, b, fun k' hm => c k' (hmem k' hm)⟩
            · intro a ha
              obtain ⟨b, c⟩ := g4 a ha
              exact ⟨b, fun k' hm => c k' (hmem k' hm)⟩
            · intro hid k' hm
              exact g6 hid k' (hmem k' hm)
        · intro r2 k2 hm
          simp at hm
          rcases hm with ⟨rfl, rfl⟩ | hm
          · rw [hk]; exact Nat.le_refl _
          · exact hI.le r2 k2 hm
        · exact List.nodup_cons.2 ⟨hnm, hI.nodup⟩
      · split at h
        · rename_i hg
          obtain ⟨hk, hnm, hl⟩ := hg
          cases h
          simp only [lateOk, Bool.and_eq_true] at hl
          obtain ⟨hl1, hl2⟩ := hl
          refine ⟨?_, ?_, ?_⟩
          · intro r2 q2 hq2
            have hq2' : s.reqs[r2]? = some q2 := hq2
            by_cases hr : r = r2
            · subst hr
              rw [hq] at hq2'; cases hq2'
              refine ⟨h1, ?_, h3, ?_, h5, ?_⟩
              · intro k2 hk2
                obtain ⟨a, b, c⟩ := h2 k2 hk2
                refine ⟨a, b, ?_⟩
                intro k' hm
                simp at hm
                rcases hm with rfl | hm
                · rw [hk2] at hl2; simp at hl2; omega
                · exact c k' hm
              · intro a ha
                obtain ⟨b, c⟩ := h4 a ha
                refine ⟨b, ?_⟩
                intro k' hm
                simp at hm
                rcases hm with rfl | hm
                · rw [ha] at hl1; simpa [notAfterAck] using hl1
                · exact c k' hm
              · intro hid
                rw [hid] at hl2; simp at hl2
            · obtain ⟨g1, g2, g3, g4, g5, g6⟩ := hI.req r2 q2 hq2'
              have hmem : ∀ k', (r2, k') ∈ (r, k) :: s.arrivals → (r2, k') ∈ s.arrivals := by
                intro k' hm
                simp at hm
                rcases hm with ⟨rfl, _⟩ | hm
                · exact absurd rfl hr
                · exact hm
              refine ⟨g1, ?_, g3, ?_, g5, ?_⟩
              · intro k2 hk2
                obtain ⟨a, b, c⟩ := g2 k2 hk2
                exact ⟨a, b, fun k' hm => c k' (hmem k' hm)⟩
              · intro a ha
                obtain ⟨b, c⟩ := g4 a ha
                exact ⟨b, fun k' hm => c k' (hmem k' hm)⟩
              · intro hid k' hm
                exact g6 hid k' (hmem k' hm)
          · intro r2 k2 hm
            simp at hm
            rcases hm with ⟨rfl, rfl⟩ | hm
            · exact Nat.le_of_lt hk
            · exact hI.le r2 k2 hm
          · exact List.nodup_cons.2 ⟨hnm, hI.nodup⟩
        · cases h
    · cases h
  | ack r k =>
    simp only [step] at h
    split at h
    · cases h; exact inv_mono hI rfl (Nat.le_refl _) rfl (fun h => h)
    · cases h
  | res r k =>
    simp only [step] at h
    split at h
    · cases h; exact inv_mono hI rfl (Nat.le_refl _) rfl (fun h => h)
    · cases h
  | seen r =>
    simp only [step] at h
    split at h
    · rename_i q hq
      obtain ⟨h1, h2, h3, h4, h5, h6⟩ := hI.req r q hq
      split at h
      · rename_i k hp
        split at h
        · cases h
          obtain ⟨a, b, c⟩ := h2 k hp
          apply inv_setReq hI r q _ hq
          refine ⟨by simp, by simp, by simp, ?_, by simp, by simp⟩
          intro a' ha'
          simp at ha'
          subst ha'
          exact ⟨b, c⟩
        · cases h; exact hI
      · cases h
      · cases h; exact hI
    · cases h
  | kill =>
    simp only [step] at h
    split at h
    · cases h; exact inv_mono hI rfl (Nat.le_refl _) rfl (fun h => h)
    · cases h
  | fail r =>
    simp only [step] at h
    split at h
    · rename_i q hq
      obtain ⟨h1, h2, h3, h4, h5, h6⟩ := hI.req r q hq
      split at h
      · rename_i k hp
        split at h
        · cases h
          obtain ⟨a, b, c⟩ := h2 k hp
          apply inv_setReq hI r q _ hq
          refine ⟨fun _ => a, by simp, by simp, h4, by simp, by simp⟩
        · cases h
      · cases h
    · cases h
  | reconnect =>
    simp only [step] at h
    split at h
    · cases h; exact inv_mono hI rfl (Nat.le_succ _) rfl (fun h => h)
    · cases h
  | retOk r =>
    simp only [step] at h
    split at h
    · rename_i q hq
      obtain ⟨h1, h2, h3, h4, h5, h6⟩ := hI.req r q hq
      split at h
      · split at h
        · cases h
          apply inv_setReq hI r q _ hq
          exact ⟨by simp, by simp, by simp, h4, by simp, by simp⟩
        · cases h
      · split at h
        · cases h
          apply inv_setReq hI r q _ hq
          exact ⟨by simp, by simp, by simp, h4, by simp, by simp⟩
        · cases h
      · cases h
    · cases h
  | retErr r =>
    simp only [step] at h
    split at h
    · rename_i q hq
      obtain ⟨h1, h2, h3, h4, h5, h6⟩ := hI.req r q hq
      split at h
      · cases h
      · cases h
      · cases h
      · rename_i k hp
        split at h
        · rename_i hc
          cases h
          apply inv_setReq hI r q _ hq
          exact ⟨by simp, by simp, by simp, h4, fun _ => Or.inr (Or.inl ⟨rfl, hc.1⟩), by simp⟩
        · split at h
          · cases h
            apply inv_setReq hI r q _ hq
            refine ⟨by simp, by simp, by simp, h4, fun _ => Or.inl ⟨rfl, ?_⟩, by simp⟩
            simp [h3 k hp]
          · cases h
      · split at h
        · rename_i hc
          cases h
          apply inv_setReq hI r q _ hq
          exact ⟨by simp, by simp, by simp, h4, fun _ => Or.inr (Or.inl ⟨rfl, hc.1⟩), by simp⟩
        · cases h
    · cases h
  | sendFail r =>
    simp only [step] at h
    split at h
    · rename_i q hq
      obtain ⟨h1, h2, h3, h4, h5, h6⟩ := hI.req r q hq
      split at h
      · cases h
        apply inv_setReq hI r q _ hq
        exact ⟨by simp, by simp, by simp, h4, fun _ => Or.inr (Or.inr rfl), by simp⟩
      · cases h
    · cases h
  | close =>
    simp only [step] at h
    split at h
    · cases h
    · cases h; exact inv_mono hI rfl (Nat.le_refl _) rfl (fun _ => rfl)

theorem inv_run (cfg : Cfg) (as : List Action) {s s' : State} (hI : Inv s) (h : run cfg s as = some s') : Inv s' := by
  induction as generalizing s with
  | nil => simp [run] at h; subst h; exact hI
  | cons a as ih =>
    simp only [run] at h
    split at h
    · rename_i s1 h1; exact ih (inv_step cfg a hI h1) h
    · cases h

theorem inv_reachable {cfg : Cfg} {n : Nat} {s : State} (h : Reachable cfg n s) : Inv s := by
  obtain ⟨as, h⟩ := h
  exact inv_run cfg as (inv_init n) h

end TdModel.C29
