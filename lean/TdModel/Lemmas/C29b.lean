/-
C29 — every action preserves the invariant.
-/
import TdModel.Lemmas.C29

namespace TdModel.C29

theorem connDead_spec {s : State} {k : Nat} (h : connDead s k = true) (hk : k = s.epoch) : s.alive = false := by
  unfold connDead at h
  subst hk
  simpa using h

/-- A request that fails over parks on the right epoch. -/
theorem parked_ok {cfg : Cfg} {s : State} {k : Nat} (hk : k ≤ s.epoch) (hd : connDead s k = true) :
    (if cfg.snapshotBeforeInvoke then k else s.epoch) ≤ s.epoch ∧
    (cfg.snapshotBeforeInvoke = true → (if cfg.snapshotBeforeInvoke then k else s.epoch) = s.epoch → s.alive = false) ∧
    k ≤ (if cfg.snapshotBeforeInvoke then k else s.epoch) := by
  cases hs : cfg.snapshotBeforeInvoke with
  | true => simp only [if_true]; exact ⟨hk, fun _ he => connDead_spec hd he, Nat.le_refl _⟩
  | false => simp; exact hk

theorem inv_seenStep {snap : Bool} {s s' : State} {r : Nat} (hI : Inv snap s) (h : seenStep s r = some s') :
    Inv snap s' := by
  simp only [seenStep] at h
  split at h
  · rename_i q hq
    obtain ⟨h1, h2, h3, h4, h5, h6, h7, h8, h9⟩ := hI.req r q hq
    split at h
    · rename_i k hp
      split at h
      · cases h
        obtain ⟨a, b, c⟩ := h2 k hp
        apply inv_setReq hI r q _ hq
        refine ⟨by simp, by simp, by simp, ?_, by simp, by simp, by simp, by simp, by simp⟩
        intro a' ha'
        simp at ha'
        subst ha'
        exact ⟨b, c⟩
      · cases h; exact hI
    · cases h
    · cases h; exact hI
  · cases h

theorem inv_step (cfg : Cfg) {s s' : State} (a : Action) (hI : Inv cfg.snapshotBeforeInvoke s)
    (h : step cfg s a = some s') : Inv cfg.snapshotBeforeInvoke s' := by
  cases a with
  | inv r =>
    simp only [step] at h
    split at h
    · rename_i q hq
      split at h
      · rename_i hp
        cases h
        obtain ⟨h1, h2, h3, h4, h5, h6, h7, h8, h9⟩ := hI.req r q hq
        apply inv_setReq hI r q _ hq
        refine ⟨fun _ => h1 (Or.inl hp), by simp, by simp, h4, by simp, by simp, by simp, by simp, fun _ => h6 hp⟩
      · cases h
    · cases h
  | bind r =>
    simp only [step] at h
    split at h
    · rename_i q hq
      obtain ⟨h1, h2, h3, h4, h5, h6, h7, h8, h9⟩ := hI.req r q hq
      split at h
      · rename_i hp
        cases h
        apply inv_setReq hI r q _ hq
        refine ⟨fun _ => h1 (Or.inr (Or.inl hp)), by simp, by simp, h4, by simp, by simp, ?_, by simp, by simp⟩
        intro k hk; simp at hk; subst hk
        exact ⟨Nat.le_refl _, fun k' hm => absurd hm (h9 hp k')⟩
      · rename_i w hp
        split at h
        · cases h
          apply inv_setReq hI r q _ hq
          rename_i hw
          refine ⟨fun _ => h1 (Or.inr (Or.inr (Or.inr ⟨w, hp⟩))), by simp, by simp, h4, by simp, by simp, ?_, by simp, by simp⟩
          intro k hk; simp at hk; subst hk
          refine ⟨Nat.le_refl _, fun k' hm => ?_⟩
          have := (h8 w hp).2.2 k' hm
          omega
        · cases h
      · cases h
    · cases h
  | init =>
    simp only [step] at h
    split at h
    · cases h; exact inv_mono hI rfl (Nat.le_refl _) rfl (fun h => h) (fun _ h => h)
    · cases h
  | arr r k =>
    simp only [step] at h
    split at h
    · rename_i q hq
      have hlt := lt_of_getElem? hq
      obtain ⟨h1, h2, h3, h4, h5, h6, h7, h8, h9⟩ := hI.req r q hq
      split at h
      · rename_i hg
        obtain ⟨hp, hk, _, hnm⟩ := hg
        cases h
        refine ⟨?_, ?_, ?_⟩
        · intro r2 q2 hq2
          simp only [setReq, List.getElem?_set] at hq2
          by_cases hr : r = r2
          · subst hr
            simp [hlt] at hq2
            subst hq2
            have hnone := h1 (Or.inr (Or.inr (Or.inl ⟨k, hp⟩)))
            refine ⟨by simp, ?_, by simp, ?_, by simp, by simp, by simp, by simp, by simp⟩
            · intro k2 hk2
              simp at hk2
              subst hk2
              refine ⟨hnone, by rw [hk]; exact Nat.le_refl _, ?_⟩
              intro k' hm
              simp at hm
              rcases hm with rfl | hm
              · exact Nat.le_refl _
              · rw [hk]; exact hI.le r k' hm
            · intro a ha
              simp [hnone] at ha
          · simp [hr] at hq2
            obtain ⟨g1, g2, g3, g4, g5, g6, g7, g8, g9⟩ := hI.req r2 q2 hq2
            have hmem : ∀ k', (r2, k') ∈ (r, k) :: s.arrivals → (r2, k') ∈ s.arrivals := by
              intro k' hm
              simp at hm
              rcases hm with ⟨rfl, _⟩ | hm
              · exact absurd rfl hr
              · exact hm
            refine ⟨g1, ?_, g3, ?_, g5, ?_, ?_, ?_, ?_⟩
            · intro k2 hk2
              obtain ⟨a, b, c⟩ := g2 k2 hk2
              exact ⟨a, b, fun k' hm => c k' (hmem k' hm)⟩
            · intro a ha
              obtain ⟨b, c⟩ := g4 a ha
              exact ⟨b, fun k' hm => c k' (hmem k' hm)⟩
            · intro hid k' hm
              exact g6 hid k' (hmem k' hm)
            · intro k2 hk2
              obtain ⟨a, b⟩ := g7 k2 hk2
              exact ⟨a, fun k' hm => b k' (hmem k' hm)⟩
            · intro w hw
              obtain ⟨a, b, c⟩ := g8 w hw
              exact ⟨a, b, fun k' hm => c k' (hmem k' hm)⟩
            · intro hrd k' hm
              exact g9 hrd k' (hmem k' hm)
        · intro r2 k2 hm
          simp at hm
          rcases hm with ⟨rfl, rfl⟩ | hm
          · rw [hk]; exact Nat.le_refl _
          · exact hI.le r2 k2 hm
        · exact List.nodup_cons.2 ⟨hnm, hI.nodup⟩
      · split at h
        · rename_i hg
          obtain ⟨hk, hnm, hl⟩ := hg
          cases h
          simp only [lateOk, Bool.and_eq_true] at hl
          obtain ⟨hl1, hl2⟩ := hl
          refine ⟨?_, ?_, ?_⟩
          · intro r2 q2 hq2
            have hq2' : s.reqs[r2]? = some q2 := hq2
            by_cases hr : r = r2
            · subst hr
              rw [hq] at hq2'; cases hq2'
              refine ⟨h1, ?_, h3, ?_, h5, ?_, ?_, ?_, ?_⟩
              · intro k2 hk2
                obtain ⟨a, b, c⟩ := h2 k2 hk2
                refine ⟨a, b, ?_⟩
                intro k' hm
                simp at hm
                rcases hm with rfl | hm
                · rw [hk2] at hl2; simp at hl2; omega
                · exact c k' hm
              · intro a ha
                obtain ⟨b, c⟩ := h4 a ha
                refine ⟨b, ?_⟩
                intro k' hm
                simp at hm
                rcases hm with rfl | hm
                · rw [ha] at hl1; simpa [notAfterAck] using hl1
                · exact c k' hm
              · intro hid
                rw [hid] at hl2; simp at hl2
              · intro k2 hk2
                obtain ⟨a, b⟩ := h7 k2 hk2
                refine ⟨a, ?_⟩
                intro k' hm
                simp at hm
                rcases hm with rfl | hm
                · rw [hk2] at hl2; simpa using hl2
                · exact b k' hm
              · intro w hw
                obtain ⟨a, b, c⟩ := h8 w hw
                refine ⟨a, b, ?_⟩
                intro k' hm
                simp at hm
                rcases hm with rfl | hm
                · rw [hw] at hl2; simpa using hl2
                · exact c k' hm
              · intro hrd
                rw [hrd] at hl2; simp at hl2
            · obtain ⟨g1, g2, g3, g4, g5, g6, g7, g8, g9⟩ := hI.req r2 q2 hq2'
              have hmem : ∀ k', (r2, k') ∈ (r, k) :: s.arrivals → (r2, k') ∈ s.arrivals := by
                intro k' hm
                simp at hm
                rcases hm with ⟨rfl, _⟩ | hm
                · exact absurd rfl hr
                · exact hm
              refine ⟨g1, ?_, g3, ?_, g5, ?_, ?_, ?_, ?_⟩
              · intro k2 hk2
                obtain ⟨a, b, c⟩ := g2 k2 hk2
                exact ⟨a, b, fun k' hm => c k' (hmem k' hm)⟩
              · intro a ha
                obtain ⟨b, c⟩ := g4 a ha
                exact ⟨b, fun k' hm => c k' (hmem k' hm)⟩
              · intro hid k' hm
                exact g6 hid k' (hmem k' hm)
              · intro k2 hk2
                obtain ⟨a, b⟩ := g7 k2 hk2
                exact ⟨a, fun k' hm => b k' (hmem k' hm)⟩
              · intro w hw
                obtain ⟨a, b, c⟩ := g8 w hw
                exact ⟨a, b, fun k' hm => c k' (hmem k' hm)⟩
              · intro hrd k' hm
                exact g9 hrd k' (hmem k' hm)
          · intro r2 k2 hm
            simp at hm
            rcases hm with ⟨rfl, rfl⟩ | hm
            · exact Nat.le_of_lt hk
            · exact hI.le r2 k2 hm
          · exact List.nodup_cons.2 ⟨hnm, hI.nodup⟩
        · cases h
    · cases h
  | ack r k =>
    simp only [step] at h
    split at h
    · cases h; exact inv_mono hI rfl (Nat.le_refl _) rfl (fun h => h) (fun _ h => h)
    · cases h
  | res r k =>
    simp only [step] at h
    split at h
    · cases h; exact inv_mono hI rfl (Nat.le_refl _) rfl (fun h => h) (fun _ h => h)
    · cases h
  | seen r =>
    simp only [step] at h
    exact inv_seenStep hI h
  | rd r k =>
    simp only [step] at h
    split at h
    · rename_i q hq
      split at h
      · cases h
        exact inv_setReq hI r q _ hq (hI.req r q hq)
      · cases h; exact hI
    · cases h
  | killw =>
    simp only [step] at h
    split at h
    · cases h; exact inv_mono hI rfl (Nat.le_refl _) rfl (fun h => h) (fun _ _ => rfl)
    · cases h
  | kill =>
    simp only [step] at h
    split at h
    · cases h; exact inv_mono hI rfl (Nat.le_refl _) rfl (fun h => h) (fun _ _ => rfl)
    · cases h
  | fail r =>
    simp only [step] at h
    split at h
    · rename_i q hq
      obtain ⟨h1, h2, h3, h4, h5, h6, h7, h8, h9⟩ := hI.req r q hq
      split at h
      · rename_i k hp
        split at h
        · rename_i hg
          cases h
          obtain ⟨a, b, c⟩ := h2 k hp
          obtain ⟨p1, p2, p3⟩ := parked_ok (cfg := cfg) b hg.1
          apply inv_setReq hI r q _ hq
          refine ⟨fun _ => a, by simp, by simp, h4, by simp, by simp, by simp, ?_, by simp⟩
          intro w hw; simp at hw; subst hw
          exact ⟨p1, p2, fun k' hm => Nat.le_trans (c k' hm) p3⟩
        · cases h
      · rename_i k hp
        split at h
        · rename_i hg
          cases h
          have a := h1 (Or.inr (Or.inr (Or.inl ⟨k, hp⟩)))
          obtain ⟨p1, p2, p3⟩ := parked_ok (cfg := cfg) (h7 k hp).1 hg.1
          apply inv_setReq hI r q _ hq
          refine ⟨fun _ => a, by simp, by simp, h4, by simp, by simp, by simp, ?_, by simp⟩
          intro w hw; simp at hw; subst hw
          exact ⟨p1, p2, fun k' hm => Nat.le_trans (Nat.le_of_lt ((h7 k hp).2 k' hm)) p3⟩
        · cases h
      · cases h
    · cases h
  | reconnect =>
    simp only [step] at h
    split at h
    · cases h
      exact inv_mono hI rfl (Nat.le_succ _) rfl (fun h => h) (fun he _ => absurd he (Nat.succ_ne_self _))
    · cases h
  | retOk r =>
    simp only [step] at h
    split at h
    · rename_i q hq
      obtain ⟨h1, h2, h3, h4, h5, h6, h7, h8, h9⟩ := hI.req r q hq
      split at h
      · split at h
        · cases h
          apply inv_setReq hI r q _ hq
          exact ⟨by simp, by simp, by simp, h4, by simp, by simp, by simp, by simp, by simp⟩
        · cases h
      · split at h
        · cases h
          apply inv_setReq hI r q _ hq
          exact ⟨by simp, by simp, by simp, h4, by simp, by simp, by simp, by simp, by simp⟩
        · cases h
      · cases h
    · cases h
  | retErr r =>
    simp only [step] at h
    split at h
    · rename_i q hq
      obtain ⟨h1, h2, h3, h4, h5, h6, h7, h8, h9⟩ := hI.req r q hq
      split at h
      · cases h
      · cases h
      · cases h
      · rename_i k hp
        split at h
        · rename_i hc
          cases h
          apply inv_setReq hI r q _ hq
          exact ⟨by simp, by simp, by simp, h4, fun _ => Or.inr (Or.inl ⟨rfl, hc.1⟩), by simp, by simp, by simp, by simp⟩
        · split at h
          · cases h
            apply inv_setReq hI r q _ hq
            refine ⟨by simp, by simp, by simp, h4, fun _ => Or.inl ⟨rfl, ?_⟩, by simp, by simp, by simp, by simp⟩
            simp [h3 k hp]
          · cases h
      · split at h
        · rename_i hc
          cases h
          apply inv_setReq hI r q _ hq
          exact ⟨by simp, by simp, by simp, h4, fun _ => Or.inr (Or.inl ⟨rfl, hc.1⟩), by simp, by simp, by simp, by simp⟩
        · cases h
    · cases h
  | sendFail r =>
    simp only [step] at h
    split at h
    · rename_i q hq
      obtain ⟨h1, h2, h3, h4, h5, h6, h7, h8, h9⟩ := hI.req r q hq
      split at h
      · split at h
        · cases h
          apply inv_setReq hI r q _ hq
          exact ⟨by simp, by simp, by simp, h4, fun _ => Or.inr (Or.inr rfl), by simp, by simp, by simp, by simp⟩
        · cases h
      · cases h
    · cases h
  | close =>
    simp only [step] at h
    split at h
    · cases h
    · cases h; exact inv_mono hI rfl (Nat.le_refl _) rfl (fun _ => rfl) (fun _ _ => rfl)

theorem inv_run (cfg : Cfg) (as : List Action) {s s' : State} (hI : Inv cfg.snapshotBeforeInvoke s)
    (h : run cfg s as = some s') : Inv cfg.snapshotBeforeInvoke s' := by
  induction as generalizing s with
  | nil => simp [run] at h; subst h; exact hI
  | cons a as ih =>
    simp only [run] at h
    split at h
    · rename_i s1 h1; exact ih (inv_step cfg a hI h1) h
    · cases h

theorem inv_reachable {cfg : Cfg} {n : Nat} {s : State} (h : Reachable cfg n s) : Inv cfg.snapshotBeforeInvoke s := by
  obtain ⟨as, h⟩ := h
  exact inv_run cfg as (inv_init _ n) h

end TdModel.C29
