/-
C23 — routing lemmas for the model of `handleMessage`.
-/
import TdModel.Model.C23
import TdModel.Lemmas.Bin

namespace TdModel.C23
open TdModel TdModel.Bin
open TdModel.Facts.C23

/-- `Named gz b id`: the payload `b` *names* request `id` — it is an rpc_result, bad_msg_notification
or bad_server_salt whose request-id field is `id`, or a container one of whose messages names
`id`, or a gzip packet whose content names `id`.  (Specification, independent of `handle`.) -/
inductive Named (gz : List (Bytes × Option Bytes)) : Bytes → Nat → Prop where
  | result {b r body : Bytes} {id : Nat} :
      consumeID resultTypeID b = .ok ((), r) → getU64 r = .ok (id, body) → Named gz b id
  | bad {b r0 r1 : Bytes} {tid id : Nat} :
      getU32 b = .ok (tid, r0) → (tid = badMsgNotificationTypeID ∨ tid = badServerSaltTypeID) →
      getU64 r0 = .ok (id, r1) → Named gz b id
  | container {b m : Bytes} {msgs : List Bytes} {id : Nat} :
      decodeContainer b = some msgs → m ∈ msgs → Named gz m id → Named gz b id
  | gzip {b d : Bytes} {id : Nat} :
      gunzip gz b = some d → Named gz d id → Named gz b id

/-- What every handler guarantees: the set of pending requests and the gzip table are left
alone, and a notification is routed only to a pending request that the payload names. -/
def Good (st : St) (b : Bytes) (o : Out) : Prop :=
  o.st.pending = st.pending ∧ o.st.gz = st.gz ∧
  ∀ ev ∈ o.evs, ∀ id, ev.routedTo = some id → id ∈ st.pending ∧ Named st.gz b id

theorem good_fail (st : St) (b : Bytes) (ok : Bool) : Good st b ⟨st, [], ok⟩ :=
  ⟨rfl, rfl, by intro ev h; cases h⟩

theorem good_noroute (st : St) (b : Bytes) (o : Out) (h1 : o.st.pending = st.pending)
    (h2 : o.st.gz = st.gz) (h3 : ∀ ev ∈ o.evs, ev.routedTo = none) : Good st b o :=
  ⟨h1, h2, by intro ev hev id hid; rw [h3 ev hev] at hid; cases hid⟩

theorem good_pong (st : St) (b b' : Bytes) : Good st b (handlePong st b') := by
  unfold handlePong
  repeat' split
  all_goals first
    | exact good_fail st b _
    | (apply good_noroute <;> simp [Ev.routedTo])

theorem good_session (st : St) (b b' : Bytes) : Good st b (handleSessionCreated st b') := by
  unfold handleSessionCreated
  repeat' split
  all_goals first
    | exact good_fail st b _
    | (apply good_noroute <;> simp [Ev.routedTo])

theorem good_salts (st : St) (b b' : Bytes) : Good st b (handleFutureSalts st b') := by
  unfold handleFutureSalts
  repeat' split
  all_goals first
    | exact good_fail st b _
    | (apply good_noroute <;> simp [Ev.routedTo])

theorem notifyAcks_noroute : ∀ (ids acks : List Nat), ∀ ev ∈ (notifyAcks acks ids).2, ev.routedTo = none := by
  intro ids
  induction ids with
  | nil => intro acks ev h; simp [notifyAcks] at h
  | cons i is ih =>
    intro acks ev h
    simp only [notifyAcks] at h
    split at h
    · simp only [List.mem_cons] at h
      rcases h with rfl | h
      · rfl
      · exact ih _ ev h
    · exact ih _ ev h

theorem good_ack (st : St) (b b' : Bytes) : Good st b (handleAck st b') := by
  unfold handleAck
  repeat' split
  all_goals first
    | exact good_fail st b _
    | (apply good_noroute
       · rfl
       · rfl
       · intro ev hev
         exact notifyAcks_noroute _ _ ev (by simpa using hev))

theorem mem_of_contains {l : List Nat} {x : Nat} (h : l.contains x = true) : x ∈ l := by
  simpa using h

theorem good_notifyError (st : St) (b : Bytes) (id : Nat) (e : Ev) (he : e.routedTo = some id)
    (hn : Named st.gz b id) (ok : Bool) : Good st b ⟨st, notifyError st id e, ok⟩ := by
  refine ⟨rfl, rfl, ?_⟩
  intro ev hev id' hid'
  unfold notifyError at hev
  split at hev
  · rename_i hc
    simp only [List.mem_singleton] at hev
    subst hev
    rw [he] at hid'
    cases hid'
    exact ⟨mem_of_contains hc, hn⟩
  · cases hev

theorem good_badMsg (st : St) (b : Bytes) (withSalt : Bool) (tid : Nat) (r0 : Bytes)
    (hid : getU32 b = .ok (tid, r0))
    (ht : tid = badMsgNotificationTypeID ∨ tid = badServerSaltTypeID) :
    Good st b (handleBadMsg st withSalt b) := by
  unfold handleBadMsg
  rw [hid]
  simp only
  cases h1 : getU64 r0 with
  | error e => exact good_fail st b _
  | ok p1 =>
    obtain ⟨id, r1⟩ := p1
    have hn : Named st.gz b id := Named.bad hid ht h1
    simp only
    repeat' split
    all_goals first
      | exact good_fail st b _
      | exact good_notifyError st b id _ rfl hn _

theorem good_result (st : St) (b : Bytes) : Good st b (handleResult st b) := by
  unfold handleResult
  cases h0 : consumeID resultTypeID b with
  | error e => exact good_fail st b _
  | ok p0 =>
    obtain ⟨u, r0⟩ := p0
    cases u
    simp only
    cases h1 : getU64 r0 with
    | error e => exact good_fail st b _
    | ok p1 =>
      obtain ⟨req, body⟩ := p1
      have hn : Named st.gz b req := Named.result h0 h1
      simp only
      repeat' split
      all_goals first
        | exact good_fail st b _
        | exact good_notifyError st b req _ rfl hn _
        | exact good_pong st b _
        | (refine ⟨rfl, rfl, ?_⟩
           intro ev hev id' hid'
           simp only [List.mem_singleton] at hev
           subst hev
           simp only [Ev.routedTo, Option.some.injEq] at hid'
           subst hid'
           exact ⟨mem_of_contains (by assumption), hn⟩)

/-- The container loop: notifications name a request through one of the messages. -/
def GoodAll (st : St) (ms : List Bytes) (o : Out) : Prop :=
  o.st.pending = st.pending ∧ o.st.gz = st.gz ∧
  ∀ ev ∈ o.evs, ∀ id, ev.routedTo = some id → id ∈ st.pending ∧ ∃ m ∈ ms, Named st.gz m id

theorem good_handle : ∀ (fuel : Nat),
    (∀ st b, Good st b (handle fuel st b)) ∧ (∀ st ms, GoodAll st ms (handleAll fuel st ms)) := by
  intro fuel
  induction fuel with
  | zero =>
    constructor
    · intro st b; simp only [handle]; exact good_fail st b _
    · intro st ms; simp only [handleAll]; exact ⟨rfl, rfl, by intro ev h; cases h⟩
  | succ f ih =>
    obtain ⟨ihH, ihA⟩ := ih
    constructor
    · intro st b
      simp only [handle]
      cases hid : getU32 b with
      | error e => exact good_fail st b _
      | ok p =>
        obtain ⟨id, r0⟩ := p
        simp only
        split
        · exact good_session st b b
        · split
          · rename_i h; exact good_badMsg st b false id r0 hid (Or.inl h)
          · split
            · rename_i h; exact good_badMsg st b true id r0 hid (Or.inr h)
            · exact good_fail st b _
        · exact good_salts st b b
        · -- container
          cases hc : decodeContainer b with
          | none => exact good_fail st b _
          | some msgs =>
            simp only
            obtain ⟨h1, h2, h3⟩ := ihA st msgs
            refine ⟨h1, h2, ?_⟩
            intro ev hev id' hid'
            obtain ⟨hp, m, hm, hn⟩ := h3 ev hev id' hid'
            exact ⟨hp, Named.container hc hm hn⟩
        · exact good_result st b
        · exact good_pong st b b
        · exact good_ack st b b
        · -- gzip
          cases hg : gunzip st.gz b with
          | none => exact good_fail st b _
          | some d =>
            simp only
            obtain ⟨h1, h2, h3⟩ := ihH st d
            refine ⟨h1, h2, ?_⟩
            intro ev hev id' hid'
            obtain ⟨hp, hn⟩ := h3 ev hev id' hid'
            exact ⟨hp, Named.gzip hg hn⟩
        · exact good_fail st b _
        · exact good_fail st b _
        · apply good_noroute <;> simp [Ev.routedTo]
    · intro st ms
      cases ms with
      | nil => simp only [handleAll]; exact ⟨rfl, rfl, by intro ev h; cases h⟩
      | cons m rest =>
        simp only [handleAll]
        obtain ⟨h1, h2, h3⟩ := ihH st m
        split
        · obtain ⟨g1, g2, g3⟩ := ihA (handle f st m).st rest
          refine ⟨g1.trans h1, g2.trans h2, ?_⟩
          intro ev hev id' hid'
          simp only [List.mem_append] at hev
          rcases hev with hev | hev
          · obtain ⟨hp, hn⟩ := h3 ev hev id' hid'
            exact ⟨hp, m, List.mem_cons_self, hn⟩
          · obtain ⟨hp, m', hm', hn⟩ := g3 ev hev id' hid'
            rw [h1] at hp
            rw [h2] at hn
            exact ⟨hp, m', List.mem_cons_of_mem _ hm', hn⟩
        · refine ⟨h1, h2, ?_⟩
          intro ev hev id' hid'
          obtain ⟨hp, hn⟩ := h3 ev hev id' hid'
          exact ⟨hp, m, List.mem_cons_self, hn⟩

/-! ### a waiter is closed at most once (closing a closed channel panics) -/

theorem notifyAcks_count (id : Nat) : ∀ (ids acks : List Nat),
    ((notifyAcks acks ids).2.count (Ev.ack id)) ≤ acks.count id := by
  intro ids
  induction ids with
  | nil => intro acks; simp [notifyAcks]
  | cons i is ih =>
    intro acks
    simp only [notifyAcks]
    split
    · rename_i hc
      have hmem : i ∈ acks := by simpa using hc
      simp only [List.count_cons]
      have h1 := ih (acks.erase i)
      by_cases hid : i = id
      · subst hid
        have : (acks.erase i).count i = acks.count i - 1 := by
          rw [List.count_erase_self]
        have hpos : 0 < acks.count i := List.count_pos_iff.mpr hmem
        simp only [beq_self_eq_true, if_true]
        omega
      · have hne : (Ev.ack i == Ev.ack id) = false := by
          simp only [beq_eq_false_iff_ne, ne_eq, Ev.ack.injEq]; exact hid
        have : (acks.erase i).count id = acks.count id := by
          rw [List.count_erase_of_ne (Ne.symm hid)]
        simp only [hne, Bool.false_eq_true, if_false]
        omega
    · exact ih acks

/-! ### an rpc_error is never handed to a caller as a result body -/

/-- No `result` notification carries a payload that starts with the rpc_error type id. -/
def NoErrAsResult (o : Out) : Prop :=
  ∀ id d, Ev.result id d ∈ o.evs → ∀ r, getU32 d ≠ .ok (rpcErrorTypeID, r)

theorem near_nil (st : St) (ok : Bool) : NoErrAsResult ⟨st, [], ok⟩ := by
  intro id d h; cases h

theorem near_of_noresult (o : Out) (h : ∀ ev ∈ o.evs, ∀ id d, ev ≠ .result id d) : NoErrAsResult o := by
  intro id d hm r _
  exact h _ hm id d rfl

theorem near_pong (st : St) (b : Bytes) : NoErrAsResult (handlePong st b) := by
  unfold handlePong
  repeat' split
  all_goals first
    | exact near_nil st _
    | (apply near_of_noresult; simp)

theorem near_session (st : St) (b : Bytes) : NoErrAsResult (handleSessionCreated st b) := by
  unfold handleSessionCreated
  repeat' split
  all_goals first
    | exact near_nil st _
    | (apply near_of_noresult; simp)

theorem near_salts (st : St) (b : Bytes) : NoErrAsResult (handleFutureSalts st b) := by
  unfold handleFutureSalts
  repeat' split
  all_goals first
    | exact near_nil st _
    | (apply near_of_noresult; simp)

theorem notifyAcks_noresult : ∀ (ids acks : List Nat), ∀ ev ∈ (notifyAcks acks ids).2, ∀ id d, ev ≠ .result id d := by
  intro ids
  induction ids with
  | nil => intro acks ev h; simp [notifyAcks] at h
  | cons i is ih =>
    intro acks ev h
    simp only [notifyAcks] at h
    split at h
    · simp only [List.mem_cons] at h
      rcases h with rfl | h
      · intro id d hh; cases hh
      · exact ih _ ev h
    · exact ih _ ev h

theorem near_ack (st : St) (b : Bytes) : NoErrAsResult (handleAck st b) := by
  unfold handleAck
  repeat' split
  all_goals first
    | exact near_nil st _
    | (apply near_of_noresult
       intro ev hev
       exact notifyAcks_noresult _ _ ev (by simpa using hev))

theorem near_notifyError (st : St) (id : Nat) (e : Ev) (he : ∀ i d, e ≠ .result i d) (ok : Bool) :
    NoErrAsResult ⟨st, notifyError st id e, ok⟩ := by
  apply near_of_noresult
  intro ev hev
  unfold notifyError at hev
  split at hev
  · simp only [List.mem_singleton] at hev
    subst hev; exact he
  · cases hev

theorem near_badMsg (st : St) (withSalt : Bool) (b : Bytes) : NoErrAsResult (handleBadMsg st withSalt b) := by
  unfold handleBadMsg
  repeat' split
  all_goals first
    | exact near_nil st _
    | (apply near_notifyError; intro i d hh; cases hh)

theorem resultContent_peek {gz : List (Bytes × Option Bytes)} {id0 id : Nat} {body d r0 : Bytes}
    (h0 : getU32 body = .ok (id0, r0)) (h : resultContent gz id0 body = some (id, d)) :
    ∃ r, getU32 d = .ok (id, r) := by
  unfold resultContent at h
  split at h
  · cases hg : gunzip gz body with
    | none => simp [hg] at h
    | some d' =>
      simp only [hg] at h
      cases hd : getU32 d' with
      | error e => simp [hd] at h
      | ok p =>
        obtain ⟨id1, r1⟩ := p
        simp only [hd, Option.some.injEq, Prod.mk.injEq] at h
        obtain ⟨h1, h2⟩ := h
        subst h1 h2
        exact ⟨r1, hd⟩
  · simp only [Option.some.injEq, Prod.mk.injEq] at h
    obtain ⟨h1, h2⟩ := h
    subst h1 h2
    exact ⟨r0, h0⟩

theorem near_result (st : St) (b : Bytes) : NoErrAsResult (handleResult st b) := by
  unfold handleResult
  cases h0 : consumeID resultTypeID b with
  | error e => exact near_nil st _
  | ok p0 =>
    obtain ⟨u, r0⟩ := p0
    simp only
    cases h1 : getU64 r0 with
    | error e => exact near_nil st _
    | ok p1 =>
      obtain ⟨req, body⟩ := p1
      simp only
      cases h2 : getU32 body with
      | error e => exact near_nil st _
      | ok p2 =>
        obtain ⟨id0, rb⟩ := p2
        simp only
        cases hc : resultContent st.gz id0 body with
        | none => exact near_nil st _
        | some q =>
          obtain ⟨id, d⟩ := q
          obtain ⟨rd, hrd⟩ := resultContent_peek h2 hc
          simp only
          by_cases he : id = rpcErrorTypeID
          · simp only [he, if_true]
            repeat' split
            all_goals first
              | exact near_nil st _
              | (apply near_notifyError; intro i d hh; cases hh)
          · simp only [he, if_false]
            by_cases hp : id = pongTypeID
            · simp only [hp, if_true]; exact near_pong st _
            · simp only [hp, if_false]
              split
              · intro i d' hm r hr
                simp only [List.mem_singleton, Ev.result.injEq] at hm
                obtain ⟨_, rfl⟩ := hm
                rw [hrd] at hr
                simp only [Except.ok.injEq, Prod.mk.injEq] at hr
                exact he hr.1
              · exact near_nil st _

theorem near_handle : ∀ (fuel : Nat),
    (∀ st b, NoErrAsResult (handle fuel st b)) ∧ (∀ st ms, NoErrAsResult (handleAll fuel st ms)) := by
  intro fuel
  induction fuel with
  | zero =>
    constructor
    · intro st b; simp only [handle]; exact near_nil st _
    · intro st ms; simp only [handleAll]; exact near_nil st _
  | succ f ih =>
    obtain ⟨ihH, ihA⟩ := ih
    constructor
    · intro st b
      simp only [handle]
      cases hid : getU32 b with
      | error e => exact near_nil st _
      | ok p =>
        obtain ⟨id, r0⟩ := p
        simp only
        split
        · exact near_session st b
        · split
          · exact near_badMsg st false b
          · split
            · exact near_badMsg st true b
            · exact near_nil st _
        · exact near_salts st b
        · cases hc : decodeContainer b with
          | none => exact near_nil st _
          | some msgs => exact ihA st msgs
        · exact near_result st b
        · exact near_pong st b
        · exact near_ack st b
        · cases hg : gunzip st.gz b with
          | none => exact near_nil st _
          | some d => exact ihH st d
        · exact near_nil st _
        · exact near_nil st _
        · apply near_of_noresult; simp
    · intro st ms
      cases ms with
      | nil => simp only [handleAll]; exact near_nil st _
      | cons m rest =>
        simp only [handleAll]
        split
        · intro id d hm
          simp only [List.mem_append] at hm
          rcases hm with hm | hm
          · exact ihH st m id d hm
          · exact ihA _ rest id d hm
        · exact ihH st m

/-! ### conservation: every registered waiter is either still registered or was closed exactly once -/

theorem notifyAcks_conserve (id : Nat) : ∀ (ids acks : List Nat),
    (notifyAcks acks ids).1.count id + (notifyAcks acks ids).2.count (Ev.ack id) = acks.count id := by
  intro ids
  induction ids with
  | nil => intro acks; simp [notifyAcks]
  | cons i is ih =>
    intro acks
    simp only [notifyAcks]
    split
    · rename_i hc
      have hmem : i ∈ acks := by simpa using hc
      simp only [List.count_cons]
      have h1 := ih (acks.erase i)
      by_cases hid : i = id
      · subst hid
        have : (acks.erase i).count i = acks.count i - 1 := by rw [List.count_erase_self]
        have hpos : 0 < acks.count i := List.count_pos_iff.mpr hmem
        simp only [beq_self_eq_true, if_true]
        omega
      · have hne : (Ev.ack i == Ev.ack id) = false := by
          simp only [beq_eq_false_iff_ne, ne_eq, Ev.ack.injEq]; exact hid
        have : (acks.erase i).count id = acks.count id := by
          rw [List.count_erase_of_ne (Ne.symm hid)]
        simp only [hne, Bool.false_eq_true, if_false]
        omega
    · exact ih acks

theorem ackSeq_count (id : Nat) : ∀ (batches : List (List Nat)) (acks : List Nat),
    (ackSeq acks batches).count (Ev.ack id) ≤ acks.count id := by
  intro batches
  induction batches with
  | nil => intro acks; simp [ackSeq]
  | cons b bs ih =>
    intro acks
    simp only [ackSeq, List.count_append]
    have h1 := notifyAcks_conserve id b acks
    have h2 := ih (notifyAcks acks b).1
    omega
theorem handleAck_conserve (id : Nat) (st : St) (b : Bytes) :
    (handleAck st b).st.acks.count id + (handleAck st b).evs.count (Ev.ack id) = st.acks.count id := by
  unfold handleAck
  split
  · simp
  · split
    · simp
    · split
      · simp
      · exact notifyAcks_conserve id _ _

theorem ackRun_count (id : Nat) : ∀ (bs : List Bytes) (st : St),
    (ackRun st bs).count (Ev.ack id) ≤ st.acks.count id := by
  intro bs
  induction bs with
  | nil => intro st; simp [ackRun]
  | cons b bs ih =>
    intro st
    simp only [ackRun, List.count_append]
    have h1 := handleAck_conserve id st b
    have h2 := ih (handleAck st b).st
    omega
end TdModel.C23
