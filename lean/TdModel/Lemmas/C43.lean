import TdModel.Model.C43

namespace TdModel.C43
open TdModel

theorem pongCaseReturnsNil_eq : pongCaseReturnsNil = true := by decide
theorem ctxCaseReturnsNil_eq : ctxCaseReturnsNil = false := by decide

/-! ### list helpers -/

theorem pongPings_getElem? (id : Int) (t : Option Nat) : ∀ (ps : List Ping) (i k : Nat),
    (pongPings id t i ps)[k]? = (ps[k]?).map (fun pg =>
      if pg.id = id then { pg with pongs := pg.pongs + 1, closed := pg.closed || (t = some (i + k)) } else pg) := by
  intro ps
  induction ps with
  | nil => intro i k; simp [pongPings]
  | cons pg rest ih =>
    intro i k
    cases k with
    | zero => simp [pongPings]
    | succ j =>
      simp only [pongPings, List.getElem?_cons_succ]
      rw [ih (i + 1) j]
      have : i + 1 + j = i + (j + 1) := by omega
      rw [this]

theorem setRet_getElem? (ps : List Ping) (p : Nat) (r : Bool) (k : Nat) :
    (setRet ps p r)[k]? = if k = p then (ps[p]?).map (fun pg => { pg with ret := some r }) else ps[k]? := by
  unfold setRet
  cases h : ps[p]? with
  | none =>
    by_cases hk : k = p
    · subst hk; simp [h]
    · simp [hk]
  | some pg =>
    by_cases hk : k = p
    · subst hk
      have hl : k < ps.length := by
        obtain ⟨hl, _⟩ := List.getElem?_eq_some_iff.mp h; exact hl
      simp [List.getElem?_set_self hl]
    · have : p ≠ k := fun e => hk e.symm
      simp [hk, List.getElem?_set_ne this]

theorem mem_regDel (reg : List (Int × Nat)) (id : Int) (e : Int × Nat) :
    e ∈ regDel reg id ↔ e ∈ reg ∧ e.1 ≠ id := by
  unfold regDel; simp [List.mem_filter]

theorem regGet_none_iff (reg : List (Int × Nat)) (id : Int) :
    regGet reg id = none ↔ ∀ e ∈ reg, e.1 ≠ id := by
  unfold regGet
  simp [List.find?_eq_none]

theorem regGet_some_mem (reg : List (Int × Nat)) (id : Int) (p : Nat) (h : regGet reg id = some p) :
    (id, p) ∈ reg := by
  unfold regGet at h
  cases hf : reg.find? (fun e => e.1 = id) with
  | none => simp [hf] at h
  | some e =>
    simp [hf] at h
    have hm := List.mem_of_find?_eq_some hf
    have hp := List.find?_some hf
    have : e.1 = id := by simpa using hp
    have : e = (id, p) := by cases e; simp_all
    rw [← this]; exact hm

theorem regDel_of_regGet_none (reg : List (Int × Nat)) (id : Int) (h : regGet reg id = none) :
    regDel reg id = reg := by
  unfold regDel
  rw [List.filter_eq_self]
  intro e he
  have := (regGet_none_iff reg id).mp h e he
  simpa using this

theorem regGet_regDel (reg : List (Int × Nat)) (id : Int) : regGet (regDel reg id) id = none := by
  rw [regGet_none_iff]
  intro e he
  exact ((mem_regDel reg id e).mp he).2

/-! ### invariants of the transition system -/

/-- Every registration points to an existing ping carrying that id. -/
def RegOk (s : State) : Prop := ∀ e ∈ s.reg, ∃ pg, s.pings[e.2]? = some pg ∧ pg.id = e.1

/-- A closed channel means a pong with the ping's id arrived after the ping was called; a ping
that returned success had its channel closed. -/
def ClosedOk (s : State) : Prop :=
  ∀ (p : Nat) (pg : Ping), s.pings[p]? = some pg → (pg.closed = true → 1 ≤ pg.pongs) ∧ (pg.ret = some true → pg.closed = true)

structure Inv (s : State) : Prop where
  reg : RegOk s
  closed : ClosedOk s

theorem inv_init : Inv {} := ⟨by intro e he; simp at he, by intro p pg h; simp at h⟩

theorem inv_step (s s' : State) (a : Action) (inv : Inv s) (h : step s a = some s') : Inv s' := by
  cases a with
  | call id =>
    simp only [step, Option.some.injEq] at h
    subst h
    refine ⟨?_, ?_⟩
    · intro e he
      simp only [regSet, List.mem_cons] at he
      rcases he with he | he
      · subst he
        exact ⟨{ id := id }, by simp, rfl⟩
      · obtain ⟨pg, hpg, hid⟩ := inv.reg e ((mem_regDel _ _ _).mp he).1
        have hl : e.2 < s.pings.length := by
          obtain ⟨hl, _⟩ := List.getElem?_eq_some_iff.mp hpg; exact hl
        exact ⟨pg, by simp only [List.getElem?_append_left hl]; exact hpg, hid⟩
    · intro p pg hp
      by_cases hl : p < s.pings.length
      · rw [List.getElem?_append_left hl] at hp
        exact inv.closed p pg hp
      · have hge : s.pings.length ≤ p := by omega
        rw [List.getElem?_append_right hge] at hp
        cases hq : p - s.pings.length with
        | zero =>
          rw [hq] at hp
          simp at hp
          subst hp
          exact ⟨by simp, by simp⟩
        | succ q => rw [hq] at hp; simp at hp
  | pong id =>
    simp only [step, Option.some.injEq] at h
    subst h
    refine ⟨?_, ?_⟩
    · intro e he
      obtain ⟨pg, hpg, hid⟩ := inv.reg e ((mem_regDel _ _ _).mp he).1
      simp only [pongPings_getElem?, hpg, Option.map_some]
      refine ⟨_, rfl, ?_⟩
      by_cases hm : pg.id = id
      · simp only [hm, if_true]; rw [← hm]; exact hid
      · simp only [hm, if_false]; exact hid
    · intro p pg' hp
      simp only [pongPings_getElem?] at hp
      cases hq : s.pings[p]? with
      | none => rw [hq] at hp; simp at hp
      | some pg =>
        rw [hq] at hp
        simp only [Option.map_some, Option.some.injEq] at hp
        have old := inv.closed p pg hq
        by_cases hm : pg.id = id
        · simp only [hm, if_true] at hp
          subst hp
          refine ⟨fun _ => by simp, fun hr => ?_⟩
          have := old.2 hr
          simp [this]
        · simp only [hm, if_false] at hp
          subst hp
          exact old
  | retOk p =>
    simp only [step] at h
    cases hq : s.pings[p]? with
    | none => simp [hq] at h
    | some pg =>
      simp only [hq] at h
      split at h
      · rename_i hc
        simp only [Option.some.injEq] at h
        subst h
        refine ⟨?_, ?_⟩
        · intro e he
          obtain ⟨pg2, hpg2, hid⟩ := inv.reg e ((mem_regDel _ _ _).mp he).1
          simp only [setRet_getElem?]
          by_cases hk : e.2 = p
          · rw [hk] at hpg2
            simp only [hk, if_true, hq, Option.map_some]
            rw [hq] at hpg2
            have : pg2 = pg := (Option.some.inj hpg2).symm
            subst this
            exact ⟨_, rfl, hid⟩
          · simp only [hk, if_false]
            exact ⟨pg2, hpg2, hid⟩
        · intro k pg' hk
          simp only [setRet_getElem?] at hk
          by_cases hkp : k = p
          · subst hkp
            simp only [if_true, hq, Option.map_some, Option.some.injEq] at hk
            subst hk
            have old := inv.closed k pg hq
            exact ⟨old.1, fun _ => hc.1⟩
          · simp only [hkp, if_false] at hk
            exact inv.closed k pg' hk
      · cases h
  | retErr p =>
    simp only [step] at h
    cases hq : s.pings[p]? with
    | none => simp [hq] at h
    | some pg =>
      simp only [hq] at h
      split at h
      · rename_i hc
        simp only [Option.some.injEq] at h
        subst h
        refine ⟨?_, ?_⟩
        · intro e he
          obtain ⟨pg2, hpg2, hid⟩ := inv.reg e ((mem_regDel _ _ _).mp he).1
          simp only [setRet_getElem?]
          by_cases hk : e.2 = p
          · rw [hk] at hpg2
            simp only [hk, if_true, hq, Option.map_some]
            rw [hq] at hpg2
            have : pg2 = pg := (Option.some.inj hpg2).symm
            subst this
            exact ⟨_, rfl, hid⟩
          · simp only [hk, if_false]
            exact ⟨pg2, hpg2, hid⟩
        · intro k pg' hk
          simp only [setRet_getElem?] at hk
          by_cases hkp : k = p
          · subst hkp
            simp only [if_true, hq, Option.map_some, Option.some.injEq] at hk
            subst hk
            have old := inv.closed k pg hq
            exact ⟨old.1, fun hr => by rw [ctxCaseReturnsNil_eq] at hr; simp at hr⟩
          · simp only [hkp, if_false] at hk
            exact inv.closed k pg' hk
      · cases h

theorem inv_run (tr : List Action) : ∀ (s s' : State), Inv s → run s tr = some s' → Inv s' := by
  induction tr with
  | nil => intro s s' inv h; simp only [run, Option.some.injEq] at h; subst h; exact inv
  | cons a rest ih =>
    intro s s' inv h
    simp only [run] at h
    cases hs : step s a with
    | none => simp [hs] at h
    | some s1 =>
      simp only [hs] at h
      exact ih s1 s' (inv_step s s1 a inv hs) h

/-- What an observer sees of a ping (everything but the ghost counter). -/
def Ping.obs (pg : Ping) : Int × Bool × Option Bool := (pg.id, pg.closed, pg.ret)

theorem pongPings_obs_of_none (id : Int) : ∀ (ps : List Ping) (i : Nat),
    (pongPings id none i ps).map Ping.obs = ps.map Ping.obs := by
  intro ps
  induction ps with
  | nil => intro i; rfl
  | cons pg rest ih =>
    intro i
    simp only [pongPings, List.map_cons, ih]
    by_cases hm : pg.id = id <;> simp [hm, Ping.obs]

/-- The loop stops at the first tick that is not acknowledged. -/
theorem pingLoopFrom_failed (os : List TickOutcome) : ∀ (base k : Nat),
    (∀ j, j < k → os[j]? = some .ok) → (∃ o, os[k]? = some o ∧ o ≠ .ok) →
    pingLoopFrom base os = .failed (base + k) := by
  induction os with
  | nil => intro base k _ ⟨o, h, _⟩; simp at h
  | cons o rest ih =>
    intro base k hprev hk
    cases k with
    | zero =>
      obtain ⟨o', h, hne⟩ := hk
      simp at h
      subst h
      have hf : Facts.C43.pingLoopFailsOnPingError = true := rfl
      cases o <;> simp_all [pingLoopFrom]
    | succ j =>
      have h0 := hprev 0 (by omega)
      simp at h0
      subst h0
      simp only [pingLoopFrom]
      have := ih (base + 1) j (fun i hi => by have := hprev (i + 1) (by omega); simpa using this)
        (by obtain ⟨o', h, hne⟩ := hk; exact ⟨o', by simpa using h, hne⟩)
      rw [this]
      congr 1; omega

theorem pingLoopFrom_running (os : List TickOutcome) : ∀ base, (∀ o ∈ os, o = .ok) →
    pingLoopFrom base os = .running := by
  induction os with
  | nil => intro _ _; rfl
  | cons o rest ih =>
    intro base h
    have : o = .ok := h o (by simp)
    subst this
    simp only [pingLoopFrom]
    exact ih _ (fun o ho => h o (by simp [ho]))

theorem rev_induction {α : Type} {P : List α → Prop} (hnil : P [])
    (hsnoc : ∀ l a, P l → P (l ++ [a])) : ∀ l, P l := by
  have h : ∀ l : List α, P l.reverse := by
    intro l
    induction l with
    | nil => exact hnil
    | cons a l ih => rw [List.reverse_cons]; exact hsnoc _ a ih
  intro l
  have := h l.reverse
  rwa [List.reverse_reverse] at this

theorem run_append (xs ys : List Action) : ∀ s, run s (xs ++ ys) = (run s xs).bind (fun s' => run s' ys) := by
  induction xs with
  | nil => intro s; rfl
  | cons a rest ih =>
    intro s
    simp only [List.cons_append, run]
    cases step s a with
    | none => rfl
    | some s' => exact ih s'

/-- Pings are never removed, and a ping that appears in a step is a fresh one (no pong counted). -/
theorem step_pings (s s' : State) (a : Action) (h : step s a = some s') (p : Nat) :
    (∀ pg, s.pings[p]? = some pg → ∃ pg', s'.pings[p]? = some pg') ∧
    (s.pings[p]? = none → ∀ pg', s'.pings[p]? = some pg' → pg'.pongs = 0) := by
  cases a with
  | call id =>
    simp only [step, Option.some.injEq] at h
    subst h
    refine ⟨fun pg hp => ?_, fun hn pg' hp' => ?_⟩
    · have hl : p < s.pings.length := by
        obtain ⟨hl, _⟩ := List.getElem?_eq_some_iff.mp hp; exact hl
      exact ⟨pg, by simp only [List.getElem?_append_left hl]; exact hp⟩
    · have hge : s.pings.length ≤ p := by
        rcases Nat.lt_or_ge p s.pings.length with hl | hge
        · have := List.getElem?_eq_none_iff.mp hn; omega
        · exact hge
      rw [List.getElem?_append_right hge] at hp'
      cases hq : p - s.pings.length with
      | zero => rw [hq] at hp'; simp at hp'; subst hp'; rfl
      | succ q => rw [hq] at hp'; simp at hp'
  | pong id =>
    simp only [step, Option.some.injEq] at h
    subst h
    refine ⟨fun pg hp => ?_, fun hn pg' hp' => ?_⟩
    · exact ⟨_, by simp only [pongPings_getElem?, hp, Option.map_some]; rfl⟩
    · simp [pongPings_getElem?, hn] at hp'
  | retOk q =>
    simp only [step] at h
    cases hq : s.pings[q]? with
    | none => simp [hq] at h
    | some pq =>
      simp only [hq] at h
      split at h
      · simp only [Option.some.injEq] at h
        subst h
        refine ⟨fun pg hp => ?_, fun hn pg' hp' => ?_⟩
        · by_cases hk : p = q
          · subst hk; exact ⟨_, by simp only [setRet_getElem?, if_true, hp, Option.map_some]; rfl⟩
          · exact ⟨pg, by simp only [setRet_getElem?, hk, if_false]; exact hp⟩
        · by_cases hk : p = q
          · subst hk; rw [hq] at hn; cases hn
          · simp [setRet_getElem?, hk, hn] at hp'
      · cases h
  | retErr q =>
    simp only [step] at h
    cases hq : s.pings[q]? with
    | none => simp [hq] at h
    | some pq =>
      simp only [hq] at h
      split at h
      · simp only [Option.some.injEq] at h
        subst h
        refine ⟨fun pg hp => ?_, fun hn pg' hp' => ?_⟩
        · by_cases hk : p = q
          · subst hk; exact ⟨_, by simp only [setRet_getElem?, if_true, hp, Option.map_some]; rfl⟩
          · exact ⟨pg, by simp only [setRet_getElem?, hk, if_false]; exact hp⟩
        · by_cases hk : p = q
          · subst hk; rw [hq] at hn; cases hn
          · simp [setRet_getElem?, hk, hn] at hp'
      · cases h

end TdModel.C43
