/- C26 — every call of the state is listed in `started` (the set `Close` waits for), and `closed` is final. -/
import TdModel.Lemmas.C26Rank
set_option linter.unusedVariables false
namespace TdModel.Rpc

/-- `started` lists every call; the closed flag never resets; the close-context stays cancelled. -/
def Listed (s : State) : Prop :=
  (∀ i, s.calls i ≠ none → i ∈ s.started) ∧ (∀ k, s.notifs k ≠ none → k ∈ s.nstarted)

theorem listed_init : Listed init := by constructor <;> (intro i h; simp [init] at h)

macro "listed_close" hg:term : tactic =>
  `(tactic| (simp [Listed, setCall, setNotif, finish, Call.finish, removeAck, exitAck, Call.exitLoop, Call.retC, newCall, Cfg.std_all $hg] <;>
      grind [Listed]))

/-- `NotifyAcks` does not change which calls exist, nor `started` / `closed` / `reqC` / `closers`. -/
theorem ack_domain {cfg : Cfg} (ids : List Nat) (s : State) :
    (stepAck cfg s ids).started = s.started ∧ (stepAck cfg s ids).closed = s.closed ∧
    (stepAck cfg s ids).reqC = s.reqC ∧ (stepAck cfg s ids).closers = s.closers ∧
    (stepAck cfg s ids).notifs = s.notifs ∧ (stepAck cfg s ids).nstarted = s.nstarted ∧
    ∀ i, (stepAck cfg s ids).calls i = none ↔ s.calls i = none := by
  refine stepAck_induct cfg
    (P := fun t => t.started = s.started ∧ t.closed = s.closed ∧ t.reqC = s.reqC ∧ t.closers = s.closers ∧
      t.notifs = s.notifs ∧ t.nstarted = s.nstarted ∧
      ∀ i, t.calls i = none ↔ s.calls i = none) ?_ ids s ⟨rfl, rfl, rfl, rfl, rfl, rfl, fun _ => Iff.rfl⟩
  intro t id ⟨h1, h2, h3, h4, h6, h7, h5⟩
  unfold ackOne
  by_cases hk : t.ack id = true
  · simp only [hk, if_true]
    cases hci : t.calls id with
    | none => exact ⟨h1, h2, h3, h4, h6, h7, h5⟩
    | some ci =>
      by_cases ha : ci.acked = true
      · simp [ha, h1, h2, h3, h4, h5, h6, h7]
      · simp only [ha, Bool.false_eq_true, if_false]
        refine ⟨by split <;> simp [setCall, removeAck, h1], by split <;> simp [setCall, removeAck, h2],
          by split <;> simp [setCall, removeAck, h3], by split <;> simp [setCall, removeAck, h4],
          by split <;> simp [setCall, removeAck, h6], by split <;> simp [setCall, removeAck, h7], fun i => ?_⟩
        by_cases hid : i = id
        · subst hid
          have : s.calls i ≠ none := fun hn => by have := (h5 i).mpr hn; rw [hci] at this; cases this
          split <;> simp [setCall, removeAck, this]
        · split <;> simp [setCall, removeAck, hid, h5 i]
  · simp only [hk]; exact ⟨h1, h2, h3, h4, h6, h7, h5⟩

set_option maxHeartbeats 4000000 in
/-- One step: `Listed` is preserved, `closed` / `reqC` stay set. -/
theorem listed_step {cfg : Cfg} {s s' : State} {a : Action} (hg : cfg.std = true) (h : Listed s)
    (hs : step cfg s a = some s') :
    Listed s' ∧ (s.closed = true → s'.closed = true) ∧ (s.reqC = true → s'.reqC = true) := by
  cases a <;> simp only [step] at hs
  case start j q b =>
    unfold stepStart at hs
    split at hs
    · simp at hs
    · try dsimp only at hs
      split at hs <;> simp at hs <;> subst hs <;> listed_close hg
  case sret j o =>
    unfold stepSret at hs
    std_norm hg at hs
    split at hs
    · simp at hs
    · split at hs <;> try (simp at hs)
      all_goals (try split at hs) <;> try (simp at hs)
      all_goals (first | subst hs | (obtain ⟨_, hs⟩ := hs; subst hs))
      all_goals listed_close hg
  case loopSel j b =>
    unfold stepLoop at hs
    std_norm hg at hs
    split at hs
    · simp at hs
    · split at hs
      · simp at hs
      · try dsimp only at hs
        split at hs
        all_goals (split at hs <;> try (simp at hs))
        all_goals (try (split at hs <;> try (simp at hs)))
        all_goals (first | subst hs | (obtain ⟨_, hs⟩ := hs; subst hs))
        all_goals listed_close hg
  case waitSel j b =>
    unfold stepWait at hs
    std_norm hg at hs
    split at hs
    · simp at hs
    · split at hs
      · simp at hs
      · split at hs
        all_goals (split at hs <;> try (simp at hs))
        all_goals (try (split at hs <;> try (simp at hs)))
        all_goals (first | subst hs | (obtain ⟨_, hs⟩ := hs; subst hs))
        all_goals listed_close hg
  case dret j o =>
    unfold stepDret at hs
    std_norm hg at hs
    split at hs
    · simp at hs
    · split at hs <;> simp at hs
      subst hs
      listed_close hg
  case gpass j =>
    unfold stepGpass at hs
    std_norm hg at hs
    split at hs
    · simp at hs
    · split at hs <;> simp at hs
      subst hs
      listed_close hg
  case nstart nid t e v =>
    unfold stepNstart at hs
    split at hs
    · simp at hs
    · try dsimp only at hs
      split at hs <;> simp at hs <;> subst hs <;> listed_close hg
  case nrun nid =>
    unfold stepNrun at hs
    std_norm hg at hs
    simp only [casStep] at hs
    split at hs
    · simp at hs
    · split at hs
      all_goals (try (split at hs))
      all_goals (try (split at hs))
      all_goals (try (simp at hs))
      all_goals (try subst hs)
      all_goals listed_close hg
  case nwrite nid o =>
    unfold stepNwrite at hs
    split at hs
    · simp at hs
    · split at hs
      · split at hs
        · simp at hs
        · simp at hs; subst hs; listed_close hg
      · simp at hs
  case ack ids =>
    cases hs
    obtain ⟨h1, h2, h3, _, h6, h7, h5⟩ := ack_domain (cfg := cfg) ids s
    refine ⟨⟨fun i hi => ?_, fun k hk => ?_⟩, by simp [h2], by simp [h3]⟩
    · rw [h1]; exact h.1 i (fun hn => hi ((h5 i).mpr hn))
    · rw [h7]; rw [h6] at hk; exact h.2 k hk
  case cancel j =>
    unfold stepCancel at hs
    split at hs
    · simp at hs
    · split at hs <;> simp at hs <;> subst hs
      · listed_close hg
      · exact ⟨h, id, id⟩
  case advance d =>
    cases hs
    refine ⟨⟨fun i hi => h.1 i ?_, h.2⟩, id, id⟩
    simp [stepAdvance] at hi
    intro hn; simp [hn] at hi
  case close k => split at hs <;> simp at hs; subst hs; exact ⟨h, fun _ => rfl, id⟩
  case fclose k => split at hs <;> simp at hs; subst hs; exact ⟨h, fun _ => rfl, fun _ => rfl⟩
  case cret k => split at hs <;> simp at hs; subst hs; exact ⟨h, id, id⟩

theorem listed_run {cfg : Cfg} (hg : cfg.std = true) {as : List Action} {s s' : State} (h : Listed s)
    (hs : run cfg s as = some s') :
    Listed s' ∧ (s.closed = true → s'.closed = true) ∧ (s.reqC = true → s'.reqC = true) := by
  induction as generalizing s with
  | nil => simp [run] at hs; subst hs; exact ⟨h, id, id⟩
  | cons a as ih =>
    simp only [run] at hs
    split at hs
    · next s1 h1 =>
      obtain ⟨l1, c1, r1⟩ := listed_step hg h h1
      obtain ⟨l2, c2, r2⟩ := ih l1 hs
      exact ⟨l2, fun hc => c2 (c1 hc), fun hc => r2 (r1 hc)⟩
    · simp at hs

theorem reachable_listed {cfg : Cfg} (hg : cfg.std = true) {s : State} (h : Reachable cfg s) : Listed s := by
  obtain ⟨as, hs⟩ := h
  exact (listed_run hg listed_init hs).1

end TdModel.Rpc
