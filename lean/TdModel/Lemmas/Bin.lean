/-
Helper lemmas about the TL primitive model (`TdModel.Model.Bin`).  Core Lean only.
-/
import TdModel.Model.Bin

namespace TdModel.Bin
open TdModel

@[simp] theorem leN_length (k n : Nat) : (leN k n).length = k := by
  induction k generalizing n with
  | zero => rfl
  | succ k ih => simp [leN, ih]

theorem fromLE_leN (k n : Nat) (h : n < 256 ^ k) : fromLE (leN k n) = n := by
  induction k generalizing n with
  | zero => simp [leN, fromLE] at *; omega
  | succ k ih =>
    have h2 : n / 256 < 256 ^ k := by
      rw [Nat.pow_succ] at h
      exact Nat.div_lt_of_lt_mul (by omega)
    simp only [leN, fromLE, ih _ h2]
    have : (UInt8.ofNat (n % 256)).toNat = n % 256 := by
      simp [UInt8.toNat_ofNat']
    rw [this]; omega

theorem fromLE_lt (b : Bytes) : fromLE b < 256 ^ b.length := by
  induction b with
  | nil => simp [fromLE]
  | cons x xs ih =>
    simp only [fromLE, List.length_cons, Nat.pow_succ]
    have := x.toNat_lt
    omega

theorem leN_fromLE (b : Bytes) : leN b.length (fromLE b) = b := by
  induction b with
  | nil => rfl
  | cons x xs ih =>
    simp only [List.length_cons, leN, fromLE]
    have hx := x.toNat_lt
    have h1 : (x.toNat + 256 * fromLE xs) % 256 = x.toNat := by omega
    have h2 : (x.toNat + 256 * fromLE xs) / 256 = fromLE xs := by omega
    rw [h1, h2, ih]
    simp

theorem padded_ge (l : Nat) : l ≤ padded l := by
  unfold padded word; simp only; split <;> omega

theorem padded_lt (l : Nat) : padded l < l + 4 := by
  unfold padded word; simp only; split <;> omega

theorem padded_mod (l : Nat) : padded l % 4 = 0 := by
  unfold padded word; simp only; split <;> omega

theorem padded_of_mod (l : Nat) (h : l % 4 = 0) : padded l = l := by
  unfold padded word; simp only; split <;> omega

@[simp] theorem zeros_length (n : Nat) : (zeros n).length = n := by simp [zeros]

theorem take_append_len {α} (a b : List α) (n : Nat) (h : a.length = n) : (a ++ b).take n = a := by
  subst h; simp

theorem drop_append_len {α} (a b : List α) (n : Nat) (h : a.length = n) : (a ++ b).drop n = b := by
  subst h; simp

theorem getU32_putU32 (v : Nat) (rest : Bytes) (h : v < 2 ^ 32) :
    getU32 (putU32 v ++ rest) = .ok (v, rest) := by
  unfold getU32 putU32
  have hl : (leN 4 v).length = 4 := leN_length 4 v
  rw [take_append_len _ _ 4 hl, drop_append_len _ _ 4 hl]
  have : ¬ (leN 4 v ++ rest).length < 4 := by simp [hl]
  simp only [this, if_false]
  rw [fromLE_leN 4 v (by simpa using h)]

theorem getU64_putU64 (v : Nat) (rest : Bytes) (h : v < 2 ^ 64) :
    getU64 (putU64 v ++ rest) = .ok (v, rest) := by
  unfold getU64 putU64
  have hl : (leN 8 v).length = 8 := leN_length 8 v
  rw [take_append_len _ _ 8 hl, drop_append_len _ _ 8 hl]
  have : ¬ (leN 8 v ++ rest).length < 8 := by simp [hl]
  simp only [this, if_false]
  rw [fromLE_leN 8 v (by simpa using h)]

theorem getN_append (x rest : Bytes) (n : Nat) (h : x.length = n) :
    getN n (x ++ rest) = .ok (x, rest) := by
  unfold getN
  rw [take_append_len _ _ n h, drop_append_len _ _ n h]
  have : ¬ (x ++ rest).length < n := by simp [h]
  simp only [this, if_false]

theorem putU32_length (v : Nat) : (putU32 v).length = 4 := by simp [putU32]
theorem putU64_length (v : Nat) : (putU64 v).length = 8 := by simp [putU64]

theorem putBytes_length (v : Bytes) :
    (putBytes v).length = if v.length ≤ 253 then padded (v.length + 1) else padded (v.length + 4) := by
  unfold putBytes maxSmall
  simp only
  split
  · have := padded_ge (v.length + 1)
    simp; omega
  · have := padded_ge (v.length + 4)
    simp; omega

theorem putBytes_length_mod (v : Bytes) : (putBytes v).length % 4 = 0 := by
  rw [putBytes_length]; split <;> exact padded_mod _

theorem putBool_length (b : Bool) : (putBool b).length = 4 := by simp [putBool, putU32]

private theorem u8_ofNat_toNat (n : Nat) (h : n < 256) : (UInt8.ofNat n).toNat = n := by
  simp [UInt8.toNat_ofNat']; omega

theorem decodeBytes_putBytes (v rest : Bytes) (h : v.length < 2 ^ 24) :
    decodeBytes (putBytes v ++ rest) = .ok ((putBytes v).length, v) := by
  rw [putBytes_length]
  unfold putBytes maxSmall firstLong
  simp only
  by_cases hs : v.length ≤ 253
  · simp only [hs, if_true]
    simp only [List.cons_append, decodeBytes, firstLong, maxSmall]
    have h0 : (UInt8.ofNat v.length).toNat = v.length := u8_ofNat_toNat _ (by omega)
    rw [h0]
    have h1 : ¬ v.length = 254 := by omega
    simp only [h1, if_false]
    have hp := padded_ge (v.length + 1)
    have h2 : ¬ ((UInt8.ofNat v.length :: (v ++ zeros (padded (v.length + 1) - (v.length + 1)) ++ rest)).length < v.length + 1) := by
      simp
    simp only [h2, if_false]
    have h3 : ¬ v.length > 253 := by omega
    simp only [h3, if_false]
    simp
  · simp only [hs, if_false]
    simp only [List.cons_append, decodeBytes, firstLong, maxSmall]
    have h0 : (UInt8.ofNat 254).toNat = 254 := by decide
    simp only [h0, if_true]
    have hlen : ¬ ((UInt8.ofNat 254 :: UInt8.ofNat v.length :: UInt8.ofNat (v.length / 256) ::
        UInt8.ofNat (v.length / 65536) :: (v ++ zeros (padded (v.length + 4) - (v.length + 4)) ++ rest)).length < 4) := by
      simp
    simp only [hlen, if_false]
    have hfl : fromLE (List.take 3 (List.drop 1 (UInt8.ofNat 254 :: UInt8.ofNat v.length :: UInt8.ofNat (v.length / 256) ::
        UInt8.ofNat (v.length / 65536) :: (v ++ zeros (padded (v.length + 4) - (v.length + 4)) ++ rest)))) = v.length := by
      simp only [List.drop_succ_cons, List.drop_zero, List.take_succ_cons, List.take_zero, fromLE]
      simp only [UInt8.toNat_ofNat']
      have : v.length < 16777216 := by simpa using h
      omega
    rw [hfl]
    have hp := padded_ge (v.length + 4)
    have h2 : ¬ ((UInt8.ofNat 254 :: UInt8.ofNat v.length :: UInt8.ofNat (v.length / 256) ::
        UInt8.ofNat (v.length / 65536) :: (v ++ zeros (padded (v.length + 4) - (v.length + 4)) ++ rest)).length < v.length + 4) := by
      simp
    simp only [h2, if_false]
    simp

theorem getBytes_putBytes (v rest : Bytes) (h : v.length < 2 ^ 24) :
    getBytes (putBytes v ++ rest) = .ok (v, rest) := by
  unfold getBytes
  rw [decodeBytes_putBytes v rest h]
  simp

theorem getBool_putBool (b : Bool) (rest : Bytes) : getBool (putBool b ++ rest) = .ok (b, rest) := by
  unfold getBool putBool putU32
  have hl (v : Nat) : (leN 4 v).length = 4 := leN_length 4 v
  rw [take_append_len _ _ 4 (hl _), drop_append_len _ _ 4 (hl _)]
  have : ¬ (leN 4 (if b = true then typeTrue else typeFalse) ++ rest).length < 4 := by simp [hl]
  simp only [this, if_false]
  cases b
  · rw [fromLE_leN 4 _ (by simp [typeFalse])]; simp [typeTrue, typeFalse]
  · rw [fromLE_leN 4 _ (by simp [typeTrue])]; simp

theorem consumeID_putU32 (id : Nat) (rest : Bytes) (h : id < 2 ^ 32) :
    consumeID id (putU32 id ++ rest) = .ok ((), rest) := by
  unfold consumeID putU32
  have hl : (leN 4 id).length = 4 := leN_length 4 id
  rw [take_append_len _ _ 4 hl, drop_append_len _ _ 4 hl]
  have : ¬ (leN 4 id ++ rest).length < 4 := by simp [hl]
  simp only [this, if_false]
  rw [fromLE_leN 4 id (by simpa using h)]
  simp

theorem getVectorHeader_put (n : Nat) (rest : Bytes) (h : n < 2 ^ 31) :
    getVectorHeader (putVectorHeader n ++ rest) = .ok (n, rest) := by
  unfold getVectorHeader putVectorHeader
  rw [List.append_assoc, consumeID_putU32 _ _ (by simp [typeVector])]
  simp only
  rw [getU32_putU32 _ _ (by omega)]
  simp only [toInt32]
  have : n < 2 ^ 31 := h
  simp [this]

end TdModel.Bin
