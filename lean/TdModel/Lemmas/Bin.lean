/-
Helper lemmas about the TL primitive model (`TdModel.Model.Bin`).  Core Lean only.
-/
import TdModel.Model.Bin

namespace TdModel.Bin
open TdModel

@[simp] theorem leN_length (k n : Nat) : (leN k n).length = k := by
  induction k generalizing n with
  | zero => rfl
  | succ k ih => simp [leN, ih]

theorem fromLE_leN (k n : Nat) (h : n < 256 ^ k) : fromLE (leN k n) = n := by
  induction k generalizing n with
  | zero => simp [leN, fromLE] at *; omega
  | succ k ih =>
    have h2 : n / 256 < 256 ^ k := by
      rw [Nat.pow_succ] at h
      exact Nat.div_lt_of_lt_mul (by omega)
    simp only [leN, fromLE, ih _ h2]
    have : (UInt8.ofNat (n % 256)).toNat = n % 256 := by
      simp [UInt8.toNat_ofNat']
    rw [this]; omega

theorem fromLE_lt (b : Bytes) : fromLE b < 256 ^ b.length := by
  induction b with
  | nil => simp [fromLE]
  | cons x xs ih =>
    simp only [fromLE, List.length_cons, Nat.pow_succ]
    have := x.toNat_lt
    omega

theorem leN_fromLE (b : Bytes) : leN b.length (fromLE b) = b := by
  induction b with
  | nil => rfl
  | cons x xs ih =>
    simp only [List.length_cons, leN, fromLE]
    have hx := x.toNat_lt
    have h1 : (x.toNat + 256 * fromLE xs) % 256 = x.toNat := by omega
    have h2 : (x.toNat + 256 * fromLE xs) / 256 = fromLE xs := by omega
    rw [h1, h2, ih]
    simp

theorem padded_ge (l : Nat) : l ≤ padded l := by
  unfold padded word; simp only; split <;> omega

theorem padded_lt (l : Nat) : padded l < l + 4 := by
  unfold padded word; simp only; split <;> omega

theorem padded_mod (l : Nat) : padded l % 4 = 0 := by
  unfold padded word; simp only; split <;> omega

theorem padded_of_mod (l : Nat) (h : l % 4 = 0) : padded l = l := by
  unfold padded word; simp only; split <;> omega

@[simp] theorem zeros_length (n : Nat) : (zeros n).length = n := by simp [zeros]

theorem take_append_len {α} (a b : List α) (n : Nat) (h : a.length = n) : (a ++ b).take n = a := by
  subst h; simp

theorem drop_append_len {α} (a b : List α) (n : Nat) (h : a.length = n) : (a ++ b).drop n = b := by
  subst h; simp

theorem getU32_putU32 (v : Nat) (rest : Bytes) (h : v < 2 ^ 32) :
    getU32 (putU32 v ++ rest) = .ok (v, rest) := by
  unfold getU32 putU32
  have hl : (leN 4 v).length = 4 := leN_length 4 v
  rw [take_append_len _ _ 4 hl, drop_append_len _ _ 4 hl]
  have : ¬ (leN 4 v ++ rest).length < 4 := by simp [hl]
  simp only [this, if_false]
  rw [fromLE_leN 4 v (by simpa using h)]

theorem getU64_putU64 (v : Nat) (rest : Bytes) (h : v < 2 ^ 64) :
    getU64 (putU64 v ++ rest) = .ok (v, rest) := by
  unfold getU64 putU64
  have hl : (leN 8 v).length = 8 := leN_length 8 v
  rw [take_append_len _ _ 8 hl, drop_append_len _ _ 8 hl]
  have : ¬ (leN 8 v ++ rest).length < 8 := by simp [hl]
  simp only [this, if_false]
  rw [fromLE_leN 8 v (by simpa using h)]

theorem getN_append (x rest : Bytes) (n : Nat) (h : x.length = n) :
    getN n (x ++ rest) = .ok (x, rest) := by
  unfold getN
  rw [take_append_len _ _ n h, drop_append_len _ _ n h]
  have : ¬ (x ++ rest).length < n := by simp [h]
  simp only [this, if_false]

theorem putU32_length (v : Nat) : (putU32 v).length = 4 := by simp [putU32]
theorem putU64_length (v : Nat) : (putU64 v).length = 8 := by simp [putU64]

theorem putBytes_length (v : Bytes) :
    (putBytes v).length = if v.length ≤ 253 then padded (v.length + 1) else padded (v.length + 4) := by
  unfold putBytes maxSmall
  simp only
  split
  · have := padded_ge (v.length + 1)
    simp; omega
  · have := padded_ge (v.length + 4)
    simp; omega

theorem putBytes_length_mod (v : Bytes) : (putBytes v).length % 4 = 0 := by
  rw [putBytes_length]; split <;> exact padded_mod _

theorem putBool_length (b : Bool) : (putBool b).length = 4 := by simp [putBool, putU32]

private theorem u8_ofNat_toNat (n : Nat) (h : n < 256) : (UInt8.ofNat n).toNat = n := by
  simp [UInt8.toNat_ofNat']; omega

theorem decodeBytes_putBytes (v rest : Bytes) (h : v.length < 2 ^ 24) :
    decodeBytes (putBytes v ++ rest) = .ok ((putBytes v).length, v) := by
  rw [putBytes_length]
  unfold putBytes maxSmall firstLong
  simp only
  by_cases hs : v.length ≤ 253
  · simp only [hs, if_true]
    simp only [List.cons_append, decodeBytes, firstLong, maxSmall]
    have h0 : (UInt8.ofNat v.length).toNat = v.length := u8_ofNat_toNat _ (by omega)
    rw [h0]
    have h1 : ¬ v.length = 254 := by omega
    simp only [h1, if_false]
    have hp := padded_ge (v.length + 1)
    have h2 : ¬ ((UInt8.ofNat v.length :: (v ++ zeros (padded (v.length + 1) - (v.length + 1)) ++ rest)).length < v.length + 1) := by
      simp
    simp only [h2, if_false]
    have h3 : ¬ v.length > 253 := by omega
    simp only [h3, if_false]
    simp
  · simp only [hs, if_false]
    simp only [List.cons_append, decodeBytes, firstLong, maxSmall]
    have h0 : (UInt8.ofNat 254).toNat = 254 := by decide
    simp only [h0, if_true]
    have hlen : ¬ ((UInt8.ofNat 254 :: UInt8.ofNat v.length :: UInt8.ofNat (v.length / 256) ::
        UInt8.ofNat (v.length / 65536) :: (v ++ zeros (padded (v.length + 4) - (v.length + 4)) ++ rest)).length < 4) := by
      simp
    simp only [hlen, if_false]
    have hfl : fromLE (List.take 3 (List.drop 1 (UInt8.ofNat 254 :: UInt8.ofNat v.length :: UInt8.ofNat (v.length / 256) ::
        UInt8.ofNat (v.length / 65536) :: (v ++ zeros (padded (v.length + 4) - (v.length + 4)) ++ rest)))) = v.length := by
      simp only [List.drop_succ_cons, List.drop_zero, List.take_succ_cons, List.take_zero, fromLE]
      simp only [UInt8.toNat_ofNat']
      have : v.length < 16777216 := by simpa using h
      omega
    rw [hfl]
    have hp := padded_ge (v.length + 4)
    have h2 : ¬ ((UInt8.ofNat 254 :: UInt8.ofNat v.length :: UInt8.ofNat (v.length / 256) ::
        UInt8.ofNat (v.length / 65536) :: (v ++ zeros (padded (v.length + 4) - (v.length + 4)) ++ rest)).length < v.length + 4) := by
      simp
    simp only [h2, if_false]
    simp

theorem getBytes_putBytes (v rest : Bytes) (h : v.length < 2 ^ 24) :
    getBytes (putBytes v ++ rest) = .ok (v, rest) := by
  unfold getBytes
  rw [decodeBytes_putBytes v rest h]
  simp

theorem getBool_putBool (b : Bool) (rest : Bytes) : getBool (putBool b ++ rest) = .ok (b, rest) := by
  unfold getBool putBool putU32
  have hl (v : Nat) : (leN 4 v).length = 4 := leN_length 4 v
  rw [take_append_len _ _ 4 (hl _), drop_append_len _ _ 4 (hl _)]
  have : ¬ (leN 4 (if b = true then typeTrue else typeFalse) ++ rest).length < 4 := by simp [hl]
  simp only [this, if_false]
  cases b
  · rw [fromLE_leN 4 _ (by simp [typeFalse])]; simp [typeTrue, typeFalse]
  · rw [fromLE_leN 4 _ (by simp [typeTrue])]; simp

theorem consumeID_putU32 (id : Nat) (rest : Bytes) (h : id < 2 ^ 32) :
    consumeID id (putU32 id ++ rest) = .ok ((), rest) := by
  unfold consumeID putU32
  have hl : (leN 4 id).length = 4 := leN_length 4 id
  rw [take_append_len _ _ 4 hl, drop_append_len _ _ 4 hl]
  have : ¬ (leN 4 id ++ rest).length < 4 := by simp [hl]
  simp only [this, if_false]
  rw [fromLE_leN 4 id (by simpa using h)]
  simp

theorem getVectorHeader_put (n : Nat) (rest : Bytes) (h : n < 2 ^ 31) :
    getVectorHeader (putVectorHeader n ++ rest) = .ok (n, rest) := by
  unfold getVectorHeader putVectorHeader
  rw [List.append_assoc, consumeID_putU32 _ _ (by simp [typeVector])]
  simp only
  rw [getU32_putU32 _ _ (by omega)]
  simp only [toInt32]
  have : n < 2 ^ 31 := h
  simp [this]

/-! ### Extensions for C20/C22 -/

theorem ofInt32_lt (i : Int) : ofInt32 i < 2 ^ 32 := by
  unfold ofInt32; omega

theorem ofInt64_lt (i : Int) : ofInt64 i < 2 ^ 64 := by
  unfold ofInt64; omega

theorem toInt32_ofInt32 (i : Int) (h : -2 ^ 31 ≤ i ∧ i < 2 ^ 31) : toInt32 (ofInt32 i) = i := by
  unfold toInt32 ofInt32; split <;> omega

theorem toInt64_ofInt64 (i : Int) (h : -2 ^ 63 ≤ i ∧ i < 2 ^ 63) : toInt64 (ofInt64 i) = i := by
  unfold toInt64 ofInt64; split <;> omega

theorem toInt32_range (v : Nat) (h : v < 2 ^ 32) : -2 ^ 31 ≤ toInt32 v ∧ toInt32 v < 2 ^ 31 := by
  unfold toInt32; split <;> omega

theorem toInt64_range (v : Nat) (h : v < 2 ^ 64) : -2 ^ 63 ≤ toInt64 v ∧ toInt64 v < 2 ^ 63 := by
  unfold toInt64; split <;> omega

theorem getInt32_putInt32 (i : Int) (rest : Bytes) (h : -2 ^ 31 ≤ i ∧ i < 2 ^ 31) :
    getInt32 (putInt32 i ++ rest) = .ok (i, rest) := by
  unfold getInt32 putInt32
  rw [getU32_putU32 _ _ (ofInt32_lt i)]
  simp only [toInt32_ofInt32 i h]

theorem getInt64_putInt64 (i : Int) (rest : Bytes) (h : -2 ^ 63 ≤ i ∧ i < 2 ^ 63) :
    getInt64 (putInt64 i ++ rest) = .ok (i, rest) := by
  unfold getInt64 putInt64
  rw [getU64_putU64 _ _ (ofInt64_lt i)]
  simp only [toInt64_ofInt64 i h]

theorem putVectorHeader_length (n : Nat) : (putVectorHeader n).length = 8 := by
  simp [putVectorHeader, putU32]

theorem putBytes_eq (v : Bytes) :
    putBytes v = bytesHeader v.length ++ v ++ zeros (bytesPad v.length) := by
  unfold putBytes bytesHeader bytesPad
  simp only
  split <;> simp

theorem fromLE_take_lt (b : Bytes) (k : Nat) : fromLE (b.take k) < 256 ^ k := by
  have h := fromLE_lt (b.take k)
  have hl : (b.take k).length ≤ k := by simp [List.length_take]; omega
  exact Nat.lt_of_lt_of_le h (Nat.pow_le_pow_right (by omega) hl)

/-- Every decoded 32-bit value is in range (so the signed view is a faithful `int32`). -/
theorem getU32_lt {b r : Bytes} {v : Nat} (h : getU32 b = .ok (v, r)) : v < 2 ^ 32 := by
  unfold getU32 at h
  split at h
  · cases h
  · injection h with h; injection h with h1 h2
    subst h1
    simpa using fromLE_take_lt b 4

theorem getU64_lt {b r : Bytes} {v : Nat} (h : getU64 b = .ok (v, r)) : v < 2 ^ 64 := by
  unfold getU64 at h
  split at h
  · cases h
  · injection h with h; injection h with h1 h2
    subst h1
    simpa using fromLE_take_lt b 8

/-! #### Short input is an error -/

theorem getU32_short (b : Bytes) (h : b.length < 4) : getU32 b = .error .eof := by
  simp [getU32, h]

theorem getU64_short (b : Bytes) (h : b.length < 8) : getU64 b = .error .eof := by
  simp [getU64, h]

theorem getN_short (n : Nat) (b : Bytes) (h : b.length < n) : getN n b = .error .eof := by
  simp [getN, h]

theorem getBool_short (b : Bytes) (h : b.length < 4) : getBool b = .error .eof := by
  simp [getBool, h]

theorem consumeID_short (id : Nat) (b : Bytes) (h : b.length < 4) : consumeID id b = .error .eof := by
  simp [consumeID, h]

theorem getInt32_short (b : Bytes) (h : b.length < 4) : getInt32 b = .error .eof := by
  simp [getInt32, getU32_short b h]

theorem getInt64_short (b : Bytes) (h : b.length < 8) : getInt64 b = .error .eof := by
  simp [getInt64, getU64_short b h]

theorem getVectorHeader_short (b : Bytes) (h : b.length < 8) :
    getVectorHeader b = .error .eof ∨ getVectorHeader b = .error .unexpectedID := by
  unfold getVectorHeader consumeID
  by_cases h4 : b.length < 4
  · simp [h4]
  · simp only [h4, if_false]
    by_cases hid : fromLE (List.take 4 b) = typeVector
    · have : (b.drop 4).length < 4 := by simp; omega
      simp [hid, getU32_short _ this]
    · simp [hid]

/-- Whatever `decodeBytes` accepts lies inside the input: value and header fit in `b`. -/
theorem decodeBytes_ok_bounds {b v : Bytes} {n : Nat} (h : decodeBytes b = .ok (n, v)) :
    v.length + 1 ≤ b.length ∧ n % 4 = 0 ∧ v.length < n ∧ n ≤ v.length + 7 ∧ v.length < 2 ^ 24 := by
  unfold decodeBytes at h
  split at h
  · cases h
  · rename_i b0 t
    simp only [firstLong, maxSmall] at h
    split at h
    · split at h
      · cases h
      · split at h
        · cases h
        · injection h with h; injection h with h1 h2
          subst h1 h2
          rename_i hlen hlen2
          have hp := padded_ge (fromLE (List.take 3 (List.drop 1 (b0 :: t))) + 4)
          have hq := padded_lt (fromLE (List.take 3 (List.drop 1 (b0 :: t))) + 4)
          have hm := padded_mod (fromLE (List.take 3 (List.drop 1 (b0 :: t))) + 4)
          have h3 := fromLE_take_lt (List.drop 1 (b0 :: t)) 3
          simp only [List.length_take, List.length_drop] at *
          omega
    · split at h
      · cases h
      · by_cases hs : b0.toNat > 253
        · simp [hs] at h
        · simp only [hs, if_false] at h
          injection h with h; injection h with h1 h2
          subst h1 h2
          have hp := padded_ge (b0.toNat + 1)
          have hq := padded_lt (b0.toNat + 1)
          have hm := padded_mod (b0.toNat + 1)
          have hb := b0.toNat_lt
          simp only [List.length_take, List.length_drop] at *
          omega

/-! #### The panic-explicit decoders never panic -/

@[simp] theorem Out.bind_ok {α β : Type} (a : α) (f : α → Out β) : (Out.ok a >>= f) = f a := rfl
@[simp] theorem Out.bind_err {α β : Type} (e : Err) (f : α → Out β) : (Out.err e >>= f) = Out.err e := rfl
@[simp] theorem Out.bind_panic {α β : Type} (f : α → Out β) : (Out.panic >>= f) = Out.panic := rfl
@[simp] theorem Out.pure_eq {α : Type} (a : α) : (pure a : Out α) = Out.ok a := rfl

theorem Out.ofExcept_ne_panic {α : Type} (x : Except Err α) : Out.ofExcept x ≠ Out.panic := by
  cases x <;> simp [Out.ofExcept]

theorem peekIDP_eq (b : Bytes) :
    peekIDP b = if b.length < 4 then .err .eof else .ok (fromLE (b.take 4)) := by
  unfold peekIDP goLE32 word
  split
  · rfl
  · rename_i h; simp; omega

theorem getU32P_eq (b : Bytes) : getU32P b = Out.ofExcept (getU32 b) := by
  unfold getU32P getU32
  rw [peekIDP_eq]
  by_cases h : b.length < 4
  · simp [h, Out.ofExcept]
  · have h' : 4 ≤ b.length := by omega
    simp [h, Out.ofExcept, goFrom, word, h']

theorem getU64P_eq (b : Bytes) : getU64P b = Out.ofExcept (getU64 b) := by
  unfold getU64P getU64 word
  by_cases h : b.length < 8
  · simp [h, Out.ofExcept]
  · have h' : 8 ≤ b.length := by omega
    simp [h, Out.ofExcept, goFrom, goLE64, h']

theorem getInt32P_eq (b : Bytes) : getInt32P b = Out.ofExcept (getInt32 b) := by
  unfold getInt32P getInt32
  rw [getU32P_eq]
  cases getU32 b with
  | error e => rfl
  | ok p => cases p; rfl

theorem getInt64P_eq (b : Bytes) : getInt64P b = Out.ofExcept (getInt64 b) := by
  unfold getInt64P getInt64
  rw [getU64P_eq]
  cases getU64 b with
  | error e => rfl
  | ok p => cases p; rfl

theorem getBoolP_eq (b : Bytes) : getBoolP b = Out.ofExcept (getBool b) := by
  unfold getBoolP getBool
  rw [peekIDP_eq]
  by_cases h : b.length < 4
  · simp [h, Out.ofExcept]
  · have h' : 4 ≤ b.length := by omega
    simp only [h, if_false, Out.bind_ok]
    split
    · simp [goFrom, word, h', Out.ofExcept]
    · split
      · simp [goFrom, word, h', Out.ofExcept]
      · rfl

theorem consumeIDP_eq (id : Nat) (b : Bytes) : consumeIDP id b = Out.ofExcept (consumeID id b) := by
  unfold consumeIDP consumeID
  rw [peekIDP_eq]
  by_cases h : b.length < 4
  · simp [h, Out.ofExcept]
  · have h' : 4 ≤ b.length := by omega
    simp only [h, if_false, Out.bind_ok]
    split
    · simp [goFrom, word, h', Out.ofExcept]
    · rfl

theorem getVectorHeaderP_eq (b : Bytes) : getVectorHeaderP b = Out.ofExcept (getVectorHeader b) := by
  unfold getVectorHeaderP getVectorHeader
  rw [consumeIDP_eq]
  cases consumeID typeVector b with
  | error e => rfl
  | ok p =>
    obtain ⟨u, r⟩ := p
    simp only [Out.ofExcept, Out.bind_ok]
    rw [getU32P_eq]
    cases getU32 r with
    | error e => rfl
    | ok q =>
      obtain ⟨n, r'⟩ := q
      simp only [Out.ofExcept, Out.bind_ok]
      split <;> rfl

theorem getNP_eq (n : Nat) (b : Bytes) : getNP n b = Out.ofExcept (getN n b) := by
  unfold getNP getN
  by_cases h : b.length < n
  · simp [h, Out.ofExcept]
  · have h' : n ≤ b.length := by omega
    simp [h, Out.ofExcept, goFrom, goSlice, h']

theorem goIdx_lt (b : Bytes) (i : Nat) (h : i < b.length) : goIdx b i = .ok b[i] := by
  unfold goIdx
  simp [List.getElem?_eq_getElem h]

theorem decodeBytesP_eq (b : Bytes) : decodeBytesP b = Out.ofExcept (decodeBytes b) := by
  unfold decodeBytesP decodeBytes
  cases b with
  | nil => simp [Out.ofExcept]
  | cons b0 t =>
    simp only [List.length_cons, Nat.add_one_ne_zero, if_false]
    rw [goIdx_lt _ 0 (by simp)]
    simp only [List.getElem_cons_zero, Out.bind_ok]
    split
    · by_cases h4 : t.length + 1 < 4
      · simp [h4, Out.ofExcept]
      · simp only [h4, if_false]
        match t, h4 with
        | [], h4 => simp at h4
        | [_], h4 => simp at h4
        | [_, _], h4 => simp at h4
        | b1 :: b2 :: b3 :: t', _ =>
          rw [goIdx_lt _ 1 (by simp), goIdx_lt _ 2 (by simp), goIdx_lt _ 3 (by simp)]
          simp only [Out.bind_ok, List.getElem_cons_succ, List.getElem_cons_zero, List.drop_succ_cons,
            List.drop_zero, List.take_succ_cons, List.take_zero, fromLE, List.length_cons]
          have e : b1.toNat + 256 * (b2.toNat + 256 * b3.toNat)
              = b1.toNat + 256 * (b2.toNat + 256 * (b3.toNat + 256 * 0)) := by omega
          rw [e]
          split
          · rfl
          · rename_i hl
            simp only [goSlice, List.length_cons]
            have : b1.toNat + 256 * (b2.toNat + 256 * b3.toNat) ≤ t'.length := by omega
            simp [this, Out.ofExcept]
    · split
      · rfl
      · split
        · rfl
        · rename_i hl hs
          simp only [goSlice, List.length_cons]
          have : 1 ≤ b0.toNat + 1 ∧ b0.toNat + 1 ≤ t.length + 1 := by omega
          simp [this, Out.ofExcept]

theorem getBytesP_eq (b : Bytes) : getBytesP b = Out.ofExcept (getBytes b) := by
  unfold getBytesP getBytes
  rw [decodeBytesP_eq]
  cases decodeBytes b with
  | error e => rfl
  | ok p =>
    obtain ⟨n, v⟩ := p
    simp only [Out.ofExcept, Out.bind_ok]
    split
    · rfl
    · rename_i h
      have h' : n ≤ b.length := by omega
      simp [goFrom, h']

/-! #### Truncated / malformed byte strings are errors -/

theorem getBytes_short_form_short (b0 : UInt8) (t : Bytes) (h0 : b0.toNat ≤ 253)
    (hl : (b0 :: t).length < padded (b0.toNat + 1)) : getBytes (b0 :: t) = .error .eof := by
  unfold getBytes decodeBytes
  simp only [firstLong, maxSmall]
  have h1 : ¬ b0.toNat = 254 := by omega
  have h2 : ¬ b0.toNat > 253 := by omega
  simp only [h1, if_false, h2]
  by_cases hc : (b0 :: t).length < b0.toNat + 1
  · simp only [hc, if_true]
  · simp only [hc, if_false, hl, if_true]

theorem getBytes_long_form_short (x1 x2 x3 : UInt8) (t : Bytes)
    (hl : (UInt8.ofNat 254 :: x1 :: x2 :: x3 :: t).length < padded (fromLE [x1, x2, x3] + 4)) :
    getBytes (UInt8.ofNat 254 :: x1 :: x2 :: x3 :: t) = .error .eof := by
  unfold getBytes decodeBytes
  simp only [firstLong]
  have h0 : (UInt8.ofNat 254).toNat = 254 := by decide
  simp only [h0, if_true, List.drop_succ_cons, List.drop_zero, List.take_succ_cons, List.take_zero]
  have h4 : ¬ (UInt8.ofNat 254 :: x1 :: x2 :: x3 :: t).length < 4 := by simp
  simp only [h4, if_false]
  by_cases hc : (UInt8.ofNat 254 :: x1 :: x2 :: x3 :: t).length < fromLE [x1, x2, x3] + 4
  · simp only [hc, if_true]
  · simp only [hc, if_false, hl, if_true]

theorem getBytes_long_hdr_short (t : Bytes) (h : (UInt8.ofNat 254 :: t).length < 4) :
    getBytes (UInt8.ofNat 254 :: t) = .error .eof := by
  unfold getBytes decodeBytes
  simp only [firstLong]
  have h0 : (UInt8.ofNat 254).toNat = 254 := by decide
  simp only [h0, if_true, h]

/-- Every proper prefix of an encoded byte string is rejected with `eof`. -/
theorem getBytes_truncated (v : Bytes) (h : v.length < 2 ^ 24) (k : Nat) (hk : k < (putBytes v).length) :
    getBytes ((putBytes v).take k) = .error .eof := by
  have hlen := putBytes_length v
  by_cases hs : v.length ≤ 253
  · simp only [hs, if_true] at hlen
    have hp : putBytes v = UInt8.ofNat v.length :: (v ++ zeros (padded (v.length + 1) - (v.length + 1))) := by
      unfold putBytes maxSmall; simp [hs]
    cases k with
    | zero => simp [getBytes, decodeBytes]
    | succ k =>
      rw [hp, List.take_succ_cons]
      have h0 : (UInt8.ofNat v.length).toNat = v.length := u8_ofNat_toNat _ (by omega)
      apply getBytes_short_form_short
      · omega
      · rw [h0]
        rw [hp] at hk hlen
        simp only [List.length_cons, List.length_take] at *
        omega
  · simp only [hs, if_false] at hlen
    have hp : putBytes v = UInt8.ofNat 254 :: UInt8.ofNat v.length :: UInt8.ofNat (v.length / 256) ::
        UInt8.ofNat (v.length / 65536) :: (v ++ zeros (padded (v.length + 4) - (v.length + 4))) := by
      unfold putBytes maxSmall firstLong; simp [hs]
    match k with
    | 0 => simp [getBytes, decodeBytes]
    | 1 => rw [hp]; exact getBytes_long_hdr_short _ (by simp)
    | 2 => rw [hp]; exact getBytes_long_hdr_short _ (by simp)
    | 3 => rw [hp]; exact getBytes_long_hdr_short _ (by simp)
    | k + 4 =>
      rw [hp]
      simp only [List.take_succ_cons]
      apply getBytes_long_form_short
      have hfl : fromLE [UInt8.ofNat v.length, UInt8.ofNat (v.length / 256), UInt8.ofNat (v.length / 65536)]
          = v.length := by
        simp only [fromLE, UInt8.toNat_ofNat']
        have : v.length < 16777216 := by simpa using h
        omega
      rw [hfl]
      rw [hp] at hk hlen
      simp only [List.length_cons, List.length_take] at *
      omega

/-- First byte 255 is never a valid length prefix. -/
theorem getBytes_prefix_255 (t : Bytes) :
    getBytes (UInt8.ofNat 255 :: t) = .error .eof ∨ getBytes (UInt8.ofNat 255 :: t) = .error .invalidLength := by
  unfold getBytes decodeBytes
  simp only [firstLong, maxSmall]
  have h0 : (UInt8.ofNat 255).toNat = 255 := by decide
  simp only [h0]
  have : ¬ (255 = 254) := by omega
  simp only [this, if_false]
  by_cases hc : (UInt8.ofNat 255 :: t).length < 255 + 1
  · left; simp only [hc, if_true]
  · right
    have hc' : ¬ (t.length + 1 < 256) := by simpa using hc
    simp [hc']

/-- A successful `getBytes` consumes a multiple of 4 bytes, returns a value shorter than 2^24 that
re-encodes to exactly the consumed bytes' length. -/
theorem getBytes_ok_consumed {b v r : Bytes} (h : getBytes b = .ok (v, r)) :
    consumed b r % 4 = 0 ∧ v.length < 2 ^ 24 ∧ v.length < consumed b r ∧ r.length ≤ b.length := by
  unfold getBytes at h
  cases hd : decodeBytes b with
  | error e => simp [hd] at h
  | ok p =>
    obtain ⟨n, v'⟩ := p
    simp only [hd] at h
    split at h
    · cases h
    · injection h with h; injection h with h1 h2
      subst h1 h2
      have hb := decodeBytes_ok_bounds hd
      unfold consumed
      simp only [List.length_drop]
      omega

/-! #### Decoding is injective: what a decoder accepted re-encodes to exactly the bytes it consumed -/

theorem getU32_inv {b r : Bytes} {v : Nat} (h : getU32 b = .ok (v, r)) : putU32 v ++ r = b := by
  unfold getU32 at h
  by_cases hl : b.length < 4
  · simp [hl] at h
  · simp only [hl, if_false] at h
    injection h with h; injection h with h1 h2
    subst h1 h2
    unfold putU32
    have : (b.take 4).length = 4 := by simp [List.length_take]; omega
    have e := leN_fromLE (b.take 4)
    rw [this] at e
    rw [e, List.take_append_drop]

theorem getU64_inv {b r : Bytes} {v : Nat} (h : getU64 b = .ok (v, r)) : putU64 v ++ r = b := by
  unfold getU64 at h
  by_cases hl : b.length < 8
  · simp [hl] at h
  · simp only [hl, if_false] at h
    injection h with h; injection h with h1 h2
    subst h1 h2
    unfold putU64
    have : (b.take 8).length = 8 := by simp [List.length_take]; omega
    have e := leN_fromLE (b.take 8)
    rw [this] at e
    rw [e, List.take_append_drop]

theorem ofInt32_toInt32 (v : Nat) (h : v < 2 ^ 32) : ofInt32 (toInt32 v) = v := by
  unfold ofInt32 toInt32; split <;> omega

theorem ofInt64_toInt64 (v : Nat) (h : v < 2 ^ 64) : ofInt64 (toInt64 v) = v := by
  unfold ofInt64 toInt64; split <;> omega

theorem getInt32_inv {b r : Bytes} {i : Int} (h : getInt32 b = .ok (i, r)) : putInt32 i ++ r = b := by
  unfold getInt32 at h
  cases hu : getU32 b with
  | error e => simp [hu] at h
  | ok p =>
    obtain ⟨v, r'⟩ := p
    simp only [hu] at h
    injection h with h; injection h with h1 h2
    subst h1 h2
    unfold putInt32
    rw [ofInt32_toInt32 v (getU32_lt hu)]
    exact getU32_inv hu

theorem getInt64_inv {b r : Bytes} {i : Int} (h : getInt64 b = .ok (i, r)) : putInt64 i ++ r = b := by
  unfold getInt64 at h
  cases hu : getU64 b with
  | error e => simp [hu] at h
  | ok p =>
    obtain ⟨v, r'⟩ := p
    simp only [hu] at h
    injection h with h; injection h with h1 h2
    subst h1 h2
    unfold putInt64
    rw [ofInt64_toInt64 v (getU64_lt hu)]
    exact getU64_inv hu

theorem getN_inv {n : Nat} {b x r : Bytes} (h : getN n b = .ok (x, r)) : x ++ r = b ∧ x.length = n := by
  unfold getN at h
  by_cases hl : b.length < n
  · simp [hl] at h
  · simp only [hl, if_false] at h
    injection h with h; injection h with h1 h2
    subst h1 h2
    exact ⟨List.take_append_drop n b, by simp [List.length_take]; omega⟩

theorem consumeID_inv {id : Nat} {b r : Bytes} {u : Unit} (h : consumeID id b = .ok (u, r)) : putU32 id ++ r = b := by
  have : getU32 b = .ok (id, r) := by
    unfold consumeID at h
    unfold getU32
    by_cases hl : b.length < 4
    · simp [hl] at h
    · simp only [hl, if_false] at h ⊢
      by_cases he : fromLE (List.take 4 b) = id
      · simp only [he, if_true] at h
        injection h with h; injection h with _ h2
        rw [he, h2]
      · simp [he] at h
  exact getU32_inv this

theorem toInt32_lt_of_getInt32 {b r : Bytes} {i : Int} (h : getInt32 b = .ok (i, r)) : -2 ^ 31 ≤ i ∧ i < 2 ^ 31 := by
  unfold getInt32 at h
  cases hu : getU32 b with
  | error e => simp [hu] at h
  | ok p =>
    obtain ⟨v, r'⟩ := p
    simp only [hu] at h
    injection h with h; injection h with h1 _
    subst h1
    exact toInt32_range v (getU32_lt hu)

end TdModel.Bin
