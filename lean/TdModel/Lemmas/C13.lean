/-
C13 — helper lemmas (core Lean only).
-/
import TdModel.Model.C13

namespace TdModel.C13
open TdModel

/-! ## bit length -/

theorem bitLen_eq_succ_iff (p : Int) (n : Nat) :
    bitLen p = n + 1 ↔ 2 ^ n ≤ p.natAbs ∧ p.natAbs < 2 ^ (n + 1) := by
  unfold bitLen
  by_cases h : p.natAbs = 0
  · simp [h]
  · simp only [h, if_false]
    constructor
    · intro hl
      have hl' : p.natAbs.log2 = n := by omega
      exact ⟨(Nat.le_log2 h).mp (by omega), (Nat.log2_lt h).mp (by omega)⟩
    · intro ⟨h1, h2⟩
      have a := (Nat.le_log2 h).mpr h1
      have b := (Nat.log2_lt h).mpr h2
      omega

/-! ## DecomposePQ: the translated pieces and their specification-side reading -/

theorem pqDrawVT_spec (r w : Nat) : Facts.C13.pqDrawVT r w = ((r &&& 15) + 17) % w := rfl

theorem pqRoundInitT_spec (r w i : Nat) :
    Facts.C13.pqRoundInitT r w i = (w - 1, r % (w - 1) + 1, r % (w - 1) + 1, 2 ^ (i + 18), 1, true) := rfl

theorem pqInnerInitT_spec (x v : Nat) : Facts.C13.pqInnerInitT x v = (x, x, v) := rfl

theorem pqMulStepT_spec (a b c w : Nat) :
    Facts.C13.pqMulStepT a b c w =
      (b % 2, if b % 2 = 1 then addMod w a c else c, addMod w a a, b / 2) := by
  unfold Facts.C13.pqMulStepT addMod
  have h1 : b &&& 1 = b % 2 := Nat.and_one_is_mod b
  have h2 : b >>> 1 = b / 2 := by rw [Nat.shiftRight_eq_div_pow]
  have h3 : (0 < b % 2) ↔ (b % 2 = 1) := by omega
  simp only [h1, h2, gt_iff_lt, ge_iff_le, decide_eq_true_eq, h3]

theorem pqInnerTailT_spec (c y w j : Nat) (flag : Bool) :
    Facts.C13.pqInnerTailT c y w j flag =
      (c, subMod w c y, Nat.gcd (subMod w c y) w, if j &&& (j - 1) = 0 then c else y, j + 1,
        if Nat.gcd (subMod w c y) w ≠ 1 then false else flag) := by
  unfold Facts.C13.pqInnerTailT subMod
  simp only [decide_eq_true_eq]

theorem pqFinishT_spec (g w : Nat) : Facts.C13.pqFinishT g w = pqFinish w g := by
  unfold Facts.C13.pqFinishT pqFinish
  simp only [gt_iff_lt, decide_eq_true_eq]

theorem pqOuterContT_false_iff (g w : Nat) : (!Facts.C13.pqOuterContT g w) = true ↔ 1 < g ∧ g < w := by
  unfold Facts.C13.pqOuterContT; simp

theorem pqInnerContT_spec (j lim : Nat) (flag : Bool) :
    Facts.C13.pqInnerContT j lim flag = (decide (j < lim) && flag) := rfl

theorem pqMulContT_spec (b : Nat) : Facts.C13.pqMulContT b = decide (0 < b) := rfl

/-! ### the binary multiplication loop -/

theorem addMod_eq (w a c : Nat) (ha : a < w) (hc : c < w) : addMod w a c = (c + a) % w := by
  unfold addMod
  split
  · rename_i h
    have : c + a - w < w := by omega
    rw [← Nat.mod_eq_of_lt this, ← Nat.add_mod_right (c + a - w) w]
    congr 1; omega
  · rename_i h
    exact (Nat.mod_eq_of_lt (by omega)).symm

theorem addMod_lt (w a c : Nat) (ha : a < w) (hc : c < w) : addMod w a c < w := by
  rw [addMod_eq w a c ha hc]; exact Nat.mod_lt _ (by omega)

/-- The translated binary multiplication loop computes `(c + a·b) mod what` (enough fuel: `b < 2^fuel`). -/
theorem mulLoop_eq (w fuel a b c : Nat) (ha : a < w) (hc : c < w) (hb : b < 2 ^ fuel) :
    mulLoop w fuel a b c = (c + a * b) % w := by
  induction fuel generalizing a b c with
  | zero =>
    have : b = 0 := by simpa using hb
    subst this
    simp [mulLoop, Nat.mod_eq_of_lt hc]
  | succ n ih =>
    rw [mulLoop, pqMulContT_spec, pqMulStepT_spec]
    by_cases hb0 : b = 0
    · subst hb0; simp [Nat.mod_eq_of_lt hc]
    have hpos : decide (0 < b) = true := by simpa using Nat.pos_of_ne_zero hb0
    rw [hpos, if_pos rfl]
    dsimp only
    have ha' := addMod_lt w a a ha ha
    have hc' : (if b % 2 = 1 then addMod w a c else c) < w := by
      split
      · exact addMod_lt w a c ha hc
      · exact hc
    have hb' : b / 2 < 2 ^ n := by
      rw [Nat.pow_succ] at hb; omega
    rw [ih _ _ _ ha' hc' hb', addMod_eq w a a ha ha]
    have hb2 : b = 2 * (b / 2) + b % 2 := by omega
    split
    · rename_i h1
      rw [addMod_eq w a c ha hc]
      conv => rhs; rw [hb2, h1]
      rw [Nat.add_mod, Nat.mod_mod, Nat.mul_mod ((a + a) % w), Nat.mod_mod, ← Nat.mul_mod, ← Nat.add_mod]
      congr 1
      rw [Nat.mul_add, Nat.mul_one, ← Nat.mul_assoc, Nat.mul_two]
      omega
    · rename_i h1
      have h0 : b % 2 = 0 := by omega
      conv => rhs; rw [hb2, h0]
      rw [Nat.add_mod, Nat.mul_mod ((a + a) % w), Nat.mod_mod, ← Nat.mul_mod, ← Nat.add_mod]
      congr 1
      rw [Nat.add_zero, ← Nat.mul_assoc, Nat.mul_two]

theorem mulAddLoop_eq (w a b c : Nat) (ha : a < w) (hc : c < w) :
    mulAddLoop w a b c = (c + a * b) % w :=
  mulLoop_eq w (b + 1) a b c ha hc (Nat.lt_of_lt_of_le (Nat.lt_two_pow_self) (Nat.pow_le_pow_right (by decide) (Nat.le_succ b)))

/-! ### soundness of the loops -/

theorem rhoInner_inv (what v : Nat) (fuel j lim : Nat) (flag : Bool) (x y g : Nat) :
    rhoInner what v fuel j lim flag x y g = g ∨ rhoInner what v fuel j lim flag x y g ∣ what := by
  induction fuel generalizing j flag x y g with
  | zero => left; rfl
  | succ n ih =>
    rw [rhoInner]
    split
    · dsimp only
      rw [pqInnerTailT_spec]
      dsimp only
      generalize mulAddLoop what _ _ _ = C
      rcases ih (j + 1) (if Nat.gcd (subMod what C y) what ≠ 1 then false else flag) C
        (if j &&& (j - 1) = 0 then C else y) (Nat.gcd (subMod what C y) what) with h | h
      · right; rw [h]; exact Nat.gcd_dvd_right _ _
      · right; exact h
    · left; rfl

/-- The fuel of the inner loop never cuts the Go loop short: once `lim ≤ j + fuel`, more fuel changes
nothing (the loop stops by its own condition `j < lim && flag`; `j` grows by one per iteration). -/
theorem rhoInner_fuel (what v : Nat) (fuel k j lim : Nat) (flag : Bool) (x y g : Nat) (h : lim ≤ j + fuel) :
    rhoInner what v (fuel + k) j lim flag x y g = rhoInner what v fuel j lim flag x y g := by
  induction fuel generalizing j flag x y g with
  | zero =>
    have hc : Facts.C13.pqInnerContT j lim flag = false := by
      rw [pqInnerContT_spec]
      have : ¬ j < lim := by omega
      simp [this]
    cases k with
    | zero => rfl
    | succ k => simp [rhoInner, hc]
  | succ n ih =>
    rw [show n + 1 + k = (n + k) + 1 by omega, rhoInner, rhoInner]
    split
    · dsimp only
      rw [pqInnerTailT_spec]
      dsimp only
      exact ih _ _ _ _ _ (by omega)
    · rfl

theorem pqFinish_sound (what g : Nat) (h1 : 1 < g) (h2 : g < what) (hd : g ∣ what) :
    (pqFinish what g).1 * (pqFinish what g).2 = what ∧ 1 < (pqFinish what g).1 ∧
      (pqFinish what g).1 ≤ (pqFinish what g).2 := by
  obtain ⟨k, hk⟩ := hd
  have hg : 0 < g := by omega
  have hq : what / g = k := by rw [hk]; exact Nat.mul_div_cancel_left k hg
  have hk1 : 1 < k := by
    rcases Nat.lt_or_ge 1 k with h | h
    · exact h
    · exfalso
      have : g * k ≤ g * 1 := Nat.mul_le_mul_left g h
      omega
  unfold pqFinish
  simp only [hq]
  split
  · refine ⟨?_, hk1, by omega⟩
    rw [hk]; exact Nat.mul_comm k g
  · refine ⟨?_, h1, by omega⟩
    rw [hk]

theorem pqLoop_sound (what : Nat) (tape : List Nat) (i g : Nat) (p q k : Nat)
    (hg : g ≤ 1 ∨ g ∣ what) (h : pqLoop what tape i g = .ok (p, q, k)) :
    p * q = what ∧ 1 < p ∧ p ≤ q := by
  fun_induction pqLoop what tape i g with
  | case1 tape i g hc =>
    have hc' := (pqOuterContT_false_iff g what).mp hc
    have hd : g ∣ what := by
      rcases hg with hg | hg
      · omega
      · exact hg
    have := pqFinish_sound what g hc'.1 hc'.2 hd
    rw [pqFinishT_spec] at h
    injection h with h
    injection h with h1 h2
    injection h2 with h2 h3
    rw [h1, h2] at this
    exact this
  | case2 => cases h
  | case3 => cases h
  | case4 => cases h
  | case5 => cases h
  | case6 i g hc r1 r2 rest hw v ri lim ih =>
    apply ih _ h
    rcases rhoInner_inv what v lim ri.2.2.2.2.1 lim ri.2.2.2.2.2 ri.2.1 ri.2.2.1 g with e | e
    · rw [e]; exact hg
    · right; exact e

end TdModel.C13

namespace TdModel.C13

/-! ## CheckGP -/

theorem checkSubgroup_iff (p : Int) (hp : 0 ≤ p) (d : Nat) (es : List Nat) :
    checkSubgroup p d es = true ↔ ∃ e ∈ es, p % (d : Int) = (e : Int) := by
  unfold checkSubgroup
  simp only [List.any_eq_true, beq_iff_eq, Int.tmod_eq_emod_of_nonneg hp]

/-- `checkGP` spelled out with the specification's table (for non-negative `p`). -/
def gpSpec (g p : Int) : Prop :=
  (g = 2 ∧ p % 8 = 7) ∨ (g = 3 ∧ p % 3 = 2) ∨ g = 4 ∨ (g = 5 ∧ (p % 5 = 1 ∨ p % 5 = 4)) ∨
  (g = 6 ∧ (p % 24 = 19 ∨ p % 24 = 23)) ∨ (g = 7 ∧ (p % 7 = 3 ∨ p % 7 = 5 ∨ p % 7 = 6))

theorem checkGPWith_spec_iff (g p : Int) (hp : 0 ≤ p) :
    checkGPWith [(2, some (8, [7])), (3, some (3, [2])), (4, none), (5, some (5, [1, 4])),
      (6, some (24, [19, 23])), (7, some (7, [3, 5, 6]))] g p = .ok ↔ gpSpec g p := by
  unfold checkGPWith gpSpec
  by_cases h2 : g = 2
  · subst h2; simp [List.find?, checkSubgroup_iff p hp]
  by_cases h3 : g = 3
  · subst h3; simp [List.find?, checkSubgroup_iff p hp]
  by_cases h4 : g = 4
  · subst h4; simp [List.find?]
  by_cases h5 : g = 5
  · subst h5; simp [List.find?, checkSubgroup_iff p hp]; omega
  by_cases h6 : g = 6
  · subst h6; simp [List.find?, checkSubgroup_iff p hp]; omega
  by_cases h7 : g = 7
  · subst h7; simp [List.find?, checkSubgroup_iff p hp]; omega
  have e2 : ((2 : Int) == g) = false := by simp; omega
  have e3 : ((3 : Int) == g) = false := by simp; omega
  have e4 : ((4 : Int) == g) = false := by simp; omega
  have e5 : ((5 : Int) == g) = false := by simp; omega
  have e6 : ((6 : Int) == g) = false := by simp; omega
  have e7 : ((7 : Int) == g) = false := by simp; omega
  simp [List.find?, e2, e3, e4, e5, e6, e7, h2, h3, h4, h5, h6, h7]

theorem checkGPWith_badG_iff (g p : Int) :
    checkGPWith [(2, some (8, [7])), (3, some (3, [2])), (4, none), (5, some (5, [1, 4])),
      (6, some (24, [19, 23])), (7, some (7, [3, 5, 6]))] g p = .badG ↔ ¬ (2 ≤ g ∧ g ≤ 7) := by
  unfold checkGPWith
  by_cases h2 : g = 2
  · subst h2; simp [List.find?]; split <;> simp
  by_cases h3 : g = 3
  · subst h3; simp [List.find?]; split <;> simp
  by_cases h4 : g = 4
  · subst h4; simp [List.find?]
  by_cases h5 : g = 5
  · subst h5; simp [List.find?]; split <;> simp
  by_cases h6 : g = 6
  · subst h6; simp [List.find?]; split <;> simp
  by_cases h7 : g = 7
  · subst h7; simp [List.find?]; split <;> simp
  have e2 : ((2 : Int) == g) = false := by simp; omega
  have e3 : ((3 : Int) == g) = false := by simp; omega
  have e4 : ((4 : Int) == g) = false := by simp; omega
  have e5 : ((5 : Int) == g) = false := by simp; omega
  have e6 : ((6 : Int) == g) = false := by simp; omega
  have e7 : ((7 : Int) == g) = false := by simp; omega
  simp [List.find?, e2, e3, e4, e5, e6, e7]
  omega

/-! ## CheckDH -/

theorem checkDH_ok_iff (isPrime : Int → Bool) (g p : Int) :
    checkDH isPrime g p = .ok ↔
      bitLen p = Facts.C13.rsaKeyBits ∧ checkGP g p = .ok ∧ isPrime p = true ∧
        isPrime (Int.tdiv (p - 1) 2) = true := by
  unfold checkDH
  by_cases hb : bitLen p = Facts.C13.rsaKeyBits
  · simp only [hb, ne_eq, not_true_eq_false, if_false, true_and]
    cases hg : checkGP g p <;> simp
    cases isPrime p <;> simp
  · simp [hb]

/-! ## CheckDHParams (translated code) -/

theorem not_inRangeT_iff (x lo hi : Int) :
    (!Facts.C13.inRangeT x lo hi) = true ↔ ¬ (lo < x ∧ x < hi) := by
  unfold Facts.C13.inRangeT; simp; omega

theorem checkDHParams_none_iff (p g ga gb : Int) :
    checkDHParams p g ga gb = none ↔
      (1 < g ∧ g < p - 1) ∧ (1 < ga ∧ ga < p - 1) ∧ (1 < gb ∧ gb < p - 1) ∧
      ((2 : Int) ^ 1984 < ga ∧ ga < p - (2 : Int) ^ 1984) ∧ ((2 : Int) ^ 1984 < gb ∧ gb < p - (2 : Int) ^ 1984) := by
  unfold checkDHParams Facts.C13.checkDHParamsT
  have e : ((1984 : Int)).toNat = 1984 := rfl
  rw [e]
  generalize (2 : Int) ^ 1984 = s
  simp only [not_inRangeT_iff]
  by_cases h1 : 1 < g ∧ g < p - 1 <;> simp only [h1, not_true_eq_false, not_false_eq_true, if_true, if_false, true_and, false_and, reduceCtorEq]
  by_cases h2 : 1 < ga ∧ ga < p - 1 <;> simp only [h2, not_true_eq_false, not_false_eq_true, if_true, if_false, true_and, false_and, reduceCtorEq]
  by_cases h3 : 1 < gb ∧ gb < p - 1 <;> simp only [h3, not_true_eq_false, not_false_eq_true, if_true, if_false, true_and, false_and, reduceCtorEq]
  by_cases h4 : s < ga ∧ ga < p - s <;> simp only [h4, not_true_eq_false, not_false_eq_true, if_true, if_false, true_and, false_and, reduceCtorEq]
  by_cases h5 : s < gb ∧ gb < p - s <;> simp [h5]

/-- which check rejects: the result index is that of the first violated condition. -/
theorem checkDHParams_some_lt (p g ga gb : Int) (i : Nat) (h : checkDHParams p g ga gb = some i) : i < 5 := by
  unfold checkDHParams Facts.C13.checkDHParamsT at h
  dsimp only at h
  split at h
  · injection h with h; omega
  split at h
  · injection h with h; omega
  split at h
  · injection h with h; omega
  split at h
  · injection h with h; omega
  split at h
  · injection h with h; omega
  cases h

end TdModel.C13


namespace TdModel.C13

/-! ## The production DH prime (core.telegram.org/mtproto/auth_key; also the 2FA SRP modulus) -/

def productionPrime : Nat :=
  0xC71CAEB9C6B1C9048E6C522F70F13F73980D40238E3E21C14934D037563D930F48198A0AA7C14058229493D22530F4DBFA336F6E0AC925139543AED44CCE7C3720FD51F69458705AC68CD4FE6B6B13ABDC9746512969328454F18FAF8C595F642477FE96BB2A941D5BCD1D4AC8CC49880708FA9B378E3C4F3A9060BEE67CF9A4A4A695811051907E162753B56B0F6B410DBA74D8A84B2A14B3144E0EF1284754FD17ED950D5965B4B9DD46582DB1178D169C6BC465B0D6FF9CA3928FEF5B9AE4E418FC15E83EBEA0F87FA9FF5EED70050DED2849F47BF959D956850CE929851F0D8115F635B105EE2E4E15D04B2454BF6F4FADF034B10403119CD8E3B92FCC5B

set_option exponentiation.threshold 4096 in
theorem productionPrime_bits : 2 ^ 2047 ≤ productionPrime ∧ productionPrime < 2 ^ 2048 := by
  unfold productionPrime; decide

theorem productionPrime_residues :
    productionPrime % 8 = 3 ∧ productionPrime % 3 = 2 ∧ productionPrime % 5 = 3 ∧
    productionPrime % 24 = 11 ∧ productionPrime % 7 = 6 := by
  unfold productionPrime; decide

end TdModel.C13
