/-
C24 / C25 / C26 — what `Cfg.std` says, field by field (used as rewrite rules by the invariant proofs),
and the induction principle for the loop of `NotifyAcks`.
-/
import TdModel.Model.C24
namespace TdModel.Rpc

theorem Cfg.std_all {c : Cfg} (h : c.std = true) :
    c.guard = true ∧ c.guardCtx = false ∧ c.guardClosed = false ∧ c.recheckAck = true ∧ c.recheckCtx = true ∧
    c.waitCtx = true ∧ c.waitClosed = true ∧ c.waitDone = true ∧ c.loopCtx = true ∧ c.loopClosed = true ∧
    c.loopAck = true ∧ c.loopTick = true ∧ c.waitClosedPref = .done ∧ c.loopClosedAck = true ∧
    c.ackUnknown = .cont ∧ c.ackDelete = true ∧ c.dropIfSent = true ∧ c.nopOnCancel = true ∧
    c.deleteOnReturn = true ∧ c.removeAckOnExit = true ∧ c.handlerLogFirst = true := by
  simp only [Cfg.std, Bool.and_eq_true, Bool.not_eq_true', beq_iff_eq] at h
  obtain ⟨⟨⟨⟨⟨⟨⟨⟨⟨⟨⟨⟨⟨⟨⟨⟨⟨⟨⟨⟨h1, h2⟩, h3⟩, h4⟩, h5⟩, h6⟩, h7⟩, h8⟩, h9⟩, h10⟩, h11⟩, h12⟩, h13⟩, h14⟩, h15⟩, h16⟩, h17⟩, h18⟩, h19⟩, h20⟩, h21⟩ := h
  exact ⟨h1, h2, h3, h4, h5, h6, h7, h8, h9, h10, h11, h12, h13, h14, h15, h16, h17, h18, h19, h20, h21⟩

theorem Cfg.std_guard {c : Cfg} (h : c.std = true) : c.guard = true := (Cfg.std_all h).1
theorem Cfg.std_guardCtx {c : Cfg} (h : c.std = true) : c.guardCtx = false := (Cfg.std_all h).2.1
theorem Cfg.std_guardClosed {c : Cfg} (h : c.std = true) : c.guardClosed = false := (Cfg.std_all h).2.2.1
theorem Cfg.std_recheckAck {c : Cfg} (h : c.std = true) : c.recheckAck = true := (Cfg.std_all h).2.2.2.1
theorem Cfg.std_recheckCtx {c : Cfg} (h : c.std = true) : c.recheckCtx = true := (Cfg.std_all h).2.2.2.2.1
theorem Cfg.std_waitCtx {c : Cfg} (h : c.std = true) : c.waitCtx = true := (Cfg.std_all h).2.2.2.2.2.1
theorem Cfg.std_waitClosed {c : Cfg} (h : c.std = true) : c.waitClosed = true := (Cfg.std_all h).2.2.2.2.2.2.1
theorem Cfg.std_waitDone {c : Cfg} (h : c.std = true) : c.waitDone = true := (Cfg.std_all h).2.2.2.2.2.2.2.1
theorem Cfg.std_loopCtx {c : Cfg} (h : c.std = true) : c.loopCtx = true := (Cfg.std_all h).2.2.2.2.2.2.2.2.1
theorem Cfg.std_loopClosed {c : Cfg} (h : c.std = true) : c.loopClosed = true := (Cfg.std_all h).2.2.2.2.2.2.2.2.2.1
theorem Cfg.std_loopAck {c : Cfg} (h : c.std = true) : c.loopAck = true := (Cfg.std_all h).2.2.2.2.2.2.2.2.2.2.1
theorem Cfg.std_loopTick {c : Cfg} (h : c.std = true) : c.loopTick = true := (Cfg.std_all h).2.2.2.2.2.2.2.2.2.2.2.1
theorem Cfg.std_waitClosedPref {c : Cfg} (h : c.std = true) : c.waitClosedPref = .done := (Cfg.std_all h).2.2.2.2.2.2.2.2.2.2.2.2.1
theorem Cfg.std_loopClosedAck {c : Cfg} (h : c.std = true) : c.loopClosedAck = true := (Cfg.std_all h).2.2.2.2.2.2.2.2.2.2.2.2.2.1
theorem Cfg.std_ackUnknown {c : Cfg} (h : c.std = true) : c.ackUnknown = .cont := (Cfg.std_all h).2.2.2.2.2.2.2.2.2.2.2.2.2.2.1
theorem Cfg.std_ackDelete {c : Cfg} (h : c.std = true) : c.ackDelete = true := (Cfg.std_all h).2.2.2.2.2.2.2.2.2.2.2.2.2.2.2.1
theorem Cfg.std_dropIfSent {c : Cfg} (h : c.std = true) : c.dropIfSent = true := (Cfg.std_all h).2.2.2.2.2.2.2.2.2.2.2.2.2.2.2.2.1
theorem Cfg.std_nopOnCancel {c : Cfg} (h : c.std = true) : c.nopOnCancel = true := (Cfg.std_all h).2.2.2.2.2.2.2.2.2.2.2.2.2.2.2.2.2.1
theorem Cfg.std_deleteOnReturn {c : Cfg} (h : c.std = true) : c.deleteOnReturn = true := (Cfg.std_all h).2.2.2.2.2.2.2.2.2.2.2.2.2.2.2.2.2.2.1
theorem Cfg.std_removeAckOnExit {c : Cfg} (h : c.std = true) : c.removeAckOnExit = true := (Cfg.std_all h).2.2.2.2.2.2.2.2.2.2.2.2.2.2.2.2.2.2.2.1
theorem Cfg.std_handlerLogFirst {c : Cfg} (h : c.std = true) : c.handlerLogFirst = true := (Cfg.std_all h).2.2.2.2.2.2.2.2.2.2.2.2.2.2.2.2.2.2.2.2

/-- Rewrite a step hypothesis with what `cfg.std` says (removes the branches of other source shapes). -/
macro "std_norm" hg:term "at" h:ident : tactic =>
  `(tactic| try simp only [Cfg.std_all $hg, Bool.true_and, Bool.false_and, Bool.and_true, Bool.and_false, Bool.or_false,
      Bool.false_or, Bool.true_or, Bool.or_true, Bool.not_true, Bool.not_false, exitAck, if_true, ite_true] at $h:ident)

/-- `std` does not depend on the run-time options. -/
theorem Cfg.ofRaw_std (r : RawFacts) (mr iv : Nat) : (Cfg.ofRaw r mr iv).std = (Cfg.ofRaw r 0 0).std := rfl

theorem Cfg.standard_std (mr iv : Nat) : (Cfg.standard mr iv).std = true := rfl

/-- Induction over the loop of `NotifyAcks`. -/
theorem stepAck_induct {P : State → Prop} (cfg : Cfg) (h1 : ∀ s id, P s → P (ackOne cfg s id).1) :
    ∀ (ids : List Nat) (s : State), P s → P (stepAck cfg s ids) := by
  intro ids
  induction ids with
  | nil => intro s h; exact h
  | cons id ids ih =>
    intro s h
    simp only [stepAck]
    split
    · exact ih _ (h1 s id h)
    · exact h1 s id h

end TdModel.Rpc
