/-
C27 / C28 — every action of the pool model preserves the holder invariant.
-/
import TdModel.Lemmas.C27c

namespace TdModel.C27

/-- Moving caller `i` from `x.pc` to `p` on top of an update `t` of `s` that keeps limit, total and
dead flags; `dr c` accounts for a dropped reference, allowed only for dead connections. -/
theorem hinv_move {m : Nat} {s t : State} (hI : HInv m s) (i : Nat) (x : Caller) (p : PC)
    (hx : t.callers[i]? = some x)
    (hmax : t.max = s.max) (htot : t.total = s.total)
    (hconns : t.conns.map (·.dead) = s.conns.map (·.dead))
    (hrt : nReserved t = nReserved s) (hxr : x.pc ≠ .reserved) (hpr : p ≠ .reserved)
    (hcl : t.closed = s.closed)
    (dr : Nat → Nat)
    (hdr : s.closed = false → ∀ (c : Nat) (cn : Conn), s.conns[c]? = some cn → cn.dead = false → dr c = 0)
    (hh : ∀ c, holders t c + (if heldBy p = some c then 1 else 0) + dr c
      = holders s c + (if heldBy x.pc = some c then 1 else 0)) :
    HInv m (setPc t i x p) := by
  have hres : nReserved (setPc t i x p) = nReserved s := by
    have := nReserved_setPc t i x p hx
    simp [hxr, hpr] at this
    omega
  apply hinv_of_le (s' := setPc t i x p) hI hmax htot hconns hres hcl
  · intro c
    have e := holders_setPc t i x p hx c
    have := hh c
    omega
  · intro hc c cn hcn hd
    have e := holders_setPc t i x p hx c
    have := hh c
    have := hdr hc c cn hcn hd
    omega

theorem held_none_start (c : Nat) : (if heldBy PC.start = some c then 1 else 0) = (0 : Nat) := by simp [heldBy]
theorem held_none_done (c : Nat) : (if heldBy PC.done = some c then 1 else 0) = (0 : Nat) := by simp [heldBy]
theorem held_none_idle (c : Nat) : (if heldBy PC.idle = some c then 1 else 0) = (0 : Nat) := by simp [heldBy]
theorem held_none_waiting (k g c : Nat) : (if heldBy (PC.waiting k g) = some c then 1 else 0) = (0 : Nat) := by
  simp [heldBy]
theorem held_none_giveup (k : Nat) (w : Why) (c : Nat) : (if heldBy (PC.giveup k w) = some c then 1 else 0) = (0 : Nat) := by
  simp [heldBy]
theorem held_using (d c : Nat) : (if heldBy (PC.using d) = some c then 1 else 0) = (if d = c then 1 else 0 : Nat) := by
  simp [heldBy]
theorem held_check (d c : Nat) : (if heldBy (PC.check d) = some c then 1 else 0) = (if d = c then 1 else 0 : Nat) := by
  simp [heldBy]
theorem held_creating (d c : Nat) : (if heldBy (PC.creating d) = some c then 1 else 0) = (if d = c then 1 else 0 : Nat) := by
  simp [heldBy]

theorem isDead_true {s : State} {d : Nat} (h : isDead s d = true) (cn : Conn) (hcn : s.conns[d]? = some cn) :
    cn.dead = true := by
  unfold isDead at h; rw [hcn] at h; exact h

/-- A hand-out path: with the `Dead()` check, a dead connection is dropped and the caller retries. -/
theorem hinv_handOut {m : Nat} {cfg : Cfg} (hg : cfg.handoutChecksDead = true) {s t : State}
    (hI : HInv m s) (i : Nat) (x : Caller) (d : Nat) (hx : t.callers[i]? = some x)
    (hmax : t.max = s.max) (htot : t.total = s.total) (hconns : t.conns = s.conns)
    (hrt : nReserved t = nReserved s) (hxr : x.pc ≠ .reserved) (hcl : t.closed = s.closed)
    (hh : ∀ c, holders t c + (if d = c then 1 else 0)
      = holders s c + (if heldBy x.pc = some c then 1 else 0)) :
    HInv m (handOut cfg t i x d) := by
  unfold handOut
  by_cases hd : isDead t d = true
  · simp only [hg, hd, and_self, if_true]
    apply hinv_move hI i x .start hx hmax htot (by rw [hconns]) hrt hxr (by simp) hcl (fun c => if d = c then 1 else 0)
    · intro _ c cn hcn hdd
      by_cases hdc : d = c
      · subst hdc
        have := isDead_true hd cn (by rw [hconns]; exact hcn)
        rw [this] at hdd; cases hdd
      · simp [hdc]
    · intro c
      have := hh c
      simp only [held_none_start]
      omega
  · have hd' : isDead t d = false := by simpa using hd
    simp only [hd', Bool.false_eq_true, and_false, if_false]
    apply hinv_move hI i x (.using d) hx hmax htot (by rw [hconns]) hrt hxr (by simp) hcl (fun _ => 0)
    · intro _ _ _ _ _; rfl
    · intro c
      have := hh c
      simp only [held_using]
      omega

theorem map_dead_set {l : List Conn} {d : Nat} {cn cn' : Conn} (h : l[d]? = some cn) (hd : cn'.dead = cn.dead) :
    (l.set d cn').map (·.dead) = l.map (·.dead) := by
  apply List.ext_getElem?
  intro j
  simp only [List.getElem?_map, List.getElem?_set]
  by_cases hj : d = j
  · subst hj
    have hlt := lt_of_getElem? h
    rw [h]
    simp [hlt, hd]
  · simp [hj]

theorem one_le_nCallers {s : State} {i : Nat} {x : Caller} {d : Nat} (hx : s.callers[i]? = some x)
    (hp : heldBy x.pc = some d) : 1 ≤ nCallers s d := by
  unfold nCallers
  apply List.countP_pos_iff.2
  exact ⟨x, List.mem_of_getElem? hx, by simp [hp]⟩

end TdModel.C27
