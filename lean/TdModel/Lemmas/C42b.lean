/-
C42 — the driver's executable `terminalB` coincides with the `Terminal` predicate of the theorems.
-/
import TdModel.Lemmas.C42

namespace TdModel.C42

theorem step_none_of_oob (c : Cfg) (s : State) (i : Nat) (h : s.ds.length ≤ i) :
    step c s (.dialOk i) = none ∧ step c s (.dialFail i) = none ∧ step c s (.dialHsFail i) = none ∧
    step c s (.deliver i) = none ∧ step c s (.abandon i) = none := by
  have hn : s.ds[i]? = none := List.getElem?_eq_none h
  simp [step, finishDial, hn]

theorem mem_allActions (n i : Nat) (h : i < n) :
    Action.dialOk i ∈ allActions n ∧ Action.dialFail i ∈ allActions n ∧ Action.dialHsFail i ∈ allActions n ∧
    Action.deliver i ∈ allActions n ∧ Action.abandon i ∈ allActions n := by
  have hm : i ∈ List.range n := List.mem_range.2 h
  unfold allActions
  refine ⟨?_, ?_, ?_, ?_, ?_⟩ <;>
    exact List.mem_append_left _ (List.mem_flatMap.2 ⟨i, hm, by simp⟩)

theorem terminalB_iff (c : Cfg) (s : State) : terminalB c s = true ↔ Terminal c s := by
  unfold terminalB Terminal
  rw [List.all_eq_true]
  constructor
  · intro h a ha
    have key : ∀ b, b ∈ allActions s.ds.length → step c s b = none := by
      intro b hb
      have := h b hb
      cases hs : step c s b with
      | none => rfl
      | some _ => rw [hs] at this; simp at this
    cases a with
    | callerCancel => exact absurd rfl ha
    | collCancel => exact key _ (by unfold allActions; simp)
    | dialOk i =>
      rcases Nat.lt_or_ge i s.ds.length with hi | hi
      · exact key _ (mem_allActions _ i hi).1
      · exact (step_none_of_oob c s i hi).1
    | dialFail i =>
      rcases Nat.lt_or_ge i s.ds.length with hi | hi
      · exact key _ (mem_allActions _ i hi).2.1
      · exact (step_none_of_oob c s i hi).2.1
    | dialHsFail i =>
      rcases Nat.lt_or_ge i s.ds.length with hi | hi
      · exact key _ (mem_allActions _ i hi).2.2.1
      · exact (step_none_of_oob c s i hi).2.2.1
    | deliver i =>
      rcases Nat.lt_or_ge i s.ds.length with hi | hi
      · exact key _ (mem_allActions _ i hi).2.2.2.1
      · exact (step_none_of_oob c s i hi).2.2.2.1
    | abandon i =>
      rcases Nat.lt_or_ge i s.ds.length with hi | hi
      · exact key _ (mem_allActions _ i hi).2.2.2.2
      · exact (step_none_of_oob c s i hi).2.2.2.2
  · intro h b hb
    have hne : b ≠ Action.callerCancel := by
      intro e; subst e
      unfold allActions at hb
      simp at hb
    rw [h b hne]; rfl

end TdModel.C42
