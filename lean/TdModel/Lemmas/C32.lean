import TdModel.Model.C32

namespace TdModel.C32
open TdModel

/-! ### the read loop -/

theorem chunksF_nonempty_src (ps f : Nat) (src : Bytes) (h : chunksF ps f src ≠ []) : src ≠ [] := by
  cases f with
  | zero => simp [chunksF] at h
  | succ f =>
    intro hs
    simp [chunksF, hs] at h

theorem chunksF_flatten (ps : Nat) (hps : 0 < ps) : ∀ (f : Nat) (src : Bytes), src.length ≤ f →
    (chunksF ps f src).flatten = src := by
  intro f
  induction f with
  | zero =>
    intro src h
    have h0 : src.length = 0 := by omega
    have := List.length_eq_zero_iff.mp h0
    subst this
    simp [chunksF]
  | succ f ih =>
    intro src h
    simp only [chunksF]
    by_cases he : src.isEmpty
    · simp [he, List.isEmpty_iff.mp he]
    · simp only [he, Bool.false_eq_true, if_false, List.flatten_cons]
      have hne : src ≠ [] := by simpa [List.isEmpty_iff] using he
      have hlen : 0 < src.length := List.length_pos_iff.mpr hne
      rw [ih (src.drop ps) (by simp only [List.length_drop]; omega)]
      exact List.take_append_drop ps src

theorem chunksF_full (ps : Nat) : ∀ (f : Nat) (src : Bytes) (pre : List Bytes) (c : Bytes) (post : List Bytes),
    chunksF ps f src = pre ++ c :: post → post ≠ [] → c.length = ps := by
  intro f
  induction f with
  | zero => intro src pre c post h; simp [chunksF] at h
  | succ f ih =>
    intro src pre c post h hpost
    simp only [chunksF] at h
    by_cases he : src.isEmpty
    · simp [he] at h
    · simp only [he, Bool.false_eq_true, if_false] at h
      cases pre with
      | nil =>
        simp only [List.nil_append, List.cons.injEq] at h
        have hne := chunksF_nonempty_src ps f (src.drop ps) (by rw [h.2]; exact hpost)
        have : ps < src.length := by
          have := List.length_pos_iff.mpr hne
          simp only [List.length_drop] at this
          omega
        rw [← h.1, List.length_take]
        omega
      | cons x pre' =>
        simp only [List.cons_append, List.cons.injEq] at h
        exact ih _ pre' c post h.2 hpost

theorem chunksF_bounds (ps : Nat) (hps : 0 < ps) : ∀ (f : Nat) (src : Bytes), ∀ c ∈ chunksF ps f src,
    0 < c.length ∧ c.length ≤ ps := by
  intro f
  induction f with
  | zero => intro src c h; simp [chunksF] at h
  | succ f ih =>
    intro src c h
    simp only [chunksF] at h
    by_cases he : src.isEmpty
    · simp [he] at h
    · simp only [he, Bool.false_eq_true, if_false, List.mem_cons] at h
      rcases h with h | h
      · have hne : src ≠ [] := by simpa [List.isEmpty_iff] using he
        have := List.length_pos_iff.mpr hne
        rw [h, List.length_take]
        omega
      · exact ih _ c h

/-- Number of parts, on naturals. -/
def partsN (ps n : Nat) : Nat := if n % ps = 0 then n / ps else n / ps + 1

theorem partsN_step (ps n : Nat) (hps : 0 < ps) (hn : 0 < n) : partsN ps n = partsN ps (n - ps) + 1 := by
  unfold partsN
  by_cases h : ps ≤ n
  · rw [Nat.mod_eq_sub_mod h, Nat.div_eq_sub_div hps h]
    split <;> rfl
  · have hlt : n < ps := by omega
    have h0 : n - ps = 0 := by omega
    rw [h0, Nat.mod_eq_of_lt hlt, Nat.div_eq_of_lt hlt]
    have : n ≠ 0 := by omega
    simp [this]

theorem chunksF_length (ps : Nat) (hps : 0 < ps) : ∀ (f : Nat) (src : Bytes), src.length ≤ f →
    (chunksF ps f src).length = partsN ps src.length := by
  intro f
  induction f with
  | zero =>
    intro src h
    have : src.length = 0 := by omega
    simp [chunksF, partsN, this]
  | succ f ih =>
    intro src h
    simp only [chunksF]
    by_cases he : src.isEmpty
    · simp [he, List.isEmpty_iff.mp he, partsN]
    · simp only [he, Bool.false_eq_true, if_false, List.length_cons]
      have hne : src ≠ [] := by simpa [List.isEmpty_iff] using he
      have hlen : 0 < src.length := List.length_pos_iff.mpr hne
      rw [ih (src.drop ps) (by simp only [List.length_drop]; omega), List.length_drop,
        partsN_step ps src.length hps hlen]

/-- The translated `computeParts` agrees with the count on naturals. -/
theorem computeParts_nat (ps n : Nat) (hps : 0 < ps) :
    Facts.C32.computeParts (ps : Int) (n : Int) = (partsN ps n : Nat) := by
  unfold Facts.C32.computeParts partsN
  by_cases hn : n = 0
  · subst hn; simp
  · have hpos : ¬ ((n : Int) ≤ 0) := by omega
    simp only [hpos, decide_false, Bool.false_eq_true, if_false]
    rw [Int.tdiv_eq_ediv_of_nonneg (by omega), Int.tmod_eq_emod_of_nonneg (by omega)]
    rw [← Int.natCast_ediv, ← Int.natCast_emod]
    by_cases hm : n % ps = 0
    · simp [hm]
    · have hc : ((n % ps : Nat) : Int) = (n : Int) % (ps : Int) := Int.natCast_emod n ps
      have : ¬ ((n : Int) % (ps : Int) = 0) := by rw [← hc]; omega
      simp [hm, this]

/-! ### translated part-size arithmetic -/

/-! `computeParts` for the three automatic part sizes, as ceiling divisions (`omega` understands
literal divisors). -/

theorem computeParts_131072 (total : Int) (ht : 0 ≤ total) :
    Facts.C32.computeParts 131072 total = (total + 131071) / 131072 := by
  simp only [Facts.C32.computeParts, Int.tdiv_eq_ediv_of_nonneg ht, Int.tmod_eq_emod_of_nonneg ht]
  split
  · rename_i h; simp only [decide_eq_true_eq] at h; omega
  · split
    · rename_i h; simp only [ne_eq, decide_not, Bool.not_eq_eq_eq_not, Bool.not_true, decide_eq_false_iff_not] at h; omega
    · rename_i h; simp only [ne_eq, decide_not, Bool.not_eq_eq_eq_not, Bool.not_true, decide_eq_false_iff_not, Decidable.not_not] at h; omega

theorem computeParts_262144 (total : Int) (ht : 0 ≤ total) :
    Facts.C32.computeParts 262144 total = (total + 262143) / 262144 := by
  simp only [Facts.C32.computeParts, Int.tdiv_eq_ediv_of_nonneg ht, Int.tmod_eq_emod_of_nonneg ht]
  split
  · rename_i h; simp only [decide_eq_true_eq] at h; omega
  · split
    · rename_i h; simp only [ne_eq, decide_not, Bool.not_eq_eq_eq_not, Bool.not_true, decide_eq_false_iff_not] at h; omega
    · rename_i h; simp only [ne_eq, decide_not, Bool.not_eq_eq_eq_not, Bool.not_true, decide_eq_false_iff_not, Decidable.not_not] at h; omega

theorem computeParts_524288 (total : Int) (ht : 0 ≤ total) :
    Facts.C32.computeParts 524288 total = (total + 524287) / 524288 := by
  simp only [Facts.C32.computeParts, Int.tdiv_eq_ediv_of_nonneg ht, Int.tmod_eq_emod_of_nonneg ht]
  split
  · rename_i h; simp only [decide_eq_true_eq] at h; omega
  · split
    · rename_i h; simp only [ne_eq, decide_not, Bool.not_eq_eq_eq_not, Bool.not_true, decide_eq_false_iff_not] at h; omega
    · rename_i h; simp only [ne_eq, decide_not, Bool.not_eq_eq_eq_not, Bool.not_true, decide_eq_false_iff_not, Decidable.not_not] at h; omega

theorem loop1_spec (fuel : Nat) (total : Int) :
    Facts.C32.computePartSize.loop1 (fuel + 3) 131072 total =
      if Facts.C32.computeParts 131072 total ≤ 3999 then 131072
      else if Facts.C32.computeParts 262144 total ≤ 3999 then 262144 else 524288 := by
  rw [Facts.C32.computePartSize.loop1]
  by_cases h1 : Facts.C32.computeParts 131072 total ≤ 3999
  · have : ¬ (Facts.C32.computeParts 131072 total > 3999) := by omega
    simp [h1, this]
  · have h1' : Facts.C32.computeParts 131072 total > 3999 := by omega
    simp only [h1, if_false]
    simp only [show (131072 : Int) < 524288 by decide, decide_true, h1', Bool.and_self, if_true]
    rw [show (131072 : Int) * 2 = 262144 by decide, Facts.C32.computePartSize.loop1]
    by_cases h2 : Facts.C32.computeParts 262144 total ≤ 3999
    · have : ¬ (Facts.C32.computeParts 262144 total > 3999) := by omega
      simp [h2, this]
    · have h2' : Facts.C32.computeParts 262144 total > 3999 := by omega
      simp only [h2, if_false]
      simp only [show (262144 : Int) < 524288 by decide, decide_true, h2', Bool.and_self, if_true]
      rw [show (262144 : Int) * 2 = 524288 by decide, Facts.C32.computePartSize.loop1]
      simp

theorem computePartSize_spec (total : Int) :
    Facts.C32.computePartSize total =
      if Facts.C32.computeParts 131072 total ≤ 3999 then 131072
      else if Facts.C32.computeParts 262144 total ≤ 3999 then 262144 else 524288 := by
  unfold Facts.C32.computePartSize
  have : Facts.C32.LoopFuel = 125 + 3 := by decide
  simp only [this]
  exact loop1_spec 125 total

theorem computePartSize_cases (total : Int) :
    Facts.C32.computePartSize total = 131072 ∨ Facts.C32.computePartSize total = 262144 ∨
    Facts.C32.computePartSize total = 524288 := by
  rw [computePartSize_spec]
  split
  · exact Or.inl rfl
  · split
    · exact Or.inr (Or.inl rfl)
    · exact Or.inr (Or.inr rfl)

theorem autosize_parts (total : Int) (h0 : 0 ≤ total) (hmax : total ≤ 3999 * 524288) :
    Facts.C32.computeParts (Facts.C32.computePartSize total) total ≤ 3999 := by
  rw [computePartSize_spec]
  split
  · assumption
  · split
    · assumption
    · rw [computeParts_524288 total h0]; omega

/-! ### the retry loops -/

theorem attempts_pos (l : List Resp) : 0 < (attempts l).1 := by
  induction l with
  | nil => simp [attempts]
  | cons r l ih => cases r <;> simp [attempts]

theorem attempts_saved (l : List Resp) (h : Resp.err ∉ l) : (attempts l).2 = true := by
  induction l with
  | nil => simp [attempts]
  | cons r l ih =>
    cases r with
    | ok => simp [attempts]
    | err => simp at h
    | no => simp only [attempts]; exact ih (by intro hm; exact h (List.mem_cons_of_mem _ hm))
    | flood => simp only [attempts]; exact ih (by intro hm; exact h (List.mem_cons_of_mem _ hm))

theorem smallReqs_ok {α} (script : Nat → List Resp) (hs : ∀ i, (attempts (script i)).2 = true) :
    ∀ (parts : List α) (i : Nat),
      (smallReqs script i parts).map (·.payload) = parts ∧
      (∀ q ∈ smallReqs script i parts, q.saved = true ∧ q.big = false) ∧
      (smallReqs script i parts).map (·.part) =
        (List.range' i parts.length).map (fun (k : Nat) => Int.tmod (k : Int) (Facts.C32.partsLimit : Int)) := by
  intro parts
  induction parts with
  | nil => intro i; simp [smallReqs]
  | cons p rest ih =>
    intro i
    have := ih (i + 1)
    simp only [smallReqs, hs i, Facts.C32.smallPartIsModLimit, if_true, List.map_cons, List.length_cons, List.range'_succ]
    refine ⟨by rw [this.1], ?_, by rw [this.2.2]⟩
    intro q hq
    rcases List.mem_cons.mp hq with h | h
    · subst h; exact ⟨rfl, rfl⟩
    · exact this.2.1 q h

theorem bigReqs_spec {α} (script : Nat → List Resp) (tp : Int) (n : Nat) (ls : Bool) :
    ∀ (parts : List α) (i : Nat),
      (bigReqs script tp n ls i parts).map (·.payload) = parts ∧
      (bigReqs script tp n ls i parts).map (·.part) = (List.range' i parts.length).map (fun (k : Nat) => (k : Int)) ∧
      (∀ q ∈ bigReqs script tp n ls i parts, q.big = true ∧ q.saved = (attempts (script q.part.toNat)).2 ∧
        (tp ≠ -1 → q.total = tp ∧ q.orUnknown = false) ∧
        (tp = -1 → ls = false → q.total = -1 ∧ q.orUnknown = false) ∧
        (tp = -1 → ls = true → q.total = n)) := by
  intro parts
  induction parts with
  | nil => intro i; simp [bigReqs]
  | cons p rest ih =>
    intro i
    have := ih (i + 1)
    simp only [bigReqs, Facts.C32.bigPartIsCounter, if_true, List.map_cons, List.length_cons, List.range'_succ]
    refine ⟨by rw [this.1], by rw [this.2.1], ?_⟩
    intro q hq
    rcases List.mem_cons.mp hq with h | h
    · subst h
      refine ⟨rfl, by simp, ?_, ?_, ?_⟩
      · intro h; simp [h]
      · intro h hl; simp [h, hl]
      · intro h hl; simp [h, hl]
    · exact this.2.2 q h

/-! ### `Upload` up to the loops -/

theorem checkPartSize_false (e : Int) (h : Facts.C32.checkPartSize e = false) :
    e ≠ 0 ∧ Int.tmod e 1024 = 0 ∧ Int.tmod 524288 e = 0 := by
  unfold Facts.C32.checkPartSize at h
  split at h
  · simp at h
  · split at h
    · simp at h
    · split at h
      · simp at h
      · rename_i h1 h2 h3
        simp only [decide_eq_true_eq, ne_eq, Decidable.not_not] at h1 h2 h3
        exact ⟨h1, h2, h3⟩

theorem effPartSize_nonneg (c : Cfg) : 0 ≤ effPartSize c := by
  unfold effPartSize
  split
  · omega
  · split
    · rcases computePartSize_cases c.declared with h | h | h <;> omega
    · simp [Facts.C32.defaultPartSize]

/-- What a successful `prepare` fixes. -/
theorem prepare_ok (c : Cfg) (ps : Nat) (big : Bool) (tp : Int) (h : prepare c = .ok (ps, big, tp)) :
    (ps : Int) = effPartSize c ∧ 0 < ps ∧ ps % 1024 = 0 ∧ 524288 % ps = 0 ∧
    (big = true ↔ (c.declared = -1 ∨ c.declared > 10485760)) ∧
    (c.declared = -1 → tp = -1) ∧
    (c.declared ≠ -1 → tp = Facts.C32.computeParts ps c.declared ∧ (big = false → tp ≤ 3999)) := by
  by_cases hchk : Facts.C32.checkPartSize (effPartSize c) = true
  · rw [prepare, if_pos hchk] at h; cases h
  · have hnn := effPartSize_nonneg c
    have hv := checkPartSize_false _ (by simpa using hchk)
    have hcast : ((effPartSize c).toNat : Int) = effPartSize c := Int.toNat_of_nonneg hnn
    have hmods : (effPartSize c).toNat % 1024 = 0 ∧ 524288 % (effPartSize c).toNat = 0 := by
      have h1 := hv.2.1
      have h2 := hv.2.2
      rw [Int.tmod_eq_emod_of_nonneg hnn] at h1
      rw [Int.tmod_eq_emod_of_nonneg (by decide)] at h2
      rw [← hcast] at h1 h2
      constructor
      · have : (((effPartSize c).toNat % 1024 : Nat) : Int) = 0 := by rw [Int.natCast_emod]; exact h1
        omega
      · have : ((524288 % (effPartSize c).toNat : Nat) : Int) = 0 := by rw [Int.natCast_emod]; exact h2
        omega
    have hpos : 0 < (effPartSize c).toNat := by have := hv.1; omega
    by_cases hlim : c.declared ≤ Facts.C32.bigFileLimit ∧
        Facts.C32.computeParts (effPartSize c) c.declared > Facts.C32.partsLimit
    · rw [prepare, if_neg hchk, if_pos hlim] at h; cases h
    · by_cases hd : c.declared = -1
      · rw [prepare, if_neg hchk, if_neg hlim, if_pos hd] at h
        cases h
        exact ⟨hcast, hpos, hmods.1, hmods.2, by simp [hd], fun _ => rfl, fun hne => absurd hd hne⟩
      · rw [prepare, if_neg hchk, if_neg hlim, if_neg hd] at h
        cases h
        simp only [Facts.C32.bigFileLimit, Facts.C32.partsLimit] at hlim
        have e1 : ((10485760 : Nat) : Int) = 10485760 := rfl
        have e2 : ((3999 : Nat) : Int) = 3999 := rfl
        rw [e1, e2] at hlim
        refine ⟨hcast, hpos, hmods.1, hmods.2, ?_, fun hd' => absurd hd' hd, fun _ => ⟨by rw [hcast], ?_⟩⟩
        · simp only [decide_eq_true_eq, Facts.C32.bigFileLimit, e1]
          constructor
          · intro h; exact Or.inr h
          · intro h; rcases h with h | h
            · exact absurd h hd
            · exact h
        · intro hb
          simp only [decide_eq_false_iff_not, Facts.C32.bigFileLimit, e1] at hb
          by_cases h2 : Facts.C32.computeParts (effPartSize c) c.declared ≤ 3999
          · exact h2
          · exfalso; apply hlim
            exact ⟨by omega, by omega⟩

theorem all_saved {α} (l : List (Req α)) (h : ∀ q ∈ l, q.saved = true) : l.all (·.saved) = true := by
  simp only [List.all_eq_true]; exact h

theorem range'_zero_map_cast (n : Nat) :
    (List.range' 0 n).map (fun (k : Nat) => (k : Int)) = (List.range n).map (fun (k : Nat) => (k : Int)) := by
  rw [List.range_eq_range']

/-- The whole upload when every part is eventually accepted. -/
theorem upload_exact_lemma (md5 : Bytes → Bytes) (c : Cfg) (script : Nat → List Resp) (src : Bytes)
    (ps : Nat) (big : Bool) (tp : Int)
    (hdecl : c.declared = src.length ∨ c.declared = -1)
    (hprep : prepare c = .ok (ps, big, tp))
    (hs : ∀ i, (attempts (script i)).2 = true) :
    let r := upload md5 c script src
    let n := (chunks ps src).length
    r.reqs.map (·.payload) = chunks ps src ∧
    (∀ q ∈ r.reqs, q.saved = true ∧ q.big = big) ∧
    r.reqs.map (·.part) = (List.range n).map (fun (k : Nat) => (k : Int)) ∧
    r.outcome = .file big n (if big then none else some (md5 src)) := by
  have hp := prepare_ok c ps big tp hprep
  obtain ⟨_, hpos, _, _, hbig, htp1, htp2⟩ := hp
  have hdig : ∀ rs, digestInput src rs = src := by intro rs; simp [digestInput, Facts.C32.md5ViaTeeReader]
  simp only [upload, uploadParts, hprep, hdig]
  cases hb : big with
  | true =>
    simp only [if_true]
    have hsp := bigReqs_spec script tp (chunks ps src).length (decide (src.length % ps ≠ 0)) (chunks ps src) 0
    have hsaved : ∀ q ∈ bigReqs script tp (chunks ps src).length (decide (src.length % ps ≠ 0)) 0 (chunks ps src),
        q.saved = true ∧ q.big = true := by
      intro q hq
      have := hsp.2.2 q hq
      exact ⟨by rw [this.2.1]; exact hs _, this.1⟩
    refine ⟨hsp.1, hsaved, by rw [hsp.2.1, range'_zero_map_cast], ?_⟩
    rw [all_saved _ (fun q hq => (hsaved q hq).1)]
    simp
  | false =>
    simp only [Bool.false_eq_true, if_false]
    have hsp := smallReqs_ok script hs (chunks ps src) 0
    -- a small file has a known size and at most 3999 parts
    have hd : c.declared ≠ -1 := by
      intro h
      have := hbig.mpr (Or.inl h)
      rw [hb] at this; cases this
    have hdecl' : c.declared = src.length := by
      rcases hdecl with h | h
      · exact h
      · exact absurd h hd
    have hn : ((chunks ps src).length : Int) ≤ 3999 := by
      have h1 := (htp2 hd).2 hb
      rw [(htp2 hd).1, hdecl', computeParts_nat ps src.length hpos] at h1
      rw [chunks, chunksF_length ps hpos _ _ (Nat.le_refl _)]
      exact h1
    have hparts : (List.range' 0 (chunks ps src).length).map
          (fun (k : Nat) => Int.tmod (k : Int) (Facts.C32.partsLimit : Int)) =
        (List.range (chunks ps src).length).map (fun (k : Nat) => (k : Int)) := by
      rw [List.range_eq_range']
      apply List.map_congr_left
      intro k hk
      have hk' : k < (chunks ps src).length := by
        have := List.mem_range'.mp hk
        omega
      have e2 : ((Facts.C32.partsLimit : Nat) : Int) = 3999 := rfl
      rw [e2, Int.tmod_eq_emod_of_nonneg (by omega)]
      omega
    have hlen : (smallReqs script 0 (chunks ps src)).length = (chunks ps src).length := by
      have := congrArg List.length hsp.1
      simpa using this
    refine ⟨hsp.1, hsp.2.1, by rw [hsp.2.2, hparts], ?_⟩
    rw [all_saved _ (fun q hq => (hsp.2.1 q hq).1), hlen]
    simp

/-! ### the server's view: accepted parts in any order -/

theorem find_perm {α} (l l' : List (Nat × α)) (hp : l.Perm l') (hn : (l.map (·.1)).Nodup) (k : Nat) :
    l.find? (fun e => e.1 == k) = l'.find? (fun e => e.1 == k) := by
  induction hp with
  | nil => rfl
  | cons x _ ih =>
    simp only [List.map_cons, List.nodup_cons] at hn
    simp only [List.find?_cons]
    split
    · rfl
    · exact ih hn.2
  | swap x y l =>
    simp only [List.map_cons, List.nodup_cons, List.mem_cons, not_or] at hn
    simp only [List.find?_cons]
    by_cases hx : x.1 = k
    · by_cases hy : y.1 = k
      · exact absurd (hy.trans hx.symm) hn.1.1
      · have hxb : (x.1 == k) = true := by simp [hx]
        have hyb : (y.1 == k) = false := by simp [hy]
        rw [hxb, hyb]
    · have hxb : (x.1 == k) = false := by simp [hx]
      rw [hxb]
  | trans h1 _ ih1 ih2 =>
    rw [ih1 hn]
    exact ih2 ((h1.map (·.1)).nodup_iff.mp hn)

theorem find_zipIdx (parts : List Bytes) (i : Nat) (hi : i < parts.length) :
    ((parts.zipIdx.map (fun e => (e.2, e.1))).find? (fun e => e.1 == i)).map (·.2) = some parts[i] := by
  suffices h : ∀ (parts : List Bytes) (j i : Nat) (hi : i < parts.length),
      (((parts.zipIdx j).map (fun e => (e.2, e.1))).find? (fun e => e.1 == j + i)).map (·.2) = some parts[i] by
    simpa using h parts 0 i hi
  intro parts
  induction parts with
  | nil => intro j i hi; simp at hi
  | cons p rest ih =>
    intro j i hi
    simp only [List.zipIdx_cons, List.map_cons, List.find?_cons]
    cases i with
    | zero => simp
    | succ i =>
      have hb : (j == j + (i + 1)) = false := by simp
      rw [hb]
      have := ih (j + 1) i (by simpa using hi)
      rw [show j + 1 + i = j + (i + 1) by omega] at this
      simpa using this

theorem flatten_getElem_range (parts : List Bytes) :
    ((List.range parts.length).map (fun i => (parts[i]?).getD [])).flatten = parts.flatten := by
  congr 1
  apply List.ext_getElem
  · simp
  · intro i h1 h2
    simp at h1
    simp [h1]

/-- The accepted parts as the server receives them, in id order. -/
def accepted (parts : List Bytes) : List (Nat × Bytes) := parts.zipIdx.map (fun e => (e.2, e.1))

theorem accepted_keys (parts : List Bytes) : (accepted parts).map (·.1) = List.range' 0 parts.length := by
  unfold accepted
  rw [List.map_map]
  have : ((fun (x : Nat × Bytes) => x.1) ∘ fun (e : Bytes × Nat) => (e.2, e.1)) = Prod.snd := by
    funext e; rfl
  rw [this, List.zipIdx_map_snd]

theorem assemble_perm (parts : List Bytes) (evs : List (Nat × Bytes)) (hp : (accepted parts).Perm evs) :
    assemble (store evs) parts.length = parts.flatten := by
  have hn : ((accepted parts).map (·.1)).Nodup := by rw [accepted_keys]; exact List.nodup_range'
  unfold assemble
  rw [← flatten_getElem_range parts]
  congr 1
  apply List.map_congr_left
  intro i hi
  have hi' : i < parts.length := by simpa using hi
  unfold store
  rw [← find_perm _ _ hp hn i]
  have := find_zipIdx parts i hi'
  unfold accepted
  rw [this]
  simp [hi']

end TdModel.C32
