/-
C14 — helper lemmas (core Lean only): big-endian conversions, the RSA_PAD round trip for one
accepted `temp_key`, the retry loop, the hashed scheme's guessing loop.
-/
import TdModel.Model.C14
import TdModel.Lemmas.Bin
import TdModel.Lemmas.C04Ige

namespace TdModel.C14
open TdModel TdModel.Bin

/-! ## big-endian numbers -/

@[simp] theorem beBytes_length (k n : Nat) : (beBytes k n).length = k := by simp [beBytes]

theorem beNat_beBytes (k n : Nat) (h : n < 256 ^ k) : beNat (beBytes k n) = n := by
  simp [beNat, beBytes, fromLE_leN k n h]

theorem beNat_lt (b : Bytes) : beNat b < 256 ^ b.length := by
  have := fromLE_lt b.reverse
  simpa [beNat] using this

theorem beBytes_beNat (b : Bytes) : beBytes b.length (beNat b) = b := by
  have := leN_fromLE b.reverse
  simp only [List.length_reverse] at this
  simp [beNat, beBytes, this]

/-! ## the random source is read through io.ReadFull only -/

theorem rsaPad_eq_core (P : Prims) (Q : NumPrims) (key : PubKey) (data tape : Bytes) :
    rsaPad P Q key data tape = rsaPadCore P Q key data tape := by
  have h : readsViaReadFull Facts.C14.padRandomReads = true := by decide
  unfold rsaPad; rw [h]; rfl

theorem rsaEncryptHashed_eq_core (P : Prims) (Q : NumPrims) (key : PubKey) (data tape : Bytes) :
    rsaEncryptHashed P Q key data tape = rsaEncryptHashedCore P Q key data tape := by
  have h : readsViaReadFull Facts.C14.hashedRandomReads = true := by decide
  unfold rsaEncryptHashed; rw [h]; rfl

/-! ## sizes -/

theorem tempKeySize_eq : tempKeySize = 32 := rfl
theorem dataWithPaddingLength_eq : dataWithPaddingLength = 192 := rfl
theorem rsaPadDataLimit_eq : rsaPadDataLimit = 144 := rfl
theorem rsaLen_eq : rsaLen = 256 := rfl
theorem rsaWithHashLen_eq : rsaWithHashLen = 255 := rfl
theorem rsaDataLen_eq : rsaDataLen = 235 := rfl
theorem sha1Size_eq : Facts.C14.sha1Size = 20 := rfl

theorem zeroIV_length : zeroIV.length = 32 := by simp [zeroIV]

/-! ## the interpreted operand facts evaluate to the explicit construction -/

/-- With the operands regenerated from the current source, `keyAesEncrypted` is
`temp_key_xor ++ aes_encrypted` of the specification. -/
theorem keyAesEncrypted_unfold (P : Prims) (dwp tk : Bytes) :
    keyAesEncrypted P dwp tk =
      Ige.xorB tk (P.sha256 (Ige.enc (P.aesEnc tk) zeroIV (dwp.reverse ++ P.sha256 (tk ++ dwp)))) ++
        Ige.enc (P.aesEnc tk) zeroIV (dwp.reverse ++ P.sha256 (tk ++ dwp)) := by
  rfl

theorem decodeRsaPad_unfold (P : Prims) (Q : NumPrims) (key : PrivKey) (data : Bytes) :
    decodeRsaPad P Q key data =
      match rsaDecrypt Q key data rsaLen with
      | none => .error .invalid
      | some encryptedData =>
        let tempKeyXor := encryptedData.take 32
        let aesEncrypted := encryptedData.drop 32
        let tempKey := Ige.xorB tempKeyXor (P.sha256 aesEncrypted)
        let dataWithHash := Ige.dec (P.aesDec tempKey) zeroIV aesEncrypted
        let dataWithPadding := (dataWithHash.take 192).reverse
        let hash := dataWithHash.drop 192
        if hash = P.sha256 (tempKey ++ dataWithPadding) then .ok dataWithPadding else .error .mismatch := by
  unfold decodeRsaPad
  cases rsaDecrypt Q key data rsaLen with
  | none => rfl
  | some e =>
    rfl

/-! ## one accepted temp key -/

theorem keyAesEncrypted_length (P : Prims) (hP : LawfulPrims P) (dwp tk : Bytes)
    (hd : dwp.length = 192) (ht : tk.length = 32) : (keyAesEncrypted P dwp tk).length = 256 := by
  rw [keyAesEncrypted_unfold]
  have hdwh : (dwp.reverse ++ P.sha256 (tk ++ dwp)).length = 224 := by
    simp [hP.sha256_len, hd]
  simp only [List.length_append, Ige.xorB_length, ht, hP.sha256_len]
  rw [Ige.enc_length _ (hP.aesEnc_len tk) _ _ zeroIV_length (by omega), hdwh]
  omega

/-- RSA layer: decrypting what `rsaEncrypt` produced from a 256-byte block below the modulus gives
the block back. -/
theorem rsaDecrypt_rsaEncrypt (Q : NumPrims) (hQ : LawfulNum Q) (pub : PubKey) (priv : PrivKey)
    (hn : priv.n = pub.n) (len : Nat) (hN : pub.n ≤ 256 ^ rsaLen)
    (hrsa : ∀ m, m < pub.n → (m ^ pub.e % pub.n) ^ priv.d % pub.n = m)
    (blk : Bytes) (hb : blk.length = len) (hlt : beNat blk < pub.n) :
    rsaDecrypt Q priv (rsaEncrypt Q pub blk) len = some blk := by
  unfold rsaDecrypt rsaEncrypt
  have hpos : 0 < pub.n := by omega
  have h1 : beNat blk ^ pub.e % pub.n < 256 ^ rsaLen :=
    Nat.lt_of_lt_of_le (Nat.mod_lt _ hpos) hN
  simp only [hQ _ _ _]
  rw [beNat_beBytes _ _ h1, hn, hrsa _ hlt]
  have h2 : beNat blk < 256 ^ len := by rw [← hb]; exact beNat_lt blk
  simp only [ge_iff_le, Nat.not_le.mpr h2, if_false]
  rw [← hb, beBytes_beNat]

theorem decode_keyAesEncrypted (P : Prims) (hP : LawfulPrims P) (Q : NumPrims) (hQ : LawfulNum Q)
    (pub : PubKey) (priv : PrivKey) (hn : priv.n = pub.n) (hN : pub.n ≤ 256 ^ 256)
    (hrsa : ∀ m, m < pub.n → (m ^ pub.e % pub.n) ^ priv.d % pub.n = m)
    (dwp tk : Bytes) (hd : dwp.length = 192) (ht : tk.length = 32)
    (hlt : beNat (keyAesEncrypted P dwp tk) < pub.n) :
    decodeRsaPad P Q priv (rsaEncrypt Q pub (keyAesEncrypted P dwp tk)) = .ok dwp := by
  rw [decodeRsaPad_unfold]
  rw [rsaDecrypt_rsaEncrypt Q hQ pub priv hn rsaLen hN hrsa _
    (keyAesEncrypted_length P hP dwp tk hd ht) hlt]
  simp only
  rw [keyAesEncrypted_unfold]
  have hdwh : (dwp.reverse ++ P.sha256 (tk ++ dwp)).length = 224 := by
    simp [hP.sha256_len, hd]
  have hx : (Ige.xorB tk (P.sha256 (Ige.enc (P.aesEnc tk) zeroIV (dwp.reverse ++ P.sha256 (tk ++ dwp))))).length
      = 32 := by
    rw [Ige.xorB_length, ht, hP.sha256_len]; rfl
  rw [take_append_len _ _ _ hx, drop_append_len _ _ _ hx]
  rw [Ige.xorB_cancel _ _ (by rw [ht, hP.sha256_len])]
  rw [Ige.dec_enc _ _ (Ige.Inv.ofPrims P hP tk) zeroIV _ zeroIV_length (by omega)]
  have hr : dwp.reverse.length = 192 := by simp [hd]
  rw [take_append_len _ _ _ hr, drop_append_len _ _ _ hr, List.reverse_reverse]
  simp

/-! ## the retry loop -/

theorem rsaPadLoop_ok (P : Prims) (Q : NumPrims) (key : PubKey) (dwp : Bytes) (fuel : Nat) (tape c : Bytes)
    (h : rsaPadLoop P Q key dwp fuel tape = .ok c) :
    ∃ tk, tk.length = 32 ∧ beNat (keyAesEncrypted P dwp tk) < key.n ∧
      c = rsaEncrypt Q key (keyAesEncrypted P dwp tk) := by
  induction fuel generalizing tape with
  | zero => simp [rsaPadLoop] at h
  | succ n ih =>
    simp only [rsaPadLoop] at h
    split at h
    · cases h
    · rename_i hlen
      split at h
      · exact ih _ h
      · rename_i hge
        refine ⟨tape.take tempKeySize, ?_, by omega, ?_⟩
        · rw [List.length_take, tempKeySize_eq] at *; omega
        · injection h with h; exact h.symm

/-! ## implementation = specification text -/

theorem keyAesEncrypted_eq_spec (P : Prims) (dwp tk : Bytes) :
    keyAesEncrypted P dwp tk = Spec.keyAesEncrypted P dwp tk := by
  rw [keyAesEncrypted_unfold]; rfl

theorem rsaPadLoop_eq_spec (P : Prims) (Q : NumPrims) (hQ : LawfulNum Q) (key : PubKey) (dwp : Bytes)
    (k fuel : Nat) (tape : Bytes) (hk : tape.length = 32 * k) (hf : k ≤ fuel) :
    rsaPadLoop P Q key dwp fuel tape =
      match (chunks32 k tape).find? (Spec.acceptable P key.n dwp) with
      | some tk => .ok (Spec.encryptedData key.n key.e (Spec.keyAesEncrypted P dwp tk))
      | none => .error .tape := by
  induction k generalizing fuel tape with
  | zero =>
    have : tape.length < tempKeySize := by rw [tempKeySize_eq]; omega
    cases fuel <;> simp [rsaPadLoop, chunks32, this]
  | succ k ih =>
    obtain ⟨f, rfl⟩ : ∃ f, fuel = f + 1 := ⟨fuel - 1, by omega⟩
    have hlen : ¬ tape.length < tempKeySize := by rw [tempKeySize_eq]; omega
    simp only [rsaPadLoop, hlen, if_false, chunks32, List.find?, Spec.acceptable]
    rw [tempKeySize_eq, keyAesEncrypted_eq_spec]
    by_cases hacc : beNat (Spec.keyAesEncrypted P dwp (tape.take 32)) < key.n
    · have : ¬ beNat (Spec.keyAesEncrypted P dwp (tape.take 32)) ≥ key.n := by omega
      simp only [this, if_false, hacc, decide_true]
      simp only [rsaEncrypt, Spec.encryptedData, hQ _ _ _, rsaLen_eq]
    · have : beNat (Spec.keyAesEncrypted P dwp (tape.take 32)) ≥ key.n := by omega
      simp only [this, if_true, hacc, decide_false]
      exact ih f (tape.drop 32) (by rw [List.length_drop]; omega) (by omega)

/-- With a modulus of at least 256^256 the first temp key is accepted (used for non-vacuity). -/
theorem rsaPad_ok_of_full (P : Prims) (hP : LawfulPrims P) (Q : NumPrims) (key : PubKey)
    (hn : 256 ^ 256 ≤ key.n) (data tape : Bytes) (hd : data.length ≤ 144)
    (ht : tape.length = 192 - data.length + 32) : ∃ c, rsaPad P Q key data tape = .ok c := by
  rw [rsaPad_eq_core]; unfold rsaPadCore
  rw [rsaPadDataLimit_eq, dataWithPaddingLength_eq]
  have h1 : ¬ data.length > 144 := by omega
  have h2 : ¬ tape.length < 192 - data.length := by omega
  simp only [h1, h2, if_false]
  obtain ⟨f, hf⟩ : ∃ f, tape.length = f + 1 := ⟨tape.length - 1, by omega⟩
  rw [hf]
  simp only [rsaPadLoop]
  have h3 : ¬ (tape.drop (192 - data.length)).length < tempKeySize := by
    rw [List.length_drop, tempKeySize_eq]; omega
  simp only [h3, if_false]
  have hl := keyAesEncrypted_length P hP (data ++ tape.take (192 - data.length))
    ((tape.drop (192 - data.length)).take tempKeySize)
    (by rw [List.length_append, List.length_take]; omega)
    (by rw [List.length_take, List.length_drop, tempKeySize_eq]; omega)
  have := beNat_lt (keyAesEncrypted P (data ++ tape.take (192 - data.length))
    ((tape.drop (192 - data.length)).take tempKeySize))
  rw [hl] at this
  have h4 : ¬ beNat (keyAesEncrypted P (data ++ tape.take (192 - data.length))
    ((tape.drop (192 - data.length)).take tempKeySize)) ≥ key.n := by omega
  simp only [h4, if_false]
  exact ⟨_, rfl⟩

/-! ## fingerprint -/

theorem rsaFingerprint_lt (P : Prims) (hP : LawfulPrims P) (key : PubKey) : rsaFingerprint P key < 2 ^ 64 := by
  unfold rsaFingerprint
  have h := fromLE_lt (((P.sha1 (putBytes (beMin key.n) ++ putBytes (beMin key.e))).drop 12).take 8)
  have hl : (((P.sha1 (putBytes (beMin key.n) ++ putBytes (beMin key.e))).drop 12).take 8).length = 8 := by
    rw [List.length_take, List.length_drop, hP.sha1_len]; rfl
  rw [hl] at h
  have e : (256 : Nat) ^ 8 = 2 ^ 64 := by decide
  omega

theorem beMin_beNat_roundtrip (n : Nat) : beNat (beMin n) = n := by
  unfold beMin
  split
  · subst_vars; rfl
  · rename_i h
    apply beNat_beBytes
    have h1 : n < 2 ^ (n.log2 + 1) := (Nat.log2_lt h).mp (Nat.lt_succ_self _)
    have h2 : n.log2 + 1 ≤ 8 * (n.log2 / 8 + 1) := by omega
    have h3 : (256 : Nat) ^ (n.log2 / 8 + 1) = 2 ^ (8 * (n.log2 / 8 + 1)) := by
      rw [show (256 : Nat) = 2 ^ 8 by decide, ← Nat.pow_mul]
    rw [h3]
    exact Nat.lt_of_lt_of_le h1 (Nat.pow_le_pow_right (by decide) h2)

/-! ## hashed scheme -/

/-- The guessing loop returns the longest prefix (of length ≤ n) whose SHA-1 is `hash`. -/
theorem guessData_eq (P : Prims) (hash pd : Bytes) (n l : Nat) (hl : l ≤ n)
    (hhit : P.sha1 (pd.take l) = hash)
    (hno : ∀ k, l < k → k ≤ n → P.sha1 (pd.take k) ≠ hash) :
    guessData P hash pd n = some (pd.take l) := by
  induction n with
  | zero =>
    have : l = 0 := by omega
    subst this
    simp only [List.take_zero] at hhit
    simp [guessData, hhit]
  | succ n ih =>
    simp only [guessData]
    by_cases hln : l = n + 1
    · subst hln; simp [hhit]
    · have hne := hno (n + 1) (by omega) (Nat.le_refl _)
      simp only [hne, if_false]
      exact ih (by omega) (fun k h1 h2 => hno k h1 (by omega))

/-- Whatever the guessing loop returns hashes to `hash`. -/
theorem guessData_hash (P : Prims) (hash pd : Bytes) (n : Nat) (d : Bytes)
    (h : guessData P hash pd n = some d) : P.sha1 d = hash := by
  induction n with
  | zero =>
    simp only [guessData] at h
    split at h
    · injection h with h; subst h; assumption
    · cases h
  | succ n ih =>
    simp only [guessData] at h
    split at h
    · injection h with h; subst h; assumption
    · exact ih h

end TdModel.C14
