import TdModel.Model.C10Prog
import TdModel.Lemmas.C09

namespace TdModel.C09
open TdModel

/-! The regenerated program, cut into the pieces the interpreter walks (all by evaluation). -/

theorem stage1_rows : stageRows Facts.C10.clientProgram 1 =
    [("ne", "res.Nonce", ["nonce"], "ResPQ nonce mismatch"),
     ("label", "Loop", [], ""),
     ("cond", "selectedPubKey.Zero()", [], "ErrKeyFingerprintNotFound"),
     ("cond", "pq.Cmp(pqMax) > 0", [], "server provided bad pq"),
     ("cond", "pq.Cmp(big.NewInt(1)) <= 0 || pq.ProbablyPrime(0)", [], "server provided bad pq: not composite"),
     ("callerr", "crypto.DecomposePQ", ["pq", "c.rand"], "decompose pq"),
     ("callerr", "crypto.RandInt256", ["c.rand"], "generate new nonce"),
     ("switch", "c.mode", ["ExchangeModeTemporary"], ""),
     ("callerr", "pqInnerData.Encode", ["b"], "err"),
     ("callerr", "crypto.RSAPad", ["b.Buf", "selectedPubKey.RSA", "c.rand"], "encrypted_data generation"),
     ("send", "ReqDHParamsRequest", [], "write ReqDHParamsRequest")] := by decide

theorem stage2_rows : branchRows "*mt.ServerDHParamsOk" (stageRows Facts.C10.clientProgram 2) =
    [("ne", "p.Nonce", ["nonce"], "ServerDHParamsOk nonce mismatch"),
     ("ne", "p.ServerNonce", ["serverNonce"], "ServerDHParamsOk server nonce mismatch"),
     ("callerr", "crypto.DecryptExchangeAnswer", ["p.EncryptedAnswer", "key", "iv"], "exchange answer decrypt"),
     ("callerr", "innerData.Decode", ["b"], "err"),
     ("ne", "innerData.Nonce", ["nonce"], "ServerDHInnerData nonce mismatch"),
     ("ne", "innerData.ServerNonce", ["serverNonce"], "ServerDHInnerData server nonce mismatch"),
     ("callerr", "crypto.CheckDH", ["innerData.G", "dhPrime"], "check DH params"),
     ("callerr", "rand.Int", ["c.rand", "randMax"], "number b generation"),
     ("callerr", "crypto.CheckDHParams", ["dhPrime", "g", "gA", "gB"], "key exchange failed: invalid params"),
     ("callerr", "clientInnerData.Encode", ["b"], "err"),
     ("callerr", "crypto.EncryptExchangeAnswer", ["c.rand", "b.Buf", "key", "iv"], "exchange answer encrypt"),
     ("send", "SetClientDHParamsRequest", [], "write SetClientDHParamsRequest")] := by decide

theorem stage3_rows : branchRows "*mt.DhGenOk" (stageRows Facts.C10.clientProgram 3) =
    [("ne", "v.Nonce", ["nonce"], "DhGenOk nonce mismatch"),
     ("ne", "v.ServerNonce", ["serverNonce"], "DhGenOk server nonce mismatch"),
     ("ne", "nonceHash1", ["v.NewNonceHash1"], "key exchange verification failed: hash mismatch"),
     ("callerr", "crypto.NewSessionID", ["c.rand"], "err"),
     ("ret", "", [], "")] := by decide

theorem case_dhFail : caseErr "*mt.ServerDHParamsFail" (dropToRecv 2 Facts.C10.clientProgram) = some .dhFail := by decide
theorem case_retry : caseErr "*mt.DhGenRetry" (dropToRecv 3 Facts.C10.clientProgram) = some .retry := by decide
theorem case_genFail : caseErr "*mt.DhGenFail" (dropToRecv 3 Facts.C10.clientProgram) = some .genFail := by decide

theorem lit_fields :
    litField Facts.C10.clientLiterals "ReqDHParamsRequest" "Nonce" = some "nonce" ∧
    litField Facts.C10.clientLiterals "ReqDHParamsRequest" "ServerNonce" = some "serverNonce" ∧
    litField Facts.C10.clientLiterals "ReqDHParamsRequest" "P" = some "pBytes" ∧
    litField Facts.C10.clientLiterals "ReqDHParamsRequest" "Q" = some "qBytes" ∧
    litField Facts.C10.clientLiterals "ReqDHParamsRequest" "PublicKeyFingerprint" = some "selectedPubKey.Fingerprint()" ∧
    litField Facts.C10.clientLiterals "ReqDHParamsRequest" "EncryptedData" = some "encryptedData" ∧
    litField Facts.C10.clientLiterals "SetClientDHParamsRequest" "Nonce" = some "nonce" ∧
    litField Facts.C10.clientLiterals "SetClientDHParamsRequest" "ServerNonce" = some "reqDHParams.ServerNonce" ∧
    litField Facts.C10.clientLiterals "SetClientDHParamsRequest" "EncryptedData" = some "clientEncrypted" ∧
    litField Facts.C10.clientLiterals "ClientDHInnerData" "Nonce" = some "innerData.Nonce" ∧
    litField Facts.C10.clientLiterals "ClientDHInnerData" "ServerNonce" = some "innerData.ServerNonce" ∧
    litField Facts.C10.clientLiterals "ClientDHInnerData" "RetryID" = some "0" ∧
    litField Facts.C10.clientLiterals "ClientDHInnerData" "GB" = some "gB.Bytes()" := by decide

theorem lit_inner (T : String) (hT : T = "PQInnerDataDC" ∨ T = "PQInnerDataTempDC") :
    litField Facts.C10.clientLiterals T "Pq" = some "res.Pq" ∧
    litField Facts.C10.clientLiterals T "P" = some "pBytes" ∧
    litField Facts.C10.clientLiterals T "Q" = some "qBytes" ∧
    litField Facts.C10.clientLiterals T "Nonce" = some "nonce" ∧
    litField Facts.C10.clientLiterals T "ServerNonce" = some "serverNonce" ∧
    litField Facts.C10.clientLiterals T "NewNonce" = some "newNonce" ∧
    litField Facts.C10.clientLiterals T "DC" = some "c.dc" := by
  rcases hT with h | h <;> subst h <;> decide

theorem lit_expires : litField Facts.C10.clientLiterals "PQInnerDataTempDC" "ExpiresIn" = some "c.expiresIn" := by decide

theorem init_ok : initOK Facts.C10.clientProgram Facts.C10.clientLiterals = true := by decide

end TdModel.C09

namespace TdModel.C09
open TdModel

theorem onResPQ_interp {Ct} (P : XP Ct) (cfg : CCfg) (t : CTape) (m : Msg Ct) :
    onResPQI Facts.C10.clientProgram Facts.C10.clientLiterals P cfg t m = onResPQ P cfg t m := by
  cases m <;> try rfl
  rename_i n sn pq fps
  obtain ⟨l1, l2, l3, l4, l5, l6, _⟩ := lit_fields
  obtain ⟨i1, i2, i3, i4, i5, i6, i7⟩ := lit_inner "PQInnerDataDC" (Or.inl rfl)
  obtain ⟨j1, j2, j3, j4, j5, j6, j7⟩ := lit_inner "PQInnerDataTempDC" (Or.inr rfl)
  simp only [onResPQI, stage1_rows, onResPQ]
  by_cases hn : n = t.nonce
  · subst hn
    cases hsel : selectKey cfg.keys fps with
    | none => simp [run1, row1, env1, errOf, hsel]
    | some fp =>
      by_cases hpq : pq > pqMax
      · simp [run1, row1, env1, errOf, hsel, hpq]
      · by_cases hc : pq ≤ 1 ∨ P.isPrime pq = true
        · simp [run1, row1, env1, errOf, hsel, hpq, hc]
        · cases hf : P.factor pq with
          | none => simp [run1, row1, env1, errOf, hsel, hpq, hc, hf]
          | some pqf =>
            obtain ⟨p, q⟩ := pqf
            cases htemp : cfg.temp
            · simp [run1, row1, env1, errOf, hsel, hpq, hc, hf, buildPQInner, htemp, l1, l2, l3, l4, l5, l6,
                i1, i2, i3, i4, i5, i6, i7, natOf, bytesOf, intOf]
            · simp [run1, row1, env1, errOf, hsel, hpq, hc, hf, buildPQInner, htemp, lit_expires, l1, l2, l3, l4, l5, l6,
                j1, j2, j3, j4, j5, j6, j7, natOf, bytesOf, intOf]
  · simp [run1, row1, env1, errOf, hn]

theorem onDHParams_interp {Ct} (P : XP Ct) (t : CTape) (sn : Bytes) (m : Msg Ct) :
    onDHParamsI Facts.C10.clientProgram Facts.C10.clientLiterals P t sn m = onDHParams P t sn m := by
  cases m <;> try rfl
  · rename_i n sn' ans
    obtain ⟨_, _, _, _, _, _, l7, l8, l9, l10, l11, l12, l13⟩ := lit_fields
    simp only [onDHParamsI, stage2_rows, onDHParams]
    by_cases hn : n = t.nonce
    · subst hn
      by_cases hsn : sn' = sn
      · subst hsn
        cases hd : P.decS (tempAESKeys P.sha1 t.newNonce sn') ans with
        | none => simp [run2, row2, env2, errOf, hd]
        | some d =>
          by_cases h1 : d.nonce = t.nonce
          · by_cases h2 : d.serverNonce = sn'
            · cases h3 : checkDH P.isPrime d.g d.dhPrime
              · simp [run2, row2, env2, errOf, hd, h1, h2, h3]
              · cases h4 : checkDHParams d.dhPrime d.g.toNat d.gA (powMod d.g.toNat t.b d.dhPrime)
                · simp [run2, row2, env2, errOf, hd, h1, h2, h3, h4]
                · simp [run2, row2, env2, errOf, hd, h1, h2, h3, h4, l7, l8, l9, l10, l11, l12, l13, natOf, bytesOf, intOf]
            · simp [run2, row2, env2, errOf, hd, h1, h2]
          · simp [run2, row2, env2, errOf, hd, h1]
      · simp [run2, row2, env2, errOf, hsn]
    · simp [run2, row2, env2, errOf, hn]

theorem onDhGen_interp {Ct} (P : XP Ct) (t : CTape) (sn : Bytes) (k : Nat) (m : Msg Ct) :
    onDhGenI Facts.C10.clientProgram P t sn k m = onDhGen P t sn k m := by
  cases m <;> try rfl
  · rename_i n sn' h
    simp only [onDhGenI, stage3_rows, onDhGen]
    by_cases hn : n = t.nonce
    · subst hn
      by_cases hsn : sn' = sn
      · subst hsn
        by_cases hh : nonceHash1 P.sha1 t.newNonce (keyBytes k) = h
        · simp [run3, env3, errOf, hh]
        · simp [run3, env3, errOf, hh]
      · simp [run3, env3, errOf, hsn]
    · simp [run3, env3, errOf, hn]

theorem cstepI_eq {Ct} (P : XP Ct) (cfg : CCfg) (t : CTape) (s : CState) (m : Msg Ct) :
    cstepI P cfg t s m = cstep P cfg t s m := by
  cases s <;> simp only [cstepI, cstep, onResPQ_interp, onDHParams_interp, onDhGen_interp]

theorem crunI_eq {Ct} (P : XP Ct) (cfg : CCfg) (t : CTape) (ms : List (Msg Ct)) :
    ∀ s, crunI P cfg t s ms = crun P cfg t s ms := by
  induction ms with
  | nil => intro s; rfl
  | cons m rest ih => intro s; simp only [crunI, crun, cstepI_eq, ih]

end TdModel.C09
