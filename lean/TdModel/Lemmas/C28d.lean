/-
C28 — the waiter invariant is preserved by every action.
-/
import TdModel.Lemmas.C28c

set_option linter.unusedSimpArgs false

namespace TdModel.C27

theorem winv_setPc_nokey {t : State} (hI : WInv t) (i : Nat) (x : Caller) (p : PC) (hx : t.callers[i]? = some x)
    (hp : pcKey p = none) : WInv (setPc t i x p) := by
  apply winv_pc hI i x { x with pc := p } hx
  · intro k g h
    have : pcKey p = some k := by simp [show p = .waiting k g from h, pcKey]
    rw [hp] at this; cases this
  · intro k h
    have h' : pcKey p = some k := h
    rw [hp] at h'; cases h'

theorem winv_handOut {cfg : Cfg} {t : State} (hI : WInv t) (i : Nat) (x : Caller) (c : Nat)
    (hx : t.callers[i]? = some x) : WInv (handOut cfg t i x c) := by
  unfold handOut
  split
  · exact winv_setPc_nokey hI i x _ hx rfl
  · exact winv_setPc_nokey hI i x _ hx rfl

theorem winv_handOut_leave {cfg : Cfg} {s t : State} (hI : WInv s) (j : Nat) (x : Caller) (c kj : Nat)
    (hx : s.callers[j]? = some x) (hxk : pcKey x.pc = some kj)
    (hc : t.callers = s.callers)
    (hr : ∀ k, k ∈ s.reqs → k ≠ kj → k ∈ t.reqs) (hr' : ∀ k, k ∈ t.reqs → k ∈ s.reqs)
    (hi : ∀ e, e ∈ s.inbox → e.1 ≠ kj → e ∈ t.inbox)
    (hf : t.free = s.free) (hm : t.max = s.max) (ht : t.total = s.total) (hg : t.gen = s.gen)
    (hn : t.nextKey = s.nextKey) : WInv (handOut cfg t j x c) := by
  unfold handOut
  split
  · exact winv_leave hI j x _ kj hx hxk rfl hc hr hr' hi hf hm ht hg hn
  · exact winv_leave hI j x _ kj hx hxk rfl hc hr hr' hi hf hm ht hg hn

theorem winv_step {cfg : Cfg} (hgood : Good cfg) {s s' : State} (a : Action) (hI : WInv s) (h : step cfg s a = some s') : WInv s' := by
  obtain ⟨_, _, hgB, hgT, hgR⟩ := hgood
  cases a with
  | closeDC =>
    simp only [step] at h
    split at h
    · cases h
    · cases h; exact winv_same hI rfl rfl rfl rfl rfl rfl rfl rfl
  | start i =>
    simp only [step, markDeadCfg_good hgR, hgB, hgT, if_true] at h
    split at h
    · rename_i x hx
      split at h
      · cases h
        cases hcl : s.closed <;> exact winv_setPc_nokey hI i x _ hx (by simp [hcl, pcKey])
      · cases h
    · cases h
  | enter i =>
    simp only [step, markDeadCfg_good hgR, hgB, hgT, if_true] at h
    split at h
    · rename_i x hx
      split at h
      · rename_i hp
        split at h
        · rename_i d fs hf
          cases h
          have hI1 : WInv { s with free := fs } := by
            apply winv_env (t := { s with free := fs }) hI rfl (fun _ _ _ _ _ _ h => h) (Nat.le_refl _) (Nat.le_refl _)
            intro i' x' k g hx' hp' hk hgg
            have := (hI.w i' x' k g hx' hp' hk hgg).1
            rw [hf] at this; cases this
          exact winv_setPc_nokey hI1 i x _ hx rfl
        · rename_i hf
          split at h
          · cases h
            have hI1 : WInv { s with total := s.total + 1 } := by
              apply winv_env (t := { s with total := s.total + 1 }) hI rfl (fun _ _ _ _ _ _ h => h) (Nat.le_refl _) (Nat.le_refl _)
              intro i' x' k g _ _ hk hgg
              refine ⟨⟨hk, hgg⟩, ?_⟩
              intro ⟨a, b, c⟩
              exact ⟨a, b, Nat.le_succ_of_le c⟩
            exact winv_setPc_nokey hI1 i x _ hx rfl
          · rename_i hlim
            cases h
            have hlim' : s.max ≠ 0 ∧ s.max ≤ s.total := by
              constructor
              · intro h0; exact hlim (Or.inl h0)
              · rcases Nat.lt_or_ge s.total s.max with h' | h'
                · exact absurd (Or.inr h') hlim
                · exact h'
            have hxn : pcKey x.pc = none := by simp [hp, pcKey]
            refine ⟨?_, ?_, ?_, ?_, ?_⟩
            · intro i' z k g hz hpz
              rcases getElem?_set_cases hz with ⟨_, rfl⟩ | ⟨_, hz'⟩
              · cases hpz
                exact Or.inl (List.mem_append_right _ (List.mem_singleton.2 rfl))
              · rcases hI.k7 i' z k g hz' hpz with h' | h'
                · exact Or.inl (List.mem_append_left _ h')
                · exact Or.inr h'
            · intro i1 i2 z1 z2 k h1 h2 p1 p2
              rcases getElem?_set_cases h1 with ⟨rfl, rfl⟩ | ⟨_, h1'⟩
              · rcases getElem?_set_cases h2 with ⟨rfl, rfl⟩ | ⟨_, h2'⟩
                · rfl
                · simp [pcKey] at p1; subst p1
                  have := hI.k8 i2 z2 _ h2' p2
                  omega
              · rcases getElem?_set_cases h2 with ⟨rfl, rfl⟩ | ⟨_, h2'⟩
                · simp [pcKey] at p2; subst p2
                  have := hI.k8 i1 z1 _ h1' p1
                  omega
                · exact hI.k4 i1 i2 z1 z2 k h1' h2' p1 p2
            · intro i' z k hz hpz
              show k < s.nextKey + 1
              rcases getElem?_set_cases hz with ⟨_, rfl⟩ | ⟨_, hz'⟩
              · simp [pcKey] at hpz; omega
              · have := hI.k8 i' z k hz' hpz; omega
            · intro i' z k g hz hpz
              rcases getElem?_set_cases hz with ⟨_, rfl⟩ | ⟨_, hz'⟩
              · cases hpz; exact Nat.le_refl _
              · exact hI.g i' z k g hz' hpz
            · intro i' z k g hz hpz hk hgg
              rcases getElem?_set_cases hz with ⟨_, rfl⟩ | ⟨_, hz'⟩
              · exact ⟨hf, hlim'.1, hlim'.2⟩
              · have hk' : k ∈ s.reqs := by
                  rcases List.mem_append.1 hk with h' | h'
                  · exact h'
                  · simp at h'; subst h'
                    have := hI.k8 i' z s.nextKey hz' (by simp [hpz, pcKey])
                    omega
                exact hI.w i' z k g hz' hpz hk' hgg
      · cases h
    · cases h
  | mk i =>
    simp only [step, markDeadCfg_good hgR, hgB, hgT, if_true] at h
    split at h
    · rename_i x hx
      split at h
      · cases h
        have hI1 : WInv { s with conns := s.conns ++ [{ dead := false, ready := false, orphan := false }] } :=
          winv_same hI rfl rfl rfl rfl rfl rfl rfl rfl
        exact winv_setPc_nokey hI1 i x _ hx rfl
      · cases h
    · cases h
  | check i =>
    simp only [step, markDeadCfg_good hgR, hgB, hgT, if_true] at h
    split at h
    · rename_i x hx
      split at h
      · split at h
        · cases h; exact winv_setPc_nokey hI i x _ hx rfl
        · cases h; exact winv_setPc_nokey hI i x _ hx rfl
      · cases h
    · cases h
  | cwake i b =>
    simp only [step, markDeadCfg_good hgR, hgB, hgT, if_true] at h
    split at h
    · rename_i x hx
      split at h
      · rename_i d hp
        split at h
        · rename_i cn hcn
          cases b with
          | ready =>
            simp only at h
            split at h
            · cases h; exact winv_handOut hI i x d hx
            · cases h
          | dead =>
            simp only at h
            split at h
            · cases h; exact winv_setPc_nokey hI i x _ hx rfl
            · cases h
          | ctx =>
            simp only at h
            split at h
            · cases h
              have hI1 : WInv { s with conns := s.conns.set d { cn with orphan := cfg.createCancelReleases } } :=
                winv_same hI rfl rfl rfl rfl rfl rfl rfl rfl
              exact winv_setPc_nokey hI1 i x _ hx rfl
            · cases h
          | dc =>
            simp only at h
            split at h
            · cases h; exact winv_setPc_nokey hI i x _ hx rfl
            · cases h
        · cases h
      · cases h
    · cases h
  | wwake i b =>
    simp only [step, markDeadCfg_good hgR, hgB, hgT, if_true] at h
    split at h
    · rename_i x hx
      split at h
      · rename_i k g hp
        have hxk : pcKey x.pc = some k := by simp [hp, pcKey]
        cases b with
        | ch =>
          simp only at h
          split at h
          · rename_i d rest htk
            cases h
            exact winv_handOut_leave (t := { s with inbox := rest }) hI i x d k hx hxk rfl (fun _ h _ => h)
              (fun _ h => h) (fun e he hk => takeKey_other htk e he hk) rfl rfl rfl rfl rfl
          · cases h
        | stuck =>
          simp only at h
          split at h
          · cases h
            apply winv_pc hI i x { x with pc := .giveup k .stuck } hx
            · intro k' g' h'; cases h'
            · intro k' h'
              have : k' = k := by simpa [pcKey] using h'.symm
              subst this; exact hxk
          · cases h
        | ctx =>
          simp only at h
          split at h
          · cases h
            apply winv_pc hI i x { x with pc := .giveup k .ctx } hx
            · intro k' g' h'; cases h'
            · intro k' h'
              have : k' = k := by simpa [pcKey] using h'.symm
              subst this; exact hxk
          · cases h
        | dc =>
          simp only at h
          split at h
          · cases h
            apply winv_pc hI i x { x with pc := .giveup k .ctx } hx
            · intro k' g' h'; cases h'
            · intro k' h'
              have : k' = k := by simpa [pcKey] using h'.symm
              subst this; exact hxk
          · cases h
      · cases h
    · cases h
  | giveup i ko =>
    simp only [step, markDeadCfg_good hgR, hgB, hgT, if_true] at h
    split at h
    · rename_i x hx
      split at h
      · rename_i k w hp
        have hxk : pcKey x.pc = some k := by simp [hp, pcKey]
        have her : ∀ k', k' ∈ s.reqs → k' ≠ k → k' ∈ s.reqs.erase k := fun k' h' hne => (List.mem_erase_of_ne hne).2 h'
        have her' : ∀ k', k' ∈ s.reqs.erase k → k' ∈ s.reqs := fun k' h' => List.mem_of_mem_erase h'
        split at h
        · split at h
          · cases h
            exact winv_leave (t := { s with reqs := s.reqs.erase k }) hI i x _ k hx hxk (by cases w <;> rfl) rfl her her'
              (fun _ h _ => h) rfl rfl rfl rfl rfl
          · cases h
        · rename_i d rest htk
          have htk' : takeKey k s.inbox = some (d, rest) := htk
          cases w with
          | stuck =>
            simp only at h
            split at h
            · cases h
              exact winv_handOut_leave (t := { s with reqs := s.reqs.erase k, inbox := rest }) hI i x d k hx hxk rfl
                her her' (fun e he hk => takeKey_other htk' e he hk) rfl rfl rfl rfl rfl
            · cases h
          | ctx =>
            simp only at h
            split at h
            · rename_i s3 hrel
              cases h
              have hIu : WInv (setPc { s with reqs := s.reqs.erase k, inbox := rest } i x .done) :=
                winv_leave (t := { s with reqs := s.reqs.erase k, inbox := rest }) hI i x _ k hx hxk rfl rfl
                  her her' (fun e he hk => takeKey_other htk' e he hk) rfl rfl rfl rfl rfl
              exact winv_release hIu (release_setPc i x .done hrel)
            · cases h
      · cases h
    · cases h
  | finish i r ko =>
    simp only [step, markDeadCfg_good hgR, hgB, hgT, if_true] at h
    split at h
    · rename_i x hx
      split at h
      · split at h
        · split at h
          · cases h
            exact winv_setPc_nokey (winv_markDead hI _) i x _ (by rw [markDead_callers]; exact hx) rfl
          · cases h
        · split at h
          · rename_i s1 hrel
            cases h
            exact winv_setPc_nokey (winv_release hI hrel) i x _ (by rw [release_callers hrel]; exact hx) rfl
          · cases h
      · cases h
    · cases h
  | ready d =>
    simp only [step, markDeadCfg_good hgR, hgB, hgT, if_true] at h
    split at h
    · cases h; exact winv_same hI rfl rfl rfl rfl rfl rfl rfl rfl
    · cases h
  | die d =>
    simp only [step, markDeadCfg_good hgR, hgB, hgT, if_true] at h
    split at h
    · cases h; exact winv_markDead hI d
    · cases h
  | cancel i =>
    simp only [step, markDeadCfg_good hgR, hgB, hgT, if_true] at h
    split at h
    · rename_i x hx
      cases h
      exact winv_pc hI i x { x with cancelled := true } hx (fun _ _ h => h) (fun _ h => h)
    · cases h
  | bg d rel ko =>
    simp only [step, markDeadCfg_good hgR, hgB, hgT, if_true] at h
    split at h
    · rename_i cn hcn
      split at h
      · have hI1 : WInv { s with conns := s.conns.set d { cn with orphan := false } } :=
          winv_same hI rfl rfl rfl rfl rfl rfl rfl rfl
        cases rel with
        | true =>
          simp only [if_true] at h
          split at h
          · exact winv_release hI1 h
          · cases h
        | false =>
          simp only [Bool.false_eq_true, if_false] at h
          split at h
          · cases h; exact hI1
          · cases h
      · cases h
    · cases h

theorem winv_run {cfg : Cfg} (hgood : Good cfg) (as : List Action) {s s' : State} (hI : WInv s) (h : run cfg s as = some s') :
    WInv s' := by
  induction as generalizing s with
  | nil => simp [run] at h; subst h; exact hI
  | cons a as ih =>
    simp only [run] at h
    split at h
    · rename_i s1 h1; exact ih (winv_step hgood a hI h1) h
    · cases h

end TdModel.C27
