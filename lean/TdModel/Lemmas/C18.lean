/-
C18 — lemmas about the obfuscated2 model with the stream cipher instantiated by XOR with an
arbitrary keystream.  Core Lean only.
-/
import TdModel.Model.C18

namespace TdModel.C18
open TdModel

@[simp] theorem xorStream_length (k : Nat → UInt8) : ∀ (d : Bytes) (off : Nat), (xorStream k off d).length = d.length := by
  intro d
  induction d with
  | nil => intro _; rfl
  | cons b bs ih => intro off; simp [xorStream, ih]

theorem xorStream_append (k : Nat → UInt8) : ∀ (a b : Bytes) (off : Nat),
    xorStream k off (a ++ b) = xorStream k off a ++ xorStream k (off + a.length) b := by
  intro a
  induction a with
  | nil => intro b off; simp [xorStream]
  | cons x xs ih =>
    intro b off
    simp only [List.cons_append, xorStream, ih, List.length_cons]
    have : off + 1 + xs.length = off + (xs.length + 1) := by omega
    rw [this]

theorem xor_cancel (b x : UInt8) : (b ^^^ x) ^^^ x = b := by
  rw [UInt8.xor_assoc, UInt8.xor_self, UInt8.xor_zero]

theorem xorStream_invol (k : Nat → UInt8) : ∀ (d : Bytes) (off : Nat), xorStream k off (xorStream k off d) = d := by
  intro d
  induction d with
  | nil => intro _; rfl
  | cons b bs ih => intro off; simp [xorStream, ih, xor_cancel]

theorem xorStream_take (k : Nat → UInt8) : ∀ (n : Nat) (d : Bytes) (off : Nat),
    (xorStream k off d).take n = xorStream k off (d.take n) := by
  intro n
  induction n with
  | zero => intro d off; simp [xorStream]
  | succ n ih =>
    intro d off
    cases d with
    | nil => simp [xorStream]
    | cons b bs => simp [xorStream, ih]

theorem xorStream_drop (k : Nat → UInt8) : ∀ (n : Nat) (d : Bytes) (off : Nat),
    (xorStream k off d).drop n = xorStream k (off + n) (d.drop n) := by
  intro n
  induction n with
  | zero => intro d off; simp
  | succ n ih =>
    intro d off
    cases d with
    | nil => simp [xorStream]
    | cons b bs =>
      simp only [xorStream, List.drop_succ_cons, ih]
      have : off + 1 + n = off + (n + 1) := by omega
      rw [this]

/-! ### Sequences of writes and of reads -/

theorem writeAll_xor (ks : Bytes → Bytes → Nat → UInt8) : ∀ (ws : List Bytes) (s : Stream),
    writeAll (xorWith ks) s ws
      = (xorStream (ks s.key s.iv) s.off ws.flatten, { s with off := s.off + ws.flatten.length }) := by
  intro ws
  induction ws with
  | nil => intro s; simp [writeAll, xorStream]
  | cons w ws ih =>
    intro s
    simp only [writeAll, Stream.xor, ih, List.flatten_cons, xorStream_append, xorWith, List.length_append]
    simp [Nat.add_assoc]

theorem readAll_eq_writeAll (X : Cipher) : ∀ (cs : List Bytes) (s : Stream), readAll X s cs = writeAll X s cs := by
  intro cs
  induction cs with
  | nil => intro s; rfl
  | cons c cs ih => intro s; simp only [readAll, writeAll, ih]

/-- Whatever the sizes of the writes and however the resulting bytes are cut into reads, a reader
whose stream is in the writer's initial state gets the written bytes. -/
theorem read_write (ks : Bytes → Bytes → Nat → UInt8) (s : Stream) (ws chunks : List Bytes)
    (h : chunks.flatten = (writeAll (xorWith ks) s ws).1) :
    (readAll (xorWith ks) s chunks).1 = ws.flatten := by
  rw [readAll_eq_writeAll, writeAll_xor, h, writeAll_xor]
  exact xorStream_invol _ _ _

theorem readOne_eq (X : Cipher) (s : Stream) (c : Bytes) (e : RdErr) : readOne X s c e = s.xor X c := by
  have h : Facts.C18.readSkipsDecryptOn = 0 := by decide
  cases e <;> simp [readOne, h]

theorem readAllE_eq (X : Cipher) : ∀ (cs : List (Bytes × RdErr)) (s : Stream),
    readAllE X s cs = readAll X s (cs.map (·.1)) := by
  intro cs
  induction cs with
  | nil => intro s; rfl
  | cons c cs ih =>
    intro s
    obtain ⟨c, e⟩ := c
    simp only [readAllE, readAll, List.map_cons, readOne_eq, ih]

/-! ### The byte ranges read from the source are MTProto's -/

theorem layout_facts :
    Facts.C18.encKeyLo = 8 ∧ Facts.C18.encKeyHi = 40 ∧ Facts.C18.encIVLo = 40 ∧ Facts.C18.encIVHi = 56 ∧
    Facts.C18.revLo = 8 ∧ Facts.C18.revHi = 56 ∧ Facts.C18.decKeyLo = 0 ∧ Facts.C18.decKeyHi = 32 ∧
    Facts.C18.decIVLo = 32 ∧ Facts.C18.decIVHi = 48 ∧ Facts.C18.secretCutLo = 0 ∧ Facts.C18.secretCutHi = 16 ∧
    Facts.C18.secretMin = 16 ∧ Facts.C18.tagLo = 56 ∧ Facts.C18.tagHi = 60 ∧ Facts.C18.dcLo = 60 ∧ Facts.C18.dcHi = 62 ∧
    Facts.C18.hdrPlainLo = 0 ∧ Facts.C18.hdrPlainHi = 56 ∧ Facts.C18.hdrEncLo = 56 ∧ Facts.C18.hdrEncHi = 64 ∧
    Facts.C18.hdrEncAt = 56 ∧ Facts.C18.headerLen = 64 ∧ Facts.C18.metaTagLo = 56 ∧ Facts.C18.metaTagHi = 60 ∧
    Facts.C18.metaDCLo = 60 ∧ Facts.C18.metaDCHi = 62 ∧ Facts.C18.decryptInitIsReversed = true ∧
    Facts.C18.acceptSwaps = true := by decide

/-- `createStreams` in terms of `mid = init[8:56]` (all its ranges lie inside). -/
def createStreamsMid (sha : Bytes → Bytes) (init secret : Bytes) : Except Err Keys :=
  let mid := (init.drop 8).take 48
  let encryptKey := mid.take 32
  let encryptIV := (mid.drop 32).take 16
  let initRev := mid.reverse
  let decryptKey := initRev.take 32
  let decryptIV := (initRev.drop 32).take 16
  if secret.length > 0 then
    if secret.length < 16 then .error .secretSize
    else
      let sec := secret.take 16
      .ok { encrypt := ⟨sha (encryptKey ++ sec), encryptIV, 0⟩, decrypt := ⟨sha (decryptKey ++ sec), decryptIV, 0⟩ }
  else .ok { encrypt := ⟨encryptKey, encryptIV, 0⟩, decrypt := ⟨decryptKey, decryptIV, 0⟩ }

theorem createStreams_eq_mid (sha : Bytes → Bytes) (init secret : Bytes) :
    createStreams sha init secret = createStreamsMid sha init secret := by
  have h1 : slice init 8 40 = ((init.drop 8).take 48).take 32 := by
    simp [slice, List.take_take]
  have h2 : slice init 40 56 = (((init.drop 8).take 48).drop 32).take 16 := by
    simp [slice, List.drop_take, List.take_take]
  have h3 : slice init 8 56 = (init.drop 8).take 48 := rfl
  have h4 : ∀ r : Bytes, slice r 0 32 = r.take 32 := fun r => by simp [slice]
  have h5 : ∀ r : Bytes, slice r 32 48 = (r.drop 32).take 16 := fun r => rfl
  have h6 : slice secret 0 16 = secret.take 16 := by simp [slice]
  unfold createStreams createStreamsMid
  simp only [Facts.C18.encKeyLo, Facts.C18.encKeyHi, Facts.C18.encIVLo, Facts.C18.encIVHi, Facts.C18.revLo,
    Facts.C18.revHi, Facts.C18.decKeyLo, Facts.C18.decKeyHi, Facts.C18.decIVLo, Facts.C18.decIVHi,
    Facts.C18.secretCutLo, Facts.C18.secretCutHi, Facts.C18.secretMin, Facts.C18.decryptInitIsReversed,
    if_true, h1, h2, h3, h4, h5, h6]

/-- `clientKeys` / `accept` with the byte ranges written out (what the regenerated ranges amount to). -/
def clientKeysLit (X : Cipher) (sha : Bytes → Bytes) (init tag : Bytes) (dc : Int) (secret : Bytes) :
    Except Err (Bytes × Keys) :=
  match createStreams sha init secret with
  | .error e => .error e
  | .ok k =>
    let init' := init.take 56 ++ tag ++ putDC dc ++ init.drop 62
    let (encInit, enc') := k.encrypt.xor X init'
    .ok (init'.take 56 ++ (encInit.drop 56).take 8, { k with encrypt := enc' })

def acceptLit (X : Cipher) (sha : Bytes → Bytes) (header secret : Bytes) : Except Err (Meta × Keys) :=
  if header.length < 64 then .error .short
  else
    let buf := header.take 64
    match createStreams sha buf secret with
    | .error e => .error e
    | .ok k =>
      let k' : Keys := { encrypt := k.decrypt, decrypt := k.encrypt }
      let (decrypted, dec') := k'.decrypt.xor X buf
      let proto := (decrypted.drop 56).take 4
      let dcb := (decrypted.drop 60).take 2
      .ok ({ protocol := proto, dc := (dcb.headD 0).toNat + 256 * ((dcb.drop 1).headD 0).toNat },
           { k' with decrypt := dec' })

theorem setAt_tag_dc (init tag : Bytes) (dc : Int) (hi : init.length = 64) (ht : tag.length = 4) :
    setAt (setAt init 56 tag) 60 (putDC dc) = init.take 56 ++ tag ++ putDC dc ++ init.drop 62 := by
  have h56 : (init.take 56).length = 56 := by simp only [List.length_take]; omega
  have hd : (putDC dc).length = 2 := rfl
  unfold setAt
  rw [ht, hd]
  have ha : (init.take 56 ++ tag ++ init.drop (56 + 4)).take 60 = init.take 56 ++ tag :=
    List.take_left' (by simp only [List.length_append, h56, ht])
  have hb : (init.take 56 ++ tag ++ init.drop (56 + 4)).drop (60 + 2) = init.drop 62 := by
    have : (60 + 2 : Nat) = (init.take 56 ++ tag).length + 2 := by simp only [List.length_append, h56, ht]
    rw [this, ← List.drop_drop, List.drop_left' rfl, List.drop_drop]
  rw [ha, hb]

theorem slice_zero (l : Bytes) (n : Nat) : slice l 0 n = l.take n := by simp [slice]

theorem clientKeys_eq_lit (X : Cipher) (sha : Bytes → Bytes) (init tag : Bytes) (dc : Int) (secret : Bytes)
    (hi : init.length = 64) (ht : tag.length = 4) :
    clientKeys X sha init tag dc secret = clientKeysLit X sha init tag dc secret := by
  unfold clientKeys clientKeysLit
  simp only [Facts.C18.tagLo, Facts.C18.dcLo, Facts.C18.hdrPlainLo, Facts.C18.hdrPlainHi, Facts.C18.hdrEncLo,
    Facts.C18.hdrEncHi, setAt_tag_dc init tag dc hi ht, slice_zero]
  rfl

theorem accept_eq_lit (X : Cipher) (sha : Bytes → Bytes) (header secret : Bytes) :
    accept X sha header secret = acceptLit X sha header secret := by
  unfold accept acceptLit
  simp only [Facts.C18.headerLen, Facts.C18.metaTagLo, Facts.C18.metaTagHi, Facts.C18.metaDCLo, Facts.C18.metaDCHi,
    Facts.C18.acceptSwaps, if_true]
  rfl

/-! ### The header -/

theorem mid_of_prefix (a b : Bytes) (ha : a.length = 56) : ((a ++ b).drop 8).take 48 = (a.drop 8).take 48 := by
  rw [List.drop_append_of_le_length (by omega), List.take_append_of_le_length (by simp; omega)]

theorem createStreams_mid (sha : Bytes → Bytes) (i j secret : Bytes)
    (h : (i.drop 8).take 48 = (j.drop 8).take 48) : createStreams sha i secret = createStreams sha j secret := by
  rw [createStreams_eq_mid, createStreams_eq_mid]
  unfold createStreamsMid
  rw [h]

theorem generateInit_ok : ∀ (fuel : Nat) (tape init : Bytes), generateInit fuel tape = .ok init →
    init.length = 64 ∧ rejected init = false := by
  intro fuel
  induction fuel with
  | zero => intro tape init h; simp [generateInit] at h
  | succ f ih =>
    intro tape init h
    simp only [generateInit] at h
    split at h
    · simp at h
    · rename_i hl
      split at h
      · exact ih _ _ h
      · rename_i hr
        simp only [Except.ok.injEq] at h
        subst h
        exact ⟨by simp only [List.length_take]; omega, by simpa using hr⟩

theorem createStreams_off (sha : Bytes → Bytes) (init secret : Bytes) (k : Keys)
    (h : createStreams sha init secret = .ok k) : k.encrypt.off = 0 ∧ k.decrypt.off = 0 := by
  rw [createStreams_eq_mid] at h
  unfold createStreamsMid at h
  simp only at h
  split at h
  · split at h
    · simp at h
    · simp only [Except.ok.injEq] at h; subst h; exact ⟨rfl, rfl⟩
  · simp only [Except.ok.injEq] at h; subst h; exact ⟨rfl, rfl⟩

theorem dc16_lt (dc : Int) : dc16 dc < 65536 := by unfold dc16; omega

theorem u8n (n : Nat) (h : n < 256) : (UInt8.ofNat n).toNat = n := by
  simp [UInt8.toNat_ofNat']; omega

/-- The client's header, accepted by the server: same protocol tag, `dc mod 2^16`, and the server's
decrypt / encrypt streams are the client's encrypt / decrypt streams *in the same state* (the
64 keystream bytes used for the header included). -/
theorem accept_clientKeys (ks : Bytes → Bytes → Nat → UInt8) (sha : Bytes → Bytes)
    (init tag : Bytes) (dc : Int) (secret header : Bytes) (ck : Keys)
    (hi : init.length = 64) (ht : tag.length = 4)
    (h : clientKeys (xorWith ks) sha init tag dc secret = .ok (header, ck)) :
    header.length = 64 ∧ header.take 56 = init.take 56 ∧
    accept (xorWith ks) sha header secret
      = .ok (⟨tag, dc16 dc⟩, { encrypt := ck.decrypt, decrypt := ck.encrypt }) := by
  rw [clientKeys_eq_lit _ _ _ _ _ _ hi ht] at h
  rw [accept_eq_lit]
  unfold clientKeysLit at h
  cases hk : createStreams sha init secret with
  | error e => rw [hk] at h; simp at h
  | ok k =>
    rw [hk] at h
    obtain ⟨hoe, hod⟩ := createStreams_off sha init secret k hk
    -- name the pieces
    let P := init.take 56
    let R := tag ++ putDC dc ++ init.drop 62
    have hP : P.length = 56 := by simp only [P, List.length_take]; omega
    have hR : R.length = 8 := by simp only [R, List.length_append, List.length_drop, putDC, List.length_cons, List.length_nil]; omega
    have hinit' : init.take 56 ++ tag ++ putDC dc ++ init.drop 62 = P ++ R := by simp [P, R]
    let K := ks k.encrypt.key k.encrypt.iv
    have hhdr : header = P ++ xorStream K 56 R ∧ ck = { k with encrypt := { k.encrypt with off := 64 } } := by
      simp only [Stream.xor, xorWith, hinit', hoe, Except.ok.injEq, Prod.mk.injEq] at h
      obtain ⟨h1, h2⟩ := h
      constructor
      · rw [← h1, xorStream_append, hP]
        rw [List.take_left' hP, List.drop_left' (by simp [hP])]
        simp only [Nat.zero_add]
        rw [List.take_of_length_le (by simp [hR])]
      · rw [← h2]; simp [hP, hR]
    obtain ⟨hh, hck⟩ := hhdr
    have hlen : header.length = 64 := by rw [hh]; simp [hP, hR]
    refine ⟨hlen, by rw [hh, List.take_left' hP], ?_⟩
    unfold acceptLit
    have hnl : ¬ header.length < 64 := by omega
    simp only [hnl, if_false]
    have htk : header.take 64 = header := List.take_of_length_le (by omega)
    rw [htk]
    have hmid : createStreams sha header secret = .ok k := by
      rw [← hk]
      apply createStreams_mid
      rw [hh, mid_of_prefix _ _ hP]
      simp only [P]
      rw [List.drop_take]
      simp [List.take_take]
    rw [hmid]
    simp only [Stream.xor, xorWith, hoe]
    have hdec : xorStream K 0 header = xorStream K 0 P ++ R := by
      rw [hh, xorStream_append, hP, Nat.zero_add, xorStream_invol]
    show Except.ok (_, _) = _
    have hd56 : (xorStream K 0 header).drop 56 = R := by
      rw [hdec, List.drop_left' (by simp [hP])]
    have hd60 : (xorStream K 0 header).drop 60 = R.drop 4 := by
      have : (60 : Nat) = 56 + 4 := rfl
      rw [this, ← List.drop_drop, hd56]
    have hproto : ((xorStream K 0 header).drop 56).take 4 = tag := by
      rw [hd56]; simp only [R, List.append_assoc]; exact List.take_left' ht
    have hdcb : ((xorStream K 0 header).drop 60).take 2 = putDC dc := by
      rw [hd60]
      simp only [R, List.append_assoc]
      rw [List.drop_left' ht]
      exact List.take_left' rfl
    have hK : ks k.encrypt.key k.encrypt.iv = K := rfl
    rw [hK, hproto, hdcb]
    have hval : ((putDC dc).headD 0).toNat + 256 * (((putDC dc).drop 1).headD 0).toNat = dc16 dc := by
      have := dc16_lt dc
      simp only [putDC, List.headD_cons, List.drop_succ_cons, List.drop_zero]
      rw [u8n _ (by omega), u8n _ (by omega)]
      omega
    rw [hval, hck, hlen]

end TdModel.C18
