/-
C02/C03 — file E: `getDifference`, the channel workers, quiescence, actions, start; the main
theorem: every run of the manager model keeps the invariant.
-/
import TdModel.Lemmas.C02MgrD

namespace TdModel.C02Core
open TdModel.C01

/-! ### `internalState.getDifference` -/

theorem prelude_eq (O : Orders) (hO : GoodOrders O) (m : Mgr) :
    O.diffPrelude.foldl (Mgr.diffPreludeStep O) (m, none) =
      (({ ((m.seqOp O 0 .clear).seqOp O 1 .clear).clearSeqGaps with
            w := ((((m.seqOp O 0 .clear).seqOp O 1 .clear).clearSeqGaps).w.commonDiff
                    (((m.seqOp O 0 .clear).seqOp O 1 .clear).clearSeqGaps).pts.state
                    (((m.seqOp O 0 .clear).seqOp O 1 .clear).clearSeqGaps).qts.state).1 } : Mgr).emit
          [.apiDiff (((m.seqOp O 0 .clear).seqOp O 1 .clear).clearSeqGaps).pts.state
            (((m.seqOp O 0 .clear).seqOp O 1 .clear).clearSeqGaps).qts.state],
       some ((((m.seqOp O 0 .clear).seqOp O 1 .clear).clearSeqGaps).w.commonDiff
                    (((m.seqOp O 0 .clear).seqOp O 1 .clear).clearSeqGaps).pts.state
                    (((m.seqOp O 0 .clear).seqOp O 1 .clear).clearSeqGaps).qts.state).2) := by
  rw [hO.diffPrelude]
  simp only [List.foldl, Mgr.diffPreludeStep]

theorem minv_tooLong_seq {O log keys org start m} (hO : GoodOrders O) (hS : Scn log keys org)
    (h : MInv O log keys org start m) (k : Nat) (hk1 : k ≠ 1) (p : Int) :
    MInv O log keys org start (m.seqOp O k (.seq tooLongShape p [])) := by
  apply minv_seqOp hO hS h k
  · intro b _; simp [wfOp]
  · intro h1; exact absurd h1 hk1

theorem minv_getDifference {O log keys org start} (hO : GoodOrders O) (hS : Scn log keys org) :
    ∀ fuel m, MInv O log keys org start m → MInv O log keys org start (Mgr.getDifference O fuel m) := by
  intro fuel
  induction fuel with
  | zero => intro m h; exact h
  | succ fuel ih =>
    intro m h
    unfold Mgr.getDifference
    rw [prelude_eq O hO]
    have h2 : MInv O log keys org start ((m.seqOp O 0 .clear).seqOp O 1 .clear).clearSeqGaps :=
      minv_withSeq (minv_clear hO hS (minv_clear hO hS h 0) 1) _
    generalize hm2 : ((m.seqOp O 0 .clear).seqOp O 1 .clear).clearSeqGaps = m2 at *
    have h3 : MInv O log keys org start
        (({ m2 with w := (m2.w.commonDiff m2.pts.state m2.qts.state).1 } : Mgr).emit [.apiDiff m2.pts.state m2.qts.state]) :=
      minv_emit_neutral (minv_world h2 _ (commonDiff_static m2.w m2.pts.state m2.qts.state)) _ (neutral_api log keys _ _)
    generalize hm3 : (({ m2 with w := (m2.w.commonDiff m2.pts.state m2.qts.state).1 } : Mgr).emit
        [.apiDiff m2.pts.state m2.qts.state]) = m3 at *
    have hp3 : m3.pts = m2.pts := by rw [← hm3]; rfl
    have hq3 : m3.qts = m2.qts := by rw [← hm3]; rfl
    simp only
    cases hans : (m2.w.commonDiff m2.pts.state m2.qts.state).2 with
    | empty =>
      simp only
      exact foldl_inv (MInv O log keys org start) _ O.diffEmpty (fun _ => True)
        (fun b c hb _ => by
          show MInv O log keys org start (if c = Call.boxSetSeq then b.setSeqNow else b)
          split
          · exact minv_setSeqNow hb
          · exact hb) m3 h3 (fun _ _ => trivial)
    | error => simpa using h3
    | tooLong p =>
      simp only
      rw [hO.diffTooLong, shape_tooLong.1]
      have h4 := minv_tooLong_seq hO hS h3 0 (by decide) p
      simpa using ih _ h4
    | diff msgs enc others p q slice =>
      simp only
      have hans' : (m2.w.commonDiff (m3.learnUsers (msgs ++ others)).pts.state (m3.learnUsers (msgs ++ others)).qts.state).2 =
          .diff msgs enc others p q slice := by
        show (m2.w.commonDiff m3.pts.state m3.qts.state).2 = _
        rw [hp3, hq3]; exact hans
      have h4 := minv_diffBranch hO hS (minv_learnUsers h3 (msgs ++ others)) m2.w h2.coh.hlog h2.p0 h2.q0 msgs enc others p q slice hans'
      cases slice with
      | false =>
        simp only [Bool.false_eq_true, if_false] at h4 ⊢
        rw [hO.diffDifference] at h4 ⊢
        simpa using h4
      | true =>
        simp only [if_true] at h4 ⊢
        rw [hO.diffSlice] at h4 ⊢
        simpa using ih _ h4

/-! ### `channelState.getDifference` -/

theorem if_nonempty_self (l : List Entry) : (if (!l.isEmpty) = true then l else []) = l := by
  cases l <;> simp

theorem key_of_box {O log keys org start m} (h : MInv O log keys org start m) (k : Nat) (b : Box)
    (hb : m.getBox k = some b) : k ∈ keys := by
  by_cases hk : k ∈ keys
  · exact hk
  · rw [h.coh.nobox k hk] at hb; cases hb

theorem chPrelude_eq (O : Orders) (hO : GoodOrders O) (c : Nat) (m : Mgr) :
    O.chDiffPrelude.foldl (Mgr.chDiffPreludeStep O c) (m, none) =
      match (m.seqOp O (2 + c) .clear).getBox (2 + c) with
      | none => (m.seqOp O (2 + c) .clear, none)
      | some b =>
        (({ m.seqOp O (2 + c) .clear with w := ((m.seqOp O (2 + c) .clear).w.chanDiff c b.state).1 } : Mgr).emit
            [.apiChDiff c b.state], some ((m.seqOp O (2 + c) .clear).w.chanDiff c b.state).2) := by
  rw [hO.chDiffPrelude]
  simp only [List.foldl, Mgr.chDiffPreludeStep]
  split <;> simp_all

theorem minv_chGetDifference {O log keys org start} (hO : GoodOrders O) (hS : Scn log keys org) (c : Nat) :
    ∀ fuel m, MInv O log keys org start m → MInv O log keys org start (Mgr.chGetDifference O c fuel m) := by
  intro fuel
  induction fuel with
  | zero => intro m h; exact h
  | succ fuel ih =>
    intro m h
    unfold Mgr.chGetDifference
    rw [chPrelude_eq O hO]
    have h1 : MInv O log keys org start (m.seqOp O (2 + c) .clear) := minv_clear hO hS h (2 + c)
    generalize hm1 : m.seqOp O (2 + c) .clear = m1 at *
    cases hb : m1.getBox (2 + c) with
    | none => simpa [hb] using h1
    | some b =>
      simp only [hb]
      have hk : 2 + c ∈ keys := key_of_box h1 _ b hb
      have h2 : MInv O log keys org start
          (({ m1 with w := (m1.w.chanDiff c b.state).1 } : Mgr).emit [.apiChDiff c b.state]) :=
        minv_emit_neutral (minv_world h1 _ (chanDiff_static m1.w c b.state)) _ (neutral_apiCh log keys _ _)
      generalize hm2 : (({ m1 with w := (m1.w.chanDiff c b.state).1 } : Mgr).emit [.apiChDiff c b.state]) = m2 at *
      have hb2 : m2.getBox (2 + c) = some b := by rw [← hm2]; exact hb
      have hlog : m1.w.log = log := h1.coh.hlog
      have hsort : KeySorted m1.w.log (2 + c) := by rw [hlog]; exact hS.sorted _ hk
      have honest := chanDiff_honest m1.w c hsort
        (by rw [hlog]; exact fun e he hk' => (hS.above _ hk e he hk').2.1)
        (by rw [hlog, h1.c0 c hk]; exact fun e he hk' => (hS.above _ hk e he hk').1) b.state
      dsimp only at honest
      rw [hlog] at honest
      rcases chanDiff_cases m1.w c b.state with hans | hans | ⟨p, hans⟩ | ⟨hans, hcand⟩ | hans
      · -- a transient error
        rw [hans]
        simpa using h2
      · -- CHANNEL_PRIVATE: the callback, the channel is forgotten
        rw [hans]
        simp only
        exact minv_removeChan (minv_emit_neutral h2 _ (neutral_inaccessible log keys c)) c
      · -- too long
        rw [hans]
        simp only
        rw [hO.chDiffTooLong, shape_tooLong.2.1]
        exact minv_tooLong_seq hO hS h2 (2 + c) (by omega) p
      · -- empty
        rw [hans]
        simp only
        rw [hO.chDiffEmpty, shape_tooLong.2.2.1]
        apply minv_seqOp hO hS h2
        · intro b' hb'
          rw [hb2] at hb'
          have hbb : b' = b := (Option.some.inj hb').symm
          subst hbb
          have hemp := chanDiff_empty_honest m1.w c hsort
            (by rw [hlog, h1.c0 c hk]; exact fun e he hk' => (hS.above _ hk e he hk').1) b'.state hcand
          rw [hlog] at hemp
          simp only [wfOp, List.all_nil, Bool.true_and, Bool.or_eq_true, Bool.and_eq_true, decide_eq_true_eq,
            List.all_eq_true, Bool.not_eq_true']
          left; left; left; right
          refine ⟨trivial, ?_⟩
          intro e he
          by_cases hz : e.count = 0
          · right; exact exempt_of_zero _ e hz
          left
          have hec : 1 ≤ e.count := by
            have := (hS.above _ hk e ((mem_seqLog log _ e).1 he).1 ((mem_seqLog log _ e).1 he).2).2.1
            omega
          have := hemp e he hec
          simp only [Bool.and_eq_false_iff, decide_eq_false_iff_not]
          by_cases h1' : b'.state < e.pos
          · exact Or.inr (fun h2' => this ⟨h1', h2'⟩)
          · exact Or.inl h1'
        · intro h1'; omega
      · -- a difference (possibly forwarding foreign updates, which are handed to the main loop)
        rw [hans]
        simp only
        rw [hO.chOwnDirect]
        simp only [if_true]
        rw [hO.chDiffDifference, shape_tooLong.2.2.2, hO.chDiffGuard, guardHolds_ch, if_nonempty_self]
        generalize hpart : (cut m1.w.chSlice (m1.w.happened.filter fun e : Entry =>
              e.seqKey == some (2 + c) && decide (e.pos > b.state))).1 = part at *
        have h2' : MInv O log keys org start
            (if (List.contains [Call.sendOut, .dispatch, .storeChannelPts, .boxSetPts, .recurse] Call.sendOut = true ∧
                (!((part.filter (·.kind == .chother) ++ m1.w.extrasOf (2 + c)).filter
                    (fun e => !(e.seqKey == some (2 + c)))).isEmpty) = true)
             then { m2 with internal := m2.internal ++ [(part.filter (·.kind == .chother) ++ m1.w.extrasOf (2 + c)).filter
                    (fun e => !(e.seqKey == some (2 + c)))] }
             else m2) := by
          split
          · refine ⟨⟨h2.coh.hlog, h2.coh.box, h2.coh.tr, h2.coh.wf, h2.coh.pend, h2.coh.nobox⟩, h2.p0, h2.q0, h2.c0,
              h2.queues, ?_, h2.startP, h2.startC, h2.parked⟩
            intro cont hc e he
            show e ∈ log
            have hc' : cont ∈ m2.internal ++ [(part.filter (·.kind == .chother) ++ m1.w.extrasOf (2 + c)).filter
                    (fun e => !(e.seqKey == some (2 + c)))] := hc
            rcases List.mem_append.1 hc' with h' | h'
            · exact h2.internal cont h' e he
            · simp only [List.mem_singleton] at h'
              rw [h'] at he
              exact honest.2.2 e (List.mem_filter.1 he).1
          · exact h2
        generalize hm2' : (if (List.contains [Call.sendOut, .dispatch, .storeChannelPts, .boxSetPts, .recurse] Call.sendOut = true ∧
                (!((part.filter (·.kind == .chother) ++ m1.w.extrasOf (2 + c)).filter
                    (fun e => !(e.seqKey == some (2 + c)))).isEmpty) = true)
             then { m2 with internal := m2.internal ++ [(part.filter (·.kind == .chother) ++ m1.w.extrasOf (2 + c)).filter
                    (fun e => !(e.seqKey == some (2 + c)))] }
             else m2) = m2' at *
        have hb2' : m2'.getBox (2 + c) = some b := by
          rw [← hm2']; split
          · exact hb2
          · exact hb2
        have h3 : MInv O log keys org start (m2'.seqOp O (2 + c) (.seq diffShape
            (if part.isEmpty then max b.state (m1.w.serverChan c) else lastPos b.state (fun _ => true) part)
            (part.filter (·.kind == .chmsg) ++
              (part.filter (·.kind == .chother) ++ m1.w.extrasOf (2 + c)).filter (·.seqKey == some (2 + c))))) := by
          apply minv_seqOp hO hS h2'
          · intro b' hb'
            rw [hb2'] at hb'
            have hbb : b' = b := (Option.some.inj hb').symm
            subst hbb
            simp only [wfOp, Bool.and_eq_true, Bool.or_eq_true, List.all_eq_true, decide_eq_true_eq, Bool.not_eq_true']
            refine ⟨fun e he => honest.2.1 e he, Or.inl (Or.inl (Or.inl (Or.inl ⟨trivial, ?_⟩)))⟩
            intro e he
            by_cases hr : b'.state < e.pos ∧ e.pos ≤
                (if part.isEmpty then max b'.state (m1.w.serverChan c) else lastPos b'.state (fun _ => true) part)
            · rcases honest.1 e he hr.1 hr.2 with h' | h'
              · exact Or.inl (Or.inr h')
              · exact Or.inr h'
            · left; left
              simp only [Bool.and_eq_false_iff, decide_eq_false_iff_not]
              by_cases h1' : b'.state < e.pos
              · exact Or.inr (fun h2' => hr ⟨h1', h2'⟩)
              · exact Or.inl h1'
          · intro h1'; omega
        split
        · exact ih _ h3
        · exact h3

end TdModel.C02Core
