import TdModel.Lemmas.C39

/-! C39 — dialogs iterator: same argument as for messages, over the lexicographic `(date, top, peer)` order. -/

namespace TdModel.C39
open TdModel

theorem Dlg.lt_iff (a b : Dlg) : a.lt b = true ↔
    (a.date < b.date ∨ (a.date = b.date ∧ (a.top < b.top ∨ (a.top = b.top ∧ a.peer < b.peer)))) := by
  simp [Dlg.lt]

theorem Dlg.lt_irrefl (a : Dlg) : a.lt a = false := by
  cases h : a.lt a with
  | false => rfl
  | true => rw [Dlg.lt_iff] at h; omega

theorem Dlg.lt_asymm (a b : Dlg) (h : a.lt b = true) : b.lt a = false := by
  cases h2 : b.lt a with
  | false => rfl
  | true => rw [Dlg.lt_iff] at h h2; omega

theorem Dlg.lt_trans (a b c : Dlg) (h1 : a.lt b = true) (h2 : b.lt c = true) : a.lt c = true := by
  rw [Dlg.lt_iff] at h1 h2 ⊢; omega

/-- Strictly descending in the server's order. -/
abbrev DescD (l : List Dlg) : Prop := l.Pairwise (fun a b => b.lt a = true)

theorem filter_lt_descD (a : List Dlg) (m : Dlg) (b : List Dlg) (h : DescD (a ++ m :: b)) :
    (a ++ m :: b).filter (fun x => x.lt m) = b := by
  induction a with
  | nil =>
    have hb : ∀ x ∈ b, x.lt m = true := (List.pairwise_cons.mp h).1
    simp only [List.nil_append, List.filter_cons, Dlg.lt_irrefl, Bool.false_eq_true, if_false]
    exact List.filter_eq_self.mpr hb
  | cons y a ih =>
    have hp := List.pairwise_cons.mp h
    have hym : m.lt y = true := hp.1 m (by simp)
    simp only [List.cons_append, List.filter_cons, Dlg.lt_asymm m y hym, Bool.false_eq_true, if_false]
    exact ih hp.2

theorem descD_belowD (ds : List Dlg) (off : Dlg) (h : DescD ds) : DescD (belowD ds off) := by
  unfold belowD
  split
  · exact h
  · exact h.filter _

theorem belowD_last (ds : List Dlg) (hd : DescD ds) (hp : ∀ x ∈ ds, x ≠ Dlg.zero) (off : Dlg) (k : Nat) (m : Dlg)
    (hm : ((belowD ds off).take k).getLast? = some m) :
    belowD ds m = (belowD ds off).drop k := by
  obtain ⟨a, ha⟩ := List.getLast?_eq_some_iff.mp hm
  have hrem : belowD ds off = a ++ m :: (belowD ds off).drop k := by
    have := List.take_append_drop k (belowD ds off)
    rw [ha] at this
    simpa using this.symm
  have hdr := descD_belowD ds off hd
  have hmem : m ∈ belowD ds off := by rw [hrem]; simp
  have hmz : m ≠ Dlg.zero := by
    have : m ∈ ds := by
      unfold belowD at hmem
      split at hmem
      · exact hmem
      · exact (List.mem_filter.mp hmem).1
    exact hp m this
  have hfl : (belowD ds off).filter (fun x => x.lt m) = (belowD ds off).drop k := by
    have h2 := hdr
    rw [hrem] at h2
    have := filter_lt_descD a m _ h2
    rw [← hrem] at this
    exact this
  rw [← hfl]
  unfold belowD
  simp only [hmz, if_false]
  split
  · rfl
  · rename_i hoff
    have hmo : m.lt off = true := by
      unfold belowD at hmem
      simp only [hoff, if_false] at hmem
      exact (List.mem_filter.mp hmem).2
    rw [List.filter_filter]
    apply List.filter_congr
    intro x _
    cases hx : x.lt m with
    | true => simp [Dlg.lt_trans x m off hx hmo]
    | false => simp

def dpending (ds : List Dlg) (s : DIter) : List Dlg :=
  s.buf.drop s.pos ++ (if s.lastBatch then [] else belowD ds s.off)

theorem dbufHas_eq (s : DIter) : dbufHas s = decide (s.pos < s.buf.length) := by
  simp [dbufHas, Facts.C39.dlgBufNextStopsAtEnd]

def DIter.adv (s : DIter) : DIter := { s with pos := s.pos + 1 }

theorem drunS_buf (srv : DServer) (fuel i : Nat) (s : DIter) (h : dbufHas s = true) :
    drunS srv (fuel + 1) i s =
      { drunS srv fuel i s.adv with yields := s.buf.getD s.pos Dlg.zero :: (drunS srv fuel i s.adv).yields } := by
  rw [drunS]; simp only [h, if_true]; rfl

theorem drunS_stop (srv : DServer) (fuel i : Nat) (s : DIter) (h : dbufHas s = false)
    (he : (s.apply (srv i s.off s.limit).1 (srv i s.off s.limit).2).err = false)
    (h' : dbufHas (s.apply (srv i s.off s.limit).1 (srv i s.off s.limit).2) = false) :
    drunS srv (fuel + 1) i s = { yields := [], reqs := [(s.off, s.limit)], done := true } := by
  rw [drunS]; simp only [h, h', he, Bool.false_eq_true, if_false]

theorem drunS_go (srv : DServer) (fuel i : Nat) (s : DIter) (h : dbufHas s = false)
    (he : (s.apply (srv i s.off s.limit).1 (srv i s.off s.limit).2).err = false)
    (h' : dbufHas (s.apply (srv i s.off s.limit).1 (srv i s.off s.limit).2) = true) :
    drunS srv (fuel + 1) i s =
      let s' := s.apply (srv i s.off s.limit).1 (srv i s.off s.limit).2
      let o := drunS srv fuel (i + 1) s'.adv
      { yields := s'.buf.getD s'.pos Dlg.zero :: o.yields, reqs := (s.off, s.limit) :: o.reqs, done := o.done,
        err := o.err } := by
  rw [drunS]; simp only [h, Bool.false_eq_true, if_false]
  split
  all_goals first
    | rfl
    | (rename_i hh; rw [he] at hh; cases hh)
    | (rename_i hh; rw [h'] at hh; exact absurd rfl hh)
    | (rename_i _ hh; rw [h'] at hh; exact absurd rfl hh)

theorem dpending_consume (ds : List Dlg) (s : DIter) (h : dbufHas s = true) :
    dpending ds s = s.buf.getD s.pos Dlg.zero :: dpending ds s.adv := by
  have hb : s.pos < s.buf.length := by simpa [dbufHas_eq] using h
  have hdrop : s.buf.drop s.pos = s.buf[s.pos] :: s.buf.drop (s.pos + 1) := List.drop_eq_getElem_cons hb
  have hget : s.buf.getD s.pos Dlg.zero = s.buf[s.pos] := by simp [List.getD, hb]
  simp only [dpending, DIter.adv]
  rw [hdrop, hget]
  rfl

theorem dpending_lastBatch (ds : List Dlg) (s : DIter) (h : dbufHas s = false) (hlb : s.lastBatch = true) :
    dpending ds s = [] := by
  have hb : ¬ s.pos < s.buf.length := by simpa [dbufHas_eq] using h
  simp [dpending, hlb, List.drop_eq_nil_of_le (Nat.le_of_not_lt hb)]

theorem dapply_lastBatch (s : DIter) (k : Kind) (pg : List Dlg) (hlb : s.lastBatch = true) : s.apply k pg = s := by
  simp [DIter.apply, hlb]

theorem dlbRule_full (n L : Nat) : lbRule (dlbCode .full) n L = true := by
  simp [dlbCode, Facts.C39.dlgLastBatchFull, lbRule]

theorem dlbRule_slice (n L : Nat) : lbRule (dlbCode .slice) n L = decide (n = 0) := by
  simp [dlbCode, Facts.C39.dlgLastBatchSlice, lbRule]

theorem dapply_hist (ds : List Dlg) (hd : DescD ds) (hp : ∀ x ∈ ds, x ≠ Dlg.zero) (ks : List Kind) (cap i : Nat)
    (s : DIter) (hN : ∀ d ∈ ds, d.peer ∉ s.noEntity) (hE : s.err = false)
    (hL : 0 < min s.limit cap) (h : dbufHas s = false) (hlb : s.lastBatch = false) :
    let a := dlgServer ds ks cap i s.off s.limit
    let s' := s.apply a.1 a.2
    (s'.err = false ∧ s'.noEntity = s.noEntity) ∧
    ((dpending ds s = [] ∧ dbufHas s' = false) ∨
     (dbufHas s' = true ∧ dpending ds s' = dpending ds s ∧ s'.limit = s.limit)) := by
  have hb : ¬ s.pos < s.buf.length := by simpa [dbufHas_eq] using h
  have hpend : dpending ds s = belowD ds s.off := by
    simp [dpending, hlb, List.drop_eq_nil_of_le (Nat.le_of_not_lt hb)]
  simp only [dlgServer]
  generalize hps : min s.limit cap = ps at hL ⊢
  cases hlast : ((belowD ds s.off).take ps).getLast? with
  | none =>
    have hnil : (belowD ds s.off).take ps = [] := List.getLast?_eq_none_iff.mp hlast
    have hrem : belowD ds s.off = [] := by
      rcases List.take_eq_nil_iff.mp hnil with h | h
      · omega
      · exact h
    refine ⟨by simp [DIter.apply, hlb, hnil, hE], Or.inl ⟨by rw [hpend, hrem], ?_⟩⟩
    simp [DIter.apply, hlb, hnil, dbufHas_eq]
  | some m =>
    have hne : (belowD ds s.off).take ps ≠ [] := by
      intro h; rw [h] at hlast; simp at hlast
    have hlenpos := List.length_pos_iff.mpr hne
    have hmem : m ∈ ds := by
      have h1 : m ∈ (belowD ds s.off).take ps := List.mem_of_getLast? hlast
      have h2 : m ∈ belowD ds s.off := List.mem_of_mem_take h1
      unfold belowD at h2
      split at h2
      · exact h2
      · exact (List.mem_filter.mp h2).1
    have hcont : s.noEntity.contains m.peer = false := by
      have := hN m hmem
      simp [this]
    by_cases hfull : (ks.getD i Kind.slice = Kind.full) ∧ (belowD ds s.off).length ≤ ps
    · -- complete answer: `messages.dialogs`
      have hk : respKindD (ks.getD i Kind.slice) (belowD ds s.off).length ps = .full := by
        unfold respKindD; rw [hfull.1]; simp [hfull.2]
      have htake : (belowD ds s.off).take ps = belowD ds s.off := List.take_of_length_le hfull.2
      rw [hpend]
      simp only [hk, DIter.apply, hlb, Bool.false_eq_true, if_false, dlbRule_full, hlast, if_true]
      refine ⟨⟨hE, trivial⟩, Or.inr ⟨by simpa [dbufHas_eq] using hlenpos, ?_, trivial⟩⟩
      simp [dpending, htake]
    · have hk : respKindD (ks.getD i Kind.slice) (belowD ds s.off).length ps = .slice := by
        unfold respKindD
        cases hkk : ks.getD i Kind.slice with
        | full =>
          have : ¬ (belowD ds s.off).length ≤ ps := fun hh => hfull ⟨hkk, hh⟩
          simp [this]
        | slice => rfl
        | channel => rfl
      have hlen0 : ¬ ((belowD ds s.off).take ps).length = 0 := by omega
      rw [hpend]
      simp only [hk, DIter.apply, hlb, Bool.false_eq_true, if_false, dlbRule_slice, hlast, hlen0, decide_false,
        hcont, Bool.and_false]
      refine ⟨⟨hE, trivial⟩, Or.inr ⟨by simpa [dbufHas_eq] using hlenpos, ?_, trivial⟩⟩
      have := belowD_last ds hd hp s.off ps m hlast
      simp only [dpending, List.drop_zero, Bool.false_eq_true, if_false, this]
      exact List.take_append_drop _ _

theorem dapply_gen (ds : List Dlg) (hd : DescD ds) (hp : ∀ x ∈ ds, x ≠ Dlg.zero) (ks : List Kind) (cap i : Nat)
    (s : DIter) (hE : s.err = false)
    (hL : 0 < min s.limit cap) (h : dbufHas s = false) (hlb : s.lastBatch = false) :
    let a := dlgServer ds ks cap i s.off s.limit
    let s' := s.apply a.1 a.2
    s'.err = true ∨
    ((s'.err = false ∧ s'.noEntity = s.noEntity) ∧
     ((dpending ds s = [] ∧ dbufHas s' = false) ∨
      (dbufHas s' = true ∧ dpending ds s' = dpending ds s ∧ s'.limit = s.limit))) := by
  have hb : ¬ s.pos < s.buf.length := by simpa [dbufHas_eq] using h
  have hpend : dpending ds s = belowD ds s.off := by
    simp [dpending, hlb, List.drop_eq_nil_of_le (Nat.le_of_not_lt hb)]
  simp only [dlgServer]
  generalize hps : min s.limit cap = ps at hL ⊢
  cases hlast : ((belowD ds s.off).take ps).getLast? with
  | none =>
    have hnil : (belowD ds s.off).take ps = [] := List.getLast?_eq_none_iff.mp hlast
    have hrem : belowD ds s.off = [] := by
      rcases List.take_eq_nil_iff.mp hnil with h | h
      · omega
      · exact h
    refine Or.inr ⟨by simp [DIter.apply, hlb, hnil, hE], Or.inl ⟨by rw [hpend, hrem], ?_⟩⟩
    simp [DIter.apply, hlb, hnil, dbufHas_eq]
  | some m =>
    have hne : (belowD ds s.off).take ps ≠ [] := by
      intro h; rw [h] at hlast; simp at hlast
    have hlenpos := List.length_pos_iff.mpr hne
    by_cases hfull : (ks.getD i Kind.slice = Kind.full) ∧ (belowD ds s.off).length ≤ ps
    · -- complete answer: `messages.dialogs`
      have hk : respKindD (ks.getD i Kind.slice) (belowD ds s.off).length ps = .full := by
        unfold respKindD; rw [hfull.1]; simp [hfull.2]
      have htake : (belowD ds s.off).take ps = belowD ds s.off := List.take_of_length_le hfull.2
      rw [hpend]
      simp only [hk, DIter.apply, hlb, Bool.false_eq_true, if_false, dlbRule_full, hlast, if_true]
      refine Or.inr ⟨⟨hE, trivial⟩, Or.inr ⟨by simpa [dbufHas_eq] using hlenpos, ?_, trivial⟩⟩
      simp [dpending, htake]
    · have hk : respKindD (ks.getD i Kind.slice) (belowD ds s.off).length ps = .slice := by
        unfold respKindD
        cases hkk : ks.getD i Kind.slice with
        | full =>
          have : ¬ (belowD ds s.off).length ≤ ps := fun hh => hfull ⟨hkk, hh⟩
          simp [this]
        | slice => rfl
        | channel => rfl
      have hlen0 : ¬ ((belowD ds s.off).take ps).length = 0 := by omega
      rw [hpend]
      cases hcont : s.noEntity.contains m.peer with
      | true =>
        left
        simp only [hk, DIter.apply, hlb, Bool.false_eq_true, if_false, dlbRule_slice, hlast, hlen0, decide_false,
          hcont, Facts.C39.dlgOffsetPeerFromEntities, Bool.and_self, if_true]
      | false =>
      simp only [hk, DIter.apply, hlb, Bool.false_eq_true, if_false, dlbRule_slice, hlast, hlen0, decide_false,
        hcont, Bool.and_false]
      refine Or.inr ⟨⟨hE, trivial⟩, Or.inr ⟨by simpa [dbufHas_eq] using hlenpos, ?_, trivial⟩⟩
      have := belowD_last ds hd hp s.off ps m hlast
      simp only [dpending, List.drop_zero, Bool.false_eq_true, if_false, this]
      exact List.take_append_drop _ _

theorem drunS_exact (ds : List Dlg) (hd : DescD ds) (hp : ∀ x ∈ ds, x ≠ Dlg.zero) (ks : List Kind)
    (cap : Nat) (hcap : 0 < cap) :
    ∀ (fuel i : Nat) (s : DIter), (∀ d ∈ ds, d.peer ∉ s.noEntity) → s.err = false →
      0 < s.limit → (dpending ds s).length < fuel →
      (drunS (dlgServer ds ks cap) fuel i s).yields = dpending ds s ∧
      (drunS (dlgServer ds ks cap) fuel i s).done = true ∧
      (drunS (dlgServer ds ks cap) fuel i s).err = false := by
  intro fuel
  induction fuel with
  | zero => intro i s _ _ _ h; omega
  | succ fuel ih =>
    intro i s hN hE hL hfuel
    cases hbh : dbufHas s with
    | true =>
      rw [drunS_buf _ _ _ _ hbh]
      have hc := dpending_consume ds s hbh
      have := ih i s.adv hN hE hL (by rw [hc] at hfuel; simp at hfuel; omega)
      rw [hc]
      exact ⟨by simp [this.1], this.2.1, this.2.2⟩
    | false =>
      cases hlb : s.lastBatch with
      | true =>
        rw [drunS_stop _ _ _ _ hbh (by rw [dapply_lastBatch _ _ _ hlb]; exact hE)
          (by rw [dapply_lastBatch _ _ _ hlb]; exact hbh)]
        simp [dpending_lastBatch ds s hbh hlb]
      | false =>
        obtain ⟨⟨he', hn'⟩, hcase⟩ := dapply_hist ds hd hp ks cap i s hN hE (by omega) hbh hlb
        rcases hcase with ⟨hp0, hstop⟩ | ⟨hgo, hpe, hlim⟩
        · rw [drunS_stop _ _ _ _ hbh he' hstop]
          simp [hp0]
        · rw [drunS_go _ _ _ _ hbh he' hgo]
          have hc := dpending_consume ds _ hgo
          have := ih (i + 1) (s.apply (dlgServer ds ks cap i s.off s.limit).1
              (dlgServer ds ks cap i s.off s.limit).2).adv (by simpa [DIter.adv, hn'] using hN)
            (by simpa [DIter.adv] using he') (by simpa [DIter.adv, hlim] using hL)
            (by rw [← hpe, hc] at hfuel; simp at hfuel; omega)
          rw [← hpe, hc]
          exact ⟨by simp [this.1], this.2.1, this.2.2⟩

theorem drunS_err (srv : DServer) (fuel i : Nat) (s : DIter) (h : dbufHas s = false)
    (he : (s.apply (srv i s.off s.limit).1 (srv i s.off s.limit).2).err = true) :
    drunS srv (fuel + 1) i s = { yields := [], reqs := [(s.off, s.limit)], done := true, err := true } := by
  rw [drunS]; simp only [h, he, Bool.false_eq_true, if_false, if_true]

/-- Whatever entities are missing: what is yielded is a prefix of what was pending (so nothing is yielded
twice and nothing out of order), the iteration ends, and unless it ends with an error the prefix is
everything. -/
theorem drunS_prefix (ds : List Dlg) (hd : DescD ds) (hp : ∀ x ∈ ds, x ≠ Dlg.zero) (ks : List Kind)
    (cap : Nat) (hcap : 0 < cap) :
    ∀ (fuel i : Nat) (s : DIter), s.err = false → 0 < s.limit → (dpending ds s).length < fuel →
      ∃ rest, (drunS (dlgServer ds ks cap) fuel i s).yields ++ rest = dpending ds s ∧
        (drunS (dlgServer ds ks cap) fuel i s).done = true ∧
        ((drunS (dlgServer ds ks cap) fuel i s).err = false → rest = []) := by
  intro fuel
  induction fuel with
  | zero => intro i s _ _ h; omega
  | succ fuel ih =>
    intro i s hE hL hfuel
    cases hbh : dbufHas s with
    | true =>
      rw [drunS_buf _ _ _ _ hbh]
      have hc := dpending_consume ds s hbh
      obtain ⟨rest, h1, h2, h3⟩ := ih i s.adv hE hL (by rw [hc] at hfuel; simp at hfuel; omega)
      exact ⟨rest, by rw [hc]; simp [h1], h2, h3⟩
    | false =>
      cases hlb : s.lastBatch with
      | true =>
        rw [drunS_stop _ _ _ _ hbh (by rw [dapply_lastBatch _ _ _ hlb]; exact hE)
          (by rw [dapply_lastBatch _ _ _ hlb]; exact hbh)]
        exact ⟨[], by simp [dpending_lastBatch ds s hbh hlb], rfl, fun _ => rfl⟩
      | false =>
        rcases dapply_gen ds hd hp ks cap i s hE (by omega) hbh hlb with herr | ⟨⟨he', _⟩, hcase⟩
        · rw [drunS_err _ _ _ _ hbh herr]
          exact ⟨dpending ds s, by simp, rfl, fun h => by simp at h⟩
        · rcases hcase with ⟨hp0, hstop⟩ | ⟨hgo, hpe, hlim⟩
          · rw [drunS_stop _ _ _ _ hbh he' hstop]
            exact ⟨[], by simp [hp0], rfl, fun _ => rfl⟩
          · rw [drunS_go _ _ _ _ hbh he' hgo]
            have hc := dpending_consume ds _ hgo
            obtain ⟨rest, h1, h2, h3⟩ := ih (i + 1) (s.apply (dlgServer ds ks cap i s.off s.limit).1
                (dlgServer ds ks cap i s.off s.limit).2).adv
              (by simpa [DIter.adv] using he') (by simpa [DIter.adv, hlim] using hL)
              (by rw [← hpe, hc] at hfuel; simp at hfuel; omega)
            exact ⟨rest, by rw [← hpe, hc]; simp [h1], h2, h3⟩

end TdModel.C39
