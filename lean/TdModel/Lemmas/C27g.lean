/-
C27 — the step that hands a connection to a caller has "not dead" as a guard.
-/
import TdModel.Lemmas.C27f

set_option linter.unusedSimpArgs false

namespace TdModel.C27

theorem setPc_using {t : State} {i0 : Nat} {x : Caller} {p : PC} {i : Nat} {y : Caller} {c : Nat}
    (hy : (setPc t i0 x p).callers[i]? = some y) (hp : y.pc = .using c) :
    (i = i0 ∧ p = .using c) ∨ t.callers[i]? = some y := by
  simp only [setPc, List.getElem?_set] at hy
  by_cases hi : i0 = i
  · subst hi
    simp only [if_true] at hy
    split at hy
    · cases hy
      exact Or.inl ⟨rfl, hp⟩
    · cases hy
  · simp only [hi, if_false] at hy
    exact Or.inr hy

theorem handOut_using {cfg : Cfg} (hg : cfg.handoutChecksDead = true) {t : State} {i0 : Nat} {x : Caller}
    {d i : Nat} {y : Caller} {c : Nat}
    (hy : (handOut cfg t i0 x d).callers[i]? = some y) (hp : y.pc = .using c) :
    (i = i0 ∧ d = c ∧ isDead t c = false) ∨ t.callers[i]? = some y := by
  unfold handOut at hy
  by_cases hd : isDead t d = true
  · simp only [hg, hd, and_self, if_true] at hy
    rcases setPc_using hy hp with ⟨_, h2⟩ | h
    · cases h2
    · exact Or.inr h
  · have hd' : isDead t d = false := by simpa using hd
    simp only [hd', Bool.false_eq_true, and_false, if_false] at hy
    rcases setPc_using hy hp with ⟨h1, h2⟩ | h
    · cases h2
      exact Or.inl ⟨h1, rfl, hd'⟩
    · exact Or.inr h

theorem release_callers {s s1 : State} {d : Nat} {k : Option Nat} (h : release s d k = some s1) :
    s1.callers = s.callers := (release_spec h).2.2.2.2.1

/-- If caller `i` is using `c` after a step and was not before, the step checked that `c` is not dead. -/
theorem handout_checks {cfg : Cfg} (hgood : Good cfg) {s s' : State} (a : Action)
    (h : step cfg s a = some s') (i : Nat) (y : Caller) (c : Nat)
    (hy : s'.callers[i]? = some y) (hp : y.pc = .using c)
    (hnot : ∀ x, s.callers[i]? = some x → x.pc ≠ .using c) : isDead s c = false := by
  obtain ⟨hg, _, hgB, hgT, hgR⟩ := hgood
  have old : ∀ {P : Prop}, s.callers[i]? = some y → P := fun h' => absurd hp (hnot y h')
  cases a with
  | closeDC =>
    simp only [step] at h
    split at h
    · cases h
    · cases h; exact old hy
  | start j =>
    simp only [step, markDeadCfg_good hgR, hgB, hgT, if_true] at h
    split at h
    · split at h
      · cases h
        rcases setPc_using hy hp with ⟨_, h2⟩ | h'
        · cases hcl : s.closed <;> rw [hcl] at h2 <;> simp at h2
        · exact old h'
      · cases h
    · cases h
  | enter j =>
    simp only [step, markDeadCfg_good hgR, hgB, hgT, if_true] at h
    split at h
    · split at h
      · split at h
        · cases h
          rcases setPc_using hy hp with ⟨_, h2⟩ | h'
          · cases h2
          · exact old h'
        · split at h
          · cases h
            rcases setPc_using hy hp with ⟨_, h2⟩ | h'
            · cases h2
            · exact old h'
          · cases h
            rcases setPc_using hy hp with ⟨_, h2⟩ | h'
            · cases h2
            · exact old h'
      · cases h
    · cases h
  | mk j =>
    simp only [step, markDeadCfg_good hgR, hgB, hgT, if_true] at h
    split at h
    · split at h
      · cases h
        rcases setPc_using hy hp with ⟨_, h2⟩ | h'
        · cases h2
        · exact old h'
      · cases h
    · cases h
  | check j =>
    simp only [step, markDeadCfg_good hgR, hgB, hgT, if_true] at h
    split at h
    · split at h
      · split at h
        · cases h
          rcases setPc_using hy hp with ⟨_, h2⟩ | h'
          · cases h2
          · exact old h'
        · rename_i hd
          cases h
          rcases setPc_using hy hp with ⟨_, h2⟩ | h'
          · cases h2
            simpa using hd
          · exact old h'
      · cases h
    · cases h
  | cwake j b =>
    simp only [step, markDeadCfg_good hgR, hgB, hgT, if_true] at h
    split at h
    · split at h
      · split at h
        · cases b with
          | ready =>
            simp only at h
            split at h
            · cases h
              rcases handOut_using hg hy hp with ⟨_, _, h3⟩ | h'
              · exact h3
              · exact old h'
            · cases h
          | dead =>
            simp only at h
            split at h
            · cases h
              rcases setPc_using hy hp with ⟨_, h2⟩ | h'
              · cases h2
              · exact old h'
            · cases h
          | ctx =>
            simp only at h
            split at h
            · cases h
              rcases setPc_using hy hp with ⟨_, h2⟩ | h'
              · cases h2
              · exact old h'
            · cases h
          | dc =>
            simp only at h
            split at h
            · cases h
              rcases setPc_using hy hp with ⟨_, h2⟩ | h'
              · cases h2
              · exact old h'
            · cases h
        · cases h
      · cases h
    · cases h
  | wwake j b =>
    simp only [step, markDeadCfg_good hgR, hgB, hgT, if_true] at h
    split at h
    · split at h
      · cases b with
        | ch =>
          simp only at h
          split at h
          · cases h
            rcases handOut_using hg hy hp with ⟨_, _, h3⟩ | h'
            · exact h3
            · exact old h'
          · cases h
        | stuck =>
          simp only at h
          split at h
          · cases h
            rcases setPc_using hy hp with ⟨_, h2⟩ | h'
            · cases h2
            · exact old h'
          · cases h
        | ctx =>
          simp only at h
          split at h
          · cases h
            rcases setPc_using hy hp with ⟨_, h2⟩ | h'
            · cases h2
            · exact old h'
          · cases h
        | dc =>
          simp only at h
          split at h
          · cases h
            rcases setPc_using hy hp with ⟨_, h2⟩ | h'
            · cases h2
            · exact old h'
          · cases h
      · cases h
    · cases h
  | giveup j ko =>
    simp only [step, markDeadCfg_good hgR, hgB, hgT, if_true] at h
    split at h
    · split at h
      · rename_i k w _
        split at h
        · split at h
          · cases h
            rcases setPc_using hy hp with ⟨_, h2⟩ | h'
            · cases w <;> cases h2
            · exact old h'
          · cases h
        · cases w with
          | stuck =>
            simp only at h
            split at h
            · cases h
              rcases handOut_using hg hy hp with ⟨_, _, h3⟩ | h'
              · exact h3
              · exact old h'
            · cases h
          | ctx =>
            simp only at h
            split at h
            · rename_i s3 hrel
              cases h
              rcases setPc_using hy hp with ⟨_, h2⟩ | h'
              · cases h2
              · rw [release_callers hrel] at h'
                exact old h'
            · cases h
      · cases h
    · cases h
  | finish j r ko =>
    simp only [step, markDeadCfg_good hgR, hgB, hgT, if_true] at h
    split at h
    · split at h
      · split at h
        · split at h
          · cases h
            rcases setPc_using hy hp with ⟨_, h2⟩ | h'
            · cases h2
            · rw [markDead_callers] at h'
              exact old h'
          · cases h
        · split at h
          · rename_i s1 hrel
            cases h
            rcases setPc_using hy hp with ⟨_, h2⟩ | h'
            · cases h2
            · rw [release_callers hrel] at h'
              exact old h'
          · cases h
      · cases h
    · cases h
  | ready d =>
    simp only [step, markDeadCfg_good hgR, hgB, hgT, if_true] at h
    split at h
    · cases h; exact old hy
    · cases h
  | die d =>
    simp only [step, markDeadCfg_good hgR, hgB, hgT, if_true] at h
    split at h
    · cases h
      rw [markDead_callers] at hy
      exact old hy
    · cases h
  | cancel j =>
    simp only [step, markDeadCfg_good hgR, hgB, hgT, if_true] at h
    split at h
    · rename_i x hx
      cases h
      simp only [List.getElem?_set] at hy
      by_cases hj : j = i
      · subst hj
        simp only [if_true] at hy
        split at hy
        · cases hy
          exact absurd hp (hnot x hx)
        · cases hy
      · simp only [hj, if_false] at hy
        exact old hy
    · cases h
  | bg d rel ko =>
    simp only [step, markDeadCfg_good hgR, hgB, hgT, if_true] at h
    split at h
    · split at h
      · cases rel with
        | true =>
          simp only [if_true] at h
          split at h
          · rw [release_callers h] at hy
            exact old hy
          · cases h
        | false =>
          simp only [Bool.false_eq_true, if_false] at h
          split at h
          · cases h; exact old hy
          · cases h
      · cases h
    · cases h

end TdModel.C27
