/-
C15 — helper lemmas (core Lean only).
-/
import TdModel.Model.C15
import TdModel.Lemmas.C13
import TdModel.Lemmas.C14

namespace TdModel.C15
open TdModel TdModel.C14

theorem pow256 : (256 : Nat) ^ 256 = 2 ^ 2048 := by
  have h : (256 : Nat) = 2 ^ 8 := by decide
  rw [h, ← Nat.pow_mul]

theorem pad256FromBig_of_lt (n : Nat) (h : n < 256 ^ 256) : Impl.pad256FromBig n = some (beBytes 256 n) := by
  unfold Impl.pad256FromBig
  simp [Nat.not_le.mpr h]

theorem pad256_of_len (b : Bytes) (h : b.length = 256) : Impl.pad256 b = b := by
  unfold Impl.pad256
  simp [h]

theorem leN_zero (j : Nat) : Bin.leN j 0 = List.replicate j 0 := by
  induction j with
  | zero => rfl
  | succ j ih => simp [Bin.leN, ih, List.replicate_succ]

theorem leN_extend (k j n : Nat) (h : n < 256 ^ k) :
    Bin.leN (k + j) n = Bin.leN k n ++ List.replicate j 0 := by
  induction k generalizing n with
  | zero =>
    have : n = 0 := by simpa using h
    subst this
    simp [Bin.leN, leN_zero]
  | succ k ih =>
    have h2 : n / 256 < 256 ^ k := by
      rw [Nat.pow_succ] at h
      exact Nat.div_lt_of_lt_mul (by omega)
    rw [show k + 1 + j = (k + j) + 1 by omega]
    simp only [Bin.leN, ih _ h2, List.cons_append]

/-- `pad256` of at most 256 bytes is the 2048-bit big-endian form of the number. -/
theorem pad256_eq_pad (b : Bytes) (h : b.length ≤ 256) : Impl.pad256 b = Spec.pad (beNat b) := by
  unfold Impl.pad256 Spec.pad
  by_cases h256 : b.length ≥ 256
  · have hl : b.length = 256 := by omega
    rw [if_pos h256, hl, Nat.sub_self, List.drop_zero, ← hl, beBytes_beNat]
  · rw [if_neg h256]
    unfold beBytes
    have hlt := beNat_lt b
    rw [show 256 = b.length + (256 - b.length) by omega, leN_extend _ _ _ hlt, List.reverse_append,
      List.reverse_replicate]
    have := beBytes_beNat b
    unfold beBytes at this
    rw [this]
    congr 2
    omega

/-- `pad256` is the 2048-bit big-endian form of the number for *every* byte string whose value fits
2048 bits — shorter than 256 bytes (left-padded), exactly 256, or longer with leading zero bytes
(the last 256 bytes are kept). -/
theorem pad256_eq_pad' (b : Bytes) (h : beNat b < 256 ^ 256) : Impl.pad256 b = Spec.pad (beNat b) := by
  by_cases hle : b.length ≤ 256
  · exact pad256_eq_pad b hle
  · unfold Impl.pad256 Spec.pad
    rw [if_pos (by omega)]
    have h1 := Bin.leN_fromLE b.reverse
    rw [List.length_reverse] at h1
    have hlen : b.length = 256 + (b.length - 256) := by omega
    have h2 : Bin.leN b.length (beNat b) = Bin.leN 256 (beNat b) ++ List.replicate (b.length - 256) 0 := by
      conv => lhs; rw [hlen]
      exact leN_extend 256 _ _ h
    have hb : b = List.replicate (b.length - 256) 0 ++ beBytes 256 (beNat b) := by
      have : b.reverse = Bin.leN 256 (beNat b) ++ List.replicate (b.length - 256) 0 := by
        rw [← h2]; exact h1.symm
      have h3 := congrArg List.reverse this
      rw [List.reverse_reverse, List.reverse_append, List.reverse_replicate] at h3
      exact h3
    conv => lhs; rw [hb]
    rw [List.drop_left' (by simp)]

theorem pad_beNat (b : Bytes) (h : b.length = 256) : Spec.pad (beNat b) = b := by
  unfold Spec.pad
  rw [← h, beBytes_beNat]

/-- A group accepted by `CheckDH` has a modulus `2^2047 ≤ p < 2^2048`. -/
theorem group_bounds (isPrime : Int → Bool) (g : Int) (p : Nat)
    (h : C13.checkDH isPrime g (p : Int) = .ok) : 2 ^ 2047 ≤ p ∧ p < 256 ^ 256 := by
  have h1 := ((C13.checkDH_ok_iff isPrime g p).mp h).1
  have hk : Facts.C13.rsaKeyBits = 2047 + 1 := by decide
  rw [hk, C13.bitLen_eq_succ_iff] at h1
  simp only [Int.natAbs_natCast] at h1
  rw [pow256]
  exact h1

/-- `t` of the implementation and of the specification agree modulo `p`. -/
theorem t_mod (b kv p : Nat) (hkv : kv < p) :
    (if b < kv then b + p - kv else b - kv) % p = (b + (p - kv)) % p := by
  split
  · congr 1; omega
  · rename_i h
    have : b + (p - kv) = (b - kv) + p := by omega
    rw [this, Nat.add_mod_right]

theorem sa_eq (b kv p e1 e2 : Nat) (hkv : kv < p) (he : e1 = e2) :
    (if b < kv then b + p - kv else b - kv) ^ e1 % p = ((b + (p - kv)) % p) ^ e2 % p := by
  subst he
  rw [Nat.pow_mod, t_mod b kv p hkv]

theorem secondary_eq_PH2 (S : SrpPrims) (pw s1 s2 : Bytes) :
    Impl.secondary S pw s1 s2 = Spec.PH2 S pw s1 s2 := by
  simp [Impl.secondary, Facts.C15.secondaryT, Facts.C15.saltHashT, Facts.C15.pbkdf2T, Facts.C15.primaryT,
    Impl.hash, Spec.PH2, Spec.PH1, Spec.SH, Spec.H]

theorem primary_eq_PH1 (S : SrpPrims) (pw s1 s2 : Bytes) :
    Impl.primary S pw s1 s2 = Spec.PH1 S pw s1 s2 := by
  simp [Impl.primary, Facts.C15.saltHashT, Facts.C15.primaryT, Impl.hash, Spec.PH1, Spec.SH, Spec.H]

/-- the regenerated operand lists of `SRP.Hash` are the specification's. -/
theorem operands_spec :
    Facts.C15.gbSource = .val .srpB ∧ Facts.C15.tSource = .val .srpB ∧
    Facts.C15.uOperands = [.val .ga, .val .gb] ∧
    Facts.C15.xvOperands = [.val .password, .val .salt1, .val .salt2] ∧
    Facts.C15.kOperands = [.val .iP, .val .gBytes] ∧
    Facts.C15.kaOperand = .val .sa ∧
    Facts.C15.xorOperands = [.hashed .iP, .hashed .gBytes] ∧
    Facts.C15.m1Operands = [.val .xorHpHg, .hashed .salt1, .hashed .salt2, .val .ga, .val .gb, .val .ka] := by
  decide

theorem impl_eq_spec (S : SrpPrims) (hS : LawfulSrp S) (isPrime : Int → Bool)
    (pw srpB random : Bytes) (i : Input) (hp : i.p.length = 256) (hb : beNat srpB < 256 ^ 256)
    (hgrp : C13.checkDH isPrime i.g ((beNat i.p : Nat) : Int) = .ok) :
    Impl.srpHash S isPrime pw srpB random i =
      .ok (Spec.answer S (beNat i.p) i.g.toNat (beNat random) (beNat srpB) pw i.salt1 i.salt2) := by
  obtain ⟨hlo, hhi⟩ := group_bounds isPrime i.g (beNat i.p) hgrp
  have hpos : 0 < beNat i.p := Nat.lt_of_lt_of_le (Nat.two_pow_pos 2047) hlo
  have hlt : ∀ n, n % beNat i.p < 256 ^ 256 := fun n => Nat.lt_trans (Nat.mod_lt n hpos) hhi
  unfold Impl.srpHash
  obtain ⟨o1, o2, o3, o4, o5, o6, o7, o8⟩ := operands_spec
  simp only [hgrp, ne_eq, not_true_eq_false, if_false, hS.powMod_eq, o1, o2, o3, o4, o5, o6, o7, o8,
    Impl.Vals.opnds, Impl.Vals.opnd, Impl.Vals.get, List.map]
  rw [pad256FromBig_of_lt _ (hlt _)]
  simp only
  rw [pad256FromBig_of_lt _ (hlt _)]
  simp only
  unfold Spec.answer Spec.M1of Spec.sA Spec.gA Spec.u Spec.v Spec.x Spec.k Spec.H
  rw [pad_beNat i.p hp, pad256_eq_pad' srpB hb, secondary_eq_PH2]
  simp only [Impl.hash, Impl.xor32, Spec.pad, List.flatten_cons, List.flatten_nil, List.append_nil,
    List.append_assoc]
  have hkv : (beNat (S.sha256 (i.p ++ beBytes 256 i.g.toNat)) * (i.g.toNat ^ beNat (Spec.PH2 S pw i.salt1 i.salt2) % beNat i.p)) % beNat i.p < beNat i.p :=
    Nat.mod_lt _ hpos
  rw [sa_eq _ _ _ _ _ hkv (Nat.add_comm _ _)]

/-- `SRP.NewHash` returns the padded verifier `v = g^PH2(password, salt1 ‖ rnd, salt2) mod p` and the
extended salt. -/
theorem newHash_eq_spec (S : SrpPrims) (hS : LawfulSrp S) (isPrime : Int → Bool) (pw tape : Bytes) (i : Input)
    (ht : 32 ≤ tape.length) (hgrp : C13.checkDH isPrime i.g ((beNat i.p : Nat) : Int) = .ok) :
    Impl.newHash S isPrime pw tape i =
      .ok (Spec.pad (Spec.v S (beNat i.p) i.g.toNat pw (i.salt1 ++ tape.take 32) i.salt2),
        i.salt1 ++ tape.take 32) := by
  obtain ⟨hlo, hhi⟩ := group_bounds isPrime i.g (beNat i.p) hgrp
  have hpos : 0 < beNat i.p := Nat.lt_of_lt_of_le (Nat.two_pow_pos 2047) hlo
  unfold Impl.newHash
  have h32 : ¬ tape.length < 32 := by omega
  dsimp only
  have hlt : ∀ n, n % beNat i.p < 256 ^ 256 := fun n => Nat.lt_trans (Nat.mod_lt n hpos) hhi
  rw [if_neg (by rw [hgrp]; exact fun h => h rfl)]
  rw [if_neg h32]
  rw [hS.powMod_eq, secondary_eq_PH2]
  rw [pad256FromBig_of_lt _ (hlt _)]
  simp only [Option.getD_some, Spec.pad, Spec.v, Spec.x]

end TdModel.C15
