/-
C21 — the generic round-trip theorem: for a well-formed schema, decoding the encoding of any
encodable value (followed by arbitrary bytes) gives back the value and the rest.
Mutual induction over `Val`/`Vals` through `Val.rec` with explicit motives.
-/
import TdModel.Model.C21
import TdModel.Lemmas.Bin

namespace TdModel.C21
open TdModel TdModel.Bin

/-! ### small facts -/

theorem Val.size_pos (v : Val) : 0 < v.size := by
  cases v <;> simp [Val.size]

theorem Vals.size_pos (vs : Vals) : 0 < vs.size := by
  cases vs <;> simp [Vals.size]

theorem bool?_eq {v : Val} {b : Bool} (h : v.bool? = some b) : v = .bool b := by
  cases v <;> simp [Val.bool?] at h
  simp [h]

theorem isAbsent_eq {v : Val} (h : v.isAbsent = true) : v = .absent := by
  cases v <;> simp [Val.isAbsent] at h
  rfl

theorem word?_eq {v : Val} {n : Nat} (h : v.word? = some n) : v = .num n ∧ n < 2 ^ 32 := by
  cases v <;> simp [Val.word?] at h
  obtain ⟨h1, h2⟩ := h
  subst h2
  exact ⟨rfl, h1⟩

/-! ### the `switch id` of an interface is a function on a well-formed schema -/

theorem findIn_of_distinct (S : Schema) (id : Nat) :
    ∀ (cs : List Nat) (c : Nat), idsDistinct S cs = true → c ∈ cs → ctorId S c = some id →
      findIn S id cs = some c := by
  intro cs
  induction cs with
  | nil => intro c _ hm; cases hm
  | cons d ds ih =>
    intro c hd hm hid
    simp only [idsDistinct, Bool.and_eq_true] at hd
    obtain ⟨hd1, hd2⟩ := hd
    simp only [findIn]
    rcases List.mem_cons.mp hm with rfl | hin
    · simp [hid]
    · have := ih c hd2 hin hid
      cases hdid : ctorId S d with
      | none => simp [hdid] at hd1
      | some idd =>
        simp only [hdid, Bool.and_eq_true, decide_eq_true_eq, beq_iff_eq] at hd1
        by_cases heq : idd = id
        · subst heq
          rw [this] at hd1
          exact absurd hd1.2 (by simp)
        · simp [heq, this]

theorem id_lt_of_distinct (S : Schema) :
    ∀ (cs : List Nat) (c : Nat) (id : Nat), idsDistinct S cs = true → c ∈ cs → ctorId S c = some id →
      id < 2 ^ 32 := by
  intro cs
  induction cs with
  | nil => intro c _ _ hm; cases hm
  | cons d ds ih =>
    intro c id hd hm hid
    simp only [idsDistinct, Bool.and_eq_true] at hd
    obtain ⟨hd1, hd2⟩ := hd
    rcases List.mem_cons.mp hm with rfl | hin
    · simp only [hid, Bool.and_eq_true, decide_eq_true_eq] at hd1
      exact hd1.1
    · exact ih c id hd2 hin hid

theorem wf_iface {S : Schema} (hwf : S.wf = true) {i : Nat} {cs : List Nat}
    (h : S.ifaces[i]? = some cs) : idsDistinct S cs = true := by
  simp only [Schema.wf, Bool.and_eq_true, List.all_eq_true] at hwf
  apply hwf.2
  have := Array.mem_of_getElem? h
  exact Array.mem_toList_iff.mpr this

theorem wf_ctor {S : Schema} (hwf : S.wf = true) {c : Nat} {ct : Ctor}
    (h : S.ctors[c]? = some ct) : ct.ok = true := by
  simp only [Schema.wf, Bool.and_eq_true, List.all_eq_true] at hwf
  apply hwf.1
  have := Array.mem_of_getElem? h
  exact Array.mem_toList_iff.mpr this

theorem wf_find {S : Schema} (hwf : S.wf = true) {i c id : Nat} {ct : Ctor}
    (hi : ifaceHas S i c = true) (hc : S.ctors[c]? = some ct) (hid : ct.id = some id) :
    findCtor S i id = some c ∧ id < 2 ^ 32 := by
  unfold ifaceHas at hi
  unfold findCtor
  cases hcs : S.ifaces[i]? with
  | none => simp [hcs] at hi
  | some cs =>
    simp only [hcs] at hi ⊢
    have hm : c ∈ cs := by simpa using hi
    have hcid : ctorId S c = some id := by simp [ctorId, hc, hid]
    exact ⟨findIn_of_distinct S id cs c (wf_iface hwf hcs) hm hcid,
      id_lt_of_distinct S cs c id (wf_iface hwf hcs) hm hcid⟩

theorem wf_id_lt {S : Schema} (hwf : S.wf = true) {c id : Nat} {ct : Ctor}
    (hc : S.ctors[c]? = some ct) (hid : ct.id = some id) : id < 2 ^ 32 := by
  have := wf_ctor hwf hc
  simp only [Ctor.ok, hid, Bool.and_eq_true, decide_eq_true_eq] at this
  exact this.2

/-! ### the decode parameter `generic` is irrelevant to well-formedness -/

theorem findIn_generic (S : Schema) (g : Option Nat) (id : Nat) :
    ∀ cs, findIn { S with generic := g } id cs = findIn S id cs := by
  intro cs
  induction cs with
  | nil => rfl
  | cons c cs ih => simp only [findIn, ih]; rfl

theorem idsDistinct_generic (S : Schema) (g : Option Nat) :
    ∀ cs, idsDistinct { S with generic := g } cs = idsDistinct S cs := by
  intro cs
  induction cs with
  | nil => rfl
  | cons c cs ih =>
    simp only [idsDistinct, ih]
    have : ctorId { S with generic := g } c = ctorId S c := rfl
    rw [this]
    cases ctorId S c with
    | none => rfl
    | some id => simp only [findIn_generic]

theorem wf_generic (S : Schema) (g : Option Nat) : ({ S with generic := g } : Schema).wf = S.wf := by
  unfold Schema.wf
  congr 1
  have : idsDistinct { S with generic := g } = idsDistinct S := funext (idsDistinct_generic S g)
  rw [this]

/-! ### the motives -/

def RtVal (S : Schema) (v : Val) : Prop :=
  ∀ (ty : Ty) (e rest : Bytes) (fuel d : Nat), encTy S ty v = some e → v.size ≤ fuel → v.depth ≤ d →
    decTy S fuel d ty (e ++ rest) = .ok (v, rest)

def RtFields (S : Schema) (vs : Vals) : Prop :=
  ∀ (env : List Nat) (flds : List Field) (e rest : Bytes) (fuel d : Nat),
    encFields S env flds vs = some e → vs.size ≤ fuel → vs.depth ≤ d →
    decFields S fuel d env flds (e ++ rest) = .ok (vs, rest)

def RtElems (S : Schema) (vs : Vals) : Prop :=
  ∀ (t : Ty) (e rest : Bytes) (fuel d : Nat), encElems S t vs = some e → vs.size ≤ fuel → vs.depth ≤ d →
    decElems S fuel d t vs.length (e ++ rest) = .ok (vs, rest)

def RtVals (S : Schema) (vs : Vals) : Prop := RtFields S vs ∧ RtElems S vs

theorem getBareLen_put (n : Nat) (rest : Bytes) (h : n < 2 ^ 31) :
    getBareLen (putU32 n ++ rest) = .ok (n, rest) := by
  unfold getBareLen
  rw [getU32_putU32 _ _ (by omega)]
  have : ¬ toInt32 n < 0 := by simp [toInt32, h]
  simp [this]

/-! ### cases of the induction -/

theorem rt_num (S : Schema) (n : Nat) : RtVal S (.num n) := by
  intro ty e rest fuel d he hf hd
  cases fuel with
  | zero => simp [Val.size] at hf
  | succ f =>
    cases ty <;> simp [encTy] at he
    · obtain ⟨h1, rfl⟩ := he
      simp [decTy, getU32_putU32 n rest h1]
    · obtain ⟨h1, rfl⟩ := he
      simp [decTy, getU64_putU64 n rest h1]
    · obtain ⟨h1, rfl⟩ := he
      simp [decTy, getU64_putU64 n rest h1]

theorem rt_raw (S : Schema) (b : Bytes) : RtVal S (.raw b) := by
  intro ty e rest fuel d he hf hd
  cases fuel with
  | zero => simp [Val.size] at hf
  | succ f =>
    cases ty <;> simp [encTy] at he
    · obtain ⟨h1, rfl⟩ := he
      simp [decTy, getN_append b rest 16 h1]
    · obtain ⟨h1, rfl⟩ := he
      simp [decTy, getN_append b rest 32 h1]
    · obtain ⟨h1, rfl⟩ := he
      simp [decTy, getBytes_putBytes b rest h1]

theorem rt_bool (S : Schema) (b : Bool) : RtVal S (.bool b) := by
  intro ty e rest fuel d he hf hd
  cases fuel with
  | zero => simp [Val.size] at hf
  | succ f =>
    cases ty <;> simp [encTy] at he
    subst he
    simp [decTy, getBool_putBool b rest]

theorem rt_absent (S : Schema) : RtVal S .absent := by
  intro ty e rest fuel d he hf hd
  cases ty <;> simp [encTy] at he

theorem rt_obj (S : Schema) (hwf : S.wf = true) (c : Nat) (fs : Vals) (ih : RtVals S fs) :
    RtVal S (.obj c fs) := by
  intro ty e rest fuel d he hf hd
  cases fuel with
  | zero => simp [Val.size] at hf
  | succ f =>
    have hf' : fs.size ≤ f := by simp [Val.size] at hf; omega
    have hd' : fs.depth + 1 ≤ d := by simpa [Val.depth] using hd
    have hd0 : fs.depth ≤ d := by omega
    cases ty with
    | boxed i =>
      simp only [encTy] at he
      split at he
      · rename_i hi
        cases hc : S.ctors[c]? with
        | none => simp [hc] at he
        | some ct =>
          simp only [hc] at he
          cases hid : ct.id with
          | none => simp [hid] at he
          | some id =>
            simp only [hid] at he
            cases hef : encFields S [] ct.fields fs with
            | none => simp [hef] at he
            | some ef =>
              simp only [hef, Option.some.injEq] at he
              subst he
              obtain ⟨hfind, hlt⟩ := wf_find hwf hi hc hid
              obtain ⟨d', rfl⟩ : ∃ d', d = d' + 1 := ⟨d - 1, by omega⟩
              simp only [decTy, List.append_assoc, getU32_putU32 id _ hlt, hfind, hc,
                ih.1 [] ct.fields ef rest f d' hef hf' (by omega)]
      · exact absurd he (by simp)
    | ctor c0 bare =>
      simp only [encTy] at he
      split at he
      · rename_i hcc
        subst hcc
        cases hc : S.ctors[c0]? with
        | none => simp [hc] at he
        | some ct =>
          simp only [hc] at he
          cases hef : encFields S [] ct.fields fs with
          | none => simp [hef] at he
          | some ef =>
            simp only [hef] at he
            cases bare with
            | true =>
              simp only [if_true, Option.some.injEq] at he
              subst he
              simp only [decTy, hc, if_true, ih.1 [] ct.fields ef rest f d hef hf' hd0]
            | false =>
              simp only [Bool.false_eq_true, if_false] at he
              cases hid : ct.id with
              | none => simp [hid] at he
              | some id =>
                simp only [hid, Option.some.injEq] at he
                subst he
                have hlt := wf_id_lt hwf hc hid
                simp only [decTy, hc, Bool.false_eq_true, if_false, hid, List.append_assoc,
                  consumeID_putU32 id _ hlt, ih.1 [] ct.fields ef rest f d hef hf' hd0]
      · exact absurd he (by simp)
    | generic =>
      simp only [encTy] at he
      split at he
      · rename_i hg
        cases hc : S.ctors[c]? with
        | none => simp [hc] at he
        | some ct =>
          simp only [hc] at he
          cases hef : encFields S [] ct.fields fs with
          | none => simp [hef] at he
          | some ef =>
            simp only [hef] at he
            cases hid : ct.id with
            | none => simp [hid] at he
            | some id =>
              simp only [hid, Option.some.injEq] at he
              subst he
              have hlt := wf_id_lt hwf hc hid
              simp only [decTy, hg, hc, hid, List.append_assoc,
                consumeID_putU32 id _ hlt, ih.1 [] ct.fields ef rest f d hef hf' hd0]
      · exact absurd he (by simp)
    | _ => simp [encTy] at he

theorem rt_vec (S : Schema) (xs : Vals) (ih : RtVals S xs) : RtVal S (.vec xs) := by
  intro ty e rest fuel d he hf hd
  cases fuel with
  | zero => simp [Val.size] at hf
  | succ f =>
    have hf' : xs.size ≤ f := by simp [Val.size] at hf; omega
    have hd0 : xs.depth ≤ d := by simpa [Val.depth] using hd
    cases ty with
    | vec bareHdr t =>
     simp only [encTy] at he
     split at he
     · rename_i hlen
       cases hee : encElems S t xs with
       | none => simp [hee] at he
       | some ee =>
        simp only [hee, Option.some.injEq] at he
        subst he
        cases bareHdr with
        | true =>
          simp only [decTy, if_true, List.append_assoc, getBareLen_put _ _ hlen,
            ih.2 t ee rest f d hee hf' hd0]
        | false =>
          simp only [decTy, Bool.false_eq_true, if_false, List.append_assoc,
            getVectorHeader_put _ _ hlen, ih.2 t ee rest f d hee hf' hd0]
     · exact absurd he (by simp)
    | _ => simp [encTy] at he

theorem rt_nil (S : Schema) : RtVals S .nil := by
  constructor
  · intro env flds e rest fuel d he hf hd
    cases fuel with
    | zero => simp [Vals.size] at hf
    | succ f =>
      cases flds with
      | nil =>
        simp only [encFields, Option.some.injEq] at he
        subst he
        simp [decFields]
      | cons a as => simp [encFields] at he
  · intro t e rest fuel d he hf hd
    cases fuel with
    | zero => simp [Vals.size] at hf
    | succ f =>
      simp only [encElems, Option.some.injEq] at he
      subst he
      simp [decElems, Vals.length]

theorem rt_cons (S : Schema) (v : Val) (vs : Vals) (ihv : RtVal S v) (ihs : RtVals S vs) :
    RtVals S (.cons v vs) := by
  constructor
  · intro env flds e rest fuel d he hf hd
    cases fuel with
    | zero => simp [Vals.size] at hf
    | succ f =>
      have hfv : v.size ≤ f := by simp [Vals.size] at hf; omega
      have hfs : vs.size ≤ f := by simp [Vals.size] at hf; omega
      have hdv : v.depth ≤ d := by simp only [Vals.depth] at hd; omega
      have hds : vs.depth ≤ d := by simp only [Vals.depth] at hd; omega
      cases flds with
      | nil => simp [encFields] at he
      | cons fld fs =>
        simp only [encFields] at he
        simp only [decFields]
        cases hcond : fld.cond with
        | some kb =>
          obtain ⟨k, bit⟩ := kb
          simp only [hcond] at he ⊢
          by_cases htf : fld.ty = .trueFlag
          · simp only [htf, if_true] at he ⊢
            split at he
            · rename_i hb
              have := bool?_eq hb
              subst this
              simp only [ihs.1 env fs e rest f d he hfs hds]
            · exact absurd he (by simp)
          · simp only [htf, if_false] at he ⊢
            cases hp : hasBit (envWord env k) bit with
            | true =>
              simp only [hp, if_true] at he ⊢
              cases h1 : encTy S fld.ty v with
              | none => simp [h1] at he
              | some e1 =>
                simp only [h1] at he
                cases h2 : encFields S env fs vs with
                | none => simp [h2] at he
                | some e2 =>
                  simp only [h2, Option.some.injEq] at he
                  subst he
                  simp only [List.append_assoc, ihv fld.ty e1 (e2 ++ rest) f d h1 hfv hdv,
                    ihs.1 env fs e2 rest f d h2 hfs hds]
            | false =>
              simp only [hp, Bool.false_eq_true, if_false] at he ⊢
              cases ha : v.isAbsent with
              | false => simp [ha] at he
              | true =>
                simp only [ha, if_true] at he
                have := isAbsent_eq ha
                subst this
                simp only [ihs.1 env fs e rest f d he hfs hds]
        | none =>
          simp only [hcond] at he ⊢
          by_cases hfl : fld.ty = .flags
          · simp only [hfl, if_true] at he ⊢
            cases hw : v.word? with
            | none => simp [hw] at he
            | some n =>
              simp only [hw] at he
              obtain ⟨hv, hn⟩ := word?_eq hw
              subst hv
              cases h2 : encFields S (env ++ [n]) fs vs with
              | none => simp [h2] at he
              | some e2 =>
                simp only [h2, Option.some.injEq] at he
                subst he
                simp only [List.append_assoc, getU32_putU32 n _ hn,
                  ihs.1 (env ++ [n]) fs e2 rest f d h2 hfs hds]
          · simp only [hfl, if_false] at he ⊢
            cases h1 : encTy S fld.ty v with
            | none => simp [h1] at he
            | some e1 =>
              simp only [h1] at he
              cases h2 : encFields S env fs vs with
              | none => simp [h2] at he
              | some e2 =>
                simp only [h2, Option.some.injEq] at he
                subst he
                simp only [List.append_assoc, ihv fld.ty e1 (e2 ++ rest) f d h1 hfv hdv,
                  ihs.1 env fs e2 rest f d h2 hfs hds]
  · intro t e rest fuel d he hf hd
    cases fuel with
    | zero => simp [Vals.size] at hf
    | succ f =>
      have hfv : v.size ≤ f := by simp [Vals.size] at hf; omega
      have hfs : vs.size ≤ f := by simp [Vals.size] at hf; omega
      have hdv : v.depth ≤ d := by simp only [Vals.depth] at hd; omega
      have hds : vs.depth ≤ d := by simp only [Vals.depth] at hd; omega
      simp only [encElems] at he
      cases h1 : encTy S t v with
      | none => simp [h1] at he
      | some e1 =>
        simp only [h1] at he
        cases h2 : encElems S t vs with
        | none => simp [h2] at he
        | some e2 =>
          simp only [h2, Option.some.injEq] at he
          subst he
          simp only [Vals.length, decElems, List.append_assoc, ihv t e1 (e2 ++ rest) f d h1 hfv hdv,
            ihs.2 t e2 rest f d h2 hfs hds]

/-- Mutual induction over the value tree. -/
theorem rt_all (S : Schema) (hwf : S.wf = true) : (∀ v, RtVal S v) ∧ (∀ vs, RtVals S vs) :=
  ⟨fun v => Val.rec (motive_1 := RtVal S) (motive_2 := RtVals S)
      (rt_num S) (rt_raw S) (rt_bool S) (rt_absent S) (fun c fs ih => rt_obj S hwf c fs ih)
      (fun xs ih => rt_vec S xs ih) (rt_nil S) (fun v vs ihv ihs => rt_cons S v vs ihv ihs) v,
   fun vs => Vals.rec (motive_1 := RtVal S) (motive_2 := RtVals S)
      (rt_num S) (rt_raw S) (rt_bool S) (rt_absent S) (fun c fs ih => rt_obj S hwf c fs ih)
      (fun xs ih => rt_vec S xs ih) (rt_nil S) (fun v vs ihv ihs => rt_cons S v vs ihv ihs) vs⟩

end TdModel.C21
