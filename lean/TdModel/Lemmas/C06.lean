/-
Helper lemmas for C06 (key derivation): Go slices vs `substr`, `copy` into a zeroed array.
-/
import TdModel.Model.C06

namespace TdModel.C06
open TdModel

theorem slice_eq_substr (a : Bytes) (lo hi : Nat) : slice a lo hi = substr a lo (hi - lo) := by
  unfold slice substr
  exact List.drop_take ..

@[simp] theorem zeros_length (n : Nat) : (zeros n).length = n := by simp [zeros]

theorem zeros_drop (n k : Nat) : (zeros n).drop k = zeros (n - k) := by simp [zeros]

theorem substr_length (s : Bytes) (off len : Nat) : (substr s off len).length = min len (s.length - off) := by
  simp [substr]

theorem slice_full (s : Bytes) : slice s 0 s.length = s := by simp [slice]

/-- `copy(dst[off:hi], s)` where the destination has room: the bytes land right after the prefix. -/
theorem copyAt_fill (pre rest s : Bytes) (off : Nat) (hi : Option Nat) (hoff : pre.length = off)
    (hs : s.length ≤ rest.length) (hh : ∀ h, hi = some h → off + s.length ≤ h) :
    copyAt (pre ++ rest) off hi s = (pre ++ s ++ rest.drop s.length, s.length) := by
  unfold copyAt
  have hlim : s.length ≤ (hi.getD (pre ++ rest).length) - off := by
    cases hi with
    | none => simp; omega
    | some h => have := hh h rfl; simp; omega
  have hn : min ((hi.getD (pre ++ rest).length) - off) s.length = s.length := by omega
  simp only [hn]
  subst hoff
  simp

theorem substr_full (s : Bytes) : substr s 0 s.length = s := by simp [substr]

theorem copyAt_zeros (pre s : Bytes) (k off : Nat) (hi : Option Nat) (hoff : pre.length = off)
    (hs : s.length ≤ k) (hh : ∀ h, hi = some h → off + s.length ≤ h) :
    copyAt (pre ++ zeros k) off hi s = (pre ++ s ++ zeros (k - s.length), s.length) := by
  rw [copyAt_fill pre (zeros k) s off hi hoff (by simpa using hs) hh, zeros_drop]

theorem copyAt_zeros0 (s : Bytes) (k : Nat) (hi : Option Nat)
    (hs : s.length ≤ k) (hh : ∀ h, hi = some h → s.length ≤ h) :
    copyAt (zeros k) 0 hi s = (s ++ zeros (k - s.length), s.length) := by
  have := copyAt_zeros [] s k 0 hi rfl hs (by intro h e; have := hh h e; omega)
  simpa using this

/-- `crypto.aesKey` on two 32-byte hashes. -/
theorem aesKey_eq (a b : Bytes) (ha : a.length = 32) (hb : b.length = 32) :
    Impl.aesKey a b = substr a 0 8 ++ substr b 8 16 ++ substr a 24 8 := by
  unfold Impl.aesKey
  simp only [Facts.C06.aesKey_copies, runCopies, slice_eq_substr, Option.getD, List.getD_cons_zero,
    List.getD_cons_succ, Nat.reduceAdd, Nat.reduceSub]
  have l1 : (substr a 0 8).length = 8 := by simp [substr_length, ha]
  have l2 : (substr b 8 16).length = 16 := by simp [substr_length, hb]
  have l3 : (substr a 24 8).length = 8 := by simp [substr_length, ha]
  rw [copyAt_zeros0 _ _ _ (by omega) (by simp; omega)]
  simp only [l1, Nat.reduceSub]
  rw [copyAt_zeros _ _ _ _ _ (by simp [l1]) (by omega) (by simp)]
  simp only [l2, Nat.reduceSub]
  rw [copyAt_zeros _ _ _ _ _ (by simp [l1, l2]) (by omega) (by simp)]
  simp [l3, zeros]

/-- The MTProto 1.0 `aes_key` copy sequence (`n := copy; n += copy; copy`). -/
theorem v1_key_copies_eq (cps : List Facts.C06.Cp)
    (hc : cps = [⟨some 0, none, 0, 0, 8, 1⟩, ⟨none, none, 1, 8, 20, 2⟩, ⟨none, none, 2, 4, 16, 0⟩])
    (a b c d : Bytes) (ha : a.length = 20) (hb : b.length = 20) (hcl : c.length = 20) :
    runCopies cps [a, b, c, d] (zeros 32) 0 = substr a 0 8 ++ substr b 8 12 ++ substr c 4 12 := by
  subst hc
  simp only [runCopies, slice_eq_substr, Option.getD, List.getD_cons_zero,
    List.getD_cons_succ, Nat.reduceSub]
  have l1 : (substr a 0 8).length = 8 := by simp [substr_length, ha]
  have l2 : (substr b 8 12).length = 12 := by simp [substr_length, hb]
  have l3 : (substr c 4 12).length = 12 := by simp [substr_length, hcl]
  rw [copyAt_zeros0 _ _ _ (by omega) (by simp)]
  simp only [l1, Nat.reduceSub, if_true, Nat.reduceEqDiff, if_false]
  rw [copyAt_zeros _ _ _ _ _ (by simp [l1]) (by omega) (by simp)]
  simp only [l2, Nat.reduceSub, Nat.reduceAdd]
  rw [copyAt_zeros _ _ _ _ _ (by simp [l1, l2]) (by omega) (by simp)]
  simp [l3, zeros]

/-- The MTProto 1.0 `aes_iv` copy sequence. -/
theorem v1_iv_copies_eq (cps : List Facts.C06.Cp)
    (hc : cps = [⟨some 0, none, 0, 8, 20, 1⟩, ⟨none, none, 1, 0, 8, 2⟩, ⟨none, none, 2, 16, 20, 2⟩,
      ⟨none, none, 3, 0, 8, 0⟩])
    (a b c d : Bytes) (ha : a.length = 20) (hb : b.length = 20) (hcl : c.length = 20) (hd : d.length = 20) :
    runCopies cps [a, b, c, d] (zeros 32) 0 =
      substr a 8 12 ++ substr b 0 8 ++ substr c 16 4 ++ substr d 0 8 := by
  subst hc
  simp only [runCopies, slice_eq_substr, Option.getD, List.getD_cons_zero,
    List.getD_cons_succ, Nat.reduceSub]
  have l1 : (substr a 8 12).length = 12 := by simp [substr_length, ha]
  have l2 : (substr b 0 8).length = 8 := by simp [substr_length, hb]
  have l3 : (substr c 16 4).length = 4 := by simp [substr_length, hcl]
  have l4 : (substr d 0 8).length = 8 := by simp [substr_length, hd]
  rw [copyAt_zeros0 _ _ _ (by omega) (by simp)]
  simp only [l1, Nat.reduceSub, if_true, Nat.reduceEqDiff, if_false]
  rw [copyAt_zeros _ _ _ _ _ (by simp [l1]) (by omega) (by simp)]
  simp only [l2, Nat.reduceSub, Nat.reduceAdd]
  rw [copyAt_zeros _ _ _ _ _ (by simp [l1, l2]) (by omega) (by simp)]
  simp only [l3, Nat.reduceSub, Nat.reduceAdd]
  rw [copyAt_zeros _ _ _ _ _ (by simp [l1, l2, l3]) (by omega) (by simp)]
  simp [l4, zeros]

theorem hashFn_length (P : Prims) (hP : LawfulPrims P) (h : Facts.C06.Hash) (x : Bytes) :
    (hashFn P h x).length = match h with | .sha1 => 20 | .sha256 => 32 := by
  cases h <;> simp [hashFn, hP.sha1_len, hP.sha256_len]

/-- The four MTProto 1.0 hashes as read from the source are those of the specification. -/
theorem sha1s_eq (P : Prims) (ak mk : Bytes) (x : Nat) :
    Impl.sha1s P ak mk x =
      [P.sha1 (mk ++ substr ak x 32),
       P.sha1 (substr ak (32 + x) 16 ++ mk ++ substr ak (48 + x) 16),
       P.sha1 (substr ak (64 + x) 32 ++ mk),
       P.sha1 (mk ++ substr ak (96 + x) 32)] := by
  simp [Impl.sha1s, written, Facts.C06.sha1a_writes, Facts.C06.sha1b_writes, Facts.C06.sha1c_writes,
    Facts.C06.sha1d_writes, Facts.C06.sha1a_hash, Facts.C06.sha1b_hash, Facts.C06.sha1c_hash,
    Facts.C06.sha1d_hash, hashFn, pick, slice_eq_substr, substr_full]

theorem v1_eq (P : Prims) (hP : LawfulPrims P) (ak mk : Bytes) (x : Nat)
    (kc ic : List Facts.C06.Cp)
    (hk : kc = [⟨some 0, none, 0, 0, 8, 1⟩, ⟨none, none, 1, 8, 20, 2⟩, ⟨none, none, 2, 4, 16, 0⟩])
    (hi : ic = [⟨some 0, none, 0, 8, 20, 1⟩, ⟨none, none, 1, 0, 8, 2⟩, ⟨none, none, 2, 16, 20, 2⟩,
      ⟨none, none, 3, 0, 8, 0⟩]) :
    (runCopies kc (Impl.sha1s P ak mk x) (zeros 32) 0, runCopies ic (Impl.sha1s P ak mk x) (zeros 32) 0)
      = Spec.keysV1At P ak mk x := by
  rw [sha1s_eq]
  rw [v1_key_copies_eq kc hk _ _ _ _ (hP.sha1_len _) (hP.sha1_len _) (hP.sha1_len _)]
  rw [v1_iv_copies_eq ic hi _ _ _ _ (hP.sha1_len _) (hP.sha1_len _) (hP.sha1_len _) (hP.sha1_len _)]
  rfl

theorem sha256a_eq (P : Prims) (ak mk : Bytes) (side : Side) :
    Impl.sha256a P ak mk (getX side) = Spec.sha256a P ak mk side := by
  cases side <;>
    simp [Impl.sha256a, Spec.sha256a, written, Facts.C06.sha256a_writes, Facts.C06.sha256a_hash, hashFn, pick,
      slice_eq_substr, substr_full, getX, Spec.x, Facts.C06.xClient, Facts.C06.xServer]

theorem sha256b_eq (P : Prims) (ak mk : Bytes) (side : Side) :
    Impl.sha256b P ak mk (getX side) = Spec.sha256b P ak mk side := by
  cases side <;>
    simp [Impl.sha256b, Spec.sha256b, written, Facts.C06.sha256b_writes, Facts.C06.sha256b_hash, hashFn, pick,
      slice_eq_substr, substr_full, getX, Spec.x, Facts.C06.xClient, Facts.C06.xServer]

theorem msgKeyLarge_eq (P : Prims) (ak pt : Bytes) (side : Side) :
    Impl.msgKeyLarge P ak pt side = Spec.msgKeyLarge P ak pt side := by
  cases side <;>
    simp [Impl.msgKeyLarge, Spec.msgKeyLarge, written, Facts.C06.msgKeyLarge_writes, Facts.C06.msgKeyLarge_hash,
      hashFn, pick, slice_eq_substr, substr_full, getX, Spec.x, Facts.C06.xClient, Facts.C06.xServer]

theorem messageKey_eq (large : Bytes) (h : large.length = 32) :
    Impl.messageKey large = substr large 8 16 := by
  unfold Impl.messageKey
  simp only [Facts.C06.messageKey_lo, Facts.C06.messageKey_hi, slice_eq_substr, Nat.reduceAdd, Nat.reduceSub]
  have l : (substr large 8 16).length = 16 := by simp [substr_length, h]
  rw [copyAt_zeros0 _ _ _ (by omega) (by simp)]
  simp [l, zeros]

theorem msgKeyV1_eq (P : Prims) (hP : LawfulPrims P) (pt : Bytes) :
    Impl.msgKeyV1 P pt = Spec.msgKeyV1 P pt := by
  unfold Impl.msgKeyV1 Spec.msgKeyV1
  simp only [Facts.C06.messageKeyV1_lo, Facts.C06.messageKeyV1_hi, slice_eq_substr, Nat.reduceSub]
  have l : (substr (P.sha1 pt) 4 16).length = 16 := by simp [substr_length, hP.sha1_len]
  rw [copyAt_zeros0 _ _ _ (by omega) (by simp)]
  simp [l, zeros]

theorem msgKey_eq (P : Prims) (hP : LawfulPrims P) (ak pt : Bytes) (side : Side) :
    Impl.msgKey P ak pt side = Spec.msgKey P ak pt side := by
  unfold Impl.msgKey Spec.msgKey
  rw [msgKeyLarge_eq]
  exact messageKey_eq _ (hP.sha256_len _)

theorem keys_eq (P : Prims) (hP : LawfulPrims P) (ak mk : Bytes) (side : Side) :
    Impl.keys P ak mk side = Spec.keys P ak mk side := by
  unfold Impl.keys Spec.keys Impl.aesIV
  simp only [Facts.C06.keys_aesKey_args, Facts.C06.keys_aesIV_args, Facts.C06.aesIV_aesKey_args,
    List.getD_cons_zero, List.getD_cons_succ]
  rw [sha256a_eq, sha256b_eq]
  have la : (Spec.sha256a P ak mk side).length = 32 := hP.sha256_len _
  have lb : (Spec.sha256b P ak mk side).length = 32 := hP.sha256_len _
  rw [aesKey_eq _ _ la lb, aesKey_eq _ _ lb la]

theorem impl_msgKey_length (P : Prims) (hP : LawfulPrims P) (ak pt : Bytes) (side : Side) :
    (Impl.msgKey P ak pt side).length = 16 := by
  rw [msgKey_eq P hP]
  simp [Spec.msgKey, Spec.msgKeyLarge, substr_length, hP.sha256_len]

theorem impl_keys_iv_length (P : Prims) (hP : LawfulPrims P) (ak mk : Bytes) (side : Side) :
    (Impl.keys P ak mk side).2.length = 32 := by
  rw [keys_eq P hP]
  simp [Spec.keys, Spec.sha256a, Spec.sha256b, substr_length, hP.sha256_len]

theorem flip_flip (s : Side) : s.flip.flip = s := by cases s <;> rfl

end TdModel.C06
