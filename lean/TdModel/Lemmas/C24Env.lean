/- C24 — preservation of `Rpc.Inv` by the environment actions; the invariant holds in every reachable state. -/
import TdModel.Lemmas.C24Call
import TdModel.Lemmas.C24Notif
namespace TdModel.Rpc

theorem inv_ackOne {cfg : Cfg} (hg : cfg.std = true) (s : State) (id : Nat) (h : Inv s) : Inv (ackOne cfg s id).1 := by
  unfold ackOne
  by_cases hk : s.ack id = true
  · simp only [hk, if_true]
    cases hc : s.calls id with
    | none => exact h
    | some c =>
      have hna := h.ack_unacked id c hk hc
      simp only [hna, Bool.false_eq_true, if_false]
      inv_close hg
  · simp only [hk, if_false]; exact h

theorem inv_ack {cfg : Cfg} (hg : cfg.std = true) {s : State} {ids : List Nat} (h : Inv s) : Inv (stepAck cfg s ids) :=
  stepAck_induct cfg (inv_ackOne hg) ids s h

theorem inv_cancel {s s' : State} {i : Nat} (h : Inv s) (hs : stepCancel s i = some s') : Inv s' := by
  unfold stepCancel at hs
  split at hs
  · simp at hs
  · split at hs <;> simp at hs <;> subst hs
    · inv_close0
    · exact h

theorem inv_advance {s : State} {d : Nat} (h : Inv s) : Inv (stepAdvance s d) := by
  constructor <;> simp [stepAdvance, Call.tickTimer] <;> grind [Inv]

theorem inv_step {cfg : Cfg} {s s' : State} {a : Action} (hg : cfg.std = true) (h : Inv s)
    (hs : step cfg s a = some s') : Inv s' := by
  cases a <;> simp only [step] at hs
  · exact inv_start h hs
  · exact inv_sret hg h hs
  · exact inv_loop hg h hs
  · exact inv_wait hg h hs
  · exact inv_dret hg h hs
  · exact inv_gpass hg h hs
  · exact inv_nstart h hs
  · exact inv_nrun hg h hs
  · exact inv_nwrite h hs
  · cases hs; exact inv_ack hg h
  · exact inv_cancel h hs
  · cases hs; exact inv_advance h
  · split at hs <;> simp at hs; subst hs; constructor <;> simp <;> grind [Inv]
  · split at hs <;> simp at hs; subst hs; constructor <;> simp <;> grind [Inv]
  · split at hs <;> simp at hs; subst hs; constructor <;> simp <;> grind [Inv]

theorem inv_run {cfg : Cfg} (hg : cfg.std = true) {as : List Action} {s s' : State} (h : Inv s)
    (hs : run cfg s as = some s') : Inv s' := by
  induction as generalizing s with
  | nil => simp [run] at hs; subst hs; exact h
  | cons a as ih =>
    simp only [run] at hs
    split at hs
    · next s1 h1 => exact ih (inv_step hg h h1) hs
    · simp at hs

theorem reachable_inv {cfg : Cfg} (hg : cfg.std = true) {s : State} (h : Reachable cfg s) : Inv s := by
  obtain ⟨as, hs⟩ := h
  exact inv_run hg inv_init hs

end TdModel.Rpc
