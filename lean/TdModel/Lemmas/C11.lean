/-
Lemmas for C11: soundness and completeness of the padding-length search of `GuessDataWithHash`.
-/
import TdModel.Model.C11
import TdModel.Lemmas.C06
import TdModel.Lemmas.C04Ige

namespace TdModel.C11
open TdModel
open TdModel.C06 (slice)

/-- The loop body with the regenerated conditions and slice bounds evaluated. -/
theorem guessFrom_succ (P : Prims) (d : Bytes) (fuel i : Nat) :
    guessFrom P d (fuel + 1) i =
      if d.length - i < sha1Size then none
      else if P.sha1 (slice d sha1Size (d.length - i)) == d.take sha1Size
        then some (slice d sha1Size (d.length - i)) else guessFrom P d fuel (i + 1) := by
  by_cases h : d.length - i < sha1Size
  · have h' : d.length - i < 20 := h
    simp [guessFrom, Facts.C11.guessEnd, h, h']
  · have h' : ¬ d.length - i < 20 := h
    simp [guessFrom, Facts.C11.guessEnd, Facts.C11.guessDataLo, Facts.C11.guessDataHi, Facts.C11.guessHashLen,
      h', sha1Size]

theorem guess_def (P : Prims) (d : Bytes) :
    guess P d = if d.length ≤ sha1Size then none else guessFrom P d 16 0 := by
  by_cases h : d.length ≤ sha1Size
  · have h' : d.length ≤ 20 := h
    simp [guess, Facts.C11.guessTooShort, h, h']
  · have h' : ¬ d.length ≤ 20 := h
    simp [guess, Facts.C11.guessTooShort, Facts.C11.guessTries, h, h']

/-- Whatever the loop returns is `d[20 : len-j]` for some tried `j`, hashes to the prefix, and no
earlier tried index matched. -/
theorem guessFrom_some (P : Prims) (d x : Bytes) (fuel i : Nat)
    (h : guessFrom P d fuel i = some x) :
    ∃ j, i ≤ j ∧ j < i + fuel ∧ sha1Size ≤ d.length - j ∧ x = slice d sha1Size (d.length - j) ∧
      P.sha1 x = d.take sha1Size ∧
      ∀ k, i ≤ k → k < j → P.sha1 (slice d sha1Size (d.length - k)) ≠ d.take sha1Size := by
  induction fuel generalizing i with
  | zero => simp [guessFrom] at h
  | succ f ih =>
    rw [guessFrom_succ] at h
    split at h
    · cases h
    · rename_i hlen
      split at h
      · rename_i heq
        cases h
        refine ⟨i, Nat.le_refl _, by omega, by omega, rfl, by simpa using heq, ?_⟩
        intro k h1 h2; omega
      · rename_i hne
        obtain ⟨j, hj1, hj2, hj3, hj4, hj5, hj6⟩ := ih (i + 1) h
        refine ⟨j, by omega, by omega, hj3, hj4, hj5, ?_⟩
        intro k h1 h2
        by_cases hk : k = i
        · subst hk; simpa using hne
        · exact hj6 k (by omega) h2

/-- If some index in the tried range matches (and the slice is long enough up to there), the loop
does not return `nil`. -/
theorem guessFrom_complete (P : Prims) (d : Bytes) (fuel i j : Nat) (h1 : i ≤ j) (h2 : j < i + fuel)
    (h3 : sha1Size ≤ d.length - j) (h4 : P.sha1 (slice d sha1Size (d.length - j)) = d.take sha1Size) :
    ∃ x, guessFrom P d fuel i = some x := by
  induction fuel generalizing i with
  | zero => omega
  | succ f ih =>
    rw [guessFrom_succ]
    have : ¬ d.length - i < sha1Size := by omega
    simp only [this, if_false]
    split
    · exact ⟨_, rfl⟩
    · rename_i hne
      have hij : i ≠ j := by
        intro e; subst e; simp [h4] at hne
      exact ih (i + 1) (by omega) (by omega)

theorem paddedLen16_bounds (l : Nat) :
    l ≤ paddedLen16 l ∧ paddedLen16 l < l + 16 ∧ paddedLen16 l % 16 = 0 := by
  unfold paddedLen16 Facts.C11.paddedLen16
  have h : Int.tdiv (l : Int) 16 = (l : Int) / 16 := Int.tdiv_eq_ediv_of_nonneg (by omega)
  rw [h]
  simp only [decide_eq_true_eq]
  split <;> omega

/-- Genuine answers: `DecryptExchangeAnswer (EncryptExchangeAnswer answer)` succeeds with data `x` that
starts with `answer`, is at most 15 bytes longer and has the same SHA-1. -/
theorem decrypt_encrypt_answer' (P : Prims) (hP : LawfulPrims P) (rnd answer key iv c : Bytes) (isNil : Bool)
    (hk : key.length = 32) (hiv : iv.length = 32)
    (he : encryptAnswer P rnd answer key iv = .ok c) :
    ∃ x k, decryptAnswerWith Facts.C11.guessResultVar P c key iv isNil = .ok (some x) ∧
      x = answer ++ (rnd.take k) ∧ k < 16 ∧ P.sha1 x = P.sha1 answer := by
  unfold encryptAnswer dataWithHash at he
  have hk' : (!aesKeyOk key) = false := by simp [aesKeyOk, hk]
  have hiv' : ¬ iv.length ≠ 32 := by simp [hiv]
  simp only [hk', Bool.false_eq_true, if_false] at he
  have hb := paddedLen16_bounds (answer.length + sha1Size)
  generalize hn : paddedLen16 (answer.length + sha1Size) - (sha1Size + answer.length) = n at he
  have hn16 : n < 16 := by omega
  split at he
  · cases he
  · rename_i awh hawh
    split at hawh
    · cases hawh
    · rename_i hrnd
      simp only [Except.ok.injEq, hiv', if_false] at hawh he
      have hpad : (rnd.take n).length = n := by simp; omega
      have hs1 : (P.sha1 answer).length = 20 := hP.sha1_len _
      have hlen : awh.length = 20 + answer.length + n := by
        rw [← hawh]; simp [hs1, hpad]; omega
      have hal : awh.length % 16 = 0 := by simp only [sha1Size] at hb hn; omega
      have hcl := Ige.enc_length (P.aesEnc key) (hP.aesEnc_len key) iv awh hiv hal
      have hdec := Ige.dec_enc _ _ (Ige.Inv.ofPrims P hP key) iv awh hiv hal
      subst he
      unfold decryptAnswerWith
      have hal' : ¬ (Ige.enc (P.aesEnc key) iv awh).length % 16 ≠ 0 := by rw [hcl]; simp [hal]
      have hv : (Facts.C11.guessResultVar == Facts.C11.guessResultVar) = true := by decide
      simp only [hk', Bool.false_eq_true, hal', hiv', if_false, hdec, hv, if_true]
      -- the search on awh
      have htake : awh.take sha1Size = P.sha1 answer := by
        rw [← hawh, List.append_assoc]; exact List.take_left' hs1
      have hslice : ∀ j, j ≤ n → slice awh sha1Size (awh.length - j) = answer ++ rnd.take (n - j) := by
        intro j hj
        unfold slice
        rw [← hawh]
        have e1 : (P.sha1 answer ++ answer ++ rnd.take n).length - j = 20 + (answer.length + (n - j)) := by
          rw [hawh, hlen]; omega
        rw [e1, List.append_assoc, List.take_append, hs1]
        have e2 : 20 + (answer.length + (n - j)) - 20 = answer.length + (n - j) := by omega
        rw [e2, List.take_of_length_le (by omega : (P.sha1 answer).length ≤ 20 + (answer.length + (n - j)))]
        simp only [sha1Size]
        rw [List.drop_left' hs1, List.take_append]
        rw [List.take_of_length_le (by omega : answer.length ≤ answer.length + (n - j))]
        have e3 : answer.length + (n - j) - answer.length = n - j := by omega
        rw [e3, List.take_take]
        congr 2
        omega
      have hmatch : P.sha1 (slice awh sha1Size (awh.length - n)) = awh.take sha1Size := by
        rw [hslice n (Nat.le_refl _), htake]; simp
      have hgt : ¬ awh.length ≤ sha1Size := by simp only [sha1Size]; omega
      obtain ⟨x, hx⟩ := guessFrom_complete P awh 16 0 n (Nat.zero_le _) (by omega)
        (by simp only [sha1Size]; omega) hmatch
      obtain ⟨j, _, _, _, hj4, hj5, hj6⟩ := guessFrom_some P awh x 16 0 hx
      have hjn : j ≤ n := by
        rcases Nat.lt_or_ge n j with h | h
        · exact absurd hmatch (hj6 n (Nat.zero_le _) h)
        · exact h
      refine ⟨x, n - j, ?_, ?_, by omega, ?_⟩
      · rw [guess_def]
        simp [hgt, hx]
      · rw [hj4, hslice j hjn]
      · rw [hj5, htake]

end TdModel.C11
