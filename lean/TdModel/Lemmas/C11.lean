/-
Lemmas for C11: soundness and completeness of the padding-length search of `GuessDataWithHash`.
-/
import TdModel.Model.C11
import TdModel.Lemmas.C06
import TdModel.Lemmas.C04Ige

namespace TdModel.C11
open TdModel
open TdModel.C06 (slice)

/-- Whatever the loop returns is `d[20 : len-j]` for some tried `j`, hashes to the prefix, and no
earlier tried index matched. -/
theorem guessFrom_some (P : Prims) (d x : Bytes) (fuel i : Nat)
    (h : guessFrom P d fuel i = some x) :
    ∃ j, i ≤ j ∧ j < i + fuel ∧ sha1Size ≤ d.length - j ∧ x = slice d sha1Size (d.length - j) ∧
      P.sha1 x = d.take sha1Size ∧
      ∀ k, i ≤ k → k < j → P.sha1 (slice d sha1Size (d.length - k)) ≠ d.take sha1Size := by
  induction fuel generalizing i with
  | zero => simp [guessFrom] at h
  | succ f ih =>
    simp only [guessFrom] at h
    split at h
    · cases h
    · rename_i hlen
      split at h
      · rename_i heq
        cases h
        refine ⟨i, Nat.le_refl _, by omega, by omega, rfl, by simpa using heq, ?_⟩
        intro k h1 h2; omega
      · rename_i hne
        obtain ⟨j, hj1, hj2, hj3, hj4, hj5, hj6⟩ := ih (i + 1) h
        refine ⟨j, by omega, by omega, hj3, hj4, hj5, ?_⟩
        intro k h1 h2
        by_cases hk : k = i
        · subst hk; simpa using hne
        · exact hj6 k (by omega) h2

/-- If some index in the tried range matches (and the slice is long enough up to there), the loop
does not return `nil`. -/
theorem guessFrom_complete (P : Prims) (d : Bytes) (fuel i j : Nat) (h1 : i ≤ j) (h2 : j < i + fuel)
    (h3 : sha1Size ≤ d.length - j) (h4 : P.sha1 (slice d sha1Size (d.length - j)) = d.take sha1Size) :
    ∃ x, guessFrom P d fuel i = some x := by
  induction fuel generalizing i with
  | zero => omega
  | succ f ih =>
    simp only [guessFrom]
    have : ¬ d.length - i < sha1Size := by omega
    simp only [this, if_false]
    split
    · exact ⟨_, rfl⟩
    · rename_i hne
      have hij : i ≠ j := by
        intro e; subst e; simp [h4] at hne
      exact ih (i + 1) (by omega) (by omega)

end TdModel.C11
