/-
C21 — the nesting budget is enforced: whatever the bytes, a successful decode with budget `d`
went through at most `d` nested boxed objects (calls of a generated `DecodeXxx`).
-/
import TdModel.Model.C21

namespace TdModel.C21
open TdModel TdModel.Bin

mutual
/-- Nesting of *boxed* objects (objects decoded by a `DecodeXxx`) in a value of type `t`. -/
def boxDepthTy (S : Schema) : Ty → Val → Nat
  | .boxed _, .obj c fs =>
    match S.ctors[c]? with
    | some ct => boxDepthFields S ct.fields fs + 1
    | none => 1
  | .ctor _ _, .obj c fs =>
    match S.ctors[c]? with
    | some ct => boxDepthFields S ct.fields fs
    | none => 0
  | .generic, .obj c fs =>
    match S.ctors[c]? with
    | some ct => boxDepthFields S ct.fields fs
    | none => 0
  | .vec _ t, .vec xs => boxDepthElems S t xs
  | _, _ => 0
def boxDepthFields (S : Schema) : List Field → Vals → Nat
  | f :: fs, .cons v vs => max (boxDepthTy S f.ty v) (boxDepthFields S fs vs)
  | _, _ => 0
def boxDepthElems (S : Schema) (t : Ty) : Vals → Nat
  | .cons v vs => max (boxDepthTy S t v) (boxDepthElems S t vs)
  | .nil => 0
end

def DepthTy (S : Schema) (fuel : Nat) : Prop :=
  ∀ (d : Nat) (t : Ty) (b : Bytes) (v : Val) (r : Bytes), decTy S fuel d t b = .ok (v, r) →
    boxDepthTy S t v ≤ d

def DepthFields (S : Schema) (fuel : Nat) : Prop :=
  ∀ (d : Nat) (env : List Nat) (fs : List Field) (b : Bytes) (vs : Vals) (r : Bytes),
    decFields S fuel d env fs b = .ok (vs, r) → boxDepthFields S fs vs ≤ d

def DepthElems (S : Schema) (fuel : Nat) : Prop :=
  ∀ (d : Nat) (t : Ty) (n : Nat) (b : Bytes) (vs : Vals) (r : Bytes),
    decElems S fuel d t n b = .ok (vs, r) → boxDepthElems S t vs ≤ d

theorem depthTy_step (S : Schema) (f : Nat) (hF : DepthFields S f) (hE : DepthElems S f) :
    DepthTy S (f + 1) := by
  intro d t b v r h
  cases t with
  | boxed i =>
    simp only [decTy] at h
    cases h1 : getU32 b with
    | error e => simp [h1] at h
    | ok p =>
      obtain ⟨id, r1⟩ := p
      simp only [h1] at h
      cases d with
      | zero => simp at h
      | succ d' =>
        simp only at h
        cases h2 : findCtor S i id with
        | none => simp [h2] at h
        | some c =>
          simp only [h2] at h
          cases h3 : S.ctors[c]? with
          | none => simp [h3] at h
          | some ct =>
            simp only [h3] at h
            cases h4 : decFields S f d' [] ct.fields r1 with
            | error e => simp [h4] at h
            | ok q =>
              obtain ⟨fs, r2⟩ := q
              simp only [h4] at h
              injection h with h; injection h with h5 h6; subst h5 h6
              have := hF d' [] ct.fields r1 fs r2 h4
              simp only [boxDepthTy, h3]
              omega
  | ctor c bare =>
    simp only [decTy] at h
    cases h3 : S.ctors[c]? with
    | none => simp [h3] at h
    | some ct =>
      simp only [h3] at h
      cases bare with
      | true =>
        simp only [if_true] at h
        cases h4 : decFields S f d [] ct.fields b with
        | error e => simp [h4] at h
        | ok q =>
          obtain ⟨fs, r2⟩ := q
          simp only [h4] at h
          injection h with h; injection h with h5 h6; subst h5 h6
          have := hF d [] ct.fields b fs r2 h4
          simpa only [boxDepthTy, h3] using this
      | false =>
        simp only [Bool.false_eq_true, if_false] at h
        cases hid : ct.id with
        | none => simp [hid] at h
        | some id =>
          simp only [hid] at h
          cases h1 : consumeID id b with
          | error e => simp [h1] at h
          | ok p =>
            obtain ⟨u, r1⟩ := p
            simp only [h1] at h
            cases h4 : decFields S f d [] ct.fields r1 with
            | error e => simp [h4] at h
            | ok q =>
              obtain ⟨fs, r2⟩ := q
              simp only [h4] at h
              injection h with h; injection h with h5 h6; subst h5 h6
              have := hF d [] ct.fields r1 fs r2 h4
              simpa only [boxDepthTy, h3] using this
  | generic =>
    simp only [decTy] at h
    cases hg : S.generic with
    | none => simp [hg] at h
    | some c =>
      simp only [hg] at h
      cases h3 : S.ctors[c]? with
      | none => simp [h3] at h
      | some ct =>
        simp only [h3] at h
        cases hid : ct.id with
        | none => simp [hid] at h
        | some id =>
          simp only [hid] at h
          cases h1 : consumeID id b with
          | error e => simp [h1] at h
          | ok p =>
            obtain ⟨u, r1⟩ := p
            simp only [h1] at h
            cases h4 : decFields S f d [] ct.fields r1 with
            | error e => simp [h4] at h
            | ok q =>
              obtain ⟨fs, r2⟩ := q
              simp only [h4] at h
              injection h with h; injection h with h5 h6; subst h5 h6
              have := hF d [] ct.fields r1 fs r2 h4
              simpa only [boxDepthTy, h3] using this
  | vec bareHdr t =>
    simp only [decTy] at h
    cases hh : (if bareHdr = true then getBareLen b else getVectorHeader b) with
    | error e => simp [hh] at h
    | ok p =>
      obtain ⟨n, r1⟩ := p
      simp only [hh] at h
      cases h4 : decElems S f d t n r1 with
      | error e => simp [h4] at h
      | ok q =>
        obtain ⟨xs, r2⟩ := q
        simp only [h4] at h
        injection h with h; injection h with h5 h6; subst h5 h6
        have := hE d t n r1 xs r2 h4
        simpa only [boxDepthTy] using this
  | int => simp only [decTy] at h; split at h <;> first | (cases h; simp [boxDepthTy]) | cases h
  | long => simp only [decTy] at h; split at h <;> first | (cases h; simp [boxDepthTy]) | cases h
  | double => simp only [decTy] at h; split at h <;> first | (cases h; simp [boxDepthTy]) | cases h
  | int128 => simp only [decTy] at h; split at h <;> first | (cases h; simp [boxDepthTy]) | cases h
  | int256 => simp only [decTy] at h; split at h <;> first | (cases h; simp [boxDepthTy]) | cases h
  | str => simp only [decTy] at h; split at h <;> first | (cases h; simp [boxDepthTy]) | cases h
  | bool => simp only [decTy] at h; split at h <;> first | (cases h; simp [boxDepthTy]) | cases h
  | trueFlag => simp [decTy] at h
  | flags => simp [decTy] at h

theorem depthFields_step (S : Schema) (f : Nat) (hT : DepthTy S f) (hF : DepthFields S f) :
    DepthFields S (f + 1) := by
  intro d env fs b vs r h
  cases fs with
  | nil =>
    simp only [decFields] at h
    injection h with h; injection h with h1 h2; subst h1
    simp [boxDepthFields]
  | cons fld rest =>
    simp only [decFields] at h
    cases hc : fld.cond with
    | some kb =>
      obtain ⟨k, bit⟩ := kb
      simp only [hc] at h
      by_cases htf : fld.ty = .trueFlag
      · simp only [htf, if_true] at h
        cases h4 : decFields S f d env rest b with
        | error e => simp [h4] at h
        | ok q =>
          obtain ⟨ws, r2⟩ := q
          simp only [h4] at h
          injection h with h; injection h with h5 h6; subst h5
          have := hF d env rest b ws r2 h4
          have hz : ∀ x, boxDepthTy S fld.ty (.bool x) = 0 := by intro x; rw [htf]; simp [boxDepthTy]
          simp only [boxDepthFields, hz]
          omega
      · simp only [htf, if_false] at h
        cases hp : hasBit (envWord env k) bit with
        | true =>
          simp only [hp, if_true] at h
          cases h1 : decTy S f d fld.ty b with
          | error e => simp [h1] at h
          | ok p =>
            obtain ⟨v, r1⟩ := p
            simp only [h1] at h
            cases h4 : decFields S f d env rest r1 with
            | error e => simp [h4] at h
            | ok q =>
              obtain ⟨ws, r2⟩ := q
              simp only [h4] at h
              injection h with h; injection h with h5 h6; subst h5
              have a := hT d fld.ty b v r1 h1
              have c := hF d env rest r1 ws r2 h4
              simp only [boxDepthFields]
              omega
        | false =>
          simp only [hp, Bool.false_eq_true, if_false] at h
          cases h4 : decFields S f d env rest b with
          | error e => simp [h4] at h
          | ok q =>
            obtain ⟨ws, r2⟩ := q
            simp only [h4] at h
            injection h with h; injection h with h5 h6; subst h5
            have := hF d env rest b ws r2 h4
            have hz : boxDepthTy S fld.ty .absent = 0 := by cases fld.ty <;> simp [boxDepthTy]
            simp only [boxDepthFields, hz]
            omega
    | none =>
      simp only [hc] at h
      by_cases hfl : fld.ty = .flags
      · simp only [hfl, if_true] at h
        cases h1 : getU32 b with
        | error e => simp [h1] at h
        | ok p =>
          obtain ⟨n, r1⟩ := p
          simp only [h1] at h
          cases h4 : decFields S f d (env ++ [n]) rest r1 with
          | error e => simp [h4] at h
          | ok q =>
            obtain ⟨ws, r2⟩ := q
            simp only [h4] at h
            injection h with h; injection h with h5 h6; subst h5
            have := hF d (env ++ [n]) rest r1 ws r2 h4
            have hz : boxDepthTy S fld.ty (.num n) = 0 := by rw [hfl]; simp [boxDepthTy]
            simp only [boxDepthFields, hz]
            omega
      · simp only [hfl, if_false] at h
        cases h1 : decTy S f d fld.ty b with
        | error e => simp [h1] at h
        | ok p =>
          obtain ⟨v, r1⟩ := p
          simp only [h1] at h
          cases h4 : decFields S f d env rest r1 with
          | error e => simp [h4] at h
          | ok q =>
            obtain ⟨ws, r2⟩ := q
            simp only [h4] at h
            injection h with h; injection h with h5 h6; subst h5
            have a := hT d fld.ty b v r1 h1
            have c := hF d env rest r1 ws r2 h4
            simp only [boxDepthFields]
            omega

theorem depthElems_step (S : Schema) (f : Nat) (hT : DepthTy S f) (hE : DepthElems S f) :
    DepthElems S (f + 1) := by
  intro d t n b vs r h
  cases n with
  | zero =>
    simp only [decElems] at h
    injection h with h; injection h with h1 h2; subst h1
    simp [boxDepthElems]
  | succ m =>
    simp only [decElems] at h
    cases h1 : decTy S f d t b with
    | error e => simp [h1] at h
    | ok p =>
      obtain ⟨v, r1⟩ := p
      simp only [h1] at h
      cases h4 : decElems S f d t m r1 with
      | error e => simp [h4] at h
      | ok q =>
        obtain ⟨ws, r2⟩ := q
        simp only [h4] at h
        injection h with h; injection h with h5 h6; subst h5
        have a := hT d t b v r1 h1
        have c := hE d t m r1 ws r2 h4
        simp only [boxDepthElems]
        omega

theorem depth_all (S : Schema) : ∀ fuel, DepthTy S fuel ∧ DepthFields S fuel ∧ DepthElems S fuel := by
  intro fuel
  induction fuel with
  | zero =>
    refine ⟨?_, ?_, ?_⟩
    · intro d t b v r h; simp [decTy] at h
    · intro d env fs b vs r h; simp [decFields] at h
    · intro d t n b vs r h; simp [decElems] at h
  | succ f ih =>
    obtain ⟨hT, hF, hE⟩ := ih
    exact ⟨depthTy_step S f hF hE, depthFields_step S f hT hF, depthElems_step S f hT hE⟩

end TdModel.C21
