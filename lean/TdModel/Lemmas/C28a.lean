/-
C28 — waiter keys: every key in `reqMap` and every connection sitting in a waiter's channel has a live
reader (a caller parked on that key or giving up on it, which will still poll the channel).
-/
import TdModel.Lemmas.C27g

namespace TdModel.C27

def pcKey : PC → Option Nat
  | .waiting k _ => some k
  | .giveup k _ => some k
  | _ => none

/-- Some caller is parked on key `k` or is giving up on it. -/
def Reader (cs : List Caller) (k : Nat) : Prop := ∃ (i : Nat) (x : Caller), cs[i]? = some x ∧ pcKey x.pc = some k

structure KInv (s : State) : Prop where
  rd_reqs : ∀ k, k ∈ s.reqs → Reader s.callers k
  rd_inbox : ∀ e, e ∈ s.inbox → Reader s.callers e.1
  disj : ∀ e, e ∈ s.inbox → e.1 ∉ s.reqs
  nd_reqs : s.reqs.Nodup
  nd_inbox : (s.inbox.map (·.1)).Nodup
  lt_reqs : ∀ k, k ∈ s.reqs → k < s.nextKey
  lt_inbox : ∀ e, e ∈ s.inbox → e.1 < s.nextKey

theorem kinv_init (m n : Nat) : KInv (init m n) := by
  refine ⟨?_, ?_, ?_, ?_, ?_, ?_, ?_⟩ <;> simp [init]

/-- Changing caller `i` keeps a reader of `k` if the old pc did not read `k` or the new one still does. -/
theorem reader_set {cs : List Caller} {i : Nat} {x y : Caller} {k : Nat} (hr : Reader cs k)
    (hx : cs[i]? = some x) (hk : pcKey x.pc = some k → pcKey y.pc = some k) : Reader (cs.set i y) k := by
  obtain ⟨j, z, hz, hzk⟩ := hr
  have hlt := lt_of_getElem? hx
  by_cases hij : i = j
  · subst hij
    rw [hx] at hz; cases hz
    exact ⟨i, y, by simp [hlt], hk hzk⟩
  · exact ⟨j, z, by simp [hij, hz], hzk⟩

/-- Moving caller `i` to a pc with the same key (or from a pc without key) keeps the key invariant. -/
theorem kinv_keep {t : State} (hI : KInv t) (i : Nat) (x : Caller) (p : PC) (hx : t.callers[i]? = some x)
    (hk : ∀ k, pcKey x.pc = some k → pcKey p = some k) : KInv (setPc t i x p) := by
  refine ⟨?_, ?_, hI.disj, hI.nd_reqs, hI.nd_inbox, hI.lt_reqs, hI.lt_inbox⟩
  · intro k hkr; exact reader_set (hI.rd_reqs k hkr) hx (hk k)
  · intro e he; exact reader_set (hI.rd_inbox e he) hx (hk e.1)

/-- Caller `i` stops reading key `k`: allowed when `k` is neither registered nor has anything in its channel. -/
theorem kinv_drop {t : State} (hI : KInv t) (i : Nat) (x : Caller) (p : PC) (k : Nat)
    (hx : t.callers[i]? = some x) (hxk : pcKey x.pc = some k)
    (h1 : k ∉ t.reqs) (h2 : ∀ e, e ∈ t.inbox → e.1 ≠ k) : KInv (setPc t i x p) := by
  refine ⟨?_, ?_, hI.disj, hI.nd_reqs, hI.nd_inbox, hI.lt_reqs, hI.lt_inbox⟩
  · intro k' hkr
    apply reader_set (hI.rd_reqs k' hkr) hx
    intro h'
    rw [hxk] at h'; cases h'
    exact absurd hkr h1
  · intro e he
    apply reader_set (hI.rd_inbox e he) hx
    intro h'
    rw [hxk] at h'; cases h'
    exact absurd rfl (h2 e he)

/-- Shrinking `reqs` / `inbox` (callers unchanged) keeps the key invariant. -/
theorem kinv_sub {s t : State} (hI : KInv s) (hc : t.callers = s.callers)
    (hr : ∀ k, k ∈ t.reqs → k ∈ s.reqs) (hi : ∀ e, e ∈ t.inbox → e ∈ s.inbox)
    (ndr : t.reqs.Nodup) (ndi : (t.inbox.map (·.1)).Nodup) (hn : s.nextKey ≤ t.nextKey) : KInv t := by
  refine ⟨?_, ?_, ?_, ndr, ndi, ?_, ?_⟩
  · intro k hk; rw [hc]; exact hI.rd_reqs k (hr k hk)
  · intro e he; rw [hc]; exact hI.rd_inbox e (hi e he)
  · intro e he hk; exact hI.disj e (hi e he) (hr _ hk)
  · intro k hk; exact Nat.lt_of_lt_of_le (hI.lt_reqs k (hr k hk)) hn
  · intro e he; exact Nat.lt_of_lt_of_le (hI.lt_inbox e (hi e he)) hn

/-- `takeKey` on a list with distinct keys: the rest has no entry with that key. -/
theorem takeKey_rest {k d : Nat} {l l' : List (Nat × Nat)} (h : takeKey k l = some (d, l'))
    (nd : (l.map (·.1)).Nodup) : (∀ e, e ∈ l' → e.1 ≠ k) ∧ (l'.map (·.1)).Nodup := by
  induction l generalizing l' with
  | nil => simp [takeKey] at h
  | cons e es ih =>
    simp only [takeKey] at h
    simp only [List.map_cons, List.nodup_cons] at nd
    split at h
    · rename_i hk
      simp at h
      obtain ⟨rfl, rfl⟩ := h
      refine ⟨?_, nd.2⟩
      intro e' he' hk'
      apply nd.1
      rw [hk, ← hk']
      exact List.mem_map_of_mem he'
    · rename_i hk
      split at h
      · rename_i c' es' hes
        simp at h
        obtain ⟨rfl, rfl⟩ := h
        obtain ⟨h1, h2⟩ := ih hes nd.2
        refine ⟨?_, ?_⟩
        · intro e' he'
          rcases List.mem_cons.1 he' with rfl | he''
          · exact hk
          · exact h1 e' he''
        · simp only [List.map_cons, List.nodup_cons]
          refine ⟨?_, h2⟩
          intro hm
          apply nd.1
          obtain ⟨e', he', hke'⟩ := List.mem_map.1 hm
          exact List.mem_map.2 ⟨e', (takeKey_mem hes).2 e' he', hke'⟩
      · cases h

theorem takeKey_none {k : Nat} {l : List (Nat × Nat)} (h : takeKey k l = none) : ∀ e, e ∈ l → e.1 ≠ k := by
  induction l with
  | nil => intro e he; cases he
  | cons e es ih =>
    simp only [takeKey] at h
    split at h
    · cases h
    · rename_i hk
      split at h
      · cases h
      · rename_i hes
        intro e' he'
        rcases List.mem_cons.1 he' with rfl | he''
        · exact hk
        · exact ih hes e' he''

/-- `release` keeps the key invariant (the transferred connection goes to a key that has a reader). -/
theorem kinv_release {s s1 : State} {c : Nat} {ko : Option Nat} (hI : KInv s) (h : release s c ko = some s1) :
    KInv s1 ∧ s1.callers = s.callers ∧ (∀ k, k ∈ s1.reqs → k ∈ s.reqs) ∧
      (∀ e, e ∈ s1.inbox → e ∈ s.inbox ∨ e.1 ∈ s.reqs) := by
  cases ko with
  | none =>
    simp only [release] at h
    split at h
    · cases h
      exact ⟨⟨hI.rd_reqs, hI.rd_inbox, hI.disj, hI.nd_reqs, hI.nd_inbox, hI.lt_reqs, hI.lt_inbox⟩, rfl,
        fun _ hk => hk, fun _ he => Or.inl he⟩
    · cases h
  | some k =>
    simp only [release] at h
    split at h
    · rename_i hk
      cases h
      have hsub : ∀ k', k' ∈ s.reqs.erase k → k' ∈ s.reqs := fun k' h' => List.mem_of_mem_erase h'
      refine ⟨⟨?_, ?_, ?_, hI.nd_reqs.erase k, ?_, ?_, ?_⟩, rfl, hsub, ?_⟩
      · intro k' hk'; exact hI.rd_reqs k' (hsub k' hk')
      · intro e he
        rcases List.mem_append.1 he with he | he
        · exact hI.rd_inbox e he
        · simp at he; subst he; exact hI.rd_reqs k hk
      · intro e he hm
        rcases List.mem_append.1 he with he | he
        · exact hI.disj e he (hsub _ hm)
        · simp at he; subst he
          exact (List.Nodup.mem_erase_iff hI.nd_reqs).1 hm |>.1 rfl
      · simp only [List.map_append, List.map_cons, List.map_nil]
        apply List.nodup_append.2
        refine ⟨hI.nd_inbox, by simp, ?_⟩
        intro a ha b hb
        simp at hb; subst hb
        intro hab; subst hab
        obtain ⟨e, he, hke⟩ := List.mem_map.1 ha
        exact hI.disj e he (by rw [hke]; exact hk)
      · intro k' hk'; exact hI.lt_reqs k' (hsub k' hk')
      · intro e he
        rcases List.mem_append.1 he with he | he
        · exact hI.lt_inbox e he
        · simp at he; subst he; exact hI.lt_reqs k hk
      · intro e he
        rcases List.mem_append.1 he with he | he
        · exact Or.inl he
        · simp at he; subst he; exact Or.inr hk
    · cases h

end TdModel.C27
