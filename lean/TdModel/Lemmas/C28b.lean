/-
C28 — the key invariant is preserved by every action of the pool model.
-/
import TdModel.Lemmas.C28a

set_option linter.unusedSimpArgs false

namespace TdModel.C27

theorem markDead_reqs (s : State) (d : Nat) : (markDead s d).reqs = s.reqs := by
  unfold markDead; split <;> (try split) <;> rfl
theorem markDead_inbox (s : State) (d : Nat) : (markDead s d).inbox = s.inbox := by
  unfold markDead; split <;> (try split) <;> rfl
theorem markDead_nextKey (s : State) (d : Nat) : (markDead s d).nextKey = s.nextKey := by
  unfold markDead; split <;> (try split) <;> rfl

theorem kinv_markDead {s : State} (hI : KInv s) (d : Nat) : KInv (markDead s d) :=
  kinv_sub hI (markDead_callers s d) (by rw [markDead_reqs]; exact fun _ h => h)
    (by rw [markDead_inbox]; exact fun _ h => h) (by rw [markDead_reqs]; exact hI.nd_reqs)
    (by rw [markDead_inbox]; exact hI.nd_inbox) (by rw [markDead_nextKey]; exact Nat.le_refl _)

theorem kinv_handOut {cfg : Cfg} {t : State} (hI : KInv t) (i : Nat) (x : Caller) (c : Nat)
    (hx : t.callers[i]? = some x) (hk : pcKey x.pc = none) : KInv (handOut cfg t i x c) := by
  unfold handOut
  split
  · exact kinv_keep hI i x _ hx (by intro k h; rw [hk] at h; cases h)
  · exact kinv_keep hI i x _ hx (by intro k h; rw [hk] at h; cases h)

theorem kinv_handOut_drop {cfg : Cfg} {t : State} (hI : KInv t) (i : Nat) (x : Caller) (c k : Nat)
    (hx : t.callers[i]? = some x) (hxk : pcKey x.pc = some k)
    (h1 : k ∉ t.reqs) (h2 : ∀ e, e ∈ t.inbox → e.1 ≠ k) : KInv (handOut cfg t i x c) := by
  unfold handOut
  split
  · exact kinv_drop hI i x _ k hx hxk h1 h2
  · exact kinv_drop hI i x _ k hx hxk h1 h2

theorem kinv_step {cfg : Cfg} (hgood : Good cfg) {s s' : State} (a : Action) (hI : KInv s) (h : step cfg s a = some s') : KInv s' := by
  obtain ⟨_, _, hgB, hgT, hgR⟩ := hgood
  have nokey : ∀ {x : Caller} {p : PC}, pcKey x.pc = none → ∀ k, pcKey x.pc = some k → pcKey p = some k := by
    intro x p hn k hk; rw [hn] at hk; cases hk
  cases a with
  | closeDC =>
    simp only [step] at h
    split at h
    · cases h
    · cases h
      exact ⟨hI.rd_reqs, hI.rd_inbox, hI.disj, hI.nd_reqs, hI.nd_inbox, hI.lt_reqs, hI.lt_inbox⟩
  | start i =>
    simp only [step, markDeadCfg_good hgR, hgB, hgT, if_true] at h
    split at h
    · rename_i x hx
      split at h
      · rename_i hp
        cases h
        exact kinv_keep hI i x _ hx (nokey (by simp [hp, pcKey]))
      · cases h
    · cases h
  | enter i =>
    simp only [step, markDeadCfg_good hgR, hgB, hgT, if_true] at h
    split at h
    · rename_i x hx
      split at h
      · rename_i hp
        have hnk : pcKey x.pc = none := by simp [hp, pcKey]
        split at h
        · rename_i d fs hf
          cases h
          exact kinv_keep (t := { s with free := fs }) ⟨hI.rd_reqs, hI.rd_inbox, hI.disj, hI.nd_reqs, hI.nd_inbox,
            hI.lt_reqs, hI.lt_inbox⟩ i x _ hx (nokey hnk)
        · split at h
          · cases h
            exact kinv_keep (t := { s with total := s.total + 1 })
              ⟨hI.rd_reqs, hI.rd_inbox, hI.disj, hI.nd_reqs, hI.nd_inbox, hI.lt_reqs, hI.lt_inbox⟩ i x _ hx (nokey hnk)
          · cases h
            have hlt := lt_of_getElem? hx
            refine ⟨?_, ?_, ?_, ?_, hI.nd_inbox, ?_, ?_⟩
            · intro k hk
              rcases List.mem_append.1 hk with hk | hk
              · exact reader_set (hI.rd_reqs k hk) hx (nokey hnk k)
              · simp at hk; subst hk
                exact ⟨i, { x with pc := .waiting s.nextKey s.gen }, by simp [setPc, hlt], rfl⟩
            · intro e he
              exact reader_set (hI.rd_inbox e he) hx (nokey hnk e.1)
            · intro e he hm
              rcases List.mem_append.1 hm with hm | hm
              · exact hI.disj e he hm
              · simp at hm
                have := hI.lt_inbox e he
                omega
            · apply List.nodup_append.2
              refine ⟨hI.nd_reqs, by simp, ?_⟩
              intro a ha b hb
              simp at hb; subst hb
              intro hab; subst hab
              have := hI.lt_reqs _ ha
              omega
            · intro k hk
              rcases List.mem_append.1 hk with hk | hk
              · have := hI.lt_reqs k hk
                show k < s.nextKey + 1
                omega
              · simp at hk; subst hk
                show s.nextKey < s.nextKey + 1
                omega
            · intro e he
              have := hI.lt_inbox e he
              show e.1 < s.nextKey + 1
              omega
      · cases h
    · cases h
  | mk i =>
    simp only [step, markDeadCfg_good hgR, hgB, hgT, if_true] at h
    split at h
    · rename_i x hx
      split at h
      · rename_i hp
        have hnk : pcKey x.pc = none := by simp [hp, pcKey]
        cases h
        exact kinv_keep (t := { s with conns := s.conns ++ [{ dead := false, ready := false, orphan := false }] })
          ⟨hI.rd_reqs, hI.rd_inbox, hI.disj, hI.nd_reqs, hI.nd_inbox, hI.lt_reqs, hI.lt_inbox⟩ i x _ hx (nokey hnk)
      · cases h
    · cases h
  | check i =>
    simp only [step, markDeadCfg_good hgR, hgB, hgT, if_true] at h
    split at h
    · rename_i x hx
      split at h
      · rename_i d hp
        have hnk : pcKey x.pc = none := by simp [hp, pcKey]
        split at h
        · cases h; exact kinv_keep hI i x _ hx (nokey hnk)
        · cases h; exact kinv_keep hI i x _ hx (nokey hnk)
      · cases h
    · cases h
  | cwake i b =>
    simp only [step, markDeadCfg_good hgR, hgB, hgT, if_true] at h
    split at h
    · rename_i x hx
      split at h
      · rename_i d hp
        have hnk : pcKey x.pc = none := by simp [hp, pcKey]
        split at h
        · rename_i cn hcn
          cases b with
          | ready =>
            simp only at h
            split at h
            · cases h; exact kinv_handOut hI i x d hx hnk
            · cases h
          | dead =>
            simp only at h
            split at h
            · cases h; exact kinv_keep hI i x _ hx (nokey hnk)
            · cases h
          | ctx =>
            simp only at h
            split at h
            · cases h
              exact kinv_keep (t := { s with conns := s.conns.set d _ })
                ⟨hI.rd_reqs, hI.rd_inbox, hI.disj, hI.nd_reqs, hI.nd_inbox, hI.lt_reqs, hI.lt_inbox⟩ i x _ hx (nokey hnk)
            · cases h
          | dc =>
            simp only at h
            split at h
            · cases h; exact kinv_keep hI i x _ hx (nokey hnk)
            · cases h
        · cases h
      · cases h
    · cases h
  | wwake i b =>
    simp only [step, markDeadCfg_good hgR, hgB, hgT, if_true] at h
    split at h
    · rename_i x hx
      split at h
      · rename_i k g hp
        have hxk : pcKey x.pc = some k := by simp [hp, pcKey]
        cases b with
        | ch =>
          simp only at h
          split at h
          · rename_i d rest htk
            cases h
            obtain ⟨hm, hsub⟩ := takeKey_mem htk
            obtain ⟨hne, hnd⟩ := takeKey_rest htk hI.nd_inbox
            have hI2 : KInv { s with inbox := rest } :=
              kinv_sub hI rfl (fun _ h => h) hsub hI.nd_reqs hnd (Nat.le_refl _)
            exact kinv_handOut_drop hI2 i x d k hx hxk (hI.disj (k, d) hm) hne
          · cases h
        | stuck =>
          simp only at h
          split at h
          · cases h
            exact kinv_keep hI i x _ hx (by intro k' hk'; rw [hxk] at hk'; cases hk'; rfl)
          · cases h
        | ctx =>
          simp only at h
          split at h
          · cases h
            exact kinv_keep hI i x _ hx (by intro k' hk'; rw [hxk] at hk'; cases hk'; rfl)
          · cases h
        | dc =>
          simp only at h
          split at h
          · cases h
            exact kinv_keep hI i x _ hx (by intro k' hk'; rw [hxk] at hk'; cases hk'; rfl)
          · cases h
      · cases h
    · cases h
  | giveup i ko =>
    simp only [step, markDeadCfg_good hgR, hgB, hgT, if_true] at h
    split at h
    · rename_i x hx
      split at h
      · rename_i k w hp
        have hxk : pcKey x.pc = some k := by simp [hp, pcKey]
        have hI1 : KInv { s with reqs := s.reqs.erase k } :=
          kinv_sub hI rfl (fun _ h => List.mem_of_mem_erase h) (fun _ h => h) (hI.nd_reqs.erase k) hI.nd_inbox
            (Nat.le_refl _)
        have hk1 : k ∉ s.reqs.erase k := fun hm => ((List.Nodup.mem_erase_iff hI.nd_reqs).1 hm).1 rfl
        split at h
        · rename_i htk
          have hne := takeKey_none htk
          split at h
          · cases h
            exact kinv_drop hI1 i x _ k hx hxk hk1 hne
          · cases h
        · rename_i d rest htk
          have htk' : takeKey k s.inbox = some (d, rest) := htk
          obtain ⟨hm, hsub⟩ := takeKey_mem htk'
          obtain ⟨hne, hnd⟩ := takeKey_rest htk' hI.nd_inbox
          have hI2 : KInv { s with reqs := s.reqs.erase k, inbox := rest } :=
            kinv_sub hI1 rfl (fun _ h => h) hsub (hI.nd_reqs.erase k) hnd (Nat.le_refl _)
          cases w with
          | stuck =>
            simp only at h
            split at h
            · cases h
              exact kinv_handOut_drop hI2 i x d k hx hxk hk1 hne
            · cases h
          | ctx =>
            simp only at h
            split at h
            · rename_i s3 hrel
              cases h
              obtain ⟨hI3, hc3, hr3, hi3⟩ := kinv_release hI2 hrel
              apply kinv_drop hI3 i x _ k (by rw [hc3]; exact hx) hxk
              · intro hm'; exact hk1 (hr3 k hm')
              · intro e he
                rcases hi3 e he with h' | h'
                · exact hne e h'
                · intro hek
                  rw [hek] at h'
                  exact hk1 h'
            · cases h
      · cases h
    · cases h
  | finish i r ko =>
    simp only [step, markDeadCfg_good hgR, hgB, hgT, if_true] at h
    split at h
    · rename_i x hx
      split at h
      · rename_i d hp
        have hnk : pcKey x.pc = none := by simp [hp, pcKey]
        split at h
        · split at h
          · cases h
            exact kinv_keep (kinv_markDead hI d) i x _ (by rw [markDead_callers]; exact hx) (nokey hnk)
          · cases h
        · split at h
          · rename_i s1 hrel
            cases h
            obtain ⟨hI1, hc1, _, _⟩ := kinv_release hI hrel
            exact kinv_keep hI1 i x _ (by rw [hc1]; exact hx) (nokey hnk)
          · cases h
      · cases h
    · cases h
  | ready d =>
    simp only [step, markDeadCfg_good hgR, hgB, hgT, if_true] at h
    split at h
    · cases h
      exact ⟨hI.rd_reqs, hI.rd_inbox, hI.disj, hI.nd_reqs, hI.nd_inbox, hI.lt_reqs, hI.lt_inbox⟩
    · cases h
  | die d =>
    simp only [step, markDeadCfg_good hgR, hgB, hgT, if_true] at h
    split at h
    · cases h; exact kinv_markDead hI d
    · cases h
  | cancel i =>
    simp only [step, markDeadCfg_good hgR, hgB, hgT, if_true] at h
    split at h
    · rename_i x hx
      cases h
      refine ⟨?_, ?_, hI.disj, hI.nd_reqs, hI.nd_inbox, hI.lt_reqs, hI.lt_inbox⟩
      · intro k hk; exact reader_set (hI.rd_reqs k hk) hx (fun h => h)
      · intro e he; exact reader_set (hI.rd_inbox e he) hx (fun h => h)
    · cases h
  | bg d rel ko =>
    simp only [step, markDeadCfg_good hgR, hgB, hgT, if_true] at h
    split at h
    · rename_i cn hcn
      split at h
      · have hI1 : KInv { s with conns := s.conns.set d { cn with orphan := false } } :=
          ⟨hI.rd_reqs, hI.rd_inbox, hI.disj, hI.nd_reqs, hI.nd_inbox, hI.lt_reqs, hI.lt_inbox⟩
        cases rel with
        | true =>
          simp only [if_true] at h
          split at h
          · exact (kinv_release hI1 h).1
          · cases h
        | false =>
          simp only [Bool.false_eq_true, if_false] at h
          split at h
          · cases h; exact hI1
          · cases h
      · cases h
    · cases h

theorem kinv_run {cfg : Cfg} (hgood : Good cfg) (as : List Action) {s s' : State} (hI : KInv s) (h : run cfg s as = some s') :
    KInv s' := by
  induction as generalizing s with
  | nil => simp [run] at h; subst h; exact hI
  | cons a as ih =>
    simp only [run] at h
    split at h
    · rename_i s1 h1; exact ih (kinv_step hgood a hI h1) h
    · cases h

end TdModel.C27
