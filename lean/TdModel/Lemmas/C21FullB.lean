/-
C21 — kernel evaluation on the whole regenerated schema, part B: the per-interface certificate
(members with their ids, ids pairwise distinct) against the chunked ids.
-/
import TdModel.Gen.C21Full
import TdModel.Lemmas.C21Cert

namespace TdModel.C21
open TdModel.Facts.C21Full

theorem full_cert_ok : certOKc idChunks fullSchema.ifaces.toList cert = true := by decide +kernel

end TdModel.C21
