/-
C02/C03 — file F: channel workers' queues, quiescence, harness actions, start — and the main
theorem: every run of the manager model keeps the invariant, hence projects, for each tracked
sequence, to a well-formed run of the per-sequence LTS.
-/
import TdModel.Lemmas.C02MgrE

namespace TdModel.C02Core
open TdModel.C01

/-- `pushChan` with the item's validity needed only if the channel is tracked. -/
theorem minv_pushChan' {O log keys org start m} (h : MInv O log keys org start m) (c : Nat) (it : ChItem)
    (hit : 2 + c ∈ keys → ItemOK log c it) : MInv O log keys org start (m.pushChan c it) := by
  refine ⟨coh_pushChan h.coh c it, h.p0, h.q0, h.c0, ?_, h.internal, h.startP, h.startC, h.parked⟩
  intro q hq
  rw [queues_pushChan] at hq
  obtain ⟨q0, hq0, rfl⟩ := List.mem_map.1 hq
  have := h.queues q0 hq0
  by_cases hc : (q0.1 == c) = true
  · simp only [hc, if_true]
    refine ⟨this.1, ?_⟩
    intro it' hit'
    simp only [List.mem_append, List.mem_singleton] at hit'
    have hqc : q0.1 = c := by simpa using hc
    rcases hit' with h' | rfl
    · exact this.2 it' h'
    · rw [hqc]; exact hit (by rw [← hqc]; exact this.1)
  · simp only [hc, if_false]
    exact this

theorem minv_handleContainer {O log keys org start m} (hO : GoodOrders O) (hS : Scn log keys org)
    (h : MInv O log keys org start m) (cont : List Entry) (hc : ∀ e ∈ cont, e ∈ log) (a b : Nat) :
    MInv O log keys org start (m.handleContainer O cont a b) := by
  unfold Mgr.handleContainer
  split
  · exact minv_handleSeq hO hS h cont hc a b
  · exact minv_getDifference hO hS _ m h

/-! ### One item of a channel worker's queue -/

theorem minv_chanItem {O log keys org start} (hO : GoodOrders O) (hS : Scn log keys org) (fuel c : Nat)
    (m : Mgr) (it : ChItem) (h : MInv O log keys org start m) (hit : ItemOK log c it) :
    MInv O log keys org start (Mgr.chanItem O fuel c m it) := by
  cases it with
  | upd e => exact minv_push hO hS h (2 + c) e hit
  | subscribe => exact minv_chGetDifference hO hS c fuel m h
  | tooLong p =>
    cases p with
    | none => exact minv_chGetDifference hO hS c fuel m h
    | some p =>
      simp only [Mgr.chanItem]
      cases hb : m.getBox (2 + c) with
      | none => simpa using h
      | some b =>
        simp only
        split
        · apply minv_seqOp hO hS h
          · intro b' _; simp [wfOp, cbOnlyShape]
          · intro h1; omega
        · exact minv_chGetDifference hO hS c fuel m h

/-! ### Draining a worker's queue -/

def Mgr.clearQueue (m : Mgr) (c : Nat) : Mgr :=
  { m with chans := m.chans.map fun x => if x.id == c then { x with queue := [] } else x }

theorem getBox_clearQueue (m : Mgr) (c k : Nat) : (m.clearQueue c).getBox k = m.getBox k := by
  unfold Mgr.clearQueue Mgr.getBox
  by_cases h0 : k = 0
  · simp [h0]
  · by_cases h1 : k = 1
    · simp [h1]
    · simp only [h0, h1, if_false]
      rw [find_map_id _ _ (by intro ch; split <;> rfl)]
      cases hf : m.chans.find? (·.id == k - 2) with
      | none => simp
      | some ch => simp only [Option.map_some]; split <;> rfl

theorem queues_clearQueue (m : Mgr) (c : Nat) :
    (m.clearQueue c).queues = m.queues.map fun q => if q.1 == c then (q.1, []) else q := by
  unfold Mgr.clearQueue Mgr.queues
  simp only [List.map_map]
  apply List.map_congr_left
  intro ch _
  simp only [Function.comp]
  split <;> simp_all

theorem minv_clearQueue {O log keys org start m} (h : MInv O log keys org start m) (c : Nat) :
    MInv O log keys org start (m.clearQueue c) := by
  refine ⟨⟨h.coh.hlog, ?_, h.coh.tr, h.coh.wf, ?_, ?_⟩, h.p0, h.q0, h.c0, ?_, h.internal, h.startP, h.startC, h.parked⟩
  · intro k hk; rw [getBox_clearQueue]; exact h.coh.box k hk
  · intro k hk b hb; rw [getBox_clearQueue] at hb; exact h.coh.pend k hk b hb
  · intro k hk; rw [getBox_clearQueue]; exact h.coh.nobox k hk
  · intro q hq
    rw [queues_clearQueue] at hq
    obtain ⟨q0, hq0, rfl⟩ := List.mem_map.1 hq
    have := h.queues q0 hq0
    by_cases hc : (q0.1 == c) = true
    · simp only [hc, if_true]
      exact ⟨this.1, fun it hit => by simp at hit⟩
    · simp only [hc, if_false]; exact this

theorem minv_drainChan {O log keys org start} (hO : GoodOrders O) (hS : Scn log keys org) (fuel : Nat)
    (m : Mgr) (c : Nat) (h : MInv O log keys org start m) :
    MInv O log keys org start (Mgr.drainChan O fuel m c) := by
  unfold Mgr.drainChan
  cases hf : m.chans.find? (·.id == c) with
  | none => simpa using h
  | some ch =>
    simp only
    have hmem : ch ∈ m.chans := List.mem_of_find?_eq_some hf
    have hid : ch.id = c := by
      have := List.find?_some hf
      simpa using this
    have hq : (ch.id, ch.queue) ∈ m.queues := List.mem_map.2 ⟨ch, hmem, rfl⟩
    have hitems : ∀ it ∈ ch.queue, ItemOK log c it := by
      intro it hit
      have := (h.queues _ hq).2 it hit
      rw [← hid]; exact this
    exact foldl_inv (MInv O log keys org start) (Mgr.chanItem O fuel c) ch.queue (ItemOK log c)
      (fun b a hb ha => minv_chanItem hO hS fuel c b a hb ha) _ (minv_clearQueue h c) hitems

/-! ### Quiescence -/

theorem minv_settle {O log keys org start} (hO : GoodOrders O) (hS : Scn log keys org) :
    ∀ fuel m, MInv O log keys org start m → MInv O log keys org start (Mgr.settle O fuel m) := by
  intro fuel
  induction fuel with
  | zero => intro m h; exact h
  | succ fuel ih =>
    intro m h
    unfold Mgr.settle
    simp only
    split
    · exact h
    · apply ih
      have h1 : MInv O log keys org start ((m.chans.map (·.id)).foldl (Mgr.drainChan O fuel) m) :=
        foldl_inv (MInv O log keys org start) (Mgr.drainChan O fuel) _ (fun _ => True)
          (fun b a hb _ => minv_drainChan hO hS fuel b a hb) m h (fun _ _ => trivial)
      generalize (m.chans.map (·.id)).foldl (Mgr.drainChan O fuel) m = m1 at h1
      have h2 : MInv O log keys org start { m1 with internal := [] } :=
        ⟨⟨h1.coh.hlog, h1.coh.box, h1.coh.tr, h1.coh.wf, h1.coh.pend, h1.coh.nobox⟩, h1.p0, h1.q0, h1.c0,
          h1.queues, fun cont hc => by simp at hc, h1.startP, h1.startC, h1.parked⟩
      exact foldl_inv (MInv O log keys org start) (fun (m : Mgr) cont => m.handleContainer O cont 0 0) m1.internal
        (fun cont => ∀ e ∈ cont, e ∈ log)
        (fun b a hb ha => minv_handleContainer hO hS hb a ha 0 0) _ h2 h1.internal

/-! ### Harness actions -/

theorem minv_emitted {O log keys org start m} (h : MInv O log keys org start m) (n : Nat) :
    MInv O log keys org start { m with w := { m.w with emitted := n } } :=
  minv_world h _ rfl

theorem serverPts_nonneg {O log keys org start m} (hS : Scn log keys org) (h : MInv O log keys org start m) :
    0 ≤ m.w.serverPts := by
  unfold World.serverPts
  rcases lastPos_cases m.w.p0 (fun e => e.seqKey == some 0) m.w.happened with h' | ⟨f, hf, hP, hpos⟩
  · rw [h', h.p0]; exact hS.orgNonneg 0 hS.k0
  · rw [← hpos]
    have hfl : f ∈ log := by rw [← h.coh.hlog]; exact List.mem_of_mem_take hf
    have := (hS.above 0 hS.k0 f hfl ((beq_some_iff f 0).1 hP)).2.2
    omega

theorem serverChan_nonneg {O log keys org start m} (hS : Scn log keys org) (h : MInv O log keys org start m)
    (c : Nat) (hk : 2 + c ∈ keys) : 0 ≤ m.w.serverChan c := by
  unfold World.serverChan
  rcases lastPos_cases (m.w.chanInit c) (fun e => e.seqKey == some (2 + c)) m.w.happened with h' | ⟨f, hf, hP, hpos⟩
  · rw [h', h.c0 c hk]; exact hS.orgNonneg _ hk
  · rw [← hpos]
    have hfl : f ∈ log := by rw [← h.coh.hlog]; exact List.mem_of_mem_take hf
    have := (hS.above _ hk f hfl ((beq_some_iff f (2 + c)).1 hP)).2.2
    omega

theorem mkOf_ephemeral (log : List Entry) (n : Nat) : mkOf log (ephemeralBase + n) = true := by
  unfold mkOf
  simp

theorem minv_fire {O log keys org start m} (hO : GoodOrders O) (hS : Scn log keys org)
    (h : MInv O log keys org start m) (k : Nat) : MInv O log keys org start (m.seqOp O k .fire) :=
  minv_seqOp hO hS h k .fire (fun _ _ => rfl) (fun _ b _ => by simp [sstep])

theorem minv_act {O log keys org start} (hO : GoodOrders O) (hS : Scn log keys org)
    (m : Mgr) (a : Action) (h : MInv O log keys org start m) : MInv O log keys org start (m.act O a) := by
  cases a with
  | emit n => exact minv_emitted h _
  | push ids =>
    simp only [Mgr.act]
    have hes : ∀ e ∈ ids.filterMap (fun i => m.w.log.find? (·.id == i)), e ∈ log := by
      intro e he
      obtain ⟨i, _, hi⟩ := List.mem_filterMap.1 he
      rw [← h.coh.hlog]; exact List.mem_of_find?_eq_some hi
    split
    · exact minv_emitted h _
    · exact minv_handleContainer hO hS (minv_emitted h _) _ hes 0 0
  | affected id =>
    simp only [Mgr.act]
    split
    · rename_i e j he _
      have hel : e ∈ log := by rw [← h.coh.hlog]; exact List.mem_of_find?_eq_some he
      have h1 := minv_emitted h (max m.w.emitted (j + 1))
      split
      · exact h1
      · split
        · rename_i hk
          exact minv_push hO hS h1 0 e ⟨by simp [Entry.seqKey, (by simpa using hk : e.kind = .aff)], Or.inl hel⟩
        · split
          · rename_i hk
            exact minv_pushChan h1 e.chan (.upd e)
              ⟨kind_seqKeyCh e (Or.inr (Or.inr (by simpa using hk))), Or.inl hel⟩
          · exact h1
    · exact h
  | affectedZero c =>
    simp only [Mgr.act]
    by_cases hc : c = 0
    · subst hc
      simp only [if_true]
      split
      · exact h
      · rename_i hpos
        have hnn := serverPts_nonneg hS h
        apply minv_push hO hS h 0
        refine ⟨by simp [Entry.seqKey], Or.inr ⟨rfl, ?_, mkOf_ephemeral log _⟩⟩
        simp only at hpos ⊢
        omega
    · simp only [hc, if_false]
      split
      · exact h
      · rename_i hpos
        apply minv_pushChan' h c
        intro hk
        have hnn := serverChan_nonneg hS h c hk
        refine ⟨by simp [Entry.seqKey], Or.inr ⟨rfl, ?_, mkOf_ephemeral log _⟩⟩
        simp only at hpos ⊢
        omega
  | tooLong => exact minv_getDifference hO hS _ m h
  | chTooLong c => exact minv_pushChan h c _ trivial
  | wait =>
    simp only [Mgr.act]
    have step1 : MInv O log keys org start
        (if m.pts.armed then (m.seqOp O 0 .fire).getDifference O fuel0 else m) := by
      split
      · exact minv_getDifference hO hS _ _ (minv_fire hO hS h 0)
      · exact h
    generalize (if m.pts.armed then (m.seqOp O 0 .fire).getDifference O fuel0 else m) = m1 at step1
    have step2 : MInv O log keys org start
        (if m1.qts.armed then (m1.seqOp O 1 .fire).getDifference O fuel0 else m1) := by
      split
      · exact minv_getDifference hO hS _ _ (minv_fire hO hS step1 1)
      · exact step1
    generalize (if m1.qts.armed then (m1.seqOp O 1 .fire).getDifference O fuel0 else m1) = m2' at step2
    have step3 : MInv O log keys org start
        (if m2'.seq.armed then (m2'.withSeq { m2'.seq with armed := false }).getDifference O fuel0 else m2') := by
      split
      · exact minv_getDifference hO hS _ _ (minv_withSeq step2 _)
      · exact step2
    generalize (if m2'.seq.armed then (m2'.withSeq { m2'.seq with armed := false }).getDifference O fuel0 else m2') = m2 at step3
    have step2 := step3
    apply foldl_inv (MInv O log keys org start) _ _ (fun _ => True) _ m2 step2 (fun _ _ => trivial)
    intro b c hb _
    split
    · split
      · exact minv_chGetDifference hO hS c _ _ (minv_fire hO hS hb (2 + c))
      · exact hb
    · exact hb
  | slice n => exact minv_world h _ rfl
  | chSlice n => exact minv_world h _ rfl
  | tlNext => exact minv_world h _ rfl
  | chTlNext c => exact minv_world h _ rfl
  | extra k ids => exact minv_world h _ rfl
  | failNext k => exact minv_world h _ rfl
  | known c => exact minv_world h _ rfl
  | emitSeq n => exact minv_world h _ rfl
  | knowUsers ids => exact minv_users h _
  | setPriv c on => exact minv_world h _ rfl
  | pushSeq a b ids =>
    simp only [Mgr.act]
    have hes : ∀ e ∈ ids.filterMap (fun i => m.w.log.find? (·.id == i)), e ∈ log := by
      intro e he
      obtain ⟨i, _, hi⟩ := List.mem_filterMap.1 he
      rw [← h.coh.hlog]; exact List.mem_of_find?_eq_some hi
    have hw : MInv O log keys org start { m with w := { m.w with
        emitted := ids.foldl (fun acc i => match m.w.log.findIdx? (·.id == i) with
          | some j => max acc (j + 1) | none => acc) m.w.emitted,
        seqNow := max m.w.seqNow b } } := minv_world h _ rfl
    split
    · exact hw
    · exact minv_handleContainer hO hS hw _ hes a b

theorem minv_runActions {O log keys org start} (hO : GoodOrders O) (hS : Scn log keys org)
    (acts : List Action) (m : Mgr) (h : MInv O log keys org start m) :
    MInv O log keys org start (m.runActions O acts) := by
  unfold Mgr.runActions
  exact foldl_inv (MInv O log keys org start) _ acts (fun _ => True)
    (fun b a hb _ => minv_settle hO hS _ _ (minv_act hO hS b a hb)) m h (fun _ _ => trivial)

end TdModel.C02Core
