/-
C29 — invariant of the request / connection-epoch model.
-/
import TdModel.Model.C29

namespace TdModel.C29

def Reachable (cfg : Cfg) (n : Nat) (s : State) : Prop := ∃ as, run cfg (init n) as = some s

/-- Per-request consistency (`snap` = the `connChanged` snapshot is taken before `conn.Invoke`). -/
def ReqOK (snap : Bool) (s : State) (r : Nat) (q : Req) : Prop :=
  ((q.phase = .idle ∨ q.phase = .ready ∨ (∃ k, q.phase = .bound k) ∨ (∃ w, q.phase = .parked w)) → q.ackSeen = none) ∧
  (∀ k, q.phase = .sent k → q.ackSeen = none ∧ k ≤ s.epoch ∧ ∀ k', (r, k') ∈ s.arrivals → k' ≤ k) ∧
  (∀ k, q.phase = .acked k → q.ackSeen = some k) ∧
  (∀ a, q.ackSeen = some a → a ≤ s.epoch ∧ ∀ k', (r, k') ∈ s.arrivals → k' ≤ a) ∧
  (q.phase = .doneErr →
    (q.reason = .ackedLost ∧ q.ackSeen ≠ none) ∨ (q.reason = .closed ∧ s.closed = true) ∨ q.reason = .sendError) ∧
  (q.phase = .idle → ∀ k', (r, k') ∉ s.arrivals) ∧
  (∀ k, q.phase = .bound k → k ≤ s.epoch ∧ ∀ k', (r, k') ∈ s.arrivals → k' < k) ∧
  (∀ w, q.phase = .parked w → w ≤ s.epoch ∧ (snap = true → w = s.epoch → s.alive = false) ∧
    ∀ k', (r, k') ∈ s.arrivals → k' ≤ w) ∧
  (q.phase = .ready → ∀ k', (r, k') ∉ s.arrivals)

structure Inv (snap : Bool) (s : State) : Prop where
  req : ∀ (r : Nat) (q : Req), s.reqs[r]? = some q → ReqOK snap s r q
  le : ∀ (r k : Nat), (r, k) ∈ s.arrivals → k ≤ s.epoch
  nodup : s.arrivals.Nodup

theorem inv_init (snap : Bool) (n : Nat) : Inv snap (init n) := by
  refine ⟨?_, by intro r k h; simp [init] at h, by simp [init]⟩
  intro r q h
  simp [init, List.getElem?_replicate] at h
  obtain ⟨_, rfl⟩ := h
  simp [ReqOK, init]

theorem lt_of_getElem? {α : Type} {l : List α} {i : Nat} {x : α} (h : l[i]? = some x) : i < l.length := by
  rcases Nat.lt_or_ge i l.length with h' | h'
  · exact h'
  · rw [List.getElem?_eq_none h'] at h; cases h

/-- Changing one request (with everything else unchanged). -/
theorem inv_setReq {snap : Bool} {s : State} (hI : Inv snap s) (r : Nat) (q q' : Req) (hq : s.reqs[r]? = some q)
    (h' : ReqOK snap s r q') : Inv snap (setReq s r q') := by
  have hlt := lt_of_getElem? hq
  refine ⟨?_, hI.le, hI.nodup⟩
  intro r2 q2 h2
  simp only [setReq, List.getElem?_set] at h2
  by_cases hr : r = r2
  · subst hr
    simp [hlt] at h2
    subst h2
    exact h'
  · simp [hr] at h2
    exact hI.req r2 q2 h2

/-- `ReqOK` depends on the environment only through monotone facts. -/
theorem reqOK_mono {snap : Bool} {s s' : State} {r : Nat} {q : Req} (h : ReqOK snap s r q)
    (he : s.epoch ≤ s'.epoch) (ha : s'.arrivals = s.arrivals) (hc : s.closed = true → s'.closed = true)
    (hal : s'.epoch = s.epoch → s.alive = false → s'.alive = false) :
    ReqOK snap s' r q := by
  obtain ⟨h1, h2, h3, h4, h5, h6, h7, h8, h9⟩ := h
  refine ⟨h1, ?_, h3, ?_, ?_, ?_, ?_, ?_, ?_⟩
  · intro k hk
    obtain ⟨a, b, c⟩ := h2 k hk
    exact ⟨a, Nat.le_trans b he, by rw [ha]; exact c⟩
  · intro a hak
    obtain ⟨b, c⟩ := h4 a hak
    exact ⟨Nat.le_trans b he, by rw [ha]; exact c⟩
  · intro hd
    rcases h5 hd with h | ⟨h, hcl⟩ | h
    · exact Or.inl h
    · exact Or.inr (Or.inl ⟨h, hc hcl⟩)
    · exact Or.inr (Or.inr h)
  · rw [ha]; exact h6
  · intro k hk
    obtain ⟨a, b⟩ := h7 k hk
    exact ⟨Nat.le_trans a he, by rw [ha]; exact b⟩
  · intro w hw
    obtain ⟨a, b, c⟩ := h8 w hw
    refine ⟨Nat.le_trans a he, ?_, by rw [ha]; exact c⟩
    intro hs hwe
    have hee : s'.epoch = s.epoch := by omega
    exact hal hee (b hs (by omega))
  · rw [ha]; exact h9

theorem inv_mono {snap : Bool} {s s' : State} (hI : Inv snap s) (hr : s'.reqs = s.reqs)
    (he : s.epoch ≤ s'.epoch) (ha : s'.arrivals = s.arrivals) (hc : s.closed = true → s'.closed = true)
    (hal : s'.epoch = s.epoch → s.alive = false → s'.alive = false) : Inv snap s' := by
  refine ⟨?_, ?_, by rw [ha]; exact hI.nodup⟩
  · intro r q h
    rw [hr] at h
    exact reqOK_mono (hI.req r q h) he ha hc hal
  · intro r k h
    rw [ha] at h
    exact Nat.le_trans (hI.le r k h) he

end TdModel.C29
