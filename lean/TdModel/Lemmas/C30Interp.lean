/-
C30 — the interpreted model equals the hand-written one for the current regenerated facts.
Every lemma here unfolds `Facts.C30.*`; a semantic change of the Go source changes those
definitions and these proofs stop compiling.
-/
import TdModel.Model.C30Interp
import TdModel.Lemmas.C30Conc

namespace TdModel.C30
open TdModel Facts.C30

theorem prog_regular : progOf .regular = ["track", "test", "store", "load", "write"] := by decide
theorem prog_cdn : progOf .cdn = ["trackCdn"] := by decide

theorem eval_effKey (s : St) (n : Notif) (saw : Int) (d : Stored) :
    evalKey (envOf s n saw d) (.ite (.not (.isZeroKey .sPermKey)) .sPermKey .sKey) = effKey n := by
  simp only [evalKey, evalT, envOf, effKey]
  cases n.permKey.isZero <;> simp

theorem eval_track (s : St) (n : Notif) (saw : Int) (d : Stored) :
    evalSess (envOf s n saw d) trackDC trackKey trackSalt = sessOf n := by
  simp only [evalSess, trackDC, trackKey, trackSalt, eval_effKey, sessOf]
  simp [evalInt, evalT, envOf]

theorem eval_cdnTrack (s : St) (n : Notif) (saw : Int) (d : Stored) :
    evalSess (envOf s n saw d) cdnTrackDC cdnTrackKey cdnTrackSalt = sessOf n := by
  simp only [evalSess, cdnTrackDC, cdnTrackKey, cdnTrackSalt, eval_effKey, sessOf]
  simp [evalInt, evalT, envOf]

theorem eval_store (s : St) (n : Notif) (saw : Int) (d : Stored) :
    evalSess (envOf s n saw d) storeDC storeKey storeSalt = sessOf n := by
  simp only [evalSess, storeDC, storeKey, storeSalt, eval_effKey, sessOf]
  simp [evalInt, evalT, envOf]

theorem eval_skip (s : St) (n : Notif) (d : Stored) :
    evalBool (envOf s n s.session.dc d) skipCond = skips s.session.dc n.cfgDC := by
  simp only [evalBool, skipCond, evalT, envOf, skips]
  by_cases h1 : n.cfgDC = 0 <;> by_cases h2 : s.session.dc = 0 <;> by_cases h3 : s.session.dc = n.cfgDC <;>
    simp [h1, h2, h3]

theorem eval_valueOf_effKey (s : St) (n : Notif) (saw : Int) (d : Stored) :
    evalBytes (envOf s n saw d) (.valueOf (.ite (.not (.isZeroKey .sPermKey)) .sPermKey .sKey)) = (effKey n).value := by
  simp only [evalBytes, evalT, envOf, effKey]
  cases n.permKey.isZero <;> simp

theorem eval_idOf_effKey (s : St) (n : Notif) (saw : Int) (d : Stored) :
    evalBytes (envOf s n saw d) (.idOf (.ite (.not (.isZeroKey .sPermKey)) .sPermKey .sKey)) = (effKey n).id := by
  simp only [evalBytes, evalT, envOf, effKey]
  cases n.permKey.isZero <;> simp

theorem eval_data (s : St) (n : Notif) (saw : Int) (loaded : Stored) :
    computeData (envOf s n saw loaded) loaded = storedOf n loaded.addr := by
  simp only [computeData, saveWrites, List.foldl_cons, List.foldl_nil, applyWrite, String.reduceEq,
    ↓reduceIte, storedOf, eval_valueOf_effKey, eval_idOf_effKey]
  simp [evalInt, evalT, envOf]

/-- The interpreted step function is the hand-written one. -/
theorem advI_eq (s : St) (t : Thread) : advI s t = advThread s t := by
  obtain ⟨n, pc, dn, saw, pend, res⟩ := t
  unfold advI advThread
  cases dn with
  | true => rfl
  | false =>
    simp only [Bool.false_eq_true, if_false]
    cases hk : n.kind with
    | migrate =>
      simp only [progOf]
      rcases pc with _ | pc
      · simp
      · simp
    | cdn =>
      simp only [prog_cdn]
      rcases pc with _ | pc
      · simp [eval_cdnTrack]
      · simp
    | regular =>
      simp only [prog_regular]
      rcases pc with _ | _ | _ | _ | _ | pc
      · simp [eval_track]
      · simp only [List.getElem?_cons_succ, List.getElem?_cons_zero, String.reduceEq, ↓reduceIte, eval_skip]
        simp
      · simp [eval_store]
      · simp only [List.getElem?_cons_succ, List.getElem?_cons_zero, String.reduceEq, ↓reduceIte, eval_data]
        cases s.stored <;> simp [emptyStored]
      · simp
      · simp

theorem cstepI_eq (c : CSt) (a : Act) : cstepI c a = cstep c a := by
  have : advI = advThread := funext fun s => funext fun t => advI_eq s t
  simp [cstepI, cstep, this]

theorem crunI_eq (c : CSt) (as : List Act) : crunI c as = crun c as := by
  have : cstepI = cstep := funext fun c => funext fun a => cstepI_eq c a
  simp [crunI, crun, this]

theorem stepI_eq (s : St) (n : Notif) : stepI s n = step s n := by
  have : advI = advThread := funext fun s => funext fun t => advI_eq s t
  have h := alone_eq_step s n
  unfold alone at h
  simp only [stepI, this]
  exact Prod.ext h.1 h.2

theorem runI_eq (s : St) (ns : List Notif) : runI s ns = run s ns := by
  have : stepI = step := funext fun s => funext fun n => stepI_eq s n
  simp [runI, run, this]

theorem restoreI_eq (P : Prims) (s : St) (l : LoadRes) : restoreI P s l = restore P s l := by
  unfold restoreI restore
  cases s.hasStorage with
  | false => rfl
  | true =>
    cases l with
    | notFound => rfl
    | err => rfl
    | data d =>
      simp only [Bool.not_true, Bool.false_eq_true, if_false, evalBool, restoreRefuse, evalT, evalSess, restoreDC,
        restoreKey, restoreSalt, evalInt, evalKey, keyID]
      by_cases h0 : d.dc = 0 <;>
        by_cases hk : ((P.sha1 (fit 256 d.authKey)).drop keyIDOffset).take keyIDLen = fit 8 d.authKeyID <;>
        simp [h0, hk]

end TdModel.C30
