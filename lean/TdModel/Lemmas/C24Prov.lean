/-
C24 — provenance invariant: what is written into a call's `Output`, and what `Do` returns as the
result, was delivered by a `NotifyResult` / `NotifyError` addressed to that call's own message id;
at most one write per call.
-/
import TdModel.Lemmas.C24Env
namespace TdModel.Rpc

/-- `r` is a result-class return value (as opposed to cancellation / close / send / retry-limit errors). -/
def Ret.isResult : Ret → Bool
  | .ok | .decodeErr | .rpcErr _ => true
  | _ => false

/-- Some notification `NotifyResult(i, v)` (`isErr = false`) / `NotifyError(i, v)` (`isErr = true`) was issued. -/
def Delivered (d : List (Nat × Bool × Nat)) (i : Nat) (isErr : Bool) (v : Nat) : Prop := (i, isErr, v) ∈ d

@[simp] theorem delivered_nil (i : Nat) (e : Bool) (v : Nat) : Delivered [] i e v = False := by simp [Delivered]

@[simp] theorem delivered_append (d : List (Nat × Bool × Nat)) (j : Nat) (f : Bool) (w : Nat) (i : Nat) (e : Bool) (v : Nat) :
    Delivered (d ++ [(j, f, w)]) i e v = (Delivered d i e v ∨ (i = j ∧ e = f ∧ v = w)) := by
  simp [Delivered]

structure Prov (s : State) : Prop where
  rpc_key : ∀ k cid, s.rpc k = some (.real cid) → k = cid
  fn_target : ∀ nid n cid, s.notifs nid = some n → n.fn = .real cid → n.target = cid
  decode_res : ∀ nid n, s.notifs nid = some n → n.pc = .decode → n.isErr = false
  notif_logged : ∀ nid n, s.notifs nid = some n → Delivered s.delivered n.target n.isErr n.val
  writes_src : ∀ i c v, s.calls i = some c → v ∈ c.writes → Delivered s.delivered i false v
  undone_nowrite : ∀ i c, s.calls i = some c → c.done = false → c.writes = []
  writes_le : ∀ i c, s.calls i = some c → c.writes.length ≤ 1
  res_kind : ∀ i c, s.calls i = some c → c.done = true → c.res.isResult = true
  res_write : ∀ i c, s.calls i = some c → c.done = true → (c.res = .ok ∨ c.res = .decodeErr) → ∃ v, c.writes = [v]
  res_rpc : ∀ i c code, s.calls i = some c → c.done = true → c.res = .rpcErr code →
      c.writes = [] ∧ Delivered s.delivered i true code
  ret_res : ∀ i c r, s.calls i = some c → (c.ret = some r ∨ (c.pc = .guard ∧ c.pend = r)) → r.isResult = true →
      c.done = true ∧ c.res = r

theorem prov_init : Prov init := by
  constructor <;> simp [init]

macro "prov_close" hg:term : tactic =>
  `(tactic| (constructor <;>
      simp [setCall, setNotif, finish, Call.finish, removeAck, exitAck, Call.exitLoop, Call.retC, newCall, Cfg.std_all $hg] <;>
      grind [Prov, Inv, Ret.isResult]))

macro "prov_close0" : tactic =>
  `(tactic| (constructor <;>
      simp [setCall, setNotif, removeAck, Call.exitLoop, Call.retC, newCall] <;> grind [Prov, Inv, Ret.isResult]))

set_option maxHeartbeats 4000000 in
theorem prov_start {s s' : State} {i seq body : Nat} (h : Prov s) (hi : Inv s)
    (hs : stepStart s i seq body = some s') : Prov s' := by
  unfold stepStart at hs
  split at hs
  · simp at hs
  · try dsimp only at hs
    split at hs <;> simp at hs <;> subst hs <;> prov_close0

set_option maxHeartbeats 4000000 in
theorem prov_sret {cfg : Cfg} {s s' : State} {i : Nat} {o : Outcome} (hg : cfg.std = true) (h : Prov s) (hi : Inv s)
    (hs : stepSret cfg s i o = some s') : Prov s' := by
  unfold stepSret at hs
  std_norm hg at hs
  split at hs
  · simp at hs
  · split at hs <;> try (simp at hs)
    all_goals (try split at hs) <;> try (simp at hs)
    all_goals (first | subst hs | (obtain ⟨_, hs⟩ := hs; subst hs))
    all_goals prov_close hg

end TdModel.Rpc
