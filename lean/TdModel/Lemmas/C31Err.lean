/-
C31 — failing system calls: the aborted save (first `k` calls succeeded, the next one failed, the
deferred cleanup closed and removed the temporary file) is disciplined and publishes nothing.
Core Lean only.
-/
import TdModel.Lemmas.C31Disc

namespace TdModel.C31
open TdModel

/-- Calls that only concern the temporary file `tmp` through descriptor `fd`. -/
def Op.localTo (fd : Nat) (tmp : String) : Op → Bool
  | .write f _ => f = fd
  | .fsync f => f = fd
  | .close f => f = fd
  | .ftruncate f _ => f = fd
  | .unlink n => n = tmp
  | _ => false

structure LInv (s0 : FS) (path : String) (fd : Nat) (s : FS) : Prop where
  dirs : ∀ d ∈ durableDirs s, d path = s0.dir path
  ino : ∀ i, s0.dir path = some i → s.ino i = s0.ino i
  fdE : s.fds fd = none ∨ ∃ off app, s.fds fd = some ⟨some s0.next, off, app⟩

theorem linv_not_guarded {s0 s : FS} {path : String} {fd : Nat} (h : LInv s0 path fd s)
    (hlt : ∀ i, s0.dir path = some i → i < s0.next) : guarded s path s0.next = false := by
  cases hg : guarded s path s0.next with
  | false => rfl
  | true =>
    obtain ⟨d, hd, hp⟩ := (guarded_iff s path s0.next).1 hg
    rw [h.dirs d hd] at hp
    exact absurd (hlt _ hp) (Nat.lt_irrefl _)

theorem linv_step {s0 s : FS} {path tmp : String} {fd : Nat} (op : Op) (hne : tmp ≠ path)
    (hlt : ∀ i, s0.dir path = some i → i < s0.next) (h : LInv s0 path fd s) (hl : op.localTo fd tmp = true) :
    opOK s path op = true ∧ pubOf s path op = [] ∧ LInv s0 path fd (step s op) := by
  have hng := linv_not_guarded h hlt
  have hneq : ∀ i, s0.dir path = some i → i ≠ s0.next := fun i hi => Nat.ne_of_lt (hlt i hi)
  cases op with
  | write f data =>
    have hf : f = fd := by simpa [Op.localTo] using hl
    subst hf
    rcases h.fdE with hfd | ⟨off, app, hfd⟩
    · exact ⟨by simp [opOK, hfd], rfl, by simpa [step, hfd] using h⟩
    · refine ⟨by simp [opOK, hfd, hng], rfl, ?_⟩
      simp only [step, hfd]
      exact ⟨h.dirs, fun i hi => by simp [upd, hneq i hi, h.ino i hi], Or.inr ⟨_, _, if_pos rfl⟩⟩
  | ftruncate f n =>
    have hf : f = fd := by simpa [Op.localTo] using hl
    subst hf
    rcases h.fdE with hfd | ⟨off, app, hfd⟩
    · exact ⟨by simp [opOK, hfd], rfl, by simpa [step, hfd] using h⟩
    · refine ⟨by simp [opOK, hfd, hng], rfl, ?_⟩
      simp only [step, hfd]
      exact ⟨h.dirs, fun i hi => by simp [upd, hneq i hi, h.ino i hi], Or.inr ⟨_, _, hfd⟩⟩
  | fsync f =>
    have hf : f = fd := by simpa [Op.localTo] using hl
    subst hf
    rcases h.fdE with hfd | ⟨off, app, hfd⟩
    · exact ⟨rfl, rfl, by simpa [step, hfd] using h⟩
    · refine ⟨rfl, rfl, ?_⟩
      simp only [step, hfd]
      exact ⟨h.dirs, fun i hi => by simp [upd, hneq i hi, h.ino i hi], Or.inr ⟨_, _, hfd⟩⟩
  | close f =>
    have hf : f = fd := by simpa [Op.localTo] using hl
    subst hf
    exact ⟨rfl, rfl, ⟨h.dirs, h.ino, Or.inl (by simp [step, upd])⟩⟩
  | unlink n =>
    have hn : n = tmp := by simpa [Op.localTo] using hl
    subst hn
    refine ⟨by simp [opOK, hne], rfl, ?_⟩
    simp only [step]
    split
    · refine ⟨?_, h.ino, h.fdE⟩
      intro d hd
      simp only [durableDirs, List.mem_append, List.mem_singleton] at hd
      rcases hd with (hd | hd) | hd
      · exact h.dirs d (by simp [durableDirs, hd])
      · exact h.dirs d (by simp [durableDirs, hd])
      · subst hd
        simp only [updS, Ne.symm hne, if_false]
        exact h.dirs _ (by simp [durableDirs])
    · exact h
  | openF _ _ _ _ _ _ => simp [Op.localTo] at hl
  | openDir _ => simp [Op.localTo] at hl
  | rename _ _ => simp [Op.localTo] at hl
  | other _ => simp [Op.localTo] at hl

theorem linv_run {s0 : FS} {path tmp : String} {fd : Nat} (hne : tmp ≠ path)
    (hlt : ∀ i, s0.dir path = some i → i < s0.next) (l : List Op) :
    ∀ s, LInv s0 path fd s → (∀ op ∈ l, op.localTo fd tmp = true) →
      disciplined path s l = true ∧ published path s l = [] ∧ LInv s0 path fd (run l s) := by
  induction l with
  | nil => intro s h _; exact ⟨rfl, rfl, h⟩
  | cons op rest ih =>
    intro s h hl
    obtain ⟨h1, h2, h3⟩ := linv_step op hne hlt h (hl op List.mem_cons_self)
    obtain ⟨h4, h5, h6⟩ := ih _ h3 (fun o ho => hl o (List.mem_cons_of_mem _ ho))
    refine ⟨by simp [disciplined, h1, h4], by simp [published, h2, h5], by rw [run_cons]; exact h6⟩

/-- The exclusive create of a fresh temporary name. -/
theorem linv_open {s0 : FS} {path tmp : String} (fd : Nat) (trunc : Bool) (hne : tmp ≠ path)
    (hq : Quiescent s0 path) (hfresh : s0.dir tmp = none) :
    opOK s0 path (.openF fd tmp true true trunc false) = true ∧
      LInv s0 path fd (step s0 (.openF fd tmp true true trunc false)) := by
  refine ⟨by simp [opOK, hne, hfresh], ?_⟩
  simp only [step, hfresh, if_true]
  refine ⟨?_, fun i hi => by simp [upd, Nat.ne_of_lt (hq.2 i hi).1], Or.inr ⟨_, _, if_pos rfl⟩⟩
  intro d hd
  simp only [durableDirs, List.mem_append, List.mem_singleton] at hd
  rcases hd with (hd | hd) | hd
  · exact hq.1 d hd
  · rw [hd]
  · subst hd; simp [updS, Ne.symm hne]

/-- The calls of an atomic-replace trace before its rename are local to the temporary file. -/
theorem take_atomic_local (fd : Nat) (tmp path : String) (chunks : List Bytes) (tail : List Op) (j : Nat)
    (hj : j ≤ chunks.length + 2) :
    ∀ op ∈ (chunks.map (Op.write fd) ++ (.fsync fd :: .close fd :: .rename tmp path :: tail)).take j,
      op.localTo fd tmp = true := by
  intro op hop
  have hsplit : chunks.map (Op.write fd) ++ (.fsync fd :: .close fd :: .rename tmp path :: tail) =
      (chunks.map (Op.write fd) ++ [.fsync fd, .close fd]) ++ (.rename tmp path :: tail) := by simp
  rw [hsplit, List.take_append_of_le_length (by simp; omega)] at hop
  have hmem := List.mem_of_mem_take hop
  simp only [List.mem_append, List.mem_map, List.mem_cons, List.not_mem_nil, or_false] at hmem
  rcases hmem with ⟨c, _, rfl⟩ | rfl | rfl <;> simp [Op.localTo]

/-- Aborted save: every crash state reads the old content, nothing is published, the temporary
file is gone at the end and `path` still reads the old content. -/
theorem abort_safe {s0 : FS} {fd : Nat} {tmp path : String} {trunc : Bool} {chunks : List Bytes}
    {tail : List Op} (k : Nat) (stillOpen : Bool) (hq : Quiescent s0 path) (hwf : WellFormed s0)
    (hfresh : s0.dir tmp = none) (hne : tmp ≠ path) (hk1 : 1 ≤ k) (hk2 : k ≤ chunks.length + 3) :
    let tr := abortTrace fd tmp (atomicTrace fd tmp path trunc chunks tail) k stillOpen
    (∀ s ∈ crashStates tr s0, ∀ r ∈ plReads s path, r = readCur s0 path) ∧
      (run tr s0).dir tmp = none ∧ readCur (run tr s0) path = readCur s0 path := by
  intro tr
  obtain ⟨j, rfl⟩ : ∃ j, k = j + 1 := ⟨k - 1, by omega⟩
  have hlt : ∀ i, s0.dir path = some i → i < s0.next := fun i hi => (hq.2 i hi).1
  have htr : tr = .openF fd tmp true true trunc false ::
      ((chunks.map (Op.write fd) ++ (.fsync fd :: .close fd :: .rename tmp path :: tail)).take j ++
        ((if stillOpen then [.close fd] else []) ++ [.unlink tmp])) := by
    simp [tr, abortTrace, atomicTrace, List.take_succ_cons]
  have hlocal : ∀ op ∈ (chunks.map (Op.write fd) ++ (.fsync fd :: .close fd :: .rename tmp path :: tail)).take j ++
      ((if stillOpen then [.close fd] else []) ++ [.unlink tmp]), op.localTo fd tmp = true := by
    intro op hop
    rw [List.mem_append] at hop
    rcases hop with hop | hop
    · exact take_atomic_local fd tmp path chunks tail j (by omega) op hop
    · cases stillOpen <;> simp at hop <;> rcases hop with rfl | rfl <;> simp [Op.localTo]
  obtain ⟨ho, hl0⟩ := linv_open fd trunc hne hq hfresh
  obtain ⟨hd, hp, hl1⟩ := linv_run hne hlt _ _ hl0 hlocal
  have hdisc : disciplined path s0 tr = true := by rw [htr]; simp [disciplined, ho, hd]
  have hpub : published path s0 tr = [] := by rw [htr]; simp [published, pubOf, hp]
  have hall := disc_crash path (readCur s0 path) tr s0 [] (dinv_of_quiescent hq hwf) hdisc
  rw [hpub] at hall
  refine ⟨?_, ?_, ?_⟩
  · intro s hs r hr
    rcases (hall.1 s hs).plReads r hr with h | ⟨c, hc, _⟩
    · exact h
    · simp at hc
  · -- the last call removed the temporary name
    have hsplit : ∃ pre, tr = pre ++ [.unlink tmp] := by
      refine ⟨.openF fd tmp true true trunc false ::
        ((chunks.map (Op.write fd) ++ (.fsync fd :: .close fd :: .rename tmp path :: tail)).take j ++
          (if stillOpen then [.close fd] else [])), ?_⟩
      rw [htr]; simp
    obtain ⟨pre, hpre⟩ := hsplit
    rw [hpre, run_append]
    show (step (run pre s0) (.unlink tmp)).dir tmp = none
    simp only [step]
    split
    · simp [updS]
    · assumption
  · have hfin : LInv s0 path fd (run tr s0) := by rw [htr, run_cons]; exact hl1
    unfold readCur
    rw [hfin.dirs (run tr s0).dir (by simp [durableDirs])]
    cases hp0 : s0.dir path with
    | none => rfl
    | some i => simp [hfin.ino i hp0]

/-! ### the atomic-replace shape is an instance of the discipline -/

theorem disciplined_append (path : String) (a b : List Op) : ∀ s,
    disciplined path s (a ++ b) = (disciplined path s a && disciplined path (run a s) b) := by
  induction a with
  | nil => intro s; simp [disciplined, run]
  | cons op r ih => intro s; simp [disciplined, ih, run_cons, Bool.and_assoc]

theorem published_append (path : String) (a b : List Op) : ∀ s,
    published path s (a ++ b) = published path s a ++ published path (run a s) b := by
  induction a with
  | nil => intro s; simp [published, run]
  | cons op r ih => intro s; simp [published, ih, run_cons]

theorem harmless_disciplined (path : String) (l : List Op) : ∀ s, (∀ op ∈ l, op.harmless = true) →
    disciplined path s l = true ∧ published path s l = [] := by
  induction l with
  | nil => intro s _; exact ⟨rfl, rfl⟩
  | cons op r ih =>
    intro s hl
    have h1 := hl op List.mem_cons_self
    have h2 := ih (step s op) (fun o ho => hl o (List.mem_cons_of_mem _ ho))
    cases op <;> simp [Op.harmless] at h1 <;> simp [disciplined, published, opOK, pubOf, h2]

theorem atomicTrace_disciplined {s0 : FS} {fd : Nat} {tmp path : String} {trunc : Bool} {chunks : List Bytes}
    {tail : List Op} (hq : Quiescent s0 path) (hfresh : s0.dir tmp = none) (hne : tmp ≠ path)
    (htail : ∀ op ∈ tail, op.harmless = true) :
    disciplined path s0 (atomicTrace fd tmp path trunc chunks tail) = true ∧
      published path s0 (atomicTrace fd tmp path trunc chunks tail) = [chunks.flatten] := by
  have hlt : ∀ i, s0.dir path = some i → i < s0.next := fun i hi => (hq.2 i hi).1
  -- the part before the rename only concerns the temporary file
  let pre : List Op := chunks.map (Op.write fd) ++ [.fsync fd, .close fd]
  have hpre_local : ∀ op ∈ pre, op.localTo fd tmp = true := by
    intro op hop
    simp only [pre, List.mem_append, List.mem_map, List.mem_cons, List.not_mem_nil, or_false] at hop
    rcases hop with ⟨c, _, rfl⟩ | rfl | rfl <;> simp [Op.localTo]
  obtain ⟨ho, hl0⟩ := linv_open fd trunc hne hq hfresh
  obtain ⟨hd, hp, _⟩ := linv_run hne hlt pre _ hl0 hpre_local
  -- the state at the rename: the temporary file is complete and clean
  have h1 := inv1_open fd trunc hq hfresh hne
  have hend := (inv1_writes chunks [] _ h1).2
  simp only [List.nil_append] at hend
  have hc := inv2_close fd (inv2_fsync hend)
  have hstate : run pre (step s0 (.openF fd tmp true true trunc false)) =
      step (step (run (chunks.map (Op.write fd)) (step s0 (.openF fd tmp true true trunc false))) (.fsync fd)) (.close fd) := by
    simp [pre, run]
  have hsplit : atomicTrace fd tmp path trunc chunks tail =
      .openF fd tmp true true trunc false :: (pre ++ (.rename tmp path :: tail)) := by
    simp [atomicTrace, pre]
  have ht := harmless_disciplined path tail
  rw [hsplit]
  constructor
  · simp only [disciplined, ho, Bool.true_and, disciplined_append, hd, hstate]
    have hok : opOK (step (step (run (chunks.map (Op.write fd)) (step s0 (.openF fd tmp true true trunc false))) (.fsync fd)) (.close fd))
        path (.rename tmp path) = true := by
      simp [opOK, hne, hc.dirTmp, hc.clean]
    simp [hok, (ht _ htail).1]
  · simp only [published, pubOf, published_append, hp, hstate, List.nil_append]
    have : tmp ≠ path := hne
    simp [hne, hc.dirTmp, hc.cur, (ht _ htail).2]

end TdModel.C31
