import TdModel.Model.C34

namespace TdModel.C34
open TdModel

theorem minChunk_eq : minChunk = 4096 := rfl
theorem maxChunk_eq : maxChunk = 1048576 := rfl
theorem buildPlan_eq (o l : Int) : buildPlan o l = buildPlanP 4096 1048576 o l := rfl
theorem largestValid_eq (m : Nat) : largestValid m = largestValidP 4096 1048576 m := rfl

/-! ### request plan -/

theorem largestValidF_spec : ∀ (f size : Nat), size % 4096 = 0 → 4096 ≤ size → size / 4096 < f →
    4096 ≤ largestValidF 4096 1048576 f size ∧ largestValidF 4096 1048576 f size ≤ size ∧
    1048576 % largestValidF 4096 1048576 f size = 0 ∧ largestValidF 4096 1048576 f size % 4096 = 0 := by
  intro f
  induction f with
  | zero => intro size _ _ h; omega
  | succ f ih =>
    intro size hm hge hf
    rw [largestValidF, if_pos hge]
    by_cases hd : 1048576 % size = 0
    · rw [if_pos hd]; exact ⟨hge, Nat.le_refl _, hd, hm⟩
    · rw [if_neg hd]
      have hne : size ≠ 4096 := by
        intro h; subst h; exact hd (by decide)
      have := ih (size - 4096) (by omega) (by omega) (by omega)
      exact ⟨this.1, by omega, this.2.2.1, this.2.2.2⟩

theorem largestValid_spec (m : Nat) (hm : m % 4096 = 0) (hge : 4096 ≤ m) :
    4096 ≤ largestValidP 4096 1048576 m ∧ largestValidP 4096 1048576 m ≤ m ∧
    1048576 % largestValidP 4096 1048576 m = 0 ∧ largestValidP 4096 1048576 m % 4096 = 0 := by
  unfold largestValidP
  exact largestValidF_spec _ m hm hge (by omega)

/-- The four conditions Telegram's CDN puts on `upload.getCdnFile(offset, limit)`. -/
def ValidRange (r : Range) : Prop :=
  r.offset % 4096 = 0 ∧ r.limit % 4096 = 0 ∧ 0 < r.limit ∧ 1048576 % r.limit = 0 ∧
  r.offset / 1048576 = (r.offset + r.limit - 1) / 1048576

/-- The ranges follow each other without gap or overlap, starting at `start`. -/
def Contig : Nat → List Range → Prop
  | _, [] => True
  | start, r :: rest => r.offset = start ∧ Contig (start + r.limit) rest

def total (rs : List Range) : Nat := (rs.map (·.limit)).sum

theorem planLoop_spec : ∀ (f current remaining : Nat), current % 4096 = 0 → remaining % 4096 = 0 →
    remaining / 4096 < f →
    ∃ rs, planLoop 4096 1048576 f current remaining = .ok rs ∧ Contig current rs ∧ total rs = remaining ∧
      ∀ r ∈ rs, ValidRange r := by
  intro f
  induction f with
  | zero => intro c r _ _ h; omega
  | succ f ih =>
    intro current remaining hc hr hf
    rw [planLoop]
    by_cases h0 : remaining = 0
    · subst h0
      exact ⟨[], by simp, trivial, rfl, by intro r h; simp at h⟩
    · rw [if_neg h0]
      have hrem : 4096 ≤ remaining := by omega
      -- the step bound
      have hmb : (if remaining > 1048576 - current % 1048576 then 1048576 - current % 1048576 else remaining) % 4096 = 0
          ∧ 4096 ≤ (if remaining > 1048576 - current % 1048576 then 1048576 - current % 1048576 else remaining)
          ∧ (if remaining > 1048576 - current % 1048576 then 1048576 - current % 1048576 else remaining) ≤ remaining
          ∧ (if remaining > 1048576 - current % 1048576 then 1048576 - current % 1048576 else remaining)
              ≤ 1048576 - current % 1048576 := by
        split <;> omega
      generalize (if remaining > 1048576 - current % 1048576 then 1048576 - current % 1048576 else remaining) = m at hmb
      obtain ⟨hm1, hm2, hm3, hm4⟩ := hmb
      have hs := largestValid_spec m hm1 hm2
      generalize largestValidP 4096 1048576 m = step at hs
      obtain ⟨hs1, hs2, hs3, hs4⟩ := hs
      have hstep0 : step ≠ 0 := by omega
      simp only
      rw [if_neg hstep0]
      obtain ⟨rest, hrest, hcont, htot, hval⟩ := ih (current + step) (remaining - step) (by omega) (by omega) (by omega)
      refine ⟨{ offset := current, limit := step } :: rest, by rw [hrest], ⟨rfl, hcont⟩, ?_, ?_⟩
      · simp only [total, List.map_cons, List.sum_cons] at htot ⊢
        omega
      · intro r hmem
        rcases List.mem_cons.mp hmem with h | h
        · subst h
          refine ⟨hc, hs4, ?_, hs3, ?_⟩
          · show 0 < step; omega
          · show current / 1048576 = (current + step - 1) / 1048576; omega
        · exact hval r h

theorem buildPlan_aligned (o l : Int) (rs : List Range) (h : buildPlan o l = .ok rs) :
    0 < l ∧ 0 ≤ o ∧ o.toNat % 4096 = 0 ∧ l.toNat % 4096 = 0 ∧
    planLoop 4096 1048576 (l.toNat / 4096 + 1) o.toNat l.toNat = .ok rs := by
  rw [buildPlan_eq, buildPlanP] at h
  by_cases h1 : l ≤ 0
  · rw [if_pos h1] at h; cases h
  · rw [if_neg h1] at h
    by_cases h2 : o < 0
    · rw [if_pos h2] at h; cases h
    · rw [if_neg h2] at h
      by_cases h3 : o.toNat % 4096 ≠ 0
      · rw [if_pos h3] at h; cases h
      · rw [if_neg h3] at h
        by_cases h4 : l.toNat % 4096 ≠ 0
        · rw [if_pos h4] at h; cases h
        · rw [if_neg h4] at h
          exact ⟨by omega, by omega, by omega, by omega, h⟩

/-! ### the CDN branch of `Chunk` -/

theorem chunkRaw_len (cdn : Nat → Nat → Bytes) (dec : Nat → Bytes → Bytes) :
    ∀ (plan : List Range) (d : Bytes), chunkRaw cdn dec plan = .ok d → d.length ≤ total plan := by
  intro plan
  induction plan with
  | nil => intro d h; simp only [chunkRaw, Except.ok.injEq] at h; subst h; simp [total]
  | cons r rest ih =>
    intro d h
    rw [chunkRaw] at h
    simp only [Facts.C34.rejectsLongPart, Bool.true_and, decide_eq_true_eq] at h
    by_cases h1 : (dec r.offset (cdn r.offset r.limit)).length > r.limit
    · simp [h1] at h
    · simp only [h1, if_false] at h
      by_cases h2 : (dec r.offset (cdn r.offset r.limit)).length < r.limit
      · simp only [h2, if_true, Except.ok.injEq] at h
        subst h
        simp only [total, List.map_cons, List.sum_cons]
        omega
      · simp only [h2, if_false] at h
        cases hr : chunkRaw cdn dec rest with
        | error e => simp [hr] at h
        | ok more =>
          simp only [hr, Except.ok.injEq] at h
          subst h
          have := ih more hr
          simp only [total, List.map_cons, List.sum_cons, List.length_append] at this ⊢
          omega

/-! ### inline verification: what is delivered is genuine (given an injective hash) -/

/-- Everything the master DC says about hash windows is true of the genuine file. -/
structure GenuineTable (sha : Bytes → Bytes) (file : Bytes) (look : Nat → Option FileHash) : Prop where
  contains : ∀ cur h, look cur = some h → h.offset ≤ cur ∧ cur < h.offset + h.limit
  hash : ∀ cur h, look cur = some h → h.hash = sha ((file.drop h.offset).take h.limit)

theorem take_drop_file (file : Bytes) (cStart x m : Nat) (hx : cStart ≤ x) :
    (file.drop x).take m = ((file.drop cStart).drop (x - cStart)).take m := by
  rw [List.drop_drop]
  congr 2
  omega

theorem take_add' (G : Bytes) (a b : Nat) : G.take a ++ (G.drop a).take b = G.take (a + b) := by
  rw [List.take_add]

theorem take_min_of_pre (d G : Bytes) (p q : Nat) (hq : q ≤ p) (h : d.take p = G.take p) : d.take q = G.take q := by
  have := congrArg (List.take q) h
  rw [List.take_take, List.take_take, Nat.min_eq_left hq] at this
  exact this

/-- The loop invariant: the first `min (cur - cStart) n` bytes of the chunk are the genuine bytes. -/
theorem verifyLoop_genuine (sha : Bytes → Bytes) (hinj : ∀ a b, sha a = sha b → a = b)
    (file : Bytes) (look : Nat → Option FileHash) (hg : GenuineTable sha file look)
    (loadW : FileHash → Except VErr Bytes) (hload : ∀ h w, loadW h = .ok w → sha w = h.hash)
    (cStart : Nat) (short : Bool) (n : Nat) :
    ∀ (f cur : Nat) (d d' : Bytes), d.length = n → cStart ≤ cur →
      d.take (min (cur - cStart) n) = (file.drop cStart).take (min (cur - cStart) n) →
      min (cur - cStart) n ≤ (file.drop cStart).length →
      (cStart + n - cur) < f →
      verifyLoop sha look loadW cStart short f cur d = .ok d' →
      d' = (file.drop cStart).take n ∧ n ≤ (file.drop cStart).length := by
  intro f
  induction f with
  | zero => intro cur d d' _ _ _ _ hf; omega
  | succ f ih =>
    intro cur d d' hlen hcur hpre hfit hfuel hrun
    rw [verifyLoop] at hrun
    simp only [hlen] at hrun
    by_cases hend : cur ≥ cStart + n
    · -- the whole chunk has been covered
      rw [if_pos hend] at hrun
      cases hrun
      have hmin : min (cur - cStart) n = n := by omega
      rw [hmin] at hfit hpre
      refine ⟨?_, hfit⟩
      rw [← hpre, ← hlen, List.take_length]
    · rw [if_neg hend] at hrun
      have hmin : min (cur - cStart) n = cur - cStart := by omega
      rw [hmin] at hfit hpre
      cases hl : look cur with
      | none => simp [hl] at hrun
      | some h =>
        simp only [hl] at hrun
        obtain ⟨hc1, hc2⟩ := hg.contains cur h hl
        have hhash := hg.hash cur h hl
        by_cases hz : h.limit = 0
        · rw [if_pos hz] at hrun; cases hrun
        · rw [if_neg hz] at hrun
          by_cases hbw : h.offset + h.limit ≤ cur
          · rw [if_pos hbw] at hrun; cases hrun
          · rw [if_neg hbw] at hrun
            have hG : ∀ x m, cStart ≤ x → (file.drop x).take m = ((file.drop cStart).drop (x - cStart)).take m :=
              fun x m hx => take_drop_file file cStart x m hx
            by_cases hfull : h.offset ≥ cStart ∧ h.offset + h.limit ≤ cStart + n
            · -- full window inside the chunk
              rw [if_pos hfull] at hrun
              by_cases hs : sha ((d.drop (h.offset - cStart)).take (h.offset + h.limit - h.offset)) = h.hash
              · rw [if_pos hs] at hrun
                rw [hhash] at hs
                have heq := hinj _ _ hs
                have hl1 : h.offset + h.limit - h.offset = h.limit := by omega
                rw [hl1] at heq
                have hWlen : ((file.drop h.offset).take h.limit).length = h.limit := by
                  rw [← heq]
                  simp only [List.length_take, List.length_drop, hlen]
                  omega
                rw [hG h.offset h.limit hfull.1] at heq hWlen
                have hmin' : min (h.offset + h.limit - cStart) n = (h.offset - cStart) + h.limit := by omega
                refine ih (h.offset + h.limit) d d' hlen (by omega) ?_ ?_ (by omega) hrun
                · rw [hmin', ← take_add', ← take_add', heq]
                  congr 1
                  exact take_min_of_pre d _ _ _ (by omega) hpre
                · rw [hmin']
                  simp only [List.length_take, List.length_drop] at hWlen ⊢
                  omega
              · rw [if_neg hs] at hrun; cases hrun
            · rw [if_neg hfull] at hrun
              by_cases htail : short = true ∧ h.offset ≥ cStart ∧ h.offset < cStart + n ∧ h.offset + h.limit > cStart + n
              · -- final short chunk: the hash covers the remaining tail
                rw [if_pos htail] at hrun
                by_cases hs : sha (d.drop (h.offset - cStart)) = h.hash
                · rw [if_pos hs] at hrun
                  cases hrun
                  rw [hhash] at hs
                  have heq := hinj _ _ hs
                  rw [hG h.offset h.limit htail.2.1] at heq
                  have hpre' : d.take (h.offset - cStart) = (file.drop cStart).take (h.offset - cStart) :=
                    take_min_of_pre d _ _ _ (by omega) hpre
                  have hd : d = (file.drop cStart).take (h.offset - cStart + h.limit) := by
                    rw [← take_add', ← heq, ← hpre']
                    exact (List.take_append_drop _ _).symm
                  have hlen' := congrArg List.length hd
                  rw [hlen, List.length_take] at hlen'
                  constructor
                  · rw [hd]
                    by_cases hle : h.offset - cStart + h.limit ≤ (file.drop cStart).length
                    · have : n = h.offset - cStart + h.limit := by omega
                      rw [← this]
                    · have hn : n = (file.drop cStart).length := by omega
                      rw [List.take_of_length_le (by omega), List.take_of_length_le (by omega)]
                  · omega
                · rw [if_neg hs] at hrun; cases hrun
              · rw [if_neg htail] at hrun
                -- window crosses the chunk: load and verify it, patch the overlap
                cases hw : loadW h with
                | error e => simp [hw] at hrun
                | ok w =>
                  simp only [hw] at hrun
                  have hwsha := hload h w hw
                  rw [hhash] at hwsha
                  have hwW := hinj _ _ hwsha
                  have hwl1 : w.length ≤ h.limit := by
                    rw [hwW]; simp only [List.length_take]; omega
                  have hwl2 : w.length = 0 ∨ h.offset + w.length ≤ file.length := by
                    rw [hwW]; simp only [List.length_take, List.length_drop]; omega
                  simp only [Facts.C34.rejectsBeyondTail, Facts.C34.rejectsTruncatedSplit, Bool.true_and] at hrun
                  by_cases hbt : h.offset + w.length < h.offset + h.limit ∧ h.offset + w.length < cStart + n
                  · simp [hbt] at hrun
                  · rw [if_neg (by simpa using hbt)] at hrun
                    by_cases hts : (short && decide (h.offset + w.length > cStart + n)) = true
                    · rw [if_pos hts] at hrun; cases hrun
                    · rw [if_neg hts] at hrun
                      generalize hoS : (if h.offset > cStart then h.offset else cStart) = oS at hrun
                      generalize hoE : (if h.offset + w.length < cStart + n then h.offset + w.length else cStart + n) = oE at hrun
                      by_cases hov : oE ≤ oS
                      · rw [if_pos hov] at hrun; cases hrun
                      · rw [if_neg hov] at hrun
                        have hoS1 : cStart ≤ oS ∧ h.offset ≤ oS ∧ oS ≤ cur := by
                          rw [← hoS]; split <;> omega
                        have hoE1 : oE ≤ cStart + n ∧ oE ≤ h.offset + w.length ∧
                            ((oE = cStart + n ∧ cStart + n ≤ h.offset + h.limit) ∨
                             (oE = h.offset + h.limit ∧ h.offset + h.limit < cStart + n)) := by
                          rw [← hoE]; split <;> omega
                        have hwfile : h.offset + w.length ≤ file.length := by
                          rcases hwl2 with h0 | h0
                          · omega
                          · exact h0
                        have hGlen : (file.drop cStart).length = file.length - cStart := List.length_drop
                        have hmid : (w.drop (oS - h.offset)).take (oE - oS) =
                            ((file.drop cStart).drop (oS - cStart)).take (oE - oS) := by
                          rw [hwW, List.drop_take, List.take_take, List.drop_drop, List.drop_drop]
                          congr 1
                          · omega
                          · congr 1; omega
                        have hpS : d.take (oS - cStart) = (file.drop cStart).take (oS - cStart) :=
                          take_min_of_pre d _ _ _ (by omega) hpre
                        have hX : d.take (oS - cStart) ++ (w.drop (oS - h.offset)).take (oE - oS) =
                            (file.drop cStart).take (oE - cStart) := by
                          rw [hmid, hpS, take_add']
                          congr 1; omega
                        have hXlen : ((file.drop cStart).take (oE - cStart)).length = oE - cStart := by
                          rw [List.length_take, hGlen]; omega
                        have hmin' : min (h.offset + h.limit - cStart) n = oE - cStart := by
                          rcases hoE1.2.2 with hE | hE <;> omega
                        refine ih (h.offset + h.limit)
                          (d.take (oS - cStart) ++ (w.drop (oS - h.offset)).take (oE - oS) ++ d.drop (oE - cStart))
                          d' ?_ (by omega) ?_ ?_ (by omega) hrun
                        · rw [hX, List.length_append, hXlen, List.length_drop, hlen]
                          omega
                        · rw [hmin', hX, List.take_append_of_le_length (by omega), List.take_take, Nat.min_self]
                        · rw [hmin', hGlen]; omega

theorem verifyChunk_genuine (sha : Bytes → Bytes) (hinj : ∀ a b, sha a = sha b → a = b)
    (file : Bytes) (look : Nat → Option FileHash) (hg : GenuineTable sha file look)
    (loadW : FileHash → Except VErr Bytes) (hload : ∀ h w, loadW h = .ok w → sha w = h.hash)
    (offset reqLimit : Nat) (data d' : Bytes)
    (h : verifyChunk sha look loadW true offset reqLimit data = .ok d') :
    d'.length = data.length ∧ (d' = [] ∨ (d' = (file.drop offset).take d'.length ∧ d'.length ≤ (file.drop offset).length)) := by
  unfold verifyChunk at h
  by_cases he : data.isEmpty = true
  · simp only [Bool.not_true, he, Bool.or_true, if_true, Except.ok.injEq] at h
    subst h
    exact ⟨rfl, Or.inl (List.isEmpty_iff.mp he)⟩
  · simp only [Bool.not_true, he, Bool.or_self, Bool.false_eq_true, if_false] at h
    have := verifyLoop_genuine sha hinj file look hg loadW hload offset _ data.length (data.length + 1) offset data d'
      rfl (Nat.le_refl _) (by simp) (by simp) (by omega) h
    have hl : d'.length = data.length := by
      rw [this.1, List.length_take]; omega
    exact ⟨hl, Or.inr ⟨by rw [hl]; exact this.1, by rw [hl]; exact this.2⟩⟩

/-- One part of an inline-verified CDN download: whatever the CDN answered, a part that is delivered is
at most as long as requested and consists of the genuine bytes at its offset. -/
theorem chunkCDN_genuine (sha : Bytes → Bytes) (hinj : ∀ a b, sha a = sha b → a = b)
    (file : Bytes) (look : Nat → Option FileHash) (hg : GenuineTable sha file look)
    (cdn : Nat → Nat → Bytes) (dec : Nat → Bytes → Bytes) (depth offset limit : Nat) (d : Bytes)
    (h : chunkCDN sha cdn dec look true depth offset limit = .ok d) :
    d.length ≤ limit ∧ d = (file.drop offset).take d.length ∧ d.length ≤ (file.drop offset).length := by
  cases depth with
  | zero => simp [chunkCDN] at h
  | succ depth =>
    rw [chunkCDN] at h
    cases hp : buildPlan (offset : Int) (limit : Int) with
    | error e => simp [hp] at h
    | ok plan =>
      simp only [hp] at h
      cases hr : chunkRaw cdn dec plan with
      | error e => simp [hr] at h
      | ok data =>
        simp only [hr] at h
        have hlenraw := chunkRaw_len cdn dec plan data hr
        obtain ⟨_, _, _, _, hpl⟩ := buildPlan_aligned _ _ plan hp
        obtain ⟨rs', hrs, _, ht, _⟩ := planLoop_spec ((limit : Int).toNat / 4096 + 1) (offset : Int).toNat (limit : Int).toNat
          (by have := buildPlan_aligned _ _ plan hp; omega) (by have := buildPlan_aligned _ _ plan hp; omega) (by omega)
        rw [hpl] at hrs
        cases hrs
        have hv := verifyChunk_genuine sha hinj file look hg _ (by
          intro hh w hw
          -- `loadAndVerifyWindow` returns only data whose hash was compared
          split at hw
          · cases hw
          · split at hw
            · cases hw
            · split at hw
              · rename_i hsha; cases hw; exact hsha
              · cases hw) offset limit data d h
        have hdl : d.length ≤ limit := by
          rw [hv.1]
          have : total plan = limit := by simpa using ht
          omega
        rcases hv.2 with h0 | h1
        · subst h0; simp
        · exact ⟨hdl, h1.1, h1.2⟩

/-- A completed inline-verified stream is a prefix of the genuine file. -/
theorem streamChunks_prefix (file : Bytes) (ps : Nat)
    (chunk : Nat → Nat → Except VErr Bytes)
    (hchunk : ∀ off d, chunk off ps = .ok d →
      d.length ≤ ps ∧ d = (file.drop off).take d.length ∧ d.length ≤ (file.drop off).length) :
    ∀ (fuel k : Nat), (streamChunks chunk ps fuel k).err = none →
      ∃ m, (streamChunks chunk ps fuel k).data = (file.drop (k * ps)).take m := by
  intro fuel
  induction fuel with
  | zero => intro k _; exact ⟨0, by simp [streamChunks]⟩
  | succ fuel ih =>
    intro k herr
    rw [streamChunks] at herr ⊢
    cases hc : chunk (k * ps) ps with
    | error e => simp [hc] at herr
    | ok d =>
      simp only [hc] at herr ⊢
      obtain ⟨h1, h2, h3⟩ := hchunk (k * ps) d hc
      by_cases he : d.length < 1
      · simp only [he, if_true]; exact ⟨0, by simp⟩
      · simp only [he, if_false] at herr ⊢
        by_cases hs : d.length < ps
        · simp only [hs, if_true]; exact ⟨d.length, h2⟩
        · simp only [hs, if_false] at herr ⊢
          obtain ⟨m, hm⟩ := ih (k + 1) herr
          refine ⟨ps + m, ?_⟩
          have hd : d.length = ps := by omega
          rw [hm, h2, hd, ← take_add', List.drop_drop]
          congr 3
          rw [Nat.add_mul]; omega

/-! ### verifier queue -/

/-- Every block a verified (`WithVerify(true)`) stream delivers was compared with a server-provided
hash: the output is a concatenation of blocks each hashing to the value obtained from the hash service. -/
theorem hashedStream_verified (sha : Bytes → Bytes) (hs : Nat → List FileHash)
    (chunk : Nat → Nat → Except VErr Bytes) :
    ∀ (fuel : Nat) (v : VState), (hashedStream sha hs chunk fuel v).err = none →
      ∃ blocks : List (FileHash × Bytes),
        (hashedStream sha hs chunk fuel v).data = (blocks.map (·.2)).flatten ∧
        ∀ b ∈ blocks, sha b.2 = b.1.hash ∧ chunk b.1.offset b.1.limit = .ok b.2 := by
  intro fuel
  induction fuel with
  | zero => intro v _; exact ⟨[], by simp [hashedStream], by intro b hb; simp at hb⟩
  | succ fuel ih =>
    intro v herr
    rw [hashedStream] at herr ⊢
    cases hn : vNext hs v with
    | mk v' oh =>
      cases oh with
      | none => exact ⟨[], by simp, by intro b hb; simp at hb⟩
      | some h =>
        simp only [hn] at herr ⊢
        cases hc : chunk h.offset h.limit with
        | error e => simp [hc] at herr
        | ok d =>
          simp only [hc] at herr ⊢
          by_cases hsha : sha d = h.hash
          · simp only [hsha, if_true] at herr ⊢
            by_cases he : d.length < 1
            · simp only [he, if_true]; exact ⟨[], by simp, by intro b hb; simp at hb⟩
            · simp only [he, if_false] at herr ⊢
              obtain ⟨bs, hb1, hb2⟩ := ih v' herr
              refine ⟨(h, d) :: bs, by simp [hb1], ?_⟩
              intro b hb
              rcases List.mem_cons.mp hb with hb | hb
              · subst hb; exact ⟨hsha, hc⟩
              · exact hb2 b hb
          · simp [hsha] at herr

/-! ### control events are transparent -/

def controlCount (evs : List Ev) : Nat := (evs.filter Ev.isControl).length

theorem passEv_no_control (cdn : Nat → Nat → Bytes) (dec : Nat → Bytes → Bytes) :
    ∀ (plan : List Range) (evs : List Ev), controlCount evs = 0 →
      (passEv cdn dec plan evs).2 = (match chunkRaw cdn dec plan with | .ok d => .data d | .error e => .fail e) := by
  intro plan
  induction plan with
  | nil => intro evs _; simp [passEv, chunkRaw]
  | cons r rest ih =>
    intro evs h0
    have hhead : evs.headD .serve = .serve := by
      cases evs with
      | nil => rfl
      | cons e t =>
        cases e <;> simp [controlCount, Ev.isControl] at h0 ⊢
    have htail : controlCount evs.tail = 0 := by
      cases evs with
      | nil => rfl
      | cons e t =>
        cases e <;> simp [controlCount, Ev.isControl] at h0 ⊢
        exact h0
    rw [passEv, chunkRaw, hhead]
    simp only
    split
    · rfl
    · split
      · rfl
      · have := ih evs.tail htail
        cases hp : passEv cdn dec rest evs.tail with
        | mk evs' res =>
          rw [hp] at this
          simp only at this
          cases hc : chunkRaw cdn dec rest with
          | ok more => rw [hc] at this; simp only at this; subst this; rfl
          | error e => rw [hc] at this; simp only at this; subst this; rfl

/-- A pass either consumes no control event (and then behaves like the event-free pass), or stops at
the first one, which it consumes. -/
theorem passEv_control (cdn : Nat → Nat → Bytes) (dec : Nat → Bytes → Bytes) :
    ∀ (plan : List Range) (evs : List Ev),
      controlCount (passEv cdn dec plan evs).1 ≤ controlCount evs ∧
      ((passEv cdn dec plan evs).2 = .restart → controlCount (passEv cdn dec plan evs).1 + 1 ≤ controlCount evs) := by
  intro plan
  induction plan with
  | nil => intro evs; simp [passEv]
  | cons r rest ih =>
    intro evs
    rw [passEv]
    cases evs with
    | nil =>
      simp only [List.headD_nil, List.tail_nil]
      split
      · simp [controlCount]
      · split
        · simp [controlCount]
        · have := ih []
          cases hp : passEv cdn dec rest [] with
          | mk evs' res =>
            rw [hp] at this
            cases res <;> simpa using this
    | cons e t =>
      cases e with
      | reupload =>
        have hc : controlCount (Ev.reupload :: t) = controlCount t + 1 := by
          simp [controlCount, List.filter_cons, Ev.isControl]
        simp only [List.headD_cons, List.tail_cons, hc]
        omega
      | tokenInvalid =>
        have hc : controlCount (Ev.tokenInvalid :: t) = controlCount t + 1 := by
          simp [controlCount, List.filter_cons, Ev.isControl]
        simp only [List.headD_cons, List.tail_cons, hc]
        omega
      | tokenInvalidFile =>
        have hc : controlCount (Ev.tokenInvalidFile :: t) = controlCount t + 1 := by
          simp [controlCount, List.filter_cons, Ev.isControl]
        simp only [List.headD_cons, List.tail_cons, hc]
        omega
      | serve =>
        simp only [List.headD_cons, List.tail_cons]
        have hc : controlCount (Ev.serve :: t) = controlCount t := by simp [controlCount, Ev.isControl]
        rw [hc]
        split
        · simp
        · split
          · simp
          · have := ih t
            cases hp : passEv cdn dec rest t with
            | mk evs' res =>
              rw [hp] at this
              cases res <;> simpa using this

def rawPass (cdn : Nat → Nat → Bytes) (dec : Nat → Bytes → Bytes) (plan : List Range) : Pass :=
  match chunkRaw cdn dec plan with
  | .ok d => .data d
  | .error e => .fail e

/-- Shape of a pass: it restarts, falls back to the master (only on a `tokenInvalidFile` event), or
returns exactly what the event-free pass returns; the unconsumed events are a suffix of the script. -/
theorem passEv_shape (cdn : Nat → Nat → Bytes) (dec : Nat → Bytes → Bytes) :
    ∀ (plan : List Range) (evs : List Ev),
      ((passEv cdn dec plan evs).2 = .restart ∨
       ((passEv cdn dec plan evs).2 = .master ∧ Ev.tokenInvalidFile ∈ evs) ∨
       (passEv cdn dec plan evs).2 = rawPass cdn dec plan) ∧
      (∀ e ∈ (passEv cdn dec plan evs).1, e ∈ evs) := by
  intro plan
  induction plan with
  | nil => intro evs; simp [passEv, rawPass, chunkRaw]
  | cons r rest ih =>
    intro evs
    have htl : ∀ e ∈ evs.tail, e ∈ evs := fun e he => List.mem_of_mem_tail he
    rw [passEv]
    cases hh : evs.headD .serve with
    | reupload => exact ⟨Or.inl rfl, htl⟩
    | tokenInvalid => exact ⟨Or.inl rfl, htl⟩
    | tokenInvalidFile =>
      refine ⟨Or.inr (Or.inl ⟨rfl, ?_⟩), htl⟩
      cases evs with
      | nil => simp at hh
      | cons e t => simp only [List.headD_cons] at hh; subst hh; simp
    | serve =>
      simp only [rawPass, chunkRaw]
      split
      · exact ⟨Or.inr (Or.inr rfl), htl⟩
      · split
        · exact ⟨Or.inr (Or.inr rfl), htl⟩
        · have := ih evs.tail
          cases hp : passEv cdn dec rest evs.tail with
          | mk evs' res =>
            rw [hp] at this
            simp only at this
            obtain ⟨hres, hsuf⟩ := this
            refine ⟨?_, fun e he => htl e (hsuf e (by cases res <;> simpa using he))⟩
            rcases hres with h | ⟨h, hm⟩ | h
            · subst h; exact Or.inl rfl
            · subst h; exact Or.inr (Or.inl ⟨rfl, htl _ hm⟩)
            · subst h
              right; right
              simp only [rawPass]
              cases chunkRaw cdn dec rest <;> rfl

/-- Token refreshes and reuploads are transparent: as long as fewer control events occur than the
attempts the loop has left, the chunk is exactly what it would be without any event. -/
theorem chunkLoop_transparent (cdn : Nat → Nat → Bytes) (dec : Nat → Bytes → Bytes) (md : Bytes) (plan : List Range) :
    ∀ (n : Nat) (evs : List Ev), Ev.tokenInvalidFile ∉ evs → controlCount evs < n →
      chunkLoop cdn dec md plan n evs = chunkRaw cdn dec plan := by
  intro n
  induction n with
  | zero => intro evs _ h; omega
  | succ n ih =>
    intro evs hnf hc
    rw [chunkLoop]
    have hs := passEv_shape cdn dec plan evs
    have hcc := passEv_control cdn dec plan evs
    cases hp : passEv cdn dec plan evs with
    | mk evs' res =>
      rw [hp] at hs hcc
      simp only at hs hcc
      obtain ⟨hres, hsuf⟩ := hs
      rcases hres with h | ⟨_, hm⟩ | h
      · subst h
        simp only
        exact ih evs' (fun hm => hnf (hsuf _ hm)) (by have := hcc.2 rfl; omega)
      · exact absurd hm hnf
      · subst h
        simp only [rawPass]
        cases chunkRaw cdn dec plan <;> rfl

/-- When the attempts are used up by control events the chunk fails with the state-loop error (it never
returns wrong data). -/
theorem chunkLoop_sound (cdn : Nat → Nat → Bytes) (dec : Nat → Bytes → Bytes) (md : Bytes) (plan : List Range) :
    ∀ (n : Nat) (evs : List Ev) (d : Bytes), Ev.tokenInvalidFile ∉ evs →
      chunkLoop cdn dec md plan n evs = .ok d → chunkRaw cdn dec plan = .ok d := by
  intro n
  induction n with
  | zero => intro evs d _ h; simp [chunkLoop] at h
  | succ n ih =>
    intro evs d hnf h
    rw [chunkLoop] at h
    have hs := passEv_shape cdn dec plan evs
    cases hp : passEv cdn dec plan evs with
    | mk evs' res =>
      rw [hp] at hs h
      simp only at hs h
      obtain ⟨hres, hsuf⟩ := hs
      rcases hres with h1 | ⟨_, hm⟩ | h1
      · subst h1; exact ih evs' d (fun hm => hnf (hsuf _ hm)) h
      · exact absurd hm hnf
      · subst h1
        simp only [rawPass] at h
        cases hc : chunkRaw cdn dec plan with
        | ok d' => rw [hc] at h; simp only [Except.ok.injEq] at h; rw [h]
        | error e => rw [hc] at h; simp at h

end TdModel.C34
