import TdModel.Model.C34

namespace TdModel.C34
open TdModel

theorem minChunk_eq : minChunk = 4096 := rfl
theorem maxChunk_eq : maxChunk = 1048576 := rfl
theorem buildPlan_eq (o l : Int) : buildPlan o l = buildPlanP 4096 1048576 o l := rfl
theorem largestValid_eq (m : Nat) : largestValid m = largestValidP 4096 1048576 m := rfl

/-! ### request plan -/

theorem largestValidF_spec : ∀ (f size : Nat), size % 4096 = 0 → 4096 ≤ size → size / 4096 < f →
    4096 ≤ largestValidF 4096 1048576 f size ∧ largestValidF 4096 1048576 f size ≤ size ∧
    1048576 % largestValidF 4096 1048576 f size = 0 ∧ largestValidF 4096 1048576 f size % 4096 = 0 := by
  intro f
  induction f with
  | zero => intro size _ _ h; omega
  | succ f ih =>
    intro size hm hge hf
    rw [largestValidF, if_pos hge]
    by_cases hd : 1048576 % size = 0
    · rw [if_pos hd]; exact ⟨hge, Nat.le_refl _, hd, hm⟩
    · rw [if_neg hd]
      have hne : size ≠ 4096 := by
        intro h; subst h; exact hd (by decide)
      have := ih (size - 4096) (by omega) (by omega) (by omega)
      exact ⟨this.1, by omega, this.2.2.1, this.2.2.2⟩

theorem largestValid_spec (m : Nat) (hm : m % 4096 = 0) (hge : 4096 ≤ m) :
    4096 ≤ largestValidP 4096 1048576 m ∧ largestValidP 4096 1048576 m ≤ m ∧
    1048576 % largestValidP 4096 1048576 m = 0 ∧ largestValidP 4096 1048576 m % 4096 = 0 := by
  unfold largestValidP
  exact largestValidF_spec _ m hm hge (by omega)

/-- The four conditions Telegram's CDN puts on `upload.getCdnFile(offset, limit)`. -/
def ValidRange (r : Range) : Prop :=
  r.offset % 4096 = 0 ∧ r.limit % 4096 = 0 ∧ 0 < r.limit ∧ 1048576 % r.limit = 0 ∧
  r.offset / 1048576 = (r.offset + r.limit - 1) / 1048576

/-- The ranges follow each other without gap or overlap, starting at `start`. -/
def Contig : Nat → List Range → Prop
  | _, [] => True
  | start, r :: rest => r.offset = start ∧ Contig (start + r.limit) rest

def total (rs : List Range) : Nat := (rs.map (·.limit)).sum

theorem planLoop_spec : ∀ (f current remaining : Nat), current % 4096 = 0 → remaining % 4096 = 0 →
    remaining / 4096 < f →
    ∃ rs, planLoop 4096 1048576 f current remaining = .ok rs ∧ Contig current rs ∧ total rs = remaining ∧
      ∀ r ∈ rs, ValidRange r := by
  intro f
  induction f with
  | zero => intro c r _ _ h; omega
  | succ f ih =>
    intro current remaining hc hr hf
    rw [planLoop]
    by_cases h0 : remaining = 0
    · subst h0
      exact ⟨[], by simp, trivial, rfl, by intro r h; simp at h⟩
    · rw [if_neg h0]
      have hrem : 4096 ≤ remaining := by omega
      -- the step bound
      have hmb : (if remaining > 1048576 - current % 1048576 then 1048576 - current % 1048576 else remaining) % 4096 = 0
          ∧ 4096 ≤ (if remaining > 1048576 - current % 1048576 then 1048576 - current % 1048576 else remaining)
          ∧ (if remaining > 1048576 - current % 1048576 then 1048576 - current % 1048576 else remaining) ≤ remaining
          ∧ (if remaining > 1048576 - current % 1048576 then 1048576 - current % 1048576 else remaining)
              ≤ 1048576 - current % 1048576 := by
        split <;> omega
      generalize (if remaining > 1048576 - current % 1048576 then 1048576 - current % 1048576 else remaining) = m at hmb
      obtain ⟨hm1, hm2, hm3, hm4⟩ := hmb
      have hs := largestValid_spec m hm1 hm2
      generalize largestValidP 4096 1048576 m = step at hs
      obtain ⟨hs1, hs2, hs3, hs4⟩ := hs
      have hstep0 : step ≠ 0 := by omega
      simp only
      rw [if_neg hstep0]
      obtain ⟨rest, hrest, hcont, htot, hval⟩ := ih (current + step) (remaining - step) (by omega) (by omega) (by omega)
      refine ⟨{ offset := current, limit := step } :: rest, by rw [hrest], ⟨rfl, hcont⟩, ?_, ?_⟩
      · simp only [total, List.map_cons, List.sum_cons] at htot ⊢
        omega
      · intro r hmem
        rcases List.mem_cons.mp hmem with h | h
        · subst h
          refine ⟨hc, hs4, ?_, hs3, ?_⟩
          · show 0 < step; omega
          · show current / 1048576 = (current + step - 1) / 1048576; omega
        · exact hval r h

theorem buildPlan_aligned (o l : Int) (rs : List Range) (h : buildPlan o l = .ok rs) :
    0 < l ∧ 0 ≤ o ∧ o.toNat % 4096 = 0 ∧ l.toNat % 4096 = 0 ∧
    planLoop 4096 1048576 (l.toNat / 4096 + 1) o.toNat l.toNat = .ok rs := by
  rw [buildPlan_eq, buildPlanP] at h
  by_cases h1 : l ≤ 0
  · rw [if_pos h1] at h; cases h
  · rw [if_neg h1] at h
    by_cases h2 : o < 0
    · rw [if_pos h2] at h; cases h
    · rw [if_neg h2] at h
      by_cases h3 : o.toNat % 4096 ≠ 0
      · rw [if_pos h3] at h; cases h
      · rw [if_neg h3] at h
        by_cases h4 : l.toNat % 4096 ≠ 0
        · rw [if_pos h4] at h; cases h
        · rw [if_neg h4] at h
          exact ⟨by omega, by omega, by omega, by omega, h⟩

/-! ### the CDN branch of `Chunk` -/

theorem chunkRaw_len (cdn : Nat → Nat → Bytes) (dec : Nat → Bytes → Bytes) :
    ∀ (plan : List Range) (d : Bytes), chunkRaw cdn dec plan = .ok d → d.length ≤ total plan := by
  intro plan
  induction plan with
  | nil => intro d h; simp only [chunkRaw, Except.ok.injEq] at h; subst h; simp [total]
  | cons r rest ih =>
    intro d h
    rw [chunkRaw] at h
    simp only [Facts.C34.rejectsLongPart, Bool.true_and, decide_eq_true_eq] at h
    by_cases h1 : (dec r.offset (cdn r.offset r.limit)).length > r.limit
    · simp [h1] at h
    · simp only [h1, if_false] at h
      by_cases h2 : (dec r.offset (cdn r.offset r.limit)).length < r.limit
      · simp only [h2, if_true, Except.ok.injEq] at h
        subst h
        simp only [total, List.map_cons, List.sum_cons]
        omega
      · simp only [h2, if_false] at h
        cases hr : chunkRaw cdn dec rest with
        | error e => simp [hr] at h
        | ok more =>
          simp only [hr, Except.ok.injEq] at h
          subst h
          have := ih more hr
          simp only [total, List.map_cons, List.sum_cons, List.length_append] at this ⊢
          omega

end TdModel.C34
