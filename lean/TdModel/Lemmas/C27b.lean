/-
C27 / C28 — the holder invariant of the pool model and its preservation by every action.
-/
import TdModel.Lemmas.C27a

namespace TdModel.C27

/-- Bookkeeping invariant: the limit, the total, and "every connection has at most one holder,
every live (counted) connection has exactly one". -/
structure HInv (m : Nat) (s : State) : Prop where
  maxc : s.max = m
  tot : s.total = liveCount s + nReserved s
  lim : s.max ≠ 0 → s.total ≤ s.max
  one : ∀ c, holders s c ≤ 1
  live : s.closed = false → ∀ (c : Nat) (x : Conn), s.conns[c]? = some x → x.dead = false → holders s c = 1
  dang : ∀ c, s.conns.length ≤ c → holders s c = 0

theorem liveCount_eq_map (s : State) :
    liveCount s = (s.conns.map (·.dead)).countP (fun b => !b) := by
  simp [liveCount, List.countP_map, Function.comp_def]

theorem dead_of_map {s s' : State} (h : s'.conns.map (·.dead) = s.conns.map (·.dead)) (c : Nat) (x' : Conn)
    (hx : s'.conns[c]? = some x') : ∃ x, s.conns[c]? = some x ∧ x.dead = x'.dead := by
  have h1 : (s'.conns.map (·.dead))[c]? = some x'.dead := by simp [hx]
  rw [h] at h1
  simp at h1
  obtain ⟨x, hx1, hx2⟩ := h1
  exact ⟨x, hx1, hx2⟩

/-- An update that keeps the limit, the total and the dead flags, never increases the number of
holders and keeps it for live connections preserves the invariant. -/
theorem hinv_of_le {m : Nat} {s s' : State} (hI : HInv m s)
    (hmax : s'.max = s.max) (htot : s'.total = s.total)
    (hconns : s'.conns.map (·.dead) = s.conns.map (·.dead))
    (hres : nReserved s' = nReserved s) (hcl : s'.closed = s.closed)
    (hh : ∀ c, holders s' c ≤ holders s c)
    (hl : s.closed = false → ∀ (c : Nat) (x : Conn), s.conns[c]? = some x → x.dead = false → holders s' c = holders s c) :
    HInv m s' := by
  have hlen : s'.conns.length = s.conns.length := by
    have := congrArg List.length hconns
    simpa using this
  refine ⟨by rw [hmax]; exact hI.maxc, ?_, ?_, ?_, ?_, ?_⟩
  · rw [htot, hI.tot, liveCount_eq_map, liveCount_eq_map, hconns, hres]
  · rw [hmax, htot]; exact hI.lim
  · intro c; exact Nat.le_trans (hh c) (hI.one c)
  · intro hc c x' hx' hd
    have hc' : s.closed = false := by rw [← hcl]; exact hc
    obtain ⟨x, hx, hxd⟩ := dead_of_map hconns c x' hx'
    rw [hl hc' c x hx (by rw [hxd]; exact hd)]
    exact hI.live hc' c x hx (by rw [hxd]; exact hd)
  · intro c hc
    have := hI.dang c (by rw [← hlen]; exact hc)
    have := hh c
    omega


/-- Effect of moving caller `i` on the number of reserved slots. -/
theorem nReserved_setPc (t : State) (i : Nat) (x : Caller) (p : PC) (h : t.callers[i]? = some x) :
    nReserved (setPc t i x p) + (if x.pc = .reserved then 1 else 0)
      = nReserved t + (if p = .reserved then 1 else 0) := by
  have := countP_set_of (fun z : Caller => z.pc == .reserved) t.callers i x { x with pc := p } h
  simpa [nReserved, setPc] using this

/-! ### How the primitive updates change the number of holders -/

@[simp] theorem nFree_setPc (s : State) (i : Nat) (x : Caller) (p : PC) (c : Nat) :
    nFree (setPc s i x p) c = nFree s c := rfl
@[simp] theorem nInbox_setPc (s : State) (i : Nat) (x : Caller) (p : PC) (c : Nat) :
    nInbox (setPc s i x p) c = nInbox s c := rfl
@[simp] theorem nOrphan_setPc (s : State) (i : Nat) (x : Caller) (p : PC) (c : Nat) :
    nOrphan (setPc s i x p) c = nOrphan s c := rfl

theorem holders_setPc (s : State) (i : Nat) (x : Caller) (p : PC) (h : s.callers[i]? = some x) (c : Nat) :
    holders (setPc s i x p) c + (if heldBy x.pc = some c then 1 else 0)
      = holders s c + (if heldBy p = some c then 1 else 0) := by
  have := nCallers_set s i x { x with pc := p } h c
  simp only [holders, nFree_setPc, nInbox_setPc, nOrphan_setPc]
  have e : nCallers (setPc s i x p) c
      = List.countP (fun z => heldBy z.pc == some c) (s.callers.set i { x with pc := p }) := rfl
  rw [e]
  simp only at this
  omega

theorem holders_free_pop (s : State) (d : Nat) (fs : List Nat) (h : s.free = d :: fs) (c : Nat) :
    holders { s with free := fs } c + (if d = c then 1 else 0) = holders s c := by
  simp only [holders, nFree, nCallers, nInbox, nOrphan, h, List.count_cons]
  by_cases hdc : d = c <;> simp [hdc] <;> omega

theorem holders_free_push (s : State) (d : Nat) (c : Nat) :
    holders { s with free := d :: s.free } c = holders s c + (if d = c then 1 else 0) := by
  simp only [holders, nFree, nCallers, nInbox, nOrphan, List.count_cons]
  by_cases hdc : d = c <;> simp [hdc] <;> omega

theorem holders_inbox_take (s : State) (k d : Nat) (rest : List (Nat × Nat))
    (h : takeKey k s.inbox = some (d, rest)) (c : Nat) :
    holders { s with inbox := rest } c + (if d = c then 1 else 0) = holders s c := by
  have := takeKey_count h c
  simp only [holders, nFree, nCallers, nInbox, nOrphan]
  omega

theorem holders_inbox_send (s : State) (r : List Nat) (k d : Nat) (c : Nat) :
    holders { s with reqs := r, inbox := s.inbox ++ [(k, d)] } c = holders s c + (if d = c then 1 else 0) := by
  simp only [holders, nFree, nCallers, nInbox, nOrphan, List.countP_append, List.countP_cons, List.countP_nil]
  by_cases hdc : d = c <;> simp [hdc] <;> omega

theorem holders_reqs (s : State) (r : List Nat) (n : Nat) (c : Nat) :
    holders { s with reqs := r, nextKey := n } c = holders s c := rfl

theorem holders_reqs' (s : State) (r : List Nat) (c : Nat) :
    holders { s with reqs := r } c = holders s c := rfl

theorem nOrphan_set (s : State) (d : Nat) (cn cn' : Conn) (h : s.conns[d]? = some cn) (c : Nat) :
    nOrphan { s with conns := s.conns.set d cn' } c + (if cn.orphan = true ∧ d = c then 1 else 0)
      = nOrphan s c + (if cn'.orphan = true ∧ d = c then 1 else 0) := by
  have hlt := lt_of_getElem? h
  unfold nOrphan
  by_cases hdc : d = c
  · subst hdc
    have e1 : ({ s with conns := s.conns.set d cn' } : State).conns[d]? = some cn' := by simp [hlt]
    rw [e1, h]
    cases hco : cn.orphan <;> cases hco' : cn'.orphan <;> simp [hco, hco']
  · have e1 : ({ s with conns := s.conns.set d cn' } : State).conns[c]? = s.conns[c]? := by
      simp [hdc]
    rw [e1]
    simp [hdc]

theorem holders_conn_set (s : State) (d : Nat) (cn cn' : Conn) (h : s.conns[d]? = some cn) (c : Nat) :
    holders { s with conns := s.conns.set d cn' } c + (if cn.orphan = true ∧ d = c then 1 else 0)
      = holders s c + (if cn'.orphan = true ∧ d = c then 1 else 0) := by
  have := nOrphan_set s d cn cn' h c
  simp only [holders, nFree, nCallers, nInbox] at *
  omega

theorem release_spec {s s1 : State} {d : Nat} {k : Option Nat} (h : release s d k = some s1) :
    (∀ c, holders s1 c = holders s c + (if d = c then 1 else 0)) ∧
    s1.max = s.max ∧ s1.total = s.total ∧ s1.conns = s.conns ∧ s1.callers = s.callers ∧ s1.gen = s.gen ∧
    s1.closed = s.closed := by
  cases k with
  | none =>
    simp only [release] at h
    split at h
    · cases h
      exact ⟨fun c => holders_free_push s d c, rfl, rfl, rfl, rfl, rfl, rfl⟩
    · cases h
  | some k =>
    simp only [release] at h
    split at h
    · cases h
      exact ⟨fun c => holders_inbox_send s _ k d c, rfl, rfl, rfl, rfl, rfl, rfl⟩
    · cases h

end TdModel.C27
