/-
C16 — concurrent `connection.Send` calls: invariants of the sender transition system
(`TdModel.C16.sstep`) for any number of senders and any interleaving.  Core Lean only.
-/
import TdModel.Model.C16

namespace TdModel.C16
open TdModel TdModel.Codec

theorem encAll_snoc (c : Cfg) (crc : Bytes → Nat) (k : Kind) (p : Bytes) :
    ∀ (ps : List Bytes) (seq : Int) (rnd : Nat → Bytes),
      encAll c crc k seq rnd (ps ++ [p])
        = encAll c crc k seq rnd ps ++ encRaw c crc k (seq + ps.length) (rnd ps.length) p := by
  intro ps
  induction ps with
  | nil => intro seq rnd; simp [encAll]
  | cons q qs ih =>
    intro seq rnd
    simp only [List.cons_append, encAll, ih, List.append_assoc, List.length_cons]
    have : seq + 1 + (qs.length : Int) = seq + ((qs.length + 1 : Nat) : Int) := by omega
    rw [this]

def curRem (s : SState) : Bytes :=
  match s.cur with
  | some (_, rem) => rem
  | none => []

/-- The invariant: what is on the wire plus what the lock holder still has to write is the
concatenation of whole frames in lock-acquisition order, numbered consecutively; and every sender's
payloads enter that order in the sender's own order. -/
structure SInv (c : Cfg) (crc : Bytes → Nat) (k : Kind) (rnd : Nat → Bytes) (seq0 : Int)
    (pend0 : Nat → List Bytes) (s : SState) : Prop where
  stream : s.wire ++ curRem s = encAll c crc k seq0 rnd (s.log.map (·.2))
  counter : s.wSeq = seq0 + s.log.length
  order : ∀ t, ((s.log.filter (fun e => e.1 = t)).map (·.2)) ++ s.pending t = pend0 t

theorem sinv_init (c : Cfg) (crc : Bytes → Nat) (k : Kind) (rnd : Nat → Bytes) (seq0 : Int)
    (pend0 : Nat → List Bytes) : SInv c crc k rnd seq0 pend0 (sinit seq0 pend0) := by
  constructor <;> simp [sinit, curRem, encAll]

theorem sinv_step (c : Cfg) (crc : Bytes → Nat) (k : Kind) (rnd : Nat → Bytes) (seq0 : Int)
    (pend0 : Nat → List Bytes) (s s' : SState) (a : SAct)
    (h : SInv c crc k rnd seq0 pend0 s) (hs : sstep c crc k rnd s a = some s') :
    SInv c crc k rnd seq0 pend0 s' := by
  cases a with
  | acquire t =>
    simp only [sstep] at hs
    split at hs
    · rename_i p rest hcur hpend
      simp only [Option.some.injEq] at hs
      subst hs
      have hrem : curRem s = [] := by simp [curRem, hcur]
      constructor
      · simp only [curRem, List.map_append, List.map_cons, List.map_nil]
        rw [encAll_snoc, ← h.stream, hrem, List.append_nil, h.counter]
        simp
      · simp only [List.length_append, List.length_cons, List.length_nil, h.counter]
        omega
      · intro u
        have ho := h.order u
        simp only [List.filter_append, List.map_append]
        by_cases hu : u = t
        · subst hu
          rw [hpend] at ho
          simp [← ho]
        · have : ¬ (t = u) := fun e => hu e.symm
          simp [hu, this, ho]
    · simp at hs
  | write t n =>
    simp only [sstep] at hs
    split at hs
    · rename_i hd rem hcur
      split at hs
      · simp only [Option.some.injEq] at hs
        subst hs
        have hrem : curRem s = rem := by simp [curRem, hcur]
        constructor
        · simp only [curRem, List.append_assoc, List.take_append_drop]
          rw [← h.stream, hrem]
        · exact h.counter
        · exact h.order
      · simp at hs
    · simp at hs
  | release t =>
    simp only [sstep] at hs
    split at hs
    · rename_i hd hcur
      split at hs
      · simp only [Option.some.injEq] at hs
        subst hs
        have hrem : curRem s = [] := by simp [curRem, hcur]
        constructor
        · simp only [curRem, List.append_nil]
          rw [← h.stream, hrem, List.append_nil]
        · exact h.counter
        · exact h.order
      · simp at hs
    · simp at hs

theorem sinv_run (c : Cfg) (crc : Bytes → Nat) (k : Kind) (rnd : Nat → Bytes) (seq0 : Int)
    (pend0 : Nat → List Bytes) : ∀ (as : List SAct) (s s' : SState),
    SInv c crc k rnd seq0 pend0 s → srun c crc k rnd s as = some s' → SInv c crc k rnd seq0 pend0 s' := by
  intro as
  induction as with
  | nil => intro s s' h hr; simp only [srun, Option.some.injEq] at hr; subst hr; exact h
  | cons a as ih =>
    intro s s' h hr
    simp only [srun] at hr
    split at hr
    · rename_i s1 hs1
      exact ih s1 s' (sinv_step c crc k rnd seq0 pend0 s s1 a h hs1) hr
    · simp at hr

end TdModel.C16
