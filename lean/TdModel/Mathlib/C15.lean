/-
C15 — the SRP session-key algebra (Mathlib): client and verifier compute the same secret.
Pure arithmetic; the shapes of both sides are those of `Spec.sA` / `Spec.serverS` in the model.
-/
import Mathlib.Data.ZMod.Basic
import Mathlib.Tactic.Ring

namespace TdModel.C15

/-- With `B = (k·v + g^b) mod p` and `v = g^x mod p`:
`((B − k·v) mod p)^(a + u·x) = (g^a · v^u)^b (mod p)`. -/
theorem srp_session_agree (p g k v x a b u : ℕ) (hp : 0 < p) (hv : v = g ^ x % p) :
    ((((k * v + g ^ b % p) % p) + (p - (k * v) % p)) % p) ^ (a + u * x) % p =
      (((g ^ a % p) * (v ^ u % p)) % p) ^ b % p := by
  rw [← ZMod.natCast_eq_natCast_iff']
  have hle : (k * v) % p ≤ p := Nat.le_of_lt (Nat.mod_lt _ hp)
  subst hv
  push_cast [Nat.cast_sub hle, ZMod.natCast_mod]
  simp only [ZMod.natCast_self]
  ring

end TdModel.C15
