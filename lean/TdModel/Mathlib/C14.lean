/-
C14 — textbook RSA is correct (Mathlib): `(m^e)^d ≡ m (mod p·q)` for distinct primes `p`, `q` and
`e·d ≡ 1 (mod lcm (p−1) (q−1))`, for every `m` (also those not coprime to the modulus).
This discharges the hypothesis `hrsa` of the C14 round-trip theorems for real RSA keys.
-/
import Mathlib.FieldTheory.Finite.Basic
import Mathlib.Data.ZMod.Basic
import Mathlib.Data.Nat.ChineseRemainder

namespace TdModel.C14

open Nat in
/-- Fermat, exponent form: `m^(1 + k(p−1)) ≡ m (mod p)` for every `m`. -/
theorem pow_one_add_mul_pred_modEq (p : ℕ) (hp : p.Prime) (m k : ℕ) :
    m ^ (1 + k * (p - 1)) ≡ m [MOD p] := by
  have : Fact p.Prime := Fact.mk hp
  rw [← ZMod.natCast_eq_natCast_iff]
  push_cast
  by_cases h0 : (m : ZMod p) = 0
  · simp [h0]
  · rw [pow_add, pow_one, pow_mul', ZMod.pow_card_sub_one_eq_one h0, one_pow, mul_one]

/-- **RSA correctness.** -/
theorem rsa_correct (p q e d m : ℕ) (hp : p.Prime) (hq : q.Prime) (hpq : p ≠ q)
    (hed : e * d ≡ 1 [MOD Nat.lcm (p - 1) (q - 1)]) (hm : m < p * q) :
    (m ^ e % (p * q)) ^ d % (p * q) = m := by
  have hlpos : 0 < Nat.lcm (p - 1) (q - 1) :=
    Nat.lcm_pos (Nat.sub_pos_of_lt hp.one_lt) (Nat.sub_pos_of_lt hq.one_lt)
  have hed1 : 1 ≤ e * d := by
    rcases Nat.eq_zero_or_pos (e * d) with h | h
    · rw [h] at hed
      have h2 := hed.symm
      rw [Nat.modEq_zero_iff_dvd] at h2
      have hl1 : Nat.lcm (p - 1) (q - 1) = 1 := Nat.dvd_one.mp h2
      have hp1 : p - 1 ∣ Nat.lcm (p - 1) (q - 1) := Nat.dvd_lcm_left _ _
      rw [hl1] at hp1
      have hq1 : q - 1 ∣ Nat.lcm (p - 1) (q - 1) := Nat.dvd_lcm_right _ _
      rw [hl1] at hq1
      have hp2 : p = 2 := by have := Nat.dvd_one.mp hp1; have := hp.two_le; omega
      have hq2 : q = 2 := by have := Nat.dvd_one.mp hq1; have := hq.two_le; omega
      exact absurd (hp2.trans hq2.symm) hpq
    · exact h
  -- e*d = 1 + t * lcm
  obtain ⟨t, ht⟩ : ∃ t, e * d = 1 + t * Nat.lcm (p - 1) (q - 1) := by
    have := (Nat.modEq_iff_dvd' hed1).mp hed.symm
    obtain ⟨t, ht⟩ := this
    exact ⟨t, by rw [Nat.mul_comm t]; omega⟩
  obtain ⟨a, ha⟩ := Nat.dvd_lcm_left (p - 1) (q - 1)
  obtain ⟨b, hb⟩ := Nat.dvd_lcm_right (p - 1) (q - 1)
  have hmp : m ^ (e * d) ≡ m [MOD p] := by
    rw [ht, ha, ← Nat.mul_assoc, Nat.mul_comm t, Nat.mul_assoc, Nat.mul_comm (p - 1)]
    exact pow_one_add_mul_pred_modEq p hp m _
  have hmq : m ^ (e * d) ≡ m [MOD q] := by
    rw [ht, hb, ← Nat.mul_assoc, Nat.mul_comm t, Nat.mul_assoc, Nat.mul_comm (q - 1)]
    exact pow_one_add_mul_pred_modEq q hq m _
  have hcop : Nat.Coprime p q := (Nat.coprime_primes hp hq).mpr hpq
  have hmn : m ^ (e * d) ≡ m [MOD p * q] := (Nat.modEq_and_modEq_iff_modEq_mul hcop).mp ⟨hmp, hmq⟩
  rw [← Nat.pow_mod, ← Nat.pow_mul]
  have := hmn
  unfold Nat.ModEq at this
  rw [this, Nat.mod_eq_of_lt hm]

end TdModel.C14
