/-
C13 — number theory behind `CheckGP` (Mathlib): for a safe prime `p > 7` the documented conditions
on `p mod 4g` hold exactly when `g ∈ {2,…,7}` is a quadratic residue modulo `p` (quadratic
reciprocity and its supplements), and a product of two primes has only that factorisation.
The first part is pure arithmetic; the last section connects it to the model's `checkGPWith` /
`checkDH` (core lemmas of TdModel/Lemmas/C13.lean) for the specification's table.
-/
import Mathlib.NumberTheory.LegendreSymbol.QuadraticReciprocity
import TdModel.Lemmas.C13

namespace TdModel.C13

open ZMod

/-- A safe prime above 7 is 3 modulo 4. -/
theorem safe_prime_mod_four (p : ℕ) (hp : p.Prime) (hq : ((p - 1) / 2).Prime) (h7 : 7 < p) : p % 4 = 3 := by
  rcases hp.eq_two_or_odd with h | h
  · omega
  rcases hq.eq_two_or_odd with h2 | h2
  · omega
  · omega

theorem natCast_ne_zero_of_lt (p : ℕ) (a : ℕ) (ha : 0 < a) (hap : a < p) : ((a : ℕ) : ZMod p) ≠ 0 := by
  intro h
  rw [ZMod.natCast_eq_zero_iff] at h
  exact absurd (Nat.le_of_dvd ha h) (by omega)

theorem isSquare_mod_three (p : ℕ) (h0 : p % 3 ≠ 0) : IsSquare ((p : ℕ) : ZMod 3) ↔ p % 3 = 1 := by
  rw [← ZMod.natCast_mod p 3]
  have : p % 3 < 3 := Nat.mod_lt _ (by omega)
  interval_cases h : p % 3
  · exact absurd rfl h0
  · simp
  · simp only [Nat.cast_ofNat]; decide

theorem isSquare_mod_five (p : ℕ) (h0 : p % 5 ≠ 0) :
    IsSquare ((p : ℕ) : ZMod 5) ↔ p % 5 = 1 ∨ p % 5 = 4 := by
  rw [← ZMod.natCast_mod p 5]
  have : p % 5 < 5 := Nat.mod_lt _ (by omega)
  interval_cases h : p % 5
  · exact absurd rfl h0
  · simp
  · simp only [Nat.cast_ofNat]; decide
  · simp only [Nat.cast_ofNat]; decide
  · simp only [Nat.cast_ofNat]; decide

theorem isSquare_mod_seven (p : ℕ) (h0 : p % 7 ≠ 0) :
    IsSquare ((p : ℕ) : ZMod 7) ↔ p % 7 = 1 ∨ p % 7 = 2 ∨ p % 7 = 4 := by
  rw [← ZMod.natCast_mod p 7]
  have : p % 7 < 7 := Nat.mod_lt _ (by omega)
  interval_cases h : p % 7
  · exact absurd rfl h0
  · simp
  · simp only [Nat.cast_ofNat]; decide
  · simp only [Nat.cast_ofNat]; decide
  · simp only [Nat.cast_ofNat]; decide
  · simp only [Nat.cast_ofNat]; decide
  · simp only [Nat.cast_ofNat]; decide

theorem prime_mod_ne_zero (p l : ℕ) (hp : p.Prime) (hl : 1 < l) (hlp : l < p) : p % l ≠ 0 := by
  intro h
  have hd : l ∣ p := Nat.dvd_of_mod_eq_zero h
  rcases (Nat.dvd_prime hp).mp hd with h1 | h1 <;> omega

theorem residue_four (p : ℕ) : IsSquare (4 : ZMod p) := ⟨2, by norm_num⟩

section
variable (p : ℕ) (hp : p.Prime) (hq : ((p - 1) / 2).Prime) (h7 : 7 < p)
include hp hq h7

theorem residue_two : IsSquare (2 : ZMod p) ↔ p % 8 = 7 := by
  have h4 := safe_prime_mod_four p hp hq h7
  have : Fact p.Prime := ⟨hp⟩
  rw [ZMod.exists_sq_eq_two_iff (by omega)]
  omega

theorem residue_three : IsSquare (3 : ZMod p) ↔ p % 3 = 2 := by
  have h4 := safe_prime_mod_four p hp hq h7
  have : Fact p.Prime := ⟨hp⟩
  have : Fact (Nat.Prime 3) := ⟨Nat.prime_three⟩
  have h3 := prime_mod_ne_zero p 3 hp (by omega) (by omega)
  have key := ZMod.exists_sq_eq_prime_iff_of_mod_four_eq_three (p := p) (q := 3) h4 (by rfl) (by omega)
  have e : ((3 : ℕ) : ZMod p) = 3 := by norm_cast
  rw [e] at key
  rw [key, isSquare_mod_three p h3]
  omega

omit hq in
theorem residue_five : IsSquare (5 : ZMod p) ↔ p % 5 = 1 ∨ p % 5 = 4 := by
  have : Fact p.Prime := ⟨hp⟩
  have : Fact (Nat.Prime 5) := ⟨Nat.prime_five⟩
  have h5 := prime_mod_ne_zero p 5 hp (by omega) (by omega)
  have key := ZMod.exists_sq_eq_prime_iff_of_mod_four_eq_one (p := 5) (q := p) (by rfl) (by omega)
  have e : ((5 : ℕ) : ZMod p) = 5 := by norm_cast
  rw [e] at key
  rw [← key, isSquare_mod_five p h5]

theorem residue_seven : IsSquare (7 : ZMod p) ↔ p % 7 = 3 ∨ p % 7 = 5 ∨ p % 7 = 6 := by
  have h4 := safe_prime_mod_four p hp hq h7
  have : Fact p.Prime := ⟨hp⟩
  have : Fact (Nat.Prime 7) := ⟨by decide⟩
  have h7' := prime_mod_ne_zero p 7 hp (by omega) (by omega)
  have key := ZMod.exists_sq_eq_prime_iff_of_mod_four_eq_three (p := p) (q := 7) h4 (by rfl) (by omega)
  have e : ((7 : ℕ) : ZMod p) = 7 := by norm_cast
  rw [e] at key
  rw [key, isSquare_mod_seven p h7']
  have : p % 7 < 7 := Nat.mod_lt _ (by omega)
  omega

/-- g = 6 = 2 · 3: the Legendre symbol is multiplicative. -/
theorem residue_six : IsSquare (6 : ZMod p) ↔ p % 24 = 19 ∨ p % 24 = 23 := by
  have h4 := safe_prime_mod_four p hp hq h7
  have r2 := residue_two p hp hq h7
  have r3 := residue_three p hp hq h7
  have h3 := prime_mod_ne_zero p 3 hp (by omega) (by omega)
  have : Fact p.Prime := ⟨hp⟩
  have n2 : ((2 : ℤ) : ZMod p) ≠ 0 := by
    have := natCast_ne_zero_of_lt p 2 (by omega) (by omega)
    exact_mod_cast this
  have n3 : ((3 : ℤ) : ZMod p) ≠ 0 := by
    have := natCast_ne_zero_of_lt p 3 (by omega) (by omega)
    exact_mod_cast this
  have n6 : ((6 : ℤ) : ZMod p) ≠ 0 := by
    have := natCast_ne_zero_of_lt p 6 (by omega) (by omega)
    exact_mod_cast this
  have e2 := legendreSym.eq_one_iff p n2
  have e3 := legendreSym.eq_one_iff p n3
  have e6 := legendreSym.eq_one_iff p n6
  have hmul : legendreSym p 6 = legendreSym p 2 * legendreSym p 3 := by
    rw [← legendreSym.mul]; rfl
  have c2 := legendreSym.eq_one_or_neg_one p n2
  have c3 := legendreSym.eq_one_or_neg_one p n3
  have k2 : IsSquare (2 : ZMod p) ↔ legendreSym p 2 = 1 := by rw [e2]; norm_cast
  have k3 : IsSquare (3 : ZMod p) ↔ legendreSym p 3 = 1 := by rw [e3]; norm_cast
  have k6 : IsSquare (6 : ZMod p) ↔ legendreSym p 6 = 1 := by rw [e6]; norm_cast
  rw [k6, hmul]
  rw [k2] at r2
  rw [k3] at r3
  rcases c2 with c2 | c2 <;> rcases c3 with c3 | c3 <;> rw [c2] at r2 ⊢ <;> rw [c3] at r3 ⊢ <;>
    simp only [mul_one, mul_neg, neg_neg, true_iff] at r2 r3 ⊢ <;> omega

end

/-- A product of two primes has exactly one factorisation `a·b` with `1 < a ≤ b`. -/
theorem semiprime_factors (p q a b : ℕ) (hp : p.Prime) (hq : q.Prime) (hpq : p ≤ q)
    (hab : a * b = p * q) (ha : 1 < a) (hle : a ≤ b) : a = p ∧ b = q := by
  have hb : 1 < b := by omega
  have hdiv : p ∣ a * b := hab ▸ Dvd.intro q rfl
  rcases (Nat.Prime.dvd_mul hp).mp hdiv with h | h
  · obtain ⟨k, rfl⟩ := h
    have hk : k * b = q := by
      have : p * (k * b) = p * q := by rw [← hab]; ring
      exact Nat.eq_of_mul_eq_mul_left hp.pos this
    have hkd : b ∣ q := Dvd.intro_left k hk
    rcases (Nat.dvd_prime hq).mp hkd with h1 | h1
    · omega
    · subst h1
      have hk1 : k = 1 := by
        have : k * b = 1 * b := by rw [hk, one_mul]
        exact Nat.eq_of_mul_eq_mul_right (by omega) this
      subst hk1
      simp
  · obtain ⟨k, rfl⟩ := h
    have hk : a * k = q := by
      have : p * (a * k) = p * q := by rw [← hab]; ring
      exact Nat.eq_of_mul_eq_mul_left hp.pos this
    have had : a ∣ q := Dvd.intro k hk
    rcases (Nat.dvd_prime hq).mp had with h1 | h1
    · omega
    · subst h1
      have hk1 : k = 1 := by
        have : a * k = a * 1 := by rw [hk, mul_one]
        exact Nat.eq_of_mul_eq_mul_left (by omega) this
      subst hk1
      -- a = q, b = p, a ≤ b, p ≤ q  ⇒  p = q
      have : a = p := by omega
      subst this
      simp

/-- A prime has no factorisation `a·b` with `1 < a ≤ b`. -/
theorem prime_no_factors (n a b : ℕ) (hn : n.Prime) (hab : a * b = n) (ha : 1 < a) (hle : a ≤ b) : False := by
  have hd : a ∣ n := Dvd.intro b hab
  rcases (Nat.dvd_prime hn).mp hd with h | h
  · omega
  · subst h
    have hb : b = 1 := by
      have : a * b = a * 1 := by rw [hab, mul_one]
      exact Nat.eq_of_mul_eq_mul_left (by omega) this
    omega

/-! ## Connection to the model -/

/-- The specification's table, as the model's `checkGPWith` argument. -/
def specTable : List (Nat × Option (Nat × List Nat)) :=
  [(2, some (8, [7])), (3, some (3, [2])), (4, none), (5, some (5, [1, 4])),
    (6, some (24, [19, 23])), (7, some (7, [3, 5, 6]))]

/-- For a safe prime `p > 7` and `g ∈ 2..7`, the table check accepts exactly the quadratic residues. -/
theorem table_iff_isSquare (p : ℕ) (hp : p.Prime) (hq : ((p - 1) / 2).Prime) (h7 : 7 < p)
    (g : ℕ) (hg : 2 ≤ g ∧ g ≤ 7) :
    checkGPWith specTable (g : ℤ) (p : ℤ) = .ok ↔ IsSquare ((g : ℕ) : ZMod p) := by
  unfold specTable
  rw [checkGPWith_spec_iff _ _ (Int.natCast_nonneg p)]
  unfold gpSpec
  obtain ⟨hg2, hg7⟩ := hg
  interval_cases g
  · rw [show ((2 : ℕ) : ZMod p) = 2 by norm_cast, residue_two p hp hq h7]; push_cast
    simp only [true_and, false_and, false_or, or_false]; omega
  · rw [show ((3 : ℕ) : ZMod p) = 3 by norm_cast, residue_three p hp hq h7]; push_cast
    simp only [true_and, false_and, false_or, or_false]; omega
  · rw [show ((4 : ℕ) : ZMod p) = 4 by norm_cast]
    simp only [residue_four p, iff_true]; push_cast; simp
  · rw [show ((5 : ℕ) : ZMod p) = 5 by norm_cast, residue_five p hp h7]; push_cast
    simp only [true_and, false_and, false_or, or_false]; omega
  · rw [show ((6 : ℕ) : ZMod p) = 6 by norm_cast, residue_six p hp hq h7]; push_cast
    simp only [true_and, false_and, false_or, or_false]; omega
  · rw [show ((7 : ℕ) : ZMod p) = 7 by norm_cast, residue_seven p hp hq h7]; push_cast
    simp only [true_and, false_and, false_or, or_false]; omega

theorem two_pow_not_prime (n : ℕ) (hn : 2 ≤ n) : ¬ (2 ^ n).Prime := by
  intro h
  have hd : 2 ∣ 2 ^ n := dvd_pow_self 2 (by omega)
  rcases (Nat.dvd_prime h).mp hd with h1 | h1
  · omega
  · have : 2 ^ 2 ≤ 2 ^ n := Nat.pow_le_pow_right (by omega) hn
    omega

theorem tdiv_half (p : ℕ) (hp : 1 ≤ p) : Int.tdiv ((p : ℤ) - 1) 2 = (((p - 1) / 2 : ℕ) : ℤ) := by
  rw [Int.tdiv_eq_ediv_of_nonneg (by omega)]
  omega

/-- `CheckDH`, with a correct primality oracle, accepts `(g, p)` exactly when `p` is a 2048-bit safe
prime and `g ∈ 2..7` is a quadratic residue modulo `p` (specification's table as `specTable`). -/
theorem checkDH_spec_bridge (isPrime : ℤ → Bool)
    (horacle : ∀ n : ℤ, isPrime n = true ↔ (0 ≤ n ∧ n.toNat.Prime))
    (hbits : Facts.C13.rsaKeyBits = 2048) (htab : Facts.C13.gpTable = specTable) (g : ℤ) (p : ℕ) :
    checkDH isPrime g (p : ℤ) = .ok ↔
      (2 ^ 2047 < p ∧ p < 2 ^ 2048) ∧ p.Prime ∧ ((p - 1) / 2).Prime ∧ (2 ≤ g ∧ g ≤ 7) ∧
        IsSquare ((g.toNat : ℕ) : ZMod p) := by
  rw [checkDH_ok_iff, hbits, show (2048 : ℕ) = 2047 + 1 by rfl, bitLen_eq_succ_iff, Int.natAbs_natCast]
  unfold checkGP
  rw [htab]
  have h7lt : 7 < 2 ^ 2047 := Nat.lt_of_lt_of_le (by decide : 7 < 2 ^ 3) (Nat.pow_le_pow_right (by omega) (by omega))
  constructor
  · rintro ⟨⟨hlo, hhi⟩, hgp, hp1, hp2⟩
    have hpp : p.Prime := by have := ((horacle p).mp hp1).2; rwa [Int.toNat_natCast] at this
    have hp1' : 1 ≤ p := hpp.one_lt.le
    rw [tdiv_half p hp1'] at hp2
    have hqq : ((p - 1) / 2).Prime := by have := ((horacle _).mp hp2).2; rwa [Int.toNat_natCast] at this
    have hne : p ≠ 2 ^ 2047 := fun h => two_pow_not_prime 2047 (by omega) (h ▸ hpp)
    have hg : 2 ≤ g ∧ g ≤ 7 := by
      by_contra hcon
      have := (checkGPWith_badG_iff g p).mpr hcon
      unfold specTable at hgp
      rw [hgp] at this
      cases this
    refine ⟨⟨by omega, hhi⟩, hpp, hqq, hg, ?_⟩
    have hgn : ((g.toNat : ℕ) : ℤ) = g := Int.toNat_of_nonneg (by omega)
    rw [← hgn] at hgp
    exact (table_iff_isSquare p hpp hqq (by omega) g.toNat (by omega)).mp hgp
  · rintro ⟨⟨hlo, hhi⟩, hpp, hqq, hg, hsq⟩
    have hp1' : 1 ≤ p := hpp.one_lt.le
    have hgn : ((g.toNat : ℕ) : ℤ) = g := Int.toNat_of_nonneg (by omega)
    refine ⟨⟨by omega, hhi⟩, ?_, ?_, ?_⟩
    · rw [← hgn]
      exact (table_iff_isSquare p hpp hqq (by omega) g.toNat (by omega)).mpr hsq
    · exact (horacle p).mpr ⟨Int.natCast_nonneg p, by rw [Int.toNat_natCast]; exact hpp⟩
    · rw [tdiv_half p hp1']
      exact (horacle _).mpr ⟨Int.natCast_nonneg _, by rw [Int.toNat_natCast]; exact hqq⟩

end TdModel.C13
