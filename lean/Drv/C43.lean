import TdModel.Model.C43
open TdModel TdModel.C43

def parseAction (w : String) : Option Action :=
  let rest := (w.drop 1).toString
  if w.startsWith "c" then rest.toInt?.map .call
  else if w.startsWith "p" then rest.toInt?.map .pong
  else if w.startsWith "o" then rest.toNat?.map .retOk
  else if w.startsWith "e" then rest.toNat?.map .retErr
  else none

def showIds (ids : List Int) : String :=
  if ids.isEmpty then "-" else ",".intercalate (ids.map toString)

def showResults (s : State) : String :=
  if s.pings.isEmpty then "-" else
  String.ofList (s.pings.map fun pg => match pg.ret with
    | some true => 'o' | some false => 'e' | none => if pg.closed then 'C' else 'w')

/-- Replay a trace; after every action print the registered ids. -/
def replay : State → Nat → List Action → List String → String
  | s, _, [], acc => "|".intercalate acc.reverse ++ " => " ++ showResults s
  | s, k, a :: rest, acc =>
    match step s a with
    | some s' => replay s' (k + 1) rest (showIds (regIds s') :: acc)
    | none => s!"not-enabled@{k} after " ++ "|".intercalate acc.reverse

def parseOutcome (w : String) : Option TickOutcome :=
  if w == "o" then some .ok else if w == "m" then some .missed else if w == "w" then some .writeErr else none

def handle (line : String) : String :=
  match words line with
  | "lts" :: acts => match acts.mapM parseAction with
    | some as => replay {} 0 as []
    | none => "bad-op"
  | "loop" :: os => match os.mapM parseOutcome with
    | some os => match pingLoop os with
      | .running => "running"
      | .failed k => s!"failed {k} run-ends={runEnds (.failed k)}"
    | none => "bad-op"
  | ["tick", i, t, d] => match i.toNat?, t.toNat? with
    | some i, some t =>
      let r := tick i t (if d == "-" then none else d.toNat?)
      (match r.1 with | .ok => "ok " | .missed => "missed " | .writeErr => "write-error ") ++ toString r.2
    | _, _ => "bad-op"
  | _ => "bad-op"

def main : IO Unit := runDriver handle
