import TdModel.Model.C41
open TdModel TdModel.C41

def parseSalt (s : String) : Option Salt :=
  match s.splitOn "/" with
  | [a, b, c] => do
    let vs ← a.toInt?
    let vu ← b.toInt?
    let v ← c.toInt?
    pure { validSince := vs, validUntil := vu, salt := v }
  | _ => none

def parseSalts (s : String) : Option (List Salt) :=
  if s == "-" then some [] else (s.splitOn ",").mapM parseSalt

def parseReaction (s : String) : Option Reaction :=
  if s == "r" then some .result
  else if s.startsWith "b" then
    match (s.drop 1).toString.splitOn ":" with
    | [c, n] => do
      let c ← c.toNat?
      let n ← n.toInt?
      pure (.badMsg c n)
    | _ => none
  else none

/-- `K=value` → (K, value). -/
def keyVal (w : String) : String × String :=
  match w.splitOn "=" with
  | [k, v] => (k, v)
  | _ => (w, "")

def saltsOps : Store → List String → Option (List String)
  | _, [] => some []
  | st, w :: rest =>
    match keyVal w with
    | ("S", v) => do
      let ss ← parseSalts v
      saltsOps (store st ss) rest
    | ("G", v) => do
      let d ← v.toInt?
      let r := get st d
      let tok := match r.2 with
        | none => "none"
        | some x => s!"{x.validUntil}/{x.salt}"
      let more ← saltsOps r.1 rest
      pure (tok :: more)
    | ("R", _) => saltsOps (reset st) rest
    | _ => none

def parseEvent (w : String) : Option Event :=
  match keyVal w with
  | ("T", v) => v.toInt?.map .clock
  | ("F", v) => (parseSalts v).map .future
  | ("N", v) => v.toInt?.map .told
  | ("W", _) => some .write
  | ("I", v) => ((v.splitOn ",").mapM parseReaction).map .invoke
  | _ => none

def showInts (xs : List Int) : String :=
  if xs.isEmpty then "-" else " ".intercalate (xs.map toString)

def handle (line : String) : String :=
  match words line with
  | "salts" :: ops => match saltsOps [] ops with
    | some toks => if toks.isEmpty then "-" else " ".intercalate toks
    | none => "bad-op"
  | "conn" :: init :: start :: evs => match init.toInt?, start.toInt?, evs.mapM parseEvent with
    | some i, some t, some es => showInts (runEvents { cur := i, salts := [] } t es)
    | _, _, _ => "bad-op"
  | _ => "bad-op"

def main : IO Unit := runDriver handle
