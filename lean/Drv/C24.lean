import TdModel.Model.C24Replay
import TdModel.Gen.C24
open TdModel TdModel.Rpc

/-- One request line = one whole observed trace; the repairs' presence comes from the regenerated facts. -/
def handle (line : String) : String :=
  match words line with
  | "replay" :: _ => handleReplay Facts.C24.guardPresent Facts.C24.recheckPresent line
  | _ => "bad-op"

def main : IO Unit := runDriver handle
