import TdModel.Model.C24Replay
import TdModel.Model.C24Cfg
open TdModel TdModel.Rpc

/-- One request line = one whole observed trace; the model follows the shape of the source as
regenerated on this run (`C24.cfg`). -/
def handle (line : String) : String :=
  match words line with
  | "replay" :: _ => handleReplay C24.cfg line
  | _ => "bad-op"

def main : IO Unit := runDriver handle
