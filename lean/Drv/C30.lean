import TdModel.Model.C30Interp
import TdModel.Model.C30Mgr
import TdModel.Prim.All
open TdModel TdModel.C30

/-! Line protocol:

* `run <hasStorage> <primaryDC> <stored|-> <notif>…` → one token per notification: the result and the whole state
  after it. `stored` = `dc,keyhex,idhex,salt,addrhex`; `notif` = `r|c,dc,keyhex,idhex,permhex,permidhex,salt,n|l|s`
* `conc <hasStorage> <primaryDC> <stored|-> <notif>… | <results,…> <state> <sessSalt> <storedSalt|->` → `reachable` / `unreachable`: is there an
  interleaving of the notifications' atomic steps that ends in exactly that state with those results?
* `script <hasStorage> <primaryDC> <stored|-> <act>…` (`S:<notif>` / `A:<i>`) → `<results,…> <state>` after exactly that
  interleaving (notif kind `m` = migration to `dc`)
* `conns <hasStorage> <primaryDC> <stored|-> <act>…` (`N:r|c:<dc>:<serverDC>` new connection, `E:<id>:<session>` session confirmed on
  connection id, `IB:<id>` its init runs up to the Setup callback, `IE:<id>` the callback returns and init finishes) → final client state
* `restore <hasStorage> <primaryDC> nf|err|<stored>` → `ok <session>` / `err load` / `err corrupted`
  (SHA-1 = `Prims.real`)

Key values are printed as `len.fnv64` (both sides hash), ids in hex. -/

def fnv64 (bs : Bytes) : UInt64 :=
  bs.foldl (fun h b => (h ^^^ b.toUInt64) * 1099511628211) 14695981039346656037

def showBytes (b : Bytes) : String := s!"{b.length}.{(fnv64 b).toNat}"

def showSess (s : Sess) : String := s!"{s.dc}:{showBytes s.key.value}:{toHex s.key.id}:{s.salt}"

def showStored : Option Stored → String
  | none => "-"
  | some d => s!"{d.dc}:{showBytes d.authKey}:{toHex d.authKeyID}:{d.salt}:{toHex d.addr.toUTF8.toList}"

def showMap (m : List (Int × Sess)) : String :=
  let sorted := (m.toArray.qsort (fun a b => a.1 < b.1)).toList
  if sorted.isEmpty then "-" else ",".intercalate (sorted.map fun e => showSess e.2)

def showRes : Res → String
  | .ok => "ok" | .errLoad => "err-load" | .errSave => "err-save"

def showSt (s : St) : String :=
  s!"sess={showSess s.session}|stored={showStored s.stored}|dcs={showMap s.dcSessions}|cdn={showMap s.cdnSessions}"

def parseStored (t : String) : Option Stored :=
  match t.splitOn "," with
  | [dc, k, i, salt, addr] => do
    pure ⟨← dc.toInt?, ← ofHex k, ← ofHex i, ← salt.toInt?, String.fromUTF8! ⟨(← ofHex addr).toArray⟩⟩
  | _ => none

def parseNotif (t : String) : Option Notif :=
  match t.splitOn "," with
  | [kind, dc, k, i, pk, pi, salt, f] => do
    let kind ← (if kind == "r" then some Kind.regular else if kind == "c" then some Kind.cdn
      else if kind == "m" then some Kind.migrate else none)
    let f ← (if f == "n" then some Fault.none else if f == "l" then some Fault.loadErr
      else if f == "s" then some Fault.saveErr else none)
    pure ⟨kind, ← dc.toInt?, ⟨← ofHex k, ← ofHex i⟩, ⟨← ofHex pk, ← ofHex pi⟩, ← salt.toInt?, f⟩
  | _ => none

/-- `N:r|c:<dc>:<serverDC>` / `E:<id>:<key>,<keyid>,<perm>,<permid>,<salt>` / `IB:<id>` / `IE:<id>` -/
def parseMAct (t : String) : Option MAct :=
  match t.splitOn ":" with
  | ["N", k, dc, sd] => do pure (.new (k == "c") (← dc.toInt?) (← sd.toInt?))
  | ["E", id, ev] =>
    match ev.splitOn "," with
    | [kv, ki, pv, pi, salt] => do
      pure (.ev (← id.toNat?) ⟨⟨← ofHex kv, ← ofHex ki⟩, ⟨← ofHex pv, ← ofHex pi⟩, ← salt.toInt?⟩)
    | _ => none
  | ["IB", id] => do pure (.initBegin (← id.toNat?))
  | ["IE", id] => do pure (.initEnd (← id.toNat?))
  | _ => none

def zeroKey : AuthKey := ⟨List.replicate 256 0, List.replicate 8 0⟩

def mkSt (hs : String) (dc : String) (stored : Option Stored) : Option St := do
  pure ⟨hs == "1", ⟨← dc.toInt?, zeroKey, 0⟩, stored, [], []⟩

def runShow (s : St) : List Notif → List String
  | [] => []
  | n :: ns => let r := stepI s n; (showRes r.2 ++ "|" ++ showSt r.1) :: runShow r.1 ns

/-- `S:<notif>` (an agent arrives) / `A:<i>` (agent `i` performs its next atomic step). -/
def parseAct (t : String) : Option Act :=
  if t.startsWith "S:" then (parseNotif (t.drop 2).toString).map Act.spawn
  else if t.startsWith "A:" then ((t.drop 2).toString.toNat?).map Act.adv
  else none

def handle (line : String) : String :=
  match words line with
  | "run" :: hs :: dc :: st :: ns =>
    let stored := if st == "-" then some none else (parseStored st).map some
    match stored, ns.mapM parseNotif with
    | some stored, some ns =>
      match mkSt hs dc stored with
      | some s => if ns.isEmpty then "-" else " ".intercalate (runShow s ns)
      | none => "bad-op"
    | _, _ => "bad-op"
  | "conc" :: hs :: dc :: st :: rest =>
    let ns := rest.takeWhile (· != "|")
    let obs := (rest.dropWhile (· != "|")).drop 1
    let stored := if st == "-" then some none else (parseStored st).map some
    match stored, ns.mapM parseNotif, obs with
    | some stored, some ns, [results, state, sessSalt, storedSalt] =>
      match mkSt hs dc stored with
      | some s =>
        let ts : List Thread := ns.map Thread.new
        -- the two salts are a cheap pre-filter (sent redundantly by the harness); the full state decides
        let goal := fun (s : St) (ts : List Thread) =>
          toString s.session.salt == sessSalt &&
          (match s.stored with
            | some d => toString d.salt == storedSalt
            | none => storedSalt == "-") &&
          showSt s == state && ",".intercalate (ts.map fun t => showRes t.res) == results
        if reach goal (6 * ts.length) s ts then "reachable" else "unreachable"
      | none => "bad-op"
    | _, _, _ => "bad-op"
  | "conns" :: hs :: dc :: st :: acts =>
    let stored := if st == "-" then some none else (parseStored st).map some
    match stored, acts.mapM parseMAct with
    | some stored, some acts =>
      match mkSt hs dc stored with
      | some s => showSt (mrun (s, []) acts).1
      | none => "bad-op"
    | _, _ => "bad-op"
  | "script" :: hs :: dc :: st :: acts =>
    let stored := if st == "-" then some none else (parseStored st).map some
    match stored, acts.mapM parseAct with
    | some stored, some acts =>
      match mkSt hs dc stored with
      | some s =>
        let c := crunI (cinit s) acts
        let rs := (List.range c.count).map fun i => match c.threads i with
          | some t => showRes t.res
          | none => "?"
        (if rs.isEmpty then "-" else ",".intercalate rs) ++ " " ++ showSt c.st
      | none => "bad-op"
    | _, _ => "bad-op"
  | ["restore", hs, dc, l] =>
    let lr : Option LoadRes :=
      if l == "nf" then some .notFound else if l == "err" then some .err else (parseStored l).map .data
    match lr, mkSt hs dc none with
    | some lr, some s =>
      match restoreI Prims.real s lr with
      | .ok s' => "ok " ++ showSess s'.session
      | .error .load => "err load"
      | .error .corrupted => "err corrupted"
    | _, _ => "bad-op"
  | _ => "bad-op"

def main : IO Unit := runDriver handle
