import TdModel.Model.C12
import TdModel.Util
open TdModel TdModel.C12

def optNat? (s : String) : Option (Option Nat) :=
  if s == "-" then some none else s.toNat?.map some

def showOpt : Option Nat → String
  | none => "never"
  | some t => toString t

def nats? (s : String) : Option (List Nat) :=
  if s == "-" then some [] else (s.splitOn ",").mapM String.toNat?

/-- `gap;skips;final`, e.g. `10;-;5`, `0;3,4;-` (`-` = none). -/
def parseBeh (w : String) : Option Beh :=
  match w.splitOn ";" with
  | [g, k, l] => do
    pure ⟨← g.toNat?, ← nats? k, ← optNat? l⟩
  | _ => none

def b01 (b : Bool) : String := if b then "1" else "0"

def handle (line : String) : String :=
  match words line with
  | ["steps"] => " ".intercalate (steps.map fun s => s!"{s.name}:{b01 s.recv}:{b01 s.timed}:{b01 s.inLoop}")
  | ["stall", k, start, t, d] =>
    match k.toNat?, start.toNat?, t.toNat?, optNat? d with
    | some k, some start, some t, some d =>
      match stallReturn steps k start t d with
      | none => "bad-step"
      | some r => showOpt r
    | _, _, _, _ => "bad-op"
  | "trace" :: t :: d :: now :: beh =>
    match t.toNat?, optNat? d, now.toNat?, beh.mapM parseBeh with
    | some t, some d, some now, some beh =>
      " ".intercalate ((runTrace t d (steps.zip beh) now).map fun e => s!"{e.start}:{showOpt e.stop}:{b01 e.ok}")
    | _, _, _, _ => "bad-op"
  | _ => "bad-op"

def main : IO Unit := runDriver handle
