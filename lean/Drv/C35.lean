import TdModel.Model.C35Proto
open TdModel

def main : IO Unit := runDriver Drv35.handle
