import TdModel.Model.C34
import TdModel.Prim.SHA256
import TdModel.Prim.AES
open TdModel TdModel.C34

def showPlanErr : PlanErr → String
  | .badLimit => "bad-limit" | .badOffset => "bad-offset" | .offsetUnaligned => "offset-unaligned"
  | .limitUnaligned => "limit-unaligned" | .unable => "unable"

def showVErr : VErr → String
  | .mismatch => "mismatch" | .noHash => "no-hash" | .badWindow => "bad-window" | .badLen => "bad-len"
  | .badOverlap => "bad-overlap" | .plan => "plan" | .stateLoop => "state-loop" | .tooLong => "too-long" | .beyondTail => "beyond-tail" | .truncatedSplit => "truncated-split" | .depth => "depth"

def showPlan (r : Except PlanErr (List Range)) : String :=
  match r with
  | .error e => "err " ++ showPlanErr e
  | .ok rs => "ok" ++ String.join (rs.map (fun r => s!" {r.offset}+{r.limit}"))

def parseNatList (s : String) : Option (List Nat) :=
  if s == "-" then some [] else (s.splitOn ",").mapM String.toNat?

structure Quirk where
  /-- the request at this offset is answered with `limit + delta` bytes -/
  atOff : Option (Nat × Int) := none
  /-- requests with exactly this limit are answered from the honest image -/
  honestLimit : Nat := 0

/-- `-` or `offset:delta`, optionally followed by a slash and the honest limit. -/
def parseQuirk (s : String) : Option Quirk :=
  match s.splitOn "/" with
  | [a] => parseAt a 0
  | [a, l] => do parseAt a (← l.toNat?)
  | _ => none
where
  parseAt (a : String) (hl : Nat) : Option Quirk :=
    if a == "-" then some { honestLimit := hl } else
      match a.splitOn ":" with
      | [o, d] => do pure { atOff := some (← o.toNat?, ← d.toInt?), honestLimit := hl }
      | _ => none

def serve (image honest : Bytes) (q : Quirk) (off limit : Nat) : Bytes :=
  if q.honestLimit ≠ 0 ∧ limit = q.honestLimit then (honest.drop off).take limit
  else
    let lim : Nat := match q.atOff with
      | some (o, d) => if o = off then ((limit : Int) + d).toNat else limit
      | none => limit
    (image.drop off).take lim

def hashService (tbl : List FileHash) (batch : Nat) (off : Nat) : List FileHash :=
  (tbl.filter (fun h => decide (h.offset + h.limit > off))).take batch

def showDOut (o : DOut) : String :=
  match o.err with
  | some e => "err " ++ showVErr e
  | none => if !o.done then "no-stop" else s!"ok len={o.data.length} sha={toHex (Prim.sha256 o.data)}"

def handle (line : String) : String :=
  match words line with
  | ["plan", off, lim] =>
    match off.toInt?, lim.toInt? with
    | some o, some l => showPlan (buildPlan o l)
    | _, _ => "bad-op"
  | ["largest", m] =>
    match m.toNat? with
    | some m => toString (largestValid m)
    | none => "bad-op"
  | ["dec", key, iv, off, src] =>
    match ofHex key, ofHex iv, off.toNat?, ofHex src with
    | some k, some iv, some o, some s => toHex (Prim.aesCtr k (ctrIV iv o) s)
    | _, _, _, _ => "bad-op"
  | ["chunk1", off, lim, key, iv, evs, image, master] =>
    -- one `cdn.Chunk` call on a fresh schema, with scripted control events per CDN request
    match off.toInt?, lim.toInt?, ofHex key, ofHex iv, ofHex image, ofHex master with
    | some o, some l, some key, some iv, some image, some md =>
      let ev? : Char → Option Ev := fun c =>
        if c == 's' then some .serve else if c == 'r' then some .reupload else if c == 't' then some .tokenInvalid
        else if c == 'm' then some .tokenInvalidFile else none
      match (if evs == "-" then some [] else evs.toList.mapM ev?) with
      | none => "bad-op"
      | some es =>
        let dec : Nat → Bytes → Bytes := fun off d => Prim.aesCtr key (ctrIV iv off) d
        match chunkFresh (fun a b => (image.drop a).take b) dec md o l es with
        | .ok d => s!"ok len={d.length} sha={toHex (Prim.sha256 d)}"
        | .error e => "err " ++ showVErr e
    | _, _, _, _, _, _ => "bad-op"
  | ["dl", mode, ps, batch, wins, key, iv, quirk, file, image] =>
    match ps.toNat?, batch.toNat?, parseNatList wins, ofHex key, ofHex iv, parseQuirk quirk, ofHex file, ofHex image with
    | some ps, some batch, some wins, some key, some iv, some quirk, some file, some image =>
      let sha := Prim.sha256
      let tbl := windowsOf sha 0 wins file
      let dec : Nat → Bytes → Bytes := fun off d => Prim.aesCtr key (ctrIV iv off) d
      let fuel := image.length / (if ps = 0 then 1 else ps) + file.length + 4
      -- the honest CDN image: the file encrypted with the counter of offset 0
      let honest := if mode == "C" then file else Prim.aesCtr key (ctrIV iv 0) file
      if mode == "A" then
        showDOut (streamChunks (chunkCDN sha (serve image honest quirk) dec (lookupIn tbl) true 3) ps fuel 0)
      else if mode == "B" then
        showDOut (hashedStream sha (hashService tbl batch) (chunkCDN sha (serve image honest quirk) dec (lookupIn tbl) false 3) fuel {})
      else if mode == "C" then
        showDOut (hashedStream sha (hashService tbl batch) (fun o l => .ok (serve image honest quirk o l)) fuel {})
      else "bad-op"
    | _, _, _, _, _, _, _, _ => "bad-op"
  | _ => "bad-op"

def main : IO Unit := runDriver handle
