import TdModel.Model.C02Drv
import TdModel.Model.C02
open TdModel

def main : IO Unit := runDriver (C02Core.mgrHandle C02.orders)
