import TdModel.Model.C21Schema
open TdModel TdModel.Bin TdModel.C21

/-- Fuel for a decode of `n` input bytes: every 4 input bytes can open at most one constructor,
whose field list is far shorter than 200 entries; `fuelOut` would surface as `err other:fuel`. -/
def fuelFor (n : Nat) : Nat := 200 * n + 4000

def firstBad (S : Schema) : String :=
  match S.ctors.toList.findIdx? (fun c => !c.ok) with
  | some i => s!"ctor {i}"
  | none =>
    match S.ifaces.toList.findIdx? (fun l => !idsDistinct S l) with
    | some i => s!"iface {i}"
    | none => "?"

def decOp (S : Schema) (ty : Ty) (h : String) : String :=
  match ofHex h with
  | none => "bad-op"
  | some b =>
    match decTy S (fuelFor b.length) TdModel.Facts.C21.maxNestingDepth ty b with
    | .error e => "err " ++ e.tag
    | .ok (v, rest) =>
      let consumed := b.take (b.length - rest.length)
      let re := match encTy S ty v with
        | some e => if e == consumed then "same" else "diff:" ++ toHex e
        | none => "unencodable"
      "ok " ++ showVal v ++ " " ++ toString rest.length ++ " " ++ re

def handle (S : Schema) (line : String) : String :=
  match words line with
  | ["wf"] =>
    if !S.wf then "bad " ++ firstBad S
    else if !S.extendsCore then "bad core-schema-differs"
    else s!"ok {S.ctors.size} {S.ifaces.size} core={coreSchema.ctors.size}/{coreSchema.ifaces.size} digest={S.digest}"
  | ["dec", t, h] =>
    -- `C12@34`: decode constructor 12 whose generic fields hold an object of constructor 34
    match t.splitOn "@" with
    | [t0] =>
      match parseTy t0 with
      | some ty => decOp S ty h
      | none => "bad-op"
    | [t0, g] =>
      match parseTy t0, g.toNat? with
      | some ty, some c => decOp { S with generic := some c } ty h
      | _, _ => "bad-op"
    | _ => "bad-op"
  | ["enc", t, sx] =>
    let (t0, S') := match t.splitOn "@" with
      | [a, g] => (a, match g.toNat? with | some c => { S with generic := some c } | none => S)
      | _ => (t, S)
    match parseTy t0, parseValue sx with
    | some ty, some v =>
      match encGo S' ty v with
      | some e => toHex e
      | none => "none"
    | _, _ => "bad-op"
  | ["cap", n] =>
    match n.toNat? with
    | some n => toString (vecCap n)
    | none => "bad-op"
  | _ => "bad-op"

def schemaFile : IO String := do
  match (← IO.getEnv "VERIF_C21_SCHEMA") with
  | some p => pure p
  | none =>
    -- <root>/lean/.lake/build/bin/drv_c21 → <root>/.build/C21.schema
    let app ← IO.appPath
    match app.parent >>= (·.parent) >>= (·.parent) >>= (·.parent) >>= (·.parent) with
    | some root => pure (root / ".build" / "C21.schema").toString
    | none => pure "/verif/.build/C21.schema"

def main : IO Unit := do
  let path ← schemaFile
  let S ← (do
    let text ← IO.FS.readFile path
    match parseSchema text with
    | .ok S => pure S
    | .error e =>
      IO.eprintln ("drv_c21: schema: " ++ e)
      pure { ctors := #[{ id := none, fields := [], bad := true }], ifaces := #[] }) <|>
    (do IO.eprintln ("drv_c21: cannot read " ++ path)
        pure { ctors := #[{ id := none, fields := [], bad := true }], ifaces := #[] })
  runDriver (handle S)
