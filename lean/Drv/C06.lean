import TdModel.Model.C06
import TdModel.Model.C06Bind
import TdModel.Prim.All
open TdModel TdModel.C06

def P : Prims := Prims.real

def side? : String → Option Side
  | "c" => some .client
  | "s" => some .server
  | _ => none

def pair (p : Bytes × Bytes) : String := toHex p.1 ++ " " ++ toHex p.2

/-- Every answer carries the value computed by the code-shaped `Impl` definition followed by the
value computed by the specification-shaped `Spec` definition. -/
def handle (line : String) : String :=
  match words line with
  | ["mk", s, ak, pt] => match side? s, ofHex ak, ofHex pt with
    | some s, some ak, some pt => toHex (Impl.msgKey P ak pt s) ++ " " ++ toHex (Spec.msgKey P ak pt s)
    | _, _, _ => "bad-op"
  | ["keys", s, ak, mk] => match side? s, ofHex ak, ofHex mk with
    | some s, some ak, some mk => pair (Impl.keys P ak mk s) ++ " " ++ pair (Spec.keys P ak mk s)
    | _, _, _ => "bad-op"
  | ["mkv1", pt] => match ofHex pt with
    | some pt => toHex (Impl.msgKeyV1 P pt) ++ " " ++ toHex (Spec.msgKeyV1 P pt)
    | _ => "bad-op"
  | ["keysv1", ak, mk] => match ofHex ak, ofHex mk with
    | some ak, some mk => pair (Impl.keysV1 P ak mk) ++ " " ++ pair (Spec.keysV1 P ak mk)
    | _, _ => "bad-op"
  | ["oldkeys", s, ak, mk] => match side? s, ofHex ak, ofHex mk with
    | some s, some ak, some mk => pair (Impl.oldKeys P ak mk s) ++ " " ++ pair (Spec.oldKeys P ak mk s)
    | _, _, _ => "bad-op"
  | ["bind", rnd, pk, kid, mid, n, t, p, s, e] =>
    match ofHex rnd, ofHex pk, ofHex kid, [mid, n, t, p, s, e].mapM String.toNat? with
    | some rnd, some pk, some kid, some [mid, n, t, p, s, e] =>
      match encryptBind P rnd pk kid mid ⟨n, t, p, s, e⟩ with
      | .ok c => toHex c
      | .error .zeroKey => "err zero-key"
      | .error .rand => "err rand"
    | _, _, _, _ => "bad-op"
  | ["unbind", pk, kid, c] => match ofHex pk, ofHex kid, ofHex c with
    | some pk, some kid, some c =>
      match Spec.decryptBind P pk kid c with
      | some (mid, i) => s!"ok {mid} {i.nonce} {i.tempAuthKeyID} {i.permAuthKeyID} {i.tempSessionID} {i.expiresAt}"
      | none => "rejected"
    | _, _, _ => "bad-op"
  | _ => "bad-op"

def main : IO Unit := runDriver handle
