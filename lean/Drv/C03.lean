import TdModel.Model.C02Drv
import TdModel.Model.C03
open TdModel

def main : IO Unit := runDriver (C02Core.mgrHandle C03.orders)
