import TdModel.Model.C39
open TdModel TdModel.C39

def parseNats (s : String) : Option (List Nat) :=
  if s == "-" then some [] else (s.splitOn ",").mapM String.toNat?

def parseKind (c : Char) : Option Kind :=
  if c == 'f' then some .full else if c == 's' then some .slice else if c == 'c' then some .channel else none

def parseKinds (s : String) : Option (List Kind) :=
  if s == "-" then some [] else s.toList.mapM parseKind

def showNats (l : List Nat) : String :=
  if l.isEmpty then "-" else ",".intercalate (l.map toString)

def showOut (o : Out) : String :=
  let rs := o.reqs.map (fun (a, b) => s!"{a}:{b}")
  s!"y={showNats o.yields} r={if rs.isEmpty then "-" else ",".intercalate rs} done={if o.done then 1 else 0}"

def parsePage (s : String) : Option (Kind × List Nat) :=
  match s.splitOn ":" with
  | [k, ids] => do
    let k ← match k.toList with
      | [c] => parseKind c
      | _ => none
    pure (k, ← parseNats ids)
  | _ => none

def parseDlg (s : String) : Option Dlg :=
  match (s.splitOn ":").mapM String.toNat? with
  | some [d, t, p] => some ⟨d, t, p⟩
  | _ => none

def parseDlgs (s : String) : Option (List Dlg) :=
  if s == "-" then some [] else (s.splitOn ",").mapM parseDlg

def showDlg (d : Dlg) : String := s!"{d.date}:{d.top}:{d.peer}"

def showDOut (o : DOut) : String :=
  let ys := o.yields.map showDlg
  let rs := o.reqs.map (fun (d, l) => s!"{showDlg d}:{l}")
  s!"y={if ys.isEmpty then "-" else ",".intercalate ys} r={if rs.isEmpty then "-" else ",".intercalate rs} done={if o.done then 1 else 0} err={if o.err then 1 else 0}"

def handle (line : String) : String :=
  match words line with
  | ["msg", limit, fuel, kinds, ids, empties] =>
    match limit.toNat?, fuel.toNat?, parseKinds kinds, parseNats ids, parseNats empties with
    | some l, some f, some ks, some h, some es => showOut (run h f ks { Iter.init l with emptyIds := es })
    | _, _, _, _, _ => "bad-op"
  | ["script", limit, fuel, pages, empties] =>
    match limit.toNat?, fuel.toNat?, (if pages == "-" then some [] else (pages.splitOn ";").mapM parsePage), parseNats empties with
    | some l, some f, some ps, some es => showOut (runS (scriptServer ps) f 0 { Iter.init l with emptyIds := es })
    | _, _, _, _ => "bad-op"
  | ["off", which, limit, cap, fuel, kinds, n] =>
    -- offset-based iterators: items 1..n in server order
    match limit.toNat?, cap.toNat?, fuel.toNat?, parseKinds kinds, n.toNat? with
    | some l, some cap, some f, some ks, some n =>
      let rules : Option (Nat × Nat) :=
        if which == "blocked" then some (Facts.C39.blockedFull, Facts.C39.blockedSlice)
        else if which == "photos" then some (Facts.C39.photosFull, Facts.C39.photosSlice)
        else if which == "participants" then some (0, Facts.C39.participantsRule)
        else if which == "featured" then some (0, Facts.C39.featuredRule) else none
      match rules with
      | none => "bad-op"
      | some (cf, cs) =>
        let o := orunS (offServer ((List.range n).map (· + 1)) ks cf cs cap) f 0 (OIter.init l)
        let rs := o.reqs.map (fun (a, b) => s!"{a}:{b}")
        s!"y={showNats o.yields} r={if rs.isEmpty then "-" else ",".intercalate rs} done={if o.done then 1 else 0}"
    | _, _, _, _, _ => "bad-op"
  | ["dlg", limit, cap, fuel, kinds, ds, noent] =>
    match limit.toNat?, cap.toNat?, fuel.toNat?, parseKinds kinds, parseDlgs ds, parseNats noent with
    | some l, some cap, some f, some ks, some d, some ne =>
      showDOut (drun d f ks cap { DIter.init l with noEntity := ne })
    | _, _, _, _, _, _ => "bad-op"
  | _ => "bad-op"

def main : IO Unit := runDriver handle
