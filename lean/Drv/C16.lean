import TdModel.Model.C16
import TdModel.Prim.CRC32
open TdModel TdModel.Codec

/-- `hash/crc32.ChecksumIEEE`: the executable primitive of `TdModel/Prim` (the harness also
re-validates it against Go through the `crc` op on every run). -/
def crc32 (bs : Bytes) : Nat := TdModel.Prim.crc32 bs

def cfg := TdModel.C16.cfg

def showItem : Item → String
  | .frame p => "f:" ++ toHex p
  | .code c => s!"c:{c}"

/-- `t:hex,t:hex,…` → per-sender payload lists (in the order given). -/
def parsePayloads (s : String) : Option (Nat → List Bytes) := do
  let items ← (s.splitOn ",").mapM fun w =>
    match w.splitOn ":" with
    | [t, h] => do pure ((← t.toNat?), (← ofHex h))
    | _ => none
  pure fun t => (items.filter (·.1 == t)).map (·.2)

def parseAct (w : String) : Option TdModel.C16.SAct :=
  match w.toList with
  | 'a' :: r => (String.ofList r).toNat?.map .acquire
  | 'r' :: r => (String.ofList r).toNat?.map .release
  | 'w' :: r =>
    match (String.ofList r).splitOn ":" with
    | [t, n] => do pure (.write (← t.toNat?) (← n.toNat?))
    | _ => none
  | _ => none

def handle (line : String) : String :=
  match words line with
  | ["send", k, seq, payloads, rnds, acts] =>
    match Kind.ofTag k, seq.toInt?, parsePayloads payloads, (rnds.splitOn ",").mapM ofHex, (acts.splitOn ",").mapM parseAct with
    | some k, some seq, some pend, some rnds, some acts =>
      match TdModel.C16.srun cfg crc32 k (fun i => rnds.getD i []) (TdModel.C16.sinit seq pend) acts with
      | none => "disabled"
      | some s =>
        if s.cur.isSome then "frame-incomplete"
        else "ok " ++ toHex s.wire ++ " " ++ ",".intercalate (s.log.map (toString ·.1))
    | _, _, _, _, _ => "bad-op"
  | ["enc", k, seq, rnd, p] =>
    match Kind.ofTag k, seq.toInt?, ofHex rnd, ofHex p with
    | some k, some seq, some rnd, some p =>
      match enc cfg crc32 k seq rnd p with
      | .ok b => "ok " ++ toHex b
      | .error e => "err " ++ e.tag
    | _, _, _, _ => "bad-op"
  | ["decall", k, seq, h] =>
    match Kind.ofTag k, seq.toInt?, ofHex h with
    | some k, some seq, some s =>
      let (items, e) := decAll cfg crc32 k (s.length + 1) seq s
      " ".intercalate (items.map showItem) ++ " end:" ++ (match e with | none => "none" | some e => e.tag)
    | _, _, _ => "bad-op"
  | ["head", k, seq, rnd, len, last] =>
    match Kind.ofTag k, seq.toInt?, ofHex rnd, len.toNat?, last.toNat? with
    | some k, some seq, some rnd, some len, some last =>
      let l := UInt8.ofNat last
      toHex (encHead cfg k seq len l) ++ " " ++ (if k = .full then "-" else toHex (encTail cfg crc32 k rnd [] l))
    | _, _, _, _, _ => "bad-op"
  | ["bigrt", k, seq, rnd, len, seed, last] =>
    -- a large frame described by a generator (byte i = seed + i + i/256, last byte given): the model
    -- writes it, reads it back, and answers with lengths and CRC-32s instead of hex
    match Kind.ofTag k, seq.toInt?, ofHex rnd, len.toNat?, seed.toNat?, last.toNat? with
    | some k, some seq, some rnd, some len, some seed, some last =>
      let p : Bytes := ((List.range (len - 1)).map fun i => UInt8.ofNat ((seed + i + i / 256) % 256)) ++ [UInt8.ofNat last]
      match enc cfg crc32 k seq rnd p with
      | .error e => "err " ++ e.tag
      | .ok wire =>
        let back := match (read cfg crc32 k seq (wire ++ [0xaa])).out with
          | .ok f rest => s!"ok {f.length} {crc32 f} {rest.length}"
          | .err e => "err " ++ e.tag
          | .panic _ => "panic"
        s!"{wire.length} {crc32 wire} | {back}"
    | _, _, _, _, _, _ => "bad-op"
  | ["session", k, seq, ops] =>
    -- ops: `rnd:payload,…` with payload `-` (empty), hex, or `z<n>` (n zero bytes)
    let parseP (w : String) : Option Bytes :=
      match w.toList with
      | 'z' :: r => (String.ofList r).toNat?.map fun n => List.replicate n 0
      | _ => ofHex w
    let parseOp (w : String) : Option (Bytes × Bytes) :=
      match w.splitOn ":" with
      | [r, p] => do pure ((← ofHex r), (← parseP p))
      | _ => none
    match Kind.ofTag k, seq.toInt?, (ops.splitOn ",").mapM parseOp with
    | some k, some seq, some ops =>
      let (outs, fin) := writeSession cfg crc32 k seq ops
      let show1 (o : Except WErr Bytes) : String := match o with
        | .ok b => "ok:" ++ toHex b
        | .error e => "err:" ++ e.tag
      -- only the full protocol has a counter
      ",".intercalate (outs.map show1) ++ (if k = .full then s!" seq={fin}" else "")
    | _, _, _ => "bad-op"
  | ["read", k, seq, h] =>
    match Kind.ofTag k, seq.toInt?, ofHex h with
    | some k, some seq, some s =>
      match (read cfg crc32 k seq s).out with
      | .ok f rest => s!"ok {toHex f} {rest.length}"
      | .err e => "err " ++ e.tag
      | .panic _ => "panic"
    | _, _, _ => "bad-op"
  | ["rdhdr", k, h] =>
    match Kind.ofTag k, ofHex h with
    | some k, some s => match readHeader cfg k s with
      | .ok rest => s!"ok {rest.length}"
      | .error e => "err " ++ e.tag
    | _, _ => "bad-op"
  | ["detect", h] =>
    match ofHex h with
    | some s => match detect cfg s with
      | .ok (k, rest) => s!"{k.tag} {rest.length}"
      | .error e => "err " ++ e.tag
    | none => "bad-op"
  | ["crc", h] => match ofHex h with
    | some s => toString (crc32 s)
    | none => "bad-op"
  | _ => "bad-op"

def main : IO Unit := runDriver handle
