import TdModel.Model.C16
open TdModel TdModel.Codec

/-- CRC-32 (IEEE, reflected 0xEDB88320), bit-at-a-time; driver-only stand-in for
`hash/crc32.ChecksumIEEE` (validated against Go by the harness through the `crc` op). -/
def crcByte (c : UInt32) (b : UInt8) : UInt32 := Id.run do
  let mut x := c ^^^ b.toUInt32
  for _ in [0:8] do
    x := if x &&& 1 == 1 then (x >>> 1) ^^^ 0xEDB88320 else x >>> 1
  return x

def crc32 (bs : Bytes) : Nat :=
  ((bs.foldl crcByte 0xFFFFFFFF) ^^^ 0xFFFFFFFF).toNat

def cfg := TdModel.C16.cfg

def showItem : Item → String
  | .frame p => "f:" ++ toHex p
  | .code c => s!"c:{c}"

def handle (line : String) : String :=
  match words line with
  | ["enc", k, seq, rnd, p] =>
    match Kind.ofTag k, seq.toInt?, ofHex rnd, ofHex p with
    | some k, some seq, some rnd, some p =>
      match enc cfg crc32 k seq rnd p with
      | .ok b => "ok " ++ toHex b
      | .error e => "err " ++ e.tag
    | _, _, _, _ => "bad-op"
  | ["decall", k, seq, h] =>
    match Kind.ofTag k, seq.toInt?, ofHex h with
    | some k, some seq, some s =>
      let (items, e) := decAll cfg crc32 k (s.length + 1) seq s
      " ".intercalate (items.map showItem) ++ " end:" ++ (match e with | none => "none" | some e => e.tag)
    | _, _, _ => "bad-op"
  | ["head", k, seq, rnd, len, last] =>
    match Kind.ofTag k, seq.toInt?, ofHex rnd, len.toNat?, last.toNat? with
    | some k, some seq, some rnd, some len, some last =>
      let l := UInt8.ofNat last
      toHex (encHead cfg k seq len l) ++ " " ++ (if k = .full then "-" else toHex (encTail crc32 k rnd [] l))
    | _, _, _, _, _ => "bad-op"
  | ["detect", h] =>
    match ofHex h with
    | some s => match detect cfg s with
      | .ok (k, rest) => s!"{k.tag} {rest.length}"
      | .error e => "err " ++ e.tag
    | none => "bad-op"
  | ["crc", h] => match ofHex h with
    | some s => toString (crc32 s)
    | none => "bad-op"
  | _ => "bad-op"

def main : IO Unit := runDriver handle
