import TdModel.Model.C29
import TdModel.Util
open TdModel TdModel.C29

def parseAct (w : String) : Option Action :=
  match w.splitOn ":" with
  | ["kill"] => some .kill
  | ["killw"] => some .killw
  | ["init"] => some .init
  | ["bind", r] => r.toNat?.map .bind
  | ["reconnect"] => some .reconnect
  | ["close"] => some .close
  | ["inv", r] => r.toNat?.map .inv
  | ["seen", r] => r.toNat?.map .seen
  | ["fail", r] => r.toNat?.map .fail
  | ["retOk", r] => r.toNat?.map .retOk
  | ["retErr", r] => r.toNat?.map .retErr
  | ["sendFail", r] => r.toNat?.map .sendFail
  | ["arr", r, k] => do some (.arr (← r.toNat?) (← k.toNat?))
  | ["ack", r, k] => do some (.ack (← r.toNat?) (← k.toNat?))
  | ["res", r, k] => do some (.res (← r.toNat?) (← k.toNat?))
  | ["rd", r, k] => do some (.rd (← r.toNat?) (← k.toNat?))
  | _ => none

def showPhase (q : Req) : String :=
  match q.phase with
  | .doneOk => "K" | .doneErr => "E" | _ => "-"

def insertStr (e : String) : List String → List String
  | [] => [e]
  | x :: xs => if e ≤ x then e :: x :: xs else x :: insertStr e xs

def b01 (b : Bool) : String := if b then "1" else "0"

/-- `c29 <n> <actions…>` -/
def handle (line : String) : String :=
  match words line with
  | "c29" :: n :: acts =>
    match n.toNat?, acts.mapM parseAct with
    | some n, some as =>
      match runIdx cfgOfSource (init n) 0 as with
      | .ok s =>
        let arr := (s.arrivals.map (fun a => s!"{a.1}:{a.2}")).foldr insertStr []
        s!"ok res={String.join (s.reqs.map showPhase)} arr={",".intercalate arr} holds={b01 (holdsB s)}"
      | .error k => s!"notenabled {k}"
    | _, _ => "bad-op"
  | _ => "bad-op"

def main : IO Unit := runDriver handle
