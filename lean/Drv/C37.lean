import TdModel.Model.C35Proto
import TdModel.Model.C37
import TdModel.Model.C37Unescape
open TdModel

/-- The C37 driver replays recorded builder calls through the C35 builder model (`run …`),
evaluates the monitor (`holds …`) — same protocol as drv_c35 — and runs the `telegramUnescape`
model (`unesc <hex>` → hex, or `panic`). -/
def handle (line : String) : String :=
  match words line with
  | ["unesc", h] => match ofHex h with
    | some b => match C37U.telegramUnescape b with
      | some out => toHex out
      | none => "panic"
    | none => "bad-op"
  | _ => Drv35.handle line

def main : IO Unit := runDriver handle
