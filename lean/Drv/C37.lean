import TdModel.Model.C35Proto
import TdModel.Model.C37
import TdModel.Model.C37Unescape
import TdModel.Model.C37Html
open TdModel

/-- The C37 driver replays recorded builder calls through the C35 builder model (`run …`),
evaluates the monitor (`holds …`) — same protocol as drv_c35 — and runs the `telegramUnescape`
model (`unesc <hex>` → hex, or `panic`). -/
def tagOfHex (h : String) : Option String := do
  let b ← ofHex h
  pure (String.ofList (b.map fun x => Char.ofNat x.toNat))

def parseHTok (s : String) : Option C37H.HTok :=
  match s.splitOn ":" with
  | ["X", t] => do pure (.text (← Drv35.parseText t))
  | ["S", h] => do pure (.start (← tagOfHex h))
  | ["E", h] => do pure (.stop (← tagOfHex h))
  | ["C"] => some .stopAny
  | _ => none

def handle (line : String) : String :=
  match words line with
  | "htmltoks" :: toks => match toks.mapM parseHTok with
    | some ts => match C37H.htmlResult ts with
      | some r => Drv35.showText r.1 ++ " " ++ Drv35.showEnts r.2
      | none => "err"
    | none => "bad-op"
  | ["unesc", h] => match ofHex h with
    | some b => match C37U.telegramUnescape b with
      | some out => toHex out
      | none => "panic"
    | none => "bad-op"
  | _ => Drv35.handle line

def main : IO Unit := runDriver handle
