import TdModel.Model.C35Proto
import TdModel.Model.C37
open TdModel

/-- The C37 driver replays recorded builder calls through the C35 builder model (`run …`) and
evaluates the monitor (`holds …`): same protocol as drv_c35. -/
def main : IO Unit := runDriver Drv35.handle
