import TdModel.Model.C27
import TdModel.Model.C27Drv
open TdModel

def main : IO Unit := runDriver (TdModel.C27.handleWith TdModel.C27.cfgOfSource)
