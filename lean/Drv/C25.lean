import TdModel.Model.C24Replay
import TdModel.Gen.C25
open TdModel TdModel.Rpc

/-- One request line = one whole observed trace; the repairs' presence comes from the regenerated facts. -/
def handle (line : String) : String :=
  match words line with
  | "replay" :: _ => handleReplay Facts.C25.guardPresent Facts.C25.recheckPresent line
  | _ => "bad-op"

def main : IO Unit := runDriver handle
