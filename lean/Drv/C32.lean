import TdModel.Model.C32
import TdModel.Prim.MD5
open TdModel TdModel.C32

def parseResp (c : Char) : Option Resp :=
  if c == 'o' then some .ok else if c == 'n' then some .no else if c == 'f' then some .flood
  else if c == 'e' then some .err else none

/-- `-` or `i:chars,j:chars`. -/
def parseScript (s : String) : Option (List (Nat × List Resp)) :=
  if s == "-" then some [] else
    (s.splitOn ",").mapM fun e =>
      match e.splitOn ":" with
      | [i, cs] => do pure (← i.toNat?, ← cs.toList.mapM parseResp)
      | _ => none

def scriptFn (l : List (Nat × List Resp)) (i : Nat) : List Resp :=
  match l.find? (fun e => e.1 == i) with
  | some e => e.2
  | none => []

def parseCfg (decl ps : String) : Option Cfg := do
  let d ← decl.toInt?
  if ps == "auto" then pure { declared := d, explicitPs := none }
  else pure { declared := d, explicitPs := some (← ps.toNat?) }

def showOutcome : Outcome → String
  | .error .invalidPartSize => "error invalid-part-size"
  | .error .tooManyParts => "error too-many-parts"
  | .error .rpc => "error rpc"
  | .file big parts md5 => s!"file big={if big then 1 else 0} parts={parts} md5={match md5 with | some d => toHex d | none => "none"}"

def showReq {α} (pl : α → String) (r : Req α) : String :=
  s!"{r.part}:{r.total}:{if r.orUnknown then 1 else 0}:{r.attempts}:{if r.saved then 1 else 0}:{pl r.payload}"

def showRun {α} (pl : α → String) (r : Run α) : String :=
  showOutcome r.outcome ++ " |" ++ String.join (r.reqs.map (fun q => " " ++ showReq pl q))

def handle (line : String) : String :=
  match words line with
  | ["plan", decl, ps, n, script, digest] =>
    match parseCfg decl ps, n.toNat?, parseScript script, ofHex digest with
    | some c, some n, some sc, some dg =>
      showRun (fun (p : Nat × Nat) => s!"{p.1}+{p.2}") (uploadPlan c (scriptFn sc) n dg)
    | _, _, _, _ => "bad-op"
  | ["up", decl, ps, script, src] =>
    match parseCfg decl ps, parseScript script, ofHex src with
    | some c, some sc, some src => showRun toHex (upload Prim.md5 c (scriptFn sc) src)
    | _, _, _ => "bad-op"
  | ["psize", total] =>
    match total.toInt? with
    | some t => s!"{Facts.C32.computePartSize t} {Facts.C32.computeParts (Facts.C32.computePartSize t) t}"
    | none => "bad-op"
  | ["parts", ps, total] =>
    match ps.toInt?, total.toInt? with
    | some p, some t => s!"{Facts.C32.computeParts p t}"
    | _, _ => "bad-op"
  | ["check", ps] =>
    match ps.toInt? with
    | some p => if Facts.C32.checkPartSize p then "err" else "ok"
    | none => "bad-op"
  | _ => "bad-op"

def main : IO Unit := runDriver handle
