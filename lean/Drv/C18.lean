import TdModel.Model.C18
import TdModel.Prim.AES
import TdModel.Prim.SHA256
open TdModel TdModel.C18

/-- The real primitives: AES-256-CTR (Go `cipher.NewCTR`) and SHA-256. -/
def X : Cipher := fun key iv off data => Prim.aesCtrAt key iv off data
def sha : Bytes → Bytes := Prim.sha256

def parseList (s : String) : Option (List Bytes) :=
  if s == "-" then some [] else (s.splitOn ",").mapM ofHex

def handle (line : String) : String :=
  match words line with
  | ["hs", tape, tag, dc, secret] =>
    match ofHex tape, ofHex tag, dc.toInt?, ofHex secret with
    | some tape, some tag, some dc, some secret =>
      match handshake X sha tape tag dc secret with
      | .error e => "err " ++ e.tag
      | .ok (header, _) =>
        match accept X sha header secret with
        | .error e => "err accept-" ++ e.tag
        | .ok (m, _) => s!"ok {toHex header} {toHex m.protocol} {m.dc}"
    | _, _, _, _ => "bad-op"
  | ["data", tape, tag, dc, secret, c2s, upChunks, s2c, downChunks, eofLast] =>
    match ofHex tape, ofHex tag, dc.toInt?, ofHex secret, parseList c2s, parseList upChunks, parseList s2c, parseList downChunks with
    | some tape, some tag, some dc, some secret, some c2s, some upChunks, some s2c, some downChunks =>
      match handshake X sha tape tag dc secret with
      | .error e => "err " ++ e.tag
      | .ok (header, ck) =>
        match accept X sha header secret with
        | .error e => "err accept-" ++ e.tag
        | .ok (_, sk) =>
          let (wireUp, _) := writeAll X ck.encrypt c2s
          let e := eofLast == "true"
          let (gotUp, _) := readAllE X e sk.decrypt upChunks
          let (wireDown, _) := writeAll X sk.encrypt s2c
          let (gotDown, _) := readAllE X e ck.decrypt downChunks
          s!"{toHex wireUp} {toHex gotUp} {toHex wireDown} {toHex gotDown}"
    | _, _, _, _, _, _, _, _ => "bad-op"
  | _ => "bad-op"

def main : IO Unit := runDriver handle
