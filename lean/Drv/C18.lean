import TdModel.Model.C18
import TdModel.Prim.AES
import TdModel.Prim.SHA256
open TdModel TdModel.C18

/-- The real primitives: AES-256-CTR (Go `cipher.NewCTR`) and SHA-256. -/
def X : Cipher := fun key iv off data => Prim.aesCtrAt key iv off data
def sha : Bytes → Bytes := Prim.sha256

def parseList (s : String) : Option (List Bytes) :=
  if s == "-" then some [] else (s.splitOn ",").mapM ofHex

/-- Chunks as the connection delivers them: `hex` or `hext` (delivered together with a non-EOF
error); with `eofLast` the last one comes with `io.EOF`. -/
def parseChunks (s : String) (eofLast : Bool) : Option (List (Bytes × RdErr)) :=
  if s == "-" then some [] else do
    let items ← (s.splitOn ",").mapM fun w =>
      if w.endsWith "t" then (ofHex (w.dropEnd 1).toString).map fun b => (b, RdErr.other)
      else (ofHex w).map fun b => (b, RdErr.none)
    let n := items.length
    pure ((items.zipIdx).map fun (x, i) => if eofLast && i + 1 == n then (x.1, RdErr.eof) else x)  -- io.EOF wins on the last chunk (as in the harness's reader)

def handle (line : String) : String :=
  match words line with
  | ["hs", tape, tag, dc, secret] =>
    match ofHex tape, ofHex tag, dc.toInt?, ofHex secret with
    | some tape, some tag, some dc, some secret =>
      match handshake X sha tape tag dc secret with
      | .error e => "err " ++ e.tag
      | .ok (header, _) =>
        match accept X sha header secret with
        | .error e => "err accept-" ++ e.tag
        | .ok (m, _) => s!"ok {toHex header} {toHex m.protocol} {m.dc}"
    | _, _, _, _ => "bad-op"
  | ["data", tape, tag, dc, secret, c2s, upChunks, s2c, downChunks, eofLast] =>
    let e := eofLast == "true"
    match ofHex tape, ofHex tag, dc.toInt?, ofHex secret, parseList c2s, parseChunks upChunks e, parseList s2c, parseChunks downChunks e with
    | some tape, some tag, some dc, some secret, some c2s, some upChunks, some s2c, some downChunks =>
      match handshake X sha tape tag dc secret with
      | .error e => "err " ++ e.tag
      | .ok (header, ck) =>
        match accept X sha header secret with
        | .error e => "err accept-" ++ e.tag
        | .ok (_, sk) =>
          let (wireUp, _) := writeAll X ck.encrypt c2s
          let (gotUp, _) := readAllE X sk.decrypt upChunks
          let (wireDown, _) := writeAll X sk.encrypt s2c
          let (gotDown, _) := readAllE X ck.decrypt downChunks
          s!"{toHex wireUp} {toHex gotUp} {toHex wireDown} {toHex gotDown}"
    | _, _, _, _, _, _, _, _ => "bad-op"
  | _ => "bad-op"

def main : IO Unit := runDriver handle
