import TdModel.Model.C04
import TdModel.Model.C04Gzip
import TdModel.Prim.All
open TdModel TdModel.C04 TdModel.C06

def P : Prims := Prims.real

def side? : String → Option Side
  | "c" => some .client
  | "s" => some .server
  | _ => none

def handle (line : String) : String :=
  match words line with
  | ["pad", l, r] => match l.toNat?, r.toNat? with
    | some l, some r => toString (countPadding l (UInt8.ofNat r))
    | _, _ => "bad-op"
  | ["enc", s, ak, kid, salt, sid, mid, seq, len, body, rnd] =>
    match side? s, ofHex ak, ofHex kid, [salt, sid, mid, seq, len].mapM String.toNat?, ofHex body, ofHex rnd with
    | some s, some ak, some kid, some [salt, sid, mid, seq, len], some body, some rnd =>
      match encryptData P s ak kid salt sid mid seq len body rnd with
      | .ok c => "ok " ++ toHex c
      | .error e => "err " ++ e.tag
    | _, _, _, _, _, _ => "bad-op"
  | ["encm", s, ak, kid, salt, sid, mid, seq, body, rnd] =>
    match side? s, ofHex ak, ofHex kid, [salt, sid, mid, seq].mapM String.toNat?, ofHex body, ofHex rnd with
    | some s, some ak, some kid, some [salt, sid, mid, seq], some body, some rnd =>
      match encryptMessage P s ak kid salt sid mid seq body rnd with
      | .ok c => "ok " ++ toHex c
      | .error e => "err " ++ e.tag
    | _, _, _, _, _, _ => "bad-op"
  | ["newmsg", s, ak, kid, opt, salt, sid, mid, seq, payload, gzOut, rnd] =>
    match side? s, ofHex ak, ofHex kid, opt.toInt?, [salt, sid, mid, seq].mapM String.toNat?, ofHex payload,
        ofHex gzOut, ofHex rnd with
    | some s, some ak, some kid, some opt, some [salt, sid, mid, seq], some payload, some gzOut, some rnd =>
      -- compression is a parameter of the model: the harness supplies what gzip produced for this payload
      let G : Gz := { gz := fun _ => gzOut, gunz := fun _ => none }
      let path := match choosePath (effectiveThreshold opt) payload.length with
        | .message => "message" | .gzip => "gzip" | .raw => "raw"
      match newEncryptedMessage P G s ak kid opt salt sid mid seq payload rnd with
      | .ok c => "ok " ++ path ++ " " ++ toHex c
      | .error e => "err " ++ e.tag
    | _, _, _, _, _, _, _, _ => "bad-op"
  | ["decdata", pt] => match ofHex pt with
    | some pt =>
      match decodeData pt with
      | .ok d => s!"ok {d.salt} {d.sid} {d.mid} {d.seq} {d.len} {toHex d.body} data={toHex d.payload}"
      | .error e => "err " ++ e.tag
    | none => "bad-op"
  | ["dec", s, ak, kid, c] =>
    match side? s, ofHex ak, ofHex kid, ofHex c with
    | some s, some ak, some kid, some c =>
      match decrypt P s ak kid c with
      | .ok d => s!"ok {d.salt} {d.sid} {d.mid} {d.seq} {d.len} {toHex d.body}"
      | .error e => "err " ++ e.tag
    | _, _, _, _ => "bad-op"
  | _ => "bad-op"

def main : IO Unit := runDriver handle
