/-
Driver of the executable primitive library: `harness/prim` compares every answer with Go's
standard library (tools/prim_selftest.sh).  `drv_prim bench` prints measured throughput.
-/
import TdModel.Prim.All
open TdModel TdModel.Prim

/-- Iterative hex decoder (inputs here reach several MiB); same language as `TdModel.ofHex`. -/
def ofHexFast (s : String) : Option Bytes :=
  if s == "-" then some [] else
  let u := s.toUTF8
  if u.size % 2 != 0 then none else Id.run do
    let nib (c : UInt8) : UInt8 :=
      if 48 ≤ c && c ≤ 57 then c - 48
      else if 97 ≤ c && c ≤ 102 then c - 87
      else if 65 ≤ c && c ≤ 70 then c - 55
      else 255
    let mut out := ByteArray.emptyWithCapacity (u.size / 2)
    for i in [0:u.size / 2] do
      let a := nib (u.get! (2*i))
      let b := nib (u.get! (2*i + 1))
      if a == 255 || b == 255 then return none
      out := out.push (a * 16 + b)
    return some out.toList

def hex1 (f : Bytes → String) (a : String) : String :=
  match ofHexFast a with
  | some x => f x
  | none => "bad-op"

def hex2 (f : Bytes → Bytes → String) (a b : String) : String :=
  match ofHexFast a, ofHexFast b with
  | some x, some y => f x y
  | _, _ => "bad-op"

def handle (line : String) : String :=
  match words line with
  | ["sha256", a] => hex1 (fun x => toHex (Prims.real.sha256 x)) a
  | ["sha1", a] => hex1 (fun x => toHex (Prims.real.sha1 x)) a
  | ["aesenc", k, b] => hex2 (fun k b => toHex (Prims.real.aesEnc k b)) k b
  | ["aesdec", k, b] => hex2 (fun k b => toHex (Prims.real.aesDec k b)) k b
  | ["aesctr", k, iv, skip, d] =>
    match ofHexFast k, ofHexFast iv, skip.toNat?, ofHexFast d with
    | some k, some iv, some skip, some d =>
      -- skip = 0 goes through `aesCtr` so that both exported entry points are exercised
      toHex (if skip == 0 then aesCtr k iv d else aesCtrAt k iv skip d)
    | _, _, _, _ => "bad-op"
  | ["hmac256", k, m] => hex2 (fun k m => toHex (hmacSha256 k m)) k m
  | ["sha512", a] => hex1 (fun x => toHex (sha512 x)) a
  | ["hmac512", k, m] => hex2 (fun k m => toHex (hmacSha512 k m)) k m
  | ["pbkdf2", pw, salt, iters, dk] =>
    match ofHexFast pw, ofHexFast salt, iters.toNat?, dk.toNat? with
    | some pw, some salt, some iters, some dk => toHex (pbkdf2Sha512 pw salt iters dk)
    | _, _, _, _ => "bad-op"
  | ["md5", a] => hex1 (fun x => toHex (md5 x)) a
  | ["crc32", a] => hex1 (fun x => toString (crc32 x)) a
  | ["modpow", b, e, m] =>
    match b.toNat?, e.toNat?, m.toNat? with
    | some b, some e, some m => toString (modPow b e m)
    | _, _, _ => "bad-op"
  | ["natofbe", a] => hex1 (fun x => toString (natOfBE x)) a
  | ["nattobe", len, n] =>
    match len.toNat?, n.toNat? with
    | some len, some n => toHex (natToBE len n)
    | _, _ => "bad-op"
  | ["nattobemin", n] =>
    match n.toNat? with
    | some n => toHex (natToBEMin n)
    | none => "bad-op"
  | _ => "bad-op"

/-! ### `drv_prim bench [seed]`: measured throughput (wall clock and process CPU time) -/

def mkBuf (seed : UInt64) (n : Nat) : ByteArray := Id.run do
  let mut s := seed
  let mut b := ByteArray.emptyWithCapacity n
  for _ in [0:n] do
    s := s * 6364136223846793005 + 1442695040888963407
    b := b.push (s >>> 56).toUInt8
  return b

/-- utime+stime of this process in milliseconds (Linux, 100 Hz ticks); 0 if unavailable. -/
def cpuMs : IO Nat := do
  try
    let st ← IO.FS.readFile "/proc/self/stat"
    -- fields after the last ')' : state is field 3, utime 14, stime 15
    match (st.splitOn ")").getLast? with
    | some rest =>
      let fs := (rest.splitOn " ").filter (· ≠ "")
      pure ((fs[11]!.toNat?.getD 0 + fs[12]!.toNat?.getD 0) * 10)
    | none => pure 0
  catch _ => pure 0

/-- Time a pure computation; `check` turns the result into a short string (forces it). -/
def timed {α} (label : String) (unit : String) (amount : Float) (f : Unit → α) (check : α → String) : IO Unit := do
  let c0 ← cpuMs
  let t0 ← IO.monoNanosNow
  let r ← IO.lazyPure f
  let chk := check r
  let t1 ← IO.monoNanosNow
  let c1 ← cpuMs
  let wall := (t1 - t0).toFloat / 1e9
  let cpu := (c1 - c0).toFloat / 1e3
  let f3 (x : Float) : String :=
    let n := (x * 1000).round.toUInt64.toNat
    let frac := toString (n % 1000)
    s!"{n / 1000}.{String.ofList (List.replicate (3 - frac.length) '0')}{frac}"
  let rate (s : Float) : String := if s <= 0 then "n/a" else f3 (amount / s)
  IO.println s!"{label}: wall {f3 wall} s, cpu {f3 cpu} s => {rate wall} {unit} (wall), {rate cpu} {unit} (cpu)  [{chk}]"

def hx (b : ByteArray) : String := toHex ((b.extract 0 4).toList)

def bench (seed : UInt64) : IO Unit := do
  let mb := 1048576
  let big := mkBuf seed (8 * mb)
  let one := mkBuf (seed + 1) mb
  let oneL := one.toList
  IO.println s!"drv_prim bench seed={seed}"
  timed "sha256 ByteArray 8 MiB" "MB/s" 8.388608 (fun _ => SHA256.hashBA big) hx
  timed "sha256 Bytes(List) 1 MiB" "MB/s" 1.048576 (fun _ => sha256 oneL) (fun r => toHex (r.take 4))
  timed "sha1   ByteArray 8 MiB" "MB/s" 8.388608 (fun _ => SHA1.hashBA big) hx
  timed "sha512 ByteArray 8 MiB" "MB/s" 8.388608 (fun _ => SHA512.hashBA big) hx
  timed "md5    ByteArray 8 MiB" "MB/s" 8.388608 (fun _ => MD5.hashBA big) hx
  timed "crc32  ByteArray 8 MiB" "MB/s" 8.388608 (fun _ => CRC32.checksumBA big) toString
  let key := (mkBuf (seed + 2) 32)
  let ak := aesExpandBA key
  timed "aes enc, expanded key, ByteArray 1 MiB (65536 blocks)" "MB/s" 1.048576 (fun _ => Id.run do
      let mut out := ByteArray.emptyWithCapacity mb
      for i in [0:65536] do
        out := ak.encAt one (16*i) out
      return out) hx
  timed "aes dec, expanded key, ByteArray 1 MiB (65536 blocks)" "MB/s" 1.048576 (fun _ => Id.run do
      let mut out := ByteArray.emptyWithCapacity mb
      for i in [0:65536] do
        out := ak.decAt one (16*i) out
      return out) hx
  let keyL := key.toList
  timed "AesKey.enc on Bytes, 65536 chained blocks" "MB/s" 1.048576 (fun _ => Id.run do
      let mut b : Bytes := oneL.take 16
      for _ in [0:65536] do
        b := ak.enc b
      return b) (fun r => toHex (r.take 4))
  timed "aesEncBlock (key expanded per call) on Bytes, 16384 chained blocks" "MB/s" 0.262144 (fun _ => Id.run do
      let mut b : Bytes := oneL.take 16
      for _ in [0:16384] do
        b := aesEncBlock keyL b
      return b) (fun r => toHex (r.take 4))
  timed "aesDecBlock (key expanded per call) on Bytes, 16384 chained blocks" "MB/s" 0.262144 (fun _ => Id.run do
      let mut b : Bytes := oneL.take 16
      for _ in [0:16384] do
        b := aesDecBlock keyL b
      return b) (fun r => toHex (r.take 4))
  timed "aesCtr on Bytes 1 MiB" "MB/s" 1.048576 (fun _ => aesCtr keyL (oneL.take 16) oneL) (fun r => toHex (r.take 4))
  timed "hmacSha256 on Bytes, 64-byte msg, 20000 chained" "kops/s" 20.0 (fun _ => Id.run do
      let mut m : Bytes := oneL.take 64
      for _ in [0:20000] do
        m := hmacSha256 keyL m
      return m) (fun r => toHex (r.take 4))
  timed "pbkdf2Sha512 100000 iterations, dkLen 64" "runs/s" 1.0
    (fun _ => pbkdf2Sha512 keyL (oneL.take 40) 100000 64) (fun r => toHex (r.take 4))
  let m := natOfBE ((mkBuf (seed + 3) 256).toList) ||| (1 <<< 2047) ||| 1
  let b0 := natOfBE ((mkBuf (seed + 4) 256).toList)
  let e := natOfBE ((mkBuf (seed + 5) 256).toList) ||| (1 <<< 2047)
  timed "modPow 2048-bit base/exponent/modulus, 20 chained" "ops/s" 20.0 (fun _ => Id.run do
      let mut b := b0
      for _ in [0:20] do
        b := modPow b e m
      return b) (fun r => toString (r % 1000000))

def main (args : List String) : IO Unit :=
  match args with
  | ["bench"] => do bench (← IO.monoNanosNow).toUInt64
  | ["bench", s] => bench (s.toNat?.getD 1).toUInt64
  | _ => runDriver handle
