/-
Driver of the executable primitive library: `harness/prim` compares every answer with Go's
standard library (tools/prim_selftest.sh).  `drv_prim bench` prints measured throughput.
-/
import TdModel.Prim.SHA256
import TdModel.Prim.SHA1
open TdModel TdModel.Prim

def hex1 (f : Bytes → String) (a : String) : String :=
  match ofHex a with
  | some x => f x
  | none => "bad-op"

def handle (line : String) : String :=
  match words line with
  | ["sha256", a] => hex1 (fun x => toHex (sha256 x)) a
  | ["sha1", a] => hex1 (fun x => toHex (sha1 x)) a
  | _ => "bad-op"

def main (args : List String) : IO Unit :=
  match args with
  | _ => runDriver handle
