/-
Driver of the executable primitive library: `harness/prim` compares every answer with Go's
standard library (tools/prim_selftest.sh).  `drv_prim bench` prints measured throughput.
-/
import TdModel.Prim.All
open TdModel TdModel.Prim

def hex1 (f : Bytes → String) (a : String) : String :=
  match ofHex a with
  | some x => f x
  | none => "bad-op"

def hex2 (f : Bytes → Bytes → String) (a b : String) : String :=
  match ofHex a, ofHex b with
  | some x, some y => f x y
  | _, _ => "bad-op"

def handle (line : String) : String :=
  match words line with
  | ["sha256", a] => hex1 (fun x => toHex (Prims.real.sha256 x)) a
  | ["sha1", a] => hex1 (fun x => toHex (Prims.real.sha1 x)) a
  | ["aesenc", k, b] => hex2 (fun k b => toHex (Prims.real.aesEnc k b)) k b
  | ["aesdec", k, b] => hex2 (fun k b => toHex (Prims.real.aesDec k b)) k b
  | ["aesctr", k, iv, skip, d] =>
    match ofHex k, ofHex iv, skip.toNat?, ofHex d with
    | some k, some iv, some skip, some d =>
      -- skip = 0 goes through `aesCtr` so that both exported entry points are exercised
      toHex (if skip == 0 then aesCtr k iv d else aesCtrAt k iv skip d)
    | _, _, _, _ => "bad-op"
  | ["hmac256", k, m] => hex2 (fun k m => toHex (hmacSha256 k m)) k m
  | ["sha512", a] => hex1 (fun x => toHex (sha512 x)) a
  | ["hmac512", k, m] => hex2 (fun k m => toHex (hmacSha512 k m)) k m
  | ["pbkdf2", pw, salt, iters, dk] =>
    match ofHex pw, ofHex salt, iters.toNat?, dk.toNat? with
    | some pw, some salt, some iters, some dk => toHex (pbkdf2Sha512 pw salt iters dk)
    | _, _, _, _ => "bad-op"
  | ["md5", a] => hex1 (fun x => toHex (md5 x)) a
  | ["crc32", a] => hex1 (fun x => toString (crc32 x)) a
  | ["modpow", b, e, m] =>
    match b.toNat?, e.toNat?, m.toNat? with
    | some b, some e, some m => toString (modPow b e m)
    | _, _, _ => "bad-op"
  | ["natofbe", a] => hex1 (fun x => toString (natOfBE x)) a
  | ["nattobe", len, n] =>
    match len.toNat?, n.toNat? with
    | some len, some n => toHex (natToBE len n)
    | _, _ => "bad-op"
  | ["nattobemin", n] =>
    match n.toNat? with
    | some n => toHex (natToBEMin n)
    | none => "bad-op"
  | _ => "bad-op"

def main (args : List String) : IO Unit :=
  match args with
  | _ => runDriver handle
