import TdModel.Model.C04
import TdModel.Prim.All
open TdModel TdModel.C04 TdModel.C06

def P : Prims := Prims.real

def side? : String → Option Side
  | "c" => some .client
  | "s" => some .server
  | _ => none

/-- `dec <receiving side> <authKey> <keyId> <frame>`: the model of `Cipher.DecryptFromBuffer`. -/
def handle (line : String) : String :=
  match words line with
  | ["decdata", pt] => match ofHex pt with
    | some pt =>
      match decodeData pt with
      | .ok d => s!"ok {d.salt} {d.sid} {d.mid} {d.seq} {d.len} {toHex d.body} data={toHex d.payload}"
      | .error e => "err " ++ e.tag
    | none => "bad-op"
  | ["dec", s, ak, kid, c] =>
    match side? s, ofHex ak, ofHex kid, ofHex c with
    | some s, some ak, some kid, some c =>
      match decrypt P s ak kid c with
      | .ok d => s!"ok {d.salt} {d.sid} {d.mid} {d.seq} {d.len} {toHex d.body}"
      | .error e => "err " ++ e.tag
    | _, _, _, _ => "bad-op"
  | _ => "bad-op"

def main : IO Unit := runDriver handle
