import TdModel.Model.C13
open TdModel TdModel.C13

def gpTag : GPRes → String
  | .ok => "ok" | .badG => "bad-g" | .notResidue => "not-residue"

def dhTag : DHRes → String
  | .ok => "ok" | .badBits => "bad-bits" | .badG => "bad-g" | .notResidue => "not-residue"
  | .notPrime => "not-prime" | .notSafe => "not-safe"

def handle (line : String) : String :=
  match words line with
  | ["gp", g, p] =>
    match g.toInt?, p.toInt? with
    | some g, some p => gpTag (checkGP g p)
    | _, _ => "bad-op"
  | ["dh", g, p, pr1, pr2] =>
    match g.toInt?, p.toInt? with
    | some g, some p =>
      -- the two answers of crypto.Prime are oracle inputs: for p and for (p-1)/2
      let isPrime : Int → Bool := fun n => if n = p then pr1 == "1" else pr2 == "1"
      dhTag (checkDH isPrime g p)
    | _, _ => "bad-op"
  | ["dhp", p, g, ga, gb] =>
    match p.toInt?, g.toInt?, ga.toInt?, gb.toInt? with
    | some p, some g, some ga, some gb =>
      match checkDHParams p g ga gb with
      | none => "ok"
      | some i => s!"fail {i}"
    | _, _, _, _ => "bad-op"
  | "pq" :: n :: tape =>
    match n.toNat?, tape.mapM String.toNat? with
    | some n, some tape =>
      match decomposePQ n tape with
      | .ok (p, q) => s!"ok {p} {q} rounds={(decomposeRounds n tape).getD 0}"
      | .error .tape => "tape"
      | .error .panic => "panic"
    | _, _ => "bad-op"
  | _ => "bad-op"

def main : IO Unit := runDriver handle
