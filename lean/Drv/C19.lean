import TdModel.Model.C19
import TdModel.Prim.CRC32
import TdModel.Prim.HMAC
open TdModel TdModel.C19

/-- Payload generator shared with the harness: byte i = seed + i + i/256 (mod 256). -/
def pattern (n seed : Nat) : Bytes :=
  (List.range n).map fun i => UInt8.ofNat ((seed + i + i / 256) % 256)

def parseDesc (w : String) : Option Bytes :=
  match w.splitOn ":" with
  | [l, s] => do
    let l ← l.toNat?
    let s ← s.toNat?
    pure (pattern l s)
  | _ => none

/-- Data lengths of the records of a wire (by the model's own `readRecord`). -/
def recLens : Nat → Bytes → List Nat
  | 0, _ => []
  | f + 1, s =>
    match readRecord s with
    | .ok (r, rest) => r.data.length :: recLens f rest
    | .error _ => []

def readCalls : List Nat → RState → List String
  | [], _ => []
  | k :: ks, st =>
    match readCall (st.conn.length + 2) k st with
    | .ok (out, st') => toHex out :: readCalls ks st'
    | .error e => ["err:" ++ e.tag]

def handle (line : String) : String :=
  match words line with
  | "wire" :: ds =>
    match ds.mapM parseDesc with
    | some ws =>
      let wire := writeAll ws
      let (got, e) := appData (wire.length + 1) wire
      let lens := ",".intercalate ((recLens (wire.length + 1) wire).map toString)
      s!"{wire.length} {Prim.crc32 wire} {lens} | {got.length} {Prim.crc32 got} {e.tag}"
    | none => "bad-op"
  | "wirehex" :: ds =>
    match ds.mapM parseDesc with
    | some ws => toHex (writeAll ws)
    | none => "bad-op"
  | ["readcalls", h, ks] =>
    match ofHex h, (ks.splitOn ",").mapM String.toNat? with
    | some wire, some ks => " ".intercalate (readCalls ks { buf := [], conn := wire })
    | _, _ => "bad-op"
  | ["chello", sec, now, h] =>
    match ofHex sec, now.toInt?, ofHex h with
    | some sec, some now, some rec =>
      match finishClientHello Prim.hmacSha256 sec now rec with
      | .ok (out, rnd) => s!"ok {toHex out} {toHex rnd}"
      | .error e => "err " ++ e.tag
    | _, _, _ => "bad-op"
  | ["shello", rnd, sec, h] =>
    match ofHex rnd, ofHex sec, ofHex h with
    | some rnd, some sec, some s =>
      match readServerHello Prim.hmacSha256 rnd sec s with
      | .ok rest => s!"ok {rest.length}"
      | .error e => "err " ++ e.tag
    | _, _, _ => "bad-op"
  | _ => "bad-op"

def main : IO Unit := runDriver handle
