import TdModel.Model.C23
open TdModel TdModel.Bin TdModel.C23

def parseList (s : String) : Option (List Nat) :=
  if s == "-" then some [] else (s.splitOn ",").mapM String.toNat?

def parseGz (s : String) : Option (List (Bytes × Option Bytes)) :=
  if s == "-" then some []
  else (s.splitOn ";").mapM fun e =>
    match e.splitOn "=" with
    | [c, d] => do
      let cb ← ofHex c
      if d == "!" then pure (cb, none)
      else
        let db ← ofHex d
        pure (cb, some db)
    | _ => none

def showList (l : List Nat) : String :=
  if l.isEmpty then "-" else ",".intercalate (l.map toString)

def showEv : Ev → String
  | .result id d => s!"R{id}:{toHex d}"
  | .rpcError id code msg => s!"E{id}:{code}:{toHex msg}"
  | .badMsg id code ns => s!"B{id}:{code}:{ns}"
  | .message d => "M" ++ toHex d
  | .session s => s!"S{s}"
  | .ack id => s!"A{id}"
  | .pong id => s!"P{id}"

def saltLe (a b : FutureSalt) : Bool :=
  a.validUntil > b.validUntil ||
  (a.validUntil == b.validUntil && (a.salt < b.salt || (a.salt == b.salt && a.validSince ≤ b.validSince)))

def insertSalt (x : FutureSalt) : List FutureSalt → List FutureSalt
  | [] => [x]
  | y :: ys => if saltLe x y then x :: y :: ys else y :: insertSalt x ys

def showSalts (l : List FutureSalt) : String :=
  let s := l.foldr insertSalt []
  if s.isEmpty then "-" else ",".intercalate (s.map fun x => s!"{x.validSince}:{x.validUntil}:{x.salt}")

def handleLine (line : String) : String :=
  match words line with
  | ["h", payload, pending, acks, pings, failRes, failMsg, salt, gz] =>
    match ofHex payload, parseList pending, parseList acks, parseList pings, parseList failRes,
          parseList failMsg, salt.toNat?, parseGz gz with
    | some b, some p, some a, some pi, some fr, some fm, some s, some g =>
      let st : St := { pending := p, acks := a, pings := pi, salt := s, salts := [], failRes := fr, failMsg := fm, gz := g }
      let fuel := b.length + (g.foldl (fun n e => n + (e.2.map List.length).getD 0) 0) + 16
      let o := handle fuel st b
      -- closing an ack / pong waiter is observed on the implementation as the set of waiters left
      -- open (`acks=`, `pings=`), not as an ordered event
      let vis := o.evs.filter fun e => match e with | .ack _ => false | .pong _ => false | _ => true
      let evs := if vis.isEmpty then "-" else ";".intercalate (vis.map showEv)
      s!"{if o.ok then "ok" else "err"} ev={evs} acks={showList o.st.acks} pings={showList o.st.pings} salt={o.st.salt} salts={showSalts o.st.salts}"
    | _, _, _, _, _, _, _, _ => "bad-op"
  | _ => "bad-op"

def main : IO Unit := runDriver handleLine
