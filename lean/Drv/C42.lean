import TdModel.Model.C42
import TdModel.Util
open TdModel TdModel.C42

def parseAct (w : String) : Option Action :=
  match w.splitOn ":" with
  | ["cc"] => some .callerCancel
  | ["kc"] => some .collCancel
  | [k, n] => do
    let i ← n.toNat?
    match k with
    | "ok" => some (.dialOk i)
    | "fail" => some (.dialFail i)
    | "hs" => some (.dialHsFail i)
    | "dl" => some (.deliver i)
    | "ab" => some (.abandon i)
    | _ => none
  | _ => none

def showColl : Coll → String
  | .waiting r e => s!"wait:{r}:{e}"
  | .returned i => s!"ret:{i}"
  | .failed e => s!"fail:{e}"
  | .cancelled => "cancel"

def showConn : ConnSt → Char
  | .none => 'n' | .opened => 'o' | .closed => 'c'

def b01 (b : Bool) : String := if b then "1" else "0"

/-- `run <n> <actions…>`: replay a trace from `init n` with the configuration read from the source. -/
def handle (line : String) : String :=
  match words line with
  | "run" :: n :: acts =>
    match n.toNat?, acts.mapM parseAct with
    | some n, some as =>
      match runIdx cfgOfSource (init n) 0 as with
      | .ok s => s!"ok coll={showColl s.coll} conns={String.ofList (s.ds.map (fun d => showConn d.conn))} term={b01 (terminalB cfgOfSource s)} holds={b01 (holdsB s)}"
      | .error k => s!"notenabled {k}"
    | _, _ => "bad-op"
  | _ => "bad-op"

def main : IO Unit := runDriver handle
