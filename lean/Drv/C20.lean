/-
Driver for C20: the executable model of /repo/bin (TdModel.Model.Bin), one request per line.

  enc <kind> <value>        → hex of the encoding
  dec <kind> <hex>          → ok <value> <resthex> | err <tag> | panic      (panic-explicit decoders)
  seq <k1,k2,…> <hex>       → <v1> <v2> … | <resthex>     or   <v1> … err <tag>   or  … panic
  hdr <len>                 → <hex of the length prefix> <pad> <total length>   (no payload needed)

  peek <hex>                → ok <id> | err <tag> | panic                    (PeekID: nothing consumed)
  consume <id> <hex>        → ok <resthex> | err <tag> | panic              (ConsumeID)
  getn <n> <hex>            → ok <hex> <resthex> | err <tag> | panic        (ConsumeN into a buffer of n bytes)

  fields <f> <op>…          → one result per op: has:<n> → 0|1, set:<n> / unset:<n> → new word, zero → 0|1, enc → hex
  fdec <hex>                → ok <word> <resthex> | err <tag>               (Fields.Decode)
  buf <hex> <op>…           → one result per op on a Buffer holding <hex>: resetn:<n> expand:<n> skip:<n>
                              put:<hex> reset poolget poolsize:<n> → =<state>; read:<k> → <chunk>:<eof>;
                              copy → <hex>; len → <n>; a Go panic ends the line with `panic`

kinds: u32 id i32 u64 i64 i53 f64 bool i128 i256 bytes str vec
-/
import TdModel.Model.C20
open TdModel TdModel.Bin TdModel.C20

def nib (c : UInt8) : Option Nat :=
  if 48 ≤ c ∧ c ≤ 57 then some (c.toNat - 48)
  else if 97 ≤ c ∧ c ≤ 102 then some (c.toNat - 87)
  else if 65 ≤ c ∧ c ≤ 70 then some (c.toNat - 55)
  else none

/-- Tail-recursive hex parser (built from the end, so that megabyte inputs do not use the stack). -/
def ofHexGo (a : ByteArray) : Nat → Bytes → Option Bytes
  | 0, acc => some acc
  | i + 1, acc =>
    match nib (a.get! (2 * i)), nib (a.get! (2 * i + 1)) with
    | some x, some y => ofHexGo a i (UInt8.ofNat (x * 16 + y) :: acc)
    | _, _ => none

def hexDigitU8 (n : UInt8) : UInt8 := if n < 10 then 48 + n else 87 + n

/-- `toHex` through a byte array (megabyte outputs). -/
def toHexFast (bs : Bytes) : String :=
  if bs.isEmpty then "-"
  else
    let arr := bs.foldl (fun (a : ByteArray) (b : UInt8) => (a.push (hexDigitU8 (b >>> 4))).push (hexDigitU8 (b &&& 15)))
      (ByteArray.emptyWithCapacity (2 * bs.length))
    String.fromUTF8! arr

def ofHexFast (s : String) : Option Bytes :=
  if s == "-" then some []
  else
    let a := s.toUTF8
    if a.size % 2 = 1 then none else ofHexGo a (a.size / 2) []

def showOut {α : Type} (o : Out (α × Bytes)) (f : α → String) : String :=
  match o with
  | .ok (v, r) => "ok " ++ f v ++ " " ++ toHexFast r
  | .err e => "err " ++ e.tag
  | .panic => "panic"

def encKind (k v : String) : Option Bytes :=
  match k with
  | "u32" => v.toNat?.map putU32
  | "id" => v.toNat?.map putU32
  | "i53" => v.toInt?.map putInt64
  | "i32" => v.toInt?.map putInt32
  | "u64" => v.toNat?.map putU64
  | "i64" => v.toInt?.map putInt64
  | "f64" => v.toNat?.map putDouble
  | "bool" => if v == "1" then putBoolG true else if v == "0" then putBoolG false else none
  | "i128" => (ofHexFast v).map putInt128
  | "i256" => (ofHexFast v).map putInt256
  | "bytes" => (ofHexFast v).bind (putBytesG encB)   -- assembled from the regenerated pieces
  | "str" => (ofHexFast v).bind (putBytesG encS)
  | "vec" => v.toInt?.map (fun n => putVectorHeader (ofInt32 n))
  | _ => none

/-- Decode one value of kind `k`: printed value and the rest. -/
def decKind (k : String) (b : Bytes) : Option (Out (String × Bytes)) :=
  let m {α : Type} (o : Out (α × Bytes)) (f : α → String) : Out (String × Bytes) :=
    match o with
    | .ok (v, r) => .ok (f v, r)
    | .err e => .err e
    | .panic => .panic
  match k with
  | "u32" => some (m (getU32P b) toString)
  | "id" => some (m (getU32P b) toString)
  | "i53" => some (m (getInt64P b) toString)
  | "i32" => some (m (getInt32P b) toString)
  | "u64" => some (m (getU64P b) toString)
  | "i64" => some (m (getInt64P b) toString)
  | "f64" => some (m (getU64P b) toString)
  | "bool" => some (m (getBoolP b) (fun x => if x then "true" else "false"))
  | "i128" => some (m (getNP int128Size b) toHexFast)
  | "i256" => some (m (getNP int256Size b) toHexFast)
  | "bytes" => some (m (getBytesP b) toHexFast)
  | "str" => some (m (getBytesP b) toHexFast)
  | "vec" => some (m (getVectorHeaderP b) toString)
  | _ => none

/-- The decoder assembled from regenerated pieces must agree with the panic-explicit transliteration
(a theorem; checked again at run time so that the regenerated facts are exercised by the driver). -/
def agree {α : Type} [BEq α] (p : Out (α × Bytes)) (g : Res α) : Bool :=
  match p, g with
  | .ok (a, r), .ok (a', r') => a == a' && r == r'
  | .err e, .error e' => e == e'
  | _, _ => false

def regenOK (k : String) (b : Bytes) : Bool :=
  match k with
  | "u32" | "id" => agree (getU32P b) (getU32G b)
  | "u64" | "f64" => agree (getU64P b) (getU64G b)
  | "bytes" => agree (getBytesP b) (getBytesG false b)
  | "str" => agree (getBytesP b) (getBytesG true b)
  | "vec" => agree (getVectorHeaderP b) (getVectorHeaderG b)
  | "bool" => agree (getBoolP b) (getBoolG b)
  | "i128" => agree (getNP int128Size b) (getNG int128Size b)
  | "i256" => agree (getNP int256Size b) (getNG int256Size b)
  | _ => true

def decSeq : List String → Bytes → List String → Option String
  | [], b, acc => some (" ".intercalate (acc.reverse ++ ["|", toHexFast b]))
  | k :: ks, b, acc =>
    match decKind k b with
    | none => none
    | some (.ok (v, r)) => decSeq ks r (v :: acc)
    | some (.err e) => some (" ".intercalate (acc.reverse ++ ["err", e.tag]))
    | some .panic => some (" ".intercalate (acc.reverse ++ ["panic"]))

def fieldsOps : Nat → List String → List String → String
  | _, [], acc => " ".intercalate acc.reverse
  | f, op :: rest, acc =>
    match op.splitOn ":" with
    | ["has", n] => match n.toNat? with
      | some n => fieldsOps f rest ((if fieldsHas f n then "1" else "0") :: acc)
      | none => "bad-op"
    | ["set", n] => match n.toNat? with
      | some n => fieldsOps (fieldsSet f n) rest (toString (fieldsSet f n) :: acc)
      | none => "bad-op"
    | ["unset", n] => match n.toNat? with
      | some n => fieldsOps (fieldsUnset f n) rest (toString (fieldsUnset f n) :: acc)
      | none => "bad-op"
    | ["zero"] => fieldsOps f rest ((if fieldsZero f then "1" else "0") :: acc)
    | ["enc"] => fieldsOps f rest (toHexFast (putFields f) :: acc)
    | _ => "bad-op"

def bufOps : Bytes → List String → List String → String
  | _, [], acc => " ".intercalate acc.reverse
  | b, op :: rest, acc =>
    let fin (o : Out Bytes) : String :=
      match o with
      | .ok b' => bufOps b' rest (("=" ++ toHexFast b') :: acc)
      | _ => " ".intercalate (("panic" :: acc).reverse)
    match op.splitOn ":" with
    | ["resetn", n] => match n.toInt? with | some n => fin (bufResetN n) | none => "bad-op"
    | ["expand", n] => match n.toInt? with | some n => fin (bufExpand b n) | none => "bad-op"
    | ["skip", n] => match n.toNat? with | some n => fin (bufSkip b n) | none => "bad-op"
    | ["put", h] => match ofHexFast h with | some r => fin (.ok (bufPut b r)) | none => "bad-op"
    | ["reset"] => fin (.ok [])
    | ["poolget"] => fin (.ok (poolGet b))
    | ["poolsize", n] => match n.toInt? with | some n => fin (poolGetSize b n) | none => "bad-op"
    | ["read", k] => match k.toNat? with
      | some k =>
        let (c, eof, r) := bufRead b k
        bufOps r rest ((toHexFast c ++ ":" ++ (if eof then "1" else "0")) :: acc)
      | none => "bad-op"
    | ["copy"] => bufOps b rest (toHexFast b :: acc)
    | ["len"] => bufOps b rest (toString b.length :: acc)
    | _ => "bad-op"

def handle (line : String) : String :=
  match words line with
  | ["enc", k, v] => match encKind k v with
    | some b => toHexFast b
    | none => "bad-op"
  | ["dec", k, h] => match ofHexFast h with
    | some b => match decKind k b with
      | some o => if regenOK k b then showOut o id else "regenerated-decoder-differs"
      | none => "bad-op"
    | none => "bad-op"
  | ["seq", ks, h] => match ofHexFast h with
    | some b => (decSeq (ks.splitOn ",") b []).getD "bad-op"
    | none => "bad-op"
  | ["peek", h] => match ofHexFast h with
    | some b => match peekIDP b with
      | .ok v => "ok " ++ toString v
      | .err e => "err " ++ e.tag
      | .panic => "panic"
    | none => "bad-op"
  | ["consume", id, h] => match id.toNat?, ofHexFast h with
    | some id, some b => match consumeIDP id b with
      | .ok (_, r) => "ok " ++ toHexFast r
      | .err e => "err " ++ e.tag
      | .panic => "panic"
    | _, _ => "bad-op"
  | ["getn", n, h] => match n.toNat?, ofHexFast h with
    | some n, some b => showOut (getNP n b) toHexFast
    | _, _ => "bad-op"
  | "fields" :: f :: ops => match f.toNat? with
    | some f => fieldsOps f ops []
    | none => "bad-op"
  | ["fdec", h] => match ofHexFast h with
    | some b => match getFields b with
      | .ok (f, r) => s!"ok {f} {toHexFast r}"
      | .error e => "err " ++ e.tag
    | none => "bad-op"
  | "buf" :: h :: ops => match ofHexFast h with
    | some b => bufOps b ops []
    | none => "bad-op"
  | ["hdr", l] => match l.toNat? with
    | some n =>
      let hd := bytesHeader n
      toHexFast hd ++ " " ++ toString (bytesPad n) ++ " " ++ toString (hd.length + n + bytesPad n)
    | none => "bad-op"
  | _ => "bad-op"

def main : IO Unit := runDriver handle
