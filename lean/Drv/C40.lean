/-
Driver for C40: executable model of tgerr (TdModel.Model.C40).  Strings travel as hex of UTF-8.

  parse <hexmsg>                      → <hex Type> <Argument>
  flood <hexmsg>                      → none | <nanoseconds handed to clock.Timer>
  build <k> <hexdigits> <w1,w2,…>     → hex of Join(insertAt k digits words, "_")
  itoa <n>                            → hex of the decimal numeral
  match <hexmsg|none> <code> <hex t> <hex,hex,…|.> <c,c,…|.>
                                      → is=<b> iscode=<b> astype=<b> as=<b> str=<hex of Error()|->
                                        (none = no *Error in the chain)
  outcomes <hexmsg> <timerFired> <ctxDone> → results the select may produce, e.g. waited,cancelled | blocks
-/
import TdModel.Model.C40
open TdModel TdModel.C40

def handle (line : String) : String :=
  match words line with
  | ["parse", h] => match ofHex h with
    | some m => let p := parse m; toHex p.type ++ " " ++ toString p.arg
    | none => "bad-op"
  | ["flood", h] => match ofHex h with
    | some m => match floodTimer (parse m) with
      | some d => toString d
      | none => "none"
    | none => "bad-op"
  | ["build", k, ds, ws] =>
    match k.toNat?, ofHex ds, (ws.splitOn ",").mapM ofHex with
    | some k, some ds, some ws => toHex (joinUs (insertAt k ds ws))
    | _, _, _ => "bad-op"
  | ["match", m, code, t, tt, codes] =>
    let first : Option (Option RpcErr) :=
      if m == "none" then some none
      else match ofHex m, code.toInt? with
        | some mb, some c => some (some (newErr c mb))
        | _, _ => none
    let ttL : Option (List Bytes) := if tt == "." then some [] else (tt.splitOn ",").mapM ofHex
    let cL : Option (List Int) := if codes == "." then some [] else (codes.splitOn ",").mapM String.toInt?
    match first, ofHex t, ttL, cL with
    | some f, some t, some tt, some cs =>
      let b (x : Bool) := if x then "1" else "0"
      let str := match f with | some e => toHex (errorString e) | none => "-"
      s!"is={b (isOneOf f tt)} iscode={b (isCode f cs)} astype={b (asType f t).isSome} as={b (asErr f).isSome} str={str}"
    | _, _, _, _ => "bad-op"
  | ["outcomes", h, tf, cd] => match ofHex h with
    | some m =>
      let os := floodWaitOutcomes (parse m) (tf == "1") (cd == "1")
      if os.isEmpty then "blocks"
      else ",".intercalate (os.map fun o => match o with
        | .waited => "waited" | .cancelled => "cancelled" | .notFlood => "notflood")
    | none => "bad-op"
  | ["itoa", n] => match n.toNat? with
    | some n => toHex (decimal n)
    | none => "bad-op"
  | _ => "bad-op"

def main : IO Unit := runDriver handle
