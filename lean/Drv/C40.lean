/-
Driver for C40: executable model of tgerr (TdModel.Model.C40).  Strings travel as hex of UTF-8.

  parse <hexmsg>                      → <hex Type> <Argument>
  flood <hexmsg>                      → none | <nanoseconds handed to clock.Timer>
  build <k> <hexdigits> <w1,w2,…>     → hex of Join(insertAt k digits words, "_")
  itoa <n>                            → hex of the decimal numeral
-/
import TdModel.Model.C40
open TdModel TdModel.C40

def handle (line : String) : String :=
  match words line with
  | ["parse", h] => match ofHex h with
    | some m => let p := parse m; toHex p.type ++ " " ++ toString p.arg
    | none => "bad-op"
  | ["flood", h] => match ofHex h with
    | some m => match floodTimer (parse m) with
      | some d => toString d
      | none => "none"
    | none => "bad-op"
  | ["build", k, ds, ws] =>
    match k.toNat?, ofHex ds, (ws.splitOn ",").mapM ofHex with
    | some k, some ds, some ws => toHex (joinUs (insertAt k ds ws))
    | _, _, _ => "bad-op"
  | ["itoa", n] => match n.toNat? with
    | some n => toHex (decimal n)
    | none => "bad-op"
  | _ => "bad-op"

def main : IO Unit := runDriver handle
