import TdModel.Model.C14
import TdModel.Prim.All
open TdModel TdModel.C14

def Q : NumPrims := ⟨Prim.modPow⟩
def P : Prims := Prims.real

def showRes : Except Err Bytes → String
  | .ok b => "ok " ++ toHex b
  | .error e => "err " ++ e.tag

def handle (line : String) : String :=
  match (words line).mapM ofHex with
  | none =>
    match words line with
    | op :: rest =>
      match rest.mapM ofHex with
      | some args =>
        match op, args with
        | "pad", [n, e, data, tape] => showRes (rsaPad P Q ⟨beNat n, beNat e⟩ data tape)
        | "unpad", [n, d, c] => showRes (decodeRsaPad P Q ⟨beNat n, beNat d⟩ c)
        | "henc", [n, e, data, tape] => showRes (rsaEncryptHashed P Q ⟨beNat n, beNat e⟩ data tape)
        | "fp", [n, e] => toString (rsaFingerprint P ⟨beNat n, beNat e⟩)
        | "hdec", [n, d, c] => showRes (rsaDecryptHashed P Q ⟨beNat n, beNat d⟩ c)
        | _, _ => "bad-op"
      | none => "bad-op"
    | [] => "bad-op"
  | some _ => "bad-op"

def main : IO Unit := runDriver handle
