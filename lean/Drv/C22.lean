/-
Driver for C22: executable model of proto containers / results / unencrypted messages / gzip
framing (TdModel.Model.C22), decoders in their panic-explicit form.

  cenc <msgs>                     → hex | err <tag>            msgs = id:seq:bytes:bodyhex;… or -
  cdec <hex>                      → ok <msgs> <resthex> | err <tag> | panic
  renc <id> <bodyhex>             → hex
  rdec <hex>                      → ok <id> <bodyhex> <resthex> | err <tag> | panic
  uenc <id> <datahex>             → hex
  udec <hex>                      → ok <id> <datahex> <resthex> | err <tag> | panic
  gzenc <compressedhex>           → hex of the gzip_packed frame
  gzdec <hex> <outlen> <clean> <hdrok> → ok <datalen> <resthex> | err <tag> | panic
                                    (hdrok/outlen/clean: what the decompressor does with the framed bytes)
  gzlim <outlen> <clean> <hdrok>  → ok | err <tag>              (the header / limit logic alone)
  mtcenc <msgs>                   → hex          mt.MsgContainer.Encode; msgs = id:seq:bytes:packedhex;… or -
  mtcdec <hex>                    → ok <msgs> <resthex> | err <tag>
  mtrenc <id> <packedhex>         → hex          mt.RPCResult.Encode
  mtrdec <hex>                    → ok <id> <packedhex> <resthex> | err <tag>
  mtprealloc <n>                  → capacity pre-allocated by mt.MsgContainer.DecodeBare
-/
import TdModel.Model.C22
open TdModel TdModel.Bin TdModel.C22

def nib (c : UInt8) : Option Nat :=
  if 48 ≤ c ∧ c ≤ 57 then some (c.toNat - 48)
  else if 97 ≤ c ∧ c ≤ 102 then some (c.toNat - 87)
  else if 65 ≤ c ∧ c ≤ 70 then some (c.toNat - 55)
  else none

/-- Tail-recursive hex parser (megabyte inputs must not use the stack). -/
def ofHexGo (a : ByteArray) : Nat → Bytes → Option Bytes
  | 0, acc => some acc
  | i + 1, acc =>
    match nib (a.get! (2 * i)), nib (a.get! (2 * i + 1)) with
    | some x, some y => ofHexGo a i (UInt8.ofNat (x * 16 + y) :: acc)
    | _, _ => none

def hexDigitU8 (n : UInt8) : UInt8 := if n < 10 then 48 + n else 87 + n

/-- `toHex` through a byte array (megabyte outputs). -/
def toHexFast (bs : Bytes) : String :=
  if bs.isEmpty then "-"
  else
    let arr := bs.foldl (fun (a : ByteArray) (b : UInt8) => (a.push (hexDigitU8 (b >>> 4))).push (hexDigitU8 (b &&& 15)))
      (ByteArray.emptyWithCapacity (2 * bs.length))
    String.fromUTF8! arr

def ofHexFast (s : String) : Option Bytes :=
  if s == "-" then some []
  else
    let a := s.toUTF8
    if a.size % 2 = 1 then none else ofHexGo a (a.size / 2) []

def parseMsg (s : String) : Option Message :=
  match s.splitOn ":" with
  | [id, seq, n, body] => do
    let id ← id.toInt?
    let seq ← seq.toInt?
    let n ← n.toInt?
    let body ← ofHexFast body
    pure ⟨id, seq, n, body⟩
  | _ => none

def parseMsgs (s : String) : Option (List Message) :=
  if s == "-" then some [] else (s.splitOn ";").mapM parseMsg

def showMsgs (ms : List Message) : String :=
  if ms.isEmpty then "-"
  else ";".intercalate (ms.map fun m => s!"{m.id}:{m.seqNo}:{m.bytes}:{toHexFast m.body}")

def showOut {α : Type} (o : Out (α × Bytes)) (f : α → String) : String :=
  match o with
  | .ok (v, r) => "ok " ++ f v ++ " " ++ toHexFast r
  | .err e => "err " ++ e.tag
  | .panic => "panic"

def parseBool (s : String) : Option Bool :=
  if s == "true" then some true else if s == "false" then some false else none

def handle (line : String) : String :=
  match words line with
  | ["cenc", ms] => match parseMsgs ms with
    | some ms => match encodeContainerG ms with
      | .ok b => toHexFast b
      | .error e => "err " ++ e.tag
    | none => "bad-op"
  | ["cdec", h] => match ofHexFast h with
    | some b => showOut (decodeContainerP b) showMsgs
    | none => "bad-op"
  | ["renc", id, body] => match id.toInt?, ofHexFast body with
    | some id, some body => match encodeResultG ⟨id, body⟩ with
      | some b => toHexFast b
      | none => "err ops"
    | _, _ => "bad-op"
  | ["rdec", h] => match ofHexFast h with
    | some b => showOut (decodeResultP b) (fun x => s!"{x.reqMsgID} {toHexFast x.result}")
    | none => "bad-op"
  | ["uenc", id, d] => match id.toInt?, ofHexFast d with
    | some id, some d => match encodeUnencryptedG ⟨id, d⟩ with
      | some b => toHexFast b
      | none => "err ops"
    | _, _ => "bad-op"
  | ["udec", h] => match ofHexFast h with
    | some b => showOut (decodeUnencryptedP b) (fun x => s!"{x.messageID} {toHexFast x.data}")
    | none => "bad-op"
  | ["gzenc", c] => match ofHexFast c with
    | some c => match gzipFrameG c with
      | some b => toHexFast b
      | none => "err ops"
    | none => "bad-op"
  | ["gzdec", h, n, cl, hd] => match ofHexFast h, n.toNat?, parseBool cl, parseBool hd with
    | some b, some n, some cl, some hd =>
      match gzipUnframeP b with
      | .panic => "panic"
      | .err e => "err " ++ e.tag
      | .ok (_, rest) =>
        if !hd then "err " ++ errGzipHeader.tag else
        match gunzLimitedLen n cl with
        | .error e => "err " ++ e.tag
        | .ok k => s!"ok {k} {toHexFast rest}"
    | _, _, _, _ => "bad-op"
  | ["gzlim", n, cl, hd] => match n.toNat?, parseBool cl, parseBool hd with
    | some n, some cl, some hd =>
      if !hd then "err " ++ errGzipHeader.tag else
      match gunzLimitedLen n cl with
      | .error e => "err " ++ e.tag
      | .ok _ => "ok"
    | _, _, _ => "bad-op"
  | ["mtcenc", ms] => match parseMsgs ms with
    | some ms => toHexFast (mtEncodeContainer (ms.map fun m => ⟨m.id, m.seqNo, m.bytes, m.body⟩))
    | none => "bad-op"
  | ["mtcdec", h] => match ofHexFast h with
    | some b => match mtDecodeContainer b with
      | .ok (ms, r) => "ok " ++ showMsgs (ms.map fun m => ⟨m.msgID, m.seqno, m.bytes, m.packed⟩) ++ " " ++ toHexFast r
      | .error e => "err " ++ e.tag
    | none => "bad-op"
  | ["mtrenc", id, p] => match id.toInt?, ofHexFast p with
    | some id, some p => toHexFast (mtEncodeResult id p)
    | _, _ => "bad-op"
  | ["mtrdec", h] => match ofHexFast h with
    | some b => match mtDecodeResult b with
      | .ok ((id, p), r) => s!"ok {id} {toHexFast p} {toHexFast r}"
      | .error e => "err " ++ e.tag
    | none => "bad-op"
  | ["mtprealloc", n] => match n.toInt? with
    | some n => toString (mtPrealloc n)
    | none => "bad-op"
  | _ => "bad-op"

def main : IO Unit := runDriver handle
