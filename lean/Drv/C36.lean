import TdModel.Model.C36
import TdModel.Util
open TdModel TdModel.C36

def parseEnt (s : String) : Option Ent :=
  match s.splitOn ":" with
  | [o, l] => do pure { off := (← o.toInt?), len := (← l.toInt?) }
  | _ => none

def parseList (s : String) : Option (List Ent) :=
  if s == "-" then some [] else (s.splitOn ",").mapM parseEnt

def showList (l : List Ent) : String :=
  if l.isEmpty then "-" else ",".intercalate (l.map fun e => s!"{e.off}:{e.len}")

def handle (line : String) : String :=
  match words line with
  | ["less", ao, al, bo, bl] =>
    match ao.toInt?, al.toInt?, bo.toInt?, bl.toInt? with
    | some ao, some al, some bo, some bl => if less ⟨ao, al⟩ ⟨bo, bl⟩ then "1" else "0"
    | _, _, _, _ => "bad-op"
  -- `sort`: the list is compatible ⇒ the result is determined (theorem sorted_spec_partial);
  -- otherwise the source's comparator gives sort.Sort no contract and the model predicts nothing.
  | ["sort", l] => match parseList l with
    | some l => if compatible l then "compatible " ++ showList (sortEntities l) else "incompatible"
    | none => "bad-op"
  | ["specsort", l] => match parseList l with
    | some l => showList (isort specLess l)
    | none => "bad-op"
  | ["holds", l] => match parseList l with
    | some l => if holds l then "1" else "0"
    | none => "bad-op"
  | _ => "bad-op"

def main : IO Unit := runDriver handle
