import TdModel.Model.C09Wire
import TdModel.Model.C09BytesWire
import TdModel.Prim.SHA1
open TdModel TdModel.C09

/-- `honest k=v …` → `transcript || client result || server result` of the honest composition. -/
def honest (ws : List String) : Option String := do
  let (isPrime, factor) ← oracles ws
  let P := symXP Prim.sha1 isPrime factor
  let (c, s, tr) := honestRun P (← parseCCfg ws) (← parseCTape ws) (← parseSCfg ws) (← parseSTape ws)
  pure s!"{showTranscript tr} || {showCState Prim.sha1 c} || {showSState Prim.sha1 s}"

/-- `server k=v … ; msg ; msg ; …` → final server state and everything the server sent, for the
server fed with the given incoming messages. -/
def server (ws : List String) : Option String :=
  match splitAt ";" ws with
  | [] => none
  | hd :: msgs =>
    match oracles hd, parseSCfg hd, parseSTape hd, msgs.mapM parseMsg with
    | some (isPrime, factor), some cfg, some tape, some ms =>
      let P := symXP Prim.sha1 isPrime factor
      let r := srun P cfg tape .waitReqPQ ms
      some s!"{showSState Prim.sha1 r.1} || {showTranscript r.2}"
    | _, _, _, _ => none

def handle (line : String) : String :=
  match words line with
  | "honest" :: ws => (honest ws).getD "bad-op"
  | "server" :: ws => (server ws).getD "bad-op"
  | ["powmod", b, e, m] =>
    match b.toNat?, e.toNat?, m.toNat? with
    | some b, some e, some m => toString (powMod b e m)
    | _, _, _ => "bad-op"
  | ["tempkeys", nn, sn] =>
    match ofHex nn, ofHex sn with
    | some nn, some sn => let k := tempAESKeys Prim.sha1 nn sn; s!"{toHex k.1} {toHex k.2}"
    | _, _ => "bad-op"
  | ws => (bytesOp ws).getD "bad-op"

def main : IO Unit := runDriver handle
