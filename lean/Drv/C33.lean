import TdModel.Model.C33
open TdModel TdModel.C33

def parseResp (c : Char) : Option Resp :=
  if c == 'o' then some .ok else if c == 'f' then some .flood else if c == 't' then some .timeout
  else if c == 'e' then some .err else none

def parseScript (s : String) : Option (List (Nat × List Resp)) :=
  if s == "-" then some [] else
    (s.splitOn ",").mapM fun e =>
      match e.splitOn ":" with
      | [i, cs] => do pure (← i.toNat?, ← cs.toList.mapM parseResp)
      | _ => none

def scriptFn (l : List (Nat × List Resp)) (i : Nat) : List Resp :=
  match l.find? (fun e => e.1 == i) with
  | some e => e.2
  | none => []

/-- `n<len>` = a file of that many zero bytes compared on lengths only; otherwise hex. -/
def parseFile (s : String) : Option (Bytes × Bool) :=
  if s.startsWith "n" then (s.drop 1).toString.toNat?.map (fun n => (List.replicate n 0, false))
  else (ofHex s).map (fun b => (b, true))

def showData (hex : Bool) (d : Bytes) : String := if hex then toHex d else toString d.length

def joinOr (l : List String) : String := if l.isEmpty then "-" else ",".intercalate l

/-- Requests `(offset, limit)` with their attempt counts; stops after the first failing block. -/
def showReqs (sc : Nat → List Resp) (ps : Nat) : List Req → Nat → List String × Bool
  | [], _ => ([], true)
  | (off, lim) :: rest, i =>
    let a := attempts (sc (off / (if ps = 0 then 1 else ps)))
    let s := s!"{off}:{lim}:{a.1}"
    if a.2 then let r := showReqs sc ps rest (i + 1); (s :: r.1, r.2) else ([s], false)

def parseEvents (s : String) : Option (List PAct) :=
  if s == "-" then some [] else
    (s.splitOn ",").mapM fun e =>
      if e == "a" then some .alloc else
        if e.startsWith "c" then (e.drop 1).toString.toNat?.map PAct.complete else none

def insertByOff (w : Nat × Bytes) : List (Nat × Bytes) → List (Nat × Bytes)
  | [] => [w]
  | x :: l => if w.1 < x.1 then w :: x :: l else x :: insertByOff w l

def handle (line : String) : String :=
  match words line with
  | ["stream", ps, script, file] =>
    match ps.toNat?, parseScript script, parseFile file with
    | some ps, some sc, some (f, hex) =>
      let o := stream (fileServer f) (fun _ => 5) ps (f.length + 2) 0
      let (rs, ok) := showReqs (scriptFn sc) ps o.reqs 0
      -- a failing block ends the download: only the blocks before it were written
      let nw := if ok then o.writes.length else rs.length - 1
      let ws := (o.writes.take nw).map (showData hex)
      if !o.done then "no-stop" else
      if ok then s!"ok t={if o.typ.isSome then "some" else "none"} w={joinOr ws} r={joinOr rs}" else s!"err r={joinOr rs}"
    | _, _, _ => "bad-op"
  | ["par", ps, script, events, file] =>
    match ps.toNat?, parseScript script, parseEvents events, parseFile file with
    | some ps, some sc, some evs, some (f, hex) =>
      let k := (evs.filter (· == .alloc)).length
      let failing := (List.range k).any (fun i => !(attempts (scriptFn sc i)).2)
      if failing then "err" else
      match prun (fileServer f) (fun _ => 5) ps {} evs with
      | none => "trace-not-enabled"
      | some s =>
        if !s.finished then s!"not-finished held={s.held.length} stopped={s.stopped}" else
        let ws := (s.writes.foldl (fun acc w => insertByOff w acc) []).map
          (fun w => s!"{w.1}:{showData hex w.2}")
        let rs := (List.range s.k).map (fun i => s!"{offsetOf i ps}:{ps}:{(attempts (scriptFn sc i)).1}")
        s!"ok t={if s.typ.isSome then "some" else "none"} w={joinOr ws} r={joinOr rs}"
    | _, _, _, _ => "bad-op"
  | ["streamhuge", ps, size] =>
    -- files beyond 2 GiB: requests on lengths only
    match ps.toNat?, size.toNat? with
    | some ps, some size =>
      let rs := streamReqs size ps (size / (if ps = 0 then 1 else ps) + 3) 0
      "r=" ++ joinOr (rs.map (fun r => s!"{r.1}:{r.2}"))
    | _, _ => "bad-op"
  | _ => "bad-op"

def main : IO Unit := runDriver handle
