import TdModel.Model.C11
import TdModel.Prim.All
open TdModel TdModel.C11

def P : Prims := Prims.real

def showOpt : Option Bytes → String
  | none => "nil"
  | some b => "data " ++ toHex b

def handle (line : String) : String :=
  match words line with
  | ["guess", d] => match ofHex d with
    | some d => showOpt (guess P d)
    | none => "bad-op"
  | ["dec", nilFlag, data, key, iv] => match ofHex data, ofHex key, ofHex iv with
    | some data, some key, some iv =>
      if key.length == 16 || key.length == 24 then "unsupported-key-size" else
      match decryptAnswer P data key iv (nilFlag == "nil") with
      | .ok r => "ok " ++ showOpt r
      | .error e => "err " ++ e.tag
    | _, _, _ => "bad-op"
  | ["enc", rnd, answer, key, iv] => match ofHex rnd, ofHex answer, ofHex key, ofHex iv with
    | some rnd, some answer, some key, some iv =>
      if key.length == 16 || key.length == 24 then "unsupported-key-size" else
      match encryptAnswer P rnd answer key iv with
      | .ok r => "ok " ++ toHex r
      | .error e => "err " ++ e.tag
    | _, _, _, _ => "bad-op"
  | ["dwh", rnd, data] => match ofHex rnd, ofHex data with
    | some rnd, some data =>
      match dataWithHash P data rnd with
      | .ok r => "ok " ++ toHex r
      | .error e => "err " ++ e.tag
    | _, _ => "bad-op"
  | _ => "bad-op"

def main : IO Unit := runDriver handle
