import TdModel.Model.C08
open TdModel TdModel.C08

/-- `a/b` → (a, b). -/
def splitPair (s : String) : Option (String × String) :=
  match s.splitOn "/" with
  | [a, b] => some (a, b)
  | _ => none

/-- `clock/type` → (clock reading, message type). -/
def parseCall (s : String) : Option (Int × Nat) := do
  let (a, b) ← splitPair s
  let c ← a.toInt?
  let t ← b.toNat?
  pure (c, t)

def parseSection (s : String) : Option (Int × Bool) := do
  let (a, b) ← splitPair s
  let c ← a.toInt?
  let f ← (if b == "1" then some true else if b == "0" then some false else none)
  pure (c, f)

def parseObs (s : String) : Option (Nat × Nat × Bool) :=
  match s.splitOn "/" with
  | [a, b, c] => do
    let id ← a.toNat?
    let seq ← b.toNat?
    let f ← (if c == "1" then some true else if c == "0" then some false else none)
    pure (id, seq, f)
  | _ => none

def showNats (xs : List Nat) : String :=
  if xs.isEmpty then "-" else " ".intercalate (xs.map toString)

def handle (line : String) : String :=
  match words line with
  | "gen" :: calls => match calls.mapM parseCall with
    | some cs => showNats (genIdsT 0 cs)          -- the code as translated from the source
    | none => "bad-op"
  | "genold" :: calls => match calls.mapM parseCall with
    | some cs => showNats (genIdsWith genNextOld 0 (cs.map fun p => (p.1, yieldOf p.2)))
    | none => "bad-op"
  | ["mid", n, t] => match n.toNat?, t.toNat? with
    | some n, some t => toString (Facts.C08.newMessageIDNanoT n t).toNat
    | _, _ => "bad-op"
  | ["idinfo", i] => match i.toNat? with
    | some id => s!"{idType id} {idTime id}"
    | none => "bad-op"
  | "seq" :: flags => match flags.mapM (fun f => if f == "1" then some true else if f == "0" then some false else none) with
    | some fs => showNats (seqRun 0 fs)
    | none => "bad-op"
  | "conn" :: secs => match secs.mapM parseSection with
    | some ss =>
      let out := connRunT {} ss                   -- translated nextMsgSeq + translated New
      if out.isEmpty then "-" else " ".intercalate (out.map fun (i, s) => s!"{i}/{s}")
    | none => "bad-op"
  | "holds" :: obs => match obs.mapM parseObs with
    | some os => if holds os then "true" else "false"
    | none => "bad-op"
  | _ => "bad-op"

def main : IO Unit := runDriver handle
