import TdModel.Model.C17
open TdModel TdModel.Codec

/-- CRC-32 (IEEE, reflected 0xEDB88320), bit-at-a-time; driver-only stand-in for
`hash/crc32.ChecksumIEEE` (validated against Go by the harness through the `crc` op). -/
def crcByte (c : UInt32) (b : UInt8) : UInt32 := Id.run do
  let mut x := c ^^^ b.toUInt32
  for _ in [0:8] do
    x := if x &&& 1 == 1 then (x >>> 1) ^^^ 0xEDB88320 else x >>> 1
  return x

def crc32 (bs : Bytes) : Nat :=
  ((bs.foldl crcByte 0xFFFFFFFF) ^^^ 0xFFFFFFFF).toNat

def showRes (r : Res) : String :=
  let o := match r.out with
    | .ok f rest => s!"ok {toHex f} {rest.length}"
    | .err e => "err " ++ e.tag
    | .panic _ => "panic"
  s!"{o} A{r.maxAlloc}"

def handle (line : String) : String :=
  match words line with
  | ["read", k, seq, h] =>
    match Kind.ofTag k, seq.toInt?, ofHex h with
    | some k, some seq, some s => showRes (read TdModel.C17.cfg crc32 k seq s)
    | _, _, _ => "bad-op"
  | ["crc", h] => match ofHex h with
    | some s => toString (crc32 s)
    | none => "bad-op"
  | _ => "bad-op"

def main : IO Unit := runDriver handle
