import TdModel.Model.C17
import TdModel.Prim.CRC32
open TdModel TdModel.Codec

/-- `hash/crc32.ChecksumIEEE`: the executable primitive of `TdModel/Prim` (the harness also
re-validates it against Go through the `crc` op on every run). -/
def crc32 (bs : Bytes) : Nat := TdModel.Prim.crc32 bs

def showRes (r : Res) : String :=
  let o := match r.out with
    | .ok f rest => s!"ok {toHex f} {rest.length}"
    | .err e => "err " ++ e.tag
    | .panic _ => "panic"
  s!"{o} A{r.maxAlloc}"

def handle (line : String) : String :=
  match words line with
  | ["read", k, seq, h] =>
    match Kind.ofTag k, seq.toInt?, ofHex h with
    | some k, some seq, some s => showRes (read TdModel.C17.cfg crc32 k seq s)
    | _, _, _ => "bad-op"
  | ["crc", h] => match ofHex h with
    | some s => toString (crc32 s)
    | none => "bad-op"
  | _ => "bad-op"

def main : IO Unit := runDriver handle
