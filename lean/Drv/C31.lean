import TdModel.Model.C31
open TdModel TdModel.C31

/-! Line protocol (names are opaque tokens — the harness sends hex of the base name):

* `crash <path> <newhex> <ents> <op>…` → `atomic= fresh= durable= disciplined= pubs=<classes of the published contents|-> n=<k> <tok>…`, one token per crash state in
  order: `<class of readCur>/<classes of plReads joined by +>/<listing>`
* `final <path> <newhex> <ents> <op>…` → one token for the final state
* `shape <path> <newhex> <ents> <op>…` → the five flags only
* `abort <fd> <dfd> <tmp> <path> <chunkhex,…> <k>` → predicted trace when the k-th call fails
* `segments <path> <new0,new1,…> <ents> <op>…` → per save of a multi-save trace which content it atomically replaces (`x` = none)
`<newhex>` may be a comma-separated list of acceptable new contents (classes `new`, `new1`, …)
* `plreads <idx> <path> <newhex> <ents> <op>…` → the distinct power-loss contents of `path` in crash state `idx`
* `impl <fd> <dfd> <tmp> <path> <chunkhex,…>` → the trace predicted from the regenerated call list

ops: `o:fd:name:flags` (flags ⊆ cxta or -) `d:fd` `w:fd:hex` `s:fd` `c:fd` `r:a:b` `t:fd:n` `u:name` `x:tag`
ents: `-` or `name=hex,name=hex`
-/

def parseOp (t : String) : Option Op :=
  match t.splitOn ":" with
  | ["o", fd, name, fl] => do
    let fd ← fd.toNat?
    let has := fun (c : Char) => fl.toList.contains c
    pure (.openF fd name (has 'c') (has 'x') (has 't') (has 'a'))
  | ["d", fd] => do pure (.openDir (← fd.toNat?))
  | ["w", fd, h] => do pure (.write (← fd.toNat?) (← ofHex h))
  | ["s", fd] => do pure (.fsync (← fd.toNat?))
  | ["c", fd] => do pure (.close (← fd.toNat?))
  | ["r", a, b] => some (.rename a b)
  | ["t", fd, n] => do pure (.ftruncate (← fd.toNat?) (← n.toNat?))
  | ["u", n] => some (.unlink n)
  | ["x", tag] => some (.other tag)
  | _ => none

def showOp : Op → String
  | .openF fd name c x t a =>
    let fl := (if c then "c" else "") ++ (if x then "x" else "") ++ (if t then "t" else "") ++ (if a then "a" else "")
    s!"o:{fd}:{name}:{if fl.isEmpty then "-" else fl}"
  | .openDir fd => s!"d:{fd}"
  | .write fd d => s!"w:{fd}:{toHex d}"
  | .fsync fd => s!"s:{fd}"
  | .close fd => s!"c:{fd}"
  | .rename a b => s!"r:{a}:{b}"
  | .ftruncate fd n => s!"t:{fd}:{n}"
  | .unlink n => s!"u:{n}"
  | .other t => s!"x:{t}"

def parseEnts (s : String) : Option (List (String × Bytes)) :=
  if s == "-" then some []
  else (s.splitOn ",").mapM fun e =>
    match e.splitOn "=" with
    | [n, h] => do pure (n, ← ofHex h)
    | _ => none

def newTag (k : Nat) : String := if k = 0 then "new" else s!"new{k}"

/-- `news` = the acceptable new contents (one per concurrent / successive save). -/
def classify (old : Option Bytes) (news : List Bytes) (r : Option Bytes) : String :=
  if r == old then "old"
  else match r with
    | none => "none"
    | some b => match news.findIdx? (· == b) with
      | some k => newTag k
      | none => "other"

def token (s : FS) (path : String) (old : Option Bytes) (new : List Bytes) : String :=
  let cs := (plReads s path).map (classify old new)
  let pl := (["old"] ++ (List.range new.length).map newTag ++ ["none", "other"]).filter cs.contains
  let l := listing s
  classify old new (readCur s path) ++ "/" ++ "+".intercalate pl ++ "/" ++ (if l.isEmpty then "-" else l)

def freshTmp (tr : List Op) (s0 : FS) : Bool :=
  match tmpOf tr with
  | some t => (s0.dir t).isNone
  | none => true

structure Req where
  path : String
  news : List Bytes
  s0 : FS
  tr : List Op

def Req.new (q : Req) : Bytes := q.news.headD []

def parseReq : List String → Option Req
  | path :: new :: ents :: ops => do
    pure { path := path, news := ← (new.splitOn ",").mapM ofHex, s0 := initFS (← parseEnts ents), tr := ← ops.mapM parseOp }
  | _ => none

def b01 (b : Bool) : String := if b then "1" else "0"

def flags (q : Req) : List String :=
  let pubs := (published q.path q.s0 q.tr).map fun c => classify none q.news (some c)
  ["atomic=" ++ b01 (isAtomicReplace q.tr q.path q.new), "fresh=" ++ b01 (freshTmp q.tr q.s0),
   "durable=" ++ b01 (isDurableReplace q.tr q.path q.new), "disciplined=" ++ b01 (disciplined q.path q.s0 q.tr),
   "pubs=" ++ (if pubs.isEmpty then "-" else "+".intercalate pubs)]

/-- Saves of a multi-save trace: a new one starts at every file `open`. -/
def splitSaves (tr : List Op) : List (List Op) :=
  let step := fun (acc : List (List Op)) (op : Op) =>
    match op, acc with
    | .openF .., _ => acc ++ [[op]]
    | _, [] => [[op]]
    | _, _ => acc.dropLast ++ [acc.getLast! ++ [op]]
  tr.foldl step []

def handle (line : String) : String :=
  match words line with
  | "crash" :: rest =>
    match parseReq rest with
    | some q =>
      let old := readCur q.s0 q.path
      let sts := crashStates q.tr q.s0
      " ".intercalate (flags q ++ [s!"n={sts.length}"] ++ sts.map fun s => token s q.path old q.news)
    | none => "bad-op"
  | "shape" :: rest =>
    match parseReq rest with
    | some q => " ".intercalate (flags q)
    | none => "bad-op"
  | "final" :: rest =>
    match parseReq rest with
    | some q => token (run q.tr q.s0) q.path (readCur q.s0 q.path) q.news
    | none => "bad-op"
  | "plreads" :: idx :: rest =>
    match idx.toNat?, parseReq rest with
    | some i, some q =>
      match (crashStates q.tr q.s0)[i]? with
      | some s => " ".intercalate (((plReads s q.path).eraseDups).map fun r =>
          match r with
          | none => "none"
          | some b => toHex b)
      | none => "bad-op"
    | _, _ => "bad-op"
  | ["abort", fd, dfd, tmp, path, chunks, k] =>
    match fd.toNat?, dfd.toNat?, (chunks.splitOn ",").mapM ofHex, k.toNat? with
    | some fd, some dfd, some cs, some k =>
      let tr := implAbort fd dfd tmp path cs k
      if tr.isEmpty then "-" else " ".intercalate (tr.map showOp)
    | _, _, _, _ => "bad-op"
  | "segments" :: rest =>
    match parseReq rest with
    | some q =>
      -- replay save after save: each segment must be an atomic replacement of one of the contents
      -- (durability of completed saves is checked on the power-loss classes by the harness)
      let step := fun (acc : FS × List String) (seg : List Op) =>
        let k := q.news.findIdx? fun n => isAtomicReplace seg q.path n && freshTmp seg acc.1
        (run seg acc.1, acc.2 ++ [match k with
          | some k => newTag k
          | none => "x"])
      let r := (splitSaves q.tr).foldl step (q.s0, [])
      if r.2.isEmpty then "-" else " ".intercalate r.2
    | none => "bad-op"
  | ["impl", fd, dfd, tmp, path, chunks] =>
    match fd.toNat?, dfd.toNat?, (chunks.splitOn ",").mapM ofHex with
    | some fd, some dfd, some cs => " ".intercalate ((implTrace fd dfd tmp path cs).map showOp)
    | _, _, _ => "bad-op"
  | _ => "bad-op"

def main : IO Unit := runDriver handle
