import TdModel.Util
import TdModel.Model.C01
import TdModel.Model.C01Prog
open TdModel TdModel.C01

namespace DrvC01

def parseInts (s : String) (sep : String) : Option (List Int) :=
  (s.splitOn sep).mapM String.toInt?

def parseUpd (s : String) : Option Upd :=
  match parseInts s ":" with
  | some [st, c, t] => some { state := st, count := c, tag := t.toNat }
  | _ => none

def parseUpds (s : String) : Option (List Upd) :=
  if s == "_" then some [] else (s.splitOn ",").mapM parseUpd

def parseGaps (s : String) : Option (List Gap) :=
  if s == "_" then some []
  else (s.splitOn ",").mapM fun g =>
    match parseInts g ":" with
    | some [a, b] => some (a, b)
    | _ => none

def parseOp (s : String) : Option Op :=
  match s.splitOn ":" with
  | ["h", st, c, t, ok] => do
    let st ← st.toInt?
    let c ← c.toInt?
    let t ← t.toNat?
    pure (.handle { state := st, count := c, tag := t } (ok == "1"))
  | ["s", x] => do pure (.setState (← x.toInt?))
  | ["c"] => some .clearGaps
  | ["a", ok] => some (.applyPending (ok == "1"))
  | _ => none

def showUpds (us : List Upd) : String :=
  if us.isEmpty then "_" else ",".intercalate (us.map fun u => s!"{u.state}:{u.count}:{u.tag}")

def showGaps (gs : List Gap) : String :=
  if gs.isEmpty then "_" else ",".intercalate (gs.map fun g => s!"{g.1}:{g.2}")

def showEv : Ev → String
  | .apply ns us ok => s!"A{ns};{if ok then 1 else 0};{showUpds us}"
  | .setState x => s!"S{x}"

def showEvs (es : List Ev) : String :=
  if es.isEmpty then "_" else "+".intercalate (es.map showEv)

def parseEv (s : String) : Option Ev :=
  if s.startsWith "S" then do pure (.setState (← (s.drop 1).toString.toInt?))
  else if s.startsWith "A" then
    match (s.drop 1).toString.splitOn ";" with
    | [ns, ok, us] => do pure (.apply (← ns.toInt?) (← parseUpds us) (ok == "1"))
    | _ => none
  else none

def parseEvs (s : String) : Option (List Ev) :=
  if s == "_" then some [] else (s.splitOn "+").mapM parseEv

/-- Every op's full box snapshot and events. -/
def trace (b : Box) : List Op → List String
  | [] => []
  | op :: ops =>
    let r := stepI regenProgs b op   -- the programs regenerated from the current source, interpreted
    let b' := r.1
    s!"{b'.state}|{showGaps b'.gaps}|{showUpds b'.pending}|{if b'.armed then 1 else 0}|{showEvs r.2}" :: trace b' ops

def parseObs (ws : List String) : Option Obs :=
  ws.mapM fun w =>
    match w.splitOn "|" with
    | [st, evs] => do pure ((← parseEvs evs), (← st.toInt?))
    | _ => none

def flat (o : Obs) : List Ev := (o.map (·.1)).flatten

def b2s (b : Bool) : String := if b then "1" else "0"

def handle (line : String) : String :=
  match words line with
  | "box" :: s0 :: gaps :: pend :: ops =>
    match s0.toInt?, parseGaps gaps, parseUpds pend, ops.mapM parseOp with
    | some s0, some g, some p, some ops =>
      let b : Box := { state := s0, gaps := g, pending := p }
      " ".intercalate (trace b ops) ++ " H=" ++ b2s (holds s0 (observeI regenProgs b ops))
    | _, _, _, _ => "bad-op"
  | "holds" :: s0 :: obs =>
    match s0.toInt?, parseObs obs with
    | some s0, some o =>
      let evs := flat o
      s!"holds={b2s (holds s0 o)} mono={b2s (monoDiffs s0 evs)} ordered={b2s (orderedRanges (delivered evs))}"
    | _, _ => "bad-op"
  | ["gap", l, r, c] =>
    match l.toInt?, r.toInt?, c.toInt? with
    | some l, some r, some c =>
      match checkGap l r c with
      | .apply => toString Facts.C01.gapApply
      | .ignore => toString Facts.C01.gapIgnore
      | .refetch => toString Facts.C01.gapRefetch
      | .invalid => "invalid"
    | _, _, _ => "bad-op"
  | ["consume", gaps, u] =>
    match parseGaps gaps, parseUpd u with
    | some g, some u =>
      match consumeI regenProgs.consumeBody g u with
      | some g' => showGaps g'
      | none => "none"
    | _, _ => "bad-op"
  | _ => "bad-op"

end DrvC01

def main : IO Unit := runDriver DrvC01.handle
