import TdModel.Model.C07
open TdModel TdModel.C07

def showBits (vs : List Bool) : String :=
  if vs.isEmpty then "-" else String.ofList (vs.map fun v => if v then '1' else '0')

def parseFrame (s : String) : Option (Int × Bool × Msg) :=
  match s.splitOn "," with
  | [now, k, sess, id, seq, len, pad] => do
    let now ← now.toInt?
    let k ← (if k == "1" then some true else if k == "0" then some false else none)
    let sess ← sess.toInt?
    let id ← id.toInt?
    let seq ← seq.toInt?
    let len ← len.toInt?
    let pad ← pad.toNat?
    pure (now, k, { session := sess, msgId := id, seqNo := seq, dataLen := len, padding := pad })
  | _ => none

def showEffect (e : Effect) : Char :=
  match e.handled, e.ack with
  | none, _ => '-'
  | some _, false => 'h'
  | some _, true => 'H'

def handle (line : String) : String :=
  match words line with
  | "buf" :: n :: ids => match n.toNat?, ids.mapM String.toInt? with
    | some n, some ids => showBits (runBuf (newBuf n) ids).2
    | _, _ => "bad-op"
  | "bufold" :: n :: ids => match n.toNat?, ids.mapM String.toInt? with
    | some n, some ids => showBits (runBufWith consumeOld (newBuf n) ids).2
    | _, _ => "bad-op"
  | ["chk", now, id] => match now.toInt?, id.toInt? with
    | some now, some id => if checkMessageID now id then "1" else "0"
    | _, _ => "bad-op"
  | "conn" :: sess :: n :: frames => match sess.toInt?, n.toNat?, frames.mapM parseFrame with
    | some sess, some n, some fs =>
      let out := runConnW { session := sess, buf := newBuf n } fs   -- order of checks as read from the source
      if out.isEmpty then "-" else String.ofList (out.map showEffect)
    | _, _, _ => "bad-op"
  | _ => "bad-op"

def main : IO Unit := runDriver handle
