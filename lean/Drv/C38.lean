import TdModel.Model.C38
open TdModel TdModel.C38

def showFileID (f : FileID) : String :=
  let p := f.pss
  " ".intercalate ([f.type, f.dc, f.id, f.accessHash].map toString ++ [toHex f.fileRef, toHex f.url] ++
    [p.type, p.volumeID, p.localID, p.secret, p.fileType, p.thumbType, p.dialogID, p.dialogAH, p.setID, p.setAH,
     p.stickerVersion].map toString)

def parseFileID (ws : List String) : Option FileID :=
  match ws with
  | [t, dc, id, ah, ref, url, pt, vol, loc, sec, ft, tt, did, dah, sid, sah, sv] => do
    let ns ← [t, dc, id, ah, pt, vol, loc, sec, ft, tt, did, dah, sid, sah, sv].mapM String.toNat?
    match ns with
    | [t, dc, id, ah, pt, vol, loc, sec, ft, tt, did, dah, sid, sah, sv] =>
      pure { type := t, dc := dc, id := id, accessHash := ah, fileRef := (← ofHex ref), url := (← ofHex url),
             pss := { type := pt, volumeID := vol, localID := loc, secret := sec, fileType := ft, thumbType := tt,
                      dialogID := did, dialogAH := dah, setID := sid, setAH := sah, stickerVersion := sv } }
    | _ => none
  | _ => none

def handle (line : String) : String :=
  match words line with
  | ["rleenc", h] => match ofHex h with
    | some b => toHex (rleEncode b)
    | none => "bad-op"
  | ["rledec", h] => match ofHex h with
    | some b => toHex (rleDecode b)
    | none => "bad-op"
  | "enc" :: rest => match parseFileID rest with
    | some f => toHex (encodeRaw f) ++ " " ++ (if decide f.canon then "canon" else "noncanon")
    | none => "bad-op"
  | ["dec", h] => match ofHex h with
    | some b => match decodeRaw b with
      | .ok f => "ok " ++ showFileID f
      | .error e => "err " ++ e.tag
    | none => "bad-op"
  | _ => "bad-op"

def main : IO Unit := runDriver handle
