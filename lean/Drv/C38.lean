import TdModel.Model.C38
open TdModel TdModel.C38

def showFileID (f : FileID) : String :=
  let p := f.pss
  " ".intercalate ([f.type, f.dc, f.id, f.accessHash].map toString ++ [toHex f.fileRef, toHex f.url] ++
    [p.type, p.volumeID, p.localID, p.secret, p.fileType, p.thumbType, p.dialogID, p.dialogAH, p.setID, p.setAH,
     p.stickerVersion].map toString)

def parseFileID (ws : List String) : Option FileID :=
  match ws with
  | [t, dc, id, ah, ref, url, pt, vol, loc, sec, ft, tt, did, dah, sid, sah, sv] => do
    let ns ← [t, dc, id, ah, pt, vol, loc, sec, ft, tt, did, dah, sid, sah, sv].mapM String.toNat?
    match ns with
    | [t, dc, id, ah, pt, vol, loc, sec, ft, tt, did, dah, sid, sah, sv] =>
      pure { type := t, dc := dc, id := id, accessHash := ah, fileRef := (← ofHex ref), url := (← ofHex url),
             pss := { type := pt, volumeID := vol, localID := loc, secret := sec, fileType := ft, thumbType := tt,
                      dialogID := did, dialogAH := dah, setID := sid, setAH := sah, stickerVersion := sv } }
    | _ => none
  | _ => none

def handle (line : String) : String :=
  match words line with
  | ["rleenc", h] => match ofHex h with
    | some b => toHex (rleEncode b)
    | none => "bad-op"
  | ["rledec", h] => match ofHex h with
    | some b => toHex (rleDecode b)
    | none => "bad-op"
  | "enc" :: rest => match parseFileID rest with
    | some f => toHex (encodeRaw f) ++ " " ++ (if decide f.canon then "canon" else "noncanon")
    | none => "bad-op"
  | ["fromdoc", attrs, dc, id, ah, ref] =>
    let parseA : Char → Option DocAttr := fun c =>
      if c = 'a' then some .animated else if c = 's' then some .sticker else if c = 'v' then some (.video false)
      else if c = 'r' then some (.video true) else if c = 'u' then some (.audio false) else if c = 'o' then some (.audio true)
      else if c = 'f' then some .other else none
    match (if attrs == "-" then some [] else attrs.toList.mapM parseA), dc.toNat?, id.toNat?, ah.toNat?, ofHex ref with
    | some as, some dc, some id, some ah, some ref =>
      let f := fromDocument as dc id ah ref
      (if decide f.canon then "canon " else "noncanon ") ++ showFileID f
    | _, _, _, _, _ => "bad-op"
  | ["fromphoto", th, dc, id, ah, ref] =>
    match th.toNat?, dc.toNat?, id.toNat?, ah.toNat?, ofHex ref with
    | some th, some dc, some id, some ah, some ref =>
      let f := fromPhoto th dc id ah ref
      (if decide f.canon then "canon " else "noncanon ") ++ showFileID f
    | _, _, _, _, _ => "bad-op"
  | ["fromchat", big, peer, ah, dc, pid] =>
    match big.toNat?, peer.toNat?, ah.toNat?, dc.toNat?, pid.toNat? with
    | some big, some peer, some ah, some dc, some pid =>
      let f := fromChatPhoto (big = 1) peer ah dc pid
      (if decide f.canon then "canon " else "noncanon ") ++ showFileID f
    | _, _, _, _, _ => "bad-op"
  | ["dec", h] => match ofHex h with
    | some b => match decodeRaw b with
      | .ok f => "ok " ++ showFileID f
      | .error e => "err " ++ e.tag
    | none => "bad-op"
  | _ => "bad-op"

def main : IO Unit := runDriver handle
