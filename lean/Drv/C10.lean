import TdModel.Model.C09Wire
import TdModel.Model.C09BytesWire
import TdModel.Model.C10Prog
import TdModel.Prim.SHA1
open TdModel TdModel.C09

/-- `client k=v … ; msg ; msg ; …` → final client state and everything the client sent, for the
client fed with the given incoming messages. -/
def client (ws : List String) : Option String :=
  match splitAt ";" ws with
  | [] => none
  | hd :: msgs =>
    match oracles hd, parseCCfg hd, parseCTape hd, msgs.mapM parseMsg with
    | some (isPrime, factor), some cfg, some tape, some ms =>
      let P := symXP Prim.sha1 isPrime factor
      let (c0, m0) := cinit (Ct := Sym) tape
      -- the client as interpreted from the regenerated statement list (= `crun`, Props/C10 `program_run_is_model`)
      let (c, outs) := crunI P cfg tape c0 ms
      some s!"{showCState Prim.sha1 c} || {showTranscript (m0 :: outs)}"
    | _, _, _, _ => none

def handle (line : String) : String :=
  match words line with
  | "client" :: ws => (client ws).getD "bad-op"
  | ws => (bytesOp ws).getD "bad-op"

def main : IO Unit := runDriver handle
