import TdModel.Model.C15
import TdModel.Prim.All
open TdModel TdModel.C14 TdModel.C15

def realPrims : SrpPrims := { sha256 := Prim.sha256, pbkdf2 := Prim.pbkdf2Sha512, powMod := Prim.modPow }

def run (S : SrpPrims) (g : Int) (p : Bytes) (pr1 pr2 : String) (pw s1 s2 srpB random : Bytes) : String :=
  let pN : Int := (beNat p : Int)
  -- the two answers of crypto.Prime (for p and (p-1)/2) are oracle inputs
  let isPrime : Int → Bool := fun n => if n = pN then pr1 == "1" else pr2 == "1"
  match Impl.srpHash S isPrime pw srpB random { salt1 := s1, salt2 := s2, g := g, p := p } with
  | .ok (a, m1) => s!"ok {toHex a} {toHex m1} {toHex (Impl.primary S pw s1 s2)}"
  | .error e => "err " ++ e.tag

def handle (line : String) : String :=
  match words line with
  | ["srp", g, p, pr1, pr2, pw, s1, s2, srpB, random] =>
    match g.toInt?, [p, pw, s1, s2, srpB, random].mapM ofHex with
    | some g, some [p, pw, s1, s2, srpB, random] => run realPrims g p pr1 pr2 pw s1 s2 srpB random
    | _, _ => "bad-op"
  | ["srpk", g, p, pr1, pr2, pw, s1, s2, srpB, random, kd] =>
    match g.toInt?, [p, pw, s1, s2, srpB, random, kd].mapM ofHex with
    | some g, some [p, pw, s1, s2, srpB, random, kd] =>
      run { realPrims with pbkdf2 := fun _ _ _ _ => kd } g p pr1 pr2 pw s1 s2 srpB random
    | _, _ => "bad-op"
  | ["newhash", g, p, pr1, pr2, pw, s1, s2, tape, kd] =>
    match g.toInt?, [p, pw, s1, s2, tape, kd].mapM ofHex with
    | some g, some [p, pw, s1, s2, tape, kd] =>
      let pN : Int := (beNat p : Int)
      let isPrime : Int → Bool := fun n => if n = pN then pr1 == "1" else pr2 == "1"
      let S : SrpPrims := { realPrims with pbkdf2 := fun _ _ _ _ => kd }
      match Impl.newHash S isPrime pw tape { salt1 := s1, salt2 := s2, g := g, p := p } with
      | .ok (h, salt) => s!"ok {toHex h} {toHex salt} {toHex (Impl.primary S pw salt s2)}"
      | .error e => "err " ++ e.tag
    | _, _ => "bad-op"
  | _ => "bad-op"

def main : IO Unit := runDriver handle
