#!/bin/bash
# tools/final.sh [parallel] — final pipeline on a quiescent tree: regenerate evidence (quick, seed 1) for every claimed
# check against /repo itself, validate manifest + evidence against the schemas, merge notes, regenerate MANIFEST.
cd "$(dirname "$0")/.."
par=${1:-4}
[ -z "$(git -C /repo status --short | grep -v '^??')" ] || { echo "/repo has uncommitted tracked changes"; git -C /repo status --short; exit 1; }
python3 tools/gen_manifest.py
python3 tools/merge_notes.py
props=$(python3 -c "import json;print(' '.join(c['property_id'] for c in json.load(open('MANIFEST.json'))['checks']))")
rm -f /tmp/lead/final.log
for p in $props; do echo $p; done | xargs -P $par -I{} bash -c 'out=$(VERIF_SEED=1 ./check {} quick 2>&1); rc=$?; echo "{} rc=$rc $(echo "$out" | grep -E "^(VIOLATION|OK|KNOWN)" | tr "\n" " " | cut -c1-220)" >> /tmp/lead/final.log'
sort /tmp/lead/final.log
echo "non-zero: $(grep -vc 'rc=0' /tmp/lead/final.log)"
python3-vt - <<'PY'
import json, jsonschema, glob
ms = json.load(open('/root/.vp/MANIFEST.schema.json')); es = json.load(open('/root/.vp/EVIDENCE.schema.json'))
m = json.load(open('/verif/MANIFEST.json')); jsonschema.validate(m, ms); print('manifest valid,', len(m['checks']), 'checks')
bad = 0
for c in m['checks']:
    try:
        e = json.load(open(c['evidence_file'])); jsonschema.validate(e, es)
        cov = e['coverage']
        if cov['discharged'] != cov['obligations'] or e.get('violations', 0): print('ATTN', c['property_id'], cov['discharged'], cov['obligations'], e.get('violations'))
    except Exception as ex:
        bad += 1; print('BAD evidence', c['property_id'], str(ex)[:200])
print('evidence files invalid:', bad)
PY
