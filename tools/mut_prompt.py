#!/usr/bin/env python3
"""Print the prompt for a fresh mutation sub-agent for property Cxx (only the property text + a scratch worktree)."""
import json, sys
pid = sys.argv[1]
rec = [json.loads(l) for l in open('/verif/properties.jsonl') if json.loads(l)['id'] == pid][0]
rec = {k: rec[k] for k in ('id', 'title', 'statement', 'quantifier', 'why_tests_cant', 'anchors')}
print(f"""You have a private scratch git worktree of the Go library gotd/td (a pure-Go Telegram MTProto client) at /tmp/mut/{pid}. Work ONLY inside /tmp/mut/{pid} and /tmp/mut/{pid}-out. Never read or touch /repo or /verif (do not look at them at all). No network. Environment for every shell call: `export GOFLAGS=-mod=mod GOPROXY=off` (never set GOSUMDB=off). The first `go test` of a package importing `tg` takes ~2 minutes to compile, then seconds.

Here is a behavioural property that users of the library rely on:

{json.dumps(rec, indent=1)}

Your task: produce a realistic change to gotd/td's NON-TEST source that BREAKS this property while
 (1) the code still compiles (`go build ./...`),
 (2) the existing test-suite still passes — the machine is shared and heavily loaded, so run the tests of the packages you touched and of the packages that import them (find them with `go list -f '{{{{.ImportPath}}}} {{{{.Imports}}}}' ./... | grep <pkg>`), with `go test -p 4 -vet=off -count=1 -timeout 25m <pkgs>`; the full suite will be re-run by someone else later, so be honest about what you ran. Timing-sensitive tests may flake under load: re-run a failing package once before concluding your change caused it, and
 (3) the breakage needs something specific to manifest — a particular interleaving, a crash or fault at a particular point, a multi-step sequence of operations, an unusual input or boundary value, or two cooperating sites that each look fine alone — NOT something ordinary use would expose at once.
It should look like a bug a refactoring, optimisation or "simplification" could plausibly introduce (off-by-one in a bound, dropped or reordered check, wrong variable, lost update, missing unlock path, changed constant, …). Do not edit tests, files whose name starts with `verif_`, or files with a `//go:build verif` tag. Keep the patch small.

Give a demonstration: a Go test file (or small program) that FAILS with your change and PASSES without it. Verify both directions yourself with `git diff > /tmp/mut/{pid}-out/wip.diff; git apply -R /tmp/mut/{pid}-out/wip.diff; <run demo>; git apply /tmp/mut/{pid}-out/wip.diff` — NEVER use `git stash` (the stash is shared with other people's worktrees of the same repository and will swap changes between them).

Write your results to /tmp/mut/{pid}-out/:
 - patch1.diff  : `git diff` of the non-test source change only (relative to HEAD; must apply with `git apply` at the repository root)
 - demo1_test.go: the demonstration, with a comment at the top naming the package directory it must be placed in and the exact command to run it
 - meta1.json   : {{"property": "{pid}", "summary": "...", "needs_to_manifest": "...", "files_changed": [...], "demo_dir": "...", "demo_cmd": "...", "suite_cmd_run": "...", "suite_result": "..."}}
If you can, produce a second, different mutation (different mechanism or code site) as patch2.diff / demo2_test.go / meta2.json.
When finished leave the worktree clean (`git checkout -- . && git clean -fdq`). Your final message: a short description of each mutation and confirmation of what you verified.""")
