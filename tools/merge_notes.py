#!/usr/bin/env python3
"""Rebuild DESIGN.md section 12 (between the NOTES markers) from notes/Cxx.md."""
import os, re, json
R = os.path.dirname(os.path.dirname(os.path.abspath(__file__)))
ids = [json.loads(l)["id"] for l in open(os.path.join(R, "properties.jsonl"))]
out = []
for i in ids:
    p = os.path.join(R, "notes", i + ".md")
    if not os.path.exists(p):
        continue
    txt = open(p).read().strip()
    txt = re.sub(r"^(#+) ", lambda m: "#" * min(6, len(m.group(1)) + 2) + " ", txt, flags=re.M)
    out.append(txt)
body = "\n\n".join(out)
d = open(os.path.join(R, "DESIGN.md")).read()
b, e = "<!-- NOTES-BEGIN -->", "<!-- NOTES-END -->"
if b not in d:
    d += "\n\n## 12. What was built, per property (generated from notes/Cxx.md by tools/merge_notes.py)\n\n" + b + "\n" + e + "\n"
d = d[: d.index(b) + len(b)] + "\n" + body + "\n" + d[d.index(e):]
open(os.path.join(R, "DESIGN.md"), "w").write(d)
print("merged", len(out), "notes")
