#!/usr/bin/env python3
"""
tools/seeded_run.py PATCH.diff Cxx [Cyy ...] [--tier quick] [--slot N]

Runs ./check for the given properties against a scratch copy of /repo with PATCH applied, without
touching /repo (so that work in /repo is not disturbed).  A scratch copy of /verif (including its
build directories) is made under /tmp/vt<slot>/verif with the harness' `replace` pointed at the
scratch repository /tmp/vt<slot>/repo (a git worktree of /repo HEAD + uncommitted hook files).
Prints one line per property: CAUGHT (exit 1 + VIOLATION line), MISSED (exit 0), or ERROR.
This is a development aid; the registered way (apply to /repo, run, checkout) gives the same result.
"""
import json, os, subprocess, sys, shutil
args = [a for a in sys.argv[1:] if not a.startswith("--")]
tier = "quick"; slot = "0"
for i, a in enumerate(sys.argv):
    if a == "--tier": tier = sys.argv[i + 1]
    if a == "--slot": slot = sys.argv[i + 1]
args = [a for a in args if a not in (tier, slot) or a.endswith(".diff") or a.startswith("C")]
patch = os.path.abspath(args[0]); props = [a for a in args[1:] if a.startswith("C")]
base = "/tmp/vt" + slot
vrepo, vverif = base + "/repo", base + "/verif"
os.makedirs(base, exist_ok=True)
def run(cmd, **kw):
    return subprocess.run(cmd, shell=True, text=True, capture_output=True, **kw)
if not os.path.isdir(vrepo):
    r = run(f"git -C /repo worktree add -q --detach {vrepo} HEAD")
    if r.returncode: print("ERROR worktree", r.stderr); sys.exit(2)
run(f"git -C {vrepo} checkout -q --detach $(git -C /repo rev-parse HEAD) && git -C {vrepo} checkout -q -- . && git -C {vrepo} clean -fdq")
# bring over uncommitted hook files of /repo (untracked verif_* files), then the patch
run(f"cd /repo && git ls-files -o --exclude-standard | grep verif_ | rsync -a --files-from=- /repo/ {vrepo}/")
r = run(f"git -C {vrepo} apply --whitespace=nowarn {patch}")
if r.returncode: print("ERROR patch does not apply:", r.stderr.strip()); sys.exit(2)
run(f"rsync -a --delete --exclude .git --exclude replays --exclude evidence /verif/ {vverif}/")
gm = open(vverif + "/harness/go.mod").read().replace("=> /repo", "=> " + vrepo)
open(vverif + "/harness/go.mod", "w").write(gm)
env = dict(os.environ, VERIF_REPO=vrepo)
out = {}
for p in props:
    r = subprocess.run(["./check", p, tier], cwd=vverif, env=env, text=True, capture_output=True)
    lines = [l for l in r.stdout.splitlines() if l.startswith(("VIOLATION", "KNOWN", "BROKEN", "OK"))]
    verdict = "CAUGHT" if (r.returncode == 1 and any(l.startswith("VIOLATION") for l in lines)) else ("MISSED" if r.returncode == 0 else "ERROR rc=%d" % r.returncode)
    print(p, verdict, "|", " ; ".join(l[:160] for l in lines))
    out[p] = {"verdict": verdict, "lines": lines}
    rp = [l.split("replay=")[1].split()[0] for l in lines if "replay=" in l]
    if rp and os.path.exists(rp[0]):
        out[p]["replay"] = json.load(open(rp[0]))
json.dump(out, open(base + "/last.json", "w"), indent=1)
run(f"git -C {vrepo} checkout -q -- . && git -C {vrepo} clean -fdq")
