#!/bin/bash
# tools/intake_mut.sh Cxx <slot>: verify every candidate in /tmp/mut/Cxx-out independently and keep the confirmed ones as seeded/Cxx-n/.
p=$1; slot=${2:-0}; out=/tmp/mut/$p-out
for n in 1 2 3 4; do
  [ -f $out/patch$n.diff ] && [ -f $out/meta$n.json ] && [ -f $out/demo${n}_test.go ] || continue
  /verif/tools/verify_seeded.sh $out $n $slot > /tmp/mut/$p-out/verify$n.log 2>&1
  python3 - $p $n <<'PY'
import json,sys,os,shutil
p,n=sys.argv[1],sys.argv[2]
out=f"/tmp/mut/{p}-out"
v=json.load(open(f"{out}/verify{n}.json")); m=json.load(open(f"{out}/meta{n}.json"))
ok = v["applies"]=="yes" and v["builds"]=="yes" and v["demo_with_patch"]=="fail" and v["demo_without_patch"]=="pass" and v["suite_with_patch"] in ("pass","skipped")
d=f"/verif/seeded/{p}-{n}"
if ok:
    os.makedirs(d,exist_ok=True)
    shutil.copy(f"{out}/patch{n}.diff",f"{d}/patch.diff"); shutil.copy(f"{out}/demo{n}_test.go",f"{d}/demo_test.go")
    meta={"property":p,"breaks":m.get("summary"),"needs_to_manifest":m.get("needs_to_manifest"),"files_changed":m.get("files_changed"),
          "demo_dir":m.get("demo_dir"),"demo_cmd":m.get("demo_cmd"),
          "confirmed_by_lead":{"how":"tools/verify_seeded.sh in a scratch worktree of /repo HEAD: git apply, go build ./..., demo fails with patch, demo passes without, unedited baseline suite (go test -vet=off -count=1 ./...) passes with patch", **v},
          "checks_run":[]}
    json.dump(meta,open(f"{d}/meta.json","w"),indent=1)
print(p,n,"KEPT" if ok else "REJECTED",v)
PY
done
