#!/usr/bin/env python3
"""Print a status table of all properties (files present, theorem count, last evidence)."""
import json, os, re
R = os.path.dirname(os.path.dirname(os.path.abspath(__file__)))
ids = [json.loads(l)["id"] for l in open(os.path.join(R, "properties.jsonl"))]
print("%-4s %-5s %-5s %-5s %-4s %-5s %-4s | %s" % ("id", "model", "props", "drv", "harn", "meta", "note", "evidence"))
for i in ids:
    ex = lambda *p: os.path.exists(os.path.join(R, *p))
    thm = 0
    if ex("lean", "TdModel", "Props", i + ".lean"):
        thm = len(re.findall(r"^\s*(?:private\s+)?theorem\s", open(os.path.join(R, "lean", "TdModel", "Props", i + ".lean")).read(), flags=re.M))
    ev = ""
    if ex("evidence", i + ".json"):
        try:
            e = json.load(open(os.path.join(R, "evidence", i + ".json")))
            c = e["coverage"]
            ev = "%s thm %d/%d eval %d nontriv %d disagree %s fail %s viol %s %.0fs" % (e["tier"], c.get("discharged", 0), c.get("obligations", 0), c.get("evaluations", 0), c.get("distinct_nontrivial", 0), c.get("disagreements"), c.get("monitor_failures"), e.get("violations"), e["wall_s"])
        except Exception as x:
            ev = "bad evidence: %s" % x
    print("%-4s %-5s %-5s %-5s %-4s %-5s %-4s | %s" % (i, "y" if any(n.startswith(i) for n in os.listdir(os.path.join(R, "lean/TdModel/Model"))) else "-", thm or "-", "y" if ex("lean", "Drv", i + ".lean") else "-", "y" if ex("harness", i.lower(), "main.go") else "-", "y" if ex("meta", i + ".json") else "-", "y" if ex("notes", i + ".md") else "-", ev))
