#!/bin/bash
# tools/mut_cycle.sh Cxx...: intake finished mutation agents' outputs (3/4 numbering supported), commit, run them against the checks.
cd /verif
ids=""
for p in "$@"; do
  for n in 1 2 3 4; do python3 - $p $n <<'PY'
import json,sys,os
p,n=sys.argv[1],sys.argv[2]
f=f'/tmp/mut/{p}-out/meta{n}.json'
if not os.path.exists(f): sys.exit()
m=json.load(open(f))
c=m.get('demo_cmd','')
if c.startswith('cp ') and '&&' in c: m['demo_cmd']=c.split('&&',1)[1].strip(); json.dump(m,open(f,'w'),indent=1)
PY
  done
  for l in $(SKIP_SUITE=1 tools/intake_mut.sh $p ${INTAKE_SLOT:-1} 2>&1 | grep -E "KEPT" | awk '{print $1"-"$2}'); do ids="$ids $l"; done
  git -C /repo worktree remove --force /tmp/mut/$p 2>/dev/null
done
echo "kept:$ids"
git add seeded; git commit -qm "seeded: intake $*" -- seeded | tail -1
[ -n "$ids" ] && python3 tools/seeded_all.py --slots 3 $ids
