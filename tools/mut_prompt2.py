#!/usr/bin/env python3
"""Second-wave mutation prompt: same as mut_prompt.py plus a list of code sites/mechanisms already used (to diversify)."""
import json, sys, os, subprocess, glob
pid = sys.argv[1]
base = subprocess.run([sys.executable, os.path.join(os.path.dirname(__file__), "mut_prompt.py"), pid], capture_output=True, text=True).stdout
used = []
for mp in sorted(glob.glob(f"/verif/seeded/{pid}-*/meta.json")):
    m = json.load(open(mp))
    used.append("- %s: %s" % (", ".join(m.get("files_changed") or []), (m.get("breaks") or "")[:260].replace("\n", " ")))
extra = "\n\nEarlier independent attempts on this property already used the following code sites / mechanisms — choose DIFFERENT sites and mechanisms (a different function, a different clause of the property, a different kind of trigger):\n" + "\n".join(used) + "\nName your output files patch3.diff/demo3_test.go/meta3.json and patch4.diff/demo4_test.go/meta4.json (instead of 1 and 2).\n"
print(base.replace("When finished leave the worktree clean", extra + "When finished leave the worktree clean"))
