#!/bin/bash
# tools/sweep.sh <tier> <parallel> <seed>...   — run every claimed check on the unchanged tree for the given seeds;
# prints one line per run: property seed rc wall verdict-line. Any rc!=0 on the unchanged tree is a false alarm to fix.
tier=$1; par=$2; shift 2
cd "$(dirname "$0")/.."
props=${PROPS:-$(python3 -c "import json;print(' '.join(c['property_id'] for c in json.load(open('MANIFEST.json'))['checks']))")}
for s in "$@"; do for p in $props; do echo "$p $s"; done; done | xargs -P $par -L 1 bash -c '
  p=$0; s=$1; t0=$(date +%s); out=$(VERIF_SEED=$s ./check $p '$tier' 2>&1); rc=$?; t1=$(date +%s)
  echo "$p seed=$s rc=$rc wall=$((t1-t0))s $(echo "$out" | grep -E "^(VIOLATION|OK|KNOWN)" | head -2 | tr "\n" " " | cut -c1-200)"'
