#!/usr/bin/env python3
"""
tools/confirm_suite.py [--slots N] [ids...]
For every seeded change whose meta.json does not yet record suite_with_patch=pass: scratch worktree of
/repo HEAD, apply patch.diff, go build ./..., run the unedited baseline suite
(go test -vet=off -count=1 ./...); packages that fail are re-run once alone (timing-sensitive tests flake
under load). Records the outcome in seeded/<id>/meta.json (confirmed_by_lead.suite_with_patch[,_detail]).
"""
import json, os, subprocess, sys, queue, concurrent.futures as cf, re
R = os.path.dirname(os.path.dirname(os.path.abspath(__file__)))
args = sys.argv[1:]; slots = 2; ids = []
i = 0
while i < len(args):
    if args[i] == "--slots": slots = int(args[i + 1]); i += 2
    else: ids.append(args[i]); i += 1
if not ids:
    ids = sorted(d for d in os.listdir(os.path.join(R, "seeded")) if os.path.isdir(os.path.join(R, "seeded", d)))
env = dict(os.environ, GOFLAGS="-mod=mod", GOPROXY="off"); env.pop("GOSUMDB", None)
free = queue.Queue()
for s in range(slots): free.put(40 + s)
def sh(cmd, cwd=None, timeout=3600):
    try:
        p = subprocess.run(cmd, shell=True, cwd=cwd, env=env, capture_output=True, text=True, timeout=timeout)
        return p.returncode, p.stdout + p.stderr
    except subprocess.TimeoutExpired:
        return 124, "timeout"
def run(sid):
    d = os.path.join(R, "seeded", sid); mp = os.path.join(d, "meta.json")
    meta = json.load(open(mp)); cl = meta.setdefault("confirmed_by_lead", {})
    if cl.get("suite_with_patch") == "pass": return
    slot = free.get(); wt = "/tmp/cs%d" % slot
    try:
        sh("git -C /repo worktree remove --force %s; rm -rf %s" % (wt, wt))
        rc, out = sh("git -C /repo worktree add -q --detach %s HEAD" % wt)
        rc, out = sh("git apply --whitespace=nowarn %s/patch.diff && go build ./..." % d, cwd=wt)
        if rc != 0:
            cl["suite_with_patch"] = "patch-or-build-failed"; cl["suite_detail"] = out[-500:]
        else:
            rc, out = sh("go test -p 8 -vet=off -count=1 -timeout 40m ./...", cwd=wt, timeout=5400)
            failed = re.findall(r"^FAIL\s+(\S+)", out, flags=re.M)
            failed = [f for f in failed if f.startswith("github.com")]
            detail = ""
            if rc != 0 and failed:
                still = []
                for pkg in failed:
                    rc2, out2 = sh("go test -p 2 -vet=off -count=1 -timeout 30m %s" % pkg, cwd=wt, timeout=2400)
                    if rc2 != 0: still.append(pkg)
                detail = "first run failed in %s; re-run alone: %s" % (failed, "still failing: %s" % still if still else "all pass (timing flake)")
                ok = not still
            else:
                ok = rc == 0
                if not ok:
                    open("/tmp/lead/suite-%s.log" % sid, "w").write(out)
                    # no failing package could be identified (e.g. a killed test binary): run the whole suite once more
                    rc3, out3 = sh("go test -p 8 -vet=off -count=1 -timeout 40m ./...", cwd=wt, timeout=5400)
                    ok = rc3 == 0
                    detail = "first run ended rc=%d without a FAIL <pkg> line; second full run: %s" % (rc, "pass" if ok else out3[-300:])
            cl["suite_with_patch"] = "pass" if ok else "fail"; cl["suite_detail"] = detail
            cl["suite_cmd"] = "go test -vet=off -count=1 ./... (scratch worktree of /repo HEAD + patch.diff)"
        cl["suite_head"] = subprocess.run(["git", "-C", "/repo", "rev-parse", "--short", "HEAD"], capture_output=True, text=True).stdout.strip()
        json.dump(meta, open(mp, "w"), indent=1)
        print(sid, cl["suite_with_patch"], cl.get("suite_detail", "")[:150], flush=True)
    finally:
        sh("git -C /repo worktree remove --force %s; rm -rf %s" % (wt, wt)); free.put(slot)
with cf.ThreadPoolExecutor(slots) as ex:
    list(ex.map(run, ids))
