#!/usr/bin/env python3
"""Regenerate MANIFEST.json from meta/Cxx.json (one file per property, written by hand)."""
import json, os, subprocess
R = os.path.dirname(os.path.dirname(os.path.abspath(__file__)))
ids = [json.loads(l)["id"] for l in open(os.path.join(R, "properties.jsonl"))]
checks, na = [], []
for i in ids:
    mp = os.path.join(R, "meta", i + ".json")
    ok = os.path.exists(mp) and os.path.exists(os.path.join(R, "harness", i.lower(), "main.go")) \
        and os.path.exists(os.path.join(R, "lean", "TdModel", "Props", i + ".lean"))
    m = json.load(open(mp)) if os.path.exists(mp) else {}
    if ok and m.get("status", "claimed") == "claimed":
        checks.append({
            "property_id": i,
            "quick_cmd": "./check %s quick" % i,
            "thorough_cmd": "./check %s thorough" % i,
            "evidence_file": "/verif/evidence/%s.json" % i,
            "replay_cmd_template": "./check %s --replay {path}" % i,
            "engine": "lean4-proof+correspondence",
            "level_claimed": {"category": "proof", "text": m["level_text"], "design_ref": m.get("design_ref", "DESIGN.md section 5, " + i)},
            "level_note": m["level_note"],
            "technique": m.get("technique", "Lean 4 theorems over a hand-written model; regenerated source facts; model/implementation correspondence run"),
        })
    else:
        na.append({"property_id": i, "reason": m.get("reason", "check not built yet (framework under construction); planned Lean model and theorems are described in DESIGN.md section 5")})
try:
    commits = subprocess.run(["git", "-C", "/repo", "log", "--format=%H %s", "--grep=^verif:"], capture_output=True, text=True).stdout.strip().splitlines()
except Exception:
    commits = []
man = {
    "version": 1,
    "setup_cmd": "./setup.sh",
    "hooks": {"guard": "verif", "enable": "go build -tags verif (harness module /verif/harness with replace github.com/gotd/td => /repo)",
              "baseline_off_cmd": "cd /repo && go test -mod=mod -vet=off -count=1 -timeout 25m ./...",
              "source_commits": [c.split()[0] for c in commits], "add_only": True},
    "engines": [{"name": "lean4-proof+correspondence", "path": "/verif/check",
                 "serves_properties": [c["property_id"] for c in checks],
                 "kind_free_text": "Lean 4 theorems over hand-written models (lake build + axiom audit), facts regenerated from /repo by go/ast, Go harness running model driver and implementation on the same inputs"}],
    "checks": checks,
    "not_applicable": na,
    "notes": "See DESIGN.md. Known findings: KNOWN_FINDINGS.json and known_findings/*.json.",
}
json.dump(man, open(os.path.join(R, "MANIFEST.json"), "w"), indent=1)
print("claimed:", len(checks), "unclaimed:", len(na))
