#!/usr/bin/env bash
# Build the Lean primitive driver (drv_prim) and the Go reference harness (harness/prim), then
# compare every primitive of lean/TdModel/Prim/* with Go's standard library.
#
#   tools/prim_selftest.sh [quick|thorough] [seed] [--bench]
#
# Exit 0: all answers agree.  Exit 1: first mismatch printed.  Exit 2: build/driver problem.
set -u
root="$(cd "$(dirname "$0")/.." && pwd)"
tier="quick"; seed="${VERIF_SEED:-1}"; bench=0
pos=0
for a in "$@"; do
  case "$a" in
    --bench) bench=1 ;;
    quick|thorough) tier="$a" ;;
    *) if [ "$pos" = 0 ]; then seed="$a"; pos=1; else echo "usage: $0 [quick|thorough] [seed] [--bench]" >&2; exit 2; fi ;;
  esac
done
export GOFLAGS=-mod=mod GOPROXY=off   # never GOSUMDB=off (breaks the toolchain switch)
mkdir -p "$root/.build"

( cd "$root/lean" && flock "$root/.build/lake.lock" lake build drv_prim ) > "$root/.build/prim-lake.log" 2>&1 \
  || { echo "prim_selftest: lake build drv_prim failed:" >&2; grep -v '^✔\|^ℹ' "$root/.build/prim-lake.log" | head -40 >&2; exit 2; }
( cd "$root/harness" && flock "$root/.build/go.lock" go build -o "$root/.build/prim" ./prim ) \
  || { echo "prim_selftest: go build harness/prim failed" >&2; exit 2; }

"$root/.build/prim" -driver "$root/lean/.lake/build/bin/drv_prim" -tier "$tier" -seed "$seed" -v
rc=$?
if [ "$rc" = 0 ] && [ "$bench" = 1 ]; then
  "$root/lean/.lake/build/bin/drv_prim" bench "$seed"
fi
exit $rc
