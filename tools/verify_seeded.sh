#!/bin/bash
# tools/verify_seeded.sh <out-dir> <n> <slot>
# Confirms a candidate breaking change independently: in a scratch worktree of /repo HEAD
#  (1) patch<n>.diff applies and `go build ./...` succeeds, (2) the demonstration FAILS with the patch,
#  (3) the demonstration PASSES without it, (4) the unedited baseline suite passes with the patch.
# Writes <out-dir>/verify<n>.json. Scratch worktree /tmp/vs<slot> is removed afterwards.
set -u
out=$1; n=$2; slot=${3:-0}
export GOFLAGS=-mod=mod GOPROXY=off; unset GOSUMDB
wt=/tmp/vs$slot
git -C /repo worktree remove --force $wt 2>/dev/null; rm -rf $wt
git -C /repo worktree add -q --detach $wt HEAD || exit 2
meta=$out/meta$n.json
demo_dir=$(python3 -c "import json;print(json.load(open('$meta'))['demo_dir'])")
demo_cmd=$(python3 -c "import json;print(json.load(open('$meta'))['demo_cmd'])")
res() { python3 - "$@" <<'PY'
import json,sys
k=sys.argv[1:]
d=dict(zip(k[0::2],k[1::2]))
json.dump(d,open(d.pop('_file'),'w'),indent=1)
PY
}
cd $wt
applies=yes; git apply --whitespace=nowarn $out/patch$n.diff || applies=no
builds=no; [ $applies = yes ] && go build ./... >/tmp/vs$slot.build.log 2>&1 && builds=yes
mkdir -p $wt/$demo_dir; cp $out/demo${n}_test.go $wt/$demo_dir/zz_demo${n}_test.go
with=unknown; (cd $wt && timeout 900 bash -c "$demo_cmd" >/tmp/vs$slot.with.log 2>&1) && with=pass || with=fail
git -C $wt apply -R --whitespace=nowarn $out/patch$n.diff
without=unknown; (cd $wt && timeout 900 bash -c "$demo_cmd" >/tmp/vs$slot.without.log 2>&1) && without=pass || without=fail
rm -f $wt/$demo_dir/zz_demo${n}_test.go
git -C $wt apply --whitespace=nowarn $out/patch$n.diff
suite=skipped
if [ "${SKIP_SUITE:-0}" != 1 ]; then
  (cd $wt && go test -p 6 -vet=off -count=1 -timeout 40m ./... >/tmp/vs$slot.suite.log 2>&1) && suite=pass || suite=fail
  grep -E "^(FAIL|---)" /tmp/vs$slot.suite.log | head -20 > $out/suite$n.failures.txt
fi
res _file $out/verify$n.json applies $applies builds $builds demo_with_patch $with demo_without_patch $without suite_with_patch $suite head "$(git -C /repo rev-parse HEAD)"
cat $out/verify$n.json
cd /; git -C /repo worktree remove --force $wt; rm -rf $wt /tmp/vs$slot.*.log
