// C05 — tampered, reflected or foreign ciphertexts are rejected: a systematic mutation stream over
// valid ciphertexts produced by the real Cipher.Encrypt.  Every mutant goes to the real
// DecryptFromBuffer (monitor: it must be rejected and the returned pointer must be nil) and to the
// Lean model of it (correspondence: same error class / same result).  Cipher.Decrypt on the decoded
// message (the second public entry point) must decide identically.
package main

import (
	"bytes"
	"fmt"

	"github.com/gotd/td/bin"
	"github.com/gotd/td/crypto"

	"verif/harness/c04shared"
	"verif/harness/hc"
)

func main() {
	hc.Main(hc.Spec{Prop: "C05", Facts: facts, Run: run})
}

func facts(f *hc.Facts) {
	c04shared.FactsC05(f)
	c04shared.RefreshSiblings(f, map[string]func(*hc.Facts){"C04": c04shared.FactsC04, "C06": c04shared.FactsC06})
}

type rawEnc []byte

func (r rawEnc) Encode(b *bin.Buffer) error { b.Put(r); return nil }

type base struct {
	key    crypto.Key
	ak     crypto.AuthKey
	sender crypto.Side
	ct     []byte
}

func newBase(c *hc.Ctx, n int) (base, bool) {
	r := c.Rng
	var key crypto.Key
	copy(key[:], r.Bytes(256))
	b := base{key: key, ak: key.WithID(), sender: hc.Pick(r, crypto.Client, crypto.Server)}
	rnd := r.Bytes(1 + 16*17)
	var enc crypto.Cipher
	if b.sender == crypto.Client {
		enc = crypto.NewClientCipher(bytes.NewReader(rnd))
	} else {
		enc = crypto.NewServerCipher(bytes.NewReader(rnd))
	}
	var buf bin.Buffer
	d := crypto.EncryptedMessageData{Salt: int64(r.U64()), SessionID: int64(r.U64()), MessageID: int64(r.U64()),
		SeqNo: int32(r.U64()), Message: rawEnc(r.Bytes(n))}
	if err := enc.Encrypt(b.ak, d, &buf); err != nil {
		c.Fail("encrypt-error", fmt.Sprintf("len=%d", n), err.Error())
		return b, false
	}
	b.ct = append([]byte{}, buf.Buf...)
	return b, true
}

// try feeds one frame to the cipher whose encryptSide is `recv`, under key ak.
func try(c *hc.Ctx, q *c04shared.Queue, rt *c04shared.Retainer, kind string, recv crypto.Side, key crypto.Key, ak crypto.AuthKey, frame []byte, mustReject bool) {
	var dec crypto.Cipher
	if recv == crypto.Client {
		dec = crypto.NewClientCipher(nil)
	} else {
		dec = crypto.NewServerCipher(nil)
	}
	got, err := dec.DecryptFromBuffer(ak, &bin.Buffer{Buf: append([]byte{}, frame...)})
	line := fmt.Sprintf("dec %s %s %s %s", c04shared.SideName(recv), hc.Hex(key[:]), hc.Hex(ak.ID[:]), hc.Hex(frame))
	c.Count("mutant." + kind)
	c.Eval(kind+" "+c04shared.Sig(line), mustReject)
	if err != nil {
		c.Count("rejected-as." + c04shared.ErrTag(err))
	}
	if mustReject && err == nil {
		c.Fail("accepted-"+kind, line, "DecryptFromBuffer accepted the frame")
	}
	if !mustReject && err != nil {
		c.Fail("genuine-rejected", line, err.Error())
	}
	if err != nil && got != nil {
		c.Fail("rejected-message-yields-data", line, "non-nil *EncryptedMessageData returned with error "+err.Error())
	}
	// the other public entry point, Cipher.Decrypt on an already decoded EncryptedMessage, must decide
	// exactly like DecryptFromBuffer
	var em crypto.EncryptedMessage
	if em.Decode(&bin.Buffer{Buf: append([]byte{}, frame...)}) == nil {
		got2, err2 := dec.Decrypt(ak, &em)
		if (err2 == nil) != (err == nil) || c04shared.ErrTag(err2) != c04shared.ErrTag(err) {
			key := "Decrypt-and-DecryptFromBuffer-disagree"
			if mustReject && err2 == nil {
				key = "accepted-" + kind + "-via-Decrypt"
			}
			c.Fail(key, line, fmt.Sprintf("Cipher.Decrypt: %s, Cipher.DecryptFromBuffer: %s", c04shared.ShowDecryptShort(got2, err2), c04shared.ShowDecryptShort(got, err)))
		}
		if err2 != nil && got2 != nil {
			c.Fail("rejected-message-yields-data", line, "Cipher.Decrypt returned a non-nil result with error "+err2.Error())
		}
	}
	q.Add(line, c04shared.ShowDecrypt(got, err))
	c04shared.KeepDecrypted(rt, line, got)
}

func run(c *hc.Ctx) error {
	r := c.Rng
	var q c04shared.Queue
	var rt c04shared.Retainer
	nb := c.N(100, 4500)
	for i := 0; i < nb; i++ {
		n := 4 * hc.Pick(r, 0, 1, 2, 3, 4, 5, 8, 16, 33, r.Range(0, 64), r.Range(0, 300))
		b, ok := newBase(c, n)
		if !ok {
			continue
		}
		if err := q.MaybeFlush(c); err != nil {
			return err
		}
		rt.MaybeVerify(c, 512)
		recv := b.sender ^ 1
		try(c, &q, &rt, "genuine", recv, b.key, b.ak, b.ct, false)
		// every single-bit flip of the 24-byte envelope (auth key id, msg_key)
		for bit := 0; bit < 24*8; bit++ {
			m := append([]byte{}, b.ct...)
			m[bit/8] ^= 1 << (bit % 8)
			kind := "flip-msgkey"
			if bit < 64 {
				kind = "flip-keyid"
			}
			try(c, &q, &rt, kind, recv, b.key, b.ak, m, true)
		}
		// ≥ 256 body bits: the first and last blocks completely, the rest sampled
		body := len(b.ct) - 24
		for k := 0; k < 288; k++ {
			var bit int
			switch {
			case k < 128:
				bit = k
			case k < 256:
				bit = body*8 - 128 + (k - 128)
			default:
				bit = r.Intn(body * 8)
			}
			m := append([]byte{}, b.ct...)
			m[24+bit/8] ^= 1 << (bit % 8)
			try(c, &q, &rt, "flip-body", recv, b.key, b.ak, m, true)
		}
		// multi-bit modifications
		for k := 0; k < 24; k++ {
			m := append([]byte{}, b.ct...)
			for j := r.Range(2, 40); j > 0; j-- {
				m[r.Intn(len(m))] ^= byte(1 + r.Intn(255))
			}
			try(c, &q, &rt, "multi-bit", recv, b.key, b.ak, m, true)
		}
		// truncations and extensions by 1..32 bytes
		for k := 1; k <= 32; k++ {
			if k <= len(b.ct) {
				try(c, &q, &rt, "truncate", recv, b.key, b.ak, b.ct[:len(b.ct)-k], true)
			}
			try(c, &q, &rt, "extend", recv, b.key, b.ak, append(append([]byte{}, b.ct...), r.Bytes(k)...), true)
		}
		try(c, &q, &rt, "truncate", recv, b.key, b.ak, b.ct[:hc.Pick(r, 0, 1, 7, 8, 23, 24, 25, 39, 40)], true)
		// block-level surgery: drop / duplicate / swap whole 16-byte blocks
		if body >= 32 {
			m := append(append([]byte{}, b.ct[:24+16]...), b.ct[24+32:]...)
			try(c, &q, &rt, "drop-block", recv, b.key, b.ak, m, true)
			m = append([]byte{}, b.ct...)
			copy(m[24:40], b.ct[40:56])
			copy(m[40:56], b.ct[24:40])
			try(c, &q, &rt, "swap-blocks", recv, b.key, b.ak, m, true)
		}
		// reflection: back to the side that produced it
		try(c, &q, &rt, "reflected", b.sender, b.key, b.ak, b.ct, true)
		// foreign keys: other key with its own id / other key claiming the same id / same key, other id
		var other crypto.Key
		copy(other[:], r.Bytes(256))
		try(c, &q, &rt, "foreign-key", recv, other, other.WithID(), b.ct, true)
		try(c, &q, &rt, "foreign-key-same-id", recv, other, crypto.AuthKey{Value: other, ID: b.ak.ID}, b.ct, true)
		oid := b.ak
		oid.ID[r.Intn(8)] ^= byte(1 + r.Intn(255))
		try(c, &q, &rt, "same-key-other-id", recv, b.key, oid, b.ct, true)
		// one-bit key difference, in a byte the derivation for this direction reads: MTProto 2.0 uses only
		// auth_key[x, x+36), [40+x, 76+x) and [88+x, 120+x); the other bytes (e.g. 128..255) do not enter
		// message encryption at all, by the specification.
		near := b.key
		x := 0
		if b.sender == crypto.Server {
			x = 8
		}
		pos := hc.Pick(r, x+r.Intn(36), 40+x+r.Intn(36), 88+x+r.Intn(32))
		near[pos] ^= byte(1 << r.Intn(8))
		try(c, &q, &rt, "near-key-same-id", recv, near, crypto.AuthKey{Value: near, ID: b.ak.ID}, b.ct, true)
		// a message of an older/other session under the same key but for the other direction
		if b2, ok := newBase(c, n); ok && b2.sender == b.sender {
			try(c, &q, &rt, "foreign-key", recv, b.key, b.ak, b2.ct, true)
		}
	}
	// correctly keyed frames that fail *after* the msg_key check (length field, padding bounds): the only
	// way to reach the later error returns; same nil-result monitor
	for i := c.N(1500, 50000); i > 0; i-- {
		c04shared.CraftedFrame(c, &q, &rt, "C05")
		rt.MaybeVerify(c, 512)
		if err := q.MaybeFlush(c); err != nil {
			return err
		}
	}
	// objects reused across calls (one EncryptedMessage / EncryptedMessageData / bin.Buffer for a sequence of
	// longer-then-shorter, valid-then-truncated frames) must behave like fresh ones
	for i := c.N(400, 12000); i > 0; i-- {
		c04shared.ReuseCase(c, &q, "C05")
		if err := q.MaybeFlush(c); err != nil {
			return err
		}
	}
	rt.Verify(c)
	// mutants decided from 2..4 goroutines at once (DecryptFromBuffer has no shared state): verdicts as
	// in the sequential run, accepted results re-read afterwards
	workers := r.Range(2, 4)
	c04shared.Concurrently(c, &rt, workers, c.N(2000, 40000)/workers, func(r *hc.RNG, w, i int) {
		var key crypto.Key
		copy(key[:], r.Bytes(256))
		ak := key.WithID()
		sender := hc.Pick(r, crypto.Client, crypto.Server)
		n := 16 * r.Range(1, 12)
		pt := append(c04shared.Header(r.U64(), r.U64(), r.U64(), uint32(r.U64()), uint32(n-16)), r.Bytes(n)...)
		frame := c04shared.Seal(key, ak.ID, sender, pt)
		mutated := r.Chance(70)
		if mutated {
			frame[r.Intn(len(frame))] ^= byte(1 << r.Intn(8))
		}
		_, dec := c04shared.Ciphers(sender)
		got, err := dec.DecryptFromBuffer(ak, &bin.Buffer{Buf: append([]byte{}, frame...)})
		line := fmt.Sprintf("dec %s %s %s %s", c04shared.SideName(sender^1), hc.Hex(key[:]), hc.Hex(ak.ID[:]), hc.Hex(frame))
		c.Count("concurrent.decrypt")
		switch {
		case mutated && err == nil:
			c.Fail("accepted-flip-concurrent", line, fmt.Sprintf("concurrent use, %d goroutines", workers))
		case !mutated && err != nil:
			c.Fail("genuine-rejected", line, fmt.Sprintf("concurrent use, %d goroutines: %v", workers, err))
		case err != nil && got != nil:
			c.Fail("rejected-message-yields-data", line, "concurrent use")
		}
		c04shared.KeepDecrypted(&rt, line, got)
	})
	if err := q.Flush(c); err != nil {
		return err
	}
	c.Res.Rule = "per valid ciphertext (real Cipher.Encrypt, random 2048-bit key, both directions, payload 0..1200 bytes): all 192 single-bit flips of auth_key_id and msg_key, 288 body bit flips (first and last block completely + random), 24 multi-bit edits, truncations and extensions by 1..32 bytes and to 0/1/7/8/23/24/25/39/40 bytes, block drop/swap, reflection to the sending side, foreign keys (own id / same id / same key other id / one-bit-different key). Plus 1 500 / 50 000 correctly keyed hand-sealed frames with length fields and padding around the bounds (reach the error returns behind the msg_key check). Reuse sequences: the same EncryptedMessage (Decode and DecodeWithoutCopy), EncryptedMessageData and bin.Buffer used for 7..9 frames in a row (valid long, the same truncated by whole blocks / by 1..15 bytes, valid short, tampered, sub-envelope) compared with fresh objects at every step. Non-trivial = every mutant (must be rejected); the genuine frame (must be accepted) is the trivial control; distinct = distinct input line"
	c.PartialNote("rejection of msg_key/body mutations, reflection and same-id foreign keys rests on SHA-256 acting as a MAC (hypothesis MacDiffers of the theorems); the run observes it on every mutant but cannot prove it")
	return nil
}
