// C20 — TL primitives: correspondence of bin.Buffer Put*/decoders with the Lean model
// TdModel.Bin (panic-explicit decoders), plus the property monitor on the implementation:
// 4-byte alignment, decode(encode v ++ rest) = (v, rest), truncated encodings are errors,
// arbitrary bytes never panic.
package main

import (
	"bytes"
	"errors"
	"fmt"
	"go/ast"
	"go/parser"
	"go/token"
	"hash/fnv"
	"io"
	"math"
	"os"
	"path/filepath"
	"strconv"
	"strings"

	"github.com/gotd/td/bin"

	"verif/harness/hc"
)

func main() {
	hc.Main(hc.Spec{Prop: "C20", Facts: facts, Run: run})
}


// arrayLen emits N for `type <typ> [N]byte` in package directory dir.
func arrayLen(f *hc.Facts, lean, dir, typ string) {
	pkgs, err := parser.ParseDir(token.NewFileSet(), filepath.Join(f.Repo, dir), func(fi os.FileInfo) bool {
		return !strings.HasSuffix(fi.Name(), "_test.go") && !strings.HasPrefix(fi.Name(), "verif_")
	}, 0)
	if err != nil {
		f.Missing(lean, err.Error())
		return
	}
	for _, p := range pkgs {
		for _, af := range p.Files {
			for _, d := range af.Decls {
				gd, ok := d.(*ast.GenDecl)
				if !ok || gd.Tok != token.TYPE {
					continue
				}
				for _, sp := range gd.Specs {
					ts := sp.(*ast.TypeSpec)
					at, ok := ts.Type.(*ast.ArrayType)
					if ts.Name.Name != typ || !ok || at.Len == nil {
						continue
					}
					if bl, ok := at.Len.(*ast.BasicLit); ok && bl.Kind == token.INT {
						if el, ok := at.Elt.(*ast.Ident); ok && el.Name == "byte" {
							f.Raw(fmt.Sprintf("def %s : Nat := %s -- len of %s.%s", lean, bl.Value, dir, typ))
							return
						}
					}
				}
			}
		}
	}
	f.Missing(lean, dir+"."+typ+" is not declared as [N]byte")
}


// encoderFacts translates the pieces of encodeBytes / encodeString: the short-form condition and,
// for the short block (the `if` body) and the long block (the rest), the header bytes, the value of
// currentLen, the number of padding bytes and the order in which header / payload / padding are
// appended.  Parameters are positional (a0 = the length l, resp. currentLen for the pad).
func encoderFacts(f *hc.Facts, pre, fn string, fns map[string]string) {
	fd := f.FuncDecl("bin", fn)
	if fd == nil || fd.Body == nil {
		f.Missing(pre+"_short", "bin."+fn+" not found")
		return
	}
	opt := func() hc.C20ExprOpt { return hc.C20ExprOpt{Fns: fns, Locals: map[string]ast.Expr{}} }
	var ifs *ast.IfStmt
	var tail []ast.Stmt
	for i, st := range fd.Body.List {
		if is, ok := st.(*ast.IfStmt); ok && ifs == nil {
			ifs = is
			tail = fd.Body.List[i+1:]
		}
	}
	if ifs == nil {
		f.Missing(pre+"_short", "no if statement in bin."+fn)
		return
	}
	// l := len(v) before the if: substitute, so that the parameter is the length itself
	lenVar := ""
	for _, st := range fd.Body.List {
		if as, ok := st.(*ast.AssignStmt); ok && len(as.Lhs) == 1 && len(as.Rhs) == 1 {
			if ce, ok := as.Rhs[0].(*ast.CallExpr); ok && f.Src(ce.Fun) == "len" {
				lenVar = f.Src(as.Lhs[0])
			}
		}
	}
	_ = lenVar
	f.C20TranslateExpr(pre+"_short", "bin", ifs.Cond, opt())
	block := func(tag string, stmts []ast.Stmt) {
		var hdr []ast.Expr
		var cur, pad ast.Expr
		var order []string
		for _, st := range stmts {
			as, ok := st.(*ast.AssignStmt)
			if !ok || len(as.Rhs) != 1 {
				continue
			}
			if ce, ok := as.Rhs[0].(*ast.CallExpr); ok && f.Src(ce.Fun) == "append" && len(ce.Args) >= 2 {
				switch {
				case ce.Ellipsis == token.NoPos:
					hdr = ce.Args[1:]
					order = append(order, `"hdr"`)
				default:
					if mk, ok := ce.Args[1].(*ast.CallExpr); ok && f.Src(mk.Fun) == "make" && len(mk.Args) == 2 {
						pad = mk.Args[1]
						order = append(order, `"pad"`)
					} else {
						order = append(order, `"payload"`)
					}
				}
				continue
			}
			if as.Tok == token.DEFINE && len(as.Lhs) == 1 {
				cur = as.Rhs[0]
			}
		}
		f.C20TranslateExprList(pre+"_"+tag+"Hdr", "bin", hdr, opt())
		f.C20TranslateExpr(pre+"_"+tag+"Cur", "bin", cur, opt())
		f.C20TranslateExpr(pre+"_"+tag+"Pad", "bin", pad, opt())
		f.Raw(fmt.Sprintf("def %s_%sOrder : List String := [%s] -- order of the appends in the %s block of bin.%s", pre, tag, strings.Join(order, ", "), tag, fn))
	}
	block("short", ifs.Body.List)
	block("long", tail)
}

// decoderFacts translates the pieces of decodeBytes / decodeString: the six conditions in source
// order, the two length computations, and for the two successful returns the consumed length and the
// bounds of the slice expression.
func decoderFacts(f *hc.Facts, pre, fn string, fns map[string]string) {
	fd := f.FuncDecl("bin", fn)
	if fd == nil || fd.Body == nil {
		f.Missing(pre+"_c0", "bin."+fn+" not found")
		return
	}
	opt := func() hc.C20ExprOpt { return hc.C20ExprOpt{Fns: fns} }
	conds := hc.C20IfConds(fd.Body)
	for i := 0; i < 6; i++ {
		var c ast.Expr
		if i < len(conds) {
			c = conds[i]
		}
		f.C20TranslateExpr(fmt.Sprintf("%s_c%d", pre, i), "bin", c, opt())
	}
	f.Raw(fmt.Sprintf("def %s_conds : Nat := %d -- number of if statements in bin.%s", pre, len(conds), fn))
	var lens []ast.Expr
	var rets []*ast.ReturnStmt
	ast.Inspect(fd.Body, func(n ast.Node) bool {
		switch x := n.(type) {
		case *ast.AssignStmt:
			if x.Tok == token.DEFINE && len(x.Lhs) == 1 && len(x.Rhs) == 1 {
				lens = append(lens, x.Rhs[0])
			}
		case *ast.ReturnStmt:
			if len(x.Results) == 3 && f.Src(x.Results[2]) == "nil" {
				rets = append(rets, x)
			}
		}
		return true
	})
	pick := func(i int) ast.Expr {
		if i < len(lens) {
			return lens[i]
		}
		return nil
	}
	f.C20TranslateExpr(pre+"_longLen", "bin", pick(0), opt())
	f.C20TranslateExpr(pre+"_shortLen", "bin", pick(1), opt())
	for i, tag := range []string{"long", "short"} {
		var n, lo, hi ast.Expr
		if i < len(rets) {
			n = rets[i].Results[0]
			x := rets[i].Results[1]
			if ce, ok := x.(*ast.CallExpr); ok && len(ce.Args) == 1 { // string(b[lo:hi])
				x = ce.Args[0]
			}
			if se, ok := x.(*ast.SliceExpr); ok {
				lo, hi = se.Low, se.High
			}
		}
		f.C20TranslateExpr(pre+"_"+tag+"N", "bin", n, opt())
		f.C20TranslateExpr(pre+"_"+tag+"Lo", "bin", lo, opt())
		f.C20TranslateExpr(pre+"_"+tag+"Hi", "bin", hi, opt())
	}
}

// bufferGuards translates the bounds checks of the Buffer decoders and the amounts by which they
// advance: PeekID, Uint32, Uint64, String, Bytes, PeekN/ConsumeN, VectorHeader.
func bufferGuards(f *hc.Facts) {
	guard := func(lean, fn string, idx int) {
		fd := f.FuncDecl("bin", fn)
		var c ast.Expr
		var locals map[string]ast.Expr
		if fd != nil {
			locals = hc.C20LocalConsts(fd.Body)
			k := 0
			for _, x := range hc.C20IfConds(fd.Body) {
				if strings.Contains(f.Src(x), "err") {
					continue
				}
				if k == idx {
					c = x
				}
				k++
			}
		}
		for n, e := range locals { // keep only constants (`const size = Word * 2`), not data-dependent locals
			if _, ok := e.(*ast.BasicLit); !ok {
				if _, ok := e.(*ast.BinaryExpr); !ok {
					delete(locals, n)
				}
			}
		}
		f.C20TranslateExpr(lean, "bin", c, hc.C20ExprOpt{Locals: locals})
	}
	advance := func(lean, fn string) {
		fd := f.FuncDecl("bin", fn)
		var lo ast.Expr
		var locals map[string]ast.Expr
		if fd != nil {
			locals = hc.C20LocalConsts(fd.Body)
			ast.Inspect(fd.Body, func(n ast.Node) bool {
				if as, ok := n.(*ast.AssignStmt); ok && len(as.Lhs) == 1 && len(as.Rhs) == 1 && f.Src(as.Lhs[0]) == "b.Buf" {
					if se, ok := as.Rhs[0].(*ast.SliceExpr); ok && se.High == nil && lo == nil {
						lo = se.Low
					}
				}
				return true
			})
		}
		for n, e := range locals {
			if _, ok := e.(*ast.BasicLit); !ok {
				if _, ok := e.(*ast.BinaryExpr); !ok {
					delete(locals, n)
				}
			}
		}
		f.C20TranslateExpr(lean, "bin", lo, hc.C20ExprOpt{Locals: locals})
	}
	guard("peekIDShort", "Buffer.PeekID", 0)
	advance("uint32Advance", "Buffer.Uint32")
	guard("uint64Short", "Buffer.Uint64", 0)
	advance("uint64Advance", "Buffer.Uint64")
	guard("stringShort", "Buffer.String", 0)
	advance("stringAdvance", "Buffer.String")
	guard("bytesShort", "Buffer.Bytes", 0)
	advance("bytesAdvance", "Buffer.Bytes")
	guard("peekNShort", "Buffer.PeekN", 0)
	advance("consumeNAdvance", "Buffer.ConsumeN")
	guard("vectorNegative", "Buffer.VectorHeader", 0)
	guard("consumeIDMismatch", "Buffer.ConsumeID", 0)
	advance("consumeIDAdvance", "Buffer.ConsumeID")
}

// boolTables extracts the switch tables of Buffer.Bool (type id → value) and Buffer.PutBool
// (value → type id) as Lean association lists that the model interprets.
func boolTables(f *hc.Facts) {
	constOf := func(x ast.Expr) (string, bool) {
		if id, ok := x.(*ast.Ident); ok {
			return f.ConstInt("bin", id.Name)
		}
		return "", false
	}
	var dec, enc []string
	okDec, okEnc := false, false
	if fd := f.FuncDecl("bin", "Buffer.Bool"); fd != nil {
		ast.Inspect(fd.Body, func(n ast.Node) bool {
			sw, ok := n.(*ast.SwitchStmt)
			if !ok {
				return true
			}
			okDec = true
			for _, st := range sw.Body.List {
				cc := st.(*ast.CaseClause)
				if len(cc.List) == 0 { // default
					continue
				}
				val := ""
				for _, bs := range cc.Body {
					if rs, ok := bs.(*ast.ReturnStmt); ok && len(rs.Results) == 2 {
						val = f.Src(rs.Results[0])
					}
				}
				for _, e := range cc.List {
					id, ok := constOf(e)
					if !ok || (val != "true" && val != "false") {
						okDec = false
						continue
					}
					dec = append(dec, fmt.Sprintf("(%s, %s)", id, val))
				}
			}
			return false
		})
	}
	if fd := f.FuncDecl("bin", "Buffer.PutBool"); fd != nil {
		ast.Inspect(fd.Body, func(n ast.Node) bool {
			sw, ok := n.(*ast.SwitchStmt)
			if !ok {
				return true
			}
			okEnc = true
			for _, st := range sw.Body.List {
				cc := st.(*ast.CaseClause)
				if len(cc.List) != 1 {
					okEnc = false
					continue
				}
				key := f.Src(cc.List[0])
				id := ""
				for _, bs := range cc.Body {
					ast.Inspect(bs, func(m ast.Node) bool {
						if ce, ok := m.(*ast.CallExpr); ok && len(ce.Args) == 1 && strings.HasSuffix(f.Src(ce.Fun), ".PutID") {
							if v, ok := constOf(ce.Args[0]); ok {
								id = v
							}
						}
						return true
					})
				}
				if (key != "true" && key != "false") || id == "" {
					okEnc = false
					continue
				}
				enc = append(enc, fmt.Sprintf("(%s, %s)", key, id))
			}
			return false
		})
	}
	if okDec {
		f.Raw("def boolDecodeTable : List (Nat × Bool) := [" + strings.Join(dec, ", ") + "] -- switch of bin.Buffer.Bool: type id ↦ value")
	} else {
		f.Missing("boolDecodeTable", "switch of Buffer.Bool not recognised")
	}
	if okEnc {
		f.Raw("def boolEncodeTable : List (Bool × Nat) := [" + strings.Join(enc, ", ") + "] -- switch of bin.Buffer.PutBool: value ↦ type id")
	} else {
		f.Missing("boolEncodeTable", "switch of Buffer.PutBool not recognised")
	}
}

func facts(f *hc.Facts) {
	f.Const("word", "bin", "Word")
	f.Const("maxSmallStringLength", "bin", "maxSmallStringLength")
	f.Const("firstLongStringByte", "bin", "firstLongStringByte")
	f.Const("typeTrue", "bin", "TypeTrue")
	f.Const("typeFalse", "bin", "TypeFalse")
	f.Const("typeVector", "bin", "TypeVector")
	f.Const("typeIntID", "bin", "TypeIntID")
	f.Const("typeLongID", "bin", "TypeLongID")
	f.Const("typeDoubleID", "bin", "TypeDoubleID")
	f.Const("typeStringID", "bin", "TypeStringID")
	f.Const("typeBytes", "bin", "TypeBytes")
	arrayLen(f, "int128Size", "bin", "Int128")
	arrayLen(f, "int256Size", "bin", "Int256")
	f.TranslateFuncs("bin", "nearestPaddedValueLength", "nearestPaddedValueLength")
	padFns := map[string]string{"nearestPaddedValueLength": "nearestPaddedValueLength"}
	encoderFacts(f, "encB", "encodeBytes", padFns)
	encoderFacts(f, "encS", "encodeString", padFns)
	decoderFacts(f, "decB", "decodeBytes", padFns)
	decoderFacts(f, "decS", "decodeString", padFns)
	bufferGuards(f)
	boolTables(f)
}

// ---- implementation adapters ------------------------------------------------------------

var kinds = []string{"u32", "id", "i32", "u64", "i64", "i53", "f64", "bool", "i128", "i256", "bytes", "str", "vec"}

type value struct {
	kind string
	i    int64  // i32 (any int passed to PutInt), i64, vec (any int)
	u    uint64 // u32, u64, f64 bits, bool
	b    []byte // i128, i256, bytes, str
}

// text is the value as written on the driver's `enc` line.
func (v value) text() string {
	switch v.kind {
	case "u32", "id", "u64", "f64", "bool":
		return strconv.FormatUint(v.u, 10)
	case "i32", "i64", "i53", "vec":
		return strconv.FormatInt(v.i, 10)
	}
	return hc.Hex(v.b)
}

// decoded is the value as printed by both sides after decoding what `v` encodes to
// (PutInt and PutVectorHeader truncate to int32).
func (v value) decoded() string {
	switch v.kind {
	case "i32":
		return strconv.FormatInt(int64(int32(v.i)), 10)
	case "vec":
		return strconv.FormatUint(uint64(uint32(int32(v.i))), 10)
	case "bool":
		if v.u == 1 {
			return "true"
		}
		return "false"
	}
	return v.text()
}

func encode(v value) []byte {
	var b bin.Buffer
	switch v.kind {
	case "u32":
		b.PutUint32(uint32(v.u))
	case "id":
		b.PutID(uint32(v.u))
	case "i53":
		b.PutInt53(v.i)
	case "i32":
		b.PutInt(int(v.i))
	case "u64":
		b.PutUint64(v.u)
	case "i64":
		b.PutLong(v.i)
	case "f64":
		b.PutDouble(math.Float64frombits(v.u))
	case "bool":
		b.PutBool(v.u == 1)
	case "i128":
		var x bin.Int128
		copy(x[:], v.b)
		b.PutInt128(x)
	case "i256":
		var x bin.Int256
		copy(x[:], v.b)
		b.PutInt256(x)
	case "bytes":
		b.PutBytes(v.b)
	case "str":
		b.PutString(string(v.b))
	case "vec":
		b.PutVectorHeader(int(v.i))
	}
	return b.Buf
}

func errTag(err error) string {
	var il *bin.InvalidLengthError
	var ui *bin.UnexpectedIDErr
	switch {
	case errors.Is(err, io.ErrUnexpectedEOF):
		return "eof"
	case errors.As(err, &il):
		return "invalid-length"
	case errors.As(err, &ui):
		return "unexpected-id"
	}
	return "other:" + err.Error()
}

// decode runs one decoder of the implementation under recover; out is "ok <value>", "err <tag>"
// or "panic"; rest is what is left in the buffer.
func decode(kind string, data []byte) (out string, rest []byte, pan any) {
	b := &bin.Buffer{Buf: data}
	defer func() {
		if r := recover(); r != nil {
			out, rest, pan = "panic", nil, r
		}
	}()
	var val string
	var err error
	switch kind {
	case "u32":
		var x uint32
		x, err = b.Uint32()
		val = strconv.FormatUint(uint64(x), 10)
	case "id":
		var x uint32
		x, err = b.ID()
		val = strconv.FormatUint(uint64(x), 10)
	case "i53":
		var x int64
		x, err = b.Int53()
		val = strconv.FormatInt(x, 10)
	case "i32":
		var x int
		x, err = b.Int()
		val = strconv.Itoa(x)
	case "u64":
		var x uint64
		x, err = b.Uint64()
		val = strconv.FormatUint(x, 10)
	case "i64":
		var x int64
		x, err = b.Long()
		val = strconv.FormatInt(x, 10)
	case "f64":
		var x float64
		x, err = b.Double()
		val = strconv.FormatUint(math.Float64bits(x), 10)
	case "bool":
		var x bool
		x, err = b.Bool()
		val = strconv.FormatBool(x)
	case "i128":
		var x bin.Int128
		x, err = b.Int128()
		val = hc.Hex(x[:])
	case "i256":
		var x bin.Int256
		x, err = b.Int256()
		val = hc.Hex(x[:])
	case "bytes":
		var x []byte
		x, err = b.Bytes()
		val = hc.Hex(x)
	case "str":
		var x string
		x, err = b.String()
		val = hc.Hex([]byte(x))
	case "vec":
		var x int
		x, err = b.VectorHeader()
		val = strconv.Itoa(x)
	}
	if err != nil {
		return "err " + errTag(err), b.Buf, nil
	}
	return "ok " + val, b.Buf, nil
}

// decodeRaw is Bytes()/String() without hex conversion (for multi-megabyte values).
func decodeRaw(kind string, data []byte) (val, rest []byte, err error, pan any) {
	b := &bin.Buffer{Buf: data}
	defer func() {
		if r := recover(); r != nil {
			pan = r
		}
	}()
	if kind == "str" {
		var s string
		s, err = b.String()
		val = []byte(s)
	} else {
		val, err = b.Bytes()
	}
	return val, b.Buf, err, nil
}

// sig shortens a long request line to a prefix plus a hash (distinctness is counted on it).
func sig(line string) string {
	if len(line) <= 300 {
		return line
	}
	h := fnv.New64a()
	h.Write([]byte(line))
	return fmt.Sprintf("%s…#%d:%x", line[:200], len(line), h.Sum64())
}

// ---- generators ---------------------------------------------------------------------------

func genLen(r *hc.RNG, big bool) int {
	if big {
		return hc.Pick(r, 1<<16+r.Intn(8), 1<<17+r.Intn(8), 200000+r.Intn(8), 1<<20+r.Intn(8))
	}
	switch r.Intn(20) {
	case 0, 1, 2, 3:
		return r.Range(0, 8)
	case 4, 5, 6, 7, 8, 9, 10: // the short/long switch
		return r.Range(248, 262)
	case 11, 12:
		return hc.Pick(r, 255, 256, 257, 511, 512, 513)
	case 13, 14, 15:
		return r.Range(0, 300)
	case 16:
		return r.Range(300, 5000)
	case 17:
		if r.Chance(25) { // second and third length byte
			return hc.Pick(r, 65535, 65536, 65537, 65538, 65539, 65540, 66000, r.Range(1000, 70000))
		}
		return r.Range(262, 1100)
	}
	return r.Range(0, 64)
}

func genValue(r *hc.RNG, kind string, big bool) value {
	v := value{kind: kind}
	edge64 := []uint64{0, 1, 2, 0x7f, 0x80, 0xff, 0x100, 0xffff, 0x10000, 0x7fffffff, 0x80000000, 0xffffffff,
		0x100000000, 0x7fffffffffffffff, 0x8000000000000000, 0xffffffffffffffff, 0xfffffffffffffffe}
	u := r.U64()
	if r.Chance(40) {
		u = hc.Pick(r, edge64...)
	} else if r.Chance(30) {
		u >>= uint(r.Intn(64))
	}
	switch kind {
	case "u32", "id":
		v.u = uint64(uint32(u))
	case "i53":
		v.i = int64(u)
	case "i32": // any Go int: PutInt converts with int32(v)
		v.i = int64(u)
		if r.Chance(50) {
			v.i = int64(int32(u))
		}
	case "u64":
		v.u = u
	case "i64":
		v.i = int64(u)
	case "f64":
		v.u = u
		if r.Chance(30) {
			v.u = math.Float64bits(hc.Pick(r, 0.0, 1.0, -1.0, math.Inf(1), math.Inf(-1), math.NaN(), math.MaxFloat64,
				math.SmallestNonzeroFloat64, 3.141592653589793))
		} else if r.Chance(20) { // NaN payloads
			v.u = 0x7ff0000000000000 | (u & 0x800fffffffffffff) | 1
		}
	case "bool":
		v.u = uint64(r.Intn(2))
	case "i128":
		v.b = r.Bytes(16)
		if r.Chance(20) {
			v.b = bytes.Repeat([]byte{hc.Pick[byte](r, 0, 0xff, 0x80)}, 16)
		}
	case "i256":
		v.b = r.Bytes(32)
		if r.Chance(20) {
			v.b = bytes.Repeat([]byte{hc.Pick[byte](r, 0, 0xff, 0x80)}, 32)
		}
	case "bytes", "str":
		n := genLen(r, big)
		switch r.Intn(3) {
		case 0:
			v.b = r.Bytes(n)
		case 1:
			v.b = bytes.Repeat([]byte{hc.Pick[byte](r, 0, 0xfe, 0xff, 'a')}, n)
		default:
			v.b = r.Bytes(n)
			for i := range v.b {
				if r.Chance(30) {
					v.b[i] = 0
				}
			}
		}
	case "vec": // any Go int: PutVectorHeader converts with int32(length)
		v.i = int64(int32(u))
		if r.Chance(50) {
			v.i = int64(r.Intn(2000))
		} else if r.Chance(20) {
			v.i = int64(u)
		}
	}
	return v
}

func lenClass(n int) string {
	switch {
	case n == 0:
		return "len=0"
	case n < 253:
		return "len<253"
	case n == 253:
		return "len=253"
	case n == 254:
		return "len=254"
	case n < 65536:
		return "len<2^16"
	case n < 1<<20:
		return "len<2^20"
	}
	return "len>=2^20"
}

// junk builds bytes aimed at the branches of the decoders.
func junk(r *hc.RNG, kind string) []byte {
	n := hc.Pick(r, 0, 1, 2, 3, 4, 5, 7, 8, 9, 12, 15, 16, 17, 31, 32, 33, r.Range(0, 40), r.Range(0, 600))
	d := r.Bytes(n)
	if len(d) == 0 {
		return d
	}
	switch kind {
	case "bytes", "str":
		if r.Chance(70) {
			d[0] = hc.Pick[byte](r, 0, 1, 2, 3, 4, 252, 253, 254, 254, 254, 255, byte(len(d)), byte(len(d)-1), byte(len(d)+1))
		}
		if d[0] == 254 && len(d) >= 4 && r.Chance(80) {
			l := hc.Pick(r, 0, 1, len(d)-4, len(d)-3, len(d)-5, len(d)-8, len(d), 1<<24-1, 65536, 256)
			if l < 0 {
				l = 0
			}
			d[1], d[2], d[3] = byte(l), byte(l>>8), byte(l>>16)
		}
	case "bool":
		if r.Chance(70) && len(d) >= 4 {
			id := hc.Pick[uint32](r, bin.TypeTrue, bin.TypeFalse, bin.TypeVector, bin.TypeTrue+1, bin.TypeFalse^0x80000000)
			d[0], d[1], d[2], d[3] = byte(id), byte(id>>8), byte(id>>16), byte(id>>24)
		}
	case "vec":
		if r.Chance(80) && len(d) >= 4 {
			id := hc.Pick[uint32](r, bin.TypeVector, bin.TypeVector, bin.TypeVector, bin.TypeTrue, bin.TypeVector+1)
			d[0], d[1], d[2], d[3] = byte(id), byte(id>>8), byte(id>>16), byte(id>>24)
			if len(d) >= 8 && r.Chance(50) {
				d[7] = hc.Pick[byte](r, 0x80, 0xff, 0x7f, 0)
			}
		}
	}
	return d
}


func run(c *hc.Ctx) error {
	r := c.Rng
	bt := c.NewC20Batcher()
	add := bt.Add

	// ---- 1. values: encode, alignment, round-trip with trailing bytes, truncation
	n := c.N(40000, 400000)
	for i := 0; i < n; i++ {
		kind := kinds[r.Intn(len(kinds))]
		if r.Chance(35) {
			kind = hc.Pick(r, "bytes", "str")
		}
		v := genValue(r, kind, c.Thorough() && i%4096 == 0)
		enc := encode(v)
		c.Count("value." + kind)
		if kind == "bytes" || kind == "str" {
			c.Count("value." + kind + "." + lenClass(len(v.b)))
		}
		input := "enc " + kind + " " + v.text()
		c.Eval(sig(input), true)
		if len(enc)%4 != 0 {
			c.Fail("unaligned:"+kind, input, fmt.Sprintf("encoded length %d is not a multiple of 4", len(enc)))
		}
		add(input, hc.Hex(enc))
		// trailing bytes: random, or the encoding of another value (concatenation)
		var rest []byte
		switch r.Intn(3) {
		case 0:
		case 1:
			rest = r.Bytes(r.Range(1, 9))
		case 2:
			rest = encode(genValue(r, kinds[r.Intn(len(kinds))], false))
		}
		buf := append(append([]byte{}, enc...), rest...)
		out, left, pan := decode(kind, buf)
		want := "ok " + v.decoded()
		if kind == "vec" && int32(v.i) < 0 {
			// a negative length is not a vector header value: the decoder must refuse what the
			// (unchecked) encoder wrote
			want = "err invalid-length"
			c.Count("value.vec.negative")
		}
		switch {
		case pan != nil:
			c.Fail("panic:"+kind, "dec "+kind+" "+hc.Hex(buf), fmt.Sprint(pan))
		case out != want:
			c.Fail("roundtrip:"+kind, input, fmt.Sprintf("decode(encode v ++ rest) = %s, want %s", out, want))
		case strings.HasPrefix(out, "ok") && !bytes.Equal(left, rest):
			c.Fail("consumed:"+kind, input, fmt.Sprintf("decoder left %d bytes, %d bytes followed the %d-byte encoding", len(left), len(rest), len(enc)))
		}
		if strings.HasPrefix(out, "ok") {
			out += " " + hc.Hex(left)
		}
		add("dec "+kind+" "+hc.Hex(buf), out)
		// every proper prefix of an encoding must be rejected with an error
		if len(enc) > 0 {
			k := r.Intn(len(enc))
			if r.Chance(40) {
				k = len(enc) - 1 - r.Intn(min(4, len(enc)))
			}
			out, left, pan := decode(kind, enc[:k])
			c.Count("truncated." + strings.SplitN(out, " ", 3)[0])
			if pan != nil {
				c.Fail("panic:"+kind, "dec "+kind+" "+hc.Hex(enc[:k]), fmt.Sprint(pan))
			} else if strings.HasPrefix(out, "ok") {
				c.Fail("truncated-accepted:"+kind, "dec "+kind+" "+hc.Hex(enc[:k]), fmt.Sprintf("a %d-byte prefix of a %d-byte encoding decoded as %s", k, len(enc), out))
			}
			line := "dec " + kind + " " + hc.Hex(enc[:k])
			c.Eval(sig(line), true)
			if strings.HasPrefix(out, "ok") {
				out += " " + hc.Hex(left)
			}
			add(line, out)
		}
	}

	// ---- 2. concatenations of several values decoded in sequence
	m := c.N(4000, 40000)
	for i := 0; i < m; i++ {
		cnt := r.Range(2, 6)
		var ks, wants []string
		var buf []byte
		for j := 0; j < cnt; j++ {
			kind := kinds[r.Intn(len(kinds))]
			v := genValue(r, kind, false)
			if len(v.b) > 2000 {
				v.b = v.b[:r.Range(250, 260)]
			}
			ks = append(ks, kind)
			wants = append(wants, v.decoded())
			buf = append(buf, encode(v)...)
		}
		tail := r.Bytes(r.Intn(4))
		buf = append(buf, tail...)
		if r.Chance(15) { // cut somewhere: the sequence must stop with an error, not a panic
			buf = buf[:r.Intn(len(buf)+1)]
			wants = nil
		}
		line := "seq " + strings.Join(ks, ",") + " " + hc.Hex(buf)
		c.Eval(line, true)
		c.Count(fmt.Sprintf("seq.values=%d", cnt))
		var got []string
		cur := buf
		failed := false
		for _, k := range ks {
			out, left, pan := decode(k, cur)
			if pan != nil {
				c.Fail("panic:"+k, line, fmt.Sprint(pan))
				got = append(got, "panic")
				failed = true
				break
			}
			if strings.HasPrefix(out, "err") {
				got = append(got, out)
				failed = true
				break
			}
			got = append(got, strings.TrimPrefix(out, "ok "))
			cur = left
		}
		if !failed {
			if wants != nil && (strings.Join(got, " ") != strings.Join(wants, " ") || !bytes.Equal(cur, tail)) {
				c.Fail("roundtrip:sequence", line, fmt.Sprintf("decoded %v rest %s, want %v rest %s", got, hc.Hex(cur), wants, hc.Hex(tail)))
			}
			got = append(got, "|", hc.Hex(cur))
			c.Count("seq.ok")
		} else {
			c.Count("seq.stopped")
		}
		add(line, strings.Join(got, " "))
	}

	// ---- 3. arbitrary bytes through every decoder
	j := c.N(40000, 400000)
	for i := 0; i < j; i++ {
		kind := kinds[r.Intn(len(kinds))]
		if r.Chance(40) {
			kind = hc.Pick(r, "bytes", "str", "vec", "bool")
		}
		d := junk(r, kind)
		out, left, pan := decode(kind, d)
		line := "dec " + kind + " " + hc.Hex(d)
		c.Eval(line, len(d) > 0)
		c.Count("junk." + kind + "." + strings.SplitN(strings.SplitN(out, ":", 2)[0], " ", 3)[0] + func() string {
			if strings.HasPrefix(out, "err ") {
				return "." + strings.SplitN(out[4:], ":", 2)[0]
			}
			return ""
		}())
		if pan != nil {
			c.Fail("panic:"+kind, line, fmt.Sprint(pan))
		} else if strings.HasPrefix(out, "ok") {
			if len(left) > len(d) || (len(d)-len(left))%4 != 0 {
				c.Fail("consumed:"+kind, line, fmt.Sprintf("consumed %d of %d bytes", len(d)-len(left), len(d)))
			}
			out += " " + hc.Hex(left)
		}
		add(line, out)
	}

	// ---- 3b. PeekID / ConsumeID / ConsumeN on arbitrary bytes
	q := c.N(6000, 60000)
	for i := 0; i < q; i++ {
		d := r.Bytes(hc.Pick(r, 0, 1, 3, 4, 5, 8, r.Range(0, 40)))
		guardOp := func(f func(b *bin.Buffer) string) (out string) {
			b := &bin.Buffer{Buf: append([]byte{}, d...)}
			defer func() {
				if p := recover(); p != nil {
					out = "panic"
				}
			}()
			return f(b)
		}
		var line, out string
		switch r.Intn(3) {
		case 0:
			line = "peek " + hc.Hex(d)
			out = guardOp(func(b *bin.Buffer) string {
				v, err := b.PeekID()
				if err != nil {
					return "err " + errTag(err)
				}
				if !bytes.Equal(b.Buf, d) {
					return "peek consumed input"
				}
				return "ok " + strconv.FormatUint(uint64(v), 10)
			})
			c.Count("op.peek")
		case 1:
			id := uint32(r.U64())
			if len(d) >= 4 && r.Chance(60) {
				id = uint32(d[0]) | uint32(d[1])<<8 | uint32(d[2])<<16 | uint32(d[3])<<24
			}
			line = fmt.Sprintf("consume %d %s", id, hc.Hex(d))
			out = guardOp(func(b *bin.Buffer) string {
				if err := b.ConsumeID(id); err != nil {
					if !bytes.Equal(b.Buf, d) {
						return "failed ConsumeID consumed input"
					}
					return "err " + errTag(err)
				}
				return "ok " + hc.Hex(b.Buf)
			})
			c.Count("op.consume")
		default:
			k := hc.Pick(r, 0, 1, len(d), len(d)+1, max(0, len(d)-1), r.Range(0, 48))
			line = fmt.Sprintf("getn %d %s", k, hc.Hex(d))
			out = guardOp(func(b *bin.Buffer) string {
				t := make([]byte, k)
				if err := b.ConsumeN(t, k); err != nil {
					return "err " + errTag(err)
				}
				return "ok " + hc.Hex(t) + " " + hc.Hex(b.Buf)
			})
			c.Count("op.getn")
		}
		c.Eval(line, len(d) > 0)
		if out == "panic" {
			c.Fail("panic:op", line, "panic")
		}
		add(line, out)
	}

	// ---- 3c. bin.Fields: Has / Set / Unset / Zero / Encode / Decode
	nf := c.N(6000, 60000)
	for i := 0; i < nf; i++ {
		f0 := bin.Fields(uint32(r.U64()))
		if r.Chance(30) {
			f0 = bin.Fields(hc.Pick[uint32](r, 0, 1, 1<<31, 1<<32-1, 1<<16, 0x80000001))
		}
		f := f0
		var ops, outs []string
		pan := func() (p any) {
			defer func() { p = recover() }()
			for j := r.Range(1, 6); j > 0; j-- {
				n := hc.Pick(r, 0, 1, 15, 30, 31, 32, 33, 63, 64, 70, r.Intn(32))
				switch r.Intn(5) {
				case 0:
					ops = append(ops, fmt.Sprintf("has:%d", n))
					outs = append(outs, map[bool]string{true: "1", false: "0"}[f.Has(n)])
				case 1:
					ops = append(ops, fmt.Sprintf("set:%d", n))
					f.Set(n)
					outs = append(outs, strconv.FormatUint(uint64(f), 10))
					if n < 32 && !f.Has(n) {
						c.Fail("fields-set", fmt.Sprintf("fields %d set:%d", uint32(f0), n), "Has is false right after Set")
					}
				case 2:
					ops = append(ops, fmt.Sprintf("unset:%d", n))
					f.Unset(n)
					outs = append(outs, strconv.FormatUint(uint64(f), 10))
					if f.Has(n) {
						c.Fail("fields-unset", fmt.Sprintf("fields %d unset:%d", uint32(f0), n), "Has is true right after Unset")
					}
				case 3:
					ops = append(ops, "zero")
					outs = append(outs, map[bool]string{true: "1", false: "0"}[f.Zero()])
				default:
					ops = append(ops, "enc")
					var b bin.Buffer
					_ = f.Encode(&b)
					outs = append(outs, hc.Hex(b.Buf))
					var g bin.Fields
					if err := g.Decode(&bin.Buffer{Buf: append([]byte{}, b.Buf...)}); err != nil || g != f || b.Len() != 4 {
						c.Fail("roundtrip:fields", fmt.Sprintf("fields %d enc", uint32(f)), fmt.Sprintf("decoded %d err %v", uint32(g), err))
					}
				}
			}
			return nil
		}()
		line := fmt.Sprintf("fields %d %s", uint32(f0), strings.Join(ops, " "))
		c.Eval(line, true)
		c.Count("fields")
		if pan != nil {
			c.Fail("panic:fields", line, fmt.Sprint(pan))
			continue
		}
		add(line, strings.Join(outs, " "))
		if i%4 == 0 {
			d := r.Bytes(hc.Pick(r, 0, 3, 4, 5, 8))
			var g bin.Fields
			b := &bin.Buffer{Buf: append([]byte{}, d...)}
			out := ""
			if err := g.Decode(b); err != nil {
				out = "err " + errTag(err)
			} else {
				out = fmt.Sprintf("ok %d %s", uint32(g), hc.Hex(b.Buf))
			}
			add("fdec "+hc.Hex(d), out)
		}
	}

	// ---- 3d. Buffer housekeeping and Pool reuse: op sequences on one buffer
	nb := c.N(6000, 60000)
	pool := bin.NewPool(hc.Pick(r, 0, 16, 1024))
	for i := 0; i < nb; i++ {
		init := r.Bytes(r.Range(0, 24))
		buf := pool.Get()
		buf.Put(init)
		var ops, outs []string
		func() {
			defer func() {
				if p := recover(); p != nil {
					outs = append(outs, "panic")
					buf = &bin.Buffer{} // the panicking buffer is not recycled
				}
			}()
			for j := r.Range(1, 7); j > 0; j-- {
				state := func() { outs = append(outs, "="+hc.Hex(buf.Buf)) }
				switch r.Intn(10) {
				case 0:
					n := hc.Pick(r, 0, 1, 4, 17, -1, r.Range(0, 40))
					ops = append(ops, fmt.Sprintf("resetn:%d", n))
					buf.ResetN(n)
					state()
				case 1:
					n := hc.Pick(r, 0, 1, 4, -1, r.Range(0, 20))
					ops = append(ops, fmt.Sprintf("expand:%d", n))
					buf.Expand(n)
					state()
				case 2:
					n := hc.Pick(r, 0, 1, buf.Len(), buf.Len()+1, r.Range(0, 12))
					if r.Chance(85) && n > buf.Len() {
						n = buf.Len()
					}
					ops = append(ops, fmt.Sprintf("skip:%d", n))
					buf.Skip(n)
					state()
				case 3:
					k := hc.Pick(r, 0, 1, 3, 8, 100)
					ops = append(ops, fmt.Sprintf("read:%d", k))
					p := make([]byte, k)
					n, err := buf.Read(p)
					eof := "0"
					if err == io.EOF {
						eof = "1"
					} else if err != nil {
						eof = "?"
					}
					outs = append(outs, hc.Hex(p[:n])+":"+eof)
				case 4:
					raw := r.Bytes(r.Range(0, 9))
					ops = append(ops, "put:"+hc.Hex(raw))
					buf.Put(raw)
					state()
				case 5:
					ops = append(ops, "copy")
					cp := buf.Copy()
					outs = append(outs, hc.Hex(cp))
					if len(cp) > 0 && len(buf.Buf) > 0 && &cp[0] == &buf.Buf[0] {
						c.Fail("copy-aliases", "buf "+hc.Hex(init)+" "+strings.Join(ops, " "), "Copy returned the buffer's own memory")
					}
				case 6:
					ops = append(ops, "len")
					outs = append(outs, strconv.Itoa(buf.Len()))
				case 7:
					ops = append(ops, "reset")
					buf.Reset()
					state()
				case 8: // back to the pool dirty, then a fresh Get must be empty
					ops = append(ops, "poolget")
					pool.Put(buf)
					buf = pool.Get()
					state()
				default:
					n := hc.Pick(r, 0, 1, 8, 33, r.Range(0, 64))
					ops = append(ops, fmt.Sprintf("poolsize:%d", n))
					pool.Put(buf)
					buf = pool.GetSize(n)
					state()
					for _, x := range buf.Buf {
						if x != 0 {
							c.Fail("pool-dirty", "buf "+hc.Hex(init)+" "+strings.Join(ops, " "), "GetSize returned a buffer with stale bytes")
							break
						}
					}
				}
			}
		}()
		pool.Put(buf)
		line := "buf " + hc.Hex(init) + " " + strings.Join(ops, " ")
		c.Eval(line, true)
		c.Count("bufops")
		add(line, strings.Join(outs, " "))
	}

	// ---- 3e. Bytes() must return a copy ("it's safe to modify it"); Int128/Int256 are values
	for i := 0; i < c.N(2000, 20000); i++ {
		v := r.Bytes(hc.Pick(r, 1, 3, 4, 253, 254, r.Range(1, 600)))
		var b bin.Buffer
		b.PutBytes(v)
		src := append([]byte{}, b.Buf...)
		got, err := (&bin.Buffer{Buf: src}).Bytes()
		c.Eval(fmt.Sprintf("alias bytes len=%d #%d", len(v), i), true)
		c.Count("alias.bytes")
		if err != nil {
			c.Fail("roundtrip:bytes", "enc bytes "+hc.Hex(v), err.Error())
			continue
		}
		for j := range src {
			src[j] ^= 0xff
		}
		if !bytes.Equal(got, v) {
			c.Fail("bytes-aliases-buffer", "enc bytes "+hc.Hex(v), "the slice returned by Bytes() changed when the source buffer was overwritten")
		}
	}

	// ---- 4. length prefixes up to 2^24-1 (no payload through the pipe)
	lens := []int{0, 1, 2, 3, 4, 252, 253, 254, 255, 256, 257, 65535, 65536, 65537, 1 << 20, 1<<24 - 5, 1<<24 - 4, 1<<24 - 3, 1<<24 - 2, 1<<24 - 1}
	extra := c.N(40, 400)
	for i := 0; i < extra; i++ {
		lens = append(lens, hc.Pick(r, r.Range(0, 600), r.Range(0, 1<<16+10), r.Range(1<<16, 1<<24-1)))
	}
	for idx, l := range lens {
		if l > 1<<18 && !c.Thorough() && idx >= 20 && r.Chance(90) {
			l = r.Range(0, 1<<18)
		}
		payload := bytes.Repeat([]byte{byte(l)*7 + 1}, l)
		kind := hc.Pick(r, "bytes", "str")
		v := value{kind: kind, b: payload}
		enc := encode(v)
		hl := 1
		if l > 253 {
			hl = 4
		}
		line := fmt.Sprintf("hdr %d", l)
		c.Eval(line, true)
		c.Count("hdr." + lenClass(l))
		if len(enc)%4 != 0 {
			c.Fail("unaligned:"+kind, line, fmt.Sprintf("encoded length %d", len(enc)))
		}
		tail := []byte{1, 2, 3, 4}
		got, left, err, pan := decodeRaw(kind, append(append([]byte{}, enc...), tail...))
		switch {
		case pan != nil:
			c.Fail("panic:"+kind, line, fmt.Sprint(pan))
		case err != nil:
			c.Fail("roundtrip:"+kind, line, "decode(encode v) = "+err.Error())
		case !bytes.Equal(got, payload):
			c.Fail("roundtrip:"+kind, line, fmt.Sprintf("decoded %d bytes differ from the %d encoded", len(got), l))
		case !bytes.Equal(left, tail):
			c.Fail("consumed:"+kind, line, fmt.Sprintf("decoder left %d bytes, want 4", len(left)))
		}
		// a proper prefix (cut inside the padding or the payload) must be an error
		cut := len(enc) - 1 - r.Intn(min(len(enc), 6))
		if _, _, err, pan := decodeRaw(kind, enc[:cut]); pan != nil {
			c.Fail("panic:"+kind, line, fmt.Sprint(pan))
		} else if err == nil {
			c.Fail("truncated-accepted:"+kind, fmt.Sprintf("%s cut at %d of %d", line, cut, len(enc)), "decoded without error")
		}
		if len(enc) >= hl+l {
			add(line, fmt.Sprintf("%s %d %d", hc.Hex(enc[:hl]), len(enc)-hl-l, len(enc)))
		} else {
			add(line, fmt.Sprintf("short encoding of %d bytes", len(enc)))
		}
	}

	c.Res.Rule = "values of all 13 kinds (uint32, id, int, uint64, long, int53, double, Bool, int128, int256, bytes, string, vector header) (ints clustered at 0, ±1, 2^7, 2^8, 2^16, 2^31, 2^32, 2^63, 2^64−1; doubles incl. ±Inf and NaN payloads as bit patterns; strings/bytes with lengths clustered at 0..8, 248..262, 2^16±, up to 70000 (2^20 in thorough) and header-only up to 2^24−1) are encoded, decoded with trailing bytes or another encoding appended, and truncated; sequences of 2..6 values; arbitrary bytes aimed at each decoder's branches. non-trivial = every case except decoding the empty input; distinct = distinct request line"

	// ---- correspondence
	c.PartialNote("Go runtime panics other than the slice/index bounds checks made explicit in the model (stack exhaustion, allocation failure) are exercised under recover(), not exhibited by the model")
	return bt.Done()
}
