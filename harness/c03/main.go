// C03 — persisted update state never runs ahead of delivered updates.
//
// Drives the public updates.Manager with a fake API (server log + difference oracle), recording
// StateStorage and UpdateHandler into one trace.  Monitor: at every storage write the persisted
// pts/qts/channel pts covers only updates already handed to the handler (unless too-long was
// reported before); crash/restart clause: a second manager started from the storage as it was at a
// write boundary recovers everything the first one had not delivered.  Correspondence: the trace of
// every process (main loop, each channel worker) is compared with the Lean manager model, which
// interprets the call orders regenerated from the source.
package main

import (
	"verif/harness/c02/mgr"
	"verif/harness/hc"
)

func main() { hc.Main(hc.Spec{Prop: "C03", Facts: mgr.OrderFacts, Run: run}) }

func run(c *hc.Ctx) error {
	r := &mgr.Runner{C: c, Opt: mgr.Options{Prop: "C03", FailC03: true, Restart: true, MaxRestarts: c.N(2, 6)}}
	for _, sc := range mgr.Fixed() {
		r.Evaluate(sc, nil)
	}
	n := c.N(800, 15000)
	for i := 0; i < n; i++ {
		sc, plain := mgr.Gen(c.Rng, mgr.GenOptions{Channels: hc.Pick(c.Rng, 0, 1, 1, 2), TooLong: true,
			Wait: c.Thorough() && i < 400, MaxEntries: hc.Pick(c.Rng, 4, 8, 12), Affected: c.Rng.Chance(50), Foreign: c.Rng.Chance(40), Faults: c.Rng.Chance(30), Fresh: c.Rng.Chance(50), Seq: c.Rng.Chance(40), Users: c.Rng.Chance(35), Private: c.Rng.Chance(35), First: c.Rng.Chance(20)})
		r.Evaluate(sc, plain)
	}
	r.Flush()
	c.Res.Rule = "scenario = initial persisted state (or none: the very first start, after part of the log has happened) + finite server log (new messages, pts-bearing deletes with count 1..3, qts updates, channel messages/deletes, position-less updates; channels are stored, or unknown to the storage and met during the run through a live update (count >= 1 or 0) or an update forwarded inside a difference, with the access hash known from the start or learnt by an action K; channels may become inaccessible (CHANNEL_PRIVATE: worker stops, channel forgotten) and accessible again) + schedule (containers unnumbered or numbered with seq/seq_start — seq gaps, duplicated and late containers, the seq gap timer; messages from users whose access hash is unknown (the container is dropped, the difference fetched); in-order pushes, batches, losses, late arrivals, duplicates, forced common/channel recoveries, sliced differences, too-long answers; thorough: waiting out the real 500 ms gap timer) + final recovery; every storage-write boundary is a crash point for the prefix check, and up to MaxRestarts of them per scenario are replayed as crash+restart+recovery; non-trivial = at least one update was lost (had to be recovered by a difference); distinct = distinct scenario line"
	c.PartialNote("goroutine scheduling between two harness actions is whatever the Go scheduler does (the harness waits for quiescence after every action and compares each process's own event order; the interleaving of different processes' events is not compared)")
	c.PartialNote("a process kill is modelled by 'no further steps' + restart from a snapshot of the in-memory StateStorage taken at the write boundary; durability of a real storage backend is assumed")
	c.PartialNote("the real gap timer (500 ms) is only exercised in the thorough tier; the model takes 'timer fired' as an input action")
	return r.Err()
}
