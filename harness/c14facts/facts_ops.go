package c14facts

// Operand facts of RSAPad / DecodeRSAPad: which named byte string enters each hash, xor, cipher,
// concatenation and slice, in source order.  The Lean model INTERPRETS these lists (Model/C14.lean),
// so hashing / slicing a different variable changes the model, not only a pinned string.
import (
	"fmt"
	"go/ast"
	"strings"

	"verif/harness/hc"
)

var c14Vals = map[string]bool{"data": true, "tempKey": true, "dataWithPadding": true, "dataPadReversed": true, "dataWithHash": true,
	"aesEncrypted": true, "aesEncryptedHash": true, "tempKeyXor": true, "keyAESEncrypted": true, "encryptedData": true, "hash": true, "zeroIV": true}

func c14Val(f *hc.Facts, e ast.Expr) string {
	s := strings.TrimSuffix(strings.TrimSuffix(f.Src(e), "[:]"), "...")
	if c14Vals[s] {
		return "." + s
	}
	return ".unknown"
}

func c14List(f *hc.Facts, es []ast.Expr) string {
	var xs []string
	for _, e := range es {
		xs = append(xs, c14Val(f, e))
	}
	return "[" + strings.Join(xs, ", ") + "]"
}

// calls of `name` (function or method) inside fn, in source order
func callsOf(fd *ast.FuncDecl, name string) [][]ast.Expr {
	var out [][]ast.Expr
	if fd == nil || fd.Body == nil {
		return nil
	}
	ast.Inspect(fd.Body, func(n ast.Node) bool {
		if c, ok := n.(*ast.CallExpr); ok {
			switch fn := c.Fun.(type) {
			case *ast.Ident:
				if fn.Name == name {
					out = append(out, c.Args)
				}
			case *ast.SelectorExpr:
				if fn.Sel.Name == name {
					out = append(out, c.Args)
				}
			}
		}
		return true
	})
	return out
}

func opsFacts(f *hc.Facts) {
	f.Raw("/-- named byte strings of RSAPad / DecodeRSAPad -/")
	f.Raw("inductive V where\n  | data | tempKey | dataWithPadding | dataPadReversed | dataWithHash | aesEncrypted | aesEncryptedHash\n  | tempKeyXor | keyAESEncrypted | encryptedData | hash | zeroIV | unknown\n  deriving DecidableEq, Repr")
	emitList := func(name string, es []ast.Expr, ok bool, what string) {
		if !ok {
			f.Missing(name, what+" not found in the expected shape")
			return
		}
		f.Raw(fmt.Sprintf("def %s : List V := %s -- %s", name, c14List(f, es), what))
	}
	for _, side := range []struct{ pre, fn string }{{"enc", "RSAPad"}, {"dec", "DecodeRSAPad"}} {
		fd := f.FuncDecl("crypto", side.fn)
		// h.Write(x) sequence = the hashed concatenation
		var writes []ast.Expr
		for _, a := range callsOf(fd, "Write") {
			if len(a) == 1 {
				writes = append(writes, a[0])
			}
		}
		emitList(side.pre+"HashWrites", writes, len(writes) > 0, "h.Write(…) sequence in crypto."+side.fn)
		nc := callsOf(fd, "NewCipher")
		emitList(side.pre+"CipherKey", first(nc), len(nc) == 1 && len(nc[0]) == 1, "aes.NewCipher(…) in crypto."+side.fn)
		ige := callsOf(fd, map[string]string{"enc": "EncryptBlocks", "dec": "DecryptBlocks"}[side.pre])
		emitList(side.pre+"IgeArgs", tail(first(ige)), len(ige) == 1 && len(ige[0]) == 4, "ige.…Blocks(block, iv, dst, src) in crypto."+side.fn+" (iv, dst, src)")
		xs := callsOf(fd, "Bytes") // xor.Bytes(dst, a, b)
		var xor []ast.Expr
		for _, a := range xs {
			if len(a) == 3 {
				xor = a
			}
		}
		emitList(side.pre+"XorArgs", xor, xor != nil, "xor.Bytes(dst, a, b) in crypto."+side.fn)
		sum := callsOf(fd, "Sum256")
		emitList(side.pre+"Sum256Arg", first(sum), len(sum) == 1 && len(sum[0]) == 1, "sha256.Sum256(…) in crypto."+side.fn)
		rev := callsOf(fd, "reverseBytes")
		emitList(side.pre+"ReverseArg", first(rev), len(rev) == 1 && len(rev[0]) == 1, "reverseBytes(…) in crypto."+side.fn)
	}
	// every use of the random source (callee, destination): the model is chunking-independent only if all
	// of them are io.ReadFull
	for _, x := range []struct{ name, fn string }{{"padRandomReads", "RSAPad"}, {"hashedRandomReads", "RSAEncryptHashed"}} {
		if l := randomReads(f, x.fn, "randomSource"); l != "" {
			f.Raw(fmt.Sprintf("def %s : List (String × String) := %s -- every call of crypto.%s that takes the random source: (callee, destination)", x.name, l, x.fn))
		} else {
			f.Missing(x.name, "crypto."+x.fn+" not found")
		}
	}
	enc := f.FuncDecl("crypto", "RSAPad")
	// appends: append(dst, src...) in source order: (dst, src)
	var apps []string
	for _, a := range callsOf(enc, "append") {
		if len(a) == 2 {
			apps = append(apps, fmt.Sprintf("(%s, %s)", c14Val(f, a[0]), c14Val(f, a[1])))
		}
	}
	if len(apps) == 0 {
		f.Missing("encAppends", "append(dst, src...) calls in crypto.RSAPad")
	} else {
		f.Raw("def encAppends : List (V × V) := [" + strings.Join(apps, ", ") + "] -- append(dst, src...) in crypto.RSAPad, in order")
	}
	var copies []string
	for _, a := range callsOf(enc, "copy") {
		if len(a) == 2 {
			copies = append(copies, fmt.Sprintf("(%s, %s)", c14Val(f, a[0]), c14Val(f, a[1])))
		}
	}
	f.Raw("def encCopies : List (V × V) := [" + strings.Join(copies, ", ") + "] -- copy(dst, src) in crypto.RSAPad, in order")
	re := callsOf(enc, "rsaEncrypt")
	emitList("encRsaArg", first(re), len(re) == 1 && len(re[0]) == 2, "rsaEncrypt(…, key) in crypto.RSAPad")
	// DecodeRSAPad: slices  x := src[lo:hi]
	dec := f.FuncDecl("crypto", "DecodeRSAPad")
	var slices []string
	if dec != nil && dec.Body != nil {
		ast.Inspect(dec.Body, func(n ast.Node) bool {
			as, ok := n.(*ast.AssignStmt)
			if !ok || len(as.Lhs) != 1 || len(as.Rhs) != 1 {
				return true
			}
			se, ok := as.Rhs[0].(*ast.SliceExpr)
			if !ok {
				return true
			}
			bound := func(e ast.Expr) string {
				if e == nil {
					return "none"
				}
				if v, ok := f.ConstInt("crypto", f.Src(e)); ok {
					return "some " + v
				}
				if v, ok := lit0(e); ok {
					return "some " + v
				}
				return "some 999999"
			}
			slices = append(slices, fmt.Sprintf("(%s, %s, %s, %s)", c14Val(f, as.Lhs[0]), c14Val(f, se.X), bound(se.Low), bound(se.High)))
			return true
		})
	}
	f.Raw("def decSlices : List (V × V × Option Nat × Option Nat) := [" + strings.Join(slices, ", ") + "] -- x := src[lo:hi] in crypto.DecodeRSAPad, in order")
	eq := callsOf(dec, "Equal")
	if len(eq) == 1 && len(eq[0]) == 2 {
		f.Raw(fmt.Sprintf("def decCompare : V := %s -- bytes.Equal(%s, %s)", c14Val(f, eq[0][0]), f.Src(eq[0][0]), f.Src(eq[0][1])))
		f.Str("decCompareWith", f.Src(eq[0][1]), "second argument of bytes.Equal in crypto.DecodeRSAPad")
	} else {
		f.Missing("decCompare", "bytes.Equal(hash, h.Sum(nil)) in crypto.DecodeRSAPad")
	}
	rd := callsOf(dec, "rsaDecrypt")
	if len(rd) == 1 && len(rd[0]) == 3 {
		f.Raw(fmt.Sprintf("def decRsaDst : V := %s -- rsaDecrypt(data, key, %s)", c14Val(f, rd[0][2]), f.Src(rd[0][2])))
	} else {
		f.Missing("decRsaDst", "rsaDecrypt(data, key, dst) in crypto.DecodeRSAPad")
	}
}

// randomReads lists every call in fn that touches the random source parameter: (callee, destination).
func randomReads(f *hc.Facts, fn, param string) string {
	fd := f.FuncDecl("crypto", fn)
	if fd == nil || fd.Body == nil {
		return ""
	}
	var out []string
	ast.Inspect(fd.Body, func(n ast.Node) bool {
		c, ok := n.(*ast.CallExpr)
		if !ok {
			return true
		}
		if sel, ok := c.Fun.(*ast.SelectorExpr); ok {
			if id, ok := sel.X.(*ast.Ident); ok && id.Name == param { // randomSource.Read(dst)
				dst := ""
				if len(c.Args) > 0 {
					dst = f.Src(c.Args[0])
				}
				out = append(out, fmt.Sprintf("(%q, %q)", f.Src(c.Fun), dst))
				return true
			}
		}
		for i, a := range c.Args {
			if id, ok := a.(*ast.Ident); ok && id.Name == param {
				dst := ""
				if i+1 < len(c.Args) {
					dst = f.Src(c.Args[i+1])
				}
				out = append(out, fmt.Sprintf("(%q, %q)", f.Src(c.Fun), dst))
			}
		}
		return true
	})
	return "[" + strings.Join(out, ", ") + "]"
}

func first(x [][]ast.Expr) []ast.Expr {
	if len(x) == 0 {
		return nil
	}
	return x[0]
}

func tail(x []ast.Expr) []ast.Expr {
	if len(x) == 0 {
		return nil
	}
	return x[1:]
}

func lit0(e ast.Expr) (string, bool) {
	if b, ok := e.(*ast.BasicLit); ok {
		return b.Value, true
	}
	return "", false
}
