// Package c14facts regenerates the Lean facts of property C14 from /repo/crypto (sizes, conditions,
// operand lists of RSAPad / DecodeRSAPad).  A library, so that the check of C15 (whose model imports the
// C14 model) regenerates them too.
package c14facts

import (
	"go/ast"
	"go/parser"
	"go/token"
	"path/filepath"

	"verif/harness/hc"
)

// Facts emits all facts of C14.
func Facts(f *hc.Facts) {
	f.Const("rsaLen", "crypto", "rsaLen")
	f.Const("rsaWithHashLen", "crypto", "rsaWithHashLen")
	f.Const("rsaPadDataLimit", "crypto", "rsaPadDataLimit")
	f.Const("dataWithPaddingLength", "crypto", "dataWithPaddingLength")
	f.Const("tempKeySize", "crypto", "tempKeySize")
	f.Nat("sha1Size", 20, "crypto/sha1.Size (standard library)")
	f.Nat("sha256Size", 32, "crypto/sha256.Size (standard library)")
	// conditions
	cond := func(fn string, pick func(*ast.FuncDecl) ast.Node) string {
		fd := f.FuncDecl("crypto", fn)
		if fd == nil || fd.Body == nil {
			return ""
		}
		n := pick(fd)
		if n == nil {
			return ""
		}
		return f.Src(n)
	}
	firstIf := func(fd *ast.FuncDecl) ast.Node {
		for _, s := range fd.Body.List {
			if is, ok := s.(*ast.IfStmt); ok {
				return is.Cond
			}
		}
		return nil
	}
	f.Str("padLimitCond", cond("RSAPad", firstIf), "first `if` of crypto.RSAPad (rejects)")
	f.Str("hashedLimitCond", cond("RSAEncryptHashed", firstIf), "first `if` of crypto.RSAEncryptHashed (rejects)")
	f.Str("padRetryCond", cond("RSAPad", func(fd *ast.FuncDecl) ast.Node {
		var out ast.Node
		ast.Inspect(fd.Body, func(n ast.Node) bool {
			if is, ok := n.(*ast.IfStmt); ok && len(is.Body.List) == 1 {
				if br, ok := is.Body.List[0].(*ast.BranchStmt); ok && br.Tok.String() == "continue" {
					out = is.Cond
				}
			}
			return true
		})
		return out
	}), "condition of the `continue` (retry) in crypto.RSAPad")
	f.Str("guessLoopCond", cond("RSADecryptHashed", func(fd *ast.FuncDecl) ast.Node {
		var out ast.Node
		ast.Inspect(fd.Body, func(n ast.Node) bool {
			if fs, ok := n.(*ast.ForStmt); ok && out == nil {
				out = fs.Cond
			}
			return true
		})
		return out
	}), "loop condition of the guessing loop in crypto.RSADecryptHashed")
	f.Str("fillBytesCond", cond("FillBytes", firstIf), "first `if` of crypto.FillBytes (rejects)")
	f.Str("rsaDataLenSrc", constSrc(f, "rsaDataLen"), "crypto.rsaDataLen")
	f.Str("dataWithHashLengthSrc", constSrc(f, "dataWithHashLength"), "crypto.dataWithHashLength")
	opsFacts(f)
}

// constSrc returns the source text of the value of a package-level constant of /repo/crypto.
func constSrc(f *hc.Facts, name string) string {
	for _, file := range []string{"rsa.go", "rsa_pad.go"} {
		fset := token.NewFileSet()
		af, err := parser.ParseFile(fset, filepath.Join(f.Repo, "crypto", file), nil, 0)
		if err != nil {
			continue
		}
		for _, d := range af.Decls {
			gd, ok := d.(*ast.GenDecl)
			if !ok || gd.Tok != token.CONST {
				continue
			}
			for _, sp := range gd.Specs {
				vs := sp.(*ast.ValueSpec)
				for i, id := range vs.Names {
					if id.Name == name && i < len(vs.Values) {
						return f.Src(vs.Values[i])
					}
				}
			}
		}
	}
	return ""
}
