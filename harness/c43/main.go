// C43 — pings and pongs: trace conformance of mtproto.Conn.Ping / handlePong / removePong with the
// Lean transition system TdModel.C43 (registered ping ids compared after every step), the keep-alive
// loop observed end-to-end through Conn.Run, plus the property monitor on the implementation.
package main

import (
	"context"
	"errors"
	"fmt"
	"go/ast"
	"go/token"
	"sort"
	"strconv"
	"strings"
	"sync"
	"time"

	"github.com/gotd/neo"

	"github.com/gotd/td/bin"
	"github.com/gotd/td/crypto"
	"github.com/gotd/td/mt"
	"github.com/gotd/td/mtproto"
	"github.com/gotd/td/transport"

	"verif/harness/hc"
)

func main() {
	hc.Main(hc.Spec{Prop: "C43", Facts: facts, Run: run})
}

// ---------------------------------------------------------------------------------- facts

func flat(s string) string { return strings.Join(strings.Fields(s), " ") }

// pingShape reads the structure of Conn.Ping / Conn.pingDelayDisconnect that the model interprets:
// registration before the write, deferred removal, and the cases of the final select as
// (channel, result) pairs — channel 0 = the registered pong channel, 1 = ctx.Done(), 9 = other;
// result 0 = `return nil`, 1 = `return ctx.Err()`, 9 = anything else (fails closed).
func pingShape(f *hc.Facts, lean, fn, request string) {
	fd := f.FuncDecl("mtproto", fn)
	bad := func(why string) {
		f.Missing(lean+"Cases", "mtproto."+fn+": "+why)
		f.Missing(lean+"RegistersBeforeWrite", "mtproto."+fn+": "+why)
	}
	if fd == nil || fd.Body == nil {
		bad("not found")
		return
	}
	regAt, deferAt, writeAt, selAt := -1, -1, -1, -1
	chanVar := ""
	var sel *ast.SelectStmt
	for i, st := range fd.Body.List {
		src := flat(f.Src(st))
		switch x := st.(type) {
		case *ast.AssignStmt:
			if len(x.Lhs) == 1 && len(x.Rhs) == 1 && flat(f.Src(x.Rhs[0])) == "c.pong(pingID)" {
				regAt, chanVar = i, f.Src(x.Lhs[0])
			}
		case *ast.DeferStmt:
			if src == "defer c.removePong(pingID)" {
				deferAt = i
			}
		case *ast.IfStmt:
			if x.Init != nil && strings.HasPrefix(flat(f.Src(x.Init)), "err := c.writeServiceMessage(ctx, &mt."+request+"{") {
				writeAt = i
			}
		case *ast.SelectStmt:
			selAt, sel = i, x
		}
	}
	if sel == nil || chanVar == "" {
		bad("registration or select not found")
		return
	}
	var cases []string
	for _, cl := range sel.Body.List {
		cc := cl.(*ast.CommClause)
		ch, res := "9", "9"
		if cc.Comm != nil {
			switch flat(f.Src(cc.Comm)) {
			case "<-" + chanVar:
				ch = "0"
			case "<-ctx.Done()":
				ch = "1"
			}
		}
		if len(cc.Body) == 1 {
			switch flat(f.Src(cc.Body[0])) {
			case "return nil":
				res = "0"
			case "return ctx.Err()":
				res = "1"
			}
		}
		cases = append(cases, "("+ch+", "+res+")")
	}
	// nothing after the select may return something else
	if selAt != len(fd.Body.List)-1 {
		cases = append(cases, "(9, 9)")
	}
	f.Raw("def " + lean + "Cases : List (Nat × Nat) := [" + strings.Join(cases, ", ") + "] -- select of mtproto." + fn + ": (channel 0 pong/1 ctx.Done/9 other, result 0 nil/1 ctx.Err()/9 other)")
	f.Bool(lean+"RegistersBeforeWrite", regAt >= 0 && deferAt == regAt+1 && writeAt > deferAt && selAt > writeAt,
		"mtproto."+fn+": pong := c.pong(pingID); defer c.removePong(pingID); write; select")
}

// linear resolves a duration expression of pingLoop into coefficients of (c.pingInterval,
// c.pingTimeout), looking through local `x := …` definitions.
func linear(f *hc.Facts, fd *ast.FuncDecl, e ast.Expr, depth int) (ci, ct int, ok bool) {
	switch x := e.(type) {
	case *ast.ParenExpr:
		return linear(f, fd, x.X, depth)
	case *ast.SelectorExpr:
		switch flat(f.Src(x)) {
		case "c.pingInterval":
			return 1, 0, true
		case "c.pingTimeout":
			return 0, 1, true
		}
	case *ast.BinaryExpr:
		if x.Op == token.ADD {
			a, b, ok1 := linear(f, fd, x.X, depth)
			c, d, ok2 := linear(f, fd, x.Y, depth)
			return a + c, b + d, ok1 && ok2
		}
	case *ast.Ident:
		if depth > 3 {
			return 0, 0, false
		}
		var def ast.Expr
		ast.Inspect(fd.Body, func(n ast.Node) bool {
			if as, ok := n.(*ast.AssignStmt); ok && as.Tok == token.DEFINE && len(as.Lhs) == 1 && len(as.Rhs) == 1 && f.Src(as.Lhs[0]) == x.Name {
				def = as.Rhs[0]
			}
			return true
		})
		if def != nil {
			return linear(f, fd, def, depth+1)
		}
	}
	return 0, 0, false
}

func facts(f *hc.Facts) {
	pingShape(f, "ping", "Conn.Ping", "PingRequest")
	pingShape(f, "pingDelay", "Conn.pingDelayDisconnect", "PingDelayDisconnectRequest")

	// handlePong: under pingMux, look the channel up under the pong's ping id; close and delete it
	// only if it is there
	hp := f.FuncDecl("mtproto", "Conn.handlePong")
	lookup, guarded := false, false
	if hp != nil {
		ast.Inspect(hp.Body, func(n ast.Node) bool {
			switch x := n.(type) {
			case *ast.AssignStmt:
				if flat(f.Src(x)) == "ch, ok := c.ping[pong.PingID]" {
					lookup = true
				}
			case *ast.IfStmt:
				if flat(f.Src(x.Cond)) == "ok" && x.Else == nil {
					var b []string
					for _, st := range x.Body.List {
						b = append(b, flat(f.Src(st)))
					}
					sort.Strings(b)
					guarded = strings.Join(b, " ; ") == "close(ch) ; delete(c.ping, pong.PingID)"
				}
			}
			return true
		})
	}
	closesElsewhere := 0
	for _, fn := range []string{"Conn.Ping", "Conn.pingDelayDisconnect", "Conn.pong", "Conn.removePong", "Conn.pingLoop"} {
		if fd := f.FuncDecl("mtproto", fn); fd != nil {
			ast.Inspect(fd.Body, func(n ast.Node) bool {
				if ce, ok := n.(*ast.CallExpr); ok && f.Src(ce.Fun) == "close" {
					closesElsewhere++
				}
				return true
			})
		}
	}
	f.Bool("handlePongClosesRegistered", lookup && guarded && hp != nil && lockSection(f, hp, "c.pingMux", "c.ping"),
		"handlePong: inside pingMux, ch, ok := c.ping[pong.PingID]; if ok { close(ch); delete(c.ping, pong.PingID) }")
	f.Nat("otherChannelCloses", closesElsewhere, "close(…) calls in Ping/pingDelayDisconnect/pong/removePong/pingLoop")
	pg, rp := f.FuncDecl("mtproto", "Conn.pong"), f.FuncDecl("mtproto", "Conn.removePong")
	reg := pg != nil && strings.Contains(flat(f.Src(pg.Body)), "c.ping[pingID] = ch") && strings.Contains(flat(f.Src(pg.Body)), "ch := make(chan struct{})") && lockSection(f, pg, "c.pingMux", "c.ping")
	rem := rp != nil && strings.Contains(flat(f.Src(rp.Body)), "delete(c.ping, pingID)") && lockSection(f, rp, "c.pingMux", "c.ping")
	f.Bool("pongRegistersFreshChannel", reg, "pong: a fresh channel is stored under c.ping[pingID] inside pingMux")
	f.Bool("removePongDeletes", rem, "removePong: delete(c.ping, pingID) inside pingMux")

	// pingLoop: how long a tick's ping may wait, as coefficients of (pingInterval, pingTimeout);
	// likewise the disconnect_delay handed to the server; the error is returned
	pl := f.FuncDecl("mtproto", "Conn.pingLoop")
	waitOK, delayOK, ret, onTick := false, false, false, false
	if pl != nil {
		ast.Inspect(pl.Body, func(n ast.Node) bool {
			switch x := n.(type) {
			case *ast.CallExpr:
				fn := flat(f.Src(x.Fun))
				if fn == "context.WithTimeout" && len(x.Args) == 2 && flat(f.Src(x.Args[0])) == "ctx" {
					if ci, ct, ok := linear(f, pl, x.Args[1], 0); ok {
						waitOK = true
						f.Nat("pingWaitCoeffInterval", ci, "context.WithTimeout(ctx, "+f.Src(x.Args[1])+") in pingLoop: coefficient of c.pingInterval")
						f.Nat("pingWaitCoeffTimeout", ct, "… coefficient of c.pingTimeout")
					}
				}
				if fn == "c.pingDelayDisconnect" && len(x.Args) == 2 {
					// int(<d>.Seconds())
					if cv, ok := x.Args[1].(*ast.CallExpr); ok && f.Src(cv.Fun) == "int" && len(cv.Args) == 1 {
						if sc, ok := cv.Args[0].(*ast.CallExpr); ok {
							if se, ok := sc.Fun.(*ast.SelectorExpr); ok && se.Sel.Name == "Seconds" {
								if ci, ct, ok := linear(f, pl, se.X, 0); ok {
									delayOK = true
									f.Nat("disconnectDelayCoeffInterval", ci, "disconnect_delay = int(("+f.Src(se.X)+").Seconds()): coefficient of c.pingInterval")
									f.Nat("disconnectDelayCoeffTimeout", ct, "… coefficient of c.pingTimeout")
								}
							}
						}
					}
				}
			case *ast.ReturnStmt:
				if flat(f.Src(x)) == `return errors.Wrap(err, "disconnect (pong missed)")` {
					ret = true
				}
			case *ast.CommClause:
				if x.Comm != nil && flat(f.Src(x.Comm)) == "<-ticker.C()" {
					onTick = true
				}
			}
			return true
		})
	}
	if !waitOK {
		f.Missing("pingWaitCoeffInterval", "context.WithTimeout(ctx, <linear in pingInterval/pingTimeout>) not found in pingLoop")
		f.Missing("pingWaitCoeffTimeout", "…")
	}
	if !delayOK {
		f.Missing("disconnectDelayCoeffInterval", "c.pingDelayDisconnect(ctx, int(<d>.Seconds())) not found in pingLoop")
		f.Missing("disconnectDelayCoeffTimeout", "…")
	}
	// what makes the loop give up: the error returned by the tick's ping (whatever its cause: the
	// deadline, the parent context, a failed write) — not some other condition
	failsOn := "other"
	if pl != nil {
		ast.Inspect(pl.Body, func(n ast.Node) bool {
			is, ok := n.(*ast.IfStmt)
			if !ok || !strings.Contains(f.Src(is.Body), `"disconnect (pong missed)"`) {
				return true
			}
			cond := flat(f.Src(is.Cond))
			if cond != "err != nil" || is.Init == nil {
				failsOn = "other: if " + cond
				return false
			}
			as, ok := is.Init.(*ast.AssignStmt)
			if !ok || len(as.Lhs) != 1 || len(as.Rhs) != 1 || f.Src(as.Lhs[0]) != "err" {
				return false
			}
			rhs := as.Rhs[0]
			if ce, ok := rhs.(*ast.CallExpr); ok {
				if fl, ok := ce.Fun.(*ast.FuncLit); ok && len(fl.Body.List) > 0 { // err := func() error { …; return c.pingDelayDisconnect(…) }()
					if rs, ok := fl.Body.List[len(fl.Body.List)-1].(*ast.ReturnStmt); ok && len(rs.Results) == 1 {
						rhs = rs.Results[0]
					}
				}
			}
			if ce, ok := rhs.(*ast.CallExpr); ok && flat(f.Src(ce.Fun)) == "c.pingDelayDisconnect" {
				failsOn = "ping-error"
			}
			return false
		})
	}
	f.Bool("pingLoopFailsOnPingError", failsOn == "ping-error", "pingLoop gives up iff the tick's pingDelayDisconnect returned an error ("+failsOn+")")
	f.Bool("pingLoopPingsOnTick", onTick, "pingLoop pings on <-ticker.C() of c.clock.Ticker(c.pingInterval)")
	f.Bool("pingLoopReturnsError", ret, `pingLoop returns errors.Wrap(err, "disconnect (pong missed)") when the ping fails`)
	// Run starts pingLoop in the task group and returns the group's error
	inGroup, waits := false, false
	if fd := f.FuncDecl("mtproto", "Conn.Run"); fd != nil {
		ast.Inspect(fd.Body, func(n ast.Node) bool {
			switch x := n.(type) {
			case *ast.CallExpr:
				if flat(f.Src(x)) == `g.Go("pingLoop", c.pingLoop)` {
					inGroup = true
				}
			case *ast.IfStmt:
				if x.Init != nil && flat(f.Src(x.Init)) == "err := g.Wait()" {
					waits = true
				}
			}
			return true
		})
	}
	f.Bool("runStartsPingLoop", inGroup, `Run: g.Go("pingLoop", c.pingLoop)`)
	f.Bool("runReturnsGroupError", waits, "Run: if err := g.Wait(); err != nil { return … }")
}

// lockSection: every statement mentioning `expr` lies between a top-level mu.Lock() and the
// matching mu.Unlock() (explicit or deferred).
func lockSection(f *hc.Facts, fd *ast.FuncDecl, mu, expr string) bool {
	if f.LockCovers(fd, mu, expr) {
		return true
	}
	lock, unlock := -1, -1
	for i, st := range fd.Body.List {
		switch flat(f.Src(st)) {
		case mu + ".Lock()":
			if lock < 0 {
				lock = i
			}
		case mu + ".Unlock()":
			unlock = i
		}
	}
	if lock < 0 || unlock < lock {
		return false
	}
	for i, st := range fd.Body.List {
		if (i < lock || i > unlock) && strings.Contains(f.Src(st), expr) {
			return false
		}
	}
	return true
}

// ---------------------------------------------------------------------------------- transport

type written struct {
	typeID     uint32
	pingID     int64
	delay      int
	at         time.Time
	sendFailed bool
}

// capture decrypts every written frame with the server-side cipher and reports ping requests.
type capture struct {
	key    crypto.AuthKey
	cipher crypto.Cipher
	frames chan written
	mu     sync.Mutex
	errs   []string
	// fault injection (keep-alive fault scenarios): after `healthy` ping frames have been written,
	// Send of a ping fails as `fault` says; recvErr, when closed, makes Recv fail.
	fault   string // "", "send-error", "send-error-delayed", "send-blocks"
	healthy int
	pings   int
	recvErr chan struct{}
}

func (t *capture) Send(ctx context.Context, b *bin.Buffer) error {
	cp := &bin.Buffer{Buf: append([]byte{}, b.Buf...)}
	d, err := t.cipher.DecryptFromBuffer(t.key, cp)
	if err != nil {
		t.mu.Lock()
		t.errs = append(t.errs, err.Error())
		t.mu.Unlock()
		return nil
	}
	p := &bin.Buffer{Buf: d.Data()}
	id, _ := p.PeekID()
	w := written{typeID: id, at: time.Now()}
	switch id {
	case mt.PingRequestTypeID:
		var r mt.PingRequest
		if r.Decode(p) == nil {
			w.pingID = r.PingID
		}
	case mt.PingDelayDisconnectRequestTypeID:
		var r mt.PingDelayDisconnectRequest
		if r.Decode(p) == nil {
			w.pingID, w.delay = r.PingID, r.DisconnectDelay
		}
	default:
		return nil // get_future_salts, acks, …
	}
	t.mu.Lock()
	t.pings++
	faulty := t.fault != "" && t.pings > t.healthy
	t.mu.Unlock()
	if faulty {
		w.sendFailed = true
		t.frames <- w
		switch t.fault {
		case "send-error":
			return errors.New("write: broken pipe")
		case "send-error-delayed": // the error comes after part of the frame went out
			select {
			case <-time.After(40 * time.Millisecond):
			case <-ctx.Done():
			}
			return errors.New("write: connection reset by peer")
		case "send-blocks": // a full socket buffer: the write returns only when its deadline passes
			<-ctx.Done()
			return ctx.Err()
		}
	}
	t.frames <- w
	return nil
}
func (t *capture) Recv(ctx context.Context, b *bin.Buffer) error {
	if t.recvErr != nil {
		select {
		case <-t.recvErr:
			return errors.New("read: connection reset by peer")
		case <-ctx.Done():
			return ctx.Err()
		}
	}
	<-ctx.Done()
	return ctx.Err()
}
func (t *capture) Close() error                                  { return nil }

var _ transport.Conn = (*capture)(nil)

// idSource is Options.Random: the next ping id is whatever the harness put there.
type idSource struct {
	mu   sync.Mutex
	next [8]byte
	r    *hc.RNG
}

func (s *idSource) Read(p []byte) (int, error) {
	s.mu.Lock()
	defer s.mu.Unlock()
	for i := range p {
		p[i] = s.next[i%8]
	}
	return len(p), nil
}

func (s *idSource) set(v uint64) {
	s.mu.Lock()
	for i := 0; i < 8; i++ {
		s.next[i] = byte(v >> (8 * i))
	}
	s.mu.Unlock()
}

const watchdog = 60 * time.Second

func encode(e bin.Encoder) *bin.Buffer {
	var b bin.Buffer
	if err := e.Encode(&b); err != nil {
		panic(err)
	}
	return &b
}

func showIDs(ids []int64) string {
	if len(ids) == 0 {
		return "-"
	}
	p := make([]string, len(ids))
	for i, x := range ids {
		p[i] = strconv.FormatInt(x, 10)
	}
	return strings.Join(p, ",")
}

// ---------------------------------------------------------------------------------- part A: Ping as an LTS

type pingCall struct {
	id       int64
	cancel   context.CancelFunc
	done     chan error
	returned bool
	err      error
	callPos  int
	retPos   int
}

type ltsRun struct {
	c      *hc.Ctx
	conn   *mtproto.Conn
	tr     *capture
	src    *idSource
	pings  []*pingCall
	reg    map[int64]int // mirror of c.ping: whom to wait for after a pong (not used by the monitor)
	trace  []string
	snaps  []string
	pongAt map[int64][]int // positions of pong actions per id
	failed bool
	// aborted: handling a pong panicked; handlePong holds pingMux without defer, so the connection's
	// mutex stays locked and nothing on this connection may be touched any more
	aborted bool
}

func (l *ltsRun) line() string { return "lts " + strings.Join(l.trace, " ") }

func (l *ltsRun) fail(key, detail string) {
	if !l.failed {
		l.failed = true
		l.c.Fail(key, l.line(), detail)
	}
}

func (l *ltsRun) record(action string) {
	l.trace = append(l.trace, action)
	l.snaps = append(l.snaps, showIDs(mtproto.VerifC43PendingPings(l.conn)))
}

func (l *ltsRun) call(seed uint64) error {
	l.src.set(seed)
	ctx, cancel := context.WithCancel(context.Background())
	pc := &pingCall{cancel: cancel, done: make(chan error, 1), callPos: len(l.trace)}
	go func() { pc.done <- l.conn.Ping(ctx) }()
	select {
	case w := <-l.tr.frames:
		pc.id = w.pingID
	case <-time.After(watchdog):
		cancel()
		return fmt.Errorf("Ping wrote no frame within %s", watchdog)
	}
	l.pings = append(l.pings, pc)
	l.reg[pc.id] = len(l.pings) - 1
	l.record(fmt.Sprintf("c%d", pc.id))
	return nil
}

// await waits for ping p to return and records the return action.
func (l *ltsRun) await(p int) error {
	pc := l.pings[p]
	select {
	case pc.err = <-pc.done:
	case <-time.After(watchdog):
		return fmt.Errorf("ping %d did not return within %s (trace %s)", p, watchdog, l.line())
	}
	pc.returned = true
	pc.retPos = len(l.trace)
	if q, ok := l.reg[pc.id]; ok {
		_ = q
		delete(l.reg, pc.id) // removePong deletes whatever is registered under the id
	}
	if pc.err == nil {
		l.record(fmt.Sprintf("o%d", p))
	} else {
		l.record(fmt.Sprintf("e%d", p))
	}
	return nil
}

// deliver hands one pong to handleMessage; a panic there (e.g. closing a closed channel) is a
// violation: a duplicated pong must be harmless.
func (l *ltsRun) deliver(id int64) {
	defer func() {
		if p := recover(); p != nil {
			l.fail("pong-panic", fmt.Sprintf("handling a pong with id %d panicked: %v", id, p))
			l.aborted = true
		}
	}()
	if err := mtproto.VerifC43HandleMessage(l.conn, 1, encode(&mt.Pong{MsgID: 4, PingID: id})); err != nil {
		l.fail("handle-pong-error", err.Error())
	}
}

// pong delivers a pong (twice in a row when `twice`: the duplicate arrives before the waiting Ping
// had a chance to run) and then waits for the ping it releases.
func (l *ltsRun) pong(id int64, twice bool) error {
	target, ok := l.reg[id]
	delete(l.reg, id)
	n := 1
	if twice {
		n = 2
	}
	for k := 0; k < n; k++ {
		l.deliver(id)
		if l.aborted {
			l.trace = append(l.trace, fmt.Sprintf("p%d", id))
			return nil
		}
		l.pongAt[id] = append(l.pongAt[id], len(l.trace))
		l.record(fmt.Sprintf("p%d", id))
	}
	if ok && !l.pings[target].returned {
		return l.await(target)
	}
	return nil
}

func (l *ltsRun) cancelPing(p int) error {
	l.pings[p].cancel()
	return l.await(p)
}

// monitor: the statement, decided from the harness's own log of what it did and saw.
func (l *ltsRun) monitor(cancelled map[int]int) {
	for p, pc := range l.pings {
		if !pc.returned {
			l.fail("ping-never-returned", fmt.Sprintf("ping %d (id %d)", p, pc.id))
			continue
		}
		if pc.err == nil {
			ok := false
			for _, pos := range l.pongAt[pc.id] {
				if pos > pc.callPos && pos < pc.retPos {
					ok = true
				}
			}
			if !ok {
				l.fail("ping-ok-without-matching-pong", fmt.Sprintf("ping %d (id %d, called at step %d) returned nil at step %d; pongs with its id at steps %v", p, pc.id, pc.callPos, pc.retPos, l.pongAt[pc.id]))
			}
		} else if at, ok := cancelled[p]; !ok || at > pc.retPos {
			l.fail("ping-error-before-context-end", fmt.Sprintf("ping %d (id %d) returned %v at step %d without its context having ended", p, pc.id, pc.err, pc.retPos))
		}
	}
}

func runLTS(c *hc.Ctx, r *hc.RNG) (line, impl string, nontrivial bool, err error) {
	var key crypto.Key
	r.Read(key[:])
	ak := key.WithID()
	tr := &capture{key: ak, cipher: crypto.NewServerCipher(r.Fork()), frames: make(chan written, 64)}
	src := &idSource{r: r}
	clk := neo.NewTime(time.Unix(int64(r.Range(1_600_000_000, 1_900_000_000)), 0))
	conn := mtproto.VerifC43NewConn(mtproto.Options{
		Clock: clk, Random: src, Key: ak, Cipher: crypto.NewClientCipher(r.Fork()), CompressThreshold: -1,
	}, int64(r.U64()), tr)
	defer mtproto.VerifC43Close(conn)
	l := &ltsRun{c: c, conn: conn, tr: tr, src: src, reg: map[int64]int{}, pongAt: map[int64][]int{}}
	pool := make([]uint64, r.Range(1, 4))
	for i := range pool {
		pool[i] = r.U64()
	}
	cancelled := map[int]int{}
	steps := r.Range(1, 14)
	kinds := map[string]int{}
	for i := 0; i < steps && !l.aborted; i++ {
		var live []int
		for p, pc := range l.pings {
			if !pc.returned {
				live = append(live, p)
			}
		}
		switch k := r.Intn(10); {
		case k < 4 || len(l.pings) == 0:
			if len(live) >= 6 {
				continue
			}
			kinds["call"]++
			if err := l.call(pool[r.Intn(len(pool))]); err != nil {
				return l.line(), "", false, err
			}
		case k < 8:
			var id int64
			switch r.Intn(4) {
			case 0: // an id nobody uses
				id = int64(r.U64())
				kinds["pong-foreign"]++
			case 1: // a neighbour of a used id
				id = l.pings[r.Intn(len(l.pings))].id + int64(hc.Pick(r, -1, 1))
				kinds["pong-neighbour"]++
			default: // an id of some ping, live or finished (duplicate pongs)
				pc := l.pings[r.Intn(len(l.pings))]
				id = pc.id
				if pc.returned {
					kinds["pong-duplicate-or-late"]++
				} else {
					kinds["pong-matching"]++
				}
			}
			twice := r.Chance(30)
			if twice {
				kinds["pong-sent-twice-in-a-row"]++
			}
			if err := l.pong(id, twice); err != nil {
				return l.line(), "", false, err
			}
		case k == 8 && len(live) > 0:
			// the race the select allows: the matching pong and the end of the context arrive
			// together (either order), the ping may leave through either branch — and whatever it
			// leaves behind must not let a LATER ping succeed without its own pong
			// only a ping whose own channel is the one registered under its id (ids collide)
			var own []int
			for _, q := range live {
				if t, ok := l.reg[l.pings[q].id]; ok && t == q {
					own = append(own, q)
				}
			}
			if len(own) == 0 {
				continue
			}
			kinds["pong-races-with-cancel"]++
			p := own[r.Intn(len(own))]
			pc := l.pings[p]
			cancelled[p] = len(l.trace)
			if r.Bool() {
				pc.cancel()
				l.deliver(pc.id)
			} else {
				l.deliver(pc.id)
				pc.cancel()
			}
			if l.aborted {
				continue
			}
			delete(l.reg, pc.id)
			l.pongAt[pc.id] = append(l.pongAt[pc.id], len(l.trace))
			l.trace = append(l.trace, fmt.Sprintf("p%d", pc.id))
			l.snaps = append(l.snaps, "?") // the ping may or may not have deregistered yet
			if err := l.await(p); err != nil {
				return l.line(), "", false, err
			}
		default:
			if len(live) == 0 {
				continue
			}
			kinds["cancel"]++
			p := live[r.Intn(len(live))]
			cancelled[p] = len(l.trace)
			if err := l.cancelPing(p); err != nil {
				return l.line(), "", false, err
			}
		}
	}
	if l.aborted { // the failure is recorded; release what can be released and leave the connection alone
		for _, pc := range l.pings {
			pc.cancel()
		}
		return l.line(), "", false, nil
	}
	// a ping still waiting must really be waiting; then end its context
	for p, pc := range l.pings {
		if pc.returned {
			continue
		}
		select {
		case pc.err = <-pc.done:
			pc.done <- pc.err
			l.fail("ping-returned-early", fmt.Sprintf("ping %d (id %d) returned %v although no matching pong was delivered and its context is alive", p, pc.id, pc.err))
		default:
		}
		cancelled[p] = len(l.trace)
		if err := l.cancelPing(p); err != nil {
			return l.line(), "", false, err
		}
	}
	l.monitor(cancelled)
	tr.mu.Lock()
	if len(tr.errs) > 0 {
		l.fail("written-frame-undecryptable", strings.Join(tr.errs, "; "))
	}
	tr.mu.Unlock()
	for k, v := range kinds {
		for j := 0; j < v; j++ {
			c.Count("lts." + k)
		}
	}
	var res strings.Builder
	for _, pc := range l.pings {
		if pc.err == nil {
			res.WriteByte('o')
		} else {
			res.WriteByte('e')
		}
	}
	rs := res.String()
	if rs == "" {
		rs = "-"
	}
	return l.line(), strings.Join(l.snaps, "|") + " => " + rs, len(l.pings) >= 2 && kinds["pong-matching"] > 0, nil
}

// ---------------------------------------------------------------------------------- part B: the keep-alive loop through Run

type loopCase struct {
	okTicks int
	final   string // "missed", "foreign", "duplicate", "cancel"
}

type loopResult struct {
	outcomes []string // per tick: "o" acknowledged, "m" missed
	runErr   error
	ended    bool
	note     string
	late     bool
}

// safeHandle delivers a server message; a panic is reported as an error (and poisons the connection).
func safeHandle(conn *mtproto.Conn, e bin.Encoder) (err error) {
	defer func() {
		if p := recover(); p != nil {
			err = fmt.Errorf("panic while handling %T: %v", e, p)
		}
	}()
	return mtproto.VerifC43HandleMessage(conn, 1, encode(e))
}

func runLoop(seed uint64, lc loopCase, pingTimeout time.Duration) (res loopResult, herr error) {
	r := hc.NewRNG(seed)
	var key crypto.Key
	r.Read(key[:])
	ak := key.WithID()
	tr := &capture{key: ak, cipher: crypto.NewServerCipher(r.Fork()), frames: make(chan written, 64)}
	// The ticker runs on the real clock with a short interval: the fake clock's ticker sends
	// under the clock's lock, which dead-locks against c.clock.Now() when driven from outside.
	interval := 40 * time.Millisecond
	conn := mtproto.New(func(ctx context.Context) (transport.Conn, error) { return tr, nil }, mtproto.Options{
		Random: r.Fork(), Key: ak, Cipher: crypto.NewClientCipher(r.Fork()), CompressThreshold: -1,
		PingInterval: interval, PingTimeout: pingTimeout,
	})
	ctx, cancel := context.WithCancel(context.Background())
	defer cancel()
	runDone := make(chan error, 1)
	go func() {
		runDone <- conn.Run(ctx, func(ctx context.Context) error { <-ctx.Done(); return ctx.Err() })
	}()
	// nextPing waits until the loop writes its next ping (or Run ends).
	nextPing := func() (written, bool, error) {
		select {
		case w := <-tr.frames:
			return w, true, nil
		case err := <-runDone:
			res.runErr, res.ended = err, true
			return written{}, false, nil
		case <-time.After(watchdog):
			return written{}, false, fmt.Errorf("keep-alive loop wrote no ping within %s", watchdog)
		}
	}
	var lastID int64
	for k := 0; k < lc.okTicks; k++ {
		w, ok, err := nextPing()
		if err != nil {
			return res, err
		}
		if !ok {
			res.note = fmt.Sprintf("Run ended before tick %d", k)
			return res, nil
		}
		if w.delay != int((interval + pingTimeout).Seconds()) {
			res.note = fmt.Sprintf("disconnect_delay %d", w.delay)
		}
		if time.Since(w.at) > pingTimeout/2 {
			res.late = true
		}
		if e := safeHandle(conn, &mt.Pong{MsgID: 4, PingID: w.pingID}); e != nil && strings.Contains(e.Error(), "panic") {
			res.note = e.Error()
			return res, nil
		}
		lastID = w.pingID
		res.outcomes = append(res.outcomes, "o")
	}
	w, ok, err := nextPing()
	if err != nil {
		return res, err
	}
	if !ok {
		res.note = "Run ended before the last tick"
		return res, nil
	}
	switch lc.final {
	case "foreign":
		if e := safeHandle(conn, &mt.Pong{MsgID: 4, PingID: w.pingID ^ 1}); e != nil && strings.Contains(e.Error(), "panic") {
			res.note = e.Error()
			return res, nil
		}
		if e := safeHandle(conn, &mt.Pong{MsgID: 4, PingID: int64(r.U64())}); e != nil && strings.Contains(e.Error(), "panic") {
			res.note = e.Error()
			return res, nil
		}
	case "duplicate":
		if e := safeHandle(conn, &mt.Pong{MsgID: 4, PingID: lastID}); e != nil && strings.Contains(e.Error(), "panic") {
			res.note = e.Error()
			return res, nil
		}
	case "cancel":
		cancel()
	}
	select {
	case res.runErr = <-runDone:
		res.ended = true
	case <-time.After(pingTimeout + watchdog):
	}
	if lc.final != "cancel" {
		res.outcomes = append(res.outcomes, "m")
	}
	return res, nil
}

// ---------------------------------------------------------------------------------- part C: how long a missed pong is tolerated

// lateness measures how late the machine delivers a 5 ms tick right now (max over the window):
// the yardstick for every timing bound below.
type lateness struct {
	stop chan struct{}
	done chan time.Duration
}

func startLateness() *lateness {
	l := &lateness{stop: make(chan struct{}), done: make(chan time.Duration, 1)}
	go func() {
		var worst time.Duration
		t := time.NewTicker(5 * time.Millisecond)
		defer t.Stop()
		last := time.Now()
		for {
			select {
			case now := <-t.C:
				if d := now.Sub(last) - 5*time.Millisecond; d > worst {
					worst = d
				}
				last = now
			case <-l.stop:
				l.done <- worst
				return
			}
		}
	}()
	return l
}

func (l *lateness) end() time.Duration { close(l.stop); return <-l.done }

type timingResult struct {
	input        string
	waited       time.Duration // from the moment the unanswered ping was written until Run ended
	worstLate    time.Duration
	runErr       error
	ended        bool
	conclusive   bool
	delay        int
}

// runTiming: a connection whose keep-alive ping is never answered.  Run must end pingTimeout after
// the ping was written — not earlier (deadlines never fire early) and not later than that plus a
// slack scaled by the machine's measured lateness.  The interval is several times the timeout, so
// that waiting interval+timeout (or the interval alone) instead is far outside the slack.
func runTiming(seed uint64, interval, timeout time.Duration) (res timingResult, herr error) {
	r := hc.NewRNG(seed)
	var key crypto.Key
	r.Read(key[:])
	ak := key.WithID()
	tr := &capture{key: ak, cipher: crypto.NewServerCipher(r.Fork()), frames: make(chan written, 64)}
	conn := mtproto.New(func(ctx context.Context) (transport.Conn, error) { return tr, nil }, mtproto.Options{
		Random: r.Fork(), Key: ak, Cipher: crypto.NewClientCipher(r.Fork()), CompressThreshold: -1,
		PingInterval: interval, PingTimeout: timeout,
	})
	ctx, cancel := context.WithCancel(context.Background())
	defer cancel()
	runDone := make(chan error, 1)
	var endedAt time.Time
	go func() {
		err := conn.Run(ctx, func(ctx context.Context) error { <-ctx.Done(); return ctx.Err() })
		endedAt = time.Now()
		runDone <- err
	}()
	res.input = fmt.Sprintf("loop-timing interval=%s timeout=%s no-pong", interval, timeout)
	var w written
	select {
	case w = <-tr.frames:
	case err := <-runDone:
		return res, fmt.Errorf("Run ended before the first ping: %v", err)
	case <-time.After(interval + watchdog):
		return res, fmt.Errorf("keep-alive loop wrote no ping within interval + watchdog")
	}
	res.delay = w.delay
	lat := startLateness()
	select {
	case res.runErr = <-runDone:
		res.ended = true
		res.waited = endedAt.Sub(w.at)
	case <-time.After(interval + timeout + watchdog):
	}
	res.worstLate = lat.end()
	return res, nil
}

// runFault: every way a keep-alive ping can go unanswered must end Run with an error.  After
// `healthy` acknowledged ticks the fault happens: the peer goes silent, Send fails at once, Send
// fails after a delay, Send blocks until its deadline, or Recv fails.
func runFault(seed uint64, fault string, healthy int, interval, timeout time.Duration) (res timingResult, herr error) {
	r := hc.NewRNG(seed)
	var key crypto.Key
	r.Read(key[:])
	ak := key.WithID()
	tr := &capture{key: ak, cipher: crypto.NewServerCipher(r.Fork()), frames: make(chan written, 64), healthy: healthy}
	switch fault {
	case "send-error", "send-error-delayed", "send-blocks":
		tr.fault = fault
	case "recv-error":
		tr.recvErr = make(chan struct{})
	}
	conn := mtproto.New(func(ctx context.Context) (transport.Conn, error) { return tr, nil }, mtproto.Options{
		Random: r.Fork(), Key: ak, Cipher: crypto.NewClientCipher(r.Fork()), CompressThreshold: -1,
		PingInterval: interval, PingTimeout: timeout,
	})
	ctx, cancel := context.WithCancel(context.Background())
	defer cancel()
	runDone := make(chan error, 1)
	var endedAt time.Time
	go func() {
		err := conn.Run(ctx, func(ctx context.Context) error { <-ctx.Done(); return ctx.Err() })
		endedAt = time.Now()
		runDone <- err
	}()
	res.input = fmt.Sprintf("keepalive-fault fault=%s after-acknowledged-ticks=%d interval=%s timeout=%s", fault, healthy, interval, timeout)
	var w written
	for k := 0; k <= healthy; k++ {
		select {
		case w = <-tr.frames:
		case err := <-runDone:
			return res, fmt.Errorf("Run ended before tick %d: %v (%s)", k, err, res.input)
		case <-time.After(interval + watchdog):
			return res, fmt.Errorf("keep-alive loop wrote no ping within interval + watchdog (%s)", res.input)
		}
		if k < healthy {
			if e := safeHandle(conn, &mt.Pong{MsgID: 4, PingID: w.pingID}); e != nil {
				return res, e
			}
		}
	}
	if fault == "recv-error" {
		close(tr.recvErr)
	}
	res.delay = w.delay
	lat := startLateness()
	// generous: the verdict "still running" is only given long after every bound
	limit := timeout + 4*time.Second
	select {
	case res.runErr = <-runDone:
		res.ended = true
		res.waited = endedAt.Sub(w.at)
	case <-time.After(limit):
	}
	res.worstLate = lat.end()
	if !res.ended { // far beyond every bound already; a correct Run ends, however late the machine is
		select {
		case res.runErr = <-runDone:
			res.ended = true
			res.waited = endedAt.Sub(w.at)
		case <-time.After(watchdog):
		}
	}
	return res, nil
}

// ---------------------------------------------------------------------------------- run

func run(c *hc.Ctx) error {
	r := c.Rng
	var lines, impls []string

	nA := c.N(4000, 80000)
	for i := 0; i < nA; i++ {
		line, impl, nt, err := runLTS(c, r.Fork())
		if err != nil {
			return err
		}
		c.Eval(line, nt)
		c.Count("lts.trace")
		lines, impls = append(lines, line), append(impls, impl)
	}

	// keep-alive loop, end to end through Run; real time only for the ping timeout
	nB := c.N(16, 96)
	pingTimeout := 1200 * time.Millisecond
	type job struct {
		lc   loopCase
		seed uint64
	}
	jobs := make([]job, nB)
	for i := range jobs {
		jobs[i] = job{loopCase{okTicks: r.Intn(4), final: hc.Pick(r, "missed", "missed", "foreign", "duplicate", "cancel")}, r.U64()}
		if jobs[i].lc.final == "duplicate" && jobs[i].lc.okTicks == 0 {
			jobs[i].lc.okTicks = 1
		}
	}
	results := make([]loopResult, nB)
	errs := make([]error, nB)
	var wg sync.WaitGroup
	sem := make(chan struct{}, 8)
	for i := range jobs {
		wg.Add(1)
		go func(i int) {
			defer wg.Done()
			sem <- struct{}{}
			defer func() { <-sem }()
			for attempt := 0; attempt < 3; attempt++ {
				results[i], errs[i] = runLoop(jobs[i].seed+uint64(attempt), jobs[i].lc, pingTimeout*time.Duration(1+2*attempt))
				// a pong the harness delivered too late (machine under load) makes an "ok" tick miss:
				// timing artefact of the harness, retry with a longer timeout
				if errs[i] == nil && results[i].note != "" && results[i].late {
					continue
				}
				break
			}
		}(i)
	}
	wg.Wait()
	for i, j := range jobs {
		if errs[i] != nil {
			return errs[i]
		}
		res := results[i]
		in := fmt.Sprintf("loop ok-ticks=%d final=%s", j.lc.okTicks, j.lc.final)
		c.Eval(in+fmt.Sprintf(" seed=%d", j.seed), true)
		c.Count("loop.final=" + j.lc.final)
		if res.note != "" {
			c.Fail("keepalive-loop-unexpected", in, res.note+fmt.Sprintf(" (Run err=%v)", res.runErr))
			continue
		}
		switch j.lc.final {
		case "cancel":
			if !res.ended {
				c.Fail("run-not-ended-on-cancel", in, "Run did not return after its context was cancelled")
			}
		default:
			if !res.ended {
				c.Fail("missed-pong-run-not-ended", in, fmt.Sprintf("no matching pong for the last ping, but Run was still running %s after the ping timeout", watchdog))
			} else if res.runErr == nil {
				c.Fail("missed-pong-run-no-error", in, "Run returned nil after a missed pong")
			} else if !strings.Contains(res.runErr.Error(), "pong missed") {
				c.Fail("missed-pong-run-other-error", in, "Run returned: "+res.runErr.Error())
			}
		}
		if len(res.outcomes) > 0 {
			want := "running"
			if j.lc.final != "cancel" {
				want = fmt.Sprintf("failed %d run-ends=true", j.lc.okTicks)
			}
			got := "running"
			// (on cancellation with a ping in flight pingLoop also reports "pong missed: context
			// canceled"; that is the caller's cancellation, not a missed pong)
			if j.lc.final != "cancel" && res.ended && res.runErr != nil && strings.Contains(res.runErr.Error(), "pong missed") {
				got = fmt.Sprintf("failed %d run-ends=true", len(res.outcomes)-1)
			}
			_ = want
			lines = append(lines, "loop "+strings.Join(res.outcomes, " "))
			impls = append(impls, got)
		}
	}

	// ---- part C: timing of a missed pong, two-sided (interval = 5 × timeout)
	{
		interval, timeout := 1500*time.Millisecond, 300*time.Millisecond
		nT := c.N(3, 8)
		tres := make([]timingResult, nT)
		terr := make([]error, nT)
		var twg sync.WaitGroup
		for i := 0; i < nT; i++ {
			seed := r.U64()
			twg.Add(1)
			go func(i int) {
				defer twg.Done()
				for attempt := 0; attempt < 3; attempt++ {
					tres[i], terr[i] = runTiming(seed+uint64(attempt), interval, timeout)
					if terr[i] != nil || !tres[i].ended {
						return
					}
					slack := 600*time.Millisecond + 20*tres[i].worstLate
					over := tres[i].waited - timeout
					// conclusive unless the machine itself was late by a comparable amount
					tres[i].conclusive = over <= slack || tres[i].worstLate < 50*time.Millisecond
					if tres[i].conclusive {
						return
					}
				}
			}(i)
		}
		twg.Wait()
		for i, x := range tres {
			if terr[i] != nil {
				return terr[i]
			}
			c.Eval(x.input+fmt.Sprintf(" #%d", i), true)
			c.Count("timing.no-pong")
			if !x.ended {
				c.Fail("missed-pong-run-not-ended", x.input, "Run was still running long after the ping timeout")
				continue
			}
			if x.runErr == nil || !strings.Contains(x.runErr.Error(), "pong missed") {
				c.Fail("missed-pong-run-other-error", x.input, fmt.Sprintf("Run returned %v", x.runErr))
			}
			if x.waited < timeout-20*time.Millisecond {
				c.Fail("missed-pong-gave-up-early", x.input, fmt.Sprintf("Run ended %s after the unanswered ping was written; the ping timeout is %s", x.waited, timeout))
			}
			slack := 600*time.Millisecond + 20*x.worstLate
			if x.waited > timeout+slack {
				if x.conclusive {
					c.Fail("missed-pong-tolerated-too-long", x.input, fmt.Sprintf("Run ended %s after the unanswered ping was written; the ping timeout is %s (interval %s; worst timer lateness of the machine meanwhile %s)", x.waited, timeout, interval, x.worstLate))
				} else {
					c.Count("timing.inconclusive(machine-too-late)")
					c.Note("timing scenario inconclusive: machine lateness %s", x.worstLate)
				}
			}
			if x.delay != int((interval + timeout).Seconds()) {
				c.Fail("disconnect-delay", x.input, fmt.Sprintf("ping_delay_disconnect announced %d s, interval+timeout = %s", x.delay, interval+timeout))
			}
			lines = append(lines, fmt.Sprintf("tick %d %d -", interval.Milliseconds(), timeout.Milliseconds()))
			got := "missed-late"
			if x.waited <= timeout+slack && x.waited >= timeout-20*time.Millisecond {
				got = fmt.Sprintf("missed %d", timeout.Milliseconds())
			}
			impls = append(impls, got)
		}
	}

	// ---- part D: every way a keep-alive ping can go unanswered ends Run
	{
		faults := []string{"no-pong", "send-error", "send-error-delayed", "send-blocks", "recv-error"}
		nF := c.N(10, 40)
		fres := make([]timingResult, nF)
		ferr := make([]error, nF)
		fk := make([]string, nF)
		var fwg sync.WaitGroup
		fsem := make(chan struct{}, 10)
		for i := 0; i < nF; i++ {
			fk[i] = faults[i%len(faults)]
			healthy := r.Intn(3)
			seed := r.U64()
			fwg.Add(1)
			go func(i int) {
				defer fwg.Done()
				fsem <- struct{}{}
				defer func() { <-fsem }()
				fres[i], ferr[i] = runFault(seed, fk[i], healthy, 60*time.Millisecond, 300*time.Millisecond)
			}(i)
		}
		fwg.Wait()
		for i, x := range fres {
			if ferr[i] != nil {
				return ferr[i]
			}
			c.Eval(x.input+fmt.Sprintf(" #%d", i), true)
			c.Count("fault." + fk[i])
			if !x.ended {
				c.Fail("unanswered-ping-run-not-ended", x.input, fmt.Sprintf("the keep-alive ping could not be answered (%s) but Run was still running %s later (worst timer lateness of the machine meanwhile %s)", fk[i], 300*time.Millisecond+4*time.Second+watchdog, x.worstLate))
				continue
			}
			if x.runErr == nil {
				c.Fail("unanswered-ping-run-no-error", x.input, "Run returned nil")
			}
			// the loop's verdict in the model: missed / write error → failed at that tick
			out := "m"
			if strings.HasPrefix(fk[i], "send-error") {
				out = "w"
			}
			if fk[i] != "recv-error" {
				var os []string
				for k := 0; k < len(x.input) && false; k++ {
				}
				healthy := 0
				fmt.Sscanf(x.input[strings.Index(x.input, "ticks=")+6:], "%d", &healthy)
				for k := 0; k < healthy; k++ {
					os = append(os, "o")
				}
				os = append(os, out)
				lines = append(lines, "loop "+strings.Join(os, " "))
				impls = append(impls, fmt.Sprintf("failed %d run-ends=true", healthy))
			}
		}
	}

	outs, err := c.Drv.Batch(lines)
	if err != nil {
		return err
	}
	for i, o := range outs {
		if strings.HasPrefix(lines[i], "lts ") && strings.Contains(impls[i], "?") {
			// a snapshot taken while a racing ping may or may not have deregistered is not compared
			ip, mp := strings.SplitN(impls[i], " => ", 2), strings.SplitN(o, " => ", 2)
			if len(ip) == 2 && len(mp) == 2 {
				is, ms := strings.Split(ip[0], "|"), strings.Split(mp[0], "|")
				if len(is) == len(ms) {
					for j := range is {
						if is[j] == "?" {
							ms[j] = "?"
						}
					}
					o = strings.Join(ms, "|") + " => " + mp[1]
				}
			}
		}
		if c.Compare(lines[i], impls[i], o) {
			c.Res.TracesValidated++
		}
	}
	c.Res.Rule = "LTS traces: 1..14 scheduled steps on one connection — Ping calls (ids from a pool of 1..4 values, so ids collide), pongs with matching / foreign / neighbouring / duplicate / late ids, context cancellations; every return of a Ping is observed and becomes a trace action, the registered ping ids are compared with the model after every action; non-trivial = at least 2 pings and one matching pong. Keep-alive: Conn.Run over an in-memory transport (real clock, 40 ms ping interval), 0..3 acknowledged ticks followed by a missed / foreign / duplicate pong or a cancellation; distinct = distinct input line"
	c.PartialNote("the ping timeout of pingLoop is context.WithTimeout on the real clock, which the harness cannot replace: the timing part measures real time (interval 1.5 s, timeout 0.3 s) and asserts timeout-20ms ≤ end ≤ timeout + 0.6 s + 20×(worst timer lateness measured meanwhile); a run during which the machine itself was late by ≥ 50 ms and over the bound is retried and, if still so, reported as inconclusive rather than as a failure")
	c.PartialNote("when a ping's channel is closed and its context has ended at the same time, Go's select may take either branch; the harness never creates that race (it waits for the return after a matching pong), the model allows both actions")
	c.PartialNote("goroutine scheduling below the granularity of the LTS actions (pingMux critical sections, channel close, select) is not exhibited")
	return nil
}
