// C43 — pings and pongs: trace conformance of mtproto.Conn.Ping / handlePong / removePong with the
// Lean transition system TdModel.C43 (registered ping ids compared after every step), the keep-alive
// loop observed end-to-end through Conn.Run, plus the property monitor on the implementation.
package main

import (
	"context"
	"fmt"
	"go/ast"
	"strconv"
	"strings"
	"sync"
	"time"

	"github.com/gotd/neo"

	"github.com/gotd/td/bin"
	"github.com/gotd/td/crypto"
	"github.com/gotd/td/mt"
	"github.com/gotd/td/mtproto"
	"github.com/gotd/td/transport"

	"verif/harness/hc"
)

func main() {
	hc.Main(hc.Spec{Prop: "C43", Facts: facts, Run: run})
}

// ---------------------------------------------------------------------------------- facts

func flat(s string) string { return strings.Join(strings.Fields(s), " ") }

func stmts(f *hc.Facts, lean, dir, fn string) {
	fd := f.FuncDecl(dir, fn)
	if fd == nil || fd.Body == nil {
		f.Missing(lean, dir+"."+fn+" not found")
		return
	}
	var parts []string
	for _, st := range fd.Body.List {
		s := flat(f.Src(st))
		if strings.HasPrefix(s, "c.log.") || strings.HasPrefix(s, "logger.") {
			continue
		}
		parts = append(parts, s)
	}
	f.Str(lean, strings.Join(parts, " ; "), "statements of "+dir+"."+fn+" (log statements dropped)")
}

func facts(f *hc.Facts) {
	stmts(f, "pingBody", "mtproto", "Conn.Ping")
	stmts(f, "pingDelayDisconnectBody", "mtproto", "Conn.pingDelayDisconnect")
	stmts(f, "handlePongBody", "mtproto", "Conn.handlePong")
	stmts(f, "pongBody", "mtproto", "Conn.pong")
	stmts(f, "removePongBody", "mtproto", "Conn.removePong")
	// pingLoop: the ping of a tick runs under context.WithTimeout(ctx, c.pingTimeout) and its
	// failure is returned (wrapped) from the loop
	timeout, ret, pingCall := false, false, false
	if fd := f.FuncDecl("mtproto", "Conn.pingLoop"); fd != nil {
		ast.Inspect(fd.Body, func(n ast.Node) bool {
			switch x := n.(type) {
			case *ast.CallExpr:
				s := flat(f.Src(x))
				if s == "context.WithTimeout(ctx, c.pingTimeout)" {
					timeout = true
				}
				if s == "c.pingDelayDisconnect(ctx, int(delay.Seconds()))" {
					pingCall = true
				}
			case *ast.ReturnStmt:
				if flat(f.Src(x)) == `return errors.Wrap(err, "disconnect (pong missed)")` {
					ret = true
				}
			}
			return true
		})
	}
	f.Bool("pingLoopUsesTimeout", timeout, "pingLoop wraps the tick's ping in context.WithTimeout(ctx, c.pingTimeout)")
	f.Bool("pingLoopPings", pingCall, "pingLoop calls c.pingDelayDisconnect(ctx, …)")
	f.Bool("pingLoopReturnsError", ret, `pingLoop returns errors.Wrap(err, "disconnect (pong missed)")`)
	// Run starts pingLoop in the task group and returns the group's error
	inGroup, waits := false, false
	if fd := f.FuncDecl("mtproto", "Conn.Run"); fd != nil {
		ast.Inspect(fd.Body, func(n ast.Node) bool {
			switch x := n.(type) {
			case *ast.CallExpr:
				if flat(f.Src(x)) == `g.Go("pingLoop", c.pingLoop)` {
					inGroup = true
				}
			case *ast.IfStmt:
				if x.Init != nil && flat(f.Src(x.Init)) == "err := g.Wait()" {
					waits = true
				}
			}
			return true
		})
	}
	f.Bool("runStartsPingLoop", inGroup, `Run: g.Go("pingLoop", c.pingLoop)`)
	f.Bool("runReturnsGroupError", waits, "Run: if err := g.Wait(); err != nil { return … }")
}

// ---------------------------------------------------------------------------------- transport

type written struct {
	typeID  uint32
	pingID  int64
	delay   int
	at      time.Time
}

// capture decrypts every written frame with the server-side cipher and reports ping requests.
type capture struct {
	key    crypto.AuthKey
	cipher crypto.Cipher
	frames chan written
	mu     sync.Mutex
	errs   []string
}

func (t *capture) Send(ctx context.Context, b *bin.Buffer) error {
	cp := &bin.Buffer{Buf: append([]byte{}, b.Buf...)}
	d, err := t.cipher.DecryptFromBuffer(t.key, cp)
	if err != nil {
		t.mu.Lock()
		t.errs = append(t.errs, err.Error())
		t.mu.Unlock()
		return nil
	}
	p := &bin.Buffer{Buf: d.Data()}
	id, _ := p.PeekID()
	w := written{typeID: id, at: time.Now()}
	switch id {
	case mt.PingRequestTypeID:
		var r mt.PingRequest
		if r.Decode(p) == nil {
			w.pingID = r.PingID
		}
	case mt.PingDelayDisconnectRequestTypeID:
		var r mt.PingDelayDisconnectRequest
		if r.Decode(p) == nil {
			w.pingID, w.delay = r.PingID, r.DisconnectDelay
		}
	default:
		return nil // get_future_salts, acks, …
	}
	t.frames <- w
	return nil
}
func (t *capture) Recv(ctx context.Context, b *bin.Buffer) error { <-ctx.Done(); return ctx.Err() }
func (t *capture) Close() error                                  { return nil }

var _ transport.Conn = (*capture)(nil)

// idSource is Options.Random: the next ping id is whatever the harness put there.
type idSource struct {
	mu   sync.Mutex
	next [8]byte
	r    *hc.RNG
}

func (s *idSource) Read(p []byte) (int, error) {
	s.mu.Lock()
	defer s.mu.Unlock()
	for i := range p {
		p[i] = s.next[i%8]
	}
	return len(p), nil
}

func (s *idSource) set(v uint64) {
	s.mu.Lock()
	for i := 0; i < 8; i++ {
		s.next[i] = byte(v >> (8 * i))
	}
	s.mu.Unlock()
}

const watchdog = 60 * time.Second

func encode(e bin.Encoder) *bin.Buffer {
	var b bin.Buffer
	if err := e.Encode(&b); err != nil {
		panic(err)
	}
	return &b
}

func showIDs(ids []int64) string {
	if len(ids) == 0 {
		return "-"
	}
	p := make([]string, len(ids))
	for i, x := range ids {
		p[i] = strconv.FormatInt(x, 10)
	}
	return strings.Join(p, ",")
}

// ---------------------------------------------------------------------------------- part A: Ping as an LTS

type pingCall struct {
	id       int64
	cancel   context.CancelFunc
	done     chan error
	returned bool
	err      error
	callPos  int
	retPos   int
}

type ltsRun struct {
	c      *hc.Ctx
	conn   *mtproto.Conn
	tr     *capture
	src    *idSource
	pings  []*pingCall
	reg    map[int64]int // mirror of c.ping: whom to wait for after a pong (not used by the monitor)
	trace  []string
	snaps  []string
	pongAt map[int64][]int // positions of pong actions per id
	failed bool
}

func (l *ltsRun) line() string { return "lts " + strings.Join(l.trace, " ") }

func (l *ltsRun) fail(key, detail string) {
	if !l.failed {
		l.failed = true
		l.c.Fail(key, l.line(), detail)
	}
}

func (l *ltsRun) record(action string) {
	l.trace = append(l.trace, action)
	l.snaps = append(l.snaps, showIDs(mtproto.VerifC43PendingPings(l.conn)))
}

func (l *ltsRun) call(seed uint64) error {
	l.src.set(seed)
	ctx, cancel := context.WithCancel(context.Background())
	pc := &pingCall{cancel: cancel, done: make(chan error, 1), callPos: len(l.trace)}
	go func() { pc.done <- l.conn.Ping(ctx) }()
	select {
	case w := <-l.tr.frames:
		pc.id = w.pingID
	case <-time.After(watchdog):
		cancel()
		return fmt.Errorf("Ping wrote no frame within %s", watchdog)
	}
	l.pings = append(l.pings, pc)
	l.reg[pc.id] = len(l.pings) - 1
	l.record(fmt.Sprintf("c%d", pc.id))
	return nil
}

// await waits for ping p to return and records the return action.
func (l *ltsRun) await(p int) error {
	pc := l.pings[p]
	select {
	case pc.err = <-pc.done:
	case <-time.After(watchdog):
		return fmt.Errorf("ping %d did not return within %s (trace %s)", p, watchdog, l.line())
	}
	pc.returned = true
	pc.retPos = len(l.trace)
	if q, ok := l.reg[pc.id]; ok {
		_ = q
		delete(l.reg, pc.id) // removePong deletes whatever is registered under the id
	}
	if pc.err == nil {
		l.record(fmt.Sprintf("o%d", p))
	} else {
		l.record(fmt.Sprintf("e%d", p))
	}
	return nil
}

func (l *ltsRun) pong(id int64) error {
	target, ok := l.reg[id]
	delete(l.reg, id)
	if err := mtproto.VerifC43HandleMessage(l.conn, 1, encode(&mt.Pong{MsgID: 4, PingID: id})); err != nil {
		l.fail("handle-pong-error", err.Error())
	}
	l.pongAt[id] = append(l.pongAt[id], len(l.trace))
	l.record(fmt.Sprintf("p%d", id))
	if ok && !l.pings[target].returned {
		return l.await(target)
	}
	return nil
}

func (l *ltsRun) cancelPing(p int) error {
	l.pings[p].cancel()
	return l.await(p)
}

// monitor: the statement, decided from the harness's own log of what it did and saw.
func (l *ltsRun) monitor(cancelled map[int]int) {
	for p, pc := range l.pings {
		if !pc.returned {
			l.fail("ping-never-returned", fmt.Sprintf("ping %d (id %d)", p, pc.id))
			continue
		}
		if pc.err == nil {
			ok := false
			for _, pos := range l.pongAt[pc.id] {
				if pos > pc.callPos && pos < pc.retPos {
					ok = true
				}
			}
			if !ok {
				l.fail("ping-ok-without-matching-pong", fmt.Sprintf("ping %d (id %d, called at step %d) returned nil at step %d; pongs with its id at steps %v", p, pc.id, pc.callPos, pc.retPos, l.pongAt[pc.id]))
			}
		} else if at, ok := cancelled[p]; !ok || at > pc.retPos {
			l.fail("ping-error-before-context-end", fmt.Sprintf("ping %d (id %d) returned %v at step %d without its context having ended", p, pc.id, pc.err, pc.retPos))
		}
	}
}

func runLTS(c *hc.Ctx, r *hc.RNG) (line, impl string, nontrivial bool, err error) {
	var key crypto.Key
	r.Read(key[:])
	ak := key.WithID()
	tr := &capture{key: ak, cipher: crypto.NewServerCipher(r.Fork()), frames: make(chan written, 64)}
	src := &idSource{r: r}
	clk := neo.NewTime(time.Unix(int64(r.Range(1_600_000_000, 1_900_000_000)), 0))
	conn := mtproto.VerifC43NewConn(mtproto.Options{
		Clock: clk, Random: src, Key: ak, Cipher: crypto.NewClientCipher(r.Fork()), CompressThreshold: -1,
	}, int64(r.U64()), tr)
	defer mtproto.VerifC43Close(conn)
	l := &ltsRun{c: c, conn: conn, tr: tr, src: src, reg: map[int64]int{}, pongAt: map[int64][]int{}}
	pool := make([]uint64, r.Range(1, 4))
	for i := range pool {
		pool[i] = r.U64()
	}
	cancelled := map[int]int{}
	steps := r.Range(1, 14)
	kinds := map[string]int{}
	for i := 0; i < steps; i++ {
		var live []int
		for p, pc := range l.pings {
			if !pc.returned {
				live = append(live, p)
			}
		}
		switch k := r.Intn(10); {
		case k < 4 || len(l.pings) == 0:
			if len(live) >= 6 {
				continue
			}
			kinds["call"]++
			if err := l.call(pool[r.Intn(len(pool))]); err != nil {
				return l.line(), "", false, err
			}
		case k < 8:
			var id int64
			switch r.Intn(4) {
			case 0: // an id nobody uses
				id = int64(r.U64())
				kinds["pong-foreign"]++
			case 1: // a neighbour of a used id
				id = l.pings[r.Intn(len(l.pings))].id + int64(hc.Pick(r, -1, 1))
				kinds["pong-neighbour"]++
			default: // an id of some ping, live or finished (duplicate pongs)
				pc := l.pings[r.Intn(len(l.pings))]
				id = pc.id
				if pc.returned {
					kinds["pong-duplicate-or-late"]++
				} else {
					kinds["pong-matching"]++
				}
			}
			if err := l.pong(id); err != nil {
				return l.line(), "", false, err
			}
		default:
			if len(live) == 0 {
				continue
			}
			kinds["cancel"]++
			p := live[r.Intn(len(live))]
			cancelled[p] = len(l.trace)
			if err := l.cancelPing(p); err != nil {
				return l.line(), "", false, err
			}
		}
	}
	// a ping still waiting must really be waiting; then end its context
	for p, pc := range l.pings {
		if pc.returned {
			continue
		}
		select {
		case pc.err = <-pc.done:
			pc.done <- pc.err
			l.fail("ping-returned-early", fmt.Sprintf("ping %d (id %d) returned %v although no matching pong was delivered and its context is alive", p, pc.id, pc.err))
		default:
		}
		cancelled[p] = len(l.trace)
		if err := l.cancelPing(p); err != nil {
			return l.line(), "", false, err
		}
	}
	l.monitor(cancelled)
	tr.mu.Lock()
	if len(tr.errs) > 0 {
		l.fail("written-frame-undecryptable", strings.Join(tr.errs, "; "))
	}
	tr.mu.Unlock()
	for k, v := range kinds {
		for j := 0; j < v; j++ {
			c.Count("lts." + k)
		}
	}
	var res strings.Builder
	for _, pc := range l.pings {
		if pc.err == nil {
			res.WriteByte('o')
		} else {
			res.WriteByte('e')
		}
	}
	rs := res.String()
	if rs == "" {
		rs = "-"
	}
	return l.line(), strings.Join(l.snaps, "|") + " => " + rs, len(l.pings) >= 2 && kinds["pong-matching"] > 0, nil
}

// ---------------------------------------------------------------------------------- part B: the keep-alive loop through Run

type loopCase struct {
	okTicks int
	final   string // "missed", "foreign", "duplicate", "cancel"
}

type loopResult struct {
	outcomes []string // per tick: "o" acknowledged, "m" missed
	runErr   error
	ended    bool
	note     string
	late     bool
}

func runLoop(seed uint64, lc loopCase, pingTimeout time.Duration) (res loopResult, herr error) {
	r := hc.NewRNG(seed)
	var key crypto.Key
	r.Read(key[:])
	ak := key.WithID()
	tr := &capture{key: ak, cipher: crypto.NewServerCipher(r.Fork()), frames: make(chan written, 64)}
	// The ticker runs on the real clock with a short interval: the fake clock's ticker sends
	// under the clock's lock, which dead-locks against c.clock.Now() when driven from outside.
	interval := 40 * time.Millisecond
	conn := mtproto.New(func(ctx context.Context) (transport.Conn, error) { return tr, nil }, mtproto.Options{
		Random: r.Fork(), Key: ak, Cipher: crypto.NewClientCipher(r.Fork()), CompressThreshold: -1,
		PingInterval: interval, PingTimeout: pingTimeout,
	})
	ctx, cancel := context.WithCancel(context.Background())
	defer cancel()
	runDone := make(chan error, 1)
	go func() {
		runDone <- conn.Run(ctx, func(ctx context.Context) error { <-ctx.Done(); return ctx.Err() })
	}()
	// nextPing waits until the loop writes its next ping (or Run ends).
	nextPing := func() (written, bool, error) {
		select {
		case w := <-tr.frames:
			return w, true, nil
		case err := <-runDone:
			res.runErr, res.ended = err, true
			return written{}, false, nil
		case <-time.After(watchdog):
			return written{}, false, fmt.Errorf("keep-alive loop wrote no ping within %s", watchdog)
		}
	}
	var lastID int64
	for k := 0; k < lc.okTicks; k++ {
		w, ok, err := nextPing()
		if err != nil {
			return res, err
		}
		if !ok {
			res.note = fmt.Sprintf("Run ended before tick %d", k)
			return res, nil
		}
		if w.delay != int((interval + pingTimeout).Seconds()) {
			res.note = fmt.Sprintf("disconnect_delay %d", w.delay)
		}
		if time.Since(w.at) > pingTimeout/2 {
			res.late = true
		}
		_ = mtproto.VerifC43HandleMessage(conn, 1, encode(&mt.Pong{MsgID: 4, PingID: w.pingID}))
		lastID = w.pingID
		res.outcomes = append(res.outcomes, "o")
	}
	w, ok, err := nextPing()
	if err != nil {
		return res, err
	}
	if !ok {
		res.note = "Run ended before the last tick"
		return res, nil
	}
	switch lc.final {
	case "foreign":
		_ = mtproto.VerifC43HandleMessage(conn, 1, encode(&mt.Pong{MsgID: 4, PingID: w.pingID ^ 1}))
		_ = mtproto.VerifC43HandleMessage(conn, 1, encode(&mt.Pong{MsgID: 4, PingID: int64(r.U64())}))
	case "duplicate":
		_ = mtproto.VerifC43HandleMessage(conn, 1, encode(&mt.Pong{MsgID: 4, PingID: lastID}))
	case "cancel":
		cancel()
	}
	select {
	case res.runErr = <-runDone:
		res.ended = true
	case <-time.After(pingTimeout + watchdog):
	}
	if lc.final != "cancel" {
		res.outcomes = append(res.outcomes, "m")
	}
	return res, nil
}

// ---------------------------------------------------------------------------------- run

func run(c *hc.Ctx) error {
	r := c.Rng
	var lines, impls []string

	nA := c.N(4000, 80000)
	for i := 0; i < nA; i++ {
		line, impl, nt, err := runLTS(c, r.Fork())
		if err != nil {
			return err
		}
		c.Eval(line, nt)
		c.Count("lts.trace")
		lines, impls = append(lines, line), append(impls, impl)
	}

	// keep-alive loop, end to end through Run; real time only for the ping timeout
	nB := c.N(16, 96)
	pingTimeout := 1200 * time.Millisecond
	type job struct {
		lc   loopCase
		seed uint64
	}
	jobs := make([]job, nB)
	for i := range jobs {
		jobs[i] = job{loopCase{okTicks: r.Intn(4), final: hc.Pick(r, "missed", "missed", "foreign", "duplicate", "cancel")}, r.U64()}
		if jobs[i].lc.final == "duplicate" && jobs[i].lc.okTicks == 0 {
			jobs[i].lc.okTicks = 1
		}
	}
	results := make([]loopResult, nB)
	errs := make([]error, nB)
	var wg sync.WaitGroup
	sem := make(chan struct{}, 8)
	for i := range jobs {
		wg.Add(1)
		go func(i int) {
			defer wg.Done()
			sem <- struct{}{}
			defer func() { <-sem }()
			for attempt := 0; attempt < 3; attempt++ {
				results[i], errs[i] = runLoop(jobs[i].seed+uint64(attempt), jobs[i].lc, pingTimeout*time.Duration(1+2*attempt))
				// a pong the harness delivered too late (machine under load) makes an "ok" tick miss:
				// timing artefact of the harness, retry with a longer timeout
				if errs[i] == nil && results[i].note != "" && results[i].late {
					continue
				}
				break
			}
		}(i)
	}
	wg.Wait()
	for i, j := range jobs {
		if errs[i] != nil {
			return errs[i]
		}
		res := results[i]
		in := fmt.Sprintf("loop ok-ticks=%d final=%s", j.lc.okTicks, j.lc.final)
		c.Eval(in+fmt.Sprintf(" seed=%d", j.seed), true)
		c.Count("loop.final=" + j.lc.final)
		if res.note != "" {
			c.Fail("keepalive-loop-unexpected", in, res.note+fmt.Sprintf(" (Run err=%v)", res.runErr))
			continue
		}
		switch j.lc.final {
		case "cancel":
			if !res.ended {
				c.Fail("run-not-ended-on-cancel", in, "Run did not return after its context was cancelled")
			}
		default:
			if !res.ended {
				c.Fail("missed-pong-run-not-ended", in, fmt.Sprintf("no matching pong for the last ping, but Run was still running %s after the ping timeout", watchdog))
			} else if res.runErr == nil {
				c.Fail("missed-pong-run-no-error", in, "Run returned nil after a missed pong")
			} else if !strings.Contains(res.runErr.Error(), "pong missed") {
				c.Fail("missed-pong-run-other-error", in, "Run returned: "+res.runErr.Error())
			}
		}
		if len(res.outcomes) > 0 {
			want := "running"
			if j.lc.final != "cancel" {
				want = fmt.Sprintf("failed %d run-ends=true", j.lc.okTicks)
			}
			got := "running"
			// (on cancellation with a ping in flight pingLoop also reports "pong missed: context
			// canceled"; that is the caller's cancellation, not a missed pong)
			if j.lc.final != "cancel" && res.ended && res.runErr != nil && strings.Contains(res.runErr.Error(), "pong missed") {
				got = fmt.Sprintf("failed %d run-ends=true", len(res.outcomes)-1)
			}
			_ = want
			lines = append(lines, "loop "+strings.Join(res.outcomes, " "))
			impls = append(impls, got)
		}
	}

	outs, err := c.Drv.Batch(lines)
	if err != nil {
		return err
	}
	for i, o := range outs {
		if c.Compare(lines[i], impls[i], o) {
			c.Res.TracesValidated++
		}
	}
	c.Res.Rule = "LTS traces: 1..14 scheduled steps on one connection — Ping calls (ids from a pool of 1..4 values, so ids collide), pongs with matching / foreign / neighbouring / duplicate / late ids, context cancellations; every return of a Ping is observed and becomes a trace action, the registered ping ids are compared with the model after every action; non-trivial = at least 2 pings and one matching pong. Keep-alive: Conn.Run over an in-memory transport (real clock, 40 ms ping interval), 0..3 acknowledged ticks followed by a missed / foreign / duplicate pong or a cancellation; distinct = distinct input line"
	c.PartialNote("the ping timeout of pingLoop is context.WithTimeout on the real clock: the keep-alive part runs with a 1.2 s timeout (longer on retry) and only asserts that Run ends with the pong-missed error within the timeout plus a 60 s watchdog; it does not measure how soon")
	c.PartialNote("when a ping's channel is closed and its context has ended at the same time, Go's select may take either branch; the harness never creates that race (it waits for the return after a matching pong), the model allows both actions")
	c.PartialNote("goroutine scheduling below the granularity of the LTS actions (pingMux critical sections, channel close, select) is not exhibited")
	return nil
}
