// C12 — fact extractor.  It does not decide anything: it emits, for exchange.ClientExchange.Run and
// for every method of exchange.unencryptedWriter, the skeleton of the statements that matter for
// timing, in source order, and the Lean model (TdModel/Model/C12.lean) interprets that skeleton
// (which context a transport call gets, whether it sits in a retry loop).
//
// rows (kind, a, b):
//
//	("wt", D, "")        top-level statement `ctx, cancel := context.WithTimeout(ctx, D)` of the function
//	("wt?", D, "")       the same statement anywhere else (inside an if / loop / closure): conditional
//	("rebind", E, "")    any other assignment to `ctx`
//	("call", F, A)       transport call `<recv>.conn.Recv/Send(A, …)`; F = "Recv" | "Send"
//	("helper", M, A)     call of method M of unencryptedWriter with first argument A
//	("loop", "", "") … ("end", "", "")   the body of a `for` statement
package main

import (
	"fmt"
	"go/ast"
	"go/parser"
	"go/token"
	"os"
	"path/filepath"
	"sort"
	"strings"

	"verif/harness/hc"
)

func selPath(e ast.Expr) string {
	switch x := e.(type) {
	case *ast.Ident:
		return x.Name
	case *ast.SelectorExpr:
		p := selPath(x.X)
		if p == "" {
			return ""
		}
		return p + "." + x.Sel.Name
	}
	return ""
}

func oneLine(s string) string { return strings.Join(strings.Fields(s), " ") }

type skel struct {
	f       *hc.Facts
	recv    string          // receiver name of the function being walked
	methods map[string]bool // methods of unencryptedWriter
	rows    []string
}

func (s *skel) add(kind, a, b string) {
	s.rows = append(s.rows, fmt.Sprintf("(%q, %q, %q)", kind, a, b))
}

func firstArg(f *hc.Facts, c *ast.CallExpr) string {
	if len(c.Args) == 0 {
		return ""
	}
	return oneLine(f.Src(c.Args[0]))
}

// assignsCtx: the statement (re)binds the identifier ctx; returns the WithTimeout duration if it is
// `ctx, cancel := context.WithTimeout(ctx, D)` / `ctx, cancel = …`.
func (s *skel) assignsCtx(st ast.Stmt) (is bool, wtDur string) {
	as, ok := st.(*ast.AssignStmt)
	if !ok {
		return false, ""
	}
	hit := false
	for _, l := range as.Lhs {
		if id, ok := l.(*ast.Ident); ok && id.Name == "ctx" {
			hit = true
		}
	}
	if !hit {
		return false, ""
	}
	if len(as.Lhs) == 2 && len(as.Rhs) == 1 {
		if id, ok := as.Lhs[0].(*ast.Ident); ok && id.Name == "ctx" {
			if c, ok := as.Rhs[0].(*ast.CallExpr); ok && selPath(c.Fun) == "context.WithTimeout" && len(c.Args) == 2 {
				if a0, ok := c.Args[0].(*ast.Ident); ok && a0.Name == "ctx" {
					return true, oneLine(s.f.Src(c.Args[1]))
				}
			}
		}
	}
	return true, ""
}

// walk emits the rows of a statement list; top = the list is the function body itself.
func (s *skel) walk(list []ast.Stmt, top bool) {
	for _, st := range list {
		if is, d := s.assignsCtx(st); is {
			switch {
			case d != "" && top:
				s.add("wt", d, "")
			case d != "":
				s.add("wt?", d, "")
			default:
				s.add("rebind", oneLine(s.f.Src(st)), "")
			}
			continue
		}
		switch x := st.(type) {
		case *ast.ForStmt:
			s.add("loop", "", "")
			if x.Init != nil {
				s.walk([]ast.Stmt{x.Init}, false)
			}
			if x.Cond != nil {
				s.exprs(x.Cond)
			}
			s.walk(x.Body.List, false)
			if x.Post != nil {
				s.walk([]ast.Stmt{x.Post}, false)
			}
			s.add("end", "", "")
		case *ast.RangeStmt:
			s.add("loop", "", "")
			s.walk(x.Body.List, false)
			s.add("end", "", "")
		case *ast.BlockStmt:
			s.walk(x.List, false)
		case *ast.IfStmt:
			if x.Init != nil {
				s.walk([]ast.Stmt{x.Init}, false)
			}
			s.exprs(x.Cond)
			s.walk(x.Body.List, false)
			if x.Else != nil {
				s.walk([]ast.Stmt{x.Else}, false)
			}
		case *ast.SwitchStmt:
			if x.Init != nil {
				s.walk([]ast.Stmt{x.Init}, false)
			}
			if x.Tag != nil {
				s.exprs(x.Tag)
			}
			for _, c := range x.Body.List {
				s.walk(c.(*ast.CaseClause).Body, false)
			}
		case *ast.TypeSwitchStmt:
			for _, c := range x.Body.List {
				s.walk(c.(*ast.CaseClause).Body, false)
			}
		case *ast.LabeledStmt:
			s.walk([]ast.Stmt{x.Stmt}, top)
		default:
			s.exprs(st)
		}
	}
}

// exprs emits the calls inside a node (in source order).
func (s *skel) exprs(n ast.Node) {
	ast.Inspect(n, func(m ast.Node) bool {
		switch x := m.(type) {
		case *ast.FuncLit:
			s.add("loop", "", "") // a closure may run any number of times, with whatever ctx it sees
			s.walk(x.Body.List, false)
			s.add("end", "", "")
			return false
		case *ast.CallExpr:
			p := selPath(x.Fun)
			switch {
			case p == s.recv+".conn.Recv" || p == s.recv+".conn.Send" || p == s.recv+".unencryptedWriter.conn.Recv" || p == s.recv+".unencryptedWriter.conn.Send":
				for _, a := range x.Args {
					s.exprs(a)
				}
				s.add("call", p[strings.LastIndex(p, ".")+1:], firstArg(s.f, x))
				return false
			case strings.HasPrefix(p, s.recv+".") && strings.Count(p, ".") == 1 && s.methods[p[len(s.recv)+1:]]:
				for _, a := range x.Args {
					s.exprs(a)
				}
				s.add("helper", p[len(s.recv)+1:], firstArg(s.f, x))
				return false
			}
		}
		return true
	})
}

// methodNames lists the methods declared on type recvType in a package directory.
func methodNames(repo, dir, recvType string) []string {
	var out []string
	ents, _ := os.ReadDir(filepath.Join(repo, dir))
	fset := token.NewFileSet()
	for _, e := range ents {
		n := e.Name()
		if e.IsDir() || !strings.HasSuffix(n, ".go") || strings.HasSuffix(n, "_test.go") || strings.HasPrefix(n, "verif_") {
			continue
		}
		af, err := parser.ParseFile(fset, filepath.Join(repo, dir, n), nil, 0)
		if err != nil {
			continue
		}
		for _, d := range af.Decls {
			fd, ok := d.(*ast.FuncDecl)
			if !ok || fd.Recv == nil || len(fd.Recv.List) != 1 {
				continue
			}
			t := fd.Recv.List[0].Type
			if st, ok := t.(*ast.StarExpr); ok {
				t = st.X
			}
			if id, ok := t.(*ast.Ident); ok && id.Name == recvType {
				out = append(out, fd.Name.Name)
			}
		}
	}
	return out
}

func facts(f *hc.Facts) {
	f.Const("defaultTimeoutNs", "exchange", "DefaultTimeout")
	// the methods of unencryptedWriter
	methods := map[string]bool{}
	for _, name := range []string{"writeUnencrypted", "tryRead", "readUnencrypted", "isClient", "checkMsgID"} {
		if f.FuncDecl("exchange", "unencryptedWriter."+name) != nil {
			methods[name] = true
		}
	}
	// any further method declared on the type
	for _, name := range methodNames(f.Repo, "exchange", "unencryptedWriter") {
		methods[name] = true
	}
	var names []string
	for n := range methods {
		names = append(names, n)
	}
	sort.Strings(names)
	var hs []string
	for _, n := range names {
		fd := f.FuncDecl("exchange", "unencryptedWriter."+n)
		if fd == nil || fd.Body == nil || fd.Recv == nil || len(fd.Recv.List) != 1 || len(fd.Recv.List[0].Names) != 1 {
			f.Missing("helpers", "cannot read unencryptedWriter."+n)
			return
		}
		s := &skel{f: f, recv: fd.Recv.List[0].Names[0].Name, methods: methods}
		// the context parameter must be called ctx (or the method has none)
		s.walk(fd.Body.List, true)
		hs = append(hs, fmt.Sprintf("  (%q, [%s])", n, strings.Join(s.rows, ", ")))
	}
	f.Raw("/-- Timing skeleton of every method of exchange.unencryptedWriter (see harness/c12/facts.go for the row kinds). -/")
	f.Raw("def helpers : List (String × List (String × String × String)) := [\n" + strings.Join(hs, ",\n") + "]")

	run := f.FuncDecl("exchange", "ClientExchange.Run")
	if run == nil || run.Body == nil || run.Recv == nil || len(run.Recv.List) != 1 || len(run.Recv.List[0].Names) != 1 {
		f.Missing("runSkeleton", "exchange.ClientExchange.Run not found")
		return
	}
	s := &skel{f: f, recv: run.Recv.List[0].Names[0].Name, methods: methods}
	s.walk(run.Body.List, true)
	f.Raw("/-- Timing skeleton of exchange.ClientExchange.Run. -/")
	f.Raw("def runSkeleton : List (String × String × String) := [" + strings.Join(s.rows, ", ") + "]")

	// The timeout the steps run under is the Exchanger's `timeout` field, set by WithTimeout, and
	// mtproto passes its ExchangeTimeout option there.
	wt := f.FuncSrc("exchange", "Exchanger.WithTimeout")
	f.Bool("withTimeoutSetsField", strings.Contains(wt, "e.timeout = timeout"), "exchange.Exchanger.WithTimeout assigns e.timeout")
	uw := f.FuncSrc("exchange", "Exchanger.unencryptedWriter")
	f.Bool("writerGetsTimeout", strings.Contains(uw, "timeout:") && strings.Contains(uw, "e.timeout"), "Exchanger.unencryptedWriter copies e.timeout")
	re := f.FuncSrc("mtproto", "Conn.runExchange")
	f.Bool("connPassesExchangeTimeout", strings.Contains(re, "WithTimeout(c.exchangeTimeout)"), "mtproto.Conn.runExchange uses WithTimeout(c.exchangeTimeout)")
}
