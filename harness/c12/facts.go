// C12 — fact extractor: the I/O step list of exchange.ClientExchange.Run with one `timed` flag
// per transport call, regenerated from /repo/exchange/{client_flow.go,proto.go} with go/ast.
package main

import (
	"fmt"
	"go/ast"
	"go/token"
	"strings"

	"verif/harness/hc"
)

// selPath renders a selector chain `a.b.c` ("" when the expression is not a pure chain).
func selPath(e ast.Expr) string {
	switch x := e.(type) {
	case *ast.Ident:
		return x.Name
	case *ast.SelectorExpr:
		p := selPath(x.X)
		if p == "" {
			return ""
		}
		return p + "." + x.Sel.Name
	}
	return ""
}

func isIdent(e ast.Expr, name string) bool {
	id, ok := e.(*ast.Ident)
	return ok && id.Name == name
}

// withTimeoutStmt reports whether st is `ctx, cancel := context.WithTimeout(ctx, <recv>.timeout)`.
func withTimeoutStmt(st ast.Stmt, recv string) bool {
	as, ok := st.(*ast.AssignStmt)
	if !ok || as.Tok != token.DEFINE || len(as.Lhs) != 2 || len(as.Rhs) != 1 || !isIdent(as.Lhs[0], "ctx") {
		return false
	}
	call, ok := as.Rhs[0].(*ast.CallExpr)
	if !ok || selPath(call.Fun) != "context.WithTimeout" || len(call.Args) != 2 {
		return false
	}
	return isIdent(call.Args[0], "ctx") && selPath(call.Args[1]) == recv+".timeout"
}

type ioCall struct {
	name  string // callee as written in the source
	recv  bool
	timed bool
}

// helperIO lists the transport calls made by method `unencryptedWriter.<name>` (following calls to
// other helpers of the same receiver) and whether each runs under
// `ctx, cancel := context.WithTimeout(ctx, w.timeout)` placed as an earlier top-level statement
// of the same function, with that `ctx` passed as the call's first argument.
func helperIO(f *hc.Facts, name string, depth int) ([]ioCall, bool) {
	fd := f.FuncDecl("exchange", "unencryptedWriter."+name)
	if fd == nil || fd.Body == nil || fd.Recv == nil || len(fd.Recv.List) != 1 || len(fd.Recv.List[0].Names) != 1 || depth > 3 {
		return nil, false
	}
	w := fd.Recv.List[0].Names[0].Name
	var out []ioCall
	ok := true
	wrapped := false
	for _, st := range fd.Body.List {
		if withTimeoutStmt(st, w) {
			wrapped = true
			continue
		}
		ast.Inspect(st, func(n ast.Node) bool {
			call, isCall := n.(*ast.CallExpr)
			if !isCall {
				return true
			}
			p := selPath(call.Fun)
			switch {
			case p == w+".conn.Recv" || p == w+".conn.Send":
				out = append(out, ioCall{p, strings.HasSuffix(p, "Recv"), wrapped && len(call.Args) > 0 && isIdent(call.Args[0], "ctx")})
			case strings.HasPrefix(p, w+".") && strings.Count(p, ".") == 1:
				if sub := f.FuncDecl("exchange", "unencryptedWriter."+call.Fun.(*ast.SelectorExpr).Sel.Name); sub != nil {
					inner, iok := helperIO(f, sub.Name.Name, depth+1)
					if !iok {
						ok = false
					}
					for _, c := range inner {
						// an outer WithTimeout also bounds the inner call when ctx is passed down
						c.timed = c.timed || (wrapped && len(call.Args) > 0 && isIdent(call.Args[0], "ctx"))
						out = append(out, c)
					}
				}
			}
			return true
		})
	}
	return out, ok
}

func leanBool(b bool) string {
	if b {
		return "true"
	}
	return "false"
}

func facts(f *hc.Facts) {
	f.Const("defaultTimeoutNs", "exchange", "DefaultTimeout")
	run := f.FuncDecl("exchange", "ClientExchange.Run")
	if run == nil || run.Body == nil || run.Recv == nil || len(run.Recv.List) != 1 || len(run.Recv.List[0].Names) != 1 {
		f.Missing("exchangeSteps", "exchange.ClientExchange.Run not found")
		return
	}
	c := run.Recv.List[0].Names[0].Name
	var steps []string
	bad := ""
	ast.Inspect(run.Body, func(n ast.Node) bool {
		call, ok := n.(*ast.CallExpr)
		if !ok {
			return true
		}
		p := selPath(call.Fun)
		switch {
		case p == c+".conn.Recv" || p == c+".conn.Send" || p == c+".unencryptedWriter.conn.Recv" || p == c+".unencryptedWriter.conn.Send":
			// a bare transport call: bounded only by the caller's context
			steps = append(steps, fmt.Sprintf("(%q, %s, false)", strings.TrimPrefix(p, c+"."), leanBool(strings.HasSuffix(p, "Recv"))))
		case strings.HasPrefix(p, c+".") && strings.Count(p, ".") == 1:
			name := call.Fun.(*ast.SelectorExpr).Sel.Name
			if f.FuncDecl("exchange", "unencryptedWriter."+name) == nil {
				return true
			}
			ios, ok := helperIO(f, name, 0)
			if !ok {
				bad = "cannot analyse unencryptedWriter." + name
			}
			if len(ios) == 0 {
				return true
			}
			// One step per helper call: a helper that loops over a read (readUnencrypted) is one
			// protocol step; it is timed iff every transport call inside it is.
			timed, recv := true, ios[0].recv
			for _, io := range ios {
				timed = timed && io.timed
				if io.recv != recv {
					bad = "helper " + name + " mixes Send and Recv"
				}
			}
			steps = append(steps, fmt.Sprintf("(%q, %s, %s)", name, leanBool(recv), leanBool(timed)))
		}
		return true
	})
	if bad != "" || len(steps) == 0 {
		f.Missing("exchangeSteps", "exchange.ClientExchange.Run: "+bad)
		return
	}
	f.Raw("/-- (callee, isRecv, timed) for every transport call of exchange.ClientExchange.Run, in source order;")
	f.Raw("`timed` = the call runs under `context.WithTimeout(ctx, w.timeout)` (exchange/proto.go). -/")
	f.Raw("def exchangeSteps : List (String × Bool × Bool) := [" + strings.Join(steps, ", ") + "]")

	// The timeout the steps run under is the Exchanger's `timeout` field, set by WithTimeout, and
	// mtproto passes its ExchangeTimeout option there.
	wt := f.FuncSrc("exchange", "Exchanger.WithTimeout")
	f.Bool("withTimeoutSetsField", strings.Contains(wt, "e.timeout = timeout"), "exchange.Exchanger.WithTimeout assigns e.timeout")
	uw := f.FuncSrc("exchange", "Exchanger.unencryptedWriter")
	f.Bool("writerGetsTimeout", strings.Contains(uw, "timeout:") && strings.Contains(uw, "e.timeout"), "Exchanger.unencryptedWriter copies e.timeout")
	re := f.FuncSrc("mtproto", "Conn.runExchange")
	f.Bool("connPassesExchangeTimeout", strings.Contains(re, "WithTimeout(c.exchangeTimeout)"), "mtproto.Conn.runExchange uses WithTimeout(c.exchangeTimeout)")
}
