// C12 — every key-exchange step is bounded by the exchange timeout.
//
// The real exchange.ClientExchange.Run (directly, and through mtproto.Conn.Run with PFS off / on and
// through re-keying after a transport-level -404) talks to the real exchange.ServerExchange over an
// in-memory pipe.  A tap on the client's transport.Conn records every Send/Recv with its start and
// end time and can delay the completion of one call or stall it for ever (it returns only when the
// context it was given ends — exactly what transport.connection does with a deadline).
//
//   - monitor (no model): every transport call, and Run itself, returns within
//     `timeout + slack` of the call's start;
//   - correspondence: the observed call sequence equals the regenerated step list of the model, and
//     the model's `runTrace` on the measured gaps/latencies predicts which call fails and when.
package main

import (
	"context"
	"fmt"
	"sort"
	"strconv"
	"strings"
	"sync"
	"time"

	"github.com/gotd/td/bin"
	"github.com/gotd/td/crypto"
	"github.com/gotd/td/exchange"
	"github.com/gotd/td/mtproto"
	"github.com/gotd/td/proto/codec"
	"github.com/gotd/td/testutil"
	"github.com/gotd/td/transport"

	"verif/harness/hc"
)

func main() { hc.Main(hc.Spec{Prop: "C12", Facts: facts, Run: run}) }

// Real-time verdicts must not depend on machine load.  A step counts as bounded when it returns
// within `timeout + slack`; the unbounded behaviour it is told apart from never returns (no caller
// deadline) or returns at a caller deadline / dial timeout that is tens of seconds away.  A case
// whose first observation fails is observed a second time before anything is reported.
const (
	slack      = 10 * time.Second       // scheduler latency allowed on top of the timeout
	earlySlack = 150 * time.Millisecond // a timer may not fire early; measurement skew only
	farDL      = 120 * time.Second      // "far" caller deadline
	dialTO     = 60 * time.Second       // mtproto DialTimeout = connect deadline without PFS
	lateExtra  = 8 * time.Second        // a late peer answers this long after the timeout
	slowTO     = 3 * time.Second        // timeout used when the peer is slow but in time …
	slowDelay  = 300 * time.Millisecond // … answering after this delay
)

type opRec struct {
	recv       bool
	start, end time.Duration // since t0; end < 0: still blocked
	failed     bool          // the call returned an error
	skip404    bool          // … namely the transport-level -404 injected by the tap
}

// tap wraps the client's end of the pipe.
type tap struct {
	inner    transport.Conn
	t0       time.Time
	target   int           // index of the exchange call to disturb (-1: none)
	stall    bool          // stall it; otherwise delay it by `delay`
	delay    time.Duration //
	release  chan struct{} // closed by the harness to end a stall that would last for ever
	rekey    bool          // first Recv answers -404; encrypted frames are swallowed
	pre404   bool          // the disturbed Recv first answers a transport-level -404; the next call is the disturbed one
	onTarget func()        // called when the disturbed call starts (arms the "near" caller deadline)

	mu      sync.Mutex
	ops     []opRec
	sent404 bool
}

func (t *tap) begin(recv bool) int {
	t.mu.Lock()
	defer t.mu.Unlock()
	t.ops = append(t.ops, opRec{recv: recv, start: time.Since(t.t0), end: -1})
	return len(t.ops) - 1
}

func (t *tap) finish(i int, err *error) {
	t.mu.Lock()
	t.ops[i].end = time.Since(t.t0)
	t.ops[i].failed = *err != nil
	t.mu.Unlock()
}

func (t *tap) snapshot() []opRec {
	t.mu.Lock()
	defer t.mu.Unlock()
	return append([]opRec(nil), t.ops...)
}

// disturb applies the stall/delay for call i. done=true: return err without touching the pipe.
func (t *tap) disturb(ctx context.Context, i int) (done bool, err error) {
	t.mu.Lock()
	target := t.target
	t.mu.Unlock()
	if i != target {
		return false, nil
	}
	if t.onTarget != nil {
		t.onTarget()
	}
	if t.stall {
		select {
		case <-ctx.Done():
			return true, ctx.Err()
		case <-t.release:
			return true, fmt.Errorf("released by harness")
		}
	}
	tm := time.NewTimer(t.delay)
	defer tm.Stop()
	select {
	case <-ctx.Done():
		return true, ctx.Err()
	case <-t.release:
		return true, fmt.Errorf("released by harness")
	case <-tm.C:
		return false, nil
	}
}

func encrypted(b *bin.Buffer) bool {
	if len(b.Buf) < 8 {
		return false
	}
	for _, x := range b.Buf[:8] {
		if x != 0 {
			return true
		}
	}
	return false
}

func (t *tap) Send(ctx context.Context, b *bin.Buffer) (rerr error) {
	if t.rekey && encrypted(b) {
		return nil // pings/acks of the established session: not part of the exchange
	}
	i := t.begin(false)
	defer t.finish(i, &rerr)
	if done, err := t.disturb(ctx, i); done {
		return err
	}
	return t.inner.Send(ctx, b)
}

func (t *tap) Recv(ctx context.Context, b *bin.Buffer) (rerr error) {
	if t.rekey {
		t.mu.Lock()
		first := !t.sent404
		t.sent404 = true
		t.mu.Unlock()
		if first {
			return &codec.ProtocolErr{Code: codec.CodeAuthKeyNotFound}
		}
	}
	i := t.begin(true)
	defer t.finish(i, &rerr)
	if t.pre404 && i == t.target {
		// "auth key not found" for a frame of a discarded key, then silence: readUnencrypted skips
		// the -404 and reads again
		t.mu.Lock()
		t.pre404 = false
		t.target = i + 1
		t.ops[i].skip404 = true
		t.mu.Unlock()
		return &codec.ProtocolErr{Code: codec.CodeAuthKeyNotFound}
	}
	if done, err := t.disturb(ctx, i); done {
		return err
	}
	return t.inner.Recv(ctx, b)
}

func (t *tap) Close() error { return t.inner.Close() }

type tcase struct {
	level    string // exchange | conn | conn-pfs | conn-rekey
	temp     bool   // exchange level: temporary-key mode
	op       int    // transport call index to disturb
	action   string // stall | slow (answers in time) | late (answers after the timeout) | stall404 (a -404 frame, then silence)
	timeout  time.Duration
	deadline string // none | far | near (exchange level only: the caller's context)
	seed     uint64
}

func (tc tcase) String() string {
	m := "perm"
	if tc.temp {
		m = "temp"
	}
	return fmt.Sprintf("level=%s mode=%s op=%d action=%s timeout_ms=%d deadline=%s seed=%d",
		tc.level, m, tc.op, tc.action, tc.timeout.Milliseconds(), tc.deadline, tc.seed)
}

func parseCase(s string) (tcase, error) {
	var tc tcase
	for _, w := range strings.Fields(s) {
		kv := strings.SplitN(w, "=", 2)
		if len(kv) != 2 {
			continue
		}
		n, _ := strconv.ParseUint(kv[1], 10, 64)
		switch kv[0] {
		case "level":
			tc.level = kv[1]
		case "mode":
			tc.temp = kv[1] == "temp"
		case "op":
			tc.op = int(n)
		case "action":
			tc.action = kv[1]
		case "timeout_ms":
			tc.timeout = time.Duration(n) * time.Millisecond
		case "deadline":
			tc.deadline = kv[1]
		case "seed":
			tc.seed = n
		}
	}
	if tc.level == "" || tc.timeout == 0 {
		return tc, fmt.Errorf("cannot parse case %q", s)
	}
	return tc, nil
}

func (tc tcase) delay() time.Duration {
	switch tc.action {
	case "slow":
		return slowDelay
	case "late":
		return tc.timeout + lateExtra
	}
	return 0
}

type outcome struct {
	ops      []opRec
	returned bool          // Run returned by itself (before the harness released the stall)
	retAt    time.Duration // since t0
	err      error
	deadline time.Duration // caller deadline since t0, <0: none
	observed time.Duration // how long the harness watched (since t0)
}

var stepNames = []string{"send req_pq_multi", "recv ResPQ", "send req_DH_params", "recv Server_DH_Params", "send set_client_DH_params", "recv dh_gen"}

func runCase(tc tcase) outcome {
	priv := exchange.PrivateKey{RSA: testutil.RSAPrivateKey()}
	rng := hc.NewRNG(tc.seed)
	client, server := transport.Intermediate.Pipe()
	tp := &tap{inner: client, target: tc.op, stall: tc.action == "stall" || tc.action == "stall404", pre404: tc.action == "stall404",
		delay: tc.delay(), release: make(chan struct{}), rekey: tc.level == "conn-rekey"}
	srvCtx, srvCancel := context.WithCancel(context.Background())
	defer srvCancel()
	srng := rng.Fork()
	go func() { // honest peer; serves as many exchanges as the client starts (PFS: two)
		for srvCtx.Err() == nil {
			if _, err := exchange.NewExchanger(server, 2).WithRand(srng).WithTimeout(60 * time.Second).Server(priv).Run(srvCtx); err != nil {
				return
			}
		}
	}()
	defer server.Close()
	defer client.Close()

	ctx := context.Background()
	out := outcome{deadline: -1}
	var cancel context.CancelFunc = func() {}
	tp.t0 = time.Now()
	var dlMu sync.Mutex
	switch tc.deadline {
	case "far":
		ctx, cancel = context.WithDeadline(ctx, tp.t0.Add(farDL))
		out.deadline = farDL
	case "near":
		// A caller deadline that falls inside the disturbed step, half-way to the step's own
		// timeout.  It is armed when that step starts so that machine load cannot move it before
		// the step; for the code under test it is indistinguishable from a deadline fixed up front.
		ctx, cancel = context.WithCancel(ctx)
		c2 := cancel
		tp.onTarget = func() {
			dlMu.Lock()
			out.deadline = time.Since(tp.t0) + tc.timeout/2
			dlMu.Unlock()
			time.AfterFunc(tc.timeout/2, c2)
		}
	}
	defer cancel()

	done := make(chan error, 1)
	crng := rng.Fork()
	go func() {
		switch tc.level {
		case "exchange":
			ex := exchange.NewExchanger(tp, 2).WithRand(crng).WithTimeout(tc.timeout)
			if tc.temp {
				ex = ex.WithTempMode(3600)
			}
			_, err := ex.Client([]exchange.PublicKey{priv.Public()}).Run(ctx)
			done <- err
		default:
			opt := mtproto.Options{
				DC: 2, PublicKeys: []exchange.PublicKey{priv.Public()}, Random: crng,
				DialTimeout: dialTO, ExchangeTimeout: tc.timeout, EnablePFS: tc.level == "conn-pfs",
			}
			if tc.level == "conn-rekey" {
				var k crypto.Key
				crng.Read(k[:])
				opt.Key = k.WithID()
				opt.Salt = 1
			}
			conn := mtproto.New(func(context.Context) (transport.Conn, error) { return tp, nil }, opt)
			rctx, rcancel := context.WithCancel(ctx)
			defer rcancel()
			done <- conn.Run(rctx, func(ctx context.Context) error {
				<-ctx.Done() // the exchange completed: nothing more to observe
				return ctx.Err()
			})
		}
	}()

	finish := func(returned bool, err error) outcome {
		out.ops, out.observed = tp.snapshot(), time.Since(tp.t0)
		out.returned, out.err = returned, err
		if returned {
			out.retAt = out.observed
		}
		dlMu.Lock()
		defer dlMu.Unlock()
		return out
	}
	limit := time.NewTimer(5 * time.Minute) // a run that never reaches the disturbed call
	defer limit.Stop()
	tick := time.NewTicker(5 * time.Millisecond)
	defer tick.Stop()
	for {
		select {
		case err := <-done:
			return finish(true, err)
		case <-limit.C:
			o := finish(false, nil)
			close(tp.release)
			waitDone(done)
			return o
		case <-tick.C:
			ops := tp.snapshot()
			nEx := 6
			if tc.level == "conn-pfs" {
				nEx = 12
			}
			if tc.level != "exchange" && tc.action == "slow" && len(ops) >= nEx && ops[nEx-1].end >= 0 {
				// mtproto.Conn keeps running after a completed exchange: stop observing
				o := finish(true, nil)
				o.ops = ops[:nEx]
				o.retAt = ops[nEx-1].end
				close(tp.release)
				client.Close()
				server.Close()
				waitDone(done)
				return o
			}
			stalled := tc.op
			if tc.action == "stall404" {
				stalled++
			}
			if len(ops) > stalled && tc.action != "slow" && time.Since(tp.t0) > ops[stalled].start+tc.timeout+slack+300*time.Millisecond {
				// still blocked well beyond timeout + slack: unbounded
				o := finish(false, nil)
				close(tp.release)
				waitDone(done)
				return o
			}
		}
	}
}

func waitDone(done chan error) {
	select {
	case <-done:
	case <-time.After(10 * time.Second):
	}
}

func us(d time.Duration) int64 { return d.Microseconds() }

func optUs(d time.Duration) string {
	if d < 0 {
		return "-"
	}
	return strconv.FormatInt(us(d), 10)
}

func genCases(c *hc.Ctx) []tcase {
	r := c.Rng
	var cs []tcase
	to := func() time.Duration { return time.Duration(hc.Pick(r, 120, 150, 200, 260)) * time.Millisecond }
	// exchange level: every call × both modes × caller deadline none / far / near, peer silent
	for op := 0; op < 6; op++ {
		for _, temp := range []bool{false, true} {
			for _, dl := range []string{"none", "far", "near"} {
				tc := tcase{level: "exchange", temp: temp, op: op, action: "stall", timeout: to(), deadline: dl, seed: r.U64()}
				if dl == "near" {
					tc.timeout = 2 * time.Second // the deadline falls 1 s into the step, 1 s before its timeout
				}
				cs = append(cs, tc)
			}
		}
	}
	// peers that answer late (after the timeout: the step must fail at the timeout) or slowly
	// (within it: the exchange must go on and complete)
	for op := 0; op < 6; op++ {
		cs = append(cs,
			tcase{level: "exchange", temp: r.Bool(), op: op, action: "late", timeout: to(), deadline: hc.Pick(r, "none", "far"), seed: r.U64()},
			tcase{level: "exchange", temp: r.Bool(), op: op, action: "slow", timeout: slowTO, deadline: hc.Pick(r, "none", "far"), seed: r.U64()})
	}
	// a peer that answers the ResPQ read with a transport-level -404 (which readUnencrypted skips)
	// and then goes silent: the re-read must be bounded as well
	for _, temp := range []bool{false, true} {
		for _, dl := range []string{"none", "far"} {
			cs = append(cs, tcase{level: "exchange", temp: temp, op: 1, action: "stall404", timeout: to(), deadline: dl, seed: r.U64()})
		}
	}
	// through mtproto.Conn.Run: connect without PFS (6 calls), with PFS (permanent then temporary
	// exchange: 12 calls), and re-keying from the read loop after a transport-level -404
	for op := 0; op < 6; op++ {
		cs = append(cs, tcase{level: "conn", op: op, action: "stall", timeout: to(), deadline: "none", seed: r.U64()})
		cs = append(cs, tcase{level: "conn-rekey", op: op, action: "stall", timeout: to(), deadline: "none", seed: r.U64()})
	}
	for op := 0; op < 12; op++ {
		cs = append(cs, tcase{level: "conn-pfs", op: op, action: "stall", timeout: to(), deadline: "none", seed: r.U64()})
	}
	cs = append(cs,
		tcase{level: "conn", op: r.Intn(6), action: "slow", timeout: slowTO, deadline: "none", seed: r.U64()},
		tcase{level: "conn-pfs", op: r.Intn(12), action: "slow", timeout: slowTO, deadline: "none", seed: r.U64()},
		tcase{level: "conn-rekey", op: r.Intn(6), action: "slow", timeout: slowTO, deadline: "none", seed: r.U64()})
	if c.Thorough() {
		// repeat the whole grid with fresh timeouts/seeds
		n := len(cs)
		for rep := 0; rep < 7; rep++ {
			for i := 0; i < n; i++ {
				tc := cs[i]
				tc.seed = r.U64()
				if tc.deadline != "near" && tc.action != "slow" {
					tc.timeout = to()
				}
				cs = append(cs, tc)
			}
		}
	}
	return cs
}

type failure struct{ key, detail string }

// monitor decides the property on the implementation's observations only.
func monitor(tc tcase, o outcome) []failure {
	var fs []failure
	name := stepNames[tc.op%6]
	for j, op := range o.ops {
		if op.end < 0 {
			fs = append(fs, failure{"step-not-bounded", fmt.Sprintf("transport call %d (%s) started at %v and was still blocked %v later (exchange timeout %v, caller deadline %s)",
				j, stepNames[j%6], op.start, o.observed-op.start, tc.timeout, tc.deadline)})
		} else if op.end-op.start > tc.timeout+slack {
			fs = append(fs, failure{"step-not-bounded", fmt.Sprintf("transport call %d (%s) took %v, exchange timeout %v (caller deadline %s)", j, stepNames[j%6], op.end-op.start, tc.timeout, tc.deadline)})
		}
	}
	if !o.returned && len(o.ops) <= tc.op {
		fs = append(fs, failure{"run-did-not-reach-step", fmt.Sprintf("only %d transport calls observed, Run did not return (waiting for %s)", len(o.ops), name)})
	}
	if tc.action != "slow" && o.returned && o.err == nil {
		fs = append(fs, failure{"late-peer-accepted", "Run returned nil although the peer did not complete " + name + " within the exchange timeout"})
	}
	if tc.action == "slow" && len(o.ops) > tc.op {
		op := o.ops[tc.op]
		took := op.end - op.start
		switch {
		case op.end >= 0 && op.failed && took < tc.timeout-earlySlack:
			fs = append(fs, failure{"slow-peer-rejected", fmt.Sprintf("%s failed after %v although the exchange timeout is %v and the peer answers after %v", name, took, tc.timeout, slowDelay)})
		case op.end >= 0 && !op.failed && tc.level == "exchange" && o.returned && o.err != nil && ClientIOErr(o.err):
			// a later call timed out although nothing disturbed it: only load can do that; not a verdict
		case op.end >= 0 && !op.failed && tc.level == "exchange" && (!o.returned || o.err != nil):
			fs = append(fs, failure{"slow-peer-rejected", fmt.Sprintf("peer answered %s within the timeout but Run failed: %v", name, o.err)})
		}
	}
	return fs
}

// ClientIOErr: the error is a timeout of a transport call.
func ClientIOErr(err error) bool {
	s := err.Error()
	return strings.Contains(s, "deadline exceeded") || strings.Contains(s, "i/o timeout")
}

type cmp struct{ input, impl, model string }

type mstep struct{ recv, timed, inLoop bool }

func parseSteps(ans string) []mstep {
	var out []mstep
	for _, w := range strings.Fields(ans) {
		if f := strings.Split(w, ":"); len(f) == 4 {
			out = append(out, mstep{f[1] == "1", f[2] == "1", f[3] == "1"})
		}
	}
	return out
}

// compare runs the model on the measured gaps/latencies of one observation and returns the
// comparisons (impl already canonicalised: equal to the model's answer when they agree up to the
// allowed real-time slack).  The observed calls are matched to the model's call sites: a call that
// returned the injected -404 is a "skip" of the site it belongs to, the next call is the same site
// re-issued.
func compare(c *hc.Ctx, tc tcase, o outcome, steps []mstep) ([]cmp, error) {
	var out []cmp
	if len(o.ops) == 0 || len(steps) == 0 {
		return nil, nil
	}
	if tc.action == "slow" && tc.level == "exchange" && o.returned && o.err == nil {
		var obs, mod []string
		for _, op := range o.ops {
			obs = append(obs, map[bool]string{false: "send", true: "recv"}[op.recv])
		}
		for _, s := range steps {
			mod = append(mod, map[bool]string{false: "send", true: "recv"}[s.recv])
		}
		out = append(out, cmp{"call-sequence " + tc.String(), strings.Join(obs, ","), strings.Join(mod, ",")})
	}
	disturbed := tc.op
	if tc.action == "stall404" {
		disturbed++
	}
	idx := 0
	for idx < len(o.ops) { // one exchange per pass (PFS runs two)
		var beh []string
		now := o.ops[idx].start
		prevEnd := now
		okPattern := ""
		var last opRec
		for range steps {
			if idx >= len(o.ops) {
				break
			}
			op := o.ops[idx]
			gap := op.start - prevEnd
			var skips []string
			for op.skip404 && idx+1 < len(o.ops) {
				skips = append(skips, optUs(op.end-op.start))
				okPattern += "1"
				idx++
				op = o.ops[idx]
			}
			lat := "-"
			switch {
			case idx == disturbed && (tc.action == "stall" || tc.action == "stall404"):
			case idx == disturbed && op.end >= 0 && !op.failed:
				lat = optUs(op.end - op.start) // answered: after the configured delay, as measured
			case idx == disturbed && tc.action == "slow" && op.end >= 0 && op.end-op.start >= tc.timeout-earlySlack:
				// the slow answer was overtaken by the step's own timeout: only machine load does
				// that (300 ms vs 3 s); for the model the answer simply came too late
				lat = optUs(op.end - op.start + time.Second)
			case idx == disturbed:
				lat = optUs(tc.delay())
			case op.end >= 0 && !op.failed:
				lat = optUs(op.end - op.start)
			case op.end >= 0:
				// an undisturbed call that failed: the peer's answer did not arrive before the
				// call's context ended — for the model: a latency beyond that point
				lat = optUs(op.end - op.start + time.Second)
			}
			sk := "-"
			if len(skips) > 0 {
				sk = strings.Join(skips, ",")
			}
			beh = append(beh, fmt.Sprintf("%d;%s;%s", us(gap), sk, lat))
			if op.end >= 0 {
				prevEnd = op.end
			}
			if op.end >= 0 && !op.failed {
				okPattern += "1"
			} else {
				okPattern += "0"
			}
			last = op
			idx++
			if op.end < 0 || op.failed {
				break
			}
		}
		// the caller context seen by the exchange: the given one, or for a plain connect the
		// dial timeout (mtproto/connect.go), else none
		dl := o.deadline
		if tc.level == "conn" {
			dl = dialTO
		}
		line := fmt.Sprintf("trace %d %s %d %s", us(tc.timeout), optUs(dl), us(now), strings.Join(beh, " "))
		lastStop := "never"
		if last.end >= 0 {
			lastStop = strconv.FormatInt(us(last.end), 10)
		}
		ans, err := c.Drv.Ask(line)
		if err != nil {
			return out, err
		}
		pat, mStop := "", ""
		for _, e := range strings.Fields(ans) {
			f := strings.Split(e, ":")
			if len(f) != 3 {
				pat = "bad:" + ans
				break
			}
			pat += f[2]
			mStop = f[1]
		}
		model := pat + " " + mStop
		impl := okPattern + " " + lastStop
		if okPattern == pat {
			a, e1 := strconv.ParseInt(lastStop, 10, 64)
			b, e2 := strconv.ParseInt(mStop, 10, 64)
			switch {
			case e1 == nil && e2 == nil && a-b <= us(slack) && b-a <= us(earlySlack):
				impl = model // equal up to the allowed real-time slack
			case lastStop == "never" && e2 == nil && b > us(o.observed):
				impl = model // still blocked when the harness stopped watching, model returns later
			}
		}
		out = append(out, cmp{tc.String() + " | " + line, impl, model})
		if last.end < 0 || last.failed {
			break
		}
	}
	return out, nil
}

func runAll(cases []tcase, workers int) []outcome {
	outs := make([]outcome, len(cases))
	sem := make(chan struct{}, workers)
	var wg sync.WaitGroup
	for i := range cases {
		wg.Add(1)
		sem <- struct{}{}
		go func(i int) {
			defer wg.Done()
			defer func() { <-sem }()
			outs[i] = runCase(cases[i])
		}(i)
	}
	wg.Wait()
	return outs
}

func run(c *hc.Ctx) error {
	var cases []tcase
	if c.Replay != "" {
		tc, err := parseCase(c.Replay)
		if err != nil {
			return err
		}
		cases = []tcase{tc}
	} else {
		cases = genCases(c)
	}
	outs := runAll(cases, 6)

	var modelSteps []mstep
	noModel := false
	if ans, err := c.Drv.Ask("steps"); err == nil {
		modelSteps = parseSteps(ans)
	} else {
		noModel = true
	}
	// why(i): the reasons observation i fails ("" = it does not)
	why := func(i int) string {
		var rs []string
		for _, f := range monitor(cases[i], outs[i]) {
			rs = append(rs, f.key)
		}
		if !noModel {
			cs, _ := compare(c, cases[i], outs[i], modelSteps)
			for _, x := range cs {
				if x.impl != x.model {
					rs = append(rs, "model:"+x.impl+"≠"+x.model)
				}
			}
		}
		return strings.Join(rs, ",")
	}
	// A case whose observation fails is observed again (at most twice more, then one at a time):
	// a real violation fails every time, a scheduling hiccup does not.
	for round, workers := 1, 2; round <= 2; round, workers = round+1, 1 {
		var again []int
		reasons := map[string]int{}
		for i := range cases {
			if w := why(i); w != "" {
				again = append(again, i)
				reasons[cases[i].action+"@"+cases[i].level+":"+strings.SplitN(w, "≠", 2)[0]]++
			}
		}
		if len(again) == 0 || c.Replay != "" {
			break
		}
		sub := make([]tcase, len(again))
		for k, i := range again {
			sub[k] = cases[i]
		}
		res := runAll(sub, workers)
		still := 0
		for k, i := range again {
			outs[i] = res[k]
			if why(i) != "" {
				still++
			}
		}
		c.Note("re-observation %d: %d of %d cases had failed (%v); %d failed again", round, len(again), len(cases), reasons, still)
	}

	for i, tc := range cases {
		o := outs[i]
		in := tc.String()
		c.Count("level." + tc.level)
		c.Count("action." + tc.action)
		c.Count("deadline." + tc.deadline)
		c.Count(fmt.Sprintf("op.%d", tc.op))
		c.Eval(in, tc.action != "slow")
		for _, f := range monitor(tc, o) {
			c.Fail(f.key, in, f.detail)
		}
		if noModel {
			continue
		}
		cs, err := compare(c, tc, o, modelSteps)
		if err != nil {
			return err
		}
		for _, x := range cs {
			if c.Compare(x.input, x.impl, x.model) {
				c.Res.TracesValidated++
			}
		}
	}
	c.Res.Exhaustive = c.Replay == ""
	c.Res.Rule = "grid: exchange level = 6 transport calls × {permanent, temporary} × caller deadline {none, 120 s, inside the step} with a silent peer, + late (timeout + 8 s) and slow (300 ms, timeout 3 s) answers at each call, + a transport -404 followed by silence at the ResPQ read; mtproto.Conn.Run level = connect without PFS (6 calls, dial timeout 60 s), with PFS (12 calls), re-keying after -404 (6 calls), silent peer at each call, + one slow run each; timeouts from {120,150,200,260} ms; non-trivial = the peer is silent or late at some call; distinct = distinct case line"
	c.PartialNote("real scheduler/timer latency is outside the model: a call counts as bounded when it returns within timeout + 10 s (the unbounded alternatives are ≥ 60 s or never); the model's predicted return time is compared with the same slack; a failing observation is repeated once before it is reported")
	c.PartialNote("readUnencrypted re-arms the timeout for every transport-level -404 frame it skips; a peer that keeps sending -404 is not silent and is outside the property's quantifier; one -404 followed by silence at the ResPQ read is part of the grid (the model re-issues a call inside the retry loop)")
	c.PartialNote("the stalling transport ends a call when its context ends (deadline or cancel); transport.connection honours deadlines only; the `near` caller deadline is a cancellation armed when the disturbed step starts")
	sort.Strings(c.Res.Notes)
	if noModel {
		return hc.ErrNoModel
	}
	return nil
}
