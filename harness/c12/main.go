// C12 — every key-exchange step is bounded by the exchange timeout.
//
// The real exchange.ClientExchange.Run (directly, and through mtproto.Conn.Run with PFS off / on and
// through re-keying after a transport-level -404) talks to the real exchange.ServerExchange over an
// in-memory pipe.  A tap on the client's transport.Conn records every Send/Recv with its start and
// end time and can delay the completion of one call or stall it for ever (it returns only when the
// context it was given ends — exactly what transport.connection does with a deadline).
//
//   - monitor (no model): every transport call, and Run itself, returns within
//     `timeout + slack` of the call's start;
//   - correspondence: the observed call sequence equals the regenerated step list of the model, and
//     the model's `runTrace` on the measured gaps/latencies predicts which call fails and when.
package main

import (
	"context"
	"fmt"
	"sort"
	"strconv"
	"strings"
	"sync"
	"time"

	"github.com/gotd/td/bin"
	"github.com/gotd/td/crypto"
	"github.com/gotd/td/exchange"
	"github.com/gotd/td/mtproto"
	"github.com/gotd/td/proto/codec"
	"github.com/gotd/td/testutil"
	"github.com/gotd/td/transport"

	"verif/harness/hc"
)

func main() { hc.Main(hc.Spec{Prop: "C12", Facts: facts, Run: run}) }

const (
	slack      = 1000 * time.Millisecond // scheduler latency allowed on top of the timeout
	earlySlack = 50 * time.Millisecond
	farDL      = 20 * time.Second
	dialTO     = 4 * time.Second // mtproto DialTimeout (non-PFS connect deadline), > every exchange timeout used
)

type opRec struct {
	recv       bool
	start, end time.Duration // since t0; end < 0: still blocked
	failed     bool          // the call returned an error
}

// tap wraps the client's end of the pipe.
type tap struct {
	inner   transport.Conn
	t0      time.Time
	target  int           // index of the exchange call to disturb (-1: none)
	stall   bool          // stall it; otherwise delay it by `delay`
	delay   time.Duration //
	release chan struct{} // closed by the harness to end a stall that would last for ever
	rekey   bool          // first Recv answers -404; encrypted frames are swallowed

	mu      sync.Mutex
	ops     []opRec
	sent404 bool
}

func (t *tap) begin(recv bool) int {
	t.mu.Lock()
	defer t.mu.Unlock()
	t.ops = append(t.ops, opRec{recv: recv, start: time.Since(t.t0), end: -1})
	return len(t.ops) - 1
}

func (t *tap) finish(i int, err *error) {
	t.mu.Lock()
	t.ops[i].end = time.Since(t.t0)
	t.ops[i].failed = *err != nil
	t.mu.Unlock()
}

func (t *tap) snapshot() []opRec {
	t.mu.Lock()
	defer t.mu.Unlock()
	return append([]opRec(nil), t.ops...)
}

// disturb applies the stall/delay for call i. done=true: return err without touching the pipe.
func (t *tap) disturb(ctx context.Context, i int) (done bool, err error) {
	if i != t.target {
		return false, nil
	}
	if t.stall {
		select {
		case <-ctx.Done():
			return true, ctx.Err()
		case <-t.release:
			return true, fmt.Errorf("released by harness")
		}
	}
	tm := time.NewTimer(t.delay)
	defer tm.Stop()
	select {
	case <-ctx.Done():
		return true, ctx.Err()
	case <-t.release:
		return true, fmt.Errorf("released by harness")
	case <-tm.C:
		return false, nil
	}
}

func encrypted(b *bin.Buffer) bool {
	if len(b.Buf) < 8 {
		return false
	}
	for _, x := range b.Buf[:8] {
		if x != 0 {
			return true
		}
	}
	return false
}

func (t *tap) Send(ctx context.Context, b *bin.Buffer) (rerr error) {
	if t.rekey && encrypted(b) {
		return nil // pings/acks of the established session: not part of the exchange
	}
	i := t.begin(false)
	defer t.finish(i, &rerr)
	if done, err := t.disturb(ctx, i); done {
		return err
	}
	return t.inner.Send(ctx, b)
}

func (t *tap) Recv(ctx context.Context, b *bin.Buffer) (rerr error) {
	if t.rekey {
		t.mu.Lock()
		first := !t.sent404
		t.sent404 = true
		t.mu.Unlock()
		if first {
			return &codec.ProtocolErr{Code: codec.CodeAuthKeyNotFound}
		}
	}
	i := t.begin(true)
	defer t.finish(i, &rerr)
	if done, err := t.disturb(ctx, i); done {
		return err
	}
	return t.inner.Recv(ctx, b)
}

func (t *tap) Close() error { return t.inner.Close() }

type tcase struct {
	level    string // exchange | conn | conn-pfs | conn-rekey
	temp     bool   // exchange level: temporary-key mode
	op       int    // transport call index to disturb
	action   string // stall | slow (delay < timeout) | late (delay > timeout)
	timeout  time.Duration
	deadline string // none | far | near (exchange level only: the caller's context)
	nearDL   time.Duration
	seed     uint64
}

func (tc tcase) String() string {
	m := "perm"
	if tc.temp {
		m = "temp"
	}
	return fmt.Sprintf("level=%s mode=%s op=%d action=%s timeout_ms=%d deadline=%s near_ms=%d seed=%d",
		tc.level, m, tc.op, tc.action, tc.timeout.Milliseconds(), tc.deadline, tc.nearDL.Milliseconds(), tc.seed)
}

func parseCase(s string) (tcase, error) {
	var tc tcase
	for _, w := range strings.Fields(s) {
		kv := strings.SplitN(w, "=", 2)
		if len(kv) != 2 {
			continue
		}
		n, _ := strconv.ParseUint(kv[1], 10, 64)
		switch kv[0] {
		case "level":
			tc.level = kv[1]
		case "mode":
			tc.temp = kv[1] == "temp"
		case "op":
			tc.op = int(n)
		case "action":
			tc.action = kv[1]
		case "timeout_ms":
			tc.timeout = time.Duration(n) * time.Millisecond
		case "deadline":
			tc.deadline = kv[1]
		case "near_ms":
			tc.nearDL = time.Duration(n) * time.Millisecond
		case "seed":
			tc.seed = n
		}
	}
	if tc.level == "" || tc.timeout == 0 {
		return tc, fmt.Errorf("cannot parse case %q", s)
	}
	return tc, nil
}

type outcome struct {
	ops      []opRec
	returned bool          // Run returned by itself (before the harness released the stall)
	retAt    time.Duration // since t0
	err      error
	deadline time.Duration // caller deadline since t0, <0: none
	observed time.Duration // how long the harness watched (since t0)
}

var stepNames = []string{"send req_pq_multi", "recv ResPQ", "send req_DH_params", "recv Server_DH_Params", "send set_client_DH_params", "recv dh_gen"}

func runCase(tc tcase) outcome {
	priv := exchange.PrivateKey{RSA: testutil.RSAPrivateKey()}
	rng := hc.NewRNG(tc.seed)
	client, server := transport.Intermediate.Pipe()
	tp := &tap{inner: client, target: tc.op, stall: tc.action == "stall", release: make(chan struct{}), rekey: tc.level == "conn-rekey"}
	switch tc.action {
	case "slow":
		tp.delay = tc.timeout / 3
	case "late":
		tp.delay = tc.timeout + tc.timeout/2
	}
	srvCtx, srvCancel := context.WithCancel(context.Background())
	defer srvCancel()
	srng := rng.Fork()
	go func() { // honest peer; serves as many exchanges as the client starts (PFS: two)
		for srvCtx.Err() == nil {
			if _, err := exchange.NewExchanger(server, 2).WithRand(srng).WithTimeout(10 * time.Second).Server(priv).Run(srvCtx); err != nil {
				return
			}
		}
	}()
	defer server.Close()
	defer client.Close()

	ctx := context.Background()
	out := outcome{deadline: -1}
	var cancel context.CancelFunc = func() {}
	tp.t0 = time.Now()
	switch tc.deadline {
	case "far":
		ctx, cancel = context.WithDeadline(ctx, tp.t0.Add(farDL))
		out.deadline = farDL
	case "near":
		ctx, cancel = context.WithDeadline(ctx, tp.t0.Add(tc.nearDL))
		out.deadline = tc.nearDL
	}
	defer cancel()

	done := make(chan error, 1)
	crng := rng.Fork()
	go func() {
		switch tc.level {
		case "exchange":
			ex := exchange.NewExchanger(tp, 2).WithRand(crng).WithTimeout(tc.timeout)
			if tc.temp {
				ex = ex.WithTempMode(3600)
			}
			_, err := ex.Client([]exchange.PublicKey{priv.Public()}).Run(ctx)
			done <- err
		default:
			opt := mtproto.Options{
				DC: 2, PublicKeys: []exchange.PublicKey{priv.Public()}, Random: crng,
				DialTimeout: dialTO, ExchangeTimeout: tc.timeout, EnablePFS: tc.level == "conn-pfs",
			}
			if tc.level == "conn-rekey" {
				var k crypto.Key
				crng.Read(k[:])
				opt.Key = k.WithID()
				opt.Salt = 1
			}
			conn := mtproto.New(func(context.Context) (transport.Conn, error) { return tp, nil }, opt)
			rctx, rcancel := context.WithCancel(ctx)
			defer rcancel()
			done <- conn.Run(rctx, func(ctx context.Context) error {
				// the exchange completed: nothing more to observe
				<-ctx.Done()
				return ctx.Err()
			})
		}
	}()

	// how long to wait: until the disturbed call started, then timeout + slack (+ margin)
	limit := time.NewTimer(30 * time.Second)
	defer limit.Stop()
	tick := time.NewTicker(5 * time.Millisecond)
	defer tick.Stop()
	for {
		select {
		case err := <-done:
			out.returned, out.retAt, out.err, out.ops = true, time.Since(tp.t0), err, tp.snapshot()
			out.observed = out.retAt
			return out
		case <-limit.C:
			out.ops, out.observed = tp.snapshot(), time.Since(tp.t0)
			close(tp.release)
			waitDone(done)
			return out
		case <-tick.C:
			ops := tp.snapshot()
			complete := tc.level != "exchange" && tc.action == "slow" && len(ops) > tc.op && ops[tc.op].end >= 0 &&
				((tc.level != "conn-pfs" && len(ops) >= 6 && ops[5].end >= 0) || (len(ops) >= 12 && ops[11].end >= 0))
			if complete {
				// mtproto.Conn keeps running after a completed exchange: stop observing
				out.ops = ops
				out.returned, out.retAt = true, ops[len(ops)-1].end
				if tc.level == "conn-pfs" {
					out.ops = ops[:12]
				} else {
					out.ops = ops[:6]
				}
				close(tp.release)
				client.Close()
				server.Close()
				out.observed = time.Since(tp.t0)
				waitDone(done)
				return out
			}
			if len(ops) > tc.op && tc.action != "slow" {
				bound := ops[tc.op].start + tc.timeout
				if out.deadline >= 0 && out.deadline > bound && tc.action == "stall" && out.deadline < bound+5*time.Second {
					bound = out.deadline // let a nearby caller deadline show itself (pre-fix behaviour)
				}
				if time.Since(tp.t0) > bound+slack+300*time.Millisecond {
					out.ops, out.observed = tp.snapshot(), time.Since(tp.t0)
					close(tp.release)
					waitDone(done)
					return out
				}
			}
		}
	}
}

func waitDone(done chan error) {
	select {
	case <-done:
	case <-time.After(5 * time.Second):
	}
}

func us(d time.Duration) int64 { return d.Microseconds() }

func optUs(d time.Duration) string {
	if d < 0 {
		return "-"
	}
	return strconv.FormatInt(us(d), 10)
}

func genCases(c *hc.Ctx) []tcase {
	r := c.Rng
	var cs []tcase
	to := func() time.Duration { return time.Duration(hc.Pick(r, 120, 150, 200, 260)) * time.Millisecond }
	// exchange level: every call × both modes × caller deadline none / far / near, peer silent
	for op := 0; op < 6; op++ {
		for _, temp := range []bool{false, true} {
			for _, dl := range []string{"none", "far", "near"} {
				tc := tcase{level: "exchange", temp: temp, op: op, action: "stall", timeout: to(), deadline: dl, seed: r.U64()}
				if dl == "near" {
					// the caller's deadline ends before the step's own timeout would: the step
					// must end at the deadline (a long timeout makes the two distinguishable)
					tc.timeout = 3 * time.Second
					tc.nearDL = time.Duration(r.Range(900, 1300)) * time.Millisecond
				}
				cs = append(cs, tc)
			}
		}
	}
	// peers that answer late (after the timeout: must fail at the timeout) or slowly (within it:
	// the exchange must go on and complete)
	for op := 0; op < 6; op++ {
		cs = append(cs,
			tcase{level: "exchange", temp: r.Bool(), op: op, action: "late", timeout: to(), deadline: hc.Pick(r, "none", "far"), seed: r.U64()},
			tcase{level: "exchange", temp: r.Bool(), op: op, action: "slow", timeout: to(), deadline: hc.Pick(r, "none", "far"), seed: r.U64()})
	}
	// through mtproto.Conn.Run: connect without PFS (6 calls), with PFS (permanent then temporary
	// exchange: 12 calls), and re-keying from the read loop after a transport-level -404
	for op := 0; op < 6; op++ {
		cs = append(cs, tcase{level: "conn", op: op, action: "stall", timeout: to(), deadline: "none", seed: r.U64()})
		cs = append(cs, tcase{level: "conn-rekey", op: op, action: "stall", timeout: to(), deadline: "none", seed: r.U64()})
	}
	for op := 0; op < 12; op++ {
		cs = append(cs, tcase{level: "conn-pfs", op: op, action: "stall", timeout: to(), deadline: "none", seed: r.U64()})
	}
	cs = append(cs,
		tcase{level: "conn", op: r.Intn(6), action: "slow", timeout: to(), deadline: "none", seed: r.U64()},
		tcase{level: "conn-pfs", op: r.Intn(12), action: "slow", timeout: to(), deadline: "none", seed: r.U64()},
		tcase{level: "conn-rekey", op: r.Intn(6), action: "slow", timeout: to(), deadline: "none", seed: r.U64()})
	if c.Thorough() {
		// repeat the whole grid with fresh timeouts/seeds
		n := len(cs)
		for rep := 0; rep < 7; rep++ {
			for i := 0; i < n; i++ {
				tc := cs[i]
				tc.seed = r.U64()
				if tc.deadline != "near" {
					tc.timeout = to()
				} else {
					tc.nearDL = time.Duration(r.Range(900, 1300)) * time.Millisecond
				}
				cs = append(cs, tc)
			}
		}
	}
	return cs
}

func run(c *hc.Ctx) error {
	var cases []tcase
	if c.Replay != "" {
		tc, err := parseCase(c.Replay)
		if err != nil {
			return err
		}
		cases = []tcase{tc}
	} else {
		cases = genCases(c)
	}
	outs := make([]outcome, len(cases))
	sem := make(chan struct{}, 6)
	var wg sync.WaitGroup
	for i := range cases {
		wg.Add(1)
		sem <- struct{}{}
		go func(i int) {
			defer wg.Done()
			defer func() { <-sem }()
			outs[i] = runCase(cases[i])
		}(i)
	}
	wg.Wait()

	// ---- monitor: decided on the implementation's observations only
	for i, tc := range cases {
		o := outs[i]
		in := tc.String()
		c.Count("level." + tc.level)
		c.Count("action." + tc.action)
		c.Count("deadline." + tc.deadline)
		c.Count(fmt.Sprintf("op.%d", tc.op))
		c.Eval(in, tc.action != "slow")
		name := stepNames[tc.op%6]
		for j, op := range o.ops {
			if op.end < 0 {
				c.Fail("step-not-bounded", in, fmt.Sprintf("transport call %d (%s) started at %v and was still blocked %v later (exchange timeout %v, caller deadline %s)",
					j, stepNames[j%6], op.start, o.observed-op.start, tc.timeout, tc.deadline))
			} else if op.end-op.start > tc.timeout+slack {
				c.Fail("step-not-bounded", in, fmt.Sprintf("transport call %d (%s) took %v, exchange timeout %v (caller deadline %s)", j, stepNames[j%6], op.end-op.start, tc.timeout, tc.deadline))
			}
		}
		if !o.returned && len(o.ops) <= tc.op {
			c.Fail("run-did-not-reach-step", in, fmt.Sprintf("only %d transport calls observed, Run did not return (waiting for %s)", len(o.ops), name))
		}
		if tc.action != "slow" && o.returned && o.err == nil {
			c.Fail("late-peer-accepted", in, "Run returned nil although the peer did not complete "+name+" within the exchange timeout")
		}
		if tc.action == "slow" && tc.level == "exchange" && (!o.returned || o.err != nil) {
			c.Fail("slow-peer-rejected", in, fmt.Sprintf("peer answered %s within the timeout but Run failed: %v", name, o.err))
		}
	}

	// ---- correspondence with the model
	var lines, want, inputs []string
	var horizon []int64 // per line: until when the harness watched the run (µs since t0)
	lines = append(lines, "steps")
	want = append(want, "")
	inputs = append(inputs, "steps")
	horizon = append(horizon, 0)
	for i, tc := range cases {
		o := outs[i]
		if len(o.ops) == 0 {
			continue
		}
		// per exchange (PFS runs two): the measured gaps and latencies, the disturbed call's
		// configured behaviour
		for base := 0; base < len(o.ops); base += 6 {
			seg := o.ops[base:min(base+6, len(o.ops))]
			var beh []string
			now := seg[0].start
			prevEnd := now
			okPattern := ""
			for j, op := range seg {
				gap := op.start - prevEnd
				lat := "-"
				idx := base + j
				switch {
				case idx == tc.op && tc.action == "stall":
				case idx == tc.op && tc.action == "slow":
					lat = optUs(tc.timeout / 3)
					if op.end >= 0 && op.end-op.start > tc.timeout/3 {
						lat = optUs(op.end - op.start)
					}
				case idx == tc.op && tc.action == "late":
					lat = optUs(tc.timeout + tc.timeout/2)
				case op.end >= 0:
					lat = optUs(op.end - op.start)
				}
				beh = append(beh, fmt.Sprintf("%d:%s", us(gap), lat))
				if op.end >= 0 {
					prevEnd = op.end
				}
				if op.end >= 0 && !op.failed {
					okPattern += "1"
				} else {
					okPattern += "0"
				}
			}
			// the caller context seen by the exchange: the given one, or for a plain connect the
			// dial timeout (mtproto/connect.go), else none
			dl := o.deadline
			if tc.level == "conn" {
				dl = dialTO
			}
			line := fmt.Sprintf("trace %d %s %d %s", us(tc.timeout), optUs(dl), us(now), strings.Join(beh, " "))
			last := seg[len(seg)-1]
			lastStop := "never"
			if last.end >= 0 {
				lastStop = strconv.FormatInt(us(last.end), 10)
			}
			lines = append(lines, line)
			inputs = append(inputs, tc.String()+" | "+line)
			want = append(want, fmt.Sprintf("%s %s", okPattern, lastStop))
			horizon = append(horizon, us(o.observed))
		}
	}
	res, err := c.Drv.Batch(lines)
	if err != nil {
		return err
	}
	// the observed call sequence of complete honest-but-slow exchanges vs the regenerated list
	modelSteps := strings.Fields(res[0])
	for i, tc := range cases {
		o := outs[i]
		if tc.action != "slow" || tc.level != "exchange" || o.err != nil {
			continue
		}
		var obs, mod []string
		for _, op := range o.ops {
			obs = append(obs, map[bool]string{false: "send", true: "recv"}[op.recv])
		}
		for _, s := range modelSteps {
			f := strings.Split(s, ":")
			if len(f) == 3 {
				mod = append(mod, map[string]string{"0": "send", "1": "recv"}[f[1]])
			}
		}
		if c.Compare("call-sequence "+tc.String(), strings.Join(obs, ","), strings.Join(mod, ",")) {
			c.Res.TracesValidated++
		}
	}
	for i := 1; i < len(res); i++ {
		// model answer: "start:stop:ok ..." → ok pattern + last stop
		evs := strings.Fields(res[i])
		pat, lastStop := "", ""
		for _, e := range evs {
			f := strings.Split(e, ":")
			if len(f) != 3 {
				pat = "bad:" + res[i]
				break
			}
			pat += f[2]
			lastStop = f[1]
		}
		w := strings.Fields(want[i])
		model := pat + " " + lastStop
		impl := want[i]
		if len(w) == 2 && w[0] == pat && w[1] != "never" && lastStop != "never" {
			a, _ := strconv.ParseInt(w[1], 10, 64)
			b, _ := strconv.ParseInt(lastStop, 10, 64)
			if a-b <= us(slack) && b-a <= us(earlySlack) {
				impl = model // equal up to the allowed real-time slack
			}
		}
		if len(w) == 2 && w[0] == pat && w[1] == "never" && lastStop != "never" {
			// still blocked when the harness stopped watching: agrees with any model return
			// time beyond the observation horizon
			if b, _ := strconv.ParseInt(lastStop, 10, 64); b > horizon[i] {
				impl = model
			}
		}
		if c.Compare(inputs[i], impl, model) {
			c.Res.TracesValidated++
		}
	}
	c.Res.Exhaustive = c.Replay == ""
	c.Res.Rule = "grid: exchange level = 6 transport calls × {permanent, temporary} × caller deadline {none, 20 s, before the step timeout} with a silent peer, + late (1.5×timeout) and slow (timeout/3) answers at each call; mtproto.Conn.Run level = connect without PFS (6 calls), with PFS (12 calls), re-keying after -404 (6 calls), silent peer at each call, + one slow run each; timeouts from {120,150,200,260} ms; non-trivial = the peer is silent or late at some call; distinct = distinct case line"
	c.PartialNote("real scheduler/timer latency is outside the model: a call counts as bounded when it returns within timeout + 1 s; the model's predicted return time is compared with the same slack")
	c.PartialNote("readUnencrypted re-arms the timeout for every transport-level -404 frame it skips; a peer that keeps sending -404 is not silent and is outside the property's quantifier")
	c.PartialNote("the stalling transport ends a call when its context ends (deadline or cancel); transport.connection honours deadlines only — identical here because the harness never cancels")
	sort.Strings(c.Res.Notes)
	return nil
}

