// C24 — each RPC call completes once with its own result and is then left alone.
//
// The real rpc.Engine runs under the deterministic scheduler of package rpcsim; every observed
// trace is replayed through the Lean transition system (TdModel.Rpc) and the property monitor
// checks, on the implementation alone, that no Output is written after / concurrently with the
// return of Do, that each Output is written at most once and only with a result addressed to
// the call's own message id, and that a nil / RPC-error return corresponds to such a result.
package main

import (
	"fmt"

	"verif/harness/c24/rpcsim"
	"verif/harness/hc"
)

func main() {
	hc.Main(hc.Spec{Prop: "C24", Facts: rpcsim.Facts, Run: run})
}

func one(name string, mr int, env ...rpcsim.Option) *rpcsim.Scenario {
	return &rpcsim.Scenario{Name: name, Cfg: rpcsim.Config{MaxRetries: mr, Interval: 3},
		Calls: []rpcsim.Option{{Kind: "start", ID: 1, Seq: 1, Body: 7}}, Env: env, DecodeErr: false}
}

var (
	res0   = rpcsim.Option{Kind: "nres", ID: 0, Target: 1, Val: 100}
	res1   = rpcsim.Option{Kind: "nres", ID: 1, Target: 1, Val: 101}
	err2   = rpcsim.Option{Kind: "nerr", ID: 2, Target: 1, Val: 400}
	frn3   = rpcsim.Option{Kind: "nres", ID: 3, Target: 90, Val: 103}
	cancel = rpcsim.Option{Kind: "cancel", ID: 1}
	fclose = rpcsim.Option{Kind: "fclose", ID: 2}
	ack1   = rpcsim.Option{Kind: "ack", IDs: []int64{1}}
	adv3   = rpcsim.Option{Kind: "adv", D: 3}
)

// directed: the windows of D13 (result routed, Do returns, handler runs) for each early return
// of Do, as concrete schedules.
func directed() []rpcsim.Directed {
	return []rpcsim.Directed{
		{Sc: one("d13-cancel-sent", 2, res0, cancel), Script: []string{
			"start 1 1 7", "sret 1 ok", "nres 0 1 100", "cancel 1", "run 1", "run 1", "dret 1 ok", "nrun 0", "nrun 0", "nrun 0", "nwrite 0 ok"}},
		{Sc: one("d13-cancel-during-decode", 2, res0, cancel), Script: []string{
			"start 1 1 7", "sret 1 ok", "nres 0 1 100", "nrun 0", "nrun 0", "nrun 0", "cancel 1", "run 1", "run 1", "dret 1 ok", "nwrite 0 ok"}},
		// the handler has been entered (first statement: its log record) but has not done its CAS yet
		{Sc: one("cancel-at-handler-entry", 2, res0, cancel), Script: []string{
			"start 1 1 7", "sret 1 ok", "nres 0 1 100", "nrun 0", "cancel 1", "run 1", "run 1", "dret 1 ok", "nrun 0"}},
		{Sc: one("fclose-at-handler-entry", 2, res0, fclose), Script: []string{
			"start 1 1 7", "sret 1 ok", "nres 0 1 100", "nrun 0", "fclose 2", "run 1", "nrun 0"}},
		{Sc: one("d13-retry-limit", 1, res0, adv3), Script: []string{
			"start 1 1 7", "sret 1 ok", "nres 0 1 100", "adv 3", "run 1", "sret 1 ok", "nrun 0", "nrun 0", "nrun 0", "nwrite 0 ok"}},
		{Sc: one("d13-force-close", 2, res0, fclose), Script: []string{
			"start 1 1 7", "sret 1 ok", "nres 0 1 100", "fclose 2", "run 1", "nrun 0", "nrun 0", "nrun 0", "nwrite 0 ok"}},
		{Sc: one("d13-force-close-acked", 2, res0, ack1, fclose), Script: []string{
			"start 1 1 7", "sret 1 ok", "ack 1", "run 1", "nres 0 1 100", "fclose 2", "run 1", "nrun 0", "nrun 0", "nrun 0", "nwrite 0 ok"}},
		{Sc: &rpcsim.Scenario{Name: "d13-send-error", Cfg: rpcsim.Config{MaxRetries: 2, Interval: 3}, SendErr: true,
			Calls: []rpcsim.Option{{Kind: "start", ID: 1, Seq: 1, Body: 7}}, Env: []rpcsim.Option{res0}}, Script: []string{
			"start 1 1 7", "nres 0 1 100", "sret 1 err", "nrun 0", "nrun 0", "nrun 0", "nwrite 0 ok"}},
		{Sc: one("duplicate-result", 2, res0, res1), Script: []string{
			"start 1 1 7", "sret 1 ok", "nres 0 1 100", "nres 1 1 101", "nrun 0", "nrun 1", "nrun 0", "nrun 1", "nrun 0", "nwrite 0 ok", "run 1", "run 1"}},
		{Sc: one("error-vs-result", 2, res0, err2), Script: []string{
			"start 1 1 7", "sret 1 ok", "nres 0 1 100", "nerr 2 1 400", "nrun 2", "nrun 0", "nrun 2", "nrun 0", "nrun 2", "run 1", "run 1"}},
		{Sc: one("foreign-result", 2, frn3, res0), Script: []string{
			"start 1 1 7", "sret 1 ok", "nres 3 90 103", "nres 0 1 100", "nrun 0", "nrun 0", "nrun 0", "nwrite 0 ok", "run 1", "run 1"}},
	}
}

// wireDirected: every wire shape of a result and of an RPC error, delivered through
// mtproto.Conn.handleMessage to a pending call: the call must return the value / that error.
func wireDirected() []rpcsim.Directed {
	var ds []rpcsim.Directed
	for shape := 1; shape < rpcsim.NumShapes; shape++ {
		r := rpcsim.Option{Kind: "nres", ID: 0, Target: 1, Val: 100, Shape: shape}
		e := rpcsim.Option{Kind: "nerr", ID: 2, Target: 1, Val: 400, Shape: shape}
		w := "nwrite 0 ok"
		if shape == rpcsim.ShapeNestedGz {
			w = "nwrite 0 err"
		}
		ds = append(ds, rpcsim.Directed{Sc: one(fmt.Sprintf("wire-result-shape-%d", shape), 2, r), Script: []string{
			"start 1 1 7", "sret 1 ok", "nres 0 1 100", "nrun 0", "nrun 0", "nrun 0", w, "run 1", "run 1"}})
		if shape != rpcsim.ShapeNestedGz {
			ds = append(ds, rpcsim.Directed{Sc: one(fmt.Sprintf("wire-error-shape-%d", shape), 2, e), Script: []string{
				"start 1 1 7", "sret 1 ok", "nerr 2 1 400", "nrun 2", "nrun 2", "nrun 2", "run 1", "run 1"}})
		}
	}
	for shape := 1; shape < rpcsim.NumAckShapes; shape++ {
		a := rpcsim.Option{Kind: "ack", IDs: []int64{90, 1, 1}, Shape: shape}
		ds = append(ds, rpcsim.Directed{Sc: one(fmt.Sprintf("wire-ack-shape-%d", shape), 2, a, res0), Script: []string{
			"start 1 1 7", "sret 1 ok", "ack 90 1 1", "run 1", "nres 0 1 100", "nrun 0", "nrun 0", "nrun 0", "nwrite 0 ok", "run 1"}})
	}
	return ds
}

func dfsScenarios() []*rpcsim.Scenario {
	two := &rpcsim.Scenario{Name: "dfs-two-calls-result-cancel", Cfg: rpcsim.Config{MaxRetries: 1, Interval: 3},
		Calls: []rpcsim.Option{{Kind: "start", ID: 1, Seq: 1, Body: 7}, {Kind: "start", ID: 2, Seq: 3, Body: 8}},
		Env:   []rpcsim.Option{res0, {Kind: "cancel", ID: 2}}}
	return []*rpcsim.Scenario{
		one("dfs-result-cancel", 1, res0, cancel),
		one("dfs-result-fclose", 1, res0, fclose),
		one("dfs-result-dup", 1, res0, res1),
		one("dfs-result-error-cancel", 1, res0, err2, cancel),
		one("dfs-result-ack-tick", 1, res0, ack1, adv3),
		one("dfs-result-cancel-fclose", 1, res0, cancel, fclose),
		one("dfs-result-dup-cancel", 1, res0, res1, cancel),
		one("dfs-result-foreign-fclose", 1, res0, frn3, fclose),
		one("dfs-wire-gzip-error-cancel", 1, rpcsim.Option{Kind: "nerr", ID: 2, Target: 1, Val: 400, Shape: rpcsim.ShapeResultGz}, cancel),
		one("dfs-wire-container-result-ack", 1, rpcsim.Option{Kind: "nres", ID: 0, Target: 1, Val: 100, Shape: rpcsim.ShapeContainerGz},
			rpcsim.Option{Kind: "ack", IDs: []int64{90, 1}, Shape: rpcsim.AckSplit}),
		two,
	}
}

func run(c *hc.Ctx) error {
	k := &rpcsim.Check{C: c, Prop: "C24", Src: rpcsim.ReadSrc(hc.NewFacts("C24", c.Repo)), W: rpcsim.WeightsC24,
		Nontrivial: func(s *rpcsim.Sim) bool { return s.Stats["lookup-hit"] > 0 }}
	if err := k.RunDirected(directed()); err != nil {
		return err
	}
	if err := k.RunDirected(wireDirected()); err != nil {
		return err
	}
	if err := k.RunRandom(c.N(5000, 300000)); err != nil {
		return err
	}
	if c.Thorough() {
		complete, err := k.RunDFS(dfsScenarios(), 400000)
		if err != nil {
			return err
		}
		c.Res.Exhaustive = complete
	}
	c.Res.Rule = "a schedule = an order of thread releases at the scheduling points of rpc/engine.go and of environment actions (NotifyResult/NotifyError incl. duplicates and foreign ids, NotifyAcks, cancel, clock travel, Close, ForceClose) over 1..4 concurrent calls; non-trivial = at least one notification found a registered handler (a result was routed to a pending call); distinct = distinct schedule"
	c.PartialNote("interleavings below the granularity of the scheduling points (Go memory model inside a critical section / between two hooks) are not exhibited; Go's select chooses among simultaneously ready branches at random, so a schedule fixes the scheduler's choices but not that choice (every observed choice is validated against the model)")
	c.PartialNote("the logical clock of the Output monitor is the position in the serialised trace; real-time overlap is represented by the parked-in-Decode state")
	return k.Flush()
}
