package rpcsim

import (
	"fmt"

	"verif/harness/hc"
)

// Weights biases the random scenario generator towards what a property is about.
type Weights struct {
	Result, Error, Dup, Ack, Cancel, Foreign int // percent per call
	Advances                                 int // extra clock travels on top of the retry budget
	Close, FClose                            int // percent per scenario
	MaxCalls                                 int
}

var (
	// WeightsC24: results, duplicates, errors and cancellations racing with the return of Do.
	WeightsC24 = Weights{Result: 75, Error: 30, Dup: 40, Ack: 40, Cancel: 45, Foreign: 35, Advances: 0, Close: 8, FClose: 25, MaxCalls: 4}
	// WeightsC25: retry timers against acknowledgements and results.
	WeightsC25 = Weights{Result: 45, Error: 10, Dup: 10, Ack: 65, Cancel: 20, Foreign: 10, Advances: 3, Close: 5, FClose: 15, MaxCalls: 3}
	// WeightsC26: close / force-close / cancel at every point.
	WeightsC26 = Weights{Result: 40, Error: 15, Dup: 10, Ack: 55, Cancel: 60, Foreign: 10, Advances: 1, Close: 20, FClose: 70, MaxCalls: 4}
)

// GenScenario draws a random scenario.
func GenScenario(r *hc.RNG, w Weights) *Scenario {
	sc := &Scenario{Name: "random"}
	sc.Cfg = Config{MaxRetries: hc.Pick(r, 1, 1, 2, 2, 3, 4, 5, 6), Interval: hc.Pick(r, 2, 3, 4, 10)}
	n := 1 + r.Intn(w.MaxCalls)
	if r.Chance(35) {
		n = 1
	}
	val := uint64(100)
	nid := int64(0)
	viaConn := r.Chance(60) // deliver through mtproto.Conn.handleMessage in random wire shapes
	notif := func(kind string, target int64) {
		shape := ShapeDirect
		if viaConn {
			shape = 1 + r.Intn(NumShapes-2)
			if kind == "nres" && r.Chance(6) {
				shape = ShapeNestedGz
			}
		}
		sc.Env = append(sc.Env, Option{Kind: kind, ID: nid, Target: target, Val: val, Shape: shape})
		nid++
		val++
	}
	var allIDs []int64
	for i := 0; i < n; i++ {
		id := int64(1 + i)
		allIDs = append(allIDs, id)
		st := Option{Kind: "start", ID: id, Seq: int32(2*i + 1), Body: uint64(7 + r.Intn(50))}
		if r.Chance(60) {
			st.CtxKind = r.Intn(NumCtxKinds)
		}
		st.PreCanc = r.Chance(5)
		sc.Calls = append(sc.Calls, st)
		if r.Chance(w.Result) {
			notif("nres", id)
		}
		if r.Chance(w.Error) {
			notif("nerr", id)
		}
		if r.Chance(w.Dup) {
			notif("nres", id)
		}
		if r.Chance(w.Cancel) {
			sc.Env = append(sc.Env, Option{Kind: "cancel", ID: id})
		}
		if r.Chance(w.Foreign) {
			notif(hc.Pick(r, "nres", "nerr"), int64(90+r.Intn(3)))
		}
	}
	for i := 0; i < n; i++ {
		if r.Chance(w.Ack) {
			// a msgs_ack batch: the call's id together with ids of other calls (pending, finished or
			// not yet started), ids nobody waits for, and repeated ids, in any order — in particular
			// unknown ids BEFORE pending ones
			ids := []int64{allIDs[i]}
			for r.Chance(35) && len(ids) < 5 {
				switch r.Intn(3) {
				case 0:
					ids = append(ids, allIDs[r.Intn(n)])
				case 1:
					ids = append(ids, int64(90+r.Intn(3)))
				case 2:
					ids = append(ids, ids[r.Intn(len(ids))])
				}
			}
			for j := len(ids) - 1; j > 0; j-- {
				k := r.Intn(j + 1)
				ids[j], ids[k] = ids[k], ids[j]
			}
			shape := AckDirect
			if viaConn {
				shape = 1 + r.Intn(NumAckShapes-1)
			}
			sc.Env = append(sc.Env, Option{Kind: "ack", IDs: ids, Shape: shape})
		}
	}
	adv := w.Advances
	if adv > 0 || r.Chance(40) {
		adv += r.Intn(sc.Cfg.MaxRetries + 2)
	}
	for i := 0; i < adv; i++ {
		d := sc.Cfg.Interval
		switch r.Intn(6) {
		case 0:
			d = sc.Cfg.Interval / 2
		case 1:
			d = sc.Cfg.Interval + 1
		case 2:
			d = sc.Cfg.Interval - 1
		}
		if d < 1 {
			d = 1
		}
		sc.Env = append(sc.Env, Option{Kind: "adv", D: d})
	}
	if r.Chance(w.Close) {
		sc.Env = append(sc.Env, Option{Kind: "close", ID: 1})
	}
	if r.Chance(w.FClose) {
		sc.Env = append(sc.Env, Option{Kind: "fclose", ID: 2})
	}
	// sequential reuse of a message id (Conn.Invoke after bad_server_salt): monitor-only runs
	if r.Chance(6) {
		sc.Reuse = true
		k := r.Intn(n)
		sc.Calls = append(sc.Calls, Option{Kind: "start", ID: allIDs[k], Seq: sc.Calls[k].Seq, Body: sc.Calls[k].Body})
		notif("nres", allIDs[k])
	}
	sc.Early = r.Chance(15)
	sc.SendErr = r.Chance(15)
	sc.Can = r.Chance(30)
	sc.DropErr = r.Chance(30)
	sc.DecodeErr = r.Chance(25)
	return sc
}

// Describe renders the scenario (for evidence samples / replays).
func (sc *Scenario) Describe() string {
	s := fmt.Sprintf("%s mr=%d iv=%d calls=%d env=[", sc.Name, sc.Cfg.MaxRetries, sc.Cfg.Interval, len(sc.Calls))
	for i, e := range sc.Env {
		if i > 0 {
			s += "; "
		}
		s += e.Label()
	}
	return s + "]"
}
