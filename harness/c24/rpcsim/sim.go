// Package rpcsim drives the real rpc.Engine of /repo under a deterministic scheduler
// (properties C24, C25, C26).
//
// Every goroutine that executes engine code (one per Do, one per NotifyResult/NotifyError, one
// per Close/ForceClose) is parked at the scheduling points of rpc/engine.go (verifPoint call
// sites, build tag verif) and inside the callbacks the engine makes into its environment
// (send, drop, Output.Decode).  Exactly one of them runs at a time; the scheduler decides which
// one passes next and performs the environment actions (NotifyAcks, context cancellation, fake
// clock travel) itself.  The sequence of released threads, with what was observed afterwards,
// is the trace that the Lean model replays (TdModel/Model/C24Replay.lean).
package rpcsim

import (
	"context"
	"errors"
	"fmt"
	"sort"
	"strings"
	"time"

	"github.com/gotd/log"
	"github.com/gotd/neo"

	"github.com/gotd/td/bin"
	"github.com/gotd/td/clock"
	"github.com/gotd/td/mtproto"
	"github.com/gotd/td/rpc"
	"github.com/gotd/td/tgerr"
)

// Config is the engine configuration of one run.
type Config struct {
	MaxRetries int // Options.MaxRetries (>= 1)
	Interval   int // Options.RetryInterval in seconds (= model clock units)
}

// Event is one step of the observed trace.
type Event struct {
	Label string // model action label
	Obs   string // what was observed afterwards
}

// Violation is a property violation observed on the implementation (no model involved).
type Violation struct {
	Prop   string // C24 | C25 | C26
	Key    string
	Detail string
}

type thread struct {
	kind   string // call | notif | closer
	id     int64  // msg id / notifier id
	point  string // where it is parked ("" = running / not started, "fin" = finished)
	resume chan string
	// call
	call *Call
	// notifier
	notif *Notif
}

// Call is one Do invocation as the harness sees it.
type Call struct {
	ID       int64
	Seq      int32
	Body     uint64
	ctx      context.Context
	cancel   func()
	CtxKind  int
	th       *thread
	sendCtx  context.Context
	timer    *simTimer
	Started  bool
	Finished bool
	Err      error
	Ret      string // classified return value
	UserCanc bool
	Acked    bool // NotifyAcks named the id while its channel was registered
	Done     bool // the handler completed (done closed)
	Sent     bool // first send returned nil
	Sends    int
	Drops    int
	Writes   []uint64
	retStamp int
	armedAt  time.Time
	ownSteps int // releases of this call's thread after ForceClose
}

// Notif is one NotifyResult / NotifyError invocation.
type Notif struct {
	NID    int64
	Target int64
	IsErr  bool
	Val    uint64
	th     *thread
	casFor int64 // id passed to handler.cas (the call whose handler won the CAS)
	hasCas bool
	Err    error
	Shape  int // delivery shape (wire.go)
}

type arrival struct{ t *thread }

type closer struct {
	k        int
	done     chan struct{}
	returned bool
}

// Sim is one engine under the scheduler.
type Sim struct {
	Cfg           Config
	Eng           *rpc.Engine
	clk           *neo.Time
	calls         map[int64]*Call
	order         []int64
	notifs        map[int64]*Notif
	cur           *thread
	arrive        chan arrival
	Trace         []Event
	Viol          []Violation
	ReqC          bool // ForceClose was called
	Closed        bool
	closers       []*closer
	mtconn        *mtproto.Conn
	serverMsgID   int64
	Src           Src      // shape of the source: decides when a parked thread can be released
	Lost          string   // non-empty: the scheduler lost a thread (harness error)
	Log           []string // transmissions id/seq/body in order
	Stats         map[string]int
	Watchdog      time.Duration // how long a released thread may take to reach its next scheduling point
	Pending       string        // label being applied (for retrying a run whose thread was lost)
	wd            *time.Timer
	fcloseAt      int
	Panicked      bool
	retired       []*Call // earlier calls whose message id was used again
	advAfterClose int     // clock travels after ForceClose
}

var errSend = errors.New("verif: send failed")
var errDrop = errors.New("verif: drop failed")
var errDecode = errors.New("verif: decode failed")

type rpcError struct{ code uint64 }

func (e *rpcError) Error() string { return fmt.Sprintf("verif rpc error %d", e.code) }

type bodyEnc struct{ tag uint64 }

func (b bodyEnc) Encode(buf *bin.Buffer) error { buf.PutLong(int64(b.tag)); return nil }

// New creates an engine wired to the scheduler and installs the hook.
func New(cfg Config, src Src) *Sim {
	s := &Sim{Cfg: cfg, Src: src, calls: map[int64]*Call{}, notifs: map[int64]*Notif{}, arrive: make(chan arrival), Stats: map[string]int{}}
	s.clk = neo.NewTime(time.Date(2021, 1, 1, 0, 0, 0, 0, time.UTC))
	rpc.VerifC24SetHook(s.hook)
	s.Eng = rpc.New(s.send, rpc.Options{
		RetryInterval: time.Duration(cfg.Interval) * time.Second,
		MaxRetries:    cfg.MaxRetries,
		Clock:         simClock{s},
		DropHandler:   s.drop,
		Logger:        simLogger{s},
	})
	return s
}

// Release removes the hook (call when the run is over).
func (s *Sim) Release() { rpc.VerifC24SetHook(nil) }

func (s *Sim) viol(prop, key, format string, a ...any) {
	s.Viol = append(s.Viol, Violation{prop, key, fmt.Sprintf(format, a...)})
}

// ---- parking

func (s *Sim) park(name string) string {
	t := s.cur
	if t == nil {
		return ""
	}
	t.point = name
	s.arrive <- arrival{t}
	return <-t.resume
}

func (s *Sim) hook(name string, id int64) {
	t := s.cur
	if t == nil {
		return
	}
	if name == "handler.cas" && t.notif != nil {
		t.notif.casFor, t.notif.hasCas = id, true
	}
	s.park(name)
}

func (s *Sim) wait(t *thread) bool {
	select {
	case a := <-s.arrive:
		if a.t != t {
			s.Lost = fmt.Sprintf("thread %s/%d arrived while %s/%d was running", a.t.kind, a.t.id, t.kind, t.id)
			return false
		}
		s.cur = nil
		return true
	case <-s.watchdog():
		s.Lost = fmt.Sprintf("thread %s/%d released from %q did not reach a scheduling point (blocked)", t.kind, t.id, t.point)
		s.cur = nil
		return false
	}
}

// watchdog only detects a thread that blocks inside the engine where the scheduler expected it
// to proceed; it never decides a verdict by itself (Check retries the schedule with a longer
// limit, see Check.exec), so a slow machine cannot turn into a violation.
func (s *Sim) watchdog() <-chan time.Time {
	d := s.Watchdog
	if d == 0 {
		d = 30 * time.Second
	}
	if s.wd == nil {
		s.wd = time.NewTimer(d)
	} else {
		if !s.wd.Stop() {
			select {
			case <-s.wd.C:
			default:
			}
		}
		s.wd.Reset(d)
	}
	return s.wd.C
}

func (s *Sim) resume(t *thread, msg string) bool {
	s.cur = t
	t.resume <- msg
	return s.wait(t)
}

func (s *Sim) spawn(t *thread, f func()) bool {
	s.cur = t
	go func() {
		defer func() {
			// a panic inside the engine (e.g. close of a closed channel) must not kill the harness:
			// it is a violation of every property checked here, with the schedule as its input
			if r := recover(); r != nil {
				s.viol("*", "panic", "%s/%d panicked: %v", t.kind, t.id, r)
				s.Panicked = true
			}
			t.point = "fin"
			s.arrive <- arrival{t}
		}()
		f()
	}()
	return s.wait(t)
}

// ---- callbacks of the engine

func (s *Sim) send(ctx context.Context, msgID int64, seqNo int32, in bin.Encoder) error {
	t := s.cur
	var buf bin.Buffer
	_ = in.Encode(&buf)
	tag, _ := buf.Long()
	c := s.calls[msgID]
	if t == nil || t.call == nil || c == nil || t.call != c {
		s.viol("C25", "send-identity", "send(msg_id=%d) from a thread that does not own that call", msgID)
		return errSend
	}
	c.Sends++
	c.sendCtx = ctx
	s.Log = append(s.Log, fmt.Sprintf("%d/%d/%d", msgID, seqNo, uint64(tag)))
	if msgID != c.ID || seqNo != c.Seq || uint64(tag) != c.Body {
		s.viol("C25", "send-identity", "call %d transmitted (%d,%d,%d), registered (%d,%d,%d)", c.ID, msgID, seqNo, tag, c.ID, c.Seq, c.Body)
	}
	if c.Sends > 1 {
		if c.Acked || c.Done {
			s.viol("C25", "send-after-ack", "call %d retransmitted (transmission %d) although acked=%v result-delivered=%v", c.ID, c.Sends, c.Acked, c.Done)
		}
		if el := s.clk.Now().Sub(c.armedAt); el < time.Duration(s.Cfg.Interval)*time.Second {
			s.viol("C25", "retry-interval", "call %d retransmitted %v after the timer was armed (interval %ds)", c.ID, el, s.Cfg.Interval)
		}
		c.armedAt = s.clk.Now() // timer.Reset ran just before this send
	}
	if c.Sends > 1+s.Cfg.MaxRetries {
		s.viol("C25", "send-count", "call %d transmitted %d times, limit 1+%d", c.ID, c.Sends, s.Cfg.MaxRetries)
	}
	switch s.park("send") {
	case "err":
		return errSend
	case "can":
		// a send interrupted by its context returns that context's error
		if err := ctx.Err(); err != nil {
			return err
		}
		return context.Canceled
	}
	return nil
}

func (s *Sim) drop(req rpc.Request) error {
	c := s.calls[req.MsgID]
	if t := s.cur; t == nil || t.call == nil || t.call != c {
		s.viol("C26", "drop", "drop(msg_id=%d) from a thread that does not own that call", req.MsgID)
		return nil
	}
	c.Drops++
	if s.park("drop") == "err" {
		return errDrop
	}
	return nil
}

type output struct {
	s *Sim
	c *Call
}

func (o *output) Decode(b *bin.Buffer) error {
	cur := o.s.cur
	res := o.s.park("decode")
	c := o.c
	var val uint64
	malformed := false
	if id, err := b.PeekID(); err != nil || id != fakeResultID {
		// not the result object: the write is attributed to the notification being delivered
		malformed = true
		if cur != nil && cur.notif != nil {
			val = cur.notif.Val
		}
	} else {
		_ = b.ConsumeID(fakeResultID)
		v, _ := b.Long()
		val = uint64(v)
	}
	c.Writes = append(c.Writes, val)
	if cur != nil && cur.notif != nil && cur.notif.IsErr {
		o.s.viol("C24", "error-routed-as-result", "the RPC error %d for call %d (delivery shape %d) reached Output.Decode as if it were a result", cur.notif.Val, c.ID, cur.notif.Shape)
	}
	if c.Finished {
		o.s.viol("C24", "write-after-return", "Output of call %d written (payload %d) after Do returned %s at step %d (now step %d)",
			c.ID, val, c.Ret, c.retStamp, len(o.s.Trace))
	}
	if len(c.Writes) > 1 {
		o.s.viol("C24", "multi-write", "Output of call %d written %d times: %v", c.ID, len(c.Writes), c.Writes)
	}
	if n := o.s.notifByVal(val); n == nil || n.Target != c.ID || n.IsErr {
		if cur == nil || cur.notif == nil || !cur.notif.IsErr { // (the routing violation above already covers it)
			o.s.viol("C24", "foreign-write", "Output of call %d received payload %d which was not addressed to it", c.ID, val)
		}
	}
	if malformed {
		if cur != nil && cur.notif != nil && !cur.notif.IsErr && cur.notif.Shape != ShapeNestedGz {
			o.s.viol("C24", "result-body-mangled", "the result %d for call %d (delivery shape %d) reached Output.Decode with a different body", cur.notif.Val, c.ID, cur.notif.Shape)
		}
		return errDecode
	}
	if res == "err" {
		return errDecode
	}
	return nil
}

func (s *Sim) notifByVal(v uint64) *Notif {
	for _, n := range s.notifs {
		if n.Val == v {
			return n
		}
	}
	return nil
}

// ---- logger: the engine's log records are callbacks into the environment; the record at the head
// of the result handler is used as a scheduling point (handler.log: handler entered, CAS not yet done).

type simLogger struct{ s *Sim }

func (l simLogger) Enabled(context.Context, log.Level) bool { return true }
func (l simLogger) Log(_ context.Context, _ log.Level, msg string, _ ...log.Attr) {
	if msg == "Handler called" && l.s.cur != nil && l.s.cur.notif != nil {
		l.s.park("handler.log")
	}
}

// ---- clock

type simClock struct{ s *Sim }

func (c simClock) Now() time.Time                      { return c.s.clk.Now() }
func (c simClock) Ticker(d time.Duration) clock.Ticker { return c.s.clk.Ticker(d) }
func (c simClock) Timer(d time.Duration) clock.Timer {
	t := &simTimer{Timer: c.s.clk.Timer(d), s: c.s}
	if cur := c.s.cur; cur != nil && cur.call != nil {
		t.c = cur.call
		cur.call.timer = t
		cur.call.armedAt = c.s.clk.Now()
	}
	c.s.checkInterval(d)
	return t
}

type simTimer struct {
	neo.Timer
	s       *Sim
	c       *Call
	stopped bool
}

func (t *simTimer) Reset(d time.Duration) { t.s.checkInterval(d); t.Timer.Reset(d) }
func (t *simTimer) Stop() bool            { t.stopped = true; return t.Timer.Stop() }

func (s *Sim) checkInterval(d time.Duration) {
	if d != time.Duration(s.Cfg.Interval)*time.Second {
		s.viol("C25", "retry-interval", "retry timer armed with %v, configured interval %ds", d, s.Cfg.Interval)
	}
}

func (c *Call) fired() bool { return c.timer != nil && !c.timer.stopped && len(c.timer.C()) > 0 }

// ---- observations

func (s *Sim) snapshot() string {
	r, a, cl := s.Eng.VerifC24Snapshot()
	return fmt.Sprintf("rpc=%s ack=%s closed=%s", ids(r), ids(a), b01(cl))
}

func ids(l []int64) string {
	if len(l) == 0 {
		return "-"
	}
	sort.Slice(l, func(i, j int) bool { return l[i] < l[j] })
	p := make([]string, len(l))
	for i, x := range l {
		p[i] = fmt.Sprint(x)
	}
	return strings.Join(p, ",")
}

func b01(b bool) string {
	if b {
		return "1"
	}
	return "0"
}

func (s *Sim) record(label, threadObs string) {
	s.Trace = append(s.Trace, Event{label, threadObs + " " + s.snapshot()})
}

// Classify maps Do's return value to the model's Ret classes.
func Classify(err error, ctx context.Context) string {
	var rl *rpc.RetryLimitReachedErr
	var re *rpcError
	var te *tgerr.Error
	switch {
	case err == nil:
		return "ok"
	case errors.As(err, &re):
		return fmt.Sprintf("rpc%d", re.code)
	case errors.As(err, &te):
		if te.Message != errorMessage(uint64(te.Code)) {
			return fmt.Sprintf("other(tgerr %d %q)", te.Code, te.Message)
		}
		return fmt.Sprintf("rpc%d", te.Code)
	case errors.Is(err, errDecode):
		return "decodeErr"
	case errors.Is(err, errSend):
		return "sendErr"
	case errors.As(err, &rl):
		return fmt.Sprintf("retryLimit%d", rl.Retries)
	case errors.Is(err, rpc.ErrEngineClosed):
		return "closedRetry"
	case ctx != nil && ctx.Err() != nil && err == ctx.Err():
		return "ctx"
	case errors.Is(err, context.Canceled) && strings.Contains(err.Error(), "engine forcibly closed"):
		return "closedNoRetry"
	}
	return "other(" + err.Error() + ")"
}
