package rpcsim

import (
	"fmt"
	"go/ast"
	"go/token"
	"strings"

	"verif/harness/hc"
)

func leanStrList(l []string) string {
	q := make([]string, len(l))
	for i, s := range l {
		q[i] = fmt.Sprintf("%q", s)
	}
	return "[" + strings.Join(q, ", ") + "]"
}

// Src is what the checks read from rpc/engine.go and rpc/ack.go: structured facts that the Lean
// model INTERPRETS (TdModel.Rpc.Cfg.ofRaw) and that the scheduler uses to decide when a parked
// thread can be released (so that a changed wake-up condition is explored, not masked).
type Src struct {
	OK              bool
	HookSites       []string
	GuardPresent    bool     // Do defers: if !CAS(&handlerCalled,0,1) { wait }
	GuardWait       []string // what the guard waits for: ["<-done"] or the cases of its select
	CasBeforeDec    bool
	DoSelect        []string // cases of Do's final select
	LoopSelect      []string // cases of the retry loop's select
	WaitClosedPref  string   // in Do's close branch, how a concurrent result is detected: done | entered | none
	LoopClosedAck   bool     // the loop's close branch prefers a concurrently arrived ack
	RecheckAck      bool     // timer branch: non-blocking <-ackChan before e.send
	RecheckCtx      bool     // timer branch: ctx.Err() check before e.send
	DropIfSent      bool     // cancel branch returns before the drop request when the request was not sent
	NopOnCancel     bool     // cancel branch replaces the handler by a no-op
	DeleteOnReturn  bool     // Do defers delete(e.rpc, id)
	RemoveAckDefer  bool     // retryUntilAck defers e.removeAck(id)
	HandlerLogFirst bool     // the handler's first statement is the "Handler called" log record
	AckUnknown      string   // NotifyAcks on an id without waiter: continue | break | return | other
	AckCloses       bool     // NotifyAcks closes the channel of a known id
	AckDeletes      bool     // ... and deletes it from e.ack
	RetryLimitCmp   bool
	TimerInterval   bool
	DefMaxRetries   int
	DefIntervalSec  int
	ForceCloseOK    bool
	PoolRetryable   []string
	CliRetryable    []string
}

func commCases(f *hc.Facts, sel *ast.SelectStmt) []string {
	var cs []string
	for _, st := range sel.Body.List {
		cc := st.(*ast.CommClause)
		src := "default"
		if cc.Comm != nil {
			src = f.Src(cc.Comm)
		}
		cs = append(cs, src)
	}
	return cs
}

func clause(f *hc.Facts, sel *ast.SelectStmt, comm string) *ast.CommClause {
	for _, st := range sel.Body.List {
		cc := st.(*ast.CommClause)
		if cc.Comm != nil && f.Src(cc.Comm) == comm {
			return cc
		}
	}
	return nil
}

// isTryRecv reports whether st is `select { case <-ch: ...return X; default: }`.
func isTryRecv(f *hc.Facts, st ast.Stmt, ch string) bool {
	sel, ok := st.(*ast.SelectStmt)
	if !ok {
		return false
	}
	cs := commCases(f, sel)
	if len(cs) != 2 || cs[0] != "<-"+ch || cs[1] != "default" {
		return false
	}
	body := sel.Body.List[0].(*ast.CommClause).Body
	if len(body) == 0 {
		return false
	}
	_, isRet := body[len(body)-1].(*ast.ReturnStmt)
	return isRet
}

func contains(l []string, s string) bool {
	for _, x := range l {
		if x == s {
			return true
		}
	}
	return false
}

// ReadSrc extracts the facts from the repository f reads.
func ReadSrc(f *hc.Facts) Src {
	var s Src
	do := f.FuncDecl("rpc", "Engine.Do")
	retry := f.FuncDecl("rpc", "Engine.retryUntilAck")
	acks := f.FuncDecl("rpc", "Engine.NotifyAcks")
	if do == nil || retry == nil || acks == nil || do.Body == nil || retry.Body == nil || acks.Body == nil {
		return s
	}
	s.OK = true
	// scheduling points, in source order
	for _, name := range []string{"Engine.Do", "Engine.retryUntilAck", "Engine.NotifyResult", "Engine.NotifyError", "Engine.Close", "Engine.ForceClose"} {
		fd := f.FuncDecl("rpc", name)
		if fd == nil {
			continue
		}
		ast.Inspect(fd, func(x ast.Node) bool {
			if ce, ok := x.(*ast.CallExpr); ok {
				if id, ok := ce.Fun.(*ast.Ident); ok && id.Name == "verifPoint" && len(ce.Args) == 2 {
					s.HookSites = append(s.HookSites, strings.TrimPrefix(name, "Engine.")+":"+strings.Trim(f.Src(ce.Args[0]), "\""))
				}
			}
			return true
		})
	}
	// Do: top-level statements
	for _, st := range do.Body.List {
		switch st := st.(type) {
		case *ast.DeferStmt:
			src := f.Src(st)
			fl, _ := st.Call.Fun.(*ast.FuncLit)
			if fl == nil {
				continue
			}
			if strings.Contains(src, "delete(e.rpc, req.MsgID)") {
				s.DeleteOnReturn = true
			}
			// the guard: if !CAS(...) { [verifPoint]; <-done | select {...} }
			for _, gs := range fl.Body.List {
				ifs, ok := gs.(*ast.IfStmt)
				if !ok || !strings.Contains(f.Src(ifs.Cond), "CompareAndSwapUint32(&handlerCalled, 0, 1)") || !strings.HasPrefix(f.Src(ifs.Cond), "!") {
					continue
				}
				for _, ws := range ifs.Body.List {
					switch ws := ws.(type) {
					case *ast.ExprStmt:
						if u, ok := ws.X.(*ast.UnaryExpr); ok && u.Op == token.ARROW {
							s.GuardWait = append(s.GuardWait, f.Src(ws.X))
						}
					case *ast.SelectStmt:
						s.GuardWait = append(s.GuardWait, commCases(f, ws)...)
					}
				}
				s.GuardPresent = len(s.GuardWait) > 0
			}
		case *ast.SelectStmt:
			cs := commCases(f, st)
			if !contains(cs, "<-done") {
				continue
			}
			s.DoSelect = cs
			if cc := clause(f, st, "<-e.reqCtx.Done()"); cc != nil && len(cc.Body) > 0 {
				s.WaitClosedPref = "none"
				first := cc.Body[0]
				if isTryRecv(f, first, "done") {
					s.WaitClosedPref = "done"
				} else if ifs, ok := first.(*ast.IfStmt); ok && strings.Contains(f.Src(ifs.Cond), "handlerCalled") {
					s.WaitClosedPref = "entered"
				}
			}
			if cc := clause(f, st, "<-ctx.Done()"); cc != nil {
				for _, bs := range cc.Body {
					src := f.Src(bs)
					if ifs, ok := bs.(*ast.IfStmt); ok && f.Src(ifs.Cond) == "!sent" && strings.Contains(src, "return ctx.Err()") {
						s.DropIfSent = true
					}
					if strings.Contains(src, "e.drop(req)") {
						break
					}
					if strings.Contains(src, "e.rpc[req.MsgID] = func(") {
						s.NopOnCancel = true
					}
				}
			}
		}
	}
	ast.Inspect(do, func(x ast.Node) bool {
		as, ok := x.(*ast.AssignStmt)
		if !ok || len(as.Lhs) != 1 || f.Src(as.Lhs[0]) != "handler" || len(as.Rhs) != 1 {
			return true
		}
		if fl, ok := as.Rhs[0].(*ast.FuncLit); ok && len(fl.Body.List) > 0 {
			s.HandlerLogFirst = strings.Contains(f.Src(fl.Body.List[0]), `"Handler called"`)
		}
		return false
	})
	hsrc := f.Src(do)
	if i := strings.Index(hsrc, "handler := func("); i >= 0 {
		h := hsrc[i:]
		a := strings.Index(h, "CompareAndSwapUint32(&handlerCalled, 0, 1)")
		b := strings.Index(h, "req.Output.Decode(")
		s.CasBeforeDec = a >= 0 && b > a
	}
	// retryUntilAck
	for _, st := range retry.Body.List {
		if d, ok := st.(*ast.DeferStmt); ok && strings.Contains(f.Src(d), "e.removeAck(req.MsgID)") {
			s.RemoveAckDefer = true
		}
	}
	ast.Inspect(retry, func(x ast.Node) bool {
		sel, ok := x.(*ast.SelectStmt)
		if !ok || s.LoopSelect != nil {
			return true
		}
		cs := commCases(f, sel)
		if !contains(cs, "<-timer.C()") {
			return true
		}
		s.LoopSelect = cs
		if cc := clause(f, sel, "<-e.reqCtx.Done()"); cc != nil && len(cc.Body) > 0 {
			s.LoopClosedAck = isTryRecv(f, cc.Body[0], "ackChan")
		}
		if cc := clause(f, sel, "<-timer.C()"); cc != nil {
			for _, bs := range cc.Body {
				src := f.Src(bs)
				if strings.Contains(src, "e.send(") {
					break
				}
				if isTryRecv(f, bs, "ackChan") {
					s.RecheckAck = true
				}
				if ifs, ok := bs.(*ast.IfStmt); ok && strings.Contains(src, "ctx.Err()") && strings.Contains(f.Src(ifs.Body), "return") {
					s.RecheckCtx = true
				}
			}
		}
		return true
	})
	rsrc := f.Src(retry)
	s.RetryLimitCmp = strings.Contains(rsrc, "retries++") && strings.Contains(rsrc, "if retries >= e.maxRetries {")
	s.TimerInterval = strings.Contains(rsrc, "e.clock.Timer(e.retryInterval)") && strings.Contains(rsrc, "timer.Reset(e.retryInterval)")
	// NotifyAcks: the loop over ids
	s.AckUnknown = "other"
	ast.Inspect(acks, func(x ast.Node) bool {
		rng, ok := x.(*ast.RangeStmt)
		if !ok {
			return true
		}
		for _, bs := range rng.Body.List {
			src := f.Src(bs)
			if ifs, ok := bs.(*ast.IfStmt); ok && f.Src(ifs.Cond) == "!ok" && len(ifs.Body.List) > 0 {
				switch last := ifs.Body.List[len(ifs.Body.List)-1].(type) {
				case *ast.BranchStmt:
					if last.Tok == token.CONTINUE {
						s.AckUnknown = "continue"
					} else if last.Tok == token.BREAK {
						s.AckUnknown = "break"
					}
				case *ast.ReturnStmt:
					s.AckUnknown = "return"
				}
			}
			if strings.HasPrefix(src, "close(ch)") {
				s.AckCloses = true
			}
			if strings.HasPrefix(src, "delete(e.ack, id)") {
				s.AckDeletes = true
			}
		}
		return false
	})
	// defaults (options.go)
	def := f.FuncSrc("rpc", "Options.setDefaults")
	s.DefMaxRetries, s.DefIntervalSec = -1, -1
	fmt.Sscanf(after(def, "cfg.MaxRetries = "), "%d", &s.DefMaxRetries)
	fmt.Sscanf(after(def, "cfg.RetryInterval = time.Second * "), "%d", &s.DefIntervalSec)
	fc := f.FuncSrc("rpc", "Engine.ForceClose")
	s.ForceCloseOK = strings.Contains(fc, "e.reqCancel(ErrEngineClosed)") && strings.Contains(fc, "e.Close()")
	for i, dir := range []string{"pool", "telegram"} {
		fd := f.FuncDecl(dir, "errRetryableOnNewConn")
		var set []string
		if fd != nil {
			ast.Inspect(fd, func(x ast.Node) bool {
				if ce, ok := x.(*ast.CallExpr); ok && f.Src(ce.Fun) == "errors.Is" && len(ce.Args) == 2 {
					t := f.Src(ce.Args[1])
					set = append(set, t[strings.LastIndex(t, ".")+1:])
				}
				return true
			})
		}
		if i == 0 {
			s.PoolRetryable = set
		} else {
			s.CliRetryable = set
		}
	}
	return s
}

// Facts emits the source facts shared by C24, C25 and C26 (namespace TdModel.Facts.<prop>).
func Facts(f *hc.Facts) {
	s := ReadSrc(f)
	if !s.OK {
		f.Missing("guardPresent", "rpc.Engine.Do / retryUntilAck / NotifyAcks not found")
		return
	}
	f.Raw("def hookSites : List String := " + leanStrList(s.HookSites) + " -- verifPoint call sites of rpc/engine.go")
	f.Bool("guardPresent", s.GuardPresent, "Do defers: if !CAS(&handlerCalled,0,1) { wait }")
	f.Raw("def guardWait : List String := " + leanStrList(s.GuardWait) + " -- what the deferred guard waits for after a lost CAS")
	f.Bool("handlerCasBeforeDecode", s.CasBeforeDec, "the handler wins CAS(&handlerCalled,0,1) before req.Output.Decode")
	f.Raw("def doSelect : List String := " + leanStrList(s.DoSelect) + " -- cases of Do's final select")
	f.Raw("def loopSelect : List String := " + leanStrList(s.LoopSelect) + " -- cases of the retry loop's select")
	f.Str("waitClosedPref", s.WaitClosedPref, "Do's close branch detects a concurrent result by: done (try-receive) | entered (handlerCalled flag) | none")
	f.Bool("loopClosedAck", s.LoopClosedAck, "the loop's close branch try-receives ackChan first")
	f.Bool("recheckAck", s.RecheckAck, "timer branch: non-blocking <-ackChan (returning) before e.send")
	f.Bool("recheckCtx", s.RecheckCtx, "timer branch: ctx.Err() check (returning) before e.send")
	f.Bool("dropIfSent", s.DropIfSent, "cancel branch: `if !sent { return ctx.Err() }` before the drop request")
	f.Bool("nopOnCancel", s.NopOnCancel, "cancel branch installs a no-op handler before the drop request")
	f.Bool("deleteOnReturn", s.DeleteOnReturn, "Do defers delete(e.rpc, req.MsgID)")
	f.Bool("removeAckDeferred", s.RemoveAckDefer, "retryUntilAck defers e.removeAck(req.MsgID)")
	f.Bool("handlerLogFirst", s.HandlerLogFirst, "the handler's first statement is the \"Handler called\" log record (scheduling point handler.log, before the CAS)")
	f.Str("ackUnknown", s.AckUnknown, "NotifyAcks, id without waiter: what the loop does")
	f.Bool("ackCloses", s.AckCloses, "NotifyAcks closes the waiter's channel")
	f.Bool("ackDeletes", s.AckDeletes, "NotifyAcks deletes the waiter from e.ack")
	f.Bool("retryLimitCmp", s.RetryLimitCmp, "retries++ then `retries >= e.maxRetries` returns RetryLimitReachedErr")
	f.Bool("timerUsesInterval", s.TimerInterval, "timer created and reset with e.retryInterval")
	if s.DefMaxRetries < 0 || s.DefIntervalSec < 0 {
		f.Missing("defaultMaxRetries", "setDefaults pattern not found")
	} else {
		f.Nat("defaultMaxRetries", s.DefMaxRetries, "rpc.Options.setDefaults")
		f.Nat("defaultRetryIntervalSec", s.DefIntervalSec, "rpc.Options.setDefaults")
	}
	f.Bool("forceCloseCancelsWithErrEngineClosed", s.ForceCloseOK, "ForceClose = reqCancel(ErrEngineClosed); Close()")
	f.Raw("def poolRetryable : List String := " + leanStrList(s.PoolRetryable) + " -- errors.Is targets of pool.errRetryableOnNewConn")
	f.Raw("def clientRetryable : List String := " + leanStrList(s.CliRetryable) + " -- errors.Is targets of telegram.errRetryableOnNewConn")
}

func after(s, marker string) string {
	i := strings.Index(s, marker)
	if i < 0 {
		return ""
	}
	return s[i+len(marker):]
}
