package rpcsim

import (
	"fmt"
	"go/ast"
	"strings"

	"verif/harness/hc"
)

func leanStrList(l []string) string {
	q := make([]string, len(l))
	for i, s := range l {
		q[i] = fmt.Sprintf("%q", s)
	}
	return "[" + strings.Join(q, ", ") + "]"
}

// selectCases returns the communication clauses of every select statement in n whose clause
// list contains `marker`, as canonical source strings.
func selectCases(f *hc.Facts, n ast.Node, marker string) []string {
	var out []string
	ast.Inspect(n, func(x ast.Node) bool {
		sel, ok := x.(*ast.SelectStmt)
		if !ok || out != nil {
			return true
		}
		var cs []string
		hit := false
		for _, st := range sel.Body.List {
			cc := st.(*ast.CommClause)
			src := "default"
			if cc.Comm != nil {
				src = f.Src(cc.Comm)
			}
			if src == marker {
				hit = true
			}
			cs = append(cs, src)
		}
		if hit {
			out = cs
		}
		return true
	})
	return out
}

// Facts emits the source facts shared by C24, C25 and C26 (namespace TdModel.Facts.<prop>).
func Facts(f *hc.Facts) {
	do := f.FuncDecl("rpc", "Engine.Do")
	retry := f.FuncDecl("rpc", "Engine.retryUntilAck")
	if do == nil || retry == nil {
		f.Missing("guardPresent", "rpc.Engine.Do / retryUntilAck not found")
		return
	}
	// 1. scheduling points, in source order
	var sites []string
	for _, name := range []string{"Engine.Do", "Engine.retryUntilAck", "Engine.NotifyResult", "Engine.NotifyError", "Engine.Close", "Engine.ForceClose"} {
		fd := f.FuncDecl("rpc", name)
		if fd == nil {
			continue
		}
		ast.Inspect(fd, func(x ast.Node) bool {
			if ce, ok := x.(*ast.CallExpr); ok {
				if id, ok := ce.Fun.(*ast.Ident); ok && id.Name == "verifPoint" && len(ce.Args) == 2 {
					sites = append(sites, strings.TrimPrefix(name, "Engine.")+":"+strings.Trim(f.Src(ce.Args[0]), "\""))
				}
			}
			return true
		})
	}
	f.Raw("def hookSites : List String := " + leanStrList(sites) + " -- verifPoint call sites of rpc/engine.go")

	// 2. repair of D13: a deferred function in Do that claims the handler CAS or waits for done
	guard := false
	ast.Inspect(do, func(x ast.Node) bool {
		if d, ok := x.(*ast.DeferStmt); ok {
			src := f.Src(d)
			if strings.Contains(src, "CompareAndSwapUint32(&handlerCalled, 0, 1)") && strings.Contains(src, "<-done") {
				guard = true
			}
		}
		return true
	})
	f.Bool("guardPresent", guard, "Do defers: if !CAS(&handlerCalled,0,1) { <-done }")
	// the handler itself claims the same CAS before touching Output
	hsrc := f.Src(do)
	casBeforeDecode := false
	if i := strings.Index(hsrc, "handler := func("); i >= 0 {
		h := hsrc[i:]
		a := strings.Index(h, "CompareAndSwapUint32(&handlerCalled, 0, 1)")
		b := strings.Index(h, "req.Output.Decode(")
		casBeforeDecode = a >= 0 && b > a
	}
	f.Bool("handlerCasBeforeDecode", casBeforeDecode, "the handler wins CAS(&handlerCalled,0,1) before req.Output.Decode")

	// 3. repair of D14: the timer branch re-checks ackChan and ctx.Err() before re-sending
	recheck := false
	ast.Inspect(retry, func(x ast.Node) bool {
		cc, ok := x.(*ast.CommClause)
		if !ok || cc.Comm == nil || f.Src(cc.Comm) != "<-timer.C()" {
			return true
		}
		sawAck, sawCtx := false, false
		for _, st := range cc.Body {
			src := f.Src(st)
			if strings.Contains(src, "e.send(") {
				recheck = sawAck && sawCtx
				break
			}
			if sel, ok := st.(*ast.SelectStmt); ok {
				cs := selectCases(f, sel, "<-ackChan")
				if len(cs) == 2 && cs[1] == "default" {
					sawAck = true
				}
			}
			if _, ok := st.(*ast.IfStmt); ok && strings.Contains(src, "ctx.Err()") {
				sawCtx = true
			}
		}
		return true
	})
	f.Bool("recheckPresent", recheck, "retryUntilAck timer branch: non-blocking <-ackChan and ctx.Err() checks before e.send")

	// 4. the two select statements
	f.Raw("def doSelect : List String := " + leanStrList(selectCases(f, do, "<-done")) + " -- cases of Do's final select")
	f.Raw("def loopSelect : List String := " + leanStrList(selectCases(f, retry, "<-timer.C()")) + " -- cases of the retry loop's select")

	// 5. retry accounting
	rsrc := f.Src(retry)
	f.Bool("retryLimitCmp", strings.Contains(rsrc, "retries++") && strings.Contains(rsrc, "if retries >= e.maxRetries {"),
		"retries++ then `retries >= e.maxRetries` returns RetryLimitReachedErr")
	f.Bool("timerUsesInterval", strings.Contains(rsrc, "e.clock.Timer(e.retryInterval)") && strings.Contains(rsrc, "timer.Reset(e.retryInterval)"),
		"timer created and reset with e.retryInterval")

	// 6. defaults (options.go)
	def := f.FuncSrc("rpc", "Options.setDefaults")
	mr, iv := -1, -1
	fmt.Sscanf(after(def, "cfg.MaxRetries = "), "%d", &mr)
	fmt.Sscanf(after(def, "cfg.RetryInterval = time.Second * "), "%d", &iv)
	if mr < 0 || iv < 0 {
		f.Missing("defaultMaxRetries", "setDefaults pattern not found")
	} else {
		f.Nat("defaultMaxRetries", mr, "rpc.Options.setDefaults")
		f.Nat("defaultRetryIntervalSec", iv, "rpc.Options.setDefaults")
	}

	// 7. close paths
	f.Bool("forceCloseCancelsWithErrEngineClosed",
		strings.Contains(f.FuncSrc("rpc", "Engine.ForceClose"), "e.reqCancel(ErrEngineClosed)") &&
			strings.Contains(f.FuncSrc("rpc", "Engine.ForceClose"), "e.Close()"), "ForceClose = reqCancel(ErrEngineClosed); Close()")
	for _, p := range [][2]string{{"pool", "poolRetryable"}, {"telegram", "clientRetryable"}} {
		fd := f.FuncDecl(p[0], "errRetryableOnNewConn")
		var set []string
		if fd != nil {
			ast.Inspect(fd, func(x ast.Node) bool {
				if ce, ok := x.(*ast.CallExpr); ok && f.Src(ce.Fun) == "errors.Is" && len(ce.Args) == 2 {
					s := f.Src(ce.Args[1])
					set = append(set, s[strings.LastIndex(s, ".")+1:])
				}
				return true
			})
		}
		f.Raw(fmt.Sprintf("def %s : List String := %s -- errors.Is targets of %s.errRetryableOnNewConn", p[1], leanStrList(set), p[0]))
	}
}

func after(s, marker string) string {
	i := strings.Index(s, marker)
	if i < 0 {
		return ""
	}
	return s[i+len(marker):]
}
