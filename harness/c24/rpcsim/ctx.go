package rpcsim

import (
	"context"
	"errors"
	"sync"
	"time"
)

// Kinds of context a caller may pass to Do. The model abstracts them all to "the caller's context
// is cancelled or not": the engine must behave the same for every kind (return exactly ctx.Err(),
// one drop request iff sent, same classification at close).
const (
	CtxCancel       = iota // context.WithCancel
	CtxCancelCause         // context.WithCancelCause, cancelled with a custom cause
	CtxDeadline            // a deadline context expiring (Err = context.DeadlineExceeded, custom deadline type)
	CtxTimeoutCause        // context.WithTimeoutCause(long timeout, custom cause) under a cancellable parent
	CtxNested              // WithValue(WithCancel(WithCancelCause(...))) cancelled at the root with a cause
	NumCtxKinds
)

var errCause = errors.New("verif: custom cancellation cause")

type ctxKey struct{}

// deadlineCtx is a context whose deadline is "reached" when the scheduler says so. It supports
// AfterFunc, so contexts derived from it by the standard library are cancelled synchronously
// (no propagation goroutine: the run stays serialised).
type deadlineCtx struct {
	mu    sync.Mutex
	done  chan struct{}
	err   error
	funcs map[int]func()
	n     int
}

func newDeadlineCtx() *deadlineCtx {
	return &deadlineCtx{done: make(chan struct{}), funcs: map[int]func(){}}
}

func (c *deadlineCtx) Deadline() (time.Time, bool) {
	return time.Date(2099, 1, 1, 0, 0, 0, 0, time.UTC), true
}
func (c *deadlineCtx) Done() <-chan struct{} { return c.done }
func (c *deadlineCtx) Value(any) any         { return nil }
func (c *deadlineCtx) Err() error {
	c.mu.Lock()
	defer c.mu.Unlock()
	return c.err
}

// AfterFunc implements the interface context.propagateCancel looks for.
func (c *deadlineCtx) AfterFunc(f func()) func() bool {
	c.mu.Lock()
	if c.err != nil {
		c.mu.Unlock()
		f()
		return func() bool { return false }
	}
	id := c.n
	c.n++
	c.funcs[id] = f
	c.mu.Unlock()
	return func() bool {
		c.mu.Lock()
		defer c.mu.Unlock()
		_, ok := c.funcs[id]
		delete(c.funcs, id)
		return ok
	}
}

func (c *deadlineCtx) expire() {
	c.mu.Lock()
	if c.err != nil {
		c.mu.Unlock()
		return
	}
	c.err = context.DeadlineExceeded
	close(c.done)
	fs := c.funcs
	c.funcs = map[int]func(){}
	c.mu.Unlock()
	for _, f := range fs {
		f()
	}
}

// newCallCtx builds the caller's context of the given kind and the function that cancels it.
func newCallCtx(kind int) (context.Context, func()) {
	switch kind {
	case CtxCancelCause:
		ctx, cancel := context.WithCancelCause(context.Background())
		return ctx, func() { cancel(errCause) }
	case CtxDeadline:
		d := newDeadlineCtx()
		return d, d.expire
	case CtxTimeoutCause:
		parent, cancel := context.WithCancel(context.Background())
		ctx, stop := context.WithTimeoutCause(parent, 1000*time.Hour, errCause)
		return ctx, func() { cancel(); stop() }
	case CtxNested:
		root, cancel := context.WithCancelCause(context.Background())
		mid, stop := context.WithCancel(root)
		return context.WithValue(mid, ctxKey{}, 1), func() { cancel(errCause); stop() }
	}
	ctx, cancel := context.WithCancel(context.Background())
	return ctx, cancel
}
