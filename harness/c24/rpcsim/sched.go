package rpcsim

import (
	"fmt"
	"sort"
	"strings"
	"time"

	"github.com/gotd/td/bin"
	"github.com/gotd/td/rpc"
)

// Option is one thing the scheduler can do next.
type Option struct {
	Kind    string // start sret run dret nres nerr nrun nwrite ack cancel adv close fclose
	ID      int64  // call id / notifier id
	Outcome string // ok err can
	Seq     int32
	Body    uint64
	Target  int64
	Val     uint64
	IDs     []int64
	D       int
	CtxKind int  // kind of the caller's context (ctx.go), start only
	PreCanc bool // the context is already cancelled / expired when Do is called
	Shape   int  // delivery shape of nres / nerr / ack (wire.go); 0 = direct engine call
}

// Label is the model action label of the option.
func (o Option) Label() string {
	switch o.Kind {
	case "start":
		return fmt.Sprintf("start %d %d %d", o.ID, o.Seq, o.Body)
	case "sret", "dret", "nwrite":
		return fmt.Sprintf("%s %d %s", o.Kind, o.ID, o.Outcome)
	case "run", "nrun", "cancel":
		return fmt.Sprintf("%s %d", o.Kind, o.ID)
	case "nres", "nerr":
		return fmt.Sprintf("%s %d %d %d", o.Kind, o.ID, o.Target, o.Val)
	case "ack":
		p := []string{"ack"}
		for _, i := range o.IDs {
			p = append(p, fmt.Sprint(i))
		}
		return strings.Join(p, " ")
	case "adv":
		return fmt.Sprintf("adv %d", o.D)
	case "close", "fclose", "cret":
		return fmt.Sprintf("%s %d", o.Kind, o.ID)
	}
	return o.Kind
}

// Ready lists the thread releases that are possible now (the scheduler never releases a thread
// into a select none of whose channels is ready). allowErr adds failing callback outcomes.
func (s *Sim) Ready(allowSendErr, allowCan, allowDropErr, allowDecodeErr bool) []Option {
	var out []Option
	for _, id := range s.order {
		c := s.calls[id]
		if c.Finished || c.th == nil {
			continue
		}
		// the retry loop's context is observed directly (it is the context given to send)
		retC := c.sendCtx != nil && c.sendCtx.Err() != nil
		switch c.th.point {
		case "send":
			out = append(out, Option{Kind: "sret", ID: id, Outcome: "ok"})
			if allowSendErr {
				out = append(out, Option{Kind: "sret", ID: id, Outcome: "err"})
			}
			if allowCan && c.sendCtx != nil && c.sendCtx.Err() != nil {
				out = append(out, Option{Kind: "sret", ID: id, Outcome: "can"})
			}
		case "retry.wait":
			// released only if one of the cases the source's select really has is ready
			if s.anyReady(s.Src.LoopSelect, map[string]bool{"<-ctx.Done()": retC, "<-e.reqCtx.Done()": s.ReqC, "<-ackChan": c.Acked, "<-timer.C()": c.fired()}) {
				out = append(out, Option{Kind: "run", ID: id})
			}
		case "do.wait":
			if s.anyReady(s.Src.DoSelect, map[string]bool{"<-ctx.Done()": c.UserCanc, "<-e.reqCtx.Done()": s.ReqC, "<-done": c.Done}) {
				out = append(out, Option{Kind: "run", ID: id})
			}
		case "do.guard":
			if s.anyReady(s.Src.GuardWait, map[string]bool{"<-ctx.Done()": c.UserCanc, "<-e.reqCtx.Done()": s.ReqC, "<-done": c.Done}) {
				out = append(out, Option{Kind: "run", ID: id})
			}
		case "drop":
			out = append(out, Option{Kind: "dret", ID: id, Outcome: "ok"})
			if allowDropErr {
				out = append(out, Option{Kind: "dret", ID: id, Outcome: "err"})
			}
		}
	}
	nids := make([]int64, 0, len(s.notifs))
	for k := range s.notifs {
		nids = append(nids, k)
	}
	sort.Slice(nids, func(i, j int) bool { return nids[i] < nids[j] })
	for _, k := range nids {
		n := s.notifs[k]
		switch n.th.point {
		case "notify.invoke", "handler.log", "handler.cas":
			out = append(out, Option{Kind: "nrun", ID: k})
		case "decode":
			if n.Shape == ShapeNestedGz {
				out = append(out, Option{Kind: "nwrite", ID: k, Outcome: "err"})
				continue
			}
			out = append(out, Option{Kind: "nwrite", ID: k, Outcome: "ok"})
			if allowDecodeErr {
				out = append(out, Option{Kind: "nwrite", ID: k, Outcome: "err"})
			}
		}
	}
	return out
}

// anyReady: is one of the select cases present in the source ready? Cases the harness does not
// know are treated as never ready (the thread is then not released into them).
func (s *Sim) anyReady(cases []string, ready map[string]bool) bool {
	for _, c := range cases {
		if ready[c] {
			return true
		}
	}
	return false
}

func (s *Sim) callObs(c *Call) string {
	if c.th.point == "fin" {
		return "fin:" + c.Ret
	}
	return c.th.point
}

func (s *Sim) afterCall(c *Call) {
	if c.th.point == "fin" && !c.Finished {
		c.Finished = true
		c.Ret = Classify(c.Err, c.ctx)
		c.retStamp = len(s.Trace)
		s.checkReturn(c)
	}
}

func (s *Sim) notifObs(n *Notif) string {
	if n.th.point != "fin" {
		return n.th.point
	}
	switch {
	case n.Err == nil:
		return "fin:ok"
	case n.Err == errDecode:
		return "fin:decodeErr"
	case strings.Contains(n.Err.Error(), "handler already called"):
		return "fin:already"
	}
	return "fin:other(" + n.Err.Error() + ")"
}

func (s *Sim) afterNotif(n *Notif) {
	if n.th.point == "fin" && n.hasCas {
		if c := s.calls[n.casFor]; c != nil {
			c.Done = true
		}
	}
}

// Apply performs one option and records the trace event. It returns false when the scheduler
// lost a thread (s.Lost says why).
func (s *Sim) Apply(o Option) bool {
	if !s.apply(o) {
		return false
	}
	return s.pollClosers()
}

// pollClosers observes the return of Close / ForceClose: wg.Wait() must return exactly when every
// registered Do has returned. While calls are pending a closer must not have returned; as soon as
// none is pending every closer must return (event `cret k`).
func (s *Sim) pollClosers() bool {
	if s.Panicked {
		return true
	}
	pending := false
	for _, id := range s.order {
		if !s.calls[id].Finished {
			pending = true
		}
	}
	for _, cl := range s.closers {
		if cl.returned {
			continue
		}
		if pending {
			select {
			case <-cl.done:
				cl.returned = true
				s.viol("C26", "close-returned-early", "Close/ForceClose #%d returned while a Do call was still pending", cl.k)
			default:
			}
			continue
		}
		s.Pending = fmt.Sprintf("cret %d", cl.k)
		select {
		case <-cl.done:
			cl.returned = true
			s.record(s.Pending, "-")
		case <-s.watchdog():
			s.Lost = "Close/ForceClose did not return although every call returned"
			return false
		}
	}
	return true
}

func (s *Sim) apply(o Option) bool {
	s.Pending = o.Label()
	switch o.Kind {
	case "start":
		ctx, cancel := newCallCtx(o.CtxKind)
		c := &Call{ID: o.ID, Seq: o.Seq, Body: o.Body, ctx: ctx, cancel: cancel, Started: true, CtxKind: o.CtxKind}
		if o.PreCanc {
			cancel()
		}
		t := &thread{kind: "call", id: o.ID, resume: make(chan string), call: c}
		c.th = t
		if old, ok := s.calls[o.ID]; ok {
			s.retired = append(s.retired, old) // same message id used again (Scenario.Reuse)
		} else {
			s.order = append(s.order, o.ID)
		}
		s.calls[o.ID] = c
		req := rpc.Request{MsgID: o.ID, SeqNo: o.Seq, Input: bodyEnc{o.Body}, Output: &output{s, c}}
		if !s.spawn(t, func() { c.Err = s.Eng.Do(ctx, req) }) {
			return false
		}
		s.afterCall(c)
		s.record(o.Label(), s.callObs(c))
		if o.PreCanc {
			// Do does not look at its context before the first send: an already cancelled context is
			// the same as a cancellation right after the start
			if !c.Finished {
				c.UserCanc = true
				s.Stats["cancel-pending"]++
			}
			s.record(fmt.Sprintf("cancel %d", o.ID), "-")
		}
	case "sret", "run", "dret":
		c := s.calls[o.ID]
		was := c.th.point
		if s.ReqC {
			c.ownSteps++
		}
		if !s.resume(c.th, o.Outcome) {
			return false
		}
		if o.Kind == "sret" && was == "send" && c.Sends == 1 && o.Outcome == "ok" {
			c.Sent = true
		}
		s.afterCall(c)
		if c.th.point == "do.guard" && was != "do.guard" {
			s.Stats["guard-wait"]++
		}
		if was == "retry.wait" && c.th.point == "send" {
			s.Stats["retransmission"]++
		}
		s.record(o.Label(), s.callObs(c))
	case "nres", "nerr":
		n := &Notif{NID: o.ID, Target: o.Target, IsErr: o.Kind == "nerr", Val: o.Val, Shape: o.Shape}
		t := &thread{kind: "notif", id: o.ID, resume: make(chan string), notif: n}
		n.th = t
		s.notifs[o.ID] = n
		f := func() {
			if o.Shape != ShapeDirect {
				n.Err = s.deliver(wireNotif(o.Shape, o.Target, n.IsErr, o.Val))
				return
			}
			if n.IsErr {
				s.Eng.NotifyError(o.Target, &rpcError{o.Val})
				return
			}
			n.Err = s.Eng.NotifyResult(o.Target, &bin.Buffer{Buf: resultBody(o.Val)})
		}
		if !s.spawn(t, f) {
			return false
		}
		s.afterNotif(n)
		if n.th.point == "notify.invoke" {
			s.Stats["lookup-hit"]++
			if c := s.calls[o.Target]; c != nil && (c.UserCanc || s.ReqC) {
				s.Stats["lookup-hit-after-cancel-or-close"]++
			}
		} else {
			s.Stats["lookup-miss"]++
		}
		s.record(o.Label(), s.notifObs(n))
	case "nrun", "nwrite":
		n := s.notifs[o.ID]
		was := n.th.point
		if !s.resume(n.th, o.Outcome) {
			return false
		}
		if was == "notify.invoke" {
			if n.th.point == "handler.cas" {
				s.Stats["cas-won"]++
			} else {
				s.Stats["cas-lost-or-nop"]++
			}
		}
		s.afterNotif(n)
		s.record(o.Label(), s.notifObs(n))
	case "ack":
		_, before, _ := s.Eng.VerifC24Snapshot()
		panicked := func() (p any) {
			defer func() { p = recover() }()
			if o.Shape != AckDirect {
				if err := s.deliver(wireAck(o.Shape, o.IDs)); err != nil {
					s.viol("*", "ack-delivery-error", "handleMessage(msgs_ack %v, shape %d) failed: %v", o.IDs, o.Shape, err)
				}
				return nil
			}
			s.Eng.NotifyAcks(o.IDs)
			return nil
		}()
		if panicked != nil {
			s.viol("*", "panic", "NotifyAcks(%v) panicked: %v", o.IDs, panicked)
			s.Panicked = true
			s.record(o.Label(), "panic")
			return true
		}
		_, after, _ := s.Eng.VerifC24Snapshot()
		in := func(l []int64, x int64) bool {
			for _, y := range l {
				if y == x {
					return true
				}
			}
			return false
		}
		// which waiters did the batch reach? Follow the loop of NotifyAcks as the source has it
		// (what it does at an unknown id, whether it unregisters), then cross-check with the
		// registrations before / after.
		reg := map[int64]bool{}
		for _, id := range before {
			reg[id] = true
		}
		reached := map[int64]bool{}
		batches := [][]int64{o.IDs}
		if o.Shape == AckSplit {
			h := len(o.IDs) / 2
			batches = [][]int64{o.IDs[:h], o.IDs[h:]}
		}
		for _, batch := range batches {
			for _, id := range batch {
				if reg[id] {
					reached[id] = true
					if s.Src.AckDeletes {
						reg[id] = false
					}
					continue
				}
				if s.Src.AckUnknown != "continue" {
					break
				}
			}
		}
		for _, id := range o.IDs {
			c := s.calls[id]
			if c == nil || !in(before, id) {
				continue
			}
			if s.Src.AckDeletes && in(after, id) {
				// the acknowledgement was received for a pending request but its waiter is still
				// registered: the ack was lost inside the engine (the request will be re-sent /
				// treated as unacknowledged at close)
				s.viol("C25", "ack-lost", "NotifyAcks(%v): request %d was waiting for its acknowledgement and still is", o.IDs, id)
				s.viol("C26", "ack-lost", "NotifyAcks(%v): request %d was waiting for its acknowledgement and still is", o.IDs, id)
				continue
			}
			if reached[id] && s.Src.AckCloses && !c.Acked {
				c.Acked = true
				s.Stats["ack-hit"]++
				if len(o.IDs) > 1 {
					s.Stats["ack-hit-in-batch"]++
				}
			}
		}
		s.record(o.Label(), "-")
	case "cancel":
		c := s.calls[o.ID]
		if !c.Finished {
			c.UserCanc = true
			s.Stats["cancel-pending"]++
		}
		c.cancel()
		s.record(o.Label(), "-")
	case "adv":
		if s.ReqC {
			s.advAfterClose++
		}
		s.clk.Travel(time.Duration(o.D) * time.Second)
		var f []int64
		for _, id := range s.order {
			if c := s.calls[id]; !c.Finished && c.fired() {
				f = append(f, id)
			}
		}
		if len(f) > 0 {
			s.Stats["timer-fired"]++
		}
		s.record(o.Label(), "fired="+ids(f))
	case "close", "fclose":
		t := &thread{kind: "closer", resume: make(chan string)}
		cl := &closer{k: int(o.ID), done: make(chan struct{})}
		s.cur = t
		go func() {
			if o.Kind == "fclose" {
				s.Eng.ForceClose()
			} else {
				s.Eng.Close()
			}
			close(cl.done)
		}()
		if !s.wait(t) { // parked at close.wait: cancellation and the closed flag are in effect
			return false
		}
		if t.point != "close.wait" {
			s.Lost = "closer did not reach close.wait"
			return false
		}
		t.resume <- "" // from here the closer only blocks in wg.Wait
		s.closers = append(s.closers, cl)
		s.Closed = true
		for _, id := range s.order {
			if !s.calls[id].Finished {
				s.Stats[o.Kind+"-pending"]++
				break
			}
		}
		if _, _, closed := s.Eng.VerifC24Snapshot(); !closed {
			s.viol("C26", "close-not-closed", "%s reached wg.Wait without setting the closed flag", o.Kind)
		}
		if o.Kind == "fclose" && !s.ReqC {
			// observed, not assumed: threads are released into the close branches only if the
			// engine's request context really is cancelled
			s.ReqC = s.Eng.VerifC24ReqCancelled()
			s.fcloseAt = len(s.Trace)
			if !s.ReqC {
				s.viol("C26", "force-close-no-cancel", "ForceClose reached wg.Wait without cancelling the request context")
			}
		}
		s.record(o.Label(), "-")
	default:
		s.Lost = "unknown option " + o.Kind
		return false
	}
	return true
}

// Drain ends a run: force-close the engine, then let every thread run to completion
// (first ready thread first, successful callbacks). Afterwards every Do and every
// Close/ForceClose must have returned.
func (s *Sim) Drain() bool {
	if s.Panicked {
		return true
	}
	if !s.ReqC {
		if !s.Apply(Option{Kind: "fclose", ID: 99}) {
			return false
		}
	}
	for i := 0; i < 10000; i++ {
		r := s.Ready(false, false, false, false)
		if len(r) == 0 {
			break
		}
		if !s.Apply(r[0]) {
			return false
		}
	}
	for _, id := range s.order {
		c := s.calls[id]
		if !c.Finished {
			s.viol("C26", "stranded", "call %d is still parked at %q after ForceClose and after every other thread finished", id, c.th.point)
			s.viol("C24", "not-returned", "call %d never returned (parked at %q)", id, c.th.point)
		}
	}
	for _, n := range s.notifs {
		if n.th.point != "fin" {
			s.viol("C24", "not-returned", "notifier %d never returned (parked at %q)", n.NID, n.th.point)
		}
	}
	return true
}

// checkReturn is the property monitor at the return of Do.
func (s *Sim) checkReturn(c *Call) {
	own := func(isErr bool, val uint64) bool {
		for _, n := range s.notifs {
			if n.Target == c.ID && n.IsErr == isErr && n.Val == val {
				return true
			}
		}
		return false
	}
	switch {
	case c.Ret == "ok":
		if len(c.Writes) != 1 || !own(false, c.Writes[0]) {
			s.viol("C24", "wrong-result", "call %d returned nil but its Output holds %v (results addressed to it: see trace)", c.ID, c.Writes)
		}
	case strings.HasPrefix(c.Ret, "rpc"):
		var code uint64
		fmt.Sscanf(c.Ret, "rpc%d", &code)
		if !own(true, code) {
			s.viol("C24", "wrong-result", "call %d returned rpc error %d that was never addressed to it", c.ID, code)
		}
	case strings.HasPrefix(c.Ret, "other"):
		s.viol("C24", "wrong-result", "call %d (context kind %d) returned an unexpected error: %s", c.ID, c.CtxKind, c.Ret)
		if c.UserCanc {
			s.viol("C26", "cancel-error-class", "cancelled call %d (context kind %d, sent=%v, drops=%d) returned %s instead of its context's error", c.ID, c.CtxKind, c.Sent, c.Drops, c.Ret)
		}
	case strings.HasPrefix(c.Ret, "retryLimit"):
		var n int
		fmt.Sscanf(c.Ret, "retryLimit%d", &n)
		if n != s.Cfg.MaxRetries || c.Sends != 1+s.Cfg.MaxRetries {
			s.viol("C25", "send-count", "call %d failed with retry limit %d after %d transmissions, configured limit %d", c.ID, n, c.Sends, s.Cfg.MaxRetries)
		}
	}
	// C26: drop requests and retryability class
	wantDrops := 0
	if c.Ret == "ctx" && c.Sent {
		wantDrops = 1
	}
	if c.Drops != wantDrops {
		s.viol("C26", "drop", "call %d returned %s with sent=%v and issued %d drop requests, want %d", c.ID, c.Ret, c.Sent, c.Drops, wantDrops)
	}
	if !c.UserCanc {
		if c.Ret == "closedRetry" && c.Acked {
			s.viol("C26", "class", "call %d was acknowledged but failed with the retryable ErrEngineClosed", c.ID)
		}
		if c.Ret == "closedNoRetry" && !c.Acked {
			s.viol("C26", "class", "call %d was not acknowledged but failed with the non-retryable close error", c.ID)
		}
	}
	// "promptly": the model's rank bounds a call's own steps (10, +2 per clock travel)
	if s.ReqC && c.ownSteps > 10+2*s.advAfterClose {
		s.viol("C26", "not-prompt", "call %d took %d own steps after ForceClose (bound %d)", c.ID, c.ownSteps, 10+2*s.advAfterClose)
	}
	if c.Ret == "closedRetry" && !s.Closed {
		s.viol("C26", "class", "call %d failed with ErrEngineClosed although the engine was never closed", c.ID)
	}
}

// Summary is the observable part of the final state, in the format of the model's `summary`.
func (s *Sim) Summary() string {
	var p []string
	o := append([]int64{}, s.order...)
	sort.Slice(o, func(i, j int) bool { return o[i] < o[j] })
	for _, id := range o {
		c := s.calls[id]
		w := make([]int64, len(c.Writes))
		for i, x := range c.Writes {
			w[i] = int64(x)
		}
		ws := "-"
		if len(w) > 0 {
			q := make([]string, len(w))
			for i, x := range w {
				q[i] = fmt.Sprint(x)
			}
			ws = strings.Join(q, ",")
		}
		p = append(p, fmt.Sprintf("c%d:%s:sent=%s:sends=%d:drops=%d:acked=%s:w=%s", id, s.callObs(c), b01(c.Sent), c.Sends, c.Drops, b01(c.Acked), ws))
	}
	lg := "-"
	if len(s.Log) > 0 {
		lg = strings.Join(s.Log, ",")
	}
	return strings.Join(p, " ") + " log=" + lg
}

// Line renders the trace as one request line for the Lean driver.
func (s *Sim) Line() string {
	var b strings.Builder
	fmt.Fprintf(&b, "replay %d %d", s.Cfg.MaxRetries, s.Cfg.Interval)
	for _, e := range s.Trace {
		b.WriteString(" | ")
		b.WriteString(e.Label)
		b.WriteString(" > ")
		b.WriteString(e.Obs)
	}
	return b.String()
}
