package rpcsim

import (
	"fmt"

	"github.com/gotd/td/bin"
	"github.com/gotd/td/mt"
	"github.com/gotd/td/mtproto"
	"github.com/gotd/td/proto"
)

// Delivery through the mtproto side that feeds the engine: notifications and acknowledgements are
// encoded as MTProto messages in every shape the protocol allows and pushed through
// Conn.handleMessage (handle_message.go, handle_result.go, handle_ack.go, handle_container.go,
// handle_gzip.go); the model does not know about shapes — routing must be transparent.

// fakeResultID is the constructor id of the harness's result object.
const fakeResultID = 0x7fc24001

// Shapes of a result / error delivery.
const (
	ShapeDirect      = iota // Engine.NotifyResult / NotifyError called directly
	ShapeResult             // rpc_result { body }
	ShapeResultGz           // rpc_result { gzip_packed { body } }
	ShapeContainer          // msg_container [ rpc_result { body } ]
	ShapeGzMessage          // gzip_packed { rpc_result { body } }
	ShapeContainerGz        // msg_container [ rpc_result { gzip_packed { body } } ]
	ShapeNestedGz           // rpc_result { gzip_packed { gzip_packed { body } } }: malformed, must end in a decode error
	NumShapes
)

// Shapes of an acknowledgement delivery.
const (
	AckDirect    = iota // Engine.NotifyAcks
	AckMessage          // msgs_ack
	AckContainer        // msg_container [ msgs_ack ]
	AckGz               // gzip_packed { msgs_ack }
	AckSplit            // msg_container [ msgs_ack(first half), msgs_ack(second half) ]
	NumAckShapes
)

func enc(e bin.Encoder) []byte {
	var b bin.Buffer
	if err := e.Encode(&b); err != nil {
		panic(err)
	}
	return b.Buf
}

func resultBody(val uint64) []byte {
	var b bin.Buffer
	b.PutID(fakeResultID)
	b.PutLong(int64(val))
	return b.Buf
}

func errorMessage(val uint64) string { return fmt.Sprintf("VERIF_%d", val) }

func errorBody(val uint64) []byte {
	return enc(&mt.RPCError{ErrorCode: int(val), ErrorMessage: errorMessage(val)})
}

func gz(data []byte) []byte { return enc(proto.GZIP{Data: data}) }

func rpcResult(target int64, body []byte) []byte {
	return enc(&proto.Result{RequestMessageID: target, Result: body})
}

func container(msgs ...[]byte) []byte {
	c := &proto.MessageContainer{}
	for i, m := range msgs {
		c.Messages = append(c.Messages, proto.Message{ID: int64(7000 + 4*i), SeqNo: 2*i + 1, Bytes: len(m), Body: m})
	}
	return enc(c)
}

// wireNotif encodes a notification in the given shape.
func wireNotif(shape int, target int64, isErr bool, val uint64) []byte {
	body := resultBody(val)
	if isErr {
		body = errorBody(val)
	}
	switch shape {
	case ShapeResult:
		return rpcResult(target, body)
	case ShapeResultGz:
		return rpcResult(target, gz(body))
	case ShapeContainer:
		return container(rpcResult(target, body))
	case ShapeGzMessage:
		return gz(rpcResult(target, body))
	case ShapeContainerGz:
		return container(rpcResult(target, gz(body)))
	case ShapeNestedGz:
		return rpcResult(target, gz(gz(body)))
	}
	panic("bad shape")
}

func wireAck(shape int, ids []int64) []byte {
	ack := func(l []int64) []byte { return enc(&mt.MsgsAck{MsgIDs: l}) }
	switch shape {
	case AckMessage:
		return ack(ids)
	case AckContainer:
		return container(ack(ids))
	case AckGz:
		return gz(ack(ids))
	case AckSplit:
		h := len(ids) / 2
		return container(ack(ids[:h]), ack(ids[h:]))
	}
	panic("bad ack shape")
}

func (s *Sim) conn() *mtproto.Conn {
	if s.mtconn == nil {
		s.mtconn = mtproto.VerifC24NewConn(mtproto.Options{}, s.Eng)
	}
	return s.mtconn
}

// deliver pushes one encoded server message through Conn.handleMessage.
func (s *Sim) deliver(msg []byte) error {
	s.serverMsgID += 4
	return mtproto.VerifC24HandleMessage(s.conn(), s.serverMsgID, &bin.Buffer{Buf: msg})
}
