package rpcsim

import (
	"fmt"
	"strings"
	"time"

	"verif/harness/hc"
)

// Directed is a concrete schedule (list of action labels) over a scenario.
type Directed struct {
	Sc     *Scenario
	Script []string
	Repeat int // Go's select picks among ready branches at random: repeat to see each branch
}

// Check is the part of the run common to C24, C25 and C26.
type Check struct {
	C          *hc.Ctx
	Prop       string
	W          Weights
	Nontrivial func(s *Sim) bool
	Src        Src  // shape of the source under test (ReadSrc)
	Aborted    bool // a schedule blocked reproducibly: the run stops (each further one would cost the watchdog limit)
	lines      []string
	sums       []string
	inputs     []string
}

func (k *Check) input(sc *Scenario, s *Sim) string {
	return fmt.Sprintf("maxRetries=%d interval=%ds%s schedule: %s", sc.Cfg.MaxRetries, sc.Cfg.Interval, s.Setup(), s.Schedule())
}

// Exec runs one schedule. When the scheduler loses a thread (a released goroutine does not
// reach its next scheduling point within the watchdog limit) the same schedule is executed
// again, twice, with a much longer limit: only a thread that blocks every time is a finding
// (the implementation blocks where one of its select branches must be ready) — it is reported
// as a model/implementation disagreement and as a stranded call, with the schedule as input.
func (k *Check) Exec(sc *Scenario, ch Chooser) *Sim {
	sc.Src = k.Src
	s := sc.Run(ch)
	if s.Lost == "" {
		return s
	}
	labels := append(strings.Split(s.Schedule(), "; "), s.Pending)
	if len(s.Trace) == 0 {
		labels = []string{s.Pending}
	}
	first := s
	for attempt := 0; attempt < 2; attempt++ {
		k.C.Count("watchdog-retry")
		s = sc.RunW(&ScriptChooser{Labels: labels}, 2*time.Minute)
		if s.Lost == "" {
			k.C.Note("watchdog fired once (%s) but the same schedule completed on retry: machine load, not a finding", first.Lost)
			return s
		}
	}
	in := k.input(sc, s) + "; " + s.Pending
	k.C.Differ(in, "blocked: "+s.Lost, "the model expects the released thread to reach a scheduling point", "thread blocked in 3 of 3 executions of this schedule")
	key := map[string]string{"C24": "not-returned", "C25": "blocked", "C26": "stranded"}[k.Prop]
	k.C.Fail(key, in, s.Lost)
	k.Aborted = true
	k.C.Note("run stopped after the first reproducibly blocked schedule")
	return nil
}

// One accounts for one executed schedule.
func (k *Check) One(sc *Scenario, s *Sim) error {
	c := k.C
	if s == nil {
		return nil // blocked schedule, already reported by Exec
	}
	in := k.input(sc, s)
	c.Eval(in, k.Nontrivial(s))
	c.Count(fmt.Sprintf("calls=%d", len(s.order)))
	c.Count(fmt.Sprintf("steps=%d0s", len(s.Trace)/10))
	for _, id := range s.order {
		r := s.calls[id].Ret
		r = strings.TrimRight(r, "0123456789")
		c.Count("ret=" + r)
	}
	for key, n := range s.Stats {
		for i := 0; i < n && i < 1; i++ {
			c.Count("runs-with:" + key)
		}
	}
	for _, v := range s.Viol {
		if v.Prop == k.Prop || v.Prop == "*" {
			c.Fail(v.Key, in, v.Detail)
		} else {
			c.Count("violation-of-" + v.Prop + ":" + v.Key)
		}
	}
	if sc.Reuse {
		c.Count("monitor-only:reused-msg-id")
		return nil
	}
	k.lines = append(k.lines, s.Line())
	k.sums = append(k.sums, s.Summary())
	k.inputs = append(k.inputs, in)
	if len(k.lines) >= 4000 {
		return k.Flush()
	}
	return nil
}

// Flush sends the collected traces to the Lean driver and compares.
func (k *Check) Flush() error {
	if len(k.lines) == 0 {
		return nil
	}
	outs, err := k.C.Drv.Batch(k.lines)
	lines, sums, inputs := k.lines, k.sums, k.inputs
	k.lines, k.sums, k.inputs = nil, nil, nil
	if err != nil {
		return err
	}
	for i, o := range outs {
		ok := false
		if strings.HasPrefix(o, "ok ") {
			for _, alt := range strings.Split(strings.TrimPrefix(o, "ok "), " || ") {
				if alt == sums[i] {
					ok = true
				}
			}
		}
		if ok {
			k.C.Res.TracesValidated++
		} else {
			k.C.Differ(inputs[i]+"  ## trace: "+lines[i], "ok "+sums[i], o, "trace conformance")
		}
	}
	return nil
}

// RunDirected executes the concrete schedules.
func (k *Check) RunDirected(ds []Directed) error {
	for _, d := range ds {
		rep := d.Repeat
		if rep == 0 {
			rep = 1
		}
		for i := 0; i < rep && !k.Aborted; i++ {
			ch := &ScriptChooser{Labels: d.Script}
			s := k.Exec(d.Sc, ch)
			if ch.Missing != "" && s != nil {
				// the schedule left the script because Go's select took another ready branch
				k.C.Count("directed-diverged:" + d.Sc.Name)
			}
			k.C.Count("directed:" + d.Sc.Name)
			if err := k.One(d.Sc, s); err != nil {
				return err
			}
		}
	}
	return nil
}

// RunRandom executes n PRNG-chosen schedules over PRNG-chosen scenarios.
func (k *Check) RunRandom(n int) error {
	r := k.C.Rng
	for i := 0; i < n && !k.Aborted; i++ {
		sc := GenScenario(r, k.W)
		ch := &RandomChooser{R: r, EnvBias: hc.Pick(r, 15, 30, 50), StopPct: hc.Pick(r, 0, 0, 2, 5)}
		if err := k.One(sc, k.Exec(sc, ch)); err != nil {
			return err
		}
	}
	return nil
}

// RunDFS enumerates every schedule of each scenario (up to limit schedules per scenario).
// It reports whether every scenario was enumerated completely.
func (k *Check) RunDFS(scs []*Scenario, limit int) (bool, error) {
	complete := true
	for _, sc := range scs {
		if k.Aborted {
			return false, nil
		}
		ch := &DFSChooser{}
		n := 0
		for {
			s := k.Exec(sc, ch)
			n++
			if err := k.One(sc, s); err != nil {
				return false, err
			}
			if !ch.Next() || k.Aborted {
				break
			}
			if n >= limit {
				complete = false
				k.C.Note("DFS of scenario %q stopped after %d schedules (limit)", sc.Name, n)
				break
			}
		}
		k.C.Note("DFS scenario %q: %d schedules", sc.Describe(), n)
		k.C.Count("dfs-scenarios")
	}
	return complete, nil
}
