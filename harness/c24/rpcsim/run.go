package rpcsim

import (
	"fmt"
	"strings"
	"time"

	"verif/harness/hc"
)

// Scenario is the finite set of things that may happen in one run; a schedule is an order.
type Scenario struct {
	Name  string
	Cfg   Config
	Src   Src      // filled in by Check from the repository under test
	Calls []Option // start options, started in this order
	Env   []Option // one-shot environment items
	Reuse bool     // a message id may be used by a second Do after the first returned (mtproto.Conn.Invoke
	// re-invokes the same request after bad_server_salt); such runs are outside the model (fresh ids)
	// and are checked by the monitors only
	Early     bool // notifications / acks / cancels may precede the start of their call
	SendErr   bool
	Can       bool
	DropErr   bool
	DecodeErr bool
	MaxSteps  int
}

// Chooser picks the next option.
type Chooser interface {
	Choose(opts []Option) int
}

func (sc *Scenario) options(s *Sim, started int, used []bool) ([]Option, []int) {
	opts := s.Ready(sc.SendErr, sc.Can, sc.DropErr, sc.DecodeErr)
	src := make([]int, len(opts)) // -1 thread, -2 start, >=0 env index
	for i := range src {
		src[i] = -1
	}
	if started < len(sc.Calls) {
		nx := sc.Calls[started]
		if prev, ok := s.calls[nx.ID]; !ok || (sc.Reuse && prev.Finished) {
			opts = append(opts, nx)
			src = append(src, -2)
		}
	}
	isStarted := func(id int64) bool { _, ok := s.calls[id]; return ok }
	known := func(id int64) bool {
		for _, c := range sc.Calls {
			if c.ID == id {
				return true
			}
		}
		return false
	}
	for i, e := range sc.Env {
		if used[i] {
			continue
		}
		ok := true
		switch e.Kind {
		case "nres", "nerr":
			ok = sc.Early || !known(e.Target) || isStarted(e.Target)
		case "cancel":
			ok = isStarted(e.ID)
		case "ack":
			if !sc.Early {
				for _, id := range e.IDs {
					if known(id) && !isStarted(id) {
						ok = false
					}
				}
			}
		case "close", "fclose":
			ok = !s.Closed || (e.Kind == "fclose" && !s.ReqC)
		}
		if ok {
			opts = append(opts, e)
			src = append(src, i)
		}
	}
	return opts, src
}

// Run executes one schedule of the scenario and drains the engine. It returns the simulator
// (trace, violations, summary).
func (sc *Scenario) Run(ch Chooser) *Sim { return sc.RunW(ch, 0) }

// RunW is Run with an explicit watchdog limit.
func (sc *Scenario) RunW(ch Chooser, watchdog time.Duration) *Sim {
	s := New(sc.Cfg, sc.Src)
	s.Watchdog = watchdog
	defer s.Release()
	used := make([]bool, len(sc.Env))
	started := 0
	max := sc.MaxSteps
	if max == 0 {
		max = 200
	}
	for step := 0; step < max; step++ {
		opts, src := sc.options(s, started, used)
		if len(opts) == 0 {
			break
		}
		k := ch.Choose(opts)
		if k < 0 {
			break
		}
		if k >= len(opts) {
			k = len(opts) - 1
		}
		if !s.Apply(opts[k]) || s.Panicked {
			return s
		}
		switch {
		case src[k] == -2:
			started++
		case src[k] >= 0:
			used[src[k]] = true
		}
	}
	s.Drain()
	return s
}

// RandomChooser picks uniformly with a bias towards thread steps.
type RandomChooser struct {
	R       *hc.RNG
	EnvBias int // percent chance to prefer an environment item when both kinds exist
	StopPct int // percent chance per step to stop early (then the run is drained)
}

func isEnv(o Option) bool {
	switch o.Kind {
	case "sret", "run", "dret", "nrun", "nwrite":
		return false
	}
	return true
}

func (c *RandomChooser) Choose(opts []Option) int {
	if c.StopPct > 0 && c.R.Chance(c.StopPct) {
		return -1
	}
	var env, thr []int
	for i, o := range opts {
		if isEnv(o) {
			env = append(env, i)
		} else {
			thr = append(thr, i)
		}
	}
	switch {
	case len(env) == 0:
		return thr[c.R.Intn(len(thr))]
	case len(thr) == 0:
		return env[c.R.Intn(len(env))]
	case c.R.Chance(c.EnvBias):
		return env[c.R.Intn(len(env))]
	}
	return thr[c.R.Intn(len(thr))]
}

// ScriptChooser follows a list of action labels (a concrete schedule); it stops when the list
// is exhausted. Missing is set when a label was not among the enabled options.
type ScriptChooser struct {
	Labels  []string
	pos     int
	Missing string
}

func (c *ScriptChooser) Choose(opts []Option) int {
	if c.pos >= len(c.Labels) {
		return -1
	}
	want := c.Labels[c.pos]
	for i, o := range opts {
		if o.Label() == want {
			c.pos++
			return i
		}
	}
	var have []string
	for _, o := range opts {
		have = append(have, o.Label())
	}
	c.Missing = fmt.Sprintf("step %d: %q is not enabled (enabled: %s)", c.pos, want, strings.Join(have, "; "))
	return -1
}

// DFSChooser enumerates every sequence of scheduler choices of a scenario (stateless search:
// each schedule is executed from scratch).
type DFSChooser struct {
	path  []int // choice taken at each depth in the current run
	width []int // number of options seen at each depth
	depth int
}

func (c *DFSChooser) Choose(opts []Option) int {
	d := c.depth
	c.depth++
	if d < len(c.path) {
		c.width[d] = len(opts)
		if c.path[d] >= len(opts) {
			c.path[d] = len(opts) - 1
		}
		return c.path[d]
	}
	c.path = append(c.path, 0)
	c.width = append(c.width, len(opts))
	return 0
}

// Next moves to the next schedule; false when the tree is exhausted.
func (c *DFSChooser) Next() bool {
	c.path = c.path[:min(len(c.path), c.depth)]
	c.width = c.width[:len(c.path)]
	for len(c.path) > 0 {
		d := len(c.path) - 1
		if c.path[d]+1 < c.width[d] {
			c.path[d]++
			c.depth = 0
			return true
		}
		c.path = c.path[:d]
		c.width = c.width[:d]
	}
	return false
}

// Schedule renders the trace labels of a run (a replayable schedule).
func (s *Sim) Schedule() string {
	l := make([]string, len(s.Trace))
	for i, e := range s.Trace {
		l[i] = e.Label
	}
	return strings.Join(l, "; ")
}

// Setup renders what a schedule's labels do not say: the kind of each caller context and the wire
// shape of each delivery (only non-default ones).
func (s *Sim) Setup() string {
	var p []string
	for _, id := range s.order {
		if c := s.calls[id]; c.CtxKind != 0 {
			p = append(p, fmt.Sprintf("ctx(%d)=kind%d", id, c.CtxKind))
		}
	}
	for k := int64(0); k < int64(len(s.notifs))+8; k++ {
		if n, ok := s.notifs[k]; ok && n.Shape != 0 {
			p = append(p, fmt.Sprintf("notif(%d)=shape%d", k, n.Shape))
		}
	}
	if len(p) == 0 {
		return ""
	}
	return " [" + strings.Join(p, " ") + "]"
}
