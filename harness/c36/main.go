// C36 — completed entities are ordered by offset, then by descending length.
//
// Facts: the boolean expression of entitySorter.Less is translated from the source (go/ast)
// into a Lean term over aOff aLen bOff bLen; the theorems of TdModel/Props/C36.lean are about
// that regenerated term.  Defect D8 (open known finding): the source's comparator is
// `off< || len>`, not a strict weak order; failures caused by exactly that expression are keyed
// `…:pinned-comparator`, every other failure keeps a generic key (⇒ VIOLATION).  Correspondence: Less on an exhaustive small grid and on random pairs,
// entity.SortEntities / Builder.Complete on random lists with many ties against the model's
// insertion sort (for a strict weak order whose ties are equal (off,len) pairs the sorted
// (off,len) sequence is unique, theorem sorted_unique).  Monitor: the implementation's output
// is a permutation of its input and is ordered (offset ascending, length descending on ties).
package main

import (
	"fmt"
	"go/ast"
	"sort"
	"strconv"
	"strings"

	"github.com/gotd/td/telegram/message/entity"
	"github.com/gotd/td/tg"

	"verif/harness/hc"
)

const pkgDir = "telegram/message/entity"

func main() {
	hc.Main(hc.Spec{Prop: "C36", Facts: facts, Run: run})
}

// ---------------------------------------------------------------------------------------------
// facts: Go boolean expression of Less -> Lean term

func oneLine(s string) string { return strings.Join(strings.Fields(s), " ") }

func facts(f *hc.Facts) {
	// --- the comparator (translator: harness/hc/c36_less.go)
	hc.C36LessFacts(f, pkgDir)

	// --- the rest of sort.Interface and the two call sites (what makes `sort.Sort`'s contract apply)
	f.Bool("lenIsLen", oneLine(f.FuncSrc(pkgDir, "entitySorter.Len")) == "{ return len(e) }", "entitySorter.Len")
	f.Bool("swapIsSwap", oneLine(f.FuncSrc(pkgDir, "entitySorter.Swap")) == "{ e[i], e[j] = e[j], e[i] }", "entitySorter.Swap")
	se := oneLine(f.FuncSrc(pkgDir, "SortEntities"))
	f.Bool("sortViaStdlib", se == "{ sort.Sort(entitySorter(entity)) }" || se == "{ sort.Stable(entitySorter(entity)) }", "SortEntities: "+se)
	// Complete sorts the slice it returns: a call SortEntities(x) where x is the entity slice
	// obtained from Raw and handed to fixEntities.
	calls := false
	if cd := f.FuncDecl(pkgDir, "Builder.Complete"); cd != nil && cd.Body != nil {
		ast.Inspect(cd.Body, func(n ast.Node) bool {
			if c, ok := n.(*ast.CallExpr); ok {
				if id, ok := c.Fun.(*ast.Ident); ok && id.Name == "SortEntities" && len(c.Args) == 1 {
					if a, ok := c.Args[0].(*ast.Ident); ok && a.Name == "entities" {
						calls = true
					}
				}
			}
			return true
		})
	}
	f.Bool("completeCallsSort", calls, "Builder.Complete: "+oneLine(f.FuncSrc(pkgDir, "Builder.Complete")))
}

// ---------------------------------------------------------------------------------------------
// run

type ent struct{ off, ln, kind int }

func mk(e ent) tg.MessageEntityClass {
	switch e.kind % 6 {
	case 0:
		return &tg.MessageEntityBold{Offset: e.off, Length: e.ln}
	case 1:
		return &tg.MessageEntityItalic{Offset: e.off, Length: e.ln}
	case 2:
		return &tg.MessageEntityCode{Offset: e.off, Length: e.ln}
	case 3:
		return &tg.MessageEntityTextURL{Offset: e.off, Length: e.ln, URL: "https://example.org/" + strconv.Itoa(e.kind)}
	case 4:
		return &tg.MessageEntityPre{Offset: e.off, Length: e.ln, Language: "go"}
	}
	return &tg.MessageEntityStrike{Offset: e.off, Length: e.ln}
}

func show(es []tg.MessageEntityClass) string {
	if len(es) == 0 {
		return "-"
	}
	parts := make([]string, len(es))
	for i, e := range es {
		parts[i] = fmt.Sprintf("%d:%d", e.GetOffset(), e.GetLength())
	}
	return strings.Join(parts, ",")
}

// ordered is the specification: offset ascending, for equal offsets length descending.
func ordered(es []tg.MessageEntityClass) (bool, int) {
	for i := 0; i+1 < len(es); i++ {
		a, b := es[i], es[i+1]
		if !(a.GetOffset() < b.GetOffset() || (a.GetOffset() == b.GetOffset() && a.GetLength() >= b.GetLength())) {
			return false, i
		}
	}
	return true, -1
}

func multiset(es []tg.MessageEntityClass) string {
	parts := make([]string, len(es))
	for i, e := range es {
		parts[i] = fmt.Sprintf("%s/%d:%d", e.TypeName(), e.GetOffset(), e.GetLength())
	}
	sort.Strings(parts)
	return strings.Join(parts, ",")
}

func specLess(ao, al, bo, bl int) bool   { return ao < bo || (ao == bo && al > bl) }
func pinnedLess(ao, al, bo, bl int) bool { return ao < bo || al > bl }

// compatible: no entity starts later than another one and is longer — on such lists the pinned
// comparator coincides with the specification's (Lean: `Compatible`).
func compatible(es []tg.MessageEntityClass) bool {
	for _, a := range es {
		for _, b := range es {
			if b.GetOffset() < a.GetOffset() && a.GetLength() > b.GetLength() {
				return false
			}
		}
	}
	return true
}

func genList(r *hc.RNG) []ent {
	n := hc.Pick(r, 0, 1, 2, 2, 3, 3, 4, 5, 6, 8, 12, 13, 20, 40, r.Range(0, 40))
	style := r.Intn(5)
	es := make([]ent, n)
	for i := range es {
		var e ent
		switch style {
		case 0: // many ties: tiny alphabet
			e = ent{r.Intn(3), r.Intn(3), r.Intn(6)}
		case 1: // equal offsets, different lengths
			e = ent{hc.Pick(r, 0, 5), r.Intn(12), r.Intn(6)}
		case 2: // nested / adjacent spans as a formatter produces them
			o := r.Intn(20)
			e = ent{o, r.Range(1, 25-o), r.Intn(6)}
		case 3: // wide range incl. negative and large values
			e = ent{hc.Pick(r, -3, -1, 0, 1, 7, 1<<31-1, 1<<40, r.Intn(100)), hc.Pick(r, -2, 0, 1, 4096, 1<<31, r.Intn(100)), r.Intn(6)}
		default:
			e = ent{r.Intn(10), r.Intn(10), r.Intn(6)}
		}
		es[i] = e
	}
	return es
}

// builderList drives a Builder with nested/adjacent formats and returns the op description and
// the Complete() output.
func builderList(r *hc.RNG) (string, []tg.MessageEntityClass, []tg.MessageEntityClass) {
	var b, raw entity.Builder
	var desc []string
	pieces := []string{"a", "bc", "😀", "x y", "é", "\n", "  ", "z"}
	fm := []func() entity.Formatter{entity.Bold, entity.Italic, entity.Code, entity.Strike, entity.Underline}
	var toks, rtoks []entity.Token
	steps := r.Range(1, 12)
	for s := 0; s < steps; s++ {
		switch r.Intn(5) {
		case 0:
			p := hc.Pick(r, pieces...)
			b.Plain(p)
			raw.Plain(p)
			desc = append(desc, fmt.Sprintf("plain(%q)", p))
		case 1, 2:
			p := hc.Pick(r, pieces...)
			k := r.Range(1, 3)
			var fs, fs2 []entity.Formatter
			for q := 0; q < k; q++ {
				x := r.Intn(len(fm))
				fs = append(fs, fm[x]())
				fs2 = append(fs2, fm[x]())
			}
			b.Format(p, fs...)
			raw.Format(p, fs2...)
			desc = append(desc, fmt.Sprintf("format(%q,%d)", p, k))
		case 3:
			toks = append(toks, b.Token())
			rtoks = append(rtoks, raw.Token())
			desc = append(desc, "token")
		case 4:
			if len(toks) > 0 {
				x := r.Intn(len(fm))
				k := len(toks) - 1
				toks[k].Apply(&b, fm[x]())
				rtoks[k].Apply(&raw, fm[x]())
				toks, rtoks = toks[:k], rtoks[:k]
				desc = append(desc, "apply")
			}
		}
	}
	for k := len(toks) - 1; k >= 0; k-- {
		toks[k].Apply(&b, entity.Bold())
		rtoks[k].Apply(&raw, entity.Bold())
		desc = append(desc, "apply")
	}
	_, unsorted := raw.Raw()
	_, out := b.Complete()
	return strings.Join(desc, " "), unsorted, out
}

func sortSafe(es []tg.MessageEntityClass) (p any) {
	defer func() { p = recover() }()
	entity.SortEntities(es)
	return nil
}

func b01(b bool) string {
	if b {
		return "1"
	}
	return "0"
}

func run(c *hc.Ctx) error {
	r := c.Rng
	var lines, impls []string

	// Is the comparator in the working tree the pinned (defective) expression?  Only then are
	// failures attributed to the known finding.
	_, src, _ := hc.C36LessTerm(hc.NewFacts("C36", c.Repo), pkgDir)
	pinned := src == hc.C36PinnedLessSrc
	c.Note("comparator source: %s (pinned defective expression: %v)", src, pinned)
	// hc keeps the first 10 failures only: report each known-finding key at most twice (the rest is
	// counted in the distribution) so that any other failure is always among the recorded ones.
	knownSeen := map[string]int{}
	fail := func(key, input, detail string) {
		if strings.HasSuffix(key, ":pinned-comparator") {
			knownSeen[key]++
			c.Count("known-finding." + key)
			if knownSeen[key] > 2 {
				return
			}
		}
		c.Fail(key, input, detail)
	}
	lessCheck := func(input string, got bool, ao, al, bo, bl int) {
		want := specLess(ao, al, bo, bl)
		if got == want {
			return
		}
		key := "less-not-spec"
		if pinned && got == pinnedLess(ao, al, bo, bl) {
			key = "comparator-not-spec:pinned-comparator"
		}
		fail(key, input, fmt.Sprintf("Less=%v, specification (offset ascending, then length descending)=%v", got, want))
	}

	// ---- 1. the comparator itself: exhaustive grid, then random pairs
	grid := []int{-1, 0, 1, 2, 3}
	for _, ao := range grid {
		for _, al := range grid {
			for _, bo := range grid {
				for _, bl := range grid {
					got := entity.VerifC36Less(mk(ent{ao, al, 0}), mk(ent{bo, bl, 1}))
					lines = append(lines, fmt.Sprintf("less %d %d %d %d", ao, al, bo, bl))
					impls = append(impls, b01(got))
					c.Eval(lines[len(lines)-1], ao != bo || al != bl)
					c.Count("less.grid")
					lessCheck(lines[len(lines)-1], got, ao, al, bo, bl)
				}
			}
		}
	}
	for k := 0; k < c.N(2000, 200000); k++ {
		v := func() int { return hc.Pick(r, r.Intn(5), r.Intn(100), -r.Intn(5), 1<<31-1, 1<<62, r.Intn(1<<20)) }
		ao, al, bo, bl := v(), v(), v(), v()
		if r.Chance(40) {
			bo = ao
		}
		got := entity.VerifC36Less(mk(ent{ao, al, 2}), mk(ent{bo, bl, 3}))
		lines = append(lines, fmt.Sprintf("less %d %d %d %d", ao, al, bo, bl))
		impls = append(impls, b01(got))
		c.Eval(lines[len(lines)-1], true)
		c.Count("less.random")
		lessCheck(lines[len(lines)-1], got, ao, al, bo, bl)
	}

	// ---- 2. SortEntities on arbitrary lists
	check := func(input string, out []tg.MessageEntityClass, inSet string) {
		perm := multiset(out) == inSet
		if !perm {
			fail("sort-not-permutation", input, "output "+multiset(out)+" is not a permutation of the input "+inSet)
		}
		if ok, at := ordered(out); !ok {
			key := "sort-not-ordered"
			if pinned && perm && !compatible(out) {
				// exactly D8: the input has a pair on which `off< || len>` differs from the specification
				key = "unsorted-output:pinned-comparator"
			}
			fail(key, input, fmt.Sprintf("output %s: position %d (%d:%d) is followed by (%d:%d)", show(out), at,
				out[at].GetOffset(), out[at].GetLength(), out[at+1].GetOffset(), out[at+1].GetLength()))
		}
	}
	// the witness of DESIGN.md D8 always runs first
	fixed := [][]ent{
		{{5, 10, 0}, {0, 2, 1}, {3, 1, 2}, {0, 7, 3}, {2, 9, 4}},
		{{9, 5, 0}, {0, 4, 0}},
		{{0, 1, 0}, {1, 5, 1}, {0, 1, 2}},
	}
	n := c.N(6000, 400000)
	for k := 0; k < n+len(fixed); k++ {
		var es []ent
		if k < len(fixed) {
			es = fixed[k]
		} else {
			es = genList(r)
		}
		in := make([]tg.MessageEntityClass, len(es))
		for i, e := range es {
			in[i] = mk(e)
		}
		input := "sort " + show(in)
		inSet := multiset(in)
		out := append([]tg.MessageEntityClass{}, in...)
		ties := false
		seen := map[[2]int]bool{}
		offs := map[int]bool{}
		for _, e := range es {
			if seen[[2]int{e.off, e.ln}] || offs[e.off] {
				ties = true
			}
			seen[[2]int{e.off, e.ln}] = true
			offs[e.off] = true
		}
		c.Eval(input, len(es) >= 2)
		switch {
		case len(es) < 2:
			c.Count("sort.len<2")
		case ties:
			c.Count("sort.with-ties")
		default:
			c.Count("sort.no-ties")
		}
		c.Count(fmt.Sprintf("sort.len/10=%d", len(es)/10))
		if p := sortSafe(out); p != nil {
			fail("sort-panic", input, fmt.Sprint(p))
			continue
		}
		check(input, out, inSet)
		if k < len(fixed) {
			c.Note("witness %s -> %s", input, show(out))
		}
		if compatible(in) {
			c.Count("sort.compatible")
			lines = append(lines, input)
			impls = append(impls, "compatible "+show(out))
		} else {
			c.Count("sort.incompatible")
			lines = append(lines, input)
			impls = append(impls, "incompatible")
		}
		// the model's decidable monitor evaluated on the implementation's observation
		ok, _ := ordered(out)
		lines = append(lines, "holds "+show(out))
		impls = append(impls, b01(ok))
	}

	// ---- 3. builder-produced lists: Complete() output order
	m := c.N(3000, 200000)
	for k := 0; k < m; k++ {
		desc, unsorted, out := builderList(r)
		input := "complete " + desc
		c.Eval(input, len(out) >= 2)
		c.Count("complete")
		if len(unsorted) != len(out) {
			fail("complete-length", input, fmt.Sprintf("Raw has %d entities, Complete %d", len(unsorted), len(out)))
			continue
		}
		if ok, at := ordered(out); !ok {
			key := "sort-not-ordered"
			if pinned && !compatible(out) {
				key = "unsorted-output:pinned-comparator"
			}
			fail(key, input, fmt.Sprintf("Complete() output %s is not ordered at position %d", show(out), at))
		}
		if compatible(out) {
			c.Count("complete.compatible")
		} else {
			c.Count("complete.incompatible")
		}
		ok, _ := ordered(out)
		lines = append(lines, "holds "+show(out))
		impls = append(impls, b01(ok))
	}

	c.Res.Rule = "Less: every (aOff,aLen,bOff,bLen) in {-1..3}^4 (exhaustive) plus random pairs with 40% equal offsets; SortEntities: lists of length 0..40 in five styles (tiny alphabet with many ties, equal offsets, nested spans, extreme values, uniform), non-trivial = at least two entities; Complete: random builder op sequences with nested tokens; distinct = distinct input line"
	c.PartialNote("defect D8 is open: for lists that are not `compatible` (some entity starts later than another one and is longer) the source's comparator gives sort.Sort no contract, the model predicts nothing and only the monitor runs")
	c.PartialNote("sort.Sort itself is not modelled: only its contract (output is a permutation, no adjacent inversion w.r.t. Less) is assumed, and checked on every run by the monitor")

	outs, err := c.Drv.Batch(lines)
	if err != nil {
		return err
	}
	for i, o := range outs {
		if c.Compare(lines[i], impls[i], o) {
			c.Res.TracesValidated++
		}
	}
	return nil
}
